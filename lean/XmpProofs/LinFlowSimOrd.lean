import XmpProofs.LinFlowSimRows
import XmpProofs.LinFlowTerm
/-! C18: the order-loop heads — `next_order` (player) against the head of the scan's `while (42)`:
skipping invalid orders / `0xfe` markers, the `0xff` end marker, wrap to the restart position or the
entry point. -/
set_option linter.unusedSimpArgs false
set_option linter.unusedVariables false
namespace Xmp.LinFlow

/-- order `o` holds a pattern -/
def isPlay (m : LinMod) (o : Nat) : Prop := o < m.len ∧ m.patOf o < m.npat
/-- order `o` is skipped by both interpreters: no pattern, not an end marker -/
def isSkip (m : LinMod) (o : Nat) : Prop :=
  o < m.len ∧ m.npat ≤ m.patOf o ∧ ¬ (m.marker = true ∧ m.patOf o = 0xff)
/-- order `o` is an S3M / IT end marker -/
def isEndMark (m : LinMod) (o : Nat) : Prop := o < m.len ∧ m.marker = true ∧ m.patOf o = 0xff
/-- all orders in `[a, x)` are skipped -/
def SkipRange (m : LinMod) (a x : Nat) : Prop := ∀ o, a ≤ o → o < x → isSkip m o

instance (m : LinMod) (o : Nat) : Decidable (isPlay m o) := by unfold isPlay; infer_instance
instance (m : LinMod) (o : Nat) : Decidable (isSkip m o) := by unfold isSkip; infer_instance
instance (m : LinMod) (o : Nat) : Decidable (isEndMark m o) := by unfold isEndMark; infer_instance

/-- the module class of the property (what the four loaders produce in the vocabulary) -/
structure ModWF (m : LinMod) : Prop where
  fx : ∀ p ∈ m.pats, ∀ fx ∈ p, fx.WF
  rows : ∀ p ∈ m.pats, p ≠ []
  /-- at most 256 rows per pattern: the scan's 512-row runaway guard (`row_count_total`, reset at the
  bottom of every order) never fires -/
  rowsLe : ∀ p ∈ m.pats, p.length ≤ 256
  spd : 1 ≤ m.spd
  bpm : 20 ≤ m.bpm
  len : m.len ≤ 256
  rst : m.rst < m.len
  /-- marker formats (S3M, IT, and MOD / XM under a player mode with `QUIRK_MARKER`): pattern numbers
  0xfe / 0xff are never real patterns -/
  mkNpat : m.marker = true → m.npat ≤ 254

theorem order_cases (m : LinMod) (hw : ModWF m) (o : Nat) (ho : o < m.len) :
    isPlay m o ∨ isSkip m o ∨ isEndMark m o := by
  unfold isPlay isSkip isEndMark
  by_cases h1 : m.patOf o < m.npat
  · exact Or.inl ⟨ho, h1⟩
  · by_cases h2 : m.marker = true ∧ m.patOf o = 0xff
    · exact Or.inr (Or.inr ⟨ho, h2.1, h2.2⟩)
    · exact Or.inr (Or.inl ⟨ho, by omega, h2⟩)

theorem endMark_not_play (m : LinMod) (hw : ModWF m) (o : Nat) (h : isEndMark m o) : ¬ isPlay m o := by
  intro hp
  have := hw.mkNpat h.2.1
  have h2 := hp.2
  rw [h.2.2] at h2
  omega

theorem skip_not_play (m : LinMod) (o : Nat) (h : isSkip m o) : ¬ isPlay m o := by
  intro hp; have := hp.2; have := h.2.1; omega

/-- from any order: a (possibly empty) range of skipped orders, then a playable order, an end marker,
or the end of the order list -/
theorem walk_cases (m : LinMod) (hw : ModWF m) : ∀ (k a : Nat), a + k = m.len →
    ∃ x, a ≤ x ∧ x ≤ m.len ∧ SkipRange m a x ∧ (isPlay m x ∨ isEndMark m x ∨ x = m.len) := by
  intro k
  induction k with
  | zero =>
    intro a ha
    exact ⟨a, Nat.le_refl _, by omega, fun o h1 h2 => by omega, Or.inr (Or.inr (by omega))⟩
  | succ k ih =>
    intro a ha
    have hlt : a < m.len := by omega
    rcases order_cases m hw a hlt with h | h | h
    · exact ⟨a, Nat.le_refl _, by omega, fun o h1 h2 => by omega, Or.inl h⟩
    · obtain ⟨x, h1, h2, h3, h4⟩ := ih (a + 1) (by omega)
      refine ⟨x, by omega, h2, ?_, h4⟩
      intro o ho1 ho2
      by_cases hoa : o = a
      · subst hoa; exact h
      · exact h3 o (by omega) ho2
    · exact ⟨a, Nat.le_refl _, by omega, fun o h1 h2 => by omega, Or.inr (Or.inl h)⟩

/-! ## the scan's `while (42)` head, one iteration -/

/-- `sequence_control[ord] = chain` unless the order belongs to some sequence already (`ep ≠ 0`) -/
def claimCtl (ep chain ord : Nat) (ctl : List Nat) : List Nat :=
  if ep ≠ 0 ∧ ctl.getD ord 0xff ≠ 0xff then ctl else ctl.set ord chain

/-- the body of the `while (42)` for an order holding a pattern (after `orders_since_last_valid++`) -/
def procValid (m : LinMod) (ep chain fuel ord : Nat) (st1 : ScanSt) : Outcome :=
  if ep ≠ 0 ∧ st1.ctl.getD ord 0xff ≠ 0xff then .finished st1 ord 0
  else if cntAt st1.cnt ord 0 ≠ 0 then .finished { st1 with ctl := st1.ctl.set ord chain } ord 0
  else
    match scanRows ord (m.rowsOf (m.patOf ord)) 0 (recordInfo ep ord { st1 with ctl := st1.ctl.set ord chain }) with
    | .endMod st' row => .finished st' ord row
    | .done st' ord2 =>
      scanOrders m ep chain fuel (ord2.getD (ord + 1))
        { st' with frameCount := st'.frameCount + st'.rowCount * st'.speed, rowCount := 0, rowCountTotal := 0 }

theorem scanOrders_skip (m : LinMod) (ep chain fuel nord : Nat) (st : ScanSt) (hs : isSkip m nord)
    (hosv : st.osv ≤ 512) :
    scanOrders m ep chain (fuel + 1) nord st =
      scanOrders m ep chain fuel (nord + 1) { st with osv := st.osv + 1, ctl := claimCtl ep chain nord st.ctl } := by
  obtain ⟨h1, h2, h3⟩ := hs
  have hnw : ¬ nord ≥ m.len := by omega
  have hend : (m.marker && m.patOf nord == 0xff) = false := by
    cases hm : m.marker
    · simp
    · simp only [Bool.true_and, beq_eq_false_iff_ne, ne_eq]
      intro h; exact h3 ⟨hm, h⟩
  have hosv' : ¬ st.osv > 512 := by omega
  have hp : m.patOf nord ≥ m.npat := h2
  rw [scanOrders]
  simp only [hosv', if_false, hnw, decide_false, Bool.false_and, Bool.false_eq_true, hend, hp, if_true, claimCtl]
  split <;> rfl

theorem scanOrders_endMark (m : LinMod) (ep chain fuel nord : Nat) (st : ScanSt) (hs : isEndMark m nord)
    (hnp : m.npat ≤ 254) (hosv : st.osv ≤ 512) :
    scanOrders m ep chain (fuel + 1) nord st =
      scanOrders m ep chain fuel (m.len + 1)
        { st with osv := st.osv + 1, ctl := claimCtl ep chain nord st.ctl, endMark := some nord } := by
  obtain ⟨h1, h2, h3⟩ := hs
  have hnw : ¬ nord ≥ m.len := by omega
  have hend : (m.marker && m.patOf nord == 0xff) = true := by simp [h2, h3]
  have hosv' : ¬ st.osv > 512 := by omega
  have hp : m.patOf nord ≥ m.npat := by omega
  rw [scanOrders]
  simp only [hosv', if_false, hnw, decide_false, Bool.false_and, Bool.false_eq_true, hend, hp, if_true, claimCtl]
  split <;> rfl

theorem scanOrders_play (m : LinMod) (ep chain fuel nord : Nat) (st : ScanSt) (hs : isPlay m nord)
    (hosv : st.osv ≤ 512) :
    scanOrders m ep chain (fuel + 1) nord st = procValid m ep chain fuel nord { st with osv := st.osv + 1 } := by
  obtain ⟨h1, h2⟩ := hs
  have hnw : ¬ nord ≥ m.len := by omega
  have hosv' : ¬ st.osv > 512 := by omega
  have hp : ¬ m.patOf nord ≥ m.npat := by omega
  rw [scanOrders]
  simp only [hosv', if_false, hnw, decide_false, Bool.false_and, Bool.false_eq_true, hp, procValid]
  rfl

/-- the wrapped iteration (`++ord >= len`): continue at the restart order `R` -/
theorem scanOrders_wrap_play (m : LinMod) (ep chain fuel nord : Nat) (st : ScanSt) (hw : nord ≥ m.len)
    (hnp : m.marker = true → m.npat ≤ 254)
    (hs : isPlay m (restartOrd m ep chain st.ctl st.endMark)) (hosv : st.osv ≤ 512) :
    scanOrders m ep chain (fuel + 1) nord st =
      procValid m ep chain fuel (restartOrd m ep chain st.ctl st.endMark) { st with osv := st.osv + 1, endMark := none } := by
  obtain ⟨h1, h2⟩ := hs
  have hosv' : ¬ st.osv > 512 := by omega
  have hp : ¬ m.patOf (restartOrd m ep chain st.ctl st.endMark) ≥ m.npat := by omega
  have hend : (m.marker && m.patOf (restartOrd m ep chain st.ctl st.endMark) == 0xff) = false := by
    cases hm : m.marker
    · simp
    · have := hnp hm
      simp only [Bool.true_and, beq_eq_false_iff_ne, ne_eq]
      omega
  rw [scanOrders]
  simp only [hosv', if_false, hw, decide_true, Bool.true_and, if_true, hend, Bool.false_eq_true, hp, procValid]
  rfl

theorem scanOrders_wrap_skip (m : LinMod) (ep chain fuel nord : Nat) (st : ScanSt) (hw : nord ≥ m.len)
    (hs : isSkip m (restartOrd m ep chain st.ctl st.endMark)) (hosv : st.osv ≤ 512) :
    scanOrders m ep chain (fuel + 1) nord st =
      scanOrders m ep chain fuel (restartOrd m ep chain st.ctl st.endMark + 1)
        { st with osv := st.osv + 1, ctl := claimCtl ep chain (restartOrd m ep chain st.ctl st.endMark) st.ctl,
                  endMark := none } := by
  obtain ⟨h1, h2, h3⟩ := hs
  have hosv' : ¬ st.osv > 512 := by omega
  have hp : m.patOf (restartOrd m ep chain st.ctl st.endMark) ≥ m.npat := h2
  have hend : (m.marker && m.patOf (restartOrd m ep chain st.ctl st.endMark) == 0xff) = false := by
    cases hm : m.marker
    · simp
    · simp only [Bool.true_and, beq_eq_false_iff_ne, ne_eq]
      intro h; exact h3 ⟨hm, h⟩
  rw [scanOrders]
  simp only [hosv', if_false, hw, decide_true, Bool.true_and, if_true, hend, Bool.false_eq_true, hp, claimCtl]
  split <;> rfl

/-! ## what a run of skipped orders does to `sequence_control` -/

structure CtlKeep (m : LinMod) (ep chain : Nat) (c c' : List Nat) : Prop where
  len : c'.length = c.length
  /-- orders holding a pattern are untouched -/
  play : ∀ o, isPlay m o → c'.getD o 0xff = c.getD o 0xff
  /-- outside the main sequence only free orders are claimed -/
  used : ep ≠ 0 → ∀ o, c.getD o 0xff ≠ 0xff → c'.getD o 0xff = c.getD o 0xff
  /-- whatever changes becomes `chain` -/
  chg : ∀ o, c'.getD o 0xff = c.getD o 0xff ∨ c'.getD o 0xff = chain

theorem CtlKeep.refl (m : LinMod) (ep chain : Nat) (c : List Nat) : CtlKeep m ep chain c c :=
  ⟨rfl, fun _ _ => rfl, fun _ _ _ => rfl, fun _ => Or.inl rfl⟩

theorem CtlKeep.trans {m : LinMod} {ep chain : Nat} {a b c : List Nat} (h1 : CtlKeep m ep chain a b)
    (h2 : CtlKeep m ep chain b c) : CtlKeep m ep chain a c := by
  refine ⟨by rw [h2.len, h1.len], fun o ho => by rw [h2.play o ho, h1.play o ho], ?_, ?_⟩
  · intro he o ho
    have := h1.used he o ho
    rw [h2.used he o (by rw [this]; exact ho), this]
  · intro o
    rcases h2.chg o with h | h
    · rw [h]; exact h1.chg o
    · exact Or.inr h

theorem claimCtl_keep (m : LinMod) (ep chain ord : Nat) (c : List Nat) (hnp : ¬ isPlay m ord) :
    CtlKeep m ep chain c (claimCtl ep chain ord c) := by
  unfold claimCtl
  split
  · exact CtlKeep.refl m ep chain c
  · rename_i hc
    refine ⟨by simp, ?_, ?_, ?_⟩
    · intro o ho
      have : ord ≠ o := by intro h; subst h; exact hnp ho
      rw [getD_set_ne _ _ _ _ _ this]
    · intro he o ho
      have : ord ≠ o := by
        intro h; subst h; exact hc ⟨he, ho⟩
      rw [getD_set_ne _ _ _ _ _ this]
    · intro o
      by_cases hoo : ord = o
      · subst hoo
        by_cases hl : ord < c.length
        · right; rw [getD_set_eq _ _ _ _ hl]
        · left; rw [List.set_eq_of_length_le (by omega)]
      · left; rw [getD_set_ne _ _ _ _ _ hoo]

/-- the scan over a run of skipped orders -/
theorem scan_walk (m : LinMod) (ep chain : Nat) : ∀ (k fuel a : Nat) (st : ScanSt),
    SkipRange m a (a + k) → st.osv + k ≤ 513 → scanOrders m ep chain fuel a st ≠ .noFuel →
    ∃ fuel' c', fuel' + k = fuel ∧ CtlKeep m ep chain st.ctl c' ∧
      scanOrders m ep chain fuel a st = scanOrders m ep chain fuel' (a + k) { st with osv := st.osv + k, ctl := c' } := by
  intro k
  induction k with
  | zero =>
    intro fuel a st _ _ _
    exact ⟨fuel, st.ctl, rfl, CtlKeep.refl .., rfl⟩
  | succ k ih =>
    intro fuel a st hr hosv hne
    cases fuel with
    | zero => exact absurd rfl hne
    | succ fuel =>
      have hsk : isSkip m a := hr a (Nat.le_refl _) (by omega)
      have h1 := scanOrders_skip m ep chain fuel a st hsk (by omega)
      rw [h1] at hne
      obtain ⟨fuel', c', hf, hk, he⟩ := ih fuel (a + 1) _ (fun o h1 h2 => hr o (by omega) (by omega))
        (by show st.osv + 1 + k ≤ 513; omega) hne
      refine ⟨fuel', c', by omega, (claimCtl_keep m ep chain a st.ctl (skip_not_play m a hsk)).trans hk, ?_⟩
      rw [h1, he]
      have e1 : a + 1 + k = a + (k + 1) := by omega
      have e2 : st.osv + 1 + k = st.osv + (k + 1) := by omega
      simp only [e1, e2]

theorem belowEp_eq (ep : Nat) (em : Option Nat) : belowEp ep em = true ↔ ∃ x, em = some x ∧ x < ep := by
  cases em with
  | none => simp [belowEp]
  | some x => simp [belowEp]

theorem restartOrd_eq (m : LinMod) (ep chain : Nat) (c : List Nat) (em : Option Nat) (hrst : m.rst < m.len) :
    restartOrd m ep chain c em =
      if isPlay m m.rst ∧ belowEp ep em = false ∧ c.getD m.rst 0xff = chain then m.rst else ep := by
  unfold restartOrd isPlay
  by_cases h1 : m.patOf m.rst < m.npat
  · by_cases h2 : belowEp ep em = true
    · have : (m.rst > m.len ∨ m.patOf m.rst ≥ m.npat ∨ belowEp ep em = true) := Or.inr (Or.inr h2)
      rw [if_pos this, if_neg (by intro h; rw [h2] at h; exact absurd h.2.1 (by decide))]
    · have h2' : belowEp ep em = false := by cases hb : belowEp ep em <;> simp_all
      have : ¬ (m.rst > m.len ∨ m.patOf m.rst ≥ m.npat ∨ belowEp ep em = true) := by
        intro h; rcases h with h | h | h
        · omega
        · omega
        · exact h2 h
      rw [if_neg this]
      by_cases h3 : c.getD m.rst 0xff = chain
      · rw [if_pos h3, if_pos ⟨⟨hrst, h1⟩, h2', h3⟩]
      · rw [if_neg h3, if_neg (by intro h; exact h3 h.2.2)]
  · have : (m.rst > m.len ∨ m.patOf m.rst ≥ m.npat ∨ belowEp ep em = true) := Or.inr (Or.inl (by omega))
    rw [if_pos this, if_neg (by intro h; exact h1 h.1.2)]

/-- where the order-loop heads of both interpreters end up from `nord`: `o1` is the first playable
order from the entry point `ep`, `U` the decision "`mod->rst` belongs to this sequence"; the walk stops at
`x` (a playable order, an end marker, or the end of the order list); an end marker below the entry point
restarts at the entry point -/
def Target (m : LinMod) (ep o1 : Nat) (U : Prop) (nord o : Nat) : Prop :=
  ∃ x, nord ≤ x ∧ SkipRange m nord x ∧
    ((isPlay m x ∧ o = x) ∨
     ((isEndMark m x ∨ m.len ≤ x) ∧ ((U ∧ ¬ x < ep ∧ o = m.rst) ∨ ((¬ U ∨ x < ep) ∧ o = o1))))

theorem Target.direct {m : LinMod} {ep o1 : Nat} {U : Prop} {nord : Nat} (x : Nat) (h1 : nord ≤ x)
    (h2 : SkipRange m nord x) (h3 : isPlay m x) : Target m ep o1 U nord x :=
  ⟨x, h1, h2, Or.inl ⟨h3, rfl⟩⟩
theorem Target.wrapRst {m : LinMod} {ep o1 : Nat} {U : Prop} {nord : Nat} (x : Nat) (h1 : nord ≤ x)
    (h2 : SkipRange m nord x) (h3 : isEndMark m x ∨ m.len ≤ x) (h4 : U) (h5 : ¬ x < ep) : Target m ep o1 U nord m.rst :=
  ⟨x, h1, h2, Or.inr ⟨h3, Or.inl ⟨h4, h5, rfl⟩⟩⟩
theorem Target.wrapEp {m : LinMod} {ep o1 : Nat} {U : Prop} {nord : Nat} (x : Nat) (h1 : nord ≤ x)
    (h2 : SkipRange m nord x) (h3 : isEndMark m x ∨ m.len ≤ x) (h4 : ¬ U ∨ x < ep) : Target m ep o1 U nord o1 :=
  ⟨x, h1, h2, Or.inr ⟨h3, Or.inr ⟨h4, rfl⟩⟩⟩

theorem scanOrders_fuel_pos (m : LinMod) (ep chain fuel nord : Nat) (st : ScanSt)
    (h : scanOrders m ep chain fuel nord st ≠ .noFuel) : ∃ f, fuel = f + 1 := by
  cases fuel with
  | zero => exact absurd rfl h
  | succ f => exact ⟨f, rfl⟩

theorem endMark_none_eq (st : ScanSt) (h : st.endMark = none) (k : Nat) (c : List Nat) :
    ({ st with osv := k, ctl := c, endMark := none } : ScanSt) = { st with osv := k, ctl := c } := by
  cases st; simp only at h; subst h; rfl

/-- **The head of the scan's order loop**, from the end of a pattern (`orders_since_last_valid = 0`, no end
marker pending) to the next order holding a pattern: never the sanity exit, never the end-marker exit. -/
theorem scan_head (m : LinMod) (ep chain o1 : Nat) (hw : ModWF m) (hep : ep < m.len)
    (hstart : SkipRange m ep o1) (ho1 : isPlay m o1) (hepo1 : ep ≤ o1)
    (fuel nord : Nat) (st : ScanSt) (hosv : st.osv = 0) (hem : st.endMark = none)
    (hne : scanOrders m ep chain fuel nord st ≠ .noFuel) :
    ∃ o fuel' k c', isPlay m o ∧ fuel' < fuel ∧ CtlKeep m ep chain st.ctl c' ∧
      scanOrders m ep chain fuel nord st = procValid m ep chain fuel' o { st with osv := k, ctl := c' } ∧
      Target m ep o1 (isPlay m m.rst ∧ st.ctl.getD m.rst 0xff = chain) nord o := by
  have hlen := hw.len
  -- the walk from `nord`
  obtain ⟨x, hx1, hx2, hx3, hx4⟩ : ∃ x, nord ≤ x ∧ (x ≤ m.len ∨ x = nord) ∧ SkipRange m nord x ∧
      (isPlay m x ∨ isEndMark m x ∨ m.len ≤ x) := by
    by_cases hn : nord ≤ m.len
    · obtain ⟨x, h1, h2, h3, h4⟩ := walk_cases m hw (m.len - nord) nord (by omega)
      refine ⟨x, h1, Or.inl h2, h3, ?_⟩
      rcases h4 with h | h | h
      · exact Or.inl h
      · exact Or.inr (Or.inl h)
      · exact Or.inr (Or.inr (by omega))
    · exact ⟨nord, Nat.le_refl _, Or.inr rfl, fun o h1 h2 => by omega, Or.inr (Or.inr (by omega))⟩
  have hk : x - nord ≤ m.len := by omega
  have hxe : nord + (x - nord) = x := by omega
  obtain ⟨f1, c1, hf1, hk1, he1⟩ := scan_walk m ep chain (x - nord) fuel nord st (by rw [hxe]; exact hx3)
    (by omega) hne
  rw [hxe] at he1
  rw [he1] at hne
  obtain ⟨f2, hf2⟩ := scanOrders_fuel_pos _ _ _ _ _ _ hne
  subst hf2
  rcases hx4 with hplay | hwrap
  · -- a playable order right away
    refine ⟨x, f2, st.osv + (x - nord) + 1, c1, hplay, by omega, hk1, ?_, Target.direct x hx1 hx3 hplay⟩
    rw [he1, scanOrders_play m ep chain f2 x _ hplay (by show st.osv + (x - nord) ≤ 512; omega)]
  · -- end marker or end of the order list: get to the wrapped iteration
    obtain ⟨f3, nord3, k3, c3, em3, hf3, hn3, hk3, hc3, hem3, he3⟩ : ∃ f3 nord3 k3 c3 em3, f3 < fuel ∧ m.len ≤ nord3 ∧ k3 ≤ m.len ∧
        CtlKeep m ep chain st.ctl c3 ∧ (belowEp ep em3 = true ↔ x < ep) ∧
        scanOrders m ep chain fuel nord st =
          scanOrders m ep chain (f3 + 1) nord3 { st with osv := k3, ctl := c3, endMark := em3 } ∧
        scanOrders m ep chain (f3 + 1) nord3 { st with osv := k3, ctl := c3, endMark := em3 } ≠ .noFuel := by
      rcases hwrap with hmark | hge
      · have hxl : x < m.len := hmark.1
        have h2 := scanOrders_endMark m ep chain f2 x { st with osv := st.osv + (x - nord), ctl := c1 } hmark
          (hw.mkNpat hmark.2.1) (by show st.osv + (x - nord) ≤ 512; omega)
        rw [h2] at hne
        obtain ⟨f3, hf3⟩ := scanOrders_fuel_pos _ _ _ _ _ _ hne
        subst hf3
        refine ⟨f3, m.len + 1, st.osv + (x - nord) + 1, claimCtl ep chain x c1, some x, by omega, by omega, by omega,
          hk1.trans (claimCtl_keep m ep chain x c1 (endMark_not_play m hw x hmark)), ?_, ?_, hne⟩
        · simp [belowEp]
        · rw [he1, h2]
      · refine ⟨f2, x, st.osv + (x - nord), c1, none, by omega, hge, by omega, hk1, ?_, ?_, ?_⟩
        · simp only [belowEp]; constructor
          · intro h; cases h
          · intro h; omega
        · rw [he1]
          have : ({ st with osv := st.osv + (x - nord), ctl := c1 } : ScanSt) =
              { st with osv := st.osv + (x - nord), ctl := c1, endMark := none } :=
            (endMark_none_eq st hem _ _).symm
          rw [this]
        · have : ({ st with osv := st.osv + (x - nord), ctl := c1 } : ScanSt) =
              { st with osv := st.osv + (x - nord), ctl := c1, endMark := none } :=
            (endMark_none_eq st hem _ _).symm
          rw [← this]; exact hne
    clear hne he1
    obtain ⟨he3, hne3⟩ := he3
    have hR := restartOrd_eq m ep chain c3 em3 hw.rst
    by_cases hU : (isPlay m m.rst ∧ st.ctl.getD m.rst 0xff = chain) ∧ ¬ x < ep
    · have hb : belowEp ep em3 = false := by
        cases hbb : belowEp ep em3
        · rfl
        · exact absurd (hem3.mp hbb) hU.2
      have hU' : isPlay m m.rst ∧ belowEp ep em3 = false ∧ c3.getD m.rst 0xff = chain :=
        ⟨hU.1.1, hb, by rw [hc3.play _ hU.1.1]; exact hU.1.2⟩
      rw [if_pos hU'] at hR
      have h4 := scanOrders_wrap_play m ep chain f3 nord3 { st with osv := k3, ctl := c3, endMark := em3 } hn3 hw.mkNpat
        (by show isPlay m (restartOrd m ep chain c3 em3); rw [hR]; exact hU.1.1) (by show k3 ≤ 512; omega)
      refine ⟨m.rst, f3, k3 + 1, c3, hU.1.1, hf3, hc3, ?_, Target.wrapRst x hx1 hx3 hwrap hU.1 hU.2⟩
      rw [he3, h4]
      show procValid m ep chain f3 (restartOrd m ep chain c3 em3) { st with osv := k3 + 1, ctl := c3, endMark := none } = _
      rw [hR, endMark_none_eq st hem]
    · have hU' : ¬ (isPlay m m.rst ∧ belowEp ep em3 = false ∧ c3.getD m.rst 0xff = chain) := by
        intro h
        apply hU
        refine ⟨⟨h.1, by rw [← hc3.play _ h.1]; exact h.2.2⟩, ?_⟩
        intro hlt
        have := hem3.mpr hlt
        rw [h.2.1] at this; cases this
      have hT : ¬ (isPlay m m.rst ∧ st.ctl.getD m.rst 0xff = chain) ∨ x < ep := by
        by_cases hlt : x < ep
        · exact Or.inr hlt
        · exact Or.inl (fun h => hU ⟨h, hlt⟩)
      rw [if_neg hU'] at hR
      by_cases hepl : ep = o1
      · -- the entry point itself holds a pattern
        have hpl : isPlay m ep := by rw [hepl]; exact ho1
        have h4 := scanOrders_wrap_play m ep chain f3 nord3 { st with osv := k3, ctl := c3, endMark := em3 } hn3 hw.mkNpat
          (by show isPlay m (restartOrd m ep chain c3 em3); rw [hR]; exact hpl) (by show k3 ≤ 512; omega)
        refine ⟨o1, f3, k3 + 1, c3, ho1, hf3, hc3, ?_, Target.wrapEp x hx1 hx3 hwrap hT⟩
        rw [he3, h4]
        show procValid m ep chain f3 (restartOrd m ep chain c3 em3) { st with osv := k3 + 1, ctl := c3, endMark := none } = _
        rw [hR, hepl, endMark_none_eq st hem]
      · have hsk : isSkip m ep := hstart ep (Nat.le_refl _) (by omega)
        have h4 := scanOrders_wrap_skip m ep chain f3 nord3 { st with osv := k3, ctl := c3, endMark := em3 } hn3
          (by show isSkip m (restartOrd m ep chain c3 em3); rw [hR]; exact hsk) (by show k3 ≤ 512; omega)
        have h4' : scanOrders m ep chain (f3 + 1) nord3 { st with osv := k3, ctl := c3, endMark := em3 } =
            scanOrders m ep chain f3 (ep + 1) { st with osv := k3 + 1, ctl := claimCtl ep chain ep c3 } := by
          rw [h4]
          show scanOrders m ep chain f3 (restartOrd m ep chain c3 em3 + 1)
            { st with osv := k3 + 1, ctl := claimCtl ep chain (restartOrd m ep chain c3 em3) c3, endMark := none } = _
          rw [hR, endMark_none_eq st hem]
        rw [h4'] at hne3
        have hxe2 : ep + 1 + (o1 - (ep + 1)) = o1 := by omega
        have ho1l : o1 < m.len := ho1.1
        obtain ⟨f5, c5, hf5, hk5, he5⟩ := scan_walk m ep chain (o1 - (ep + 1)) f3 (ep + 1)
          { st with osv := k3 + 1, ctl := claimCtl ep chain ep c3 }
          (by rw [hxe2]; intro o h1 h2; exact hstart o (by omega) h2)
          (by show k3 + 1 + (o1 - (ep + 1)) ≤ 513; omega) hne3
        rw [hxe2] at he5
        rw [he5] at hne3
        obtain ⟨f6, hf6⟩ := scanOrders_fuel_pos _ _ _ _ _ _ hne3
        subst hf6
        refine ⟨o1, f6, k3 + 1 + (o1 - (ep + 1)) + 1, c5, ho1, by omega,
          (hc3.trans (claimCtl_keep m ep chain ep c3 (skip_not_play m ep hsk))).trans hk5, ?_,
          Target.wrapEp x hx1 hx3 hwrap hT⟩
        rw [he3, h4', he5]
        exact scanOrders_play m ep chain f6 o1 _ ho1 (by show k3 + 1 + (o1 - (ep + 1)) ≤ 512; omega)

/-! ## the player's `next_order` -/

theorem nextOrder_skip (m : LinMod) (si : SeqInfo) (ctl : List Nat) (f nord : Nat) (hs : isSkip m nord) :
    nextOrder m si ctl (f + 1) nord = nextOrder m si ctl f (nord + 1) := by
  obtain ⟨h1, h2, h3⟩ := hs
  have hnw : ¬ nord ≥ m.len := by omega
  have hmark : (m.marker && decide (nord < m.len) && m.patOf nord == 0xff) = false := by
    cases hm : m.marker
    · simp
    · simp only [Bool.true_and, h1, decide_true, beq_eq_false_iff_ne, ne_eq]
      intro h; exact h3 ⟨hm, h⟩
  have hp : m.patOf nord ≥ m.npat := h2
  rw [nextOrder]
  simp only [hnw, hmark, Bool.false_eq_true, or_self, if_false, hp, if_true]

theorem nextOrder_play (m : LinMod) (si : SeqInfo) (ctl : List Nat) (f nord : Nat) (hs : isPlay m nord)
    (hnp : m.marker = true → m.npat ≤ 254) :
    nextOrder m si ctl (f + 1) nord = some nord := by
  obtain ⟨h1, h2⟩ := hs
  have hnw : ¬ nord ≥ m.len := by omega
  have hmark : (m.marker && decide (nord < m.len) && m.patOf nord == 0xff) = false := by
    cases hm : m.marker
    · simp
    · have := hnp hm
      simp only [Bool.true_and, h1, decide_true, beq_eq_false_iff_ne, ne_eq]
      omega
  have hp : ¬ m.patOf nord ≥ m.npat := by omega
  rw [nextOrder]
  simp only [hnw, hmark, Bool.false_eq_true, or_self, if_false, hp]

/-- `next_order`'s restart target -/
def playRestart (m : LinMod) (si : SeqInfo) (ctl : List Nat) (nord : Nat) : Nat :=
  if m.rst > m.len ∨ m.patOf m.rst ≥ m.npat ∨ nord < si.ep then si.ep
  else if ctl.getD m.rst 0xff = si.seq then m.rst else si.ep

theorem nextOrder_wrap (m : LinMod) (si : SeqInfo) (ctl : List Nat) (f nord : Nat)
    (hs : isEndMark m nord ∨ m.len ≤ nord) :
    nextOrder m si ctl (f + 1) nord =
      if m.patOf (playRestart m si ctl nord) ≥ m.npat then nextOrder m si ctl f (playRestart m si ctl nord + 1)
      else some (playRestart m si ctl nord) := by
  have hc : (nord ≥ m.len ∨ (m.marker && decide (nord < m.len) && m.patOf nord == 0xff) = true) := by
    rcases hs with h | h
    · right; simp [h.1, h.2.1, h.2.2]
    · left; exact h
  rw [nextOrder]
  simp only [hc, if_true]
  rfl

theorem playRestart_eq (m : LinMod) (si : SeqInfo) (ctl : List Nat) (nord : Nat) (hrst : m.rst < m.len) :
    playRestart m si ctl nord =
      if isPlay m m.rst ∧ ¬ nord < si.ep ∧ ctl.getD m.rst 0xff = si.seq then m.rst else si.ep := by
  unfold playRestart isPlay
  by_cases h1 : m.patOf m.rst < m.npat
  · by_cases h2 : nord < si.ep
    · have : (m.rst > m.len ∨ m.patOf m.rst ≥ m.npat ∨ nord < si.ep) := Or.inr (Or.inr h2)
      rw [if_pos this, if_neg (by intro h; exact h.2.1 h2)]
    · have : ¬ (m.rst > m.len ∨ m.patOf m.rst ≥ m.npat ∨ nord < si.ep) := by omega
      rw [if_neg this]
      by_cases h3 : ctl.getD m.rst 0xff = si.seq
      · rw [if_pos h3, if_pos ⟨⟨hrst, h1⟩, h2, h3⟩]
      · rw [if_neg h3, if_neg (by intro h; exact h3 h.2.2)]
  · have : (m.rst > m.len ∨ m.patOf m.rst ≥ m.npat ∨ nord < si.ep) := by omega
    rw [if_pos this, if_neg (by intro h; exact h1 h.1.2)]

theorem nextOrder_walk (m : LinMod) (si : SeqInfo) (ctl : List Nat) : ∀ (k f a : Nat), SkipRange m a (a + k) →
    nextOrder m si ctl (f + k) a = nextOrder m si ctl f (a + k) := by
  intro k
  induction k with
  | zero => intro f a _; rfl
  | succ k ih =>
    intro f a hr
    have e1 : f + (k + 1) = (f + k) + 1 := by omega
    rw [e1, nextOrder_skip m si ctl (f + k) a (hr a (Nat.le_refl _) (by omega)),
      ih f (a + 1) (fun o h1 h2 => hr o (by omega) (by omega))]
    have e2 : a + 1 + k = a + (k + 1) := by omega
    rw [e2]

/-- **`next_order` reaches the scan's target.** -/
theorem play_target (m : LinMod) (si : SeqInfo) (ctl : List Nat) (o1 : Nat) (U : Prop) (hw : ModWF m)
    (hep : si.ep < m.len) (hstart : SkipRange m si.ep o1) (ho1 : isPlay m o1) (hepo1 : si.ep ≤ o1)
    (hU : U ↔ (isPlay m m.rst ∧ ctl.getD m.rst 0xff = si.seq))
    (nord o : Nat) (ht : Target m si.ep o1 U nord o) :
    nextOrder m si ctl (orderFuel m) nord = some o := by
  have hlen := hw.len
  have ho1l : o1 < m.len := ho1.1
  -- after a wrap to the entry point
  have hfromEp : ∀ f, m.len + 1 ≤ f → ∀ x, (isEndMark m x ∨ m.len ≤ x) → playRestart m si ctl x = si.ep →
      nextOrder m si ctl (f + 1) x = some o1 := by
    intro f hf x hx hR
    rw [nextOrder_wrap m si ctl f x hx, hR]
    by_cases hepl : si.ep = o1
    · have hp : ¬ m.patOf si.ep ≥ m.npat := by rw [hepl]; have := ho1.2; omega
      rw [if_neg hp, hepl]
    · have hsk : isSkip m si.ep := hstart si.ep (Nat.le_refl _) (by omega)
      have hp : m.patOf si.ep ≥ m.npat := hsk.2.1
      simp only [hp, if_true]
      obtain ⟨g, hg⟩ : ∃ g, f = (g + 1) + (o1 - (si.ep + 1)) := ⟨f - 1 - (o1 - (si.ep + 1)), by omega⟩
      have hxe : si.ep + 1 + (o1 - (si.ep + 1)) = o1 := by omega
      rw [hg, nextOrder_walk m si ctl (o1 - (si.ep + 1)) (g + 1) (si.ep + 1)
        (by rw [hxe]; intro o h1 h2; exact hstart o (by omega) h2), hxe]
      exact nextOrder_play m si ctl g o1 ho1 hw.mkNpat
  have hfuel : ∀ x, nord ≤ x → (x ≤ m.len ∨ x = nord) → ∃ g, m.len + 1 ≤ g ∧ orderFuel m = (g + 1) + (x - nord) := by
    intro x h1 h2
    exact ⟨orderFuel m - 1 - (x - nord), by unfold orderFuel; omega, by unfold orderFuel; omega⟩
  have hxb : ∀ x, nord ≤ x → SkipRange m nord x → (x ≤ m.len ∨ x = nord) := by
    intro x h1 h2
    by_cases h : x = nord
    · exact Or.inr h
    · have := (h2 (x - 1) (by omega) (by omega)).1
      exact Or.inl (by omega)
  obtain ⟨x, h1, h2, hc⟩ := ht
  obtain ⟨g, hgl, hg⟩ := hfuel x h1 (hxb x h1 h2)
  have hxe : nord + (x - nord) = x := by omega
  rw [hg, nextOrder_walk m si ctl (x - nord) (g + 1) nord (by rw [hxe]; exact h2), hxe]
  rcases hc with ⟨h3, rfl⟩ | ⟨h3, ⟨h4, hnlow, rfl⟩ | ⟨h4, rfl⟩⟩
  · exact nextOrder_play m si ctl g o h3 hw.mkNpat
  · have hR : playRestart m si ctl x = m.rst := by
      rw [playRestart_eq m si ctl x hw.rst, if_pos ⟨(hU.mp h4).1, hnlow, (hU.mp h4).2⟩]
    rw [nextOrder_wrap m si ctl g x h3, hR]
    have hp : ¬ m.patOf m.rst ≥ m.npat := by have := (hU.mp h4).1.2; omega
    rw [if_neg hp]
  · have hR : playRestart m si ctl x = si.ep := by
      rw [playRestart_eq m si ctl x hw.rst, if_neg]
      intro h
      rcases h4 with h4 | h4
      · exact h4 (hU.mpr ⟨h.1, h.2.2⟩)
      · exact h.2.1 h4
    exact hfromEp g hgl x h3 hR

end Xmp.LinFlow
