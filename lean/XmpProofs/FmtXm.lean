import XmpProofs.FmtMod
import XmpProofs.FmtPcm
import XmpModel.FmtXm
/-!
# XM pattern-cell codec round trip (`Xmp.Fmt.Xm.decCells (encCells …) = cells`)
for every packing choice: unpacked five-byte cells, packed cells with any superset of the needed mask bits.
-/
namespace Xmp.Fmt.Xm
open Xmp Xmp.Fmt

/-- the packed form with explicit mask bits -/
def packed (f0 f1 f2 f3 f4 : Nat) (b0 b1 b2 b3 b4 : Bool) : Bytes :=
  u8 (0x80 + ((if b0 then 1 else 0) + (if b1 then 2 else 0) + (if b2 then 4 else 0) + (if b3 then 8 else 0) +
      (if b4 then 16 else 0))) ::
  ((if b0 then [u8 f0] else []) ++ (if b1 then [u8 f1] else []) ++ (if b2 then [u8 f2] else []) ++
   (if b3 then [u8 f3] else []) ++ (if b4 then [u8 f4] else []))

theorem decCell_packed (f0 f1 f2 f3 f4 : Nat) (b0 b1 b2 b3 b4 : Bool) (rest : Bytes)
    (h0 : f0 < 256) (h1 : f1 < 256) (h2 : f2 < 256) (h3 : f3 < 256) (h4 : f4 < 256)
    (z0 : b0 = false → f0 = 0) (z1 : b1 = false → f1 = 0) (z2 : b2 = false → f2 = 0)
    (z3 : b3 = false → f3 = 0) (z4 : b4 = false → f4 = 0) :
    decCell (packed f0 f1 f2 f3 f4 b0 b1 b2 b3 b4 ++ rest) = some (xlat f0 f1 f2 f3 f4, rest) := by
  cases b0 <;> cases b1 <;> cases b2 <;> cases b3 <;> cases b4 <;>
    simp_all [packed, decCell, u8_toNat, Nat.mod_eq_of_lt]


/-- volume byte and effect parameter actually written -/
def vbOf (c : Cell) (volfx : UInt8) : Nat :=
  if c.vol ≠ 0 then c.vol + 0x0f else if 0x10 ≤ volfx.toNat ∧ volfx.toNat ≤ 0x50 then 0 else volfx.toNat
def fxpOf (c : Cell) (fx : UInt8 × UInt8) : Nat :=
  if encNote c.note = 97 ∧ fx.1.toNat = 0x0e ∧ fx.2.toNat / 16 = 0x0d then 0 else fx.2.toNat

theorem cellBytes_eq (c : Cell) (fx : UInt8 × UInt8) (volfx : UInt8) :
    cellBytes c fx volfx = [encNote c.note, c.ins, vbOf c volfx, fx.1.toNat, fxpOf c fx] := rfl

theorem u8lt (b : UInt8) : b.toNat < 256 := b.toNat_lt

theorem encNote_lt (c : Cell) (h : CellOk c) : encNote c.note < 128 := by
  rcases h with ⟨hn, _, _⟩
  unfold encNote KEY_OFF KEY_FADE
  rcases hn with h | ⟨h1, h2⟩ | ⟨h, _⟩ | ⟨h, _⟩
  · simp [h]
  · split
    · omega
    · split <;> omega
  · simp [h, KEY_OFF]
  · simp [h, KEY_FADE]

theorem vbOf_lt (c : Cell) (h : CellOk c) (volfx : UInt8) : vbOf c volfx < 256 := by
  have := u8lt volfx
  rcases h with ⟨_, _, hv⟩
  unfold vbOf; split
  · omega
  · split <;> omega

theorem fxpOf_lt (c : Cell) (fx : UInt8 × UInt8) : fxpOf c fx < 256 := by
  have := u8lt fx.2
  unfold fxpOf; split <;> omega

/-- the decoder's translation of the five stored values gives back the abstract cell -/
theorem xlat_cell (c : Cell) (h : CellOk c) (fx : UInt8 × UInt8) (volfx : UInt8) :
    xlat (encNote c.note) c.ins (vbOf c volfx) fx.1.toNat (fxpOf c fx) = c := by
  obtain ⟨note, ins, vol⟩ := c
  rcases h with ⟨hn, hi, hv⟩
  simp only at hn hi hv
  have hvol : (if 0x10 ≤ vbOf ⟨note, ins, vol⟩ volfx ∧ vbOf ⟨note, ins, vol⟩ volfx ≤ 0x50
               then vbOf ⟨note, ins, vol⟩ volfx - 0x0f else 0) = vol := by
    unfold vbOf
    by_cases hz : vol = 0
    · subst hz
      simp only [ne_eq, not_true_eq_false, if_false]
      split
      · simp
      · simp
    · simp only [ne_eq, hz, not_false_eq_true, if_true]
      have : 0x10 ≤ vol + 0x0f ∧ vol + 0x0f ≤ 0x50 := by omega
      simp only [this, and_self, if_true]; omega
  unfold xlat
  simp only [hvol]
  congr 1
  -- the note
  generalize hf : (if fx.1.toNat ∈ [18, 19, 22, 23, 24, 26, 28, 30, 31, 32] ∨ fx.1.toNat > 34 then 0 else fx.1.toNat) = fxt'
  have hfx : fxt' = 0x0e → fx.1.toNat = 0x0e := by
    intro h; rw [← hf] at h; split at h
    · omega
    · exact h
  unfold NoteOk at hn
  simp only at hn
  rcases hn with h | ⟨h1, h2⟩ | ⟨h, hi0⟩ | ⟨h, hi0⟩
  · subst h; simp [encNote]
  · have e : encNote note = note - 12 := by
      unfold encNote KEY_OFF KEY_FADE; split
      · omega
      · split <;> omega
    rw [e]
    have : ¬ (note - 12 = 0x61) := by omega
    simp only [this, if_false]
    have : note - 12 > 0 := by omega
    simp only [this, if_true]; omega
  · subst h
    have e : encNote KEY_OFF = 97 := by simp [encNote, KEY_OFF]
    simp only [e, fxpOf, true_and]
    by_cases hc : fxt' = 0x0e ∧ (if fx.1.toNat = 0x0e ∧ fx.2.toNat / 16 = 0x0d then 0 else fx.2.toNat) / 16 = 0x0d
    · exfalso
      obtain ⟨a, b⟩ := hc
      have := hfx a
      split at b <;> simp_all
    · simp [hc, hi0]
  · subst h
    have e : encNote KEY_FADE = 97 := by simp [encNote, KEY_OFF, KEY_FADE]
    simp only [e, fxpOf, true_and]
    by_cases hc : fxt' = 0x0e ∧ (if fx.1.toNat = 0x0e ∧ fx.2.toNat / 16 = 0x0d then 0 else fx.2.toNat) / 16 = 0x0d
    · exfalso
      obtain ⟨a, b⟩ := hc
      have := hfx a
      split at b <;> simp_all
    · simp [hc, hi0]


theorem encCell_unpacked (c : Cell) (fx : UInt8 × UInt8) (volfx : UInt8) :
    encCell c fx volfx 32 =
      [u8 (encNote c.note), u8 c.ins, u8 (vbOf c volfx), u8 fx.1.toNat, u8 (fxpOf c fx)] := by
  simp [encCell, cellBytes_eq]

/-- the packed branch of `encCell` over an arbitrary bit choice -/
def packG (f : List Nat) (bit : Nat → Bool) : Bytes :=
  let bits := (List.range 5).map bit
  let mask := ((List.range 5).map fun k => if bits.getD k false then 2 ^ k else 0).sum
  u8 (0x80 + mask) :: ((List.range 5).filter fun k => bits.getD k false).map fun k => u8 (f.getD k 0)

theorem packG_list (f0 f1 f2 f3 f4 : Nat) (b0 b1 b2 b3 b4 : Bool) :
    packG [f0, f1, f2, f3, f4] (fun k => [b0, b1, b2, b3, b4].getD k false) = packed f0 f1 f2 f3 f4 b0 b1 b2 b3 b4 := by
  have r5 : List.range 5 = [0, 1, 2, 3, 4] := by decide
  unfold packG
  rw [r5]
  cases b0 <;> cases b1 <;> cases b2 <;> cases b3 <;> cases b4 <;> simp [packed, List.filter]

theorem packG_congr (f : List Nat) (bit bit' : Nat → Bool) (h : ∀ k, k < 5 → bit k = bit' k) :
    packG f bit = packG f bit' := by
  have e : (List.range 5).map bit = (List.range 5).map bit' :=
    List.map_congr_left (fun k hk => h k (List.mem_range.mp hk))
  unfold packG
  rw [e]

theorem packG_eq (f0 f1 f2 f3 f4 : Nat) (bit : Nat → Bool) :
    packG [f0, f1, f2, f3, f4] bit = packed f0 f1 f2 f3 f4 (bit 0) (bit 1) (bit 2) (bit 3) (bit 4) := by
  rw [← packG_list]
  apply packG_congr
  intro k hk
  have : k = 0 ∨ k = 1 ∨ k = 2 ∨ k = 3 ∨ k = 4 := by omega
  rcases this with h | h | h | h | h <;> subst h <;> rfl

theorem encCell_packed (c : Cell) (fx : UInt8 × UInt8) (volfx : UInt8) (mode : Nat) (hm : mode ≠ 32) :
    encCell c fx volfx mode =
      packed (encNote c.note) c.ins (vbOf c volfx) fx.1.toNat (fxpOf c fx)
        (decide (encNote c.note ≠ 0 ∨ mode / 2 ^ 0 % 2 = 1)) (decide (c.ins ≠ 0 ∨ mode / 2 ^ 1 % 2 = 1))
        (decide (vbOf c volfx ≠ 0 ∨ mode / 2 ^ 2 % 2 = 1)) (decide (fx.1.toNat ≠ 0 ∨ mode / 2 ^ 3 % 2 = 1))
        (decide (fxpOf c fx ≠ 0 ∨ mode / 2 ^ 4 % 2 = 1)) := by
  have e : encCell c fx volfx mode =
      packG (cellBytes c fx volfx) (fun k => decide ((cellBytes c fx volfx).getD k 0 ≠ 0 ∨ mode / 2 ^ k % 2 = 1)) := by
    unfold encCell packG
    simp only [hm, if_false]
  rw [e, cellBytes_eq, packG_eq]
  rfl

/-- **XM cell codec**: every stored form of a cell decodes to the cell. -/
theorem decCell_encCell (c : Cell) (h : CellOk c) (fx : UInt8 × UInt8) (volfx : UInt8) (mode : Nat) (rest : Bytes) :
    decCell (encCell c fx volfx mode ++ rest) = some (c, rest) := by
  have h0 := encNote_lt c h
  have h1 : c.ins < 256 := h.2.1
  have h2 := vbOf_lt c h volfx
  have h3 := u8lt fx.1
  have h4 := fxpOf_lt c fx
  by_cases hm : mode = 32
  · subst hm
    rw [encCell_unpacked]
    simp only [List.cons_append, List.nil_append, decCell, u8_toNat]
    have : ¬ (encNote c.note % 256 ≥ 0x80) := by omega
    simp only [this, if_false]
    rw [Nat.mod_eq_of_lt (by omega : encNote c.note < 256), Nat.mod_eq_of_lt h1, Nat.mod_eq_of_lt h2,
      Nat.mod_eq_of_lt h3, Nat.mod_eq_of_lt h4, xlat_cell c h]
  · rw [encCell_packed c fx volfx mode hm, decCell_packed _ _ _ _ _ _ _ _ _ _ rest (by omega) h1 h2 h3 h4,
      xlat_cell c h]
    all_goals (intro hb; simp at hb; omega)

theorem decCells_encCells (cs : List Cell) (h : ∀ c ∈ cs, CellOk c) (fx : Nat → UInt8 × UInt8) (volfx : Nat → UInt8)
    (mode : Nat → Nat) (i : Nat) (rest : Bytes) :
    decCells cs.length (encCells fx volfx mode cs i ++ rest) = some cs := by
  induction cs generalizing i with
  | nil => simp [decCells]
  | cons c cs ih =>
    simp only [List.length_cons, encCells, decCells, List.append_assoc]
    rw [decCell_encCell c (h c (by simp))]
    simp only [ih (fun c hc => h c (by simp [hc])) (i + 1), Option.map_some]

end Xmp.Fmt.Xm
