import XmpProofs.FmtMod
import XmpProofs.FmtPcm
import XmpModel.FmtIt
/-!
# IT field codecs (note, volume, instrument bytes) and PCM sign conversion
-/
namespace Xmp.Fmt.It
open Xmp Xmp.Fmt

theorem decNote_encNote {n : Nat} (h : NoteOk n) (hn : n ≠ 0) (fade : Nat) : decNote (encNote n fade) = n := by
  unfold NoteOk KEY_OFF KEY_CUT KEY_FADE at h
  unfold encNote decNote KEY_OFF KEY_CUT KEY_FADE
  have ne (x : Nat) (v : UInt8) (hx : x < 256) (hv : x ≠ v.toNat) : ¬ u8 x = v := by
    intro hh; have := congrArg UInt8.toNat hh; rw [u8_toNat_lt hx] at this; exact hv this
  rcases h with h | ⟨h1, h2⟩ | h | h | h
  · exact absurd h hn
  · have a : ¬ n = 0x81 := by omega
    have b : ¬ n = 0x82 := by omega
    have c : ¬ n = 0x83 := by omega
    simp only [a, b, c, if_false]
    have e1 := ne (n - 1) 255 (by omega) (by simp; omega)
    have e2 := ne (n - 1) 254 (by omega) (by simp; omega)
    simp only [e1, e2, if_false, u8_toNat_lt (by omega : n - 1 < 256)]
    have : ¬ (n - 1 > 119) := by omega
    simp only [this, if_false]; omega
  · subst h; simp
  · subst h; simp
  · subst h
    simp only [show ¬ (0x83 = 0x81) by decide, show ¬ (0x83 = 0x82) by decide, if_false, if_true]
    have hb : 120 + fade % 134 < 256 := by omega
    have e1 := ne (120 + fade % 134) 255 hb (by simp; omega)
    have e2 := ne (120 + fade % 134) 254 hb (by simp; omega)
    simp only [e1, e2, if_false, u8_toNat_lt hb]
    have : 120 + fade % 134 > 119 := by omega
    simp only [this, if_true]

theorem decVol_encVol {v : Nat} (h1 : 1 ≤ v) (h2 : v ≤ 65) : decVol (u8 (v - 1)).toNat = v := by
  rw [u8_toNat_lt (by omega)]; unfold decVol
  have : v - 1 ≤ 0x40 := by omega
  simp only [this, if_true]; omega

theorem ins_byte {i : Nat} (h : i < 256) : (u8 i).toNat = i := u8_toNat_lt h

end Xmp.Fmt.It

namespace Xmp.Fmt.It.Sex
open Xmp Xmp.Fmt

/-! ## IT sample compression: the widest-code encoder against the `itsex.c` model, bit level -/

theorem valBits_succ (n v : Nat) :
    valBits (n + 1) v = decide (v % 2 = 1) :: valBits n (v / 2) := by
  unfold valBits
  rw [List.range_succ_eq_map, List.map_cons, List.map_map]
  congr 1
  · simp
  · apply List.map_congr_left
    intro k _
    have e : 2 ^ k * 2 = 2 * 2 ^ k := Nat.mul_comm _ _
    simp only [Function.comp, Nat.pow_succ, Nat.div_div_eq_div_mul, e]

theorem valBits_length (n v : Nat) : (valBits n v).length = n := by simp [valBits]

theorem bitsVal_valBits (n v : Nat) : bitsVal (valBits n v) = v % 2 ^ n := by
  induction n generalizing v with
  | zero => simp [valBits, bitsVal, Nat.mod_one]
  | succ n ih =>
    rw [valBits_succ, bitsVal, ih, Nat.pow_succ]
    have h2 : v % 2 = 0 ∨ v % 2 = 1 := by omega
    have key : v % (2 ^ n * 2) = v % 2 + 2 * (v / 2 % 2 ^ n) := by
      rw [Nat.mul_comm (2 ^ n) 2, Nat.mod_mul]
    rw [key]
    rcases h2 with h | h <;> simp [h]

theorem readBits_valBits (n v : Nat) (h1 : 0 < n) (h2 : n < 32) (rest : List Bool) :
    readBits n (valBits n v ++ rest) = some (v % 2 ^ n, rest) := by
  unfold readBits
  have a : ¬ (n = 0 ∨ n ≥ 32) := by omega
  have l := valBits_length n v
  simp only [a, if_false, List.take_left' l, List.drop_left' l, l, Nat.lt_irrefl, bitsVal_valBits]

/-- the decoder's integrators applied to a delta list (what `step` does at the widest width) -/
def integ (M : Nat) (it215 : Bool) : List Nat → (temp temp2 : Nat) → List Nat
  | [], _, _ => []
  | d :: r, temp, temp2 =>
    let t := (d + temp) % M
    let t2 := (temp2 + t) % M
    (if it215 then t2 else t) :: integ M it215 r t t2

theorem cfg_facts (is16 : Bool) :
    let c := cfg is16
    7 ≤ c.W ∧ c.W < 32 ∧ c.B < c.W ∧ c.M < 2 ^ c.W ∧ c.M = 2 ^ c.B ∧ (c.M = 256 ∨ c.M = 65536) := by
  cases is16 <;> simp [cfg, Cfg.M]

/-- one decoder step on a widest-width code -/
theorem step_widest (is16 it215 : Bool) (st : St) (d : Nat) (rest : List Bool)
    (hl : st.left = (cfg is16).W) (hd : d < (cfg is16).M) :
    step (cfg is16) it215 st (valBits (cfg is16).W (d % 2 ^ (cfg is16).W) ++ rest) =
      .out (if it215 then (st.temp2 + (d + st.temp) % (cfg is16).M) % (cfg is16).M else (d + st.temp) % (cfg is16).M)
        { st with temp := (d + st.temp) % (cfg is16).M,
                  temp2 := (st.temp2 + (d + st.temp) % (cfg is16).M) % (cfg is16).M } rest := by
  obtain ⟨h7, h32, hB, hM, _, _⟩ := cfg_facts is16
  have hdW : d % 2 ^ (cfg is16).W = d := Nat.mod_eq_of_lt (by omega)
  unfold step
  rw [hl, readBits_valBits _ _ (by omega) h32, hdW, hdW]
  have a1 : ¬ ((cfg is16).W < 7) := by omega
  have a2 : ¬ ((cfg is16).W < (cfg is16).W) := by omega
  have a3 : ¬ ((cfg is16).W ≥ (cfg is16).W + 1) := by omega
  have a4 : ¬ (d ≥ (cfg is16).M) := by omega
  have a5 : ¬ ((cfg is16).W < (cfg is16).B) := by omega
  simp only [a1, a2, a3, a4, if_false, signExt, a5, Nat.mod_eq_of_lt hd]

/-- widest-code bit stream of a delta list -/
theorem encDeltas_widest (is16 : Bool) (ds : List Nat) (i : Nat) :
    encDeltas (cfg is16) (fun _ => 0) ds i (cfg is16).W =
      ds.flatMap fun d => valBits (cfg is16).W (d % 2 ^ (cfg is16).W) := by
  induction ds generalizing i with
  | nil => rfl
  | cons d r ih =>
    simp only [encDeltas, fits, if_true, List.flatMap_cons]
    simp only [ne_eq, not_true_eq_false, false_and, if_false, List.nil_append, List.append_cancel_left_eq]
    exact ih (i + 1)

theorem decBlock_widest (is16 it215 : Bool) (ds : List Nat) (hds : ∀ d ∈ ds, d < (cfg is16).M)
    (st : St) (hl : st.left = (cfg is16).W) (fuel : Nat) (hf : ds.length + 1 ≤ fuel) (rest : List Bool) :
    decBlock (cfg is16) it215 fuel ds.length st
        ((ds.flatMap fun d => valBits (cfg is16).W (d % 2 ^ (cfg is16).W)) ++ rest) =
      some (integ (cfg is16).M it215 ds st.temp st.temp2) := by
  induction ds generalizing st fuel with
  | nil =>
    obtain ⟨f, rfl⟩ : ∃ f, fuel = f + 1 := ⟨fuel - 1, by simp at hf; omega⟩
    simp [decBlock, integ]
  | cons d r ih =>
    obtain ⟨f, rfl⟩ : ∃ f, fuel = f + 1 := ⟨fuel - 1, by simp at hf; omega⟩
    simp only [List.length_cons, List.flatMap_cons, List.append_assoc, decBlock]
    rw [step_widest is16 it215 st d _ hl (hds d (by simp))]
    simp only
    rw [ih (fun x hx => hds x (by simp [hx]))
      { st with temp := (d + st.temp) % (cfg is16).M, temp2 := (st.temp2 + (d + st.temp) % (cfg is16).M) % (cfg is16).M }
      hl f (by simp at hf; omega)]
    simp [integ]

/-- integrating the writer's deltas gives back the samples (IT 2.14: `temp` tracks the previous sample;
IT 2.15: `temp2` tracks the previous sample and `temp` the previous first difference) -/
theorem integ_deltas (is16 it215 : Bool) (xs : List Nat) (hx : ∀ x ∈ xs, x < (cfg is16).M)
    (prev prevT temp temp2 : Nat) (hp : prev < (cfg is16).M) (hpt : prevT < (cfg is16).M)
    (hinv : if it215 then temp = prevT ∧ temp2 = prev else temp = prev) :
    integ (cfg is16).M it215 (deltas (cfg is16) it215 xs prev prevT) temp temp2 = xs := by
  obtain ⟨_, _, _, _, _, hM⟩ := cfg_facts is16
  induction xs generalizing prev prevT temp temp2 with
  | nil => rfl
  | cons x r ih =>
    have hxM := hx x (by simp)
    generalize hMM : (cfg is16).M = M at *
    cases it215
    · simp only [Bool.false_eq_true, if_false] at hinv
      subst hinv
      simp only [deltas, integ, Bool.false_eq_true, if_false, hMM]
      have e : ((x + M - temp % M) % M + temp) % M = x := by
        rcases hM with h | h <;> subst h <;> omega
      rw [e]
      congr 1
      exact ih (fun y hy => hx y (by simp [hy])) x _ x _ hxM (Nat.mod_lt _ (by omega)) rfl
    · simp only [if_true] at hinv
      obtain ⟨h1, h2⟩ := hinv
      subst h1 h2
      simp only [deltas, integ, if_true, hMM]
      have e1 : (((x + M - temp2 % M) % M + M - temp % M) % M + temp) % M = (x + M - temp2 % M) % M := by
        rcases hM with h | h <;> subst h <;> omega
      have e2 : (temp2 + (x + M - temp2 % M) % M) % M = x := by
        rcases hM with h | h <;> subst h <;> omega
      rw [e1, e2]
      congr 1
      exact ih (fun y hy => hx y (by simp [hy])) x _ _ x hxM (Nat.mod_lt _ (by omega)) ⟨rfl, rfl⟩

theorem deltas_lt (is16 it215 : Bool) (xs : List Nat) (prev prevT : Nat) :
    ∀ d ∈ deltas (cfg is16) it215 xs prev prevT, d < (cfg is16).M := by
  obtain ⟨_, _, _, _, _, hM⟩ := cfg_facts is16
  have hpos : 0 < (cfg is16).M := by rcases hM with h | h <;> omega
  induction xs generalizing prev prevT with
  | nil => simp [deltas]
  | cons x r ih =>
    intro d hd
    simp only [deltas, List.mem_cons] at hd
    rcases hd with hd | hd
    · subst hd; split <;> exact Nat.mod_lt _ hpos
    · exact ih _ _ d hd

theorem deltas_length (c : Cfg) (it215 : Bool) (xs : List Nat) (prev prevT : Nat) :
    (deltas c it215 xs prev prevT).length = xs.length := by
  induction xs generalizing prev prevT with
  | nil => rfl
  | cons x r ih => simp [deltas, ih]

/-- **one block, widest codes, bit level**: the `itsex.c` model decodes the writer's bit stream (IT 2.14 and
IT 2.15, 8 and 16 bit) back to the samples. -/
theorem decBlock_encDeltas_widest (is16 it215 : Bool) (xs : List Nat) (hx : ∀ x ∈ xs, x < (cfg is16).M)
    (i fuel : Nat) (hf : xs.length + 1 ≤ fuel) (rest : List Bool) :
    decBlock (cfg is16) it215 fuel xs.length { left := (cfg is16).W }
        (encDeltas (cfg is16) (fun _ => 0) (deltas (cfg is16) it215 xs 0 0) i (cfg is16).W ++ rest) = some xs := by
  obtain ⟨_, _, _, _, _, hM⟩ := cfg_facts is16
  have hpos : 0 < (cfg is16).M := by rcases hM with h | h <;> omega
  rw [encDeltas_widest]
  have := decBlock_widest is16 it215 (deltas (cfg is16) it215 xs 0 0) (deltas_lt is16 it215 xs 0 0)
    { left := (cfg is16).W } rfl fuel (by rw [deltas_length]; exact hf) rest
  rw [deltas_length] at this
  rw [this]
  congr 1
  exact integ_deltas is16 it215 xs hx 0 0 0 0 hpos hpos (by cases it215 <;> simp)

end Xmp.Fmt.It.Sex
