import XmpProofs.FmtMod
import XmpModel.FmtIt
/-!
# IT field codecs (note, volume, instrument bytes) and PCM sign conversion
-/
namespace Xmp.Fmt.It
open Xmp Xmp.Fmt

theorem decNote_encNote {n : Nat} (h : NoteOk n) (hn : n ≠ 0) (fade : Nat) : decNote (encNote n fade) = n := by
  unfold NoteOk KEY_OFF KEY_CUT KEY_FADE at h
  unfold encNote decNote KEY_OFF KEY_CUT KEY_FADE
  have ne (x : Nat) (v : UInt8) (hx : x < 256) (hv : x ≠ v.toNat) : ¬ u8 x = v := by
    intro hh; have := congrArg UInt8.toNat hh; rw [u8_toNat_lt hx] at this; exact hv this
  rcases h with h | ⟨h1, h2⟩ | h | h | h
  · exact absurd h hn
  · have a : ¬ n = 0x81 := by omega
    have b : ¬ n = 0x82 := by omega
    have c : ¬ n = 0x83 := by omega
    simp only [a, b, c, if_false]
    have e1 := ne (n - 1) 255 (by omega) (by simp; omega)
    have e2 := ne (n - 1) 254 (by omega) (by simp; omega)
    simp only [e1, e2, if_false, u8_toNat_lt (by omega : n - 1 < 256)]
    have : ¬ (n - 1 > 119) := by omega
    simp only [this, if_false]; omega
  · subst h; simp
  · subst h; simp
  · subst h
    simp only [show ¬ (0x83 = 0x81) by decide, show ¬ (0x83 = 0x82) by decide, if_false, if_true]
    have hb : 120 + fade % 134 < 256 := by omega
    have e1 := ne (120 + fade % 134) 255 hb (by simp; omega)
    have e2 := ne (120 + fade % 134) 254 hb (by simp; omega)
    simp only [e1, e2, if_false, u8_toNat_lt hb]
    have : 120 + fade % 134 > 119 := by omega
    simp only [this, if_true]

theorem decVol_encVol {v : Nat} (h1 : 1 ≤ v) (h2 : v ≤ 65) : decVol (u8 (v - 1)).toNat = v := by
  rw [u8_toNat_lt (by omega)]; unfold decVol
  have : v - 1 ≤ 0x40 := by omega
  simp only [this, if_true]; omega

theorem ins_byte {i : Nat} (h : i < 256) : (u8 i).toNat = i := u8_toNat_lt h

end Xmp.Fmt.It

namespace Xmp.Fmt
/-- 8-bit sign conversion is an involution (S3M `ffi = 2`, IT convert bit 0 clear) -/
theorem signFlip8_involutive (b : Bytes) : signFlip false (signFlip false b) = b := by
  unfold signFlip
  simp only [Bool.false_eq_true, if_false, List.map_map]
  conv => rhs; rw [← List.map_id b]
  apply List.map_congr_left
  intro x _
  simp only [Function.comp, u8_toNat, id]
  have hx := x.toNat_lt
  have : ((x.toNat + 128) % 256 % 256 + 128) % 256 = x.toNat := by omega
  rw [this]
  simp [u8]
end Xmp.Fmt
