import XmpModel.PathSafe
/-! Helper lemmas for C10 (path confinement).  Core Lean only. -/
namespace Xmp.PathSafe

/-! ## bytes -/

theorem lower_eq_of_not_upper (c : UInt8) (h : ¬ (65 ≤ c ∧ c ≤ 90)) : lower c = c := by
  unfold lower
  split
  · rename_i h'
    simp only [Bool.and_eq_true, decide_eq_true_eq] at h'
    exact absurd h' h
  · rfl

/-- `tolower` never produces a byte below `'a'` out of a different byte: in
particular `'.'`, `'/'` are only the images of themselves. -/
theorem lower_eq_small (c d : UInt8) (hd : d < 65) (h : lower c = d) : c = d := by
  unfold lower at h
  split at h
  · rename_i h'
    simp only [Bool.and_eq_true, decide_eq_true_eq] at h'
    have h1 := UInt8.le_iff_toNat_le.mp h'.1
    have h2 := UInt8.le_iff_toNat_le.mp h'.2
    have h3 := UInt8.lt_iff_toNat_lt.mp hd
    have h4 : (c + 32).toNat = d.toNat := by rw [h]
    rw [UInt8.toNat_add] at h4
    simp at h1 h2 h3 h4
    omega
  · exact h

theorem lower_eq_dot {c : UInt8} (h : lower c = cDot) : c = cDot :=
  lower_eq_small c cDot (by decide) h

theorem lower_eq_slash {c : UInt8} (h : lower c = cSlash) : c = cSlash :=
  lower_eq_small c cSlash (by decide) h

/-! ## `hasDotDot` -/

theorem hasDotDot_cons (a : UInt8) (rest : Bytes) :
    hasDotDot (a :: rest) = ((a == cDot && rest.head? == some cDot) || hasDotDot rest) := rfl

theorem hasDotDot_dotdot : hasDotDot [cDot, cDot] = true := by decide

theorem hasDotDot_append_left {x : Bytes} (y : Bytes) (h : hasDotDot x = true) : hasDotDot (x ++ y) = true := by
  induction x with
  | nil => simp [hasDotDot] at h
  | cons a rest ih =>
    rw [List.cons_append, hasDotDot_cons]
    rw [hasDotDot_cons] at h
    simp only [Bool.or_eq_true, Bool.and_eq_true] at h ⊢
    rcases h with ⟨h1, h2⟩ | h
    · left
      refine ⟨h1, ?_⟩
      cases rest with
      | nil => simp at h2
      | cons b r => simpa using h2
    · right; exact ih h

/-! ## one step of the copy loop -/

/-- what one iteration does: `t` source byte, `c` byte stored, `conv'` the flag afterwards -/
def Step (first conv : Bool) (t : UInt8) (rest : Bytes) (c : UInt8) (conv' : Bool) : Prop :=
  (c = t ∧ t ≠ cBack ∧ conv' = conv ∧ (t = cColon → first = true ∨ conv = true)) ∨
  (c = cSlash ∧ t = cBack ∧ conv' = conv) ∨
  (c = cSlash ∧ t = cColon ∧ first = false ∧ conv = false ∧ conv' = true ∧
    ∃ t2, rest.head? = some t2 ∧ isSep t2 = false)

theorem copyLoop_zero (first conv : Bool) (s : Bytes) : copyLoop 0 first conv s = some [] := by
  unfold copyLoop; rfl

theorem copyLoop_nil (k : Nat) (first conv : Bool) : copyLoop k first conv [] = some [] := by
  cases k <;> (unfold copyLoop; rfl)

theorem copyLoop_cons {k : Nat} {first conv : Bool} {t : UInt8} {rest out : Bytes}
    (h : copyLoop (k + 1) first conv (t :: rest) = some out) :
    32 ≤ t ∧ t < 127 ∧ ∃ c out' conv', out = c :: out' ∧ copyLoop k false conv' rest = some out' ∧
      Step first conv t rest c conv' := by
  rw [copyLoop] at h
  split at h
  · exact absurd h (by simp)
  rename_i hp
  have hp1 : 32 ≤ t := by
    simp only [Bool.or_eq_true, decide_eq_true_eq, not_or] at hp
    exact UInt8.not_lt.mp hp.1
  have hp2 : t < 127 := by
    simp only [Bool.or_eq_true, decide_eq_true_eq, not_or] at hp
    exact UInt8.not_le.mp hp.2
  refine ⟨hp1, hp2, ?_⟩
  split at h
  · rename_i hc
    simp only [Bool.and_eq_true, Bool.not_eq_eq_eq_not, Bool.not_true, beq_iff_eq] at hc
    split at h
    · exact absurd h (by simp)
    · rename_i t2 ht2
      split at h
      · exact absurd h (by simp)
      · rename_i hs
        rw [Option.map_eq_some_iff] at h
        obtain ⟨o, ho, rfl⟩ := h
        refine ⟨cSlash, o, true, rfl, ho, Or.inr (Or.inr ⟨rfl, hc.1.2, hc.1.1, hc.2, rfl, t2, ht2, ?_⟩)⟩
        simpa using hs
  · rename_i hc
    split at h
    · rename_i hb
      rw [Option.map_eq_some_iff] at h
      obtain ⟨o, ho, rfl⟩ := h
      exact ⟨cSlash, o, conv, rfl, ho, Or.inr (Or.inl ⟨rfl, by simpa using hb, rfl⟩)⟩
    · rename_i hb
      rw [Option.map_eq_some_iff] at h
      obtain ⟨o, ho, rfl⟩ := h
      refine ⟨t, o, conv, rfl, ho, Or.inl ⟨rfl, by simpa using hb, rfl, ?_⟩⟩
      intro htc
      subst htc
      simp only [Bool.and_eq_true, Bool.not_eq_eq_eq_not, Bool.not_true, beq_self_eq_true, and_true, not_and,
        Bool.not_eq_false] at hc
      cases first <;> simp_all

/-- every byte stored is either the source byte or `'/'` -/
theorem Step.out_cases {first conv : Bool} {t : UInt8} {rest : Bytes} {c : UInt8} {conv' : Bool}
    (h : Step first conv t rest c conv') : c = t ∨ (c = cSlash ∧ (t = cBack ∨ t = cColon)) := by
  rcases h with ⟨h, _⟩ | ⟨h1, h2, _⟩ | ⟨h1, h2, _⟩
  · exact Or.inl h
  · exact Or.inr ⟨h1, Or.inl h2⟩
  · exact Or.inr ⟨h1, Or.inr h2⟩

/-! ## consequences for the whole output -/

theorem copyLoop_length : ∀ (k : Nat) (first conv : Bool) (s out : Bytes),
    copyLoop k first conv s = some out → out.length = min k s.length := by
  intro k
  induction k with
  | zero => intro first conv s out h; rw [copyLoop_zero] at h; cases h; simp
  | succ k ih =>
    intro first conv s out h
    cases s with
    | nil => rw [copyLoop_nil] at h; cases h; simp
    | cons t rest =>
      obtain ⟨_, _, c, o, cv, rfl, ho, _⟩ := copyLoop_cons h
      have := ih _ _ _ _ ho
      simp only [List.length_cons, this]
      omega

theorem copyLoop_mem : ∀ (k : Nat) (first conv : Bool) (s out : Bytes),
    copyLoop k first conv s = some out → ∀ c ∈ out, 32 ≤ c ∧ c < 127 ∧ c ≠ cBack := by
  intro k
  induction k with
  | zero => intro first conv s out h; rw [copyLoop_zero] at h; cases h; simp
  | succ k ih =>
    intro first conv s out h
    cases s with
    | nil => rw [copyLoop_nil] at h; cases h; simp
    | cons t rest =>
      obtain ⟨h1, h2, c, o, cv, rfl, ho, hs⟩ := copyLoop_cons h
      intro x hx
      rcases List.mem_cons.mp hx with rfl | hx
      · rcases hs with ⟨rfl, hb, _⟩ | ⟨rfl, _⟩ | ⟨rfl, _⟩
        · exact ⟨h1, h2, hb⟩
        · decide
        · decide
      · exact ih _ _ _ _ ho x hx

/-- the first output byte comes from the first source byte -/
theorem copyLoop_head : ∀ (k : Nat) (first conv : Bool) (s out : Bytes) (c : UInt8),
    copyLoop k first conv s = some out → out.head? = some c →
    ∃ t, s.head? = some t ∧ (c = t ∨ (c = cSlash ∧ (t = cBack ∨ t = cColon))) := by
  intro k first conv s out c h hc
  cases k with
  | zero => rw [copyLoop_zero] at h; cases h; simp at hc
  | succ k =>
    cases s with
    | nil => rw [copyLoop_nil] at h; cases h; simp at hc
    | cons t rest =>
      obtain ⟨_, _, c', o, cv, rfl, _, hs⟩ := copyLoop_cons h
      simp only [List.head?_cons, Option.some.injEq] at hc
      subst hc
      exact ⟨t, rfl, hs.out_cases⟩

theorem copyLoop_noDotDot : ∀ (k : Nat) (first conv : Bool) (s out : Bytes),
    copyLoop k first conv s = some out → hasDotDot s = false → hasDotDot out = false := by
  intro k
  induction k with
  | zero => intro first conv s out h _; rw [copyLoop_zero] at h; cases h; rfl
  | succ k ih =>
    intro first conv s out h hdd
    cases s with
    | nil => rw [copyLoop_nil] at h; cases h; rfl
    | cons t rest =>
      obtain ⟨_, _, c, o, cv, rfl, ho, hs⟩ := copyLoop_cons h
      rw [hasDotDot_cons] at hdd ⊢
      simp only [Bool.or_eq_false_iff, Bool.and_eq_false_iff] at hdd ⊢
      refine ⟨?_, ih _ _ _ _ ho hdd.2⟩
      -- if c = '.' and o starts with '.', the same holds for t and rest
      by_cases hcd : c = cDot
      · right
        have htd : t = cDot := by
          rcases hs.out_cases with rfl | ⟨h1, _⟩
          · exact hcd
          · rw [h1] at hcd; exact absurd hcd (by decide)
        have hr : (rest.head? == some cDot) = false := by
          rcases hdd.1 with h' | h'
          · rw [htd] at h'; exact absurd h' (by decide)
          · exact h'
        cases ho' : o.head? with
        | none => rfl
        | some d =>
          obtain ⟨t2, ht2, hrel⟩ := copyLoop_head _ _ _ _ _ d ho ho'
          by_cases hd : d = cDot
          · exfalso
            have : t2 = cDot := by
              rcases hrel with rfl | ⟨h1, _⟩
              · exact hd
              · rw [h1] at hd; exact absurd hd (by decide)
            rw [ht2, this] at hr
            exact absurd hr (by decide)
          · simpa using hd
      · left; simpa using hcd

/-- The byte-level relation between the sanitised source prefix and the output:
position by position the byte is kept (never a backslash), or a backslash
became `/`, or – at most once (`conv` flips) and never at index 0 – a `:`
followed by a byte that is neither NUL nor a separator became `/`. -/
def Rewrite : Bool → Bool → Bytes → Bytes → Prop
  | _, _, _, [] => True
  | _, _, [], _ :: _ => False
  | first, conv, t :: rest, c :: out =>
    ∃ conv', Step first conv t rest c conv' ∧ Rewrite false conv' rest out

theorem copyLoop_rewrite : ∀ (k : Nat) (first conv : Bool) (s out : Bytes),
    copyLoop k first conv s = some out → Rewrite first conv s out := by
  intro k
  induction k with
  | zero => intro first conv s out h; rw [copyLoop_zero] at h; cases h; simp [Rewrite]
  | succ k ih =>
    intro first conv s out h
    cases s with
    | nil => rw [copyLoop_nil] at h; cases h; simp [Rewrite]
    | cons t rest =>
      obtain ⟨_, _, c, o, cv, rfl, ho, hs⟩ := copyLoop_cons h
      exact ⟨cv, hs, ih _ _ _ _ ho⟩

/-! ## `cstr` -/

theorem cstr_no_nul (b : Bytes) : ∀ c ∈ cstr b, c ≠ 0 := by
  unfold cstr
  induction b with
  | nil => simp
  | cons a rest ih =>
    intro c hc
    rw [List.takeWhile_cons] at hc
    split at hc
    · rename_i ha
      rcases List.mem_cons.mp hc with rfl | h
      · simpa using ha
      · exact ih c h
    · simp at hc

/-! ## case-insensitive comparison -/

theorem strcasecmpEq_length {a b : Bytes} (h : strcasecmpEq a b = true) : a.length = b.length := by
  unfold strcasecmpEq at h
  have := congrArg List.length (beq_iff_eq.mp h)
  simpa using this

theorem map_lower_eq_dot {name : Bytes} (h : name.map lower = [cDot]) : name = [cDot] := by
  cases name with
  | nil => simp at h
  | cons c r =>
    cases r with
    | cons d r' => simp at h
    | nil =>
      simp only [List.map_cons, List.map_nil, List.cons.injEq, and_true] at h
      rw [lower_eq_dot h]

theorem map_lower_eq_dotdot {name : Bytes} (h : name.map lower = [cDot, cDot]) : name = [cDot, cDot] := by
  cases name with
  | nil => simp at h
  | cons c r =>
    cases r with
    | nil => simp at h
    | cons d r' =>
      cases r' with
      | cons x y => simp at h
      | nil =>
        simp only [List.map_cons, List.map_nil, List.cons.injEq, and_true] at h
        rw [lower_eq_dot h.1, lower_eq_dot h.2]

/-- a name containing `/` is never equal, ignoring case, to an entry without `/` -/
theorem strcasecmpEq_slash {e name : Bytes} (h : strcasecmpEq e name = true) (hs : cSlash ∈ name) :
    cSlash ∈ e := by
  unfold strcasecmpEq at h
  have h' := beq_iff_eq.mp h
  have : lower cSlash ∈ name.map lower := List.mem_map_of_mem hs
  rw [← h'] at this
  obtain ⟨c, hc, hl⟩ := List.mem_map.mp this
  have : c = cSlash := lower_eq_slash (by rw [hl]; decide)
  exact this ▸ hc

/-! ## directory lookup -/

theorem checkFilenameCase_some {l : Option (List Bytes)} {name : Bytes} {size : Nat} {e : Bytes}
    (h : checkFilenameCase l name size = some e) :
    ∃ es, l = some es ∧ e ∈ es ∧ strcasecmpEq e name = true ∧ e.length < size := by
  unfold checkFilenameCase at h
  split at h
  · exact absurd h (by simp)
  · rename_i es
    split at h
    · exact absurd h (by simp)
    · rename_i e' he'
      split at h
      · rename_i hl
        cases h
        exact ⟨es, rfl, List.mem_of_find?_eq_some he', by simpa using List.find?_some he', hl⟩
      · exact absurd h (by simp)

/-! ## `get_dirname` / `get_basename` -/

theorem afterLastSlash_le (p : Bytes) : afterLastSlash p ≤ p.length := by
  induction p with
  | nil => simp [afterLastSlash]
  | cons c rest ih =>
    simp only [afterLastSlash, List.length_cons]
    split
    · omega
    · split <;> omega

theorem basename_no_slash (p : Bytes) : cSlash ∉ getBasename p := by
  unfold getBasename
  induction p with
  | nil => simp [afterLastSlash]
  | cons c rest ih =>
    simp only [afterLastSlash]
    split
    · simpa using ih
    · rename_i h0
      have h0' : afterLastSlash rest = 0 := by omega
      rw [h0'] at ih
      split
      · simpa using ih
      · rename_i hc
        simp only [List.drop_zero, List.mem_cons, not_or]
        exact ⟨fun h => hc (by simp [h]), by simpa using ih⟩

theorem dirname_append_basename (p : Bytes) : getDirname p ++ getBasename p = p :=
  List.take_append_drop _ _

/-- the directory part is empty or ends with `/` -/
theorem dirname_shape (p : Bytes) : getDirname p = [] ∨ ∃ d, getDirname p = d ++ [cSlash] := by
  unfold getDirname
  induction p with
  | nil => left; simp [afterLastSlash]
  | cons c rest ih =>
    simp only [afterLastSlash]
    split
    · rename_i hr
      right
      rcases ih with h | ⟨d, hd⟩
      · have := congrArg List.length h
        have hle := afterLastSlash_le rest
        simp only [List.length_take, List.length_nil] at this
        omega
      · exact ⟨c :: d, by simp [List.take_succ_cons, hd]⟩
    · split
      · rename_i hc
        right
        exact ⟨[], by simp [beq_iff_eq.mp hc]⟩
      · left; simp

/-! ## `strrchr(s, '-')` -/

theorem lastDash_append {x y : Bytes} {j : Nat} (h : lastDash y = some j) :
    lastDash (x ++ y) = some (x.length + j) := by
  induction x with
  | nil => simpa using h
  | cons a rest ih =>
    simp only [List.cons_append, lastDash, ih, List.length_cons]
    congr 1
    omega

theorem lastDash_lt : ∀ (y : Bytes) (j : Nat), lastDash y = some j → j < y.length := by
  intro y
  induction y with
  | nil => intro j h; simp [lastDash] at h
  | cons a rest ih =>
    intro j h
    simp only [lastDash] at h
    cases h2 : lastDash rest with
    | some k => rw [h2] at h; cases h; have := ih k h2; simp; omega
    | none =>
      rw [h2] at h
      simp only at h
      split at h
      · cases h; simp
      · cases h

theorem lastDash_of_mem {y : Bytes} (h : cDash ∈ y) : ∃ j, lastDash y = some j ∧ j < y.length := by
  induction y with
  | nil => simp at h
  | cons a rest ih =>
    simp only [lastDash]
    by_cases hr : cDash ∈ rest
    · obtain ⟨j, hj, hl⟩ := ih hr
      exact ⟨j + 1, by simp [hj], by simp; omega⟩
    · have ha : a = cDash := by
        rcases List.mem_cons.mp h with h' | h'
        · exact h'.symm
        · exact absurd h' hr
      cases hld : lastDash rest with
      | some k => exact ⟨k + 1, by simp, by have := lastDash_lt rest k hld; simp; omega⟩
      | none => exact ⟨0, by simp [ha], by simp⟩

/-! ## at most one colon is rewritten -/

/-- number of positions where a `:` of the source became `/` -/
def colonRewrites : Bytes → Bytes → Nat
  | t :: rest, c :: out => (if t == cColon && c == cSlash then 1 else 0) + colonRewrites rest out
  | _, _ => 0

theorem rewrite_colon_count : ∀ (out : Bytes) (first conv : Bool) (s : Bytes),
    Rewrite first conv s out → colonRewrites s out ≤ (if conv then 0 else 1) := by
  intro out
  induction out with
  | nil => intro first conv s _; cases s <;> simp [colonRewrites]
  | cons c out ih =>
    intro first conv s h
    cases s with
    | nil => simp [Rewrite] at h
    | cons t rest =>
      simp only [Rewrite] at h
      obtain ⟨conv', hstep, hrest⟩ := h
      have := ih false conv' rest hrest
      simp only [colonRewrites]
      rcases hstep with ⟨rfl, _, rfl, _⟩ | ⟨rfl, rfl, rfl⟩ | ⟨rfl, rfl, _, rfl, rfl, _⟩
      · have : (c == cColon && c == cSlash) = false := by
          by_cases hc : c = cColon
          · subst hc; decide
          · simp [hc]
        simp only [this]
        simpa using ‹colonRewrites rest out ≤ _›
      · have : (cBack == cColon && cSlash == cSlash) = false := by decide
        simp only [this]
        simpa using ‹colonRewrites rest out ≤ _›
      · simp at this ⊢
        omega

end Xmp.PathSafe
