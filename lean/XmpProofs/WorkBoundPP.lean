import XmpProofs.WorkBound
/-!
# Work bounds of the PowerPacker decoder (`XmpModel.PowerPacker`, src/depackers/ppdepack.c) (C02)

For **arbitrary** packed bytes (not only encoder output): every `PP_READ_BITS` consumes exactly the bits it
returns; a count group loop reads at most `bits/n + 1` groups; every iteration of the main loop appends at
least two bytes … so `ppDecrunch` runs at most `dest_len + 1` iterations, never writes more than `dest_len`
bytes, and `dest_len` is a 24-bit field: the output is at most 16 MiB whatever the stream contains.
-/
namespace Xmp.Work
open Xmp Xmp.PowerPacker

theorem fill_bits (n : Nat) : ∀ (src : Bytes) (buf left : Nat) (b : BR), fill n src buf left = some b →
    b.left + 8 * b.src.length = left + 8 * src.length ∧ n ≤ b.left := by
  intro src
  induction src with
  | nil =>
    intro buf left b h
    simp only [fill] at h
    split at h
    · simp at h
    · simp only [Option.some.injEq] at h; subst h; simp; omega
  | cons c r ih =>
    intro buf left b h
    simp only [fill] at h
    split at h
    · have := ih _ _ _ h
      simp only [List.length_cons]
      omega
    · simp only [Option.some.injEq] at h; subst h; simp; omega

/-- `PP_READ_BITS(n, x)` uses up exactly `n` of the available bits -/
theorem readBits_avail (n : Nat) (br br' : BR) (x : Nat) (h : readBits n br = some (x, br')) :
    bitsAvail br' + n = bitsAvail br := by
  unfold readBits at h
  split at h
  · simp at h
  rename_i b hb
  simp only [Option.some.injEq, Prod.mk.injEq] at h
  obtain ⟨_, h2⟩ := h
  subst h2
  have := fill_bits n br.src br.buf br.left b hb
  simp only [bitsAvail]
  omega

/-! ## count groups -/

theorem readCount_eq_run (n : Nat) : ∀ fuel br todo,
    readCount n fuel br todo = (run (countStep n) fuel (br, todo)).outD none := by
  intro fuel
  induction fuel with
  | zero => intros; rfl
  | succ m ih =>
    intro br todo
    rw [run_outD_fold]
    simp only [readCount, countStep]
    cases hr : readBits n br with
    | none => rfl
    | some r =>
      obtain ⟨x, br'⟩ := r
      simp only [apply_ite (Out.fold none (run (countStep n) m)), Out.fold_done, Out.fold_next, ← ih]

theorem countStep_progress (n : Nat) (s s' : BR × Nat) (h : (countStep n s).succ? = some s') :
    bitsAvail s'.1 + n = bitsAvail s.1 ∧ s.2 ≤ s'.2 := by
  unfold countStep at h
  split at h
  · simp [Out.succ?] at h
  rename_i x br' hr
  split at h
  · simp only [Out.succ?, Option.some.injEq] at h
    subst h
    exact ⟨readBits_avail n s.1 br' x hr, Nat.le_add_right _ _⟩
  · simp [Out.succ?] at h

/-- **count groups**: `do { PP_READ_BITS(n, x); todo += x; } while (x == 2^n − 1)` reads at most `bits/n + 1`
groups for `n ≥ 1`; the model's fuel `bitsAvail + 1` never stops it.  (A run of all-ones groups cannot keep the
loop alive: the reader runs out of source bits.) -/
theorem readCount_work (n : Nat) (hn : 0 < n) (br : BR) (todo : Nat) :
    EndsWithin (countStep n) (bitsAvail br + 1) (br, todo) (bitsAvail br / n + 1) ∧
    readCount n (bitsAvail br + 1) br todo = (run (countStep n) (bitsAvail br + 1) (br, todo)).outD none :=
  ⟨run_bounded (countStep n) (fun _ => True) (fun s => bitsAvail s.1) n hn
      (fun s s' _ h => ⟨trivial, by have := countStep_progress n s s' h; omega⟩) (bitsAvail br + 1) (br, todo) trivial
      (by have : bitsAvail br / n ≤ bitsAvail br := Nat.div_le_self _ _
          show bitsAvail br / n < bitsAvail br + 1
          omega),
   readCount_eq_run n _ br todo⟩

theorem readCount_ge (n : Nat) : ∀ fuel br todo r br', readCount n fuel br todo = some (r, br') → todo ≤ r := by
  intro fuel
  induction fuel with
  | zero => intro br todo r br' h; simp [readCount] at h
  | succ m ih =>
    intro br todo r br' h
    simp only [readCount] at h
    split at h
    · simp at h
    split at h
    · have := ih _ _ _ _ h; omega
    · simp only [Option.some.injEq, Prod.mk.injEq] at h; omega

/-! ## copies never overrun `dest_len` -/

theorem copyLits_len (destLen : Nat) : ∀ todo br acc br' acc', copyLits destLen todo br acc = some (br', acc') →
    acc'.length = acc.length + todo ∧ (0 < todo → acc'.length ≤ destLen) := by
  intro todo
  induction todo with
  | zero => intro br acc br' acc' h; simp [copyLits] at h; obtain ⟨_, h2⟩ := h; subst h2; simp
  | succ k ih =>
    intro br acc br' acc' h
    simp only [copyLits] at h
    split at h
    · simp at h
    split at h
    · simp at h
    rename_i hroom
    have := ih _ _ _ _ h
    simp only [List.length_cons] at this
    refine ⟨by omega, fun _ => ?_⟩
    cases k with
    | zero => omega
    | succ j => exact this.2 (by omega)

theorem copyMatch_len (destLen offset : Nat) : ∀ todo acc acc', copyMatch destLen offset todo acc = some acc' →
    acc'.length = acc.length + todo ∧ (0 < todo → acc'.length ≤ destLen) := by
  intro todo
  induction todo with
  | zero => intro acc acc' h; simp [copyMatch] at h; subst h; simp
  | succ k ih =>
    intro acc acc' h
    simp only [copyMatch] at h
    split at h
    · simp at h
    have := ih _ _ h
    simp only [List.length_cons] at this
    refine ⟨by omega, fun _ => ?_⟩
    cases k with
    | zero => omega
    | succ j => exact this.2 (by omega)

/-- a match appends at least two bytes and stays within `dest_len` -/
theorem doMatch_len (offsetLens : Bytes) (destLen : Nat) (br : BR) (acc : Bytes) (br' : BR) (acc' : Bytes)
    (h : doMatch offsetLens destLen br acc = some (br', acc')) : acc.length + 2 ≤ acc'.length ∧ acc'.length ≤ destLen := by
  unfold doMatch at h
  simp only [] at h
  split at h
  · simp at h
  rename_i x br1 _
  split at h
  · simp at h
  rename_i offset todo br2 hr
  split at h
  · simp at h
  simp only [Option.map_eq_some_iff] at h
  obtain ⟨a, ha, he⟩ := h
  simp only [Prod.mk.injEq] at he
  obtain ⟨_, he2⟩ := he
  subst he2
  have hl := copyMatch_len destLen offset todo acc a ha
  have htodo : 2 ≤ todo := by
    split at hr
    · (repeat' split at hr) <;> first | (simp at hr; done) | skip
      rename_i hc
      simp only [Option.some.injEq, Prod.mk.injEq] at hr
      obtain ⟨_, h2, _⟩ := hr
      subst h2
      have := readCount_ge 3 _ _ _ _ _ hc
      omega
    · (repeat' split at hr) <;> first | (simp at hr; done) | skip
      simp only [Option.some.injEq, Prod.mk.injEq] at hr
      omega
  exact ⟨by omega, hl.2 (by omega)⟩

/-! ## main loop -/

theorem mainLoop_eq_run (offsetLens : Bytes) (destLen : Nat) : ∀ fuel br acc,
    mainLoop offsetLens destLen fuel br acc = (run (ppStep offsetLens destLen) fuel (br, acc)).outD none := by
  intro fuel
  induction fuel with
  | zero => intros; rfl
  | succ m ih =>
    intro br acc
    rw [run_outD_fold]
    simp only [mainLoop, ppStep]
    split
    · rfl
    cases h1 : readBits 1 br with
    | none => rfl
    | some r1 =>
      obtain ⟨x, br1⟩ := r1
      simp only []
      split
      · cases h2 : readCount 2 (bitsAvail br1 + 1) br1 1 with
        | none => rfl
        | some r2 =>
          obtain ⟨todo, br2⟩ := r2
          simp only []
          cases h3 : copyLits destLen todo br2 acc with
          | none => rfl
          | some r3 =>
            obtain ⟨br3, acc3⟩ := r3
            simp only []
            split
            · rfl
            cases h4 : doMatch offsetLens destLen br3 acc3 with
            | none => rfl
            | some r4 => obtain ⟨br4, acc4⟩ := r4; exact ih br4 acc4
      · cases h4 : doMatch offsetLens destLen br1 acc with
        | none => rfl
        | some r4 => obtain ⟨br4, acc4⟩ := r4; exact ih br4 acc4

/-- **progress**: every iteration of the main loop that continues has appended at least two bytes and the
output is still within `dest_len` -/
theorem ppStep_progress (offsetLens : Bytes) (destLen : Nat) (s s' : BR × Bytes)
    (h : (ppStep offsetLens destLen s).succ? = some s') : s.2.length + 2 ≤ s'.2.length ∧ s'.2.length ≤ destLen := by
  unfold ppStep at h
  simp only [] at h
  split at h
  · simp [Out.succ?] at h
  split at h
  · simp [Out.succ?] at h
  rename_i x br1 _
  split at h
  · split at h
    · simp [Out.succ?] at h
    rename_i todo br2 _
    split at h
    · simp [Out.succ?] at h
    rename_i br3 acc3 h3
    split at h
    · simp [Out.succ?] at h
    split at h
    · simp [Out.succ?] at h
    rename_i br4 acc4 h4
    simp only [Out.succ?, Option.some.injEq] at h
    subst h
    have l3 := copyLits_len destLen todo br2 s.2 br3 acc3 h3
    have l4 := doMatch_len offsetLens destLen br3 acc3 br4 acc4 h4
    simp only
    omega
  · split at h
    · simp [Out.succ?] at h
    rename_i br4 acc4 h4
    simp only [Out.succ?, Option.some.injEq] at h
    subst h
    have l4 := doMatch_len offsetLens destLen br1 s.2 br4 acc4 h4
    simp only
    constructor
    · have := l4.1; omega
    · exact l4.2

/-- **PowerPacker work bound**: the main loop of `ppDecrunch` ends by itself within `dest_len/2 + 1` iterations;
the model's fuel `dest_len + 1` never stops it -/
theorem pp_work (offsetLens : Bytes) (destLen : Nat) (br : BR) :
    EndsWithin (ppStep offsetLens destLen) (destLen + 1) (br, []) (destLen / 2 + 1) ∧
    mainLoop offsetLens destLen (destLen + 1) br [] = (run (ppStep offsetLens destLen) (destLen + 1) (br, [])).outD none :=
  ⟨by
    have := run_bounded (ppStep offsetLens destLen) (fun _ => True) (fun s => destLen - s.2.length) 2 (by decide)
      (fun s s' _ h => ⟨trivial, by have := ppStep_progress offsetLens destLen s s' h; omega⟩) (destLen + 1) (br, []) trivial
      (by have : destLen / 2 ≤ destLen := Nat.div_le_self _ _
          show (destLen - 0) / 2 < destLen + 1
          omega)
    simpa using this,
   mainLoop_eq_run offsetLens destLen _ br []⟩

/-- whatever the main loop returns has exactly `dest_len` bytes -/
theorem mainLoop_out_len (offsetLens : Bytes) (destLen : Nat) : ∀ fuel br acc out, acc.length ≤ destLen →
    mainLoop offsetLens destLen fuel br acc = some out → out.length = destLen := by
  intro fuel
  induction fuel with
  | zero => intro br acc out _ h; simp [mainLoop] at h
  | succ m ih =>
    intro br acc out hle h
    simp only [mainLoop] at h
    split at h
    · simp only [Option.some.injEq] at h; subst h; omega
    split at h
    · simp at h
    split at h
    · split at h
      · simp at h
      split at h
      · simp at h
      rename_i br3 acc3 h3
      split at h
      · simp only [Option.some.injEq] at h; subst h; assumption
      split at h
      · simp at h
      rename_i br4 acc4 h4
      exact ih br4 acc4 out (doMatch_len _ _ _ _ _ _ h4).2 h
    · split at h
      · simp at h
      rename_i br4 acc4 h4
      exact ih br4 acc4 out (doMatch_len _ _ _ _ _ _ h4).2 h

/-- **PowerPacker output ceiling**: whatever a PP20 file contains, what `decrunch_pp` produces has exactly the
length of its 24-bit length field — at most 16 MiB − 1, a fixed limit (no growth, one allocation) -/
theorem decrunchPP_out_len (file out : Bytes) (h : decrunchPP file = some out) : out.length < 2 ^ 24 := by
  unfold decrunchPP at h
  simp only [] at h
  repeat' split at h
  all_goals (try (simp at h; done))
  unfold ppDecrunch at h
  repeat' split at h
  all_goals (try (simp at h; done))
  have := mainLoop_out_len _ _ _ _ _ _ (Nat.zero_le _) h
  rw [this]
  unfold be24
  have a := (file.getD (file.length - 4) 0).toNat_lt
  have b := (file.getD (file.length - 3) 0).toNat_lt
  have c := (file.getD (file.length - 2) 0).toNat_lt
  omega

end Xmp.Work
