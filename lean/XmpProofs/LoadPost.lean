import XmpModel.LoadPost
import XmpModel.Gen.AllocSites
