import XmpModel.LoadPost
import XmpModel.Gen.AllocSites
/-! Helper lemmas for C03 (model `Xmp.LoadPost`). -/
namespace Xmp.LoadPost
open Xmp.Gen.Limits

/-! ## Generated facts -/

/-- relations between the generated limits that the proofs rely on -/
theorem limits_sane :
    maxSequences ≤ 0xff ∧ 1 ≤ epiSpdDefault ∧ epiSpdDefault ≤ epiSpdMax ∧ epiSpdMax ≤ 255
    ∧ xmpMinBpm ≤ epiBpmMax ∧ 1 ≤ xmpMaxEnvPoints ∧ 1 ≤ xmpMaxModLength ∧ xmpMaxModLength ≤ 256 := by decide

open Xmp.Gen.AllocSites in
/-- (file, kind) classes that allocate a track / sub-instrument object without the
helpers of loaders/common.c.  Patterns are only ever allocated by the helper. -/
def allowedBypass : List (String × Kind) :=
  [ ("loaders/it_load.c", .subinstrument), ("loaders/s3m_load.c", .subinstrument), ("smix.c", .subinstrument),
    ("loaders/mdl_load.c", .track), ("loaders/mgt_load.c", .track) ]

open Xmp.Gen.AllocSites in
/-- Every direct allocation site found in the compiled sources belongs to a known
class, and the three helpers still allocate in loaders/common.c. -/
theorem allocSites_known :
    (∀ s ∈ directSites, (s.file, s.kind) ∈ allowedBypass)
    ∧ (∀ k : Kind, ∃ s ∈ helperSites, s.kind = k ∧ s.file = "loaders/common.c") := by
  constructor
  · decide
  · intro k; cases k <;> decide

/-! ## Basics -/

theorem clampC_ge {x a b : Int} (h : a ≤ b) : a ≤ clampC x a b := by
  unfold clampC; split
  · omega
  · split <;> omega

theorem clampC_le {x a b : Int} (h : a ≤ b) : clampC x a b ≤ b := by
  unfold clampC; split
  · omega
  · split <;> omega

theorem clampC_le_self {x a b : Int} (h : a ≤ x) : clampC x a b ≤ x := by
  unfold clampC; split
  · omega
  · split <;> omega

theorem allBelow_iff {n : Int} {p : Nat → Bool} :
    allBelow n p = true ↔ ∀ i : Nat, (i : Int) < n → p i = true := by
  unfold allBelow
  rw [List.all_eq_true]
  constructor
  · intro h i hi
    apply h; rw [List.mem_range]; omega
  · intro h i hi
    rw [List.mem_range] at hi
    apply h; omega

theorem allBelow_mono {n n' : Int} {p : Nat → Bool} (h : allBelow n p = true) (hn : n' ≤ n) :
    allBelow n' p = true := by
  rw [allBelow_iff] at *
  intro i hi; apply h; omega

end Xmp.LoadPost

namespace Xmp.LoadPost
open Xmp.Gen.Limits

/-! ## libxmp_scan_sequences -/

theorem getD_set (l : List Nat) (i j v d : Nat) :
    (l.set i v).getD j d = if i = j ∧ i < l.length then v else l.getD j d := by
  simp only [List.getD_eq_getElem?_getD, List.getElem?_set]
  by_cases h : i = j
  · subst h
    by_cases h2 : i < l.length
    · simp [h2]
    · simp [h2]
  · simp [h]

theorem markOne_length (len ep chain : Nat) (ctl : List Nat) (ord : Nat) :
    (markOne len ep chain ctl ord).length = ctl.length := by
  unfold markOne
  split
  · split
    · rfl
    · simp
  · rfl

theorem markOne_nonfree {len ep chain : Nat} (hc : chain ≠ 0xff) (ctl : List Nat) (ord o : Nat)
    (h : ctl.getD o 0xff ≠ 0xff) : (markOne len ep chain ctl ord).getD o 0xff ≠ 0xff := by
  unfold markOne
  split
  · split
    · exact h
    · rw [getD_set]; split
      · exact hc
      · exact h
  · exact h

theorem foldl_markOne_length (len ep chain : Nat) (marks : List Nat) :
    ∀ ctl : List Nat, (marks.foldl (markOne len ep chain) ctl).length = ctl.length := by
  induction marks with
  | nil => intro ctl; rfl
  | cons a rest ih => intro ctl; simp only [List.foldl_cons]; rw [ih, markOne_length]

theorem foldl_markOne_nonfree {len ep chain : Nat} (hc : chain ≠ 0xff) (marks : List Nat) (o : Nat) :
    ∀ ctl : List Nat, ctl.getD o 0xff ≠ 0xff → (marks.foldl (markOne len ep chain) ctl).getD o 0xff ≠ 0xff := by
  induction marks with
  | nil => intro ctl h; exact h
  | cons a rest ih => intro ctl h; simp only [List.foldl_cons]; exact ih _ (markOne_nonfree hc ctl a o h)

theorem applyScan_length (len ep chain : Nat) (ctl : List Nat) (r : ScanRes) :
    (applyScan len ep chain ctl r).length = ctl.length := foldl_markOne_length _ _ _ _ _

theorem applyScan_nonfree {len ep chain : Nat} (hc : chain ≠ 0xff) (ctl : List Nat) (r : ScanRes) (o : Nat)
    (h : ctl.getD o 0xff ≠ 0xff) : (applyScan len ep chain ctl r).getD o 0xff ≠ 0xff :=
  foldl_markOne_nonfree hc _ _ _ h

/-- the entry point of a scan is marked by it (it is free, or the scan is the first one) -/
theorem applyScan_marks_ep {len ep chain : Nat} (hc : chain ≠ 0xff) (ctl : List Nat) (r : ScanRes)
    (hep : ep < len) (hlen : ep < ctl.length) (hfree : ep = 0 ∨ ctl.getD ep 0xff = 0xff) :
    (applyScan len ep chain ctl r).getD ep 0xff ≠ 0xff := by
  unfold applyScan
  simp only [List.foldl_cons]
  apply foldl_markOne_nonfree hc
  unfold markOne
  simp only [hep, if_true]
  have : ¬ (ep ≠ 0 ∧ ctl.getD ep 0xff ≠ 0xff) := by
    rcases hfree with h | h
    · simp [h]
    · intro hh; exact hh.2 h
  simp only [this, if_false]
  rw [getD_set]
  simp [hlen, hc]

theorem markOne_keep_val {len ep chain : Nat} (ctl : List Nat) (ord o : Nat)
    (h : ctl.getD o 0xff = chain) : (markOne len ep chain ctl ord).getD o 0xff = chain := by
  unfold markOne
  split
  · split
    · exact h
    · rw [getD_set]; split
      · rfl
      · exact h
  · exact h

theorem foldl_markOne_keep_val {len ep chain : Nat} (marks : List Nat) (o : Nat) :
    ∀ ctl : List Nat, ctl.getD o 0xff = chain → (marks.foldl (markOne len ep chain) ctl).getD o 0xff = chain := by
  induction marks with
  | nil => intro ctl h; exact h
  | cons a rest ih => intro ctl h; simp only [List.foldl_cons]; exact ih _ (markOne_keep_val ctl a o h)

/-- a scan from an entry point other than 0 never touches an order that already belongs to a scan -/
theorem markOne_unchanged {len ep chain : Nat} (hep : ep ≠ 0) (ctl : List Nat) (ord o : Nat)
    (h : ctl.getD o 0xff ≠ 0xff) : (markOne len ep chain ctl ord).getD o 0xff = ctl.getD o 0xff := by
  unfold markOne
  split
  · split
    · rfl
    · rename_i hc
      rw [getD_set]; split
      · rename_i hh
        exfalso
        apply hc
        refine ⟨hep, ?_⟩
        rw [hh.1]; exact h
      · rfl
  · rfl

theorem foldl_markOne_unchanged {len ep chain : Nat} (hep : ep ≠ 0) (marks : List Nat) (o : Nat) :
    ∀ ctl : List Nat, ctl.getD o 0xff ≠ 0xff →
      (marks.foldl (markOne len ep chain) ctl).getD o 0xff = ctl.getD o 0xff := by
  induction marks with
  | nil => intro ctl h; rfl
  | cons a rest ih =>
    intro ctl h
    simp only [List.foldl_cons]
    have h1 := markOne_unchanged (chain := chain) (len := len) hep ctl a o h
    rw [ih _ (by rw [h1]; exact h), h1]

theorem applyScan_unchanged {len ep chain : Nat} (hep : ep ≠ 0) (ctl : List Nat) (r : ScanRes) (o : Nat)
    (h : ctl.getD o 0xff ≠ 0xff) : (applyScan len ep chain ctl r).getD o 0xff = ctl.getD o 0xff :=
  foldl_markOne_unchanged hep _ _ _ h

/-- the entry point of a scan ends up with that scan's id -/
theorem applyScan_ep_val {len ep chain : Nat} (ctl : List Nat) (r : ScanRes)
    (hep : ep < len) (hlen : ep < ctl.length) (hfree : ep = 0 ∨ ctl.getD ep 0xff = 0xff) :
    (applyScan len ep chain ctl r).getD ep 0xff = chain := by
  unfold applyScan
  simp only [List.foldl_cons]
  apply foldl_markOne_keep_val
  unfold markOne
  simp only [hep, if_true]
  have : ¬ (ep ≠ 0 ∧ ctl.getD ep 0xff ≠ 0xff) := by
    rcases hfree with h | h
    · simp [h]
    · intro hh; exact hh.2 h
  simp only [this, if_false]
  rw [getD_set]
  simp [hlen]

theorem firstFree_some {len : Nat} {ctl : List Nat} {ep : Nat} (h : firstFree len ctl = some ep) :
    ep < len ∧ ctl.getD ep 0xff = 0xff := by
  unfold firstFree at h
  have h1 := List.mem_of_find?_eq_some h
  have h2 := List.find?_some h
  rw [List.mem_range] at h1
  exact ⟨h1, by simpa using h2⟩

theorem firstFree_none {len : Nat} {ctl : List Nat} (h : firstFree len ctl = none) :
    ∀ o, o < len → ctl.getD o 0xff ≠ 0xff := by
  unfold firstFree at h
  rw [List.find?_eq_none] at h
  intro o ho
  have := h o (List.mem_range.mpr ho)
  simpa using this

/-- Invariant of the `while (1)` loop of `libxmp_scan_sequences`. -/
structure SeqInv (len : Nat) (st : SeqState) : Prop where
  ctlLen : st.ctl.length = xmpMaxModLength
  seqPos : 1 ≤ st.seq
  seqMax : st.seq ≤ maxSequences
  epsLen : st.eps.length = st.seq
  timesLen : st.times.length = st.seq
  epsIn : ∀ e ∈ st.eps, 0 < len → e < len
  epsMarked : ∀ e ∈ st.eps, e < len → st.ctl.getD e 0xff ≠ 0xff
  timesNN : ∀ t ∈ st.times, 0 ≤ t
  nodup : st.eps.Nodup
  head : st.eps.head? = some 0
  own : ∀ i (h : i < st.eps.length), st.eps[i] < len → st.ctl.getD st.eps[i] 0xff = i

theorem seqLoop_inv (scan : Nat → ScanRes) (len : Nat) (hlen : len ≤ xmpMaxModLength) :
    ∀ (fuel : Nat) (st : SeqState), SeqInv len st → SeqInv len (seqLoop scan len fuel st) := by
  intro fuel
  induction fuel with
  | zero => intro st h; exact h
  | succ fuel ih =>
    intro st inv
    unfold seqLoop
    split
    · exact inv
    · rename_i ep hff
      obtain ⟨hep, hfree⟩ := firstFree_some hff
      split
      · rename_i hseq
        have hc : st.seq ≠ 0xff := by
          have := limits_sane.1; omega
        have hepl : ep < st.ctl.length := by rw [inv.ctlLen]; omega
        have hep0 : ep ≠ 0 := by
          intro h0; subst h0
          have hmem : 0 ∈ st.eps := by
            have := inv.head
            cases hq : st.eps with
            | nil => rw [hq] at this; simp at this
            | cons x xs => rw [hq] at this; simp at this; subst this; simp
          exact inv.epsMarked 0 hmem hep hfree
        simp only
        split
        · rename_i htime
          apply ih
          constructor <;> simp only
          · rw [applyScan_length]; exact inv.ctlLen
          · omega
          · omega
          · rw [List.length_append, inv.epsLen]; rfl
          · rw [List.length_append, inv.timesLen]; rfl
          · intro e he hl
            rcases List.mem_append.mp he with h | h
            · exact inv.epsIn e h hl
            · simp at h; omega
          · intro e he hl
            rcases List.mem_append.mp he with h | h
            · exact applyScan_nonfree hc _ _ _ (inv.epsMarked e h hl)
            · simp at h; subst h
              exact applyScan_marks_ep hc _ _ hep hepl (Or.inr hfree)
          · intro t ht
            rcases List.mem_append.mp ht with h | h
            · exact inv.timesNN t h
            · simp at h; omega
          · rw [List.nodup_append]
            refine ⟨inv.nodup, by simp, ?_⟩
            intro a ha b hb
            simp at hb; subst hb
            intro hab; subst hab
            exact inv.epsMarked a ha hep hfree
          · have := inv.head
            cases hq : st.eps with
            | nil => rw [hq] at this; simp at this
            | cons x xs => rw [hq] at this; simpa using this
          · intro i hi hl
            rw [List.length_append] at hi
            simp only [List.length_cons, List.length_nil] at hi
            by_cases hlt : i < st.eps.length
            · rw [List.getElem_append_left hlt] at hl ⊢
              rw [applyScan_unchanged hep0 _ _ _ (inv.epsMarked _ (List.getElem_mem hlt) hl)]
              exact inv.own i hlt hl
            · have hieq : i = st.eps.length := by omega
              subst hieq
              rw [List.getElem_append_right (Nat.le_refl _)]
              simp only [Nat.sub_self, List.getElem_cons_zero]
              rw [applyScan_ep_val _ _ hep hepl (Or.inr hfree), inv.epsLen]
        · apply ih
          constructor <;> simp only
          · rw [applyScan_length]; exact inv.ctlLen
          · exact inv.seqPos
          · exact inv.seqMax
          · exact inv.epsLen
          · exact inv.timesLen
          · exact inv.epsIn
          · intro e he hl
            exact applyScan_nonfree hc _ _ _ (inv.epsMarked e he hl)
          · exact inv.timesNN
          · exact inv.nodup
          · exact inv.head
          · intro i hi hl
            rw [applyScan_unchanged hep0 _ _ _ (inv.epsMarked _ (List.getElem_mem hi) hl)]
            exact inv.own i hi hl
      · exact inv


theorem cleanup_length (len seq : Nat) (ctl : List Nat) : (cleanup len seq ctl).length = ctl.length := by
  simp [cleanup]

theorem cleanup_getD (len seq : Nat) (ctl : List Nat) (o : Nat) (ho : o < len) :
    (cleanup len seq ctl).getD o 0xff = 0xff ∨ (cleanup len seq ctl).getD o 0xff < seq := by
  simp only [cleanup, List.getD_eq_getElem?_getD, List.getElem?_mapIdx]
  cases h : ctl[o]? with
  | none => simp
  | some c =>
    simp only [Option.map_some, Option.getD_some, ho, true_and]
    split
    · left; rfl
    · right; omega

theorem cleanup_getD_keep (len seq : Nat) (ctl : List Nat) (o c : Nat) (h : ctl.getD o 0xff = c) (hc : c < seq) :
    (cleanup len seq ctl).getD o 0xff = c := by
  simp only [cleanup, List.getD_eq_getElem?_getD, List.getElem?_mapIdx] at h ⊢
  cases hq : ctl[o]? with
  | none => rw [hq] at h; simpa using h
  | some v =>
    rw [hq] at h
    simp only [Option.getD_some] at h
    subst h
    simp only [Option.map_some, Option.getD_some]
    have : ¬ (o < len ∧ v ≥ seq) := by omega
    simp [this]

theorem ctlInit_length : ctlInit.length = xmpMaxModLength := by simp [ctlInit]

/-- the first scan's state satisfies the loop invariant -/
theorem init_inv (len : Nat) (hlen : len ≤ xmpMaxModLength) (r0 : ScanRes) (ht : ¬ r0.time < 0) (calls : Nat)
    (trace : List (Nat × Nat)) :
    SeqInv len { ctl := applyScan len 0 0 ctlInit r0, seq := 1, eps := [0], times := [r0.time],
                 calls := calls, trace := trace } := by
  constructor <;> simp only
  · rw [applyScan_length, ctlInit_length]
  · exact Nat.le_refl 1
  · decide
  · rfl
  · rfl
  · intro e he hl; simp at he; omega
  · intro e he hl
    simp at he; subst he
    exact applyScan_marks_ep (by decide) _ _ hl (by rw [ctlInit_length]; omega) (Or.inl rfl)
  · intro t h; simp at h; omega
  · simp
  · rfl
  · intro i hi hl
    simp only [List.length_cons, List.length_nil] at hi
    have : i = 0 := by omega
    subst this
    simp only [List.getElem_cons_zero] at hl ⊢
    exact applyScan_ep_val _ _ hl (by rw [ctlInit_length]; omega) (Or.inl rfl)

/-- **Bookkeeping of `libxmp_scan_sequences`**, for every behaviour of `scan_module`. -/
theorem scanCore_spec (scan : Nat → ScanRes) (len : Nat) (hlen : len ≤ xmpMaxModLength) (st : SeqState)
    (h : scanSequencesCore scan len = .ok st) :
    1 ≤ st.seq ∧ st.seq ≤ maxSequences ∧ st.eps.length = st.seq ∧ st.times.length = st.seq
    ∧ (0 < len → ∀ e ∈ st.eps, e < len) ∧ (∀ t ∈ st.times, 0 ≤ t) ∧ st.eps.Nodup
    ∧ st.ctl.length = xmpMaxModLength
    ∧ (∀ o, o < len → st.ctl.getD o 0xff = 0xff ∨ st.ctl.getD o 0xff < st.seq)
    ∧ st.eps.head? = some 0
    ∧ (∀ i (h : i < st.eps.length), st.eps[i] < len → st.ctl.getD st.eps[i] 0xff = i) := by
  unfold scanSequencesCore at h
  simp only at h
  split at h
  · cases h
  · rename_i ht
    have inv := seqLoop_inv scan len hlen (len + 1) _ (init_inv len hlen (firstScan scan len) ht 1 [(0, 0)])
    injection h with h
    subst h
    simp only
    refine ⟨inv.seqPos, inv.seqMax, inv.epsLen, inv.timesLen, fun hl e he => inv.epsIn e he hl, inv.timesNN,
            inv.nodup, ?_, ?_, inv.head, ?_⟩
    · rw [cleanup_length]; exact inv.ctlLen
    · intro o ho; exact cleanup_getD _ _ _ o ho
    · intro i hi hl
      have hv := inv.own i hi hl
      exact cleanup_getD_keep _ _ _ _ _ hv (by rw [← inv.epsLen]; exact hi)

/-! ### Fuel: `len + 1` iterations suffice -/

/-- number of orders `< len` that belong to no scan yet -/
def freeCount (len : Nat) (ctl : List Nat) : Nat :=
  ((List.range len).filter fun o => ctl.getD o 0xff == 0xff).length

theorem filter_length_le {α} (l : List α) (p p' : α → Bool) (h : ∀ a, p' a = true → p a = true) :
    (l.filter p').length ≤ (l.filter p).length := by
  induction l with
  | nil => simp
  | cons x rest ih =>
    simp only [List.filter_cons]
    cases hp' : p' x
    · cases hp : p x <;> simp <;> omega
    · simp [h x hp']; omega

theorem filter_length_lt {α} (l : List α) (p p' : α → Bool) (h : ∀ a, p' a = true → p a = true)
    (x : α) (hx : x ∈ l) (h1 : p x = true) (h2 : p' x = false) :
    (l.filter p').length < (l.filter p).length := by
  induction l with
  | nil => simp at hx
  | cons y rest ih =>
    simp only [List.filter_cons]
    rcases List.mem_cons.mp hx with rfl | hm
    · have := filter_length_le rest p p' h
      simp [h1, h2]; omega
    · have := ih hm
      cases hp' : p' y
      · cases hp : p y <;> simp <;> omega
      · simp [h y hp']; omega

theorem freeCount_lt (len : Nat) (ctl ctl' : List Nat) (ep : Nat) (hep : ep < len)
    (h : ∀ o, ctl.getD o 0xff ≠ 0xff → ctl'.getD o 0xff ≠ 0xff)
    (h1 : ctl.getD ep 0xff = 0xff) (h2 : ctl'.getD ep 0xff ≠ 0xff) : freeCount len ctl' < freeCount len ctl := by
  unfold freeCount
  apply filter_length_lt _ _ _ _ ep (List.mem_range.mpr hep)
  · simpa using h1
  · simpa using h2
  · intro o ho
    simp only [beq_iff_eq] at *
    apply Classical.byContradiction
    intro hne
    exact h o hne ho

/-- The loop never stops because the fuel ran out: on exit either no order is
free or `MAX_SEQUENCES` is reached (the two `break` conditions of the C). -/
theorem seqLoop_exit (scan : Nat → ScanRes) (len : Nat) (hlen : len ≤ xmpMaxModLength) :
    ∀ (fuel : Nat) (st : SeqState), SeqInv len st → freeCount len st.ctl < fuel →
      firstFree len (seqLoop scan len fuel st).ctl = none ∨ ¬ (seqLoop scan len fuel st).seq < maxSequences := by
  intro fuel
  induction fuel with
  | zero => intro st _ h; omega
  | succ fuel ih =>
    intro st inv hf
    unfold seqLoop
    split
    · rename_i hnone; left; exact hnone
    · rename_i ep hff
      obtain ⟨hep, hfree⟩ := firstFree_some hff
      split
      · rename_i hseq
        have hc : st.seq ≠ 0xff := by
          have := limits_sane.1; omega
        have hepl : ep < st.ctl.length := by rw [inv.ctlLen]; omega
        have hlt := freeCount_lt len st.ctl (applyScan len ep st.seq st.ctl (scan st.calls)) ep hep
          (fun o ho => applyScan_nonfree hc _ _ o ho) hfree
          (applyScan_marks_ep hc _ _ hep hepl (Or.inr hfree))
        have hinv := seqLoop_inv scan len hlen 1 st inv
        unfold seqLoop at hinv
        simp only [hff, hseq, if_true] at hinv
        simp only
        split
        · rename_i htime
          simp only [htime, if_true] at hinv
          unfold seqLoop at hinv
          exact ih _ hinv (by simp only; omega)
        · rename_i htime
          simp only [htime, if_false] at hinv
          unfold seqLoop at hinv
          exact ih _ hinv (by simp only; omega)
      · rename_i hseq; right; exact hseq

theorem freeCount_le (len : Nat) (ctl : List Nat) : freeCount len ctl ≤ len := by
  unfold freeCount
  have := List.length_filter_le (fun o => ctl.getD o 0xff == 0xff) (List.range len)
  simpa using this


/-! ## Stage decomposition of `finish` -/

theorem prepareScan_ok {e p : Module} (h : prepareScan e = .ok p) :
    e.xxp.isSome = true ∧ e.xxt.isSome = true ∧
    (p = { e with len := 0 } ∨ ((firstValidOrder e : Int) < e.len ∧ negRows e = false ∧ p = { e with xxp := prepareXxp e })) := by
  unfold prepareScan at h
  split at h
  · cases h
  · rename_i h0
    have hx : e.xxp.isSome = true ∧ e.xxt.isSome = true := by
      cases hp : e.xxp <;> cases ht : e.xxt <;> simp [hp, ht] at h0 ⊢
    refine ⟨hx.1, hx.2, ?_⟩
    split at h
    · left; injection h with h; exact h.symm
    · rename_i h1
      split at h
      · cases h
      · rename_i h2
        right; injection h with h
        exact ⟨by omega, by simpa using h2, h.symm⟩

theorem scanSequences_ok {scan : Nat → ScanRes} {p m : Module} (h : scanSequences scan p = .ok m) :
    ∃ st, scanSequencesCore scan p.len.toNat = .ok st ∧
      m = { p with numSeq := st.seq, seqData := st.eps.zip st.times, seqCtl := st.ctl } := by
  unfold scanSequences at h
  split at h
  · cases h
  · rename_i st hst
    injection h with h
    exact ⟨st, hst, h.symm⟩

theorem finish_ok {scan : Nat → ScanRes} {raw m : Module} (h : finish scan raw = .ok m) :
    gate raw = true ∧ ∃ p, prepareScan (epilogue (adjustNames raw)) = .ok p ∧ scanSequences scan p = .ok m := by
  unfold finish at h
  split at h
  · rename_i hg
    refine ⟨hg, ?_⟩
    split at h
    · cases h
    · rename_i p hp; exact ⟨p, hp, h⟩
  · cases h

/-- what the gate establishes -/
theorem gate_spec {m : Module} (h : gate m = true) :
    m.chn ≤ (xmpMaxChannels : Int) ∧ m.len ≤ (xmpMaxModLength : Int)
    ∧ (∀ i : Nat, (i : Int) < m.chn → ∃ c, m.xxc[i]? = some c ∧ chanOK c = true)
    ∧ m.xxp.isSome = true ∧ (∀ i : Nat, (i : Int) < m.pat → m.patOK i = true) := by
  unfold gate at h
  simp only [Bool.and_eq_true, Bool.not_eq_true', Bool.or_eq_false_iff, decide_eq_false_iff_not] at h
  obtain ⟨⟨⟨⟨h1, h2⟩, h3⟩, h4⟩, h5⟩ := h
  refine ⟨by omega, by omega, ?_, h4, allBelow_iff.mp h5⟩
  intro i hi
  have := allBelow_iff.mp h3 i hi
  cases hc : m.xxc[i]? with
  | none => simp [hc] at this
  | some c => exact ⟨c, rfl, by simpa [hc] using this⟩


/-! ## Clause lemmas (each from equations between fields) -/

theorem countsOK_of {m a : Module} (hchn : m.chn = clampC a.chn 0 xmpMaxChannels)
    (hlen : m.len = clampC a.len 0 xmpMaxModLength ∨ m.len = 0) (hpat : m.pat = clampC a.pat 0 epiPatMax)
    (hins : m.ins = clampC a.ins 0 epiInsMax) (hsmp : m.smp = clampC a.smp 0 maxSamples) : countsOK m = true := by
  have c1 := @clampC_ge a.chn 0 xmpMaxChannels (by omega)
  have c2 := @clampC_le a.chn 0 xmpMaxChannels (by omega)
  have l1 := @clampC_ge a.len 0 xmpMaxModLength (by omega)
  have l2 := @clampC_le a.len 0 xmpMaxModLength (by omega)
  have p1 := @clampC_ge a.pat 0 epiPatMax (by omega)
  have p2 := @clampC_le a.pat 0 epiPatMax (by omega)
  have i1 := @clampC_ge a.ins 0 epiInsMax (by omega)
  have i2 := @clampC_le a.ins 0 epiInsMax (by omega)
  have s1 := @clampC_ge a.smp 0 maxSamples (by omega)
  have s2 := @clampC_le a.smp 0 maxSamples (by omega)
  simp only [countsOK, Bool.and_eq_true, decide_eq_true_eq]
  refine ⟨⟨⟨⟨⟨⟨⟨⟨⟨?_, ?_⟩, ?_⟩, ?_⟩, ?_⟩, ?_⟩, ?_⟩, ?_⟩, ?_⟩, ?_⟩ <;> omega

theorem trackOK_congr {m m' : Module} (htrk : m'.trk = m.trk) (hxxt : m'.xxt = m.xxt) (t : Int) :
    m'.trackOK t = m.trackOK t := by
  unfold Module.trackOK Module.track?
  rw [htrk, hxxt]

theorem patOK_transfer {m m' : Module} (i : Nat) (hchn : m'.chn ≤ m.chn ∨ m'.chn ≤ 0) (htrk : m'.trk = m.trk)
    (hxxt : m'.xxt = m.xxt) (hpat : ∀ q, m.pattern? i = some q → m'.pattern? i = some q)
    (h : m.patOK i = true) : m'.patOK i = true := by
  unfold Module.patOK at h ⊢
  cases hq : m.pattern? i with
  | none => simp [hq] at h
  | some q =>
    rw [hpat q hq]
    simp only [hq] at h
    simp only
    rw [allBelow_iff] at h ⊢
    intro j hj
    have hj' := h j (by omega)
    cases hidx : q.index[j]? with
    | none => simp [hidx] at hj'
    | some t =>
      simp only [hidx] at hj' ⊢
      rw [trackOK_congr htrk hxxt]; exact hj'

theorem pattern?_prepareXxp (e : Module) (i : Nat) (q : Pattern) (h : e.pattern? i = some q) (m' : Module)
    (hx : m'.xxp = prepareXxp e) : m'.pattern? i = some q := by
  unfold Module.pattern? at h ⊢
  rw [hx]
  unfold prepareXxp
  cases hp : e.xxp with
  | none => simp [hp] at h
  | some ps =>
    simp only [hp] at h
    simp only [Option.map_some, List.getElem?_mapIdx]
    cases hi : ps[i]? with
    | none => simp [hi] at h
    | some o =>
      cases o with
      | none => simp [hi] at h
      | some q' =>
        simp only [hi, Option.join_some] at h
        simp [h]

theorem rstUpper_of {m a : Module} (hlen : m.len = clampC a.len 0 xmpMaxModLength ∨ m.len = 0)
    (hrst : m.rst = if a.rst ≥ clampC a.len 0 xmpMaxModLength then 0 else a.rst) : rstUpperOK m = true := by
  have l1 := @clampC_ge a.len 0 xmpMaxModLength (by omega)
  simp only [rstUpperOK, Bool.or_eq_true, decide_eq_true_eq]
  rcases hlen with h | h
  · split at hrst <;> omega
  · right; exact h

theorem spdOK_of {m a : Module}
    (h : m.spd = if a.spd ≤ 0 ∨ a.spd > (epiSpdMax : Int) then (epiSpdDefault : Int) else a.spd) : spdOK m = true := by
  obtain ⟨_, h1, h2, h3, _⟩ := limits_sane
  simp only [spdOK, Bool.and_eq_true, decide_eq_true_eq]
  split at h <;> omega

theorem bpmOK_of {m a : Module} (h : m.bpm = clampC a.bpm xmpMinBpm epiBpmMax) : bpmOK m = true := by
  have hh := limits_sane.2.2.2.2.1
  have c1 := @clampC_ge a.bpm xmpMinBpm epiBpmMax (by omega)
  have c2 := @clampC_le a.bpm xmpMinBpm epiBpmMax (by omega)
  simp only [bpmOK, Bool.and_eq_true, decide_eq_true_eq]
  omega


/-! ### Envelopes -/

theorem envUpper_of (e' e : Envelope)
    (hon : e'.on = (e.on && !(decide (e.npt ≤ 0) || decide (e.npt > (xmpMaxEnvPoints : Int)))))
    (hloop : e'.floop = (e.floop && !(decide (e.lps ≥ e.npt) || decide (e.lpe ≥ e.npt))))
    (hsus : e'.fsus = (e.fsus && !(decide (e.sus ≥ e.npt) || decide (e.sue ≥ e.npt))))
    (h1 : e'.npt = e.npt) (h2 : e'.lps = e.lps) (h3 : e'.lpe = e.lpe) (h4 : e'.sus = e.sus) (h5 : e'.sue = e.sue) :
    envUpperOK e' = true := by
  simp only [envUpperOK, Bool.and_eq_true, Bool.or_eq_true, Bool.not_eq_true', decide_eq_true_eq]
  rw [h1, h2, h3, h4, h5]
  refine ⟨⟨?_, ?_⟩, ?_⟩
  · by_cases h : e.npt ≤ 0 ∨ e.npt > (xmpMaxEnvPoints : Int)
    · left; rw [hon]; simp only [Bool.and_eq_false_iff, Bool.not_eq_false', Bool.or_eq_true, decide_eq_true_eq]
      right; exact h
    · right; omega
  · by_cases h : e.lps ≥ e.npt ∨ e.lpe ≥ e.npt
    · left; rw [hloop]; simp only [Bool.and_eq_false_iff, Bool.not_eq_false', Bool.or_eq_true, decide_eq_true_eq]
      right; exact h
    · right; omega
  · by_cases h : e.sus ≥ e.npt ∨ e.sue ≥ e.npt
    · left; rw [hsus]; simp only [Bool.and_eq_false_iff, Bool.not_eq_false', Bool.or_eq_true, decide_eq_true_eq]
      right; exact h
    · right; omega

theorem checkEnvelope_upper (e : Envelope) : envUpperOK (checkEnvelope e) = true :=
  envUpper_of (checkEnvelope e) e rfl rfl rfl rfl rfl rfl rfl rfl

theorem clampVol_upper (vb : Int) (e : Envelope) (h : envUpperOK e = true) :
    envUpperOK (clampVolumeEnvelope vb e) = true := h

theorem clampVol_volEnvOK (vb : Int) (hv : 0 ≤ vb) (e : Envelope) :
    volEnvOK vb (clampVolumeEnvelope vb e) = true := by
  unfold volEnvOK clampVolumeEnvelope
  simp only [Bool.or_eq_true, Bool.not_eq_true']
  cases hon : e.on with
  | false => left; rfl
  | true =>
    right
    rw [allBelow_iff]
    intro k hk
    simp only [if_true, List.getElem?_mapIdx]
    cases hd : e.data[2 * k + 1]? with
    | none => rfl
    | some v =>
      have h1 : (2 * k + 1) % 2 = 1 := by omega
      have h2 : (2 * k + 1) / 2 = k := by omega
      simp only [Option.map_some, h1, h2, hk, and_self, if_true, Bool.and_eq_true, decide_eq_true_eq]
      exact ⟨clampC_ge hv, clampC_le hv⟩

/-- lower bounds are never changed by the epilogue -/
theorem checkEnvelope_envOK (e : Envelope) (h0 : 0 ≤ e.lps ∧ 0 ≤ e.lpe ∧ 0 ≤ e.sus ∧ 0 ≤ e.sue) :
    envOK (checkEnvelope e) = true := by
  have hu := checkEnvelope_upper e
  simp only [envUpperOK, envOK, Bool.and_eq_true, Bool.or_eq_true, Bool.not_eq_true', decide_eq_true_eq] at hu ⊢
  have e1 : (checkEnvelope e).lps = e.lps := rfl
  have e2 : (checkEnvelope e).lpe = e.lpe := rfl
  have e3 : (checkEnvelope e).sus = e.sus := rfl
  have e4 : (checkEnvelope e).sue = e.sue := rfl
  obtain ⟨⟨ha, hb⟩, hc⟩ := hu
  rcases ha with ha | ha
  · left; exact ha
  · right
    refine ⟨⟨ha, ?_⟩, ?_⟩
    · rcases hb with hb | hb
      · left; exact hb
      · right; rw [e1, e2] at *; omega
    · rcases hc with hc | hc
      · left; exact hc
      · right; rw [e3, e4] at *; omega

/-! ### Sustain loops -/

theorem xtraOK_core (s : Sample) (sus sue : Int) (h0 : 0 ≤ sus) (hle : sue ≤ s.len) :
    xtraOK (if sus ≥ s.len ∨ sus ≥ sue then
              (({ s with fsloop := false, fsloopBidir := false } : Sample), ({ sus := 0, sue := 0 } : Xtra))
            else (s, { sus := sus, sue := sue })).1
           (if sus ≥ s.len ∨ sus ≥ sue then
              (({ s with fsloop := false, fsloopBidir := false } : Sample), ({ sus := 0, sue := 0 } : Xtra))
            else (s, { sus := sus, sue := sue })).2 = true := by
  split
  · simp [xtraOK]
  · simp only [xtraOK, Bool.or_eq_true, Bool.and_eq_true, decide_eq_true_eq]
    right; omega

theorem epilogueSmp_xtraOK (s : Sample) (x : Xtra) : xtraOK (epilogueSmp s x).1 (epilogueSmp s x).2 = true := by
  unfold epilogueSmp
  exact xtraOK_core s _ _ (by split <;> omega) (by split <;> omega)


/-! ### Clauses over the instrument / sample tables -/

theorem envelopesUpper_of {m a : Module} (hins : m.ins = clampC a.ins 0 epiInsMax) (hvb : m.volbase = a.volbase)
    (hxxi : m.xxi = a.xxi.mapIdx fun i x =>
      if (i : Int) < clampC a.ins 0 epiInsMax then epilogueIns a.volbase a.insvol x else x) :
    envelopesUpperOK m = true := by
  unfold envelopesUpperOK
  rw [allBelow_iff]
  intro i hi
  rw [hxxi, List.getElem?_mapIdx]
  cases a.xxi[i]? with
  | none => rfl
  | some x0 =>
    have hlt : (i : Int) < clampC a.ins 0 epiInsMax := by omega
    simp only [Option.map_some, hlt, if_true]
    have e1 : (epilogueIns a.volbase a.insvol x0).aei = clampVolumeEnvelope a.volbase (checkEnvelope x0.aei) := rfl
    have e2 : (epilogueIns a.volbase a.insvol x0).pei = checkEnvelope x0.pei := rfl
    have e3 : (epilogueIns a.volbase a.insvol x0).fei = checkEnvelope x0.fei := rfl
    rw [e1, e2, e3, hvb]
    simp only [Bool.and_eq_true, Bool.or_eq_true, decide_eq_true_eq]
    refine ⟨⟨⟨clampVol_upper _ _ (checkEnvelope_upper _), checkEnvelope_upper _⟩, checkEnvelope_upper _⟩, ?_⟩
    by_cases hv : a.volbase < 0
    · left; exact hv
    · right; exact clampVol_volEnvOK _ (by omega) _

theorem sustain_of {m a : Module} (hsmp : m.smp = clampC a.smp 0 maxSamples)
    (hxxs : m.xxs = a.xxs.mapIdx (smpStepS (clampC a.smp 0 maxSamples) a.xtra))
    (hxtra : m.xtra = a.xtra.mapIdx (smpStepX (clampC a.smp 0 maxSamples) a.xxs)) :
    sustainOK m = true := by
  unfold sustainOK
  rw [allBelow_iff]
  intro i hi
  rw [hxxs, hxtra, List.getElem?_mapIdx, List.getElem?_mapIdx]
  have hlt : (i : Int) < clampC a.smp 0 maxSamples := by omega
  cases hs : a.xxs[i]? with
  | none => rfl
  | some s0 =>
    cases hx : a.xtra[i]? with
    | none => rfl
    | some x0 =>
      simp only [Option.map_some, smpStepS, smpStepX, hlt, if_true, hs, hx]
      exact epilogueSmp_xtraOK (epilogueLoop s0) x0

theorem orders_of {m e : Module}
    (h : m.len = 0 ∨ (m.len = e.len ∧ (firstValidOrder e : Int) < e.len ∧ m.xxo = e.xxo ∧ m.pat = e.pat)) :
    ordersOK m = true := by
  simp only [ordersOK, Bool.or_eq_true, decide_eq_true_eq]
  rcases h with h | ⟨hl, hf, hx, hp⟩
  · left; exact h
  · right
    unfold firstValidOrder at hf
    cases hfind : (List.range e.len.toNat).find? fun o => decide ((e.xxo.getD o 0 : Int) < e.pat) with
    | none => rw [hfind] at hf; simp only [Option.getD_none] at hf; omega
    | some o =>
      have h1 := List.mem_of_find?_eq_some hfind
      have h2 := List.find?_some hfind
      rw [List.any_eq_true]
      rw [hl, hx, hp]
      exact ⟨o, h1, h2⟩

theorem channels_of {m raw : Module} (hchn : m.chn = clampC raw.chn 0 xmpMaxChannels) (hxxc : m.xxc = raw.xxc)
    (hg : ∀ i : Nat, (i : Int) < raw.chn → ∃ c, raw.xxc[i]? = some c ∧ chanOK c = true) : channelsOK m = true := by
  unfold channelsOK
  rw [allBelow_iff]
  intro i hi
  have : (i : Int) < raw.chn := by
    rw [hchn] at hi
    unfold clampC at hi
    split at hi
    · omega
    · split at hi <;> omega
  obtain ⟨c, hc, hok⟩ := hg i this
  rw [hxxc, hc]; exact hok

theorem clampC_lt_imp {x b : Int} {i : Nat} (h : (i : Int) < clampC x 0 b) : (i : Int) < x := by
  unfold clampC at h
  split at h
  · omega
  · split at h <;> omega

theorem clampC_le_or {x b : Int} (hb : 0 ≤ b) : clampC x 0 b ≤ x ∨ clampC x 0 b ≤ 0 := by
  unfold clampC
  split
  · right; omega
  · split <;> omega

theorem patterns_of {m raw : Module} (hpat : m.pat = clampC raw.pat 0 epiPatMax)
    (hchn : m.chn = clampC raw.chn 0 xmpMaxChannels) (htrk : m.trk = raw.trk) (hxxt : m.xxt = raw.xxt)
    (hp : ∀ i q, raw.pattern? i = some q → m.pattern? i = some q)
    (hg : ∀ i : Nat, (i : Int) < raw.pat → raw.patOK i = true) : patternsOK m = true := by
  unfold patternsOK
  rw [allBelow_iff]
  intro i hi
  rw [hpat] at hi
  apply patOK_transfer i ?_ htrk hxxt (hp i) (hg i (clampC_lt_imp hi))
  rw [hchn]; exact clampC_le_or (by omega)

/-! ### Sequences -/

theorem sequences_of {m : Module} {st : SeqState} {len : Nat} (hl : m.len.toNat = len) (hlen : len ≤ xmpMaxModLength)
    (hn : m.numSeq = st.seq) (hd : m.seqData = st.eps.zip st.times) (hc : m.seqCtl = st.ctl)
    (h1 : 1 ≤ st.seq) (h2 : st.seq ≤ maxSequences) (h3 : st.eps.length = st.seq) (h4 : st.times.length = st.seq)
    (h5 : 0 < len → ∀ e ∈ st.eps, e < len) (h6 : ∀ t ∈ st.times, 0 ≤ t) (h7 : st.eps.Nodup)
    (h8 : st.ctl.length = xmpMaxModLength)
    (h9 : ∀ o, o < len → st.ctl.getD o 0xff = 0xff ∨ st.ctl.getD o 0xff < st.seq) :
    sequencesOK m = true ∧ seqCtlOK m = true := by
  constructor
  · simp only [sequencesOK, Bool.or_eq_true, Bool.and_eq_true, decide_eq_true_eq]
    by_cases hz : m.len ≤ 0
    · left; exact hz
    · right
      have hpos : 0 < len := by omega
      rw [hn, hd]
      refine ⟨⟨⟨⟨h1, h2⟩, ?_⟩, ?_⟩, ?_⟩
      · rw [List.length_zip, h3, h4]; exact Nat.min_self _
      · rw [List.all_eq_true]
        intro p hp
        have hm := List.of_mem_zip hp
        simp only [Bool.and_eq_true, decide_eq_true_eq]
        have := h5 hpos p.1 hm.1
        have := h6 p.2 hm.2
        omega
      · have : (List.map (fun p : Nat × Int => p.1) (st.eps.zip st.times)) = st.eps := by
          have := List.map_fst_zip (l₁ := st.eps) (l₂ := st.times) (by omega)
          simpa using this
        rw [this]; exact h7
  · unfold seqCtlOK
    rw [allBelow_iff]
    intro o ho
    have ho' : o < len := by omega
    rw [hc]
    have hol : o < st.ctl.length := by omega
    rw [List.getElem?_eq_getElem hol]
    have := h9 o ho'
    simp only [List.getD_eq_getElem?_getD, List.getElem?_eq_getElem hol, Option.getD_some] at this
    simp only [Bool.or_eq_true, beq_iff_eq, decide_eq_true_eq]
    rw [hn]; exact this


/-! ### libxmp_adjust_string -/

theorem rtrim_length_le (s : List UInt8) : (rtrim s).length ≤ s.length := by
  unfold rtrim
  rw [List.length_reverse]
  have := (List.dropWhile_sublist (l := s.reverse) (fun b : UInt8 => decide (b = 0x20))).length_le
  rw [List.length_reverse] at this
  exact this

theorem cstr_length_le (s : List UInt8) : (cstr s).length ≤ s.length := by
  unfold cstr; exact (List.takeWhile_sublist _).length_le

/-- the array keeps its size -/
theorem adjustString_length (s : List UInt8) : (adjustString s).length = s.length := by
  unfold adjustString
  simp only [List.length_append, List.length_replicate, List.length_drop, List.length_map]
  have h1 := rtrim_length_le ((cstr s).map fun b => if isPrintAscii b then b else 0x20)
  rw [List.length_map] at h1
  have h2 := cstr_length_le s
  omega

theorem drop_takeWhile_length {α} (p : α → Bool) (s : List α) : s.drop (s.takeWhile p).length = s.dropWhile p := by
  induction s with
  | nil => rfl
  | cons a rest ih =>
    simp only [List.takeWhile_cons, List.dropWhile_cons]
    split
    · simpa using ih
    · simp

theorem dropWhile_head_nul (s : List UInt8) (h : hasNul s = true) :
    ∃ rest, s.dropWhile (fun b => decide (b ≠ 0)) = 0 :: rest := by
  induction s with
  | nil => simp [hasNul] at h
  | cons a rest ih =>
    simp only [List.dropWhile_cons]
    by_cases ha : a = 0
    · subst ha; exact ⟨rest, by simp⟩
    · have : hasNul rest = true := by
        simp only [hasNul, List.any_cons, Bool.or_eq_true, beq_iff_eq] at h ⊢
        rcases h with h | h
        · exact absurd h ha
        · exact h
      obtain ⟨r, hr⟩ := ih this
      refine ⟨r, ?_⟩
      have : decide (a ≠ 0) = true := by simpa using ha
      rw [if_pos this]; exact hr

/-- a terminated name stays terminated -/
theorem adjustString_hasNul (s : List UInt8) (h : hasNul s = true) : hasNul (adjustString s) = true := by
  unfold adjustString
  simp only [List.length_map]
  unfold cstr
  rw [drop_takeWhile_length]
  obtain ⟨r, hr⟩ := dropWhile_head_nul s h
  rw [hr]
  simp [hasNul]

theorem name_core (s : Sample) (sus sue : Int) :
    (if sus ≥ s.len ∨ sus ≥ sue then
       (({ s with fsloop := false, fsloopBidir := false } : Sample), ({ sus := 0, sue := 0 } : Xtra))
     else (s, { sus := sus, sue := sue })).1.name = s.name := by
  split <;> rfl

theorem epilogueSmp_name (s : Sample) (x : Xtra) : (epilogueSmp s x).1.name = s.name := by
  unfold epilogueSmp
  exact name_core s _ _

theorem epilogueLoop_name (s : Sample) : (epilogueLoop s).name = s.name := by
  unfold epilogueLoop; split <;> rfl

theorem smpStepS_name (smp : Int) (xtra : List Xtra) (i : Nat) (s : Sample) :
    (smpStepS smp xtra i s).name = s.name := by
  unfold smpStepS
  split
  · cases xtra[i]? with
    | none => exact epilogueLoop_name s
    | some x => rw [epilogueSmp_name, epilogueLoop_name]
  · rfl

/-! ### The epilogue's sample-loop block -/

theorem sampleLoopOK_of (s' : Sample) (hd : Bool) (fl : Bool) (lps lpe len : Int)
    (h1 : s'.hasData = hd) (h2 : s'.floop = fl) (h3 : s'.lps = lps) (h4 : s'.lpe = lpe) (h5 : s'.len = len)
    (h : (hd && fl) = true → 0 ≤ lps ∧ lps < lpe ∧ lpe ≤ len) : sampleLoopOK s' = true := by
  simp only [sampleLoopOK, Bool.or_eq_true, Bool.not_eq_true', Bool.and_eq_true, decide_eq_true_eq]
  rw [h1, h2, h3, h4, h5]
  by_cases hh : (hd && fl) = true
  · right; have := h hh; omega
  · left; simpa using hh

theorem epilogueLoop_ok (s : Sample) : sampleLoopOK (epilogueLoop s) = true := by
  unfold epilogueLoop
  split
  · exact sampleLoopOK_of _ s.hasData false 0 0 s.len rfl rfl rfl rfl rfl (by simp)
  · rename_i hc
    apply sampleLoopOK_of s s.hasData s.floop s.lps s.lpe s.len rfl rfl rfl rfl rfl
    intro hh
    simp only [Bool.and_eq_true, Bool.or_eq_true, decide_eq_true_eq, not_and, not_or] at hc hh
    obtain ⟨⟨⟨a1, a2⟩, a3⟩, a4⟩ := hc hh.1
    have a5 := a4 hh.2
    omega

theorem epilogueLoop_range (s : Sample) : sampleRangeOK (epilogueLoop s) = true := by
  unfold epilogueLoop
  split
  · simp only [sampleRangeOK, Bool.or_eq_true, Bool.not_eq_true', Bool.and_eq_true, decide_eq_true_eq]
    by_cases hl : s.len < 0
    · left; right; exact hl
    · right; exact ⟨⟨⟨by omega, by omega⟩, by omega⟩, by left; trivial⟩
  · rename_i hc
    simp only [Bool.and_eq_true, Bool.or_eq_true, decide_eq_true_eq, not_and, not_or] at hc
    simp only [sampleRangeOK, Bool.or_eq_true, Bool.not_eq_true', Bool.and_eq_true, decide_eq_true_eq]
    cases hd : s.hasData with
    | false => left; left; rfl
    | true =>
      obtain ⟨⟨⟨a1, a2⟩, a3⟩, a4⟩ := hc hd
      right
      refine ⟨⟨⟨by omega, by omega⟩, by omega⟩, ?_⟩
      cases hf : s.floop with
      | false => left; rfl
      | true =>
        right
        have a5 := a4 hf
        omega

theorem loop_core (s : Sample) (sus sue : Int) :
    sampleLoopOK (if sus ≥ s.len ∨ sus ≥ sue then
       (({ s with fsloop := false, fsloopBidir := false } : Sample), ({ sus := 0, sue := 0 } : Xtra))
     else (s, { sus := sus, sue := sue })).1 = sampleLoopOK s := by
  split <;> rfl

theorem epilogueSmp_loopOK (s : Sample) (x : Xtra) : sampleLoopOK (epilogueSmp s x).1 = sampleLoopOK s := by
  unfold epilogueSmp
  exact loop_core s _ _

theorem sampleLoops_of {m a : Module} (hsmp : m.smp = clampC a.smp 0 maxSamples)
    (hxxs : m.xxs = a.xxs.mapIdx (smpStepS (clampC a.smp 0 maxSamples) a.xtra)) : sampleLoopsOK m = true := by
  unfold sampleLoopsOK
  rw [allBelow_iff]
  intro i hi
  rw [hxxs, List.getElem?_mapIdx]
  have hlt : (i : Int) < clampC a.smp 0 maxSamples := by omega
  cases a.xxs[i]? with
  | none => rfl
  | some s0 =>
    simp only [Option.map_some, smpStepS, hlt, if_true]
    cases a.xtra[i]? with
    | none => exact epilogueLoop_ok s0
    | some x0 => simp only; rw [epilogueSmp_loopOK]; exact epilogueLoop_ok s0

theorem range_core (s : Sample) (sus sue : Int) :
    sampleRangeOK (if sus ≥ s.len ∨ sus ≥ sue then
       (({ s with fsloop := false, fsloopBidir := false } : Sample), ({ sus := 0, sue := 0 } : Xtra))
     else (s, { sus := sus, sue := sue })).1 = sampleRangeOK s := by
  split <;> rfl

theorem epilogueSmp_rangeOK (s : Sample) (x : Xtra) : sampleRangeOK (epilogueSmp s x).1 = sampleRangeOK s := by
  unfold epilogueSmp
  exact range_core s _ _

theorem sampleRanges_of {m a : Module} (hsmp : m.smp = clampC a.smp 0 maxSamples)
    (hxxs : m.xxs = a.xxs.mapIdx (smpStepS (clampC a.smp 0 maxSamples) a.xtra)) : sampleRangesOK m = true := by
  unfold sampleRangesOK
  rw [allBelow_iff]
  intro i hi
  rw [hxxs, List.getElem?_mapIdx]
  have hlt : (i : Int) < clampC a.smp 0 maxSamples := by omega
  cases a.xxs[i]? with
  | none => rfl
  | some s0 =>
    simp only [Option.map_some, smpStepS, hlt, if_true]
    cases a.xtra[i]? with
    | none => exact epilogueLoop_range s0
    | some x0 => simp only; rw [epilogueSmp_rangeOK]; exact epilogueLoop_range s0

end Xmp.LoadPost
