import XmpModel.LoadPost
import XmpModel.Gen.AllocSites
/-! Helper lemmas for C03 (model `Xmp.LoadPost`). -/
namespace Xmp.LoadPost
open Xmp.Gen.Limits

/-! ## Generated facts -/

/-- relations between the generated limits that the proofs rely on -/
theorem limits_sane :
    maxSequences ≤ 0xff ∧ 1 ≤ epiSpdDefault ∧ epiSpdDefault ≤ epiSpdMax ∧ epiSpdMax ≤ 255
    ∧ xmpMinBpm ≤ epiBpmMax ∧ 1 ≤ xmpMaxEnvPoints ∧ 1 ≤ xmpMaxModLength ∧ xmpMaxModLength ≤ 256 := by decide

open Xmp.Gen.AllocSites in
/-- (file, kind) classes that allocate a track / sub-instrument object without the
helpers of loaders/common.c.  Patterns are only ever allocated by the helper. -/
def allowedBypass : List (String × Kind) :=
  [ ("loaders/it_load.c", .subinstrument), ("loaders/s3m_load.c", .subinstrument), ("smix.c", .subinstrument),
    ("loaders/mdl_load.c", .track), ("loaders/mgt_load.c", .track) ]

open Xmp.Gen.AllocSites in
/-- Every direct allocation site found in the compiled sources belongs to a known
class, and the three helpers still allocate in loaders/common.c. -/
theorem allocSites_known :
    (∀ s ∈ directSites, (s.file, s.kind) ∈ allowedBypass)
    ∧ (∀ k : Kind, ∃ s ∈ helperSites, s.kind = k ∧ s.file = "loaders/common.c") := by
  constructor
  · decide
  · intro k; cases k <;> decide

/-! ## Basics -/

theorem clampC_ge {x a b : Int} (h : a ≤ b) : a ≤ clampC x a b := by
  unfold clampC; split
  · omega
  · split <;> omega

theorem clampC_le {x a b : Int} (h : a ≤ b) : clampC x a b ≤ b := by
  unfold clampC; split
  · omega
  · split <;> omega

theorem clampC_le_self {x a b : Int} (h : a ≤ x) : clampC x a b ≤ x := by
  unfold clampC; split
  · omega
  · split <;> omega

theorem allBelow_iff {n : Int} {p : Nat → Bool} :
    allBelow n p = true ↔ ∀ i : Nat, (i : Int) < n → p i = true := by
  unfold allBelow
  rw [List.all_eq_true]
  constructor
  · intro h i hi
    apply h; rw [List.mem_range]; omega
  · intro h i hi
    rw [List.mem_range] at hi
    apply h; omega

theorem allBelow_mono {n n' : Int} {p : Nat → Bool} (h : allBelow n p = true) (hn : n' ≤ n) :
    allBelow n' p = true := by
  rw [allBelow_iff] at *
  intro i hi; apply h; omega

end Xmp.LoadPost

namespace Xmp.LoadPost
open Xmp.Gen.Limits

/-! ## libxmp_scan_sequences -/

theorem getD_set (l : List Nat) (i j v d : Nat) :
    (l.set i v).getD j d = if i = j ∧ i < l.length then v else l.getD j d := by
  simp only [List.getD_eq_getElem?_getD, List.getElem?_set]
  by_cases h : i = j
  · subst h
    by_cases h2 : i < l.length
    · simp [h2]
    · simp [h2]
  · simp [h]

theorem markOne_length (len ep chain : Nat) (ctl : List Nat) (ord : Nat) :
    (markOne len ep chain ctl ord).length = ctl.length := by
  unfold markOne
  split
  · split
    · rfl
    · simp
  · rfl

theorem markOne_nonfree {len ep chain : Nat} (hc : chain ≠ 0xff) (ctl : List Nat) (ord o : Nat)
    (h : ctl.getD o 0xff ≠ 0xff) : (markOne len ep chain ctl ord).getD o 0xff ≠ 0xff := by
  unfold markOne
  split
  · split
    · exact h
    · rw [getD_set]; split
      · exact hc
      · exact h
  · exact h

theorem foldl_markOne_length (len ep chain : Nat) (marks : List Nat) :
    ∀ ctl : List Nat, (marks.foldl (markOne len ep chain) ctl).length = ctl.length := by
  induction marks with
  | nil => intro ctl; rfl
  | cons a rest ih => intro ctl; simp only [List.foldl_cons]; rw [ih, markOne_length]

theorem foldl_markOne_nonfree {len ep chain : Nat} (hc : chain ≠ 0xff) (marks : List Nat) (o : Nat) :
    ∀ ctl : List Nat, ctl.getD o 0xff ≠ 0xff → (marks.foldl (markOne len ep chain) ctl).getD o 0xff ≠ 0xff := by
  induction marks with
  | nil => intro ctl h; exact h
  | cons a rest ih => intro ctl h; simp only [List.foldl_cons]; exact ih _ (markOne_nonfree hc ctl a o h)

theorem applyScan_length (len ep chain : Nat) (ctl : List Nat) (r : ScanRes) :
    (applyScan len ep chain ctl r).length = ctl.length := foldl_markOne_length _ _ _ _ _

theorem applyScan_nonfree {len ep chain : Nat} (hc : chain ≠ 0xff) (ctl : List Nat) (r : ScanRes) (o : Nat)
    (h : ctl.getD o 0xff ≠ 0xff) : (applyScan len ep chain ctl r).getD o 0xff ≠ 0xff :=
  foldl_markOne_nonfree hc _ _ _ h

/-- the entry point of a scan is marked by it (it is free, or the scan is the first one) -/
theorem applyScan_marks_ep {len ep chain : Nat} (hc : chain ≠ 0xff) (ctl : List Nat) (r : ScanRes)
    (hep : ep < len) (hlen : ep < ctl.length) (hfree : ep = 0 ∨ ctl.getD ep 0xff = 0xff) :
    (applyScan len ep chain ctl r).getD ep 0xff ≠ 0xff := by
  unfold applyScan
  simp only [List.foldl_cons]
  apply foldl_markOne_nonfree hc
  unfold markOne
  simp only [hep, if_true]
  have : ¬ (ep ≠ 0 ∧ ctl.getD ep 0xff ≠ 0xff) := by
    rcases hfree with h | h
    · simp [h]
    · intro hh; exact hh.2 h
  simp only [this, if_false]
  rw [getD_set]
  simp [hlen, hc]

theorem firstFree_some {len : Nat} {ctl : List Nat} {ep : Nat} (h : firstFree len ctl = some ep) :
    ep < len ∧ ctl.getD ep 0xff = 0xff := by
  unfold firstFree at h
  have h1 := List.mem_of_find?_eq_some h
  have h2 := List.find?_some h
  rw [List.mem_range] at h1
  exact ⟨h1, by simpa using h2⟩

theorem firstFree_none {len : Nat} {ctl : List Nat} (h : firstFree len ctl = none) :
    ∀ o, o < len → ctl.getD o 0xff ≠ 0xff := by
  unfold firstFree at h
  rw [List.find?_eq_none] at h
  intro o ho
  have := h o (List.mem_range.mpr ho)
  simpa using this

/-- Invariant of the `while (1)` loop of `libxmp_scan_sequences`. -/
structure SeqInv (len : Nat) (st : SeqState) : Prop where
  ctlLen : st.ctl.length = xmpMaxModLength
  seqPos : 1 ≤ st.seq
  seqMax : st.seq ≤ maxSequences
  epsLen : st.eps.length = st.seq
  timesLen : st.times.length = st.seq
  epsIn : ∀ e ∈ st.eps, 0 < len → e < len
  epsMarked : ∀ e ∈ st.eps, e < len → st.ctl.getD e 0xff ≠ 0xff
  timesNN : ∀ t ∈ st.times, 0 ≤ t
  nodup : st.eps.Nodup

theorem seqLoop_inv (scan : Nat → ScanRes) (len : Nat) (hlen : len ≤ xmpMaxModLength) :
    ∀ (fuel : Nat) (st : SeqState), SeqInv len st → SeqInv len (seqLoop scan len fuel st) := by
  intro fuel
  induction fuel with
  | zero => intro st h; exact h
  | succ fuel ih =>
    intro st inv
    unfold seqLoop
    split
    · exact inv
    · rename_i ep hff
      obtain ⟨hep, hfree⟩ := firstFree_some hff
      split
      · rename_i hseq
        have hc : st.seq ≠ 0xff := by
          have := limits_sane.1; omega
        have hepl : ep < st.ctl.length := by rw [inv.ctlLen]; omega
        simp only
        split
        · rename_i htime
          apply ih
          constructor <;> simp only
          · rw [applyScan_length]; exact inv.ctlLen
          · omega
          · omega
          · rw [List.length_append, inv.epsLen]; rfl
          · rw [List.length_append, inv.timesLen]; rfl
          · intro e he hl
            rcases List.mem_append.mp he with h | h
            · exact inv.epsIn e h hl
            · simp at h; omega
          · intro e he hl
            rcases List.mem_append.mp he with h | h
            · exact applyScan_nonfree hc _ _ _ (inv.epsMarked e h hl)
            · simp at h; subst h
              exact applyScan_marks_ep hc _ _ hep hepl (Or.inr hfree)
          · intro t ht
            rcases List.mem_append.mp ht with h | h
            · exact inv.timesNN t h
            · simp at h; omega
          · rw [List.nodup_append]
            refine ⟨inv.nodup, by simp, ?_⟩
            intro a ha b hb
            simp at hb; subst hb
            intro hab; subst hab
            exact inv.epsMarked a ha hep hfree
        · apply ih
          constructor <;> simp only
          · rw [applyScan_length]; exact inv.ctlLen
          · exact inv.seqPos
          · exact inv.seqMax
          · exact inv.epsLen
          · exact inv.timesLen
          · exact inv.epsIn
          · intro e he hl
            exact applyScan_nonfree hc _ _ _ (inv.epsMarked e he hl)
          · exact inv.timesNN
          · exact inv.nodup
      · exact inv


theorem cleanup_length (len seq : Nat) (ctl : List Nat) : (cleanup len seq ctl).length = ctl.length := by
  simp [cleanup]

theorem cleanup_getD (len seq : Nat) (ctl : List Nat) (o : Nat) (ho : o < len) :
    (cleanup len seq ctl).getD o 0xff = 0xff ∨ (cleanup len seq ctl).getD o 0xff < seq := by
  simp only [cleanup, List.getD_eq_getElem?_getD, List.getElem?_mapIdx]
  cases h : ctl[o]? with
  | none => simp
  | some c =>
    simp only [Option.map_some, Option.getD_some, ho, true_and]
    split
    · left; rfl
    · right; omega

theorem ctlInit_length : ctlInit.length = xmpMaxModLength := by simp [ctlInit]

/-- the first scan's state satisfies the loop invariant -/
theorem init_inv (len : Nat) (hlen : len ≤ xmpMaxModLength) (r0 : ScanRes) (ht : ¬ r0.time < 0) (calls : Nat)
    (trace : List (Nat × Nat)) :
    SeqInv len { ctl := applyScan len 0 0 ctlInit r0, seq := 1, eps := [0], times := [r0.time],
                 calls := calls, trace := trace } := by
  constructor <;> simp only
  · rw [applyScan_length, ctlInit_length]
  · exact Nat.le_refl 1
  · decide
  · rfl
  · rfl
  · intro e he hl; simp at he; omega
  · intro e he hl
    simp at he; subst he
    exact applyScan_marks_ep (by decide) _ _ hl (by rw [ctlInit_length]; omega) (Or.inl rfl)
  · intro t h; simp at h; omega
  · simp

/-- **Bookkeeping of `libxmp_scan_sequences`**, for every behaviour of `scan_module`. -/
theorem scanCore_spec (scan : Nat → ScanRes) (len : Nat) (hlen : len ≤ xmpMaxModLength) (st : SeqState)
    (h : scanSequencesCore scan len = .ok st) :
    1 ≤ st.seq ∧ st.seq ≤ maxSequences ∧ st.eps.length = st.seq ∧ st.times.length = st.seq
    ∧ (0 < len → ∀ e ∈ st.eps, e < len) ∧ (∀ t ∈ st.times, 0 ≤ t) ∧ st.eps.Nodup
    ∧ st.ctl.length = xmpMaxModLength
    ∧ ∀ o, o < len → st.ctl.getD o 0xff = 0xff ∨ st.ctl.getD o 0xff < st.seq := by
  unfold scanSequencesCore at h
  simp only at h
  split at h
  · cases h
  · rename_i ht
    have inv := seqLoop_inv scan len hlen (len + 1) _ (init_inv len hlen (scan 0) ht 1 [(0, 0)])
    injection h with h
    subst h
    simp only
    refine ⟨inv.seqPos, inv.seqMax, inv.epsLen, inv.timesLen, fun hl e he => inv.epsIn e he hl, inv.timesNN,
            inv.nodup, ?_, ?_⟩
    · rw [cleanup_length]; exact inv.ctlLen
    · intro o ho; exact cleanup_getD _ _ _ o ho

/-! ### Fuel: `len + 1` iterations suffice -/

/-- number of orders `< len` that belong to no scan yet -/
def freeCount (len : Nat) (ctl : List Nat) : Nat :=
  ((List.range len).filter fun o => ctl.getD o 0xff == 0xff).length

theorem filter_length_le {α} (l : List α) (p p' : α → Bool) (h : ∀ a, p' a = true → p a = true) :
    (l.filter p').length ≤ (l.filter p).length := by
  induction l with
  | nil => simp
  | cons x rest ih =>
    simp only [List.filter_cons]
    cases hp' : p' x
    · cases hp : p x <;> simp <;> omega
    · simp [h x hp']; omega

theorem filter_length_lt {α} (l : List α) (p p' : α → Bool) (h : ∀ a, p' a = true → p a = true)
    (x : α) (hx : x ∈ l) (h1 : p x = true) (h2 : p' x = false) :
    (l.filter p').length < (l.filter p).length := by
  induction l with
  | nil => simp at hx
  | cons y rest ih =>
    simp only [List.filter_cons]
    rcases List.mem_cons.mp hx with rfl | hm
    · have := filter_length_le rest p p' h
      simp [h1, h2]; omega
    · have := ih hm
      cases hp' : p' y
      · cases hp : p y <;> simp <;> omega
      · simp [h y hp']; omega

theorem freeCount_lt (len : Nat) (ctl ctl' : List Nat) (ep : Nat) (hep : ep < len)
    (h : ∀ o, ctl.getD o 0xff ≠ 0xff → ctl'.getD o 0xff ≠ 0xff)
    (h1 : ctl.getD ep 0xff = 0xff) (h2 : ctl'.getD ep 0xff ≠ 0xff) : freeCount len ctl' < freeCount len ctl := by
  unfold freeCount
  apply filter_length_lt _ _ _ _ ep (List.mem_range.mpr hep)
  · simpa using h1
  · simpa using h2
  · intro o ho
    simp only [beq_iff_eq] at *
    apply Classical.byContradiction
    intro hne
    exact h o hne ho

/-- The loop never stops because the fuel ran out: on exit either no order is
free or `MAX_SEQUENCES` is reached (the two `break` conditions of the C). -/
theorem seqLoop_exit (scan : Nat → ScanRes) (len : Nat) (hlen : len ≤ xmpMaxModLength) :
    ∀ (fuel : Nat) (st : SeqState), SeqInv len st → freeCount len st.ctl < fuel →
      firstFree len (seqLoop scan len fuel st).ctl = none ∨ ¬ (seqLoop scan len fuel st).seq < maxSequences := by
  intro fuel
  induction fuel with
  | zero => intro st _ h; omega
  | succ fuel ih =>
    intro st inv hf
    unfold seqLoop
    split
    · rename_i hnone; left; exact hnone
    · rename_i ep hff
      obtain ⟨hep, hfree⟩ := firstFree_some hff
      split
      · rename_i hseq
        have hc : st.seq ≠ 0xff := by
          have := limits_sane.1; omega
        have hepl : ep < st.ctl.length := by rw [inv.ctlLen]; omega
        have hlt := freeCount_lt len st.ctl (applyScan len ep st.seq st.ctl (scan st.calls)) ep hep
          (fun o ho => applyScan_nonfree hc _ _ o ho) hfree
          (applyScan_marks_ep hc _ _ hep hepl (Or.inr hfree))
        have hinv := seqLoop_inv scan len hlen 1 st inv
        unfold seqLoop at hinv
        simp only [hff, hseq, if_true] at hinv
        simp only
        split
        · rename_i htime
          simp only [htime, if_true] at hinv
          unfold seqLoop at hinv
          exact ih _ hinv (by simp only; omega)
        · rename_i htime
          simp only [htime, if_false] at hinv
          unfold seqLoop at hinv
          exact ih _ hinv (by simp only; omega)
      · rename_i hseq; right; exact hseq

theorem freeCount_le (len : Nat) (ctl : List Nat) : freeCount len ctl ≤ len := by
  unfold freeCount
  have := List.length_filter_le (fun o => ctl.getD o 0xff == 0xff) (List.range len)
  simpa using this


/-! ## Stage decomposition of `finish` -/

theorem prepareScan_ok {e p : Module} (h : prepareScan e = .ok p) :
    e.xxp.isSome = true ∧ e.xxt.isSome = true ∧
    (p = { e with len := 0 } ∨ ((firstValidOrder e : Int) < e.len ∧ negRows e = false ∧ p = { e with xxp := prepareXxp e })) := by
  unfold prepareScan at h
  split at h
  · cases h
  · rename_i h0
    have hx : e.xxp.isSome = true ∧ e.xxt.isSome = true := by
      cases hp : e.xxp <;> cases ht : e.xxt <;> simp [hp, ht] at h0 ⊢
    refine ⟨hx.1, hx.2, ?_⟩
    split at h
    · left; injection h with h; exact h.symm
    · rename_i h1
      split at h
      · cases h
      · rename_i h2
        right; injection h with h
        exact ⟨by omega, by simpa using h2, h.symm⟩

theorem scanSequences_ok {scan : Nat → ScanRes} {p m : Module} (h : scanSequences scan p = .ok m) :
    ∃ st, scanSequencesCore scan p.len.toNat = .ok st ∧
      m = { p with numSeq := st.seq, seqData := st.eps.zip st.times, seqCtl := st.ctl } := by
  unfold scanSequences at h
  split at h
  · cases h
  · rename_i st hst
    injection h with h
    exact ⟨st, hst, h.symm⟩

theorem finish_ok {scan : Nat → ScanRes} {raw m : Module} (h : finish scan raw = .ok m) :
    gate raw = true ∧ ∃ p, prepareScan (epilogue (adjustNames raw)) = .ok p ∧ scanSequences scan p = .ok m := by
  unfold finish at h
  split at h
  · rename_i hg
    refine ⟨hg, ?_⟩
    split at h
    · cases h
    · rename_i p hp; exact ⟨p, hp, h⟩
  · cases h

/-- what the gate establishes -/
theorem gate_spec {m : Module} (h : gate m = true) :
    m.chn ≤ (xmpMaxChannels : Int) ∧ m.len ≤ (xmpMaxModLength : Int)
    ∧ (∀ i : Nat, (i : Int) < m.chn → ∃ c, m.xxc[i]? = some c ∧ chanOK c = true)
    ∧ m.xxp.isSome = true ∧ (∀ i : Nat, (i : Int) < m.pat → m.patOK i = true) := by
  unfold gate at h
  simp only [Bool.and_eq_true, Bool.not_eq_true', Bool.or_eq_false_iff, decide_eq_false_iff_not] at h
  obtain ⟨⟨⟨⟨h1, h2⟩, h3⟩, h4⟩, h5⟩ := h
  refine ⟨by omega, by omega, ?_, h4, allBelow_iff.mp h5⟩
  intro i hi
  have := allBelow_iff.mp h3 i hi
  cases hc : m.xxc[i]? with
  | none => simp [hc] at this
  | some c => exact ⟨c, rfl, by simpa [hc] using this⟩

end Xmp.LoadPost
