import XmpProofs.LoadPostHdr
/-!
# Header-count obligations of the four core loaders, for C02_core_loader_work

Copies of the proofs of `C03_hdr_mod / _s3m / _xm / _it / _rows` (XmpProps/C03.lean, section Headers) over the same
model `XmpModel.LoadPostHdr`, kept here so that C02's build depends only on the header model and not on the whole
C03 stack (player guards, loader sweep: regenerated from /repo and re-proved by their owner).  Same statements.
-/
namespace Xmp.Work.Core
open Xmp Xmp.LoadPost Xmp.LoadPost.Hdr Xmp.Gen.Limits Xmp.Gen.C03Hdr

/-- the clauses of `CountOblig` with the limits spelled out -/
theorem countOblig_of (c : Counts) (h1 : 0 ≤ c.chn) (h2 : c.chn ≤ 64) (h3 : 0 ≤ c.len) (h4 : c.len ≤ 256)
    (h5 : 0 ≤ c.pat) (h6 : c.pat ≤ 257) (h7 : 0 ≤ c.ins) (h8 : c.ins ≤ 255) (h9 : 0 ≤ c.smp) (h10 : c.smp ≤ 1024)
    (h11 : 0 ≤ c.trk) (h12 : 0 ≤ c.rst) : CountOblig c = true := by
  have e1 : (xmpMaxChannels : Int) = 64 := rfl
  have e2 : (xmpMaxModLength : Int) = 256 := rfl
  have e3 : (epiPatMax : Int) = 257 := rfl
  have e4 : (epiInsMax : Int) = 255 := rfl
  have e5 : (maxSamples : Int) = 1024 := rfl
  simp only [CountOblig, Bool.and_eq_true, decide_eq_true_eq, e1, e2, e3, e4, e5]
  exact ⟨⟨⟨⟨⟨⟨⟨⟨⟨⟨⟨h1, h2⟩, h3⟩, h4⟩, h5⟩, h6⟩, h7⟩, h8⟩, h9⟩, h10⟩, h11⟩, h12⟩

theorem rstInside_of (c : Counts) (h : c.rst < c.len ∨ c.rst = 0) : RstInside c = true := by
  simp only [RstInside, Bool.or_eq_true, decide_eq_true_eq]; exact h

/-- **core_hdr_mod**: every MOD header `mod_test` + `mod_load` accept (any magic, order table, length and
restart bytes) gives 1..63 channels, 1..128 patterns, 31 instruments/samples, a restart position
below 127 — inside the order list unless `get_tracker_id` ran (the epilogue's restart repair is needed
for exactly that path) — and `trk = chn * pat`. -/
theorem core_hdr_mod (magic : List Nat) (wow probe : Bool) (len restart : Nat) (orders : List Nat) (c : Counts)
    (hlen : len ≤ 255) (h : modHeader magic wow probe len restart orders = some c) :
    CountOblig c = true ∧ 1 ≤ c.pat ∧ c.pat ≤ 128 ∧ c.chn < 64 ∧ c.trk = c.chn * c.pat ∧ c.rst < 127
    ∧ ((probe && !modDetected magic && !wow) = false → RstInside c = true) := by
  unfold modHeader at h
  split at h
  · cases h
  · rename_i chn _
    split at h
    · cases h
    · rename_i hc
      simp only at h
      generalize hpr : (probe && !modDetected magic && !wow) = pr at h
      injection h with h
      obtain ⟨p1, p2⟩ := modPat_le orders
      have e3 : modOrderStop = 127 := rfl
      have e4 : modChnReject = 64 := rfl
      have e5 : modIns = 31 := rfl
      have e6 : modRestartMax = 127 := rfl
      have hr0 : modRst pr (modPat orders) len restart < 127 := by
        unfold modRst; split
        · omega
        · split <;> omega
      have hr : pr = false → (modRst pr (modPat orders) len restart < len ∨ modRst pr (modPat orders) len restart = 0) := by
        intro hp; subst hp
        unfold modRst
        simp only [Bool.false_eq_true, false_and, if_false]
        split <;> omega
      have f1 : c.chn = (chn : Int) := by rw [← h]
      have f2 : c.pat = (modPat orders : Int) := by rw [← h]
      have f3 : c.trk = (chn : Int) * (modPat orders : Int) := by rw [← h]
      have f4 : c.ins = (modIns : Int) := by rw [← h]
      have f5 : c.smp = (modIns : Int) := by rw [← h]
      have f6 : c.len = (len : Int) := by rw [← h]
      have f7 : c.rst = (modRst pr (modPat orders) len restart : Int) := by rw [← h]
      have ht : (0 : Int) ≤ (chn : Int) * (modPat orders : Int) := Int.mul_nonneg (by omega) (by omega)
      refine ⟨?_, by omega, by omega, by omega, by rw [f3, f1, f2], by omega, ?_⟩
      · apply countOblig_of <;> omega
      · intro hp
        have := hr hp
        apply rstInside_of; omega

/-- **core_hdr_s3m**: every S3M header `s3m_load` accepts gives 0..32 channels, 1..255 patterns,
at most 255 orders, instruments and samples, restart 0. -/
theorem core_hdr_s3m (ffi ordnum insnum patnum : Nat) (magicOK : Bool) (chset orders : List Nat) (c : Counts)
    (h : s3mHeader ffi ordnum insnum patnum magicOK chset orders = some c) :
    CountOblig c = true ∧ RstInside c = true ∧ 1 ≤ c.pat ∧ c.chn ≤ 32 ∧ c.trk = c.pat * c.chn ∧ c.rst = 0 := by
  unfold s3mHeader at h
  split at h
  · cases h
  · split at h
    · cases h
    · rename_i hlim
      split at h
      · cases h
      · generalize hlen : capLen ordnum = len at h
        generalize hpat : s3mPat orders len patnum = pat at h
        generalize hchn : s3mChn chset = chn at h
        simp only at h
        split at h
        · cases h
        · rename_i hp0
          injection h with h
          have hc := s3mChn_le chset
          have hp := s3mPat_le orders len patnum
          rw [hpat] at hp
          rw [hchn] at hc
          have e2 : xmpMaxModLength = 256 := rfl
          have e3 : s3mChannels = 32 := rfl
          have e4 : s3mOrdMax = 255 := rfl
          have e5 : s3mInsMax = 255 := rfl
          have e6 : s3mPatMax = 255 := rfl
          have hl : len ≤ 255 := by rw [← hlen]; unfold capLen; split <;> omega
          have f1 : c.chn = (chn : Int) := by rw [← h]
          rw [hpat] at h hp0
          have f2 : c.pat = (pat : Int) := by rw [← h]
          have f3 : c.trk = (pat : Int) * (chn : Int) := by rw [← h]
          have f4 : c.ins = (insnum : Int) := by rw [← h]
          have f5 : c.smp = (insnum : Int) := by rw [← h]
          have f6 : c.len = (len : Int) := by rw [← h]
          have f7 : c.rst = 0 := by rw [← h]
          have ht : (0 : Int) ≤ (pat : Int) * (chn : Int) := Int.mul_nonneg (by omega) (by omega)
          refine ⟨?_, ?_, by omega, by omega, by rw [f3, f1, f2], f7⟩
          · apply countOblig_of <;> omega
          · apply rstInside_of; omega

/-- **core_hdr_xm**: every XM header `xm_load` accepts gives at most 64 channels, 257 patterns
(one extra), 256 orders, 255 instruments and a restart position inside the order list; tempo and BPM
are in FT2's range unless the tracker field says MED2XM.  (`smp` is counted by `load_instruments`,
capped by `MAX_SAMPLES`: hypothesis.) -/
theorem core_hdr_xm (songlen restart channels patterns instruments tempo bpm headersz : Nat) (med2xm : Bool)
    (smp : Nat) (c : Counts) (hs : smp ≤ maxSamples)
    (h : xmHeader songlen restart channels patterns instruments tempo bpm headersz med2xm smp = some c) :
    CountOblig c = true ∧ RstInside c = true ∧ c.pat = patterns + 1 ∧ c.chn = channels ∧ c.len = songlen
    ∧ (med2xm = false → tempo < 32 ∧ 32 ≤ bpm ∧ bpm ≤ 1000) := by
  unfold xmHeader at h
  split at h
  · cases h
  · split at h
    · cases h
    · split at h
      · cases h
      · split at h
        · cases h
        · split at h
          · cases h
          · rename_i htb
            split at h
            · cases h
            · split at h
              · cases h
              generalize hrst : xmRst songlen restart = rst at h
              injection h with h
              have e1 : xmLenMax = 256 := rfl
              have e2 : xmPatMax = 256 := rfl
              have e3 : xmInsMax = 255 := rfl
              have e4 : xmChnMax = 64 := rfl
              have e5 : xmTempoReject = 32 := rfl
              have e6 : xmBpmMin = 32 := rfl
              have e7 : xmBpmMax = 1000 := rfl
              have e8 : maxSamples = 1024 := rfl
              have hr : rst < songlen ∨ rst = 0 := by rw [← hrst]; unfold xmRst; split <;> omega
              have f1 : c.chn = (channels : Int) := by rw [← h]
              have f2 : c.pat = (patterns : Int) + 1 := by rw [← h]
              have f3 : c.trk = (channels : Int) * (patterns : Int) + 1 := by rw [← h]
              have f4 : c.ins = (instruments : Int) := by rw [← h]
              have f5 : c.smp = (smp : Int) := by rw [← h]
              have f6 : c.len = (songlen : Int) := by rw [← h]
              have f7 : c.rst = (rst : Int) := by rw [← h]
              have ht : (0 : Int) ≤ (channels : Int) * (patterns : Int) := Int.mul_nonneg (by omega) (by omega)
              refine ⟨?_, ?_, f2, f1, f6, ?_⟩
              · apply countOblig_of <;> omega
              · apply rstInside_of; omega
              · intro hm
                simp only [hm, and_true, not_or] at htb
                omega

/-- **core_hdr_it**: every IT header `it_load` accepts gives 1..64 channels (the pattern scan
masks the channel number with 63), at most 255 patterns, instruments and samples, at most 256 orders. -/
theorem core_hdr_it (ordnum insnum smpnum patnum gv : Nat) (sampleMode : Bool) (maxCh : Nat) (c : Counts)
    (hch : maxCh ≤ itChannelMask) (h : itHeader ordnum insnum smpnum patnum gv sampleMode maxCh = some c) :
    CountOblig c = true ∧ RstInside c = true ∧ 1 ≤ c.chn ∧ c.trk = c.pat * c.chn ∧ c.rst = 0 ∧ gv ≤ 128 := by
  unfold itHeader at h
  split at h
  · cases h
  · rename_i hgv
    split at h
    · cases h
    · generalize hlen : capLen ordnum = len at h
      simp only at h
      generalize hins : (if sampleMode = true then smpnum else insnum) = ins at h
      injection h with h
      have e1 : itInsMax = 255 := rfl
      have e2 : itSmpMax = 255 := rfl
      have e3 : itPatMax = 255 := rfl
      have e4 : itGvMax = 128 := rfl
      have e5 : itChannelMask = 63 := rfl
      have e6 : xmpMaxModLength = 256 := rfl
      have hl : len ≤ 256 := by rw [← hlen]; unfold capLen; split <;> omega
      have hi : ins ≤ 255 := by rw [← hins]; split <;> omega
      have f1 : c.chn = ((maxCh + 1 : Nat) : Int) := by rw [← h]
      have f2 : c.pat = (patnum : Int) := by rw [← h]
      have f3 : c.trk = (patnum : Int) * ((maxCh + 1 : Nat) : Int) := by rw [← h]
      have f4 : c.ins = (ins : Int) := by rw [← h]
      have f5 : c.smp = (smpnum : Int) := by rw [← h]
      have f6 : c.len = (len : Int) := by rw [← h]
      have f7 : c.rst = 0 := by rw [← h]
      have ht : (0 : Int) ≤ (patnum : Int) * ((maxCh + 1 : Nat) : Int) := Int.mul_nonneg (by omega) (by omega)
      refine ⟨?_, ?_, by omega, by rw [f3, f1, f2], f7, by omega⟩
      · apply countOblig_of <;> omega
      · apply rstInside_of; omega

/-- **core_hdr_rows**: the row counts the XM and IT pattern headers can produce, and the fixed
row counts of MOD / S3M patterns and of the XM extra pattern, lie in 1..256 (IT: 1..1024): the `rows`
obligation for the patterns themselves (their tracks get the same count from
`libxmp_alloc_tracks_in_pattern`, see `C03_helpers_pattern`). -/
theorem core_hdr_rows :
    (∀ version field r, xmPatRows version field = some r → 1 ≤ r ∧ r ≤ 256)
    ∧ (∀ offset n r, itPatRows offset n = some r → 1 ≤ r ∧ r ≤ 1024)
    ∧ 1 ≤ modRows ∧ modRows ≤ 256 ∧ 1 ≤ s3mRows ∧ s3mRows ≤ 256 ∧ 1 ≤ xmExtraRows := by
  refine ⟨?_, ?_, by decide, by decide, by decide, by decide, by decide⟩
  · intro version field r h
    unfold xmPatRows at h
    generalize (if version > 0x0102 then field else field + 1) = rows at h
    simp only at h
    split at h
    · cases h
    · generalize (if rows = 0 then xmRowsZero else rows) = r' at h
      split at h
      · cases h
      · rename_i hr
        injection h with h
        have e : helperRowsMax = 256 := rfl
        omega
  · intro offset n r h
    unfold itPatRows at h
    have e1 : itEmptyRows = 64 := rfl
    have e2 : itRowsMax = 1024 := rfl
    split at h
    · injection h with h; omega
    · split at h
      · cases h
      · injection h with h; omega

end Xmp.Work.Core
