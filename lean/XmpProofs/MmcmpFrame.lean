import XmpProofs.LzxFrame
import XmpModel.MmcmpFrame
/-!
Byte-level framing of MMCMP files whose blocks are stored: `decrunchMmcmp` (model of `decrunch_mmcmp`) on a file
written by `mmcmpWrap`.
-/
namespace Xmp.Container
open Xmp Xmp.Gen.Depackers

/-! ## block copy into the zero-filled buffer -/

/-- descriptors of the sub-blocks of a block starting at output position `pos` -/
def mmSubSpec : Nat → List Bytes → List (Nat × Nat)
  | _, [] => []
  | pos, d :: ds => (pos, d.length) :: mmSubSpec (pos + d.length) ds

theorem mmWriteAt_zeros (before d : Bytes) (k : Nat) :
    mmWriteAt (before ++ List.replicate (d.length + k) 0) before.length d = (before ++ d) ++ List.replicate k 0 := by
  unfold mmWriteAt
  rw [List.take_left' rfl, List.drop_append, List.drop_replicate, List.drop_of_length_le (by omega)]
  have : d.length + k - (before.length + d.length - before.length) = k := by omega
  rw [this, List.nil_append]

theorem mmBlockCopy_spec (subs : List Bytes) : ∀ (before T : Bytes) (k : Nat),
    (∀ d ∈ subs, d ≠ []) →
    mmBlockCopy (mmSubSpec before.length subs) (subs.flatten ++ T) (before ++ List.replicate (subs.flatten.length + k) 0) =
      some ((before ++ subs.flatten) ++ List.replicate k 0) := by
  induction subs with
  | nil => intro before T k _; simp [mmSubSpec, mmBlockCopy]
  | cons d ds ih =>
    intro before T k hne
    have hd : d ≠ [] := hne d (by simp)
    have hdl : 0 < d.length := List.length_pos_iff.mpr hd
    simp only [mmSubSpec, mmBlockCopy, List.flatten_cons, List.length_append, List.length_replicate, List.append_assoc]
    have c1 : ¬ (before.length ≥ before.length + (d.length + ds.flatten.length + k) ∨
        d.length > before.length + (d.length + ds.flatten.length + k) - before.length) := by omega
    have c2 : ¬ d.length + (ds.flatten.length + T.length) < d.length := by omega
    simp only [c1, c2, if_false]
    rw [List.take_left' rfl, List.drop_left' rfl]
    have hre : d.length + ds.flatten.length + k = d.length + (ds.flatten.length + k) := by omega
    rw [hre, mmWriteAt_zeros before d (ds.flatten.length + k)]
    have := ih (before ++ d) T k (fun x hx => hne x (by simp [hx]))
    simp only [List.length_append] at this
    rw [this]
    simp [List.append_assoc]


/-! ## sub-block table, block header, block loop -/

theorem mmSubTable_length (subs : List Bytes) : ∀ pos, (mmSubTable pos subs).length = 8 * subs.length := by
  induction subs with
  | nil => intro pos; rfl
  | cons d ds ih => intro pos; simp only [mmSubTable, List.length_append, le32_length, ih, List.length_cons]; omega

/-- positions and sizes of all sub-blocks stay below 2^31 -/
def SubsOk : Nat → List Bytes → Prop
  | _, [] => True
  | pos, d :: ds => pos < 2 ^ 31 ∧ d.length < 2 ^ 31 ∧ SubsOk (pos + d.length) ds

theorem mmSubs_spec (f : Bytes) (subs : List Bytes) : ∀ (pos ofs : Nat) (T : Bytes),
    f.drop ofs = mmSubTable pos subs ++ T → SubsOk pos subs →
    mmSubs f subs.length ofs = some (mmSubSpec pos subs) := by
  induction subs with
  | nil => intro pos ofs T _ _; rfl
  | cons d ds ih =>
    intro pos ofs T h hok
    obtain ⟨h1, h2, h3⟩ := hok
    simp only [mmSubTable, List.append_assoc] at h
    have hlen : ¬ f.length < ofs + 8 := by
      have := congrArg List.length h
      simp only [List.length_drop, List.length_append, le32_length] at this
      omega
    have e0 : u32At f ofs = pos := by
      have := u32At_drop' f ofs 0
      rw [Nat.add_zero] at this
      rw [this, h]; exact u32At_le32 _ (by omega) _
    have e4 : u32At f (ofs + 4) = d.length := by
      rw [u32At_drop', h]; simp only [u32At_s32]; exact u32At_le32 _ (by omega) _
    simp only [List.length_cons, mmSubs, hlen, if_false, e0, e4]
    have hb : ¬ (pos ≥ 2 ^ 31 ∨ d.length ≥ 2 ^ 31) := by omega
    rw [if_neg hb]
    have h' : f.drop (ofs + 8) = mmSubTable (pos + d.length) ds ++ T := by
      rw [← List.drop_drop, h]
      have : (le32 pos ++ (le32 d.length ++ (mmSubTable (pos + d.length) ds ++ T))) =
          (le32 pos ++ le32 d.length) ++ (mmSubTable (pos + d.length) ds ++ T) := by simp only [List.append_assoc]
      rw [this, List.drop_left' (by simp only [List.length_append, le32_length])]
    rw [ih (pos + d.length) (ofs + 8) T h' h3]
    rfl

theorem mmBlockBytes_length (pos : Nat) (b : List Bytes) :
    (mmBlockBytes pos b).length = 20 + 8 * b.length + b.flatten.length := by
  unfold mmBlockBytes
  simp only [List.length_append, le32_length, le16_length, mmSubTable_length]

structure BlockOk (pos : Nat) (b : List Bytes) : Prop where
  subsNe : ∀ d ∈ b, d ≠ []
  ne : b ≠ []
  count : b.length < 65536
  size : b.flatten.length < 2 ^ 31
  subs : SubsOk pos b

theorem flatten_pos (b : List Bytes) (hne : b ≠ []) (hs : ∀ d ∈ b, d ≠ []) : 0 < b.flatten.length := by
  cases b with
  | nil => exact absurd rfl hne
  | cons d ds =>
    have : 0 < d.length := List.length_pos_iff.mpr (hs d (by simp))
    simp only [List.flatten_cons, List.length_append]; omega

/-- one stored block: header tests pass, the sub-block table is read back, the data lands in the output buffer -/
theorem mmBlock_step (dec : Nat → Nat → Nat → List (Nat × Nat) → Bytes → Bytes → Option Bytes) (f : Bytes)
    (bo : Nat) (b : List Bytes) (before T : Bytes) (k : Nat) (rest : List Nat)
    (h : f.drop bo = mmBlockBytes before.length b ++ T) (hok : BlockOk before.length b) :
    mmBlocks dec f (bo :: rest) (before ++ List.replicate (b.flatten.length + k) 0) =
      mmBlocks dec f rest ((before ++ b.flatten) ++ List.replicate k 0) := by
  have hfl := flatten_pos b hok.ne hok.subsNe
  have hbl : 0 < b.length := List.length_pos_iff.mpr hok.ne
  have h' : f.drop bo = le32 b.flatten.length ++ (le32 b.flatten.length ++ (le32 0 ++ (le16 b.length ++ (le16 0 ++
      (le16 0 ++ (le16 0 ++ (mmSubTable before.length b ++ (b.flatten ++ T)))))))) := by
    rw [h]; unfold mmBlockBytes; simp only [List.append_assoc]
  have hflen : ¬ f.length < bo + 20 := by
    have := congrArg List.length h
    simp only [List.length_drop, List.length_append, mmBlockBytes_length] at this
    omega
  have e0 : u32At f bo = b.flatten.length := by
    have := u32At_drop' f bo 0
    rw [Nat.add_zero] at this
    rw [this, h']; exact u32At_le32 _ (by have := hok.size; omega) _
  have e4 : u32At f (bo + 4) = b.flatten.length := by
    rw [u32At_drop', h']; simp only [u32At_s32]; exact u32At_le32 _ (by have := hok.size; omega) _
  have e12 : u16At f (bo + 12) = b.length := by
    rw [u16At_drop', h']; simp only [u16At_s32]; exact u16At_le16 _ hok.count _
  have e14 : u16At f (bo + 14) = 0 := by
    rw [u16At_drop', h']; simp only [u16At_s32, u16At_s16]; exact u16At_le16 _ (by decide) _
  have e16 : u16At f (bo + 16) = 0 := by
    rw [u16At_drop', h']; simp only [u16At_s32, u16At_s16]; exact u16At_le16 _ (by decide) _
  have e18 : u16At f (bo + 18) = 0 := by
    rw [u16At_drop', h']; simp only [u16At_s32, u16At_s16]; exact u16At_le16 _ (by decide) _
  have hsubs : f.drop (bo + 20) = mmSubTable before.length b ++ (b.flatten ++ T) := by
    rw [← List.drop_drop, h']
    have : (le32 b.flatten.length ++ (le32 b.flatten.length ++ (le32 0 ++ (le16 b.length ++ (le16 0 ++
        (le16 0 ++ (le16 0 ++ (mmSubTable before.length b ++ (b.flatten ++ T))))))))) =
        (le32 b.flatten.length ++ le32 b.flatten.length ++ le32 0 ++ le16 b.length ++ le16 0 ++ le16 0 ++ le16 0) ++
        (mmSubTable before.length b ++ (b.flatten ++ T)) := by simp only [List.append_assoc]
    rw [this, List.drop_left' (by simp only [List.length_append, le32_length, le16_length])]
  have hstream : f.drop (bo + 20 + 8 * b.length) = b.flatten ++ T := by
    rw [← List.drop_drop, hsubs, List.drop_left' (mmSubTable_length b before.length)]
  rw [mmBlocks]
  simp only [hflen, if_false, e0, e4, e12, e14, e16, e18]
  have c1 : ¬ (b.flatten.length = 0 ∨ b.flatten.length ≥ 2 ^ 31 ∨ b.flatten.length = 0 ∨ b.flatten.length ≥ 2 ^ 31) := by
    have := hok.size; omega
  have c2 : ¬ b.flatten.length ≤ 0 := by omega
  have c3 : ¬ b.length = 0 := by omega
  simp only [c1, c2, c3, if_false, Nat.zero_mod, show ¬ ((0 : Nat) = 1) by decide, false_and, if_true,
    mmSubs_spec f b before.length (bo + 20) _ hsubs hok.subs, hstream]
  rw [mmBlockCopy_spec b before T k hok.subsNe]

/-- all blocks of a written body -/
def BlocksOk : Nat → List (List Bytes) → Prop
  | _, [] => True
  | pos, b :: bs => BlockOk pos b ∧ BlocksOk (pos + b.flatten.length) bs

theorem mmBlocks_walk (dec : Nat → Nat → Nat → List (Nat × Nat) → Bytes → Bytes → Option Bytes) (f : Bytes)
    (blocks : List (List Bytes)) : ∀ (ofs : Nat) (before T : Bytes),
    f.drop ofs = mmBody before.length blocks ++ T → BlocksOk before.length blocks →
    mmBlocks dec f (mmOffsets ofs before.length blocks)
      (before ++ List.replicate ((blocks.map List.flatten).flatten.length) 0) =
      some (before ++ (blocks.map List.flatten).flatten) := by
  induction blocks with
  | nil => intro ofs before T _ _; simp [mmOffsets, mmBlocks]
  | cons b bs ih =>
    intro ofs before T h hok
    obtain ⟨hb, hbs⟩ := hok
    simp only [mmBody, List.append_assoc] at h
    simp only [mmOffsets, List.map_cons, List.flatten_cons, List.length_append]
    rw [mmBlock_step dec f ofs b before _ _ _ h hb]
    have h2 : f.drop (ofs + (mmBlockBytes before.length b).length) =
        mmBody (before ++ b.flatten).length bs ++ T := by
      rw [← List.drop_drop, h, List.drop_left, List.length_append]
    have := ih (ofs + (mmBlockBytes before.length b).length) (before ++ b.flatten) T h2
      (by rw [List.length_append]; exact hbs)
    rw [List.length_append] at this
    rw [this, List.append_assoc]

theorem mmTable_spec (f : Bytes) (offs : List Nat) : ∀ (ofs : Nat) (T : Bytes),
    f.drop ofs = offs.flatMap le32 ++ T → (∀ o ∈ offs, o < 2 ^ 32) → mmTable f offs.length ofs = some offs := by
  induction offs with
  | nil => intro ofs T _ _; rfl
  | cons o os ih =>
    intro ofs T h hlt
    simp only [List.flatMap_cons, List.append_assoc] at h
    have hlen : ¬ f.length < ofs + 4 := by
      have := congrArg List.length h
      simp only [List.length_drop, List.length_append, le32_length] at this
      omega
    have e0 : u32At f ofs = o := by
      have := u32At_drop' f ofs 0
      rw [Nat.add_zero] at this
      rw [this, h]; exact u32At_le32 _ (hlt o (by simp)) _
    have h' : f.drop (ofs + 4) = os.flatMap le32 ++ T := by
      rw [← List.drop_drop, h, List.drop_left' (le32_length o)]
    simp only [List.length_cons, mmTable, hlen, if_false, e0, ih (ofs + 4) T h' (fun x hx => hlt x (by simp [hx]))]
    rfl

theorem mmOffsets_length (blocks : List (List Bytes)) : ∀ ofs pos, (mmOffsets ofs pos blocks).length = blocks.length := by
  induction blocks with
  | nil => intro _ _; rfl
  | cons b bs ih => intro ofs pos; simp [mmOffsets, ih]

theorem mmBody_length_eq (blocks : List (List Bytes)) : ∀ pos pos', (mmBody pos blocks).length = (mmBody pos' blocks).length := by
  induction blocks with
  | nil => intro _ _; rfl
  | cons b bs ih =>
    intro pos pos'
    simp only [mmBody, List.length_append, mmBlockBytes_length]
    rw [ih (pos + b.flatten.length) (pos' + b.flatten.length)]

theorem mmOffsets_lt (blocks : List (List Bytes)) : ∀ ofs pos, ∀ o ∈ mmOffsets ofs pos blocks,
    o < ofs + (mmBody pos blocks).length + 1 := by
  induction blocks with
  | nil => intro _ _ o ho; simp [mmOffsets] at ho
  | cons b bs ih =>
    intro ofs pos o ho
    simp only [mmOffsets, List.mem_cons] at ho
    simp only [mmBody, List.length_append]
    rcases ho with h | h
    · omega
    · have := ih _ _ o h
      omega


/-- **MMCMP framing, stored blocks**: header, block offset table, block headers, sub-block tables and the copy of every
    sub-block to its position in the zero-filled output buffer reproduce the payload, for any split of the payload
    into blocks and sub-blocks -/
theorem decrunchMmcmp_wrap (dec : Nat → Nat → Nat → List (Nat × Nat) → Bytes → Bytes → Option Bytes)
    (blocks : List (List Bytes)) (hne : blocks ≠ []) (hcount : blocks.length < 65536)
    (hok : BlocksOk 0 blocks)
    (h16 : 16 ≤ ((blocks.map List.flatten).flatten).length)
    (hlim : ((blocks.map List.flatten).flatten).length ≤ depackLimit)
    (hsz : 24 + (mmBody 0 blocks).length < 2 ^ 32) :
    decrunchMmcmp dec (mmcmpWrap blocks) = some ((blocks.map List.flatten).flatten) := by
  generalize hP : (blocks.map List.flatten).flatten = P at *
  generalize hB : mmBody 0 blocks = body at *
  have hfile : mmcmpWrap blocks =
      (([0x7a, 0x69, 0x52, 0x43, 0x4f, 0x4e, 0x69, 0x61] : Bytes) ++ (le16 14 ++ (le16 0x1300 ++ (le16 blocks.length ++
        (le32 P.length ++ (le32 (24 + body.length) ++ ([0, 0] : Bytes))))))) ++
      (body ++ (mmOffsets 24 0 blocks).flatMap le32) := by
    unfold mmcmpWrap
    simp only [hP, hB, List.append_assoc]
  generalize hH : (([0x7a, 0x69, 0x52, 0x43, 0x4f, 0x4e, 0x69, 0x61] : Bytes) ++ (le16 14 ++ (le16 0x1300 ++
      (le16 blocks.length ++ (le32 P.length ++ (le32 (24 + body.length) ++ ([0, 0] : Bytes))))))) = H at hfile
  have hHl : H.length = 24 := by
    rw [← hH]; simp only [List.length_append, le16_length, le32_length]; rfl
  generalize hF : mmcmpWrap blocks = F at *
  have hFl : F.length = 24 + body.length + 4 * blocks.length := by
    rw [hfile]
    have : ∀ l : List Nat, (l.flatMap le32).length = 4 * l.length := by
      intro l; induction l with
      | nil => rfl
      | cons x xs ih => simp only [List.flatMap_cons, List.length_append, le32_length, ih, List.length_cons]; omega
    simp only [List.length_append, hHl, this, mmOffsets_length]; omega
  have hmagic : memEqAt F 0 [0x7a, 0x69, 0x52, 0x43, 0x4f, 0x4e, 0x69, 0x61] = true := by
    rw [hfile, ← hH]; simp [memEqAt, bAt]
  have e8 : u16At F 8 = 14 := by
    rw [hfile, ← hH]; simp only [List.append_assoc]
    rw [show (8 : Nat) = 0 + 8 from rfl, u16At_skip _ _ 0 8 rfl]
    exact u16At_le16 _ (by decide) _
  have e12 : u16At F 12 = blocks.length := by
    rw [hfile, ← hH]; simp only [List.append_assoc]
    rw [show (12 : Nat) = 4 + 8 from rfl, u16At_skip _ _ 4 8 rfl]
    simp only [u16At_s16]
    exact u16At_le16 _ hcount _
  have e14 : u32At F 14 = P.length := by
    rw [hfile, ← hH]; simp only [List.append_assoc]
    rw [show (14 : Nat) = 6 + 8 from rfl, u32At_skip _ _ 6 8 rfl]
    simp only [u32At_s16]
    exact u32At_le32 _ (by unfold depackLimit at hlim; omega) _
  have e18 : u32At F 18 = 24 + body.length := by
    rw [hfile, ← hH]; simp only [List.append_assoc]
    rw [show (18 : Nat) = 10 + 8 from rfl, u32At_skip _ _ 10 8 rfl]
    simp only [u32At_s16, u32At_s32]
    exact u32At_le32 _ hsz _
  have hbl : 0 < blocks.length := List.length_pos_iff.mpr hne
  unfold decrunchMmcmp
  have c0 : ¬ F.length < 24 := by omega
  have c1 : ¬ (blocks.length = 0 ∨ P.length < 16 ∨ P.length > depackLimit) := by omega
  simp only [c0, hmagic, e8, e12, e14, e18, c1, if_false, Bool.not_true, Bool.false_eq_true, ne_eq, not_true_eq_false]
  -- block table
  have htab : F.drop (24 + body.length) = (mmOffsets 24 0 blocks).flatMap le32 ++ [] := by
    rw [hfile, ← List.append_assoc, List.drop_left' (by rw [List.length_append, hHl]), List.append_nil]
  have hofs : ∀ o ∈ mmOffsets 24 0 blocks, o < 2 ^ 32 := by
    intro o ho
    have := mmOffsets_lt blocks 24 0 o ho
    rw [hB] at this; omega
  have := mmTable_spec F (mmOffsets 24 0 blocks) (24 + body.length) [] htab hofs
  rw [mmOffsets_length] at this
  rw [this]
  simp only []
  -- blocks
  have hbody : F.drop 24 = mmBody ([] : Bytes).length blocks ++ (mmOffsets 24 0 blocks).flatMap le32 := by
    rw [hfile, List.drop_left' hHl]; simp [hB]
  have hwalk := mmBlocks_walk dec F blocks 24 [] _ hbody (by simpa using hok)
  simp only [List.length_nil, List.nil_append, hP] at hwalk
  exact hwalk

end Xmp.Container
