import XmpProofs.LzxFrame
import XmpProofs.Lzw
import XmpModel.MmcmpFrame
/-!
Byte-level framing of MMCMP files whose blocks are stored: `decrunchMmcmp` (model of `decrunch_mmcmp`) on a file
written by `mmcmpWrap`.
-/
namespace Xmp.Container
open Xmp Xmp.Gen.Depackers

/-! ## block copy into the zero-filled buffer -/

/-- descriptors of the sub-blocks of a block starting at output position `pos` -/
def mmSubSpec : Nat → List Bytes → List (Nat × Nat)
  | _, [] => []
  | pos, d :: ds => (pos, d.length) :: mmSubSpec (pos + d.length) ds

theorem mmWriteAt_zeros (before d : Bytes) (k : Nat) :
    mmWriteAt (before ++ List.replicate (d.length + k) 0) before.length d = (before ++ d) ++ List.replicate k 0 := by
  unfold mmWriteAt
  rw [List.take_left' rfl, List.drop_append, List.drop_replicate, List.drop_of_length_le (by omega)]
  have : d.length + k - (before.length + d.length - before.length) = k := by omega
  rw [this, List.nil_append]

theorem mmBlockCopy_spec (subs : List Bytes) : ∀ (before T : Bytes) (k : Nat),
    (∀ d ∈ subs, d ≠ []) →
    mmBlockCopy (mmSubSpec before.length subs) (subs.flatten ++ T) (before ++ List.replicate (subs.flatten.length + k) 0) =
      some ((before ++ subs.flatten) ++ List.replicate k 0) := by
  induction subs with
  | nil => intro before T k _; simp [mmSubSpec, mmBlockCopy]
  | cons d ds ih =>
    intro before T k hne
    have hd : d ≠ [] := hne d (by simp)
    have hdl : 0 < d.length := List.length_pos_iff.mpr hd
    simp only [mmSubSpec, mmBlockCopy, List.flatten_cons, List.length_append, List.length_replicate, List.append_assoc]
    have c1 : ¬ (before.length ≥ before.length + (d.length + ds.flatten.length + k) ∨
        d.length > before.length + (d.length + ds.flatten.length + k) - before.length) := by omega
    have c2 : ¬ d.length + (ds.flatten.length + T.length) < d.length := by omega
    simp only [c1, c2, if_false]
    rw [List.take_left' rfl, List.drop_left' rfl]
    have hre : d.length + ds.flatten.length + k = d.length + (ds.flatten.length + k) := by omega
    rw [hre, mmWriteAt_zeros before d (ds.flatten.length + k)]
    have := ih (before ++ d) T k (fun x hx => hne x (by simp [hx]))
    simp only [List.length_append] at this
    rw [this]
    simp [List.append_assoc]


/-! ## sub-block table, block header, block loop -/

theorem mmSubTable_length (subs : List Bytes) : ∀ pos, (mmSubTable pos subs).length = 8 * subs.length := by
  induction subs with
  | nil => intro pos; rfl
  | cons d ds ih => intro pos; simp only [mmSubTable, List.length_append, le32_length, ih, List.length_cons]; omega

/-- positions and sizes of all sub-blocks stay below 2^31 -/
def SubsOk : Nat → List Bytes → Prop
  | _, [] => True
  | pos, d :: ds => pos < 2 ^ 31 ∧ d.length < 2 ^ 31 ∧ SubsOk (pos + d.length) ds

theorem mmSubs_spec (f : Bytes) (subs : List Bytes) : ∀ (pos ofs : Nat) (T : Bytes) (k : Nat),
    f.drop ofs = mmSubTable pos subs ++ T → SubsOk pos subs →
    mmSubs f subs.length ofs (subs.flatten.length + k) = some (mmSubSpec pos subs, k) := by
  induction subs with
  | nil => intro pos ofs T k _ _; simp [mmSubs, mmSubSpec]
  | cons d ds ih =>
    intro pos ofs T k h hok
    obtain ⟨h1, h2, h3⟩ := hok
    simp only [mmSubTable, List.append_assoc] at h
    have hlen : ¬ f.length < ofs + 8 := by
      have := congrArg List.length h
      simp only [List.length_drop, List.length_append, le32_length] at this
      omega
    have e0 : u32At f ofs = pos := by
      have := u32At_drop' f ofs 0
      rw [Nat.add_zero] at this
      rw [this, h]; exact u32At_le32 _ (by omega) _
    have e4 : u32At f (ofs + 4) = d.length := by
      rw [u32At_drop', h]; simp only [u32At_s32]; exact u32At_le32 _ (by omega) _
    simp only [List.length_cons, mmSubs, hlen, if_false, e0, e4]
    have hb : ¬ (pos ≥ 2 ^ 31 ∨ d.length ≥ 2 ^ 31) := by omega
    rw [if_neg hb]
    have hbud : ¬ d.length > (d :: ds).flatten.length + k := by simp; omega
    rw [if_neg hbud]
    have hsub : (d :: ds).flatten.length + k - d.length = ds.flatten.length + k := by simp; omega
    rw [hsub]
    have h' : f.drop (ofs + 8) = mmSubTable (pos + d.length) ds ++ T := by
      rw [← List.drop_drop, h]
      have : (le32 pos ++ (le32 d.length ++ (mmSubTable (pos + d.length) ds ++ T))) =
          (le32 pos ++ le32 d.length) ++ (mmSubTable (pos + d.length) ds ++ T) := by simp only [List.append_assoc]
      rw [this, List.drop_left' (by simp only [List.length_append, le32_length])]
    rw [ih (pos + d.length) (ofs + 8) T k h' h3]
    rfl

theorem mmBlockBytes_length (pos : Nat) (b : List Bytes) :
    (mmBlockBytes pos b).length = 20 + 8 * b.length + b.flatten.length := by
  unfold mmBlockBytes
  simp only [List.length_append, le32_length, le16_length, mmSubTable_length]

structure BlockOk (pos : Nat) (b : List Bytes) : Prop where
  subsNe : ∀ d ∈ b, d ≠ []
  ne : b ≠ []
  count : b.length < 65536
  size : b.flatten.length < 2 ^ 31
  subs : SubsOk pos b

theorem flatten_pos (b : List Bytes) (hne : b ≠ []) (hs : ∀ d ∈ b, d ≠ []) : 0 < b.flatten.length := by
  cases b with
  | nil => exact absurd rfl hne
  | cons d ds =>
    have : 0 < d.length := List.length_pos_iff.mpr (hs d (by simp))
    simp only [List.flatten_cons, List.length_append]; omega

/-- one stored block: header tests pass, the sub-block table is read back, the data lands in the output buffer -/
theorem mmBlock_step (dec : Nat → Nat → Nat → List (Nat × Nat) → Bytes → Bytes → Option Bytes) (f : Bytes)
    (bo : Nat) (b : List Bytes) (before T : Bytes) (k : Nat) (rest : List Nat)
    (h : f.drop bo = mmBlockBytes before.length b ++ T) (hok : BlockOk before.length b) :
    mmBlocks dec f (bo :: rest) (b.flatten.length + k) (before ++ List.replicate (b.flatten.length + k) 0) =
      mmBlocks dec f rest k ((before ++ b.flatten) ++ List.replicate k 0) := by
  have hfl := flatten_pos b hok.ne hok.subsNe
  have hbl : 0 < b.length := List.length_pos_iff.mpr hok.ne
  have h' : f.drop bo = le32 b.flatten.length ++ (le32 b.flatten.length ++ (le32 0 ++ (le16 b.length ++ (le16 0 ++
      (le16 0 ++ (le16 0 ++ (mmSubTable before.length b ++ (b.flatten ++ T)))))))) := by
    rw [h]; unfold mmBlockBytes; simp only [List.append_assoc]
  have hflen : ¬ f.length < bo + 20 := by
    have := congrArg List.length h
    simp only [List.length_drop, List.length_append, mmBlockBytes_length] at this
    omega
  have e0 : u32At f bo = b.flatten.length := by
    have := u32At_drop' f bo 0
    rw [Nat.add_zero] at this
    rw [this, h']; exact u32At_le32 _ (by have := hok.size; omega) _
  have e4 : u32At f (bo + 4) = b.flatten.length := by
    rw [u32At_drop', h']; simp only [u32At_s32]; exact u32At_le32 _ (by have := hok.size; omega) _
  have e12 : u16At f (bo + 12) = b.length := by
    rw [u16At_drop', h']; simp only [u16At_s32]; exact u16At_le16 _ hok.count _
  have e14 : u16At f (bo + 14) = 0 := by
    rw [u16At_drop', h']; simp only [u16At_s32, u16At_s16]; exact u16At_le16 _ (by decide) _
  have e16 : u16At f (bo + 16) = 0 := by
    rw [u16At_drop', h']; simp only [u16At_s32, u16At_s16]; exact u16At_le16 _ (by decide) _
  have e18 : u16At f (bo + 18) = 0 := by
    rw [u16At_drop', h']; simp only [u16At_s32, u16At_s16]; exact u16At_le16 _ (by decide) _
  have hsubs : f.drop (bo + 20) = mmSubTable before.length b ++ (b.flatten ++ T) := by
    rw [← List.drop_drop, h']
    have : (le32 b.flatten.length ++ (le32 b.flatten.length ++ (le32 0 ++ (le16 b.length ++ (le16 0 ++
        (le16 0 ++ (le16 0 ++ (mmSubTable before.length b ++ (b.flatten ++ T))))))))) =
        (le32 b.flatten.length ++ le32 b.flatten.length ++ le32 0 ++ le16 b.length ++ le16 0 ++ le16 0 ++ le16 0) ++
        (mmSubTable before.length b ++ (b.flatten ++ T)) := by simp only [List.append_assoc]
    rw [this, List.drop_left' (by simp only [List.length_append, le32_length, le16_length])]
  have hstream : f.drop (bo + 20 + 8 * b.length) = b.flatten ++ T := by
    rw [← List.drop_drop, hsubs, List.drop_left' (mmSubTable_length b before.length)]
  rw [mmBlocks]
  simp only [hflen, if_false, e0, e4, e12, e14, e16, e18]
  have c1 : ¬ (b.flatten.length = 0 ∨ b.flatten.length ≥ 2 ^ 31 ∨ b.flatten.length = 0 ∨ b.flatten.length ≥ 2 ^ 31) := by
    have := hok.size; omega
  have c2 : ¬ b.flatten.length ≤ 0 := by omega
  have c3 : ¬ b.length = 0 := by omega
  simp only [c1, c2, c3, if_false, Nat.zero_mod, show ¬ ((0 : Nat) = 1) by decide, false_and, if_true,
    mmSubs_spec f b before.length (bo + 20) _ k hsubs hok.subs, hstream]
  rw [mmBlockCopy_spec b before T k hok.subsNe]

/-- all blocks of a written body -/
def BlocksOk : Nat → List (List Bytes) → Prop
  | _, [] => True
  | pos, b :: bs => BlockOk pos b ∧ BlocksOk (pos + b.flatten.length) bs

theorem mmBlocks_walk (dec : Nat → Nat → Nat → List (Nat × Nat) → Bytes → Bytes → Option Bytes) (f : Bytes)
    (blocks : List (List Bytes)) : ∀ (ofs : Nat) (before T : Bytes),
    f.drop ofs = mmBody before.length blocks ++ T → BlocksOk before.length blocks →
    mmBlocks dec f (mmOffsets ofs before.length blocks) ((blocks.map List.flatten).flatten.length)
      (before ++ List.replicate ((blocks.map List.flatten).flatten.length) 0) =
      some (before ++ (blocks.map List.flatten).flatten) := by
  induction blocks with
  | nil => intro ofs before T _ _; simp [mmOffsets, mmBlocks]
  | cons b bs ih =>
    intro ofs before T h hok
    obtain ⟨hb, hbs⟩ := hok
    simp only [mmBody, List.append_assoc] at h
    simp only [mmOffsets, List.map_cons, List.flatten_cons, List.length_append]
    rw [mmBlock_step dec f ofs b before _ _ _ h hb]
    have h2 : f.drop (ofs + (mmBlockBytes before.length b).length) =
        mmBody (before ++ b.flatten).length bs ++ T := by
      rw [← List.drop_drop, h, List.drop_left, List.length_append]
    have := ih (ofs + (mmBlockBytes before.length b).length) (before ++ b.flatten) T h2
      (by rw [List.length_append]; exact hbs)
    rw [List.length_append] at this
    rw [this, List.append_assoc]

theorem mmTable_spec (f : Bytes) (offs : List Nat) : ∀ (ofs : Nat) (T : Bytes),
    f.drop ofs = offs.flatMap le32 ++ T → (∀ o ∈ offs, o < 2 ^ 32) → mmTable f offs.length ofs = some offs := by
  induction offs with
  | nil => intro ofs T _ _; rfl
  | cons o os ih =>
    intro ofs T h hlt
    simp only [List.flatMap_cons, List.append_assoc] at h
    have hlen : ¬ f.length < ofs + 4 := by
      have := congrArg List.length h
      simp only [List.length_drop, List.length_append, le32_length] at this
      omega
    have e0 : u32At f ofs = o := by
      have := u32At_drop' f ofs 0
      rw [Nat.add_zero] at this
      rw [this, h]; exact u32At_le32 _ (hlt o (by simp)) _
    have h' : f.drop (ofs + 4) = os.flatMap le32 ++ T := by
      rw [← List.drop_drop, h, List.drop_left' (le32_length o)]
    simp only [List.length_cons, mmTable, hlen, if_false, e0, ih (ofs + 4) T h' (fun x hx => hlt x (by simp [hx]))]
    rfl

theorem mmOffsets_length (blocks : List (List Bytes)) : ∀ ofs pos, (mmOffsets ofs pos blocks).length = blocks.length := by
  induction blocks with
  | nil => intro _ _; rfl
  | cons b bs ih => intro ofs pos; simp [mmOffsets, ih]

theorem mmBody_length_eq (blocks : List (List Bytes)) : ∀ pos pos', (mmBody pos blocks).length = (mmBody pos' blocks).length := by
  induction blocks with
  | nil => intro _ _; rfl
  | cons b bs ih =>
    intro pos pos'
    simp only [mmBody, List.length_append, mmBlockBytes_length]
    rw [ih (pos + b.flatten.length) (pos' + b.flatten.length)]

theorem mmOffsets_lt (blocks : List (List Bytes)) : ∀ ofs pos, ∀ o ∈ mmOffsets ofs pos blocks,
    o < ofs + (mmBody pos blocks).length + 1 := by
  induction blocks with
  | nil => intro _ _ o ho; simp [mmOffsets] at ho
  | cons b bs ih =>
    intro ofs pos o ho
    simp only [mmOffsets, List.mem_cons] at ho
    simp only [mmBody, List.length_append]
    rcases ho with h | h
    · omega
    · have := ih _ _ o h
      omega


/-- **MMCMP framing, stored blocks**: header, block offset table, block headers, sub-block tables and the copy of every
    sub-block to its position in the zero-filled output buffer reproduce the payload, for any split of the payload
    into blocks and sub-blocks -/
theorem decrunchMmcmp_wrap (dec : Nat → Nat → Nat → List (Nat × Nat) → Bytes → Bytes → Option Bytes)
    (blocks : List (List Bytes)) (hne : blocks ≠ []) (hcount : blocks.length < 65536)
    (hok : BlocksOk 0 blocks)
    (h16 : 16 ≤ ((blocks.map List.flatten).flatten).length)
    (hlim : ((blocks.map List.flatten).flatten).length ≤ depackLimit)
    (hsz : 24 + (mmBody 0 blocks).length < 2 ^ 32) :
    decrunchMmcmp dec (mmcmpWrap blocks) = some ((blocks.map List.flatten).flatten) := by
  generalize hP : (blocks.map List.flatten).flatten = P at *
  generalize hB : mmBody 0 blocks = body at *
  have hfile : mmcmpWrap blocks =
      (([0x7a, 0x69, 0x52, 0x43, 0x4f, 0x4e, 0x69, 0x61] : Bytes) ++ (le16 14 ++ (le16 0x1300 ++ (le16 blocks.length ++
        (le32 P.length ++ (le32 (24 + body.length) ++ ([0, 0] : Bytes))))))) ++
      (body ++ (mmOffsets 24 0 blocks).flatMap le32) := by
    unfold mmcmpWrap
    simp only [hP, hB, List.append_assoc]
  generalize hH : (([0x7a, 0x69, 0x52, 0x43, 0x4f, 0x4e, 0x69, 0x61] : Bytes) ++ (le16 14 ++ (le16 0x1300 ++
      (le16 blocks.length ++ (le32 P.length ++ (le32 (24 + body.length) ++ ([0, 0] : Bytes))))))) = H at hfile
  have hHl : H.length = 24 := by
    rw [← hH]; simp only [List.length_append, le16_length, le32_length]; rfl
  generalize hF : mmcmpWrap blocks = F at *
  have hFl : F.length = 24 + body.length + 4 * blocks.length := by
    rw [hfile]
    have : ∀ l : List Nat, (l.flatMap le32).length = 4 * l.length := by
      intro l; induction l with
      | nil => rfl
      | cons x xs ih => simp only [List.flatMap_cons, List.length_append, le32_length, ih, List.length_cons]; omega
    simp only [List.length_append, hHl, this, mmOffsets_length]; omega
  have hmagic : memEqAt F 0 [0x7a, 0x69, 0x52, 0x43, 0x4f, 0x4e, 0x69, 0x61] = true := by
    rw [hfile, ← hH]; simp [memEqAt, bAt]
  have e8 : u16At F 8 = 14 := by
    rw [hfile, ← hH]; simp only [List.append_assoc]
    rw [show (8 : Nat) = 0 + 8 from rfl, u16At_skip _ _ 0 8 rfl]
    exact u16At_le16 _ (by decide) _
  have e12 : u16At F 12 = blocks.length := by
    rw [hfile, ← hH]; simp only [List.append_assoc]
    rw [show (12 : Nat) = 4 + 8 from rfl, u16At_skip _ _ 4 8 rfl]
    simp only [u16At_s16]
    exact u16At_le16 _ hcount _
  have e14 : u32At F 14 = P.length := by
    rw [hfile, ← hH]; simp only [List.append_assoc]
    rw [show (14 : Nat) = 6 + 8 from rfl, u32At_skip _ _ 6 8 rfl]
    simp only [u32At_s16]
    exact u32At_le32 _ (by unfold depackLimit at hlim; omega) _
  have e18 : u32At F 18 = 24 + body.length := by
    rw [hfile, ← hH]; simp only [List.append_assoc]
    rw [show (18 : Nat) = 10 + 8 from rfl, u32At_skip _ _ 10 8 rfl]
    simp only [u32At_s16, u32At_s32]
    exact u32At_le32 _ hsz _
  have hbl : 0 < blocks.length := List.length_pos_iff.mpr hne
  unfold decrunchMmcmp
  have c0 : ¬ F.length < 24 := by omega
  have c1 : ¬ (blocks.length = 0 ∨ P.length < 16 ∨ P.length > depackLimit) := by omega
  simp only [c0, hmagic, e8, e12, e14, e18, c1, if_false, Bool.not_true, Bool.false_eq_true, ne_eq, not_true_eq_false]
  -- block table
  have htab : F.drop (24 + body.length) = (mmOffsets 24 0 blocks).flatMap le32 ++ [] := by
    rw [hfile, ← List.append_assoc, List.drop_left' (by rw [List.length_append, hHl]), List.append_nil]
  have hofs : ∀ o ∈ mmOffsets 24 0 blocks, o < 2 ^ 32 := by
    intro o ho
    have := mmOffsets_lt blocks 24 0 o ho
    rw [hB] at this; omega
  have := mmTable_spec F (mmOffsets 24 0 blocks) (24 + body.length) [] htab hofs
  rw [mmOffsets_length] at this
  rw [this]
  simp only []
  -- blocks
  have hbody : F.drop 24 = mmBody ([] : Bytes).length blocks ++ (mmOffsets 24 0 blocks).flatMap le32 := by
    rw [hfile, List.drop_left' hHl]; simp [hB]
  have hwalk := mmBlocks_walk dec F blocks 24 [] _ hbody (by simpa using hok)
  simp only [List.length_nil, List.nil_append, hP] at hwalk
  exact hwalk


/-! ## the bit reader of the compressed-block decoders -/

theorem mmBitAt_spec (l : Bytes) (i : Nat) (hi : i < 8 * l.length) :
    mmBitAt l.toArray i = Lzw.streamNat l / 2 ^ i % 2 := by
  unfold mmBitAt
  have hq : i / 8 < l.length := by omega
  have hget : l.toArray[i / 8]? = some (l[i / 8]'hq) := by simp [hq]
  rw [hget]
  simp only []
  have hsplit : i = 8 * (i / 8) + i % 8 := by omega
  have h256 : (2 : Nat) ^ (8 * (i / 8)) = 256 ^ (i / 8) := by
    rw [show (256 : Nat) = 2 ^ 8 from rfl, ← Nat.pow_mul]
  have hd : Lzw.streamNat l / 2 ^ i = Lzw.streamNat (l.drop (i / 8)) / 2 ^ (i % 8) := by
    conv => lhs; rw [hsplit, Nat.pow_add, ← Nat.div_div_eq_div_mul, h256, Lzw.streamNat_drop]
  rw [hd]
  have hdrop : l.drop (i / 8) = l[i / 8]'hq :: l.drop (i / 8 + 1) := by
    rw [List.drop_eq_getElem_cons hq]
  rw [hdrop]
  simp only [Lzw.streamNat]
  generalize (l[i / 8]'hq).toNat = b
  generalize Lzw.streamNat (l.drop (i / 8 + 1)) = R
  have hk : i % 8 < 8 := Nat.mod_lt _ (by decide)
  generalize i % 8 = k at hk
  have h8 : (256 : Nat) = 2 ^ k * 2 ^ (8 - k) := by
    have : k + (8 - k) = 8 := by omega
    rw [← Nat.pow_add, this]
  have hpos : 0 < 2 ^ k := Nat.pow_pos (by decide)
  rw [h8, Nat.mul_assoc, Nat.add_mul_div_left _ _ hpos]
  have he : 2 ^ (8 - k) = 2 * 2 ^ (7 - k) := by
    rw [show 8 - k = (7 - k) + 1 by omega, Nat.pow_succ]; omega
  rw [he, Nat.mul_assoc, Nat.add_mul_mod_self_left]

theorem mmBitAt_append (a b : Bytes) (i : Nat) (hi : i < 8 * a.length) :
    mmBitAt (a ++ b).toArray i = mmBitAt a.toArray i := by
  unfold mmBitAt
  have hq : i / 8 < a.length := by omega
  have h1 : (a ++ b).toArray[i / 8]? = some (a[i / 8]'hq) := by
    simp [List.getElem?_append_left hq, hq]
  have h2 : a.toArray[i / 8]? = some (a[i / 8]'hq) := by simp [hq]
  rw [h1, h2]

theorem mmGet_spec (a b : Bytes) : ∀ (n pos : Nat), pos + n ≤ 8 * a.length →
    mmGet (a ++ b).toArray pos n = Lzw.streamNat a / 2 ^ pos % 2 ^ n := by
  intro n
  induction n with
  | zero => intro pos _; simp [mmGet, Nat.mod_one]
  | succ n ih =>
    intro pos h
    rw [mmGet, ih (pos + 1) (by omega), mmBitAt_append a b pos (by omega), mmBitAt_spec a pos (by omega)]
    have : Lzw.streamNat a / 2 ^ (pos + 1) = Lzw.streamNat a / 2 ^ pos / 2 := by
      rw [Nat.pow_succ, Nat.div_div_eq_div_mul]
    rw [this]
    generalize Lzw.streamNat a / 2 ^ pos = Y
    rw [Nat.pow_succ, Nat.mul_comm (2 ^ n) 2, Nat.mod_mul]

/-- reading `n` bits at the position where an `n`-bit value was packed gives the value back -/
theorem mmGet_at (pre post : List Bool) (T : Bytes) (n c : Nat) (hc : c < 2 ^ n) :
    mmGet (Lzw.packBits (pre ++ Lzw.natToBits n c ++ post) ++ T).toArray pre.length n = c := by
  rw [mmGet_spec _ T n pre.length (by
    rw [Lzw.packBits_length]
    simp only [List.length_append, Lzw.natToBits_length]; omega), Lzw.streamNat_packBits]
  exact Lzw.read_at pre post n c hc


theorem mmCode8_length_pos (v : Nat) : 8 ≤ (mmCode8 v).length := by
  unfold mmCode8; split <;> simp [Lzw.natToBits_length]

/-- one symbol of the fixed-width encoder through the code reader of `block_unpack_8bit` (plain code or escape) -/
theorem mmReadCode_code8 (pre post : List Bool) (T : Bytes) (v : Nat) (hv : v < 256) :
    mmReadCode (Lzw.packBits (pre ++ mmCode8 v ++ post) ++ T).toArray mmCmd8 mmFetch8 8 3 0xf8 pre.length 7 =
      (some (some v), pre.length + (mmCode8 v).length, 7) := by
  unfold mmReadCode
  have hc : mmCmd8.getD 7 0 = 248 := by decide
  have hf : mmFetch8.getD 7 0 = 0 := by decide
  by_cases h : v < 0xf8
  · have hcode : mmCode8 v = Lzw.natToBits 8 v := by simp [mmCode8, h]
    rw [hcode]
    have hd := mmGet_at pre post T 8 v (by omega)
    simp only [hd, hc, Lzw.natToBits_length]
    have : ¬ v ≥ 248 := by omega
    simp only [this, if_false]
  · have hcode : mmCode8 v = Lzw.natToBits 8 0xff ++ Lzw.natToBits 3 (v - 0xf8) ++ (if v = 0xff then [false] else []) := by
      simp [mmCode8, h]
    rw [hcode]
    have hd : mmGet (Lzw.packBits (pre ++ (Lzw.natToBits 8 0xff ++ Lzw.natToBits 3 (v - 0xf8) ++
        (if v = 0xff then [false] else [])) ++ post) ++ T).toArray pre.length 8 = 255 := by
      have := mmGet_at pre (Lzw.natToBits 3 (v - 0xf8) ++ (if v = 0xff then [false] else []) ++ post) T 8 255 (by decide)
      simpa [List.append_assoc] using this
    have hd2 : mmGet (Lzw.packBits (pre ++ (Lzw.natToBits 8 0xff ++ Lzw.natToBits 3 (v - 0xf8) ++
        (if v = 0xff then [false] else [])) ++ post) ++ T).toArray (pre.length + 7 + 1 + 0) 3 = v - 248 := by
      have := mmGet_at (pre ++ Lzw.natToBits 8 0xff) ((if v = 0xff then [false] else []) ++ post) T 3 (v - 0xf8) (by omega)
      simp only [List.length_append, Lzw.natToBits_length] at this
      have e : pre.length + 7 + 1 + 0 = pre.length + 8 := by omega
      rw [e]
      simpa [List.append_assoc] using this
    have hb : v = 255 → mmGet (Lzw.packBits (pre ++ (Lzw.natToBits 8 0xff ++ Lzw.natToBits 3 (v - 0xf8) ++
        (if v = 0xff then [false] else [])) ++ post) ++ T).toArray (pre.length + 7 + 1 + 0 + 3) 1 = 0 := by
      intro h255
      subst h255
      have := mmGet_at (pre ++ Lzw.natToBits 8 0xff ++ Lzw.natToBits 3 (255 - 0xf8)) post T 1 0 (by decide)
      simp only [List.length_append, Lzw.natToBits_length] at this
      have e : pre.length + 7 + 1 + 0 + 3 = pre.length + 8 + 3 := by omega
      rw [e]
      have hn : Lzw.natToBits 1 0 = [false] := by decide
      rw [hn] at this
      simpa [List.append_assoc] using this
    have hlen : (Lzw.natToBits 8 0xff ++ Lzw.natToBits 3 (v - 0xf8) ++ (if v = 0xff then [false] else [])).length =
        if v = 255 then 12 else 11 := by
      split <;> simp [Lzw.natToBits_length]
    rw [hlen]
    generalize (Lzw.packBits (pre ++ (Lzw.natToBits 8 0xff ++ Lzw.natToBits 3 (v - 0xf8) ++
        (if v = 0xff then [false] else [])) ++ post) ++ T).toArray = S at hd hd2 hb ⊢
    have hz : ∀ (a : Array UInt8) (q : Nat), mmGet a q 0 = 0 := fun _ _ => rfl
    simp only [hd, hc, hf, ge_iff_le, show (248 : Nat) ≤ 255 by decide, if_true, hz, Nat.zero_add, Nat.pow_zero,
      Nat.mul_one, show (255 - 248 : Nat) = 7 by decide, ne_eq, not_true_eq_false, if_false, hd2]
    by_cases h255 : v = 255
    · have h7 : v - 248 = 2 ^ 3 - 1 := by subst h255; decide
      simp only [h7, if_true, hb h255, show ¬ ((0 : Nat) = 1) by decide, if_false, h255]
    · have hne : ¬ v - 248 = 2 ^ 3 - 1 := by
        have : (2 : Nat) ^ 3 - 1 = 7 := by decide
        rw [this]; omega
      simp only [hne, if_false, h255]
      have e1 : 248 + (v - 248) = v := by omega
      have e2 : pre.length + 7 + 1 + 0 + 3 = pre.length + 11 := by omega
      rw [e1, e2]


/-! ## the value layer: delta predictor, sub-blocks, output buffer -/

def mmScatter (L : Bytes) (subs : List (Nat × Bytes)) : Bytes := subs.foldl (fun o x => mmWriteAt o x.1 x.2) L

def mmDesc (x : Nat × Bytes) : Nat × Nat := (x.1, x.2.length)

theorem mmWriteAt_length (L : Bytes) (q : Nat) (d : Bytes) (h : q + d.length ≤ L.length) :
    (mmWriteAt L q d).length = L.length := by
  unfold mmWriteAt
  simp only [List.length_append, List.length_take, List.length_drop]; omega

theorem mmWriteAt_cons (L : Bytes) (q : Nat) (b : UInt8) (r : Bytes) (h : q + 1 + r.length ≤ L.length) :
    mmWriteAt (L.set q b) (q + 1) r = mmWriteAt L q (b :: r) := by
  have hq : q < L.length := by omega
  have hL : L = L.take q ++ (L[q] :: L.drop (q + 1)) := by
    rw [List.getElem_cons_drop, List.take_append_drop]
  generalize hA : L.take q = A at hL
  have hAl : A.length = q := by rw [← hA, List.length_take]; omega
  generalize L[q] = x at hL
  generalize L.drop (q + 1) = B at hL
  subst hL
  have hset : (A ++ x :: B).set q b = A ++ b :: B := by
    rw [List.set_append]; simp [hAl]
  rw [hset]
  unfold mmWriteAt
  have t1 : (A ++ b :: B).take (q + 1) = A ++ [b] := by
    rw [List.take_append, List.take_of_length_le (by omega)]; simp [hAl]
  have t2 : (A ++ b :: B).drop (q + 1 + r.length) = B.drop r.length := by
    rw [List.drop_append, List.drop_of_length_le (by omega)]
    have : q + 1 + r.length - A.length = r.length + 1 := by omega
    rw [this]; simp
  have t3 : (A ++ x :: B).take q = A := by rw [List.take_left' hAl]
  have t4 : (A ++ x :: B).drop (q + (b :: r).length) = B.drop r.length := by
    rw [List.drop_append, List.drop_of_length_le (by omega)]
    have : q + (b :: r).length - A.length = r.length + 1 := by simp; omega
    rw [this]; simp
  rw [t1, t2, t3, t4]; simp

theorem mmWriteAt_nil (L : Bytes) (q : Nat) : mmWriteAt L q [] = L := by
  unfold mmWriteAt; simp

theorem mmIdentity_get (v : Nat) (hv : v < 256) : (mmIdentity.toArray[v]?.getD 0).toNat = v := by
  have : mmIdentity.toArray[v]? = some (UInt8.ofNat v) := by
    simp [mmIdentity, hv]
  rw [this]; simp [UInt8.toNat_ofNat']; omega

theorem mmSym_lt (delta : Bool) (prev : Nat) (b : UInt8) :
    (if delta then (b.toNat + 256 - prev) % 256 else b.toNat) < 256 := by
  have := b.toNat_lt
  split <;> omega


theorem getD_mid {α : Type} (done : List α) (x : α) (rest : List α) (d : α) :
    (done ++ x :: rest).getD done.length d = x := by
  simp [List.getD_eq_getElem?_getD]

theorem getD_mid1 {α : Type} (done : List α) (x y : α) (rest : List α) (d : α) :
    (done ++ x :: y :: rest).getD (done.length + 1) d = y := by
  have : (done ++ x :: y :: rest) = (done ++ [x]) ++ y :: rest := by simp
  rw [this]
  have h := getD_mid (done ++ [x]) y rest d
  simpa using h

theorem mmSyms_cons (delta : Bool) (prev : Nat) (b : UInt8) (r : Bytes) :
    mmSyms delta prev (b :: r) = (if delta then (b.toNat + 256 - prev) % 256 else b.toNat) :: mmSyms delta b.toNat r := rfl

/-- one iteration of `block_unpack_8bit` that reads a value -/
theorem mmLoop8_step (S ptable : Array UInt8) (delta : Bool) (subs : List (Nat × Nat)) (f : Nat)
    (pos j p ov opos : Nat) (out : Array UInt8) (sym pos' : Nat) (b : UInt8)
    (hrc : mmReadCode S mmCmd8 mmFetch8 8 3 0xf8 pos 7 = (some (some sym), pos', 7))
    (hn : (if delta = true then ((ptable[sym]?.getD 0).toNat + ov) % 256 else (ptable[sym]?.getD 0).toNat) = b.toNat)
    (hq : opos < out.size) :
    mmLoop8 S ptable delta subs (f + 1) ⟨pos, 7, j, p, ov, opos, out⟩ =
      match mmNextSub subs ⟨pos', 7, j, p + 1, if delta = true then b.toNat else ov, opos + 1, out.set! opos b⟩ with
      | none => none
      | some (st, true) => some st.out
      | some (st, false) => mmLoop8 S ptable delta subs f st := by
  rw [mmLoop8]
  have hq' : ¬ opos ≥ out.size := by omega
  simp only [hrc, mmPut8, hn, mmWrite8, hq', if_false, UInt8.ofNat_toNat]
  generalize mmNextSub subs _ = x
  rcases x with _ | ⟨st, _ | _⟩ <;> rfl

theorem mmNextSub_stay (done : List (Nat × Nat)) (d : Nat × Nat) (rest : List (Nat × Nat)) (st : MmSt)
    (hj : st.j = done.length) (hp : st.p < d.2) : mmNextSub (done ++ d :: rest) st = some (st, false) := by
  unfold mmNextSub
  rw [hj, getD_mid]
  have : ¬ st.p ≥ d.2 := by omega
  simp only [this, if_false]

theorem mmNextSub_last (done : List (Nat × Nat)) (d : Nat × Nat) (st : MmSt)
    (hj : st.j = done.length) (hp : d.2 ≤ st.p) : mmNextSub (done ++ [d]) st = some (st, true) := by
  unfold mmNextSub
  rw [hj, getD_mid]
  have h1 : st.p ≥ d.2 := hp
  have h2 : done.length + 1 ≥ (done ++ [d]).length := by simp
  simp only [h1, h2, if_true]

theorem mmNextSub_next (done : List (Nat × Nat)) (d e : Nat × Nat) (rest : List (Nat × Nat)) (st : MmSt)
    (hj : st.j = done.length) (hp : d.2 ≤ st.p) (he : e.1 < st.out.size) :
    mmNextSub (done ++ d :: e :: rest) st = some ({ st with j := done.length + 1, p := 0, opos := e.1 }, false) := by
  unfold mmNextSub
  rw [hj, getD_mid, getD_mid1]
  have h1 : st.p ≥ d.2 := hp
  have h2 : ¬ done.length + 1 ≥ (done ++ d :: e :: rest).length := by simp
  have h3 : ¬ e.1 ≥ st.out.size := by omega
  simp only [h1, h2, h3, if_true, if_false]

/-- **the 8-bit block decoder on the encoder's stream**: every sub-block is filled with its bytes, the delta predictor
    runs through the whole block (it is *not* reset at sub-block borders), the block ends with its last sub-block -/
theorem mmLoop8_run (delta : Bool) (allbits : List Bool) (T : Bytes) (S : Array UInt8)
    (hS : S = (Lzw.packBits allbits ++ T).toArray) :
    ∀ (next : List (Nat × Bytes)) (done : List (Nat × Nat)) (cur : Bytes) (posj sz p prev ov opos : Nat)
      (pre post : List Bool) (L : Bytes) (out : Array UInt8) (fuel : Nat),
    cur ≠ [] →
    allbits = pre ++ (mmSyms delta prev (cur ++ (next.map (·.2)).flatten)).flatMap mmCode8 ++ post →
    out.toList = L → sz = p + cur.length → opos + cur.length ≤ L.length →
    (∀ x ∈ next, x.2 ≠ [] ∧ x.1 + x.2.length ≤ L.length) →
    prev < 256 → (delta = true → ov = prev) →
    cur.length + ((next.map (·.2)).flatten).length ≤ fuel →
    (mmLoop8 S mmIdentity.toArray delta (done ++ (posj, sz) :: next.map mmDesc) fuel
        ⟨pre.length, 7, done.length, p, ov, opos, out⟩).map (·.toList) =
      some (mmScatter (mmWriteAt L opos cur) next) := by
  -- the common part of every iteration: the code reader and the value
  have hcommon : ∀ (b : UInt8) (prev ov : Nat) (pre rest : List Bool), prev < 256 → (delta = true → ov = prev) →
      allbits = pre ++ mmCode8 (if delta then (b.toNat + 256 - prev) % 256 else b.toNat) ++ rest →
      ∃ sym, sym = (if delta then (b.toNat + 256 - prev) % 256 else b.toNat) ∧
        mmReadCode S mmCmd8 mmFetch8 8 3 0xf8 pre.length 7 = (some (some sym), (pre ++ mmCode8 sym).length, 7) ∧
        (if delta = true then ((mmIdentity.toArray[sym]?.getD 0).toNat + ov) % 256
          else (mmIdentity.toArray[sym]?.getD 0).toNat) = b.toNat := by
    intro b prev ov pre rest hprev hov hbits
    have hsymlt := mmSym_lt delta prev b
    generalize hsym : (if delta then (b.toNat + 256 - prev) % 256 else b.toNat) = sym at hsymlt hbits
    refine ⟨sym, rfl, ?_, ?_⟩
    · have hrc := mmReadCode_code8 pre rest T sym hsymlt
      rw [← hbits, ← hS] at hrc
      rw [hrc, List.length_append]
    · rw [mmIdentity_get sym hsymlt, ← hsym]
      have := b.toNat_lt
      cases delta with
      | false => simp
      | true => simp only [if_true]; rw [hov rfl]; omega
  intro next
  induction next with
  | nil =>
    intro done cur
    induction cur with
    | nil => intro _ _ _ _ _ _ _ _ _ _ _ h; exact absurd rfl h
    | cons b r ih =>
      intro posj sz p prev ov opos pre post L out fuel _ hbits hout hszd hfit _ hprev hov hfuel
      obtain ⟨f, rfl⟩ : ∃ f, fuel = f + 1 := ⟨fuel - 1, by simp at hfuel; omega⟩
      obtain ⟨sym, hsym, hrc, hn⟩ := hcommon b prev ov pre
        ((mmSyms delta b.toNat (r ++ [])).flatMap mmCode8 ++ post) hprev hov
        (by rw [hbits]; simp [mmSyms_cons, List.append_assoc])
      have hsz : out.size = L.length := by rw [← hout]; simp
      have hq : opos < out.size := by simp at hfit; omega
      rw [List.map_nil, mmLoop8_step S _ delta _ f pre.length done.length p ov opos out sym _ b hrc hn hq]
      by_cases hr : r = []
      · subst hr
        rw [mmNextSub_last done (posj, sz) _ rfl (by simp at hszd ⊢; omega)]
        simp only [Option.map_some, mmScatter, List.foldl_nil]
        rw [Array.set!, Array.toList_setIfInBounds, hout, ← mmWriteAt_cons L opos b [] (by simpa using hfit),
          mmWriteAt_nil]
      · have hrl : 0 < r.length := List.length_pos_iff.mpr hr
        rw [mmNextSub_stay done (posj, sz) [] _ rfl (by simp at hszd ⊢; omega)]
        simp only []
        have := ih posj sz (p + 1) b.toNat (if delta = true then b.toNat else ov) (opos + 1) (pre ++ mmCode8 sym) post
          (L.set opos b) (out.set! opos b) f hr
          (by rw [hbits, hsym]; simp [mmSyms_cons, List.append_assoc])
          (by rw [Array.set!, Array.toList_setIfInBounds, hout])
          (by simp at hszd; omega)
          (by simp at hfit ⊢; omega) (by simp) b.toNat_lt (by intro h; simp [h]) (by simp at hfuel ⊢; omega)
        rw [List.map_nil] at this
        rw [this, mmWriteAt_cons L opos b r (by simp at hfit; omega)]
  | cons nx next ihn =>
    intro done cur
    induction cur with
    | nil => intro _ _ _ _ _ _ _ _ _ _ _ h; exact absurd rfl h
    | cons b r ih =>
      intro posj sz p prev ov opos pre post L out fuel _ hbits hout hszd hfit hnext hprev hov hfuel
      obtain ⟨f, rfl⟩ : ∃ f, fuel = f + 1 := ⟨fuel - 1, by simp at hfuel; omega⟩
      obtain ⟨sym, hsym, hrc, hn⟩ := hcommon b prev ov pre
        ((mmSyms delta b.toNat (r ++ ((nx :: next).map (·.2)).flatten)).flatMap mmCode8 ++ post) hprev hov
        (by rw [hbits]; simp [mmSyms_cons, List.append_assoc])
      have hsz : out.size = L.length := by rw [← hout]; simp
      have hq : opos < out.size := by simp at hfit; omega
      rw [mmLoop8_step S _ delta _ f pre.length done.length p ov opos out sym _ b hrc hn hq]
      by_cases hr : r = []
      · subst hr
        obtain ⟨hnx1, hnx2⟩ := hnext nx (by simp)
        have hnxl : 0 < nx.2.length := List.length_pos_iff.mpr hnx1
        rw [List.map_cons, mmNextSub_next done (posj, sz) (mmDesc nx) _ _ rfl (by simp at hszd ⊢; omega)
          (by simp [mmDesc, hsz]; omega)]
        simp only []
        have hdesc : done ++ (posj, sz) :: mmDesc nx :: List.map mmDesc next =
            (done ++ [(posj, sz)]) ++ (nx.1, nx.2.length) :: List.map mmDesc next := by
          simp [mmDesc]
        rw [hdesc]
        have := ihn (done ++ [(posj, sz)]) nx.2 nx.1 nx.2.length 0 b.toNat (if delta = true then b.toNat else ov)
          nx.1 (pre ++ mmCode8 sym) post (L.set opos b) (out.set! opos b) f hnx1
          (by rw [hbits, hsym]; simp [mmSyms_cons, List.append_assoc])
          (by rw [Array.set!, Array.toList_setIfInBounds, hout])
          (by omega)
          (by simp; omega) (by intro x hx; simpa using hnext x (by simp [hx])) b.toNat_lt (by intro h; simp [h])
          (by simp at hfuel ⊢; omega)
        simp only [List.length_append, List.length_cons, List.length_nil, Nat.zero_add, mmDesc] at this ⊢
        rw [this]
        simp only [mmScatter, List.foldl_cons]
        rw [← mmWriteAt_cons L opos b [] (by simpa using hfit), mmWriteAt_nil]
      · have hrl : 0 < r.length := List.length_pos_iff.mpr hr
        rw [mmNextSub_stay done (posj, sz) _ _ rfl (by simp at hszd ⊢; omega)]
        simp only []
        have := ih posj sz (p + 1) b.toNat (if delta = true then b.toNat else ov) (opos + 1) (pre ++ mmCode8 sym) post
          (L.set opos b) (out.set! opos b) f hr
          (by rw [hbits, hsym]; simp [mmSyms_cons, List.append_assoc])
          (by rw [Array.set!, Array.toList_setIfInBounds, hout])
          (by simp at hszd; omega)
          (by simp at hfit ⊢; omega) (by intro x hx; simpa using hnext x hx) b.toNat_lt (by intro h; simp [h])
          (by simp at hfuel ⊢; omega)
        rw [this, mmWriteAt_cons L opos b r (by simp at hfit; omega)]

theorem mmIdentity_length : mmIdentity.length = 256 := by simp [mmIdentity]

theorem mmScatter_nil (L : Bytes) : mmScatter L [] = L := rfl

theorem mmDesc_sum (rest : List (Nat × Bytes)) :
    ((rest.map (·.2)).flatten).length = ((rest.map mmDesc).map (·.2)).sum := by
  induction rest with
  | nil => rfl
  | cons a r ih =>
    simp only [List.map_cons, List.flatten_cons, List.length_append, List.sum_cons, ih, mmDesc]

/-- **`block_unpack_8bit` inverts the fixed-width encoder** (with or without the DELTA flag, any number of sub-blocks
    anywhere in the output buffer, anything after the packed data): every sub-block receives its bytes. -/
theorem mmDec_encode8 (delta : Bool) (subs : List (Nat × Bytes)) (T out : Bytes) (hne : subs ≠ [])
    (hok : ∀ x ∈ subs, x.2 ≠ [] ∧ x.1 + x.2.length ≤ out.length) :
    mmDec (mmFlagComp + (if delta then mmFlagDelta else 0)) 7 256 (subs.map mmDesc)
      (mmEncode8 delta (subs.map (·.2)).flatten ++ T) out = some (mmScatter out subs) := by
  cases subs with
  | nil => exact absurd rfl hne
  | cons s0 rest =>
    obtain ⟨h01, h02⟩ := hok s0 (by simp)
    have hl0 : 0 < s0.2.length := List.length_pos_iff.mpr h01
    have hdata : ((s0 :: rest).map (·.2)).flatten = s0.2 ++ (rest.map (·.2)).flatten := by simp
    rw [hdata]
    unfold mmDec
    have hd : ((mmFlagComp + (if delta then mmFlagDelta else 0)) / mmFlagDelta % 2 = 1) = (delta = true) := by
      cases delta <;> decide
    have h16 : ¬ (mmFlagComp + (if delta then mmFlagDelta else 0)) / mmFlag16Bit % 2 = 1 := by
      cases delta <;> decide
    have htake : (mmEncode8 delta (s0.2 ++ (rest.map (·.2)).flatten) ++ T).take 256 = mmIdentity := by
      unfold mmEncode8
      rw [List.append_assoc, List.take_left' mmIdentity_length]
    have hdrop : (mmEncode8 delta (s0.2 ++ (rest.map (·.2)).flatten) ++ T).drop 256 =
        Lzw.packBits ((mmSyms delta 0 (s0.2 ++ (rest.map (·.2)).flatten)).flatMap mmCode8) ++ T := by
      unfold mmEncode8
      rw [List.append_assoc, List.drop_left' mmIdentity_length]
    rw [List.map_cons]
    simp only [h16, if_false, htake, hdrop, mmIdentity_length, Nat.lt_irrefl,
      show ¬ (mmDesc s0).1 ≥ out.length by simp only [mmDesc]; omega, Nat.sub_self, List.replicate_zero,
      List.append_nil, hd]
    generalize hfuel : 8 * (mmEncode8 delta (s0.2 ++ (rest.map (·.2)).flatten) ++ T).length +
        (List.map (fun x => x.2) (mmDesc s0 :: List.map mmDesc rest)).sum + 64 = fuel
    have hrun := mmLoop8_run delta ((mmSyms delta 0 (s0.2 ++ (rest.map (·.2)).flatten)).flatMap mmCode8) T _ rfl
      rest [] s0.2 s0.1 s0.2.length 0 0 0 s0.1 [] [] out out.toArray fuel
      h01 (by simp) (by simp) (by omega) h02 (by intro x hx; exact hok x (by simp [hx])) (by decide)
      (by intro _; rfl)
      (by
        rw [← hfuel, mmDesc_sum rest, List.map_cons, List.sum_cons]
        simp only [mmDesc]
        omega)
    simp only [List.length_nil, List.nil_append] at hrun
    rw [show (decide (delta = true)) = delta by cases delta <;> rfl]
    have h7 : 7 % 256 = 7 := by decide
    rw [h7]
    simp only [mmDesc] at hrun ⊢
    rw [hrun]
    simp [mmScatter]

/-! ## files with packed blocks: `decrunchMmcmp mmDec` on `mmcmpWrapK` -/

/-- sub-blocks of a block laid out one after the other from `pos` -/
def mmSubPairs : Nat → List Bytes → List (Nat × Bytes)
  | _, [] => []
  | pos, d :: ds => (pos, d) :: mmSubPairs (pos + d.length) ds

theorem mmSubPairs_desc (ds : List Bytes) : ∀ pos, (mmSubPairs pos ds).map mmDesc = mmSubSpec pos ds := by
  induction ds with
  | nil => intro _; rfl
  | cons d ds ih => intro pos; simp only [mmSubPairs, List.map_cons, mmSubSpec, ih, mmDesc]

theorem mmSubPairs_data (ds : List Bytes) : ∀ pos, (mmSubPairs pos ds).map (·.2) = ds := by
  induction ds with
  | nil => intro _; rfl
  | cons d ds ih => intro pos; simp only [mmSubPairs, List.map_cons, ih]

theorem mmSubPairs_ok (ds : List Bytes) (hne : ∀ d ∈ ds, d ≠ []) (N : Nat) : ∀ pos, pos + ds.flatten.length ≤ N →
    ∀ x ∈ mmSubPairs pos ds, x.2 ≠ [] ∧ x.1 + x.2.length ≤ N := by
  induction ds with
  | nil => intro _ _ x hx; simp [mmSubPairs] at hx
  | cons d ds ih =>
    intro pos hN x hx
    simp only [List.flatten_cons, List.length_append] at hN
    simp only [mmSubPairs, List.mem_cons] at hx
    rcases hx with rfl | hx
    · exact ⟨hne d (by simp), by simp only []; omega⟩
    · exact ih (fun y hy => hne y (by simp [hy])) (pos + d.length) (by omega) x hx

theorem mmScatter_zeros (ds : List Bytes) : ∀ (before : Bytes) (k : Nat),
    mmScatter (before ++ List.replicate (ds.flatten.length + k) 0) (mmSubPairs before.length ds) =
      (before ++ ds.flatten) ++ List.replicate k 0 := by
  induction ds with
  | nil => intro before k; simp [mmSubPairs, mmScatter]
  | cons d ds ih =>
    intro before k
    simp only [mmSubPairs, mmScatter, List.foldl_cons, List.flatten_cons, List.length_append]
    have hre : d.length + ds.flatten.length + k = d.length + (ds.flatten.length + k) := by omega
    rw [hre, mmWriteAt_zeros before d (ds.flatten.length + k)]
    have := ih (before ++ d) k
    simp only [List.length_append, mmScatter] at this
    rw [this]; simp only [List.append_assoc]

/-- a packed block whose sub-blocks follow each other in the zero-filled buffer -/
theorem mmDec_block (delta : Bool) (b : List Bytes) (before T : Bytes) (k : Nat) (hne : b ≠ [])
    (hs : ∀ d ∈ b, d ≠ []) :
    mmDec (mmFlagsK (some delta)) 7 256 (mmSubSpec before.length b) (mmEncode8 delta b.flatten ++ T)
      (before ++ List.replicate (b.flatten.length + k) 0) = some ((before ++ b.flatten) ++ List.replicate k 0) := by
  have h := mmDec_encode8 delta (mmSubPairs before.length b) T (before ++ List.replicate (b.flatten.length + k) 0)
    (by cases b with
        | nil => exact absurd rfl hne
        | cons d ds => simp [mmSubPairs])
    (mmSubPairs_ok b hs _ before.length (by simp))
  rw [mmSubPairs_desc, mmSubPairs_data, mmScatter_zeros] at h
  exact h

theorem mmEncode8_length_gt (delta : Bool) (data : Bytes) (h : data ≠ []) : 256 < (mmEncode8 delta data).length := by
  cases data with
  | nil => exact absurd rfl h
  | cons b r =>
    unfold mmEncode8
    rw [List.length_append, mmIdentity_length, Lzw.packBits_length, mmSyms_cons, List.flatMap_cons, List.length_append]
    have := mmCode8_length_pos (if delta then (b.toNat + 256 - 0) % 256 else b.toNat)
    omega

theorem mmBlockBytesK_length (kind : Option Bool) (pos : Nat) (b : List Bytes) :
    (mmBlockBytesK kind pos b).length = 20 + 8 * b.length + (mmPayloadK kind b.flatten).length := by
  unfold mmBlockBytesK
  simp only [List.length_append, le32_length, le16_length, mmSubTable_length]

structure BlockOkK (kind : Option Bool) (pos : Nat) (b : List Bytes) : Prop where
  base : BlockOk pos b
  packed : (mmPayloadK kind b.flatten).length < 2 ^ 31

/-- one block of either kind: header tests pass, the sub-block table is read back, the data lands in the output -/
theorem mmBlockK_step (f : Bytes) (kind : Option Bool)
    (bo : Nat) (b : List Bytes) (before T : Bytes) (k : Nat) (rest : List Nat)
    (h : f.drop bo = mmBlockBytesK kind before.length b ++ T) (hokK : BlockOkK kind before.length b) :
    mmBlocks mmDec f (bo :: rest) (b.flatten.length + k) (before ++ List.replicate (b.flatten.length + k) 0) =
      mmBlocks mmDec f rest k ((before ++ b.flatten) ++ List.replicate k 0) := by
  have hok := hokK.base
  have hfl := flatten_pos b hok.ne hok.subsNe
  have hfne : b.flatten ≠ [] := List.length_pos_iff.mp hfl
  have hbl : 0 < b.length := List.length_pos_iff.mpr hok.ne
  generalize hPK : mmPayloadK kind b.flatten = PK at h
  have hpk31 : PK.length < 2 ^ 31 := by rw [← hPK]; exact hokK.packed
  have hfl16 : mmFlagsK kind < 65536 := by
    rcases kind with _ | _ | _ <;> decide
  have htt16 : mmTtK kind < 65536 := by
    rcases kind with _ | _ <;> simp [mmTtK]
  have hbi16 : mmBitsK kind < 65536 := by
    rcases kind with _ | _ <;> simp [mmBitsK]
  have h' : f.drop bo = le32 b.flatten.length ++ (le32 PK.length ++ (le32 0 ++ (le16 b.length ++ (le16 (mmFlagsK kind) ++
      (le16 (mmTtK kind) ++ (le16 (mmBitsK kind) ++ (mmSubTable before.length b ++ (PK ++ T)))))))) := by
    rw [h]; unfold mmBlockBytesK; simp only [List.append_assoc, hPK]
  have hflen : ¬ f.length < bo + 20 := by
    have := congrArg List.length h'
    simp only [List.length_drop, List.length_append, le32_length, le16_length] at this
    omega
  have e0 : u32At f bo = b.flatten.length := by
    have := u32At_drop' f bo 0
    rw [Nat.add_zero] at this
    rw [this, h']; exact u32At_le32 _ (by have := hok.size; omega) _
  have e4 : u32At f (bo + 4) = PK.length := by
    rw [u32At_drop', h']; simp only [u32At_s32]; exact u32At_le32 _ (by omega) _
  have e12 : u16At f (bo + 12) = b.length := by
    rw [u16At_drop', h']; simp only [u16At_s32]; exact u16At_le16 _ hok.count _
  have e14 : u16At f (bo + 14) = mmFlagsK kind := by
    rw [u16At_drop', h']; simp only [u16At_s32, u16At_s16]; exact u16At_le16 _ hfl16 _
  have e16 : u16At f (bo + 16) = mmTtK kind := by
    rw [u16At_drop', h']; simp only [u16At_s32, u16At_s16]; exact u16At_le16 _ htt16 _
  have e18 : u16At f (bo + 18) = mmBitsK kind := by
    rw [u16At_drop', h']; simp only [u16At_s32, u16At_s16]; exact u16At_le16 _ hbi16 _
  have hsubs : f.drop (bo + 20) = mmSubTable before.length b ++ (PK ++ T) := by
    rw [← List.drop_drop, h']
    have : (le32 b.flatten.length ++ (le32 PK.length ++ (le32 0 ++ (le16 b.length ++ (le16 (mmFlagsK kind) ++
        (le16 (mmTtK kind) ++ (le16 (mmBitsK kind) ++ (mmSubTable before.length b ++ (PK ++ T))))))))) =
        (le32 b.flatten.length ++ le32 PK.length ++ le32 0 ++ le16 b.length ++ le16 (mmFlagsK kind) ++
          le16 (mmTtK kind) ++ le16 (mmBitsK kind)) ++
        (mmSubTable before.length b ++ (PK ++ T)) := by simp only [List.append_assoc]
    rw [this, List.drop_left' (by simp only [List.length_append, le32_length, le16_length])]
  have hstream : f.drop (bo + 20 + 8 * b.length) = PK ++ T := by
    rw [← List.drop_drop, hsubs, List.drop_left' (mmSubTable_length b before.length)]
  have hpkpos : mmTtK kind < PK.length := by
    rw [← hPK]
    rcases kind with _ | delta
    · simpa [mmTtK, mmPayloadK] using hfl
    · simpa [mmTtK, mmPayloadK] using mmEncode8_length_gt delta b.flatten hfne
  rw [mmBlocks]
  simp only [hflen, if_false, e0, e4, e12, e14, e16, e18]
  have c1 : ¬ (b.flatten.length = 0 ∨ b.flatten.length ≥ 2 ^ 31 ∨ PK.length = 0 ∨ PK.length ≥ 2 ^ 31) := by
    have := hok.size; omega
  have c2 : ¬ PK.length ≤ mmTtK kind := by omega
  have c3 : ¬ b.length = 0 := by omega
  have c4 : ¬ (mmFlagsK kind % 2 = 1 ∧ ((mmFlagsK kind / 4 % 2 = 1 ∧ mmBitsK kind ≥ 16) ∨
      (mmFlagsK kind / 4 % 2 = 0 ∧ mmBitsK kind ≥ 8))) := by
    rcases kind with _ | _ | _ <;> decide
  simp only [c1, c2, c3, c4, if_false, mmSubs_spec f b before.length (bo + 20) _ k hsubs hok.subs, hstream]
  rcases kind with _ | delta
  · have hz : mmFlagsK none % 2 = 0 := by decide
    simp only [hz, if_true]
    rw [← hPK]
    simp only [mmPayloadK]
    rw [mmBlockCopy_spec b before T k hok.subsNe]
  · have hz : ¬ mmFlagsK (some delta) % 2 = 0 := by cases delta <;> decide
    simp only [hz, if_false]
    rw [← hPK]
    simp only [mmPayloadK, mmTtK, mmBitsK]
    rw [mmDec_block delta b before T k hok.ne hok.subsNe]

def BlocksOkK : Nat → List (Option Bool × List Bytes) → Prop
  | _, [] => True
  | pos, b :: bs => BlockOkK b.1 pos b.2 ∧ BlocksOkK (pos + b.2.flatten.length) bs

theorem mmBlocksK_walk (f : Bytes) (blocks : List (Option Bool × List Bytes)) : ∀ (ofs : Nat) (before T : Bytes),
    f.drop ofs = mmBodyK before.length blocks ++ T → BlocksOkK before.length blocks →
    mmBlocks mmDec f (mmOffsetsK ofs before.length blocks) ((blocks.map (fun b => b.2.flatten)).flatten.length)
      (before ++ List.replicate ((blocks.map (fun b => b.2.flatten)).flatten.length) 0) =
      some (before ++ (blocks.map (fun b => b.2.flatten)).flatten) := by
  induction blocks with
  | nil => intro ofs before T _ _; simp [mmOffsetsK, mmBlocks]
  | cons b bs ih =>
    intro ofs before T h hok
    obtain ⟨hb, hbs⟩ := hok
    simp only [mmBodyK, List.append_assoc] at h
    simp only [mmOffsetsK, List.map_cons, List.flatten_cons, List.length_append]
    rw [mmBlockK_step f b.1 ofs b.2 before _ _ _ h hb]
    have h2 : f.drop (ofs + (mmBlockBytesK b.1 before.length b.2).length) =
        mmBodyK (before ++ b.2.flatten).length bs ++ T := by
      rw [← List.drop_drop, h, List.drop_left, List.length_append]
    have := ih (ofs + (mmBlockBytesK b.1 before.length b.2).length) (before ++ b.2.flatten) T h2
      (by rw [List.length_append]; exact hbs)
    rw [List.length_append] at this
    rw [this, List.append_assoc]

theorem mmOffsetsK_length (blocks : List (Option Bool × List Bytes)) :
    ∀ ofs pos, (mmOffsetsK ofs pos blocks).length = blocks.length := by
  induction blocks with
  | nil => intro _ _; rfl
  | cons b bs ih => intro ofs pos; simp [mmOffsetsK, ih]

theorem mmOffsetsK_lt (blocks : List (Option Bool × List Bytes)) : ∀ ofs pos, ∀ o ∈ mmOffsetsK ofs pos blocks,
    o < ofs + (mmBodyK pos blocks).length + 1 := by
  induction blocks with
  | nil => intro _ _ o ho; simp [mmOffsetsK] at ho
  | cons b bs ih =>
    intro ofs pos o ho
    simp only [mmOffsetsK, List.mem_cons] at ho
    simp only [mmBodyK, List.length_append]
    rcases ho with h | h
    · omega
    · have := ih _ _ o h
      omega

/-- **MMCMP framing, stored and packed blocks**: the model of `decrunch_mmcmp` with the modelled `block_unpack_8bit`
    returns the payload of every file written by `mmcmpWrapK`, for any split into blocks and sub-blocks and any choice
    stored / packed / packed+DELTA per block -/
theorem decrunchMmcmp_wrapK (blocks : List (Option Bool × List Bytes)) (hne : blocks ≠ []) (hcount : blocks.length < 65536)
    (hok : BlocksOkK 0 blocks)
    (h16 : 16 ≤ ((blocks.map (fun b => b.2.flatten)).flatten).length)
    (hlim : ((blocks.map (fun b => b.2.flatten)).flatten).length ≤ depackLimit)
    (hsz : 24 + (mmBodyK 0 blocks).length < 2 ^ 32) :
    decrunchMmcmp mmDec (mmcmpWrapK blocks) = some ((blocks.map (fun b => b.2.flatten)).flatten) := by
  generalize hP : (blocks.map (fun b => b.2.flatten)).flatten = P at *
  generalize hB : mmBodyK 0 blocks = body at *
  have hfile : mmcmpWrapK blocks =
      (([0x7a, 0x69, 0x52, 0x43, 0x4f, 0x4e, 0x69, 0x61] : Bytes) ++ (le16 14 ++ (le16 0x1300 ++ (le16 blocks.length ++
        (le32 P.length ++ (le32 (24 + body.length) ++ ([0, 0] : Bytes))))))) ++
      (body ++ (mmOffsetsK 24 0 blocks).flatMap le32) := by
    unfold mmcmpWrapK
    simp only [hP, hB, List.append_assoc]
  generalize hH : (([0x7a, 0x69, 0x52, 0x43, 0x4f, 0x4e, 0x69, 0x61] : Bytes) ++ (le16 14 ++ (le16 0x1300 ++
      (le16 blocks.length ++ (le32 P.length ++ (le32 (24 + body.length) ++ ([0, 0] : Bytes))))))) = H at hfile
  have hHl : H.length = 24 := by
    rw [← hH]; simp only [List.length_append, le16_length, le32_length]; rfl
  generalize hF : mmcmpWrapK blocks = F at *
  have hFl : F.length = 24 + body.length + 4 * blocks.length := by
    rw [hfile]
    have : ∀ l : List Nat, (l.flatMap le32).length = 4 * l.length := by
      intro l; induction l with
      | nil => rfl
      | cons x xs ih => simp only [List.flatMap_cons, List.length_append, le32_length, ih, List.length_cons]; omega
    simp only [List.length_append, hHl, this, mmOffsetsK_length]; omega
  have hmagic : memEqAt F 0 [0x7a, 0x69, 0x52, 0x43, 0x4f, 0x4e, 0x69, 0x61] = true := by
    rw [hfile, ← hH]; simp [memEqAt, bAt]
  have e8 : u16At F 8 = 14 := by
    rw [hfile, ← hH]; simp only [List.append_assoc]
    rw [show (8 : Nat) = 0 + 8 from rfl, u16At_skip _ _ 0 8 rfl]
    exact u16At_le16 _ (by decide) _
  have e12 : u16At F 12 = blocks.length := by
    rw [hfile, ← hH]; simp only [List.append_assoc]
    rw [show (12 : Nat) = 4 + 8 from rfl, u16At_skip _ _ 4 8 rfl]
    simp only [u16At_s16]
    exact u16At_le16 _ hcount _
  have e14 : u32At F 14 = P.length := by
    rw [hfile, ← hH]; simp only [List.append_assoc]
    rw [show (14 : Nat) = 6 + 8 from rfl, u32At_skip _ _ 6 8 rfl]
    simp only [u32At_s16]
    exact u32At_le32 _ (by unfold depackLimit at hlim; omega) _
  have e18 : u32At F 18 = 24 + body.length := by
    rw [hfile, ← hH]; simp only [List.append_assoc]
    rw [show (18 : Nat) = 10 + 8 from rfl, u32At_skip _ _ 10 8 rfl]
    simp only [u32At_s16, u32At_s32]
    exact u32At_le32 _ hsz _
  have hbl : 0 < blocks.length := List.length_pos_iff.mpr hne
  unfold decrunchMmcmp
  have c0 : ¬ F.length < 24 := by omega
  have c1 : ¬ (blocks.length = 0 ∨ P.length < 16 ∨ P.length > depackLimit) := by omega
  simp only [c0, hmagic, e8, e12, e14, e18, c1, if_false, Bool.not_true, Bool.false_eq_true, ne_eq, not_true_eq_false]
  have htab : F.drop (24 + body.length) = (mmOffsetsK 24 0 blocks).flatMap le32 ++ [] := by
    rw [hfile, ← List.append_assoc, List.drop_left' (by rw [List.length_append, hHl]), List.append_nil]
  have hofs : ∀ o ∈ mmOffsetsK 24 0 blocks, o < 2 ^ 32 := by
    intro o ho
    have := mmOffsetsK_lt blocks 24 0 o ho
    rw [hB] at this; omega
  have := mmTable_spec F (mmOffsetsK 24 0 blocks) (24 + body.length) [] htab hofs
  rw [mmOffsetsK_length] at this
  rw [this]
  simp only []
  have hbody : F.drop 24 = mmBodyK ([] : Bytes).length blocks ++ (mmOffsetsK 24 0 blocks).flatMap le32 := by
    rw [hfile, List.drop_left' hHl]; simp [hB]
  have hwalk := mmBlocksK_walk F blocks 24 [] _ hbody (by simpa using hok)
  simp only [List.length_nil, List.nil_append, hP] at hwalk
  exact hwalk

end Xmp.Container
