import XmpModel.LinFlow
/-! Helper lemmas for the linear-flow model (C18). -/
namespace Xmp.LinFlow

/-- `L` is divisible by every tempo in `1..255`, so `tick` is exact. -/
theorem L_dvd (b : Nat) (h1 : 1 ≤ b) (h2 : b ≤ 255) : L % b = 0 := by
  have : ∀ b : Fin 256, 1 ≤ b.val → L % b.val = 0 := by decide +kernel
  exact this ⟨b, by omega⟩ h1

end Xmp.LinFlow
