import XmpModel.LinFlow
/-! Helper lemmas for the linear-flow model (C18). -/
namespace Xmp.LinFlow

/-- `L` is divisible by every tempo in `1..255`, so `tick` is exact. -/
theorem L_dvd (b : Nat) (h1 : 1 ≤ b) (h2 : b ≤ 255) : L % b = 0 := by
  have : ∀ b : Fin 256, 1 ≤ b.val → L % b.val = 0 := by decide +kernel
  exact this ⟨b, by omega⟩ h1

/-! ## the player's view of one row -/

/-- speed in force after the row's effect (effects.c `fx_s3m_speed`) -/
def fxSpeed (fx : Fx) (sp : Nat) : Nat :=
  match fx with
  | .speed p => if p = 0 then sp else p
  | _ => sp

/-- tempo in force after the row's effect (effects.c `fx_s3m_bpm`) -/
def fxBpm (fx : Fx) (b : Nat) : Nat :=
  match fx with
  | .tempo t => if t < 20 then 20 else t
  | _ => b

/-- number of ticks the player spends in a row -/
def rowFrames (fx : Fx) (sp : Nat) : Nat := fxSpeed fx sp * (1 + fx.delayOf)

/-- exact time the player spends in consecutive rows, starting with speed `sp`, tempo `b` -/
def rowsTime : List Fx → Nat → Nat → Nat
  | [], _, _ => 0
  | fx :: rest, sp, b =>
    rowFrames fx sp * tick (fxBpm fx b) + rowsTime rest (fxSpeed fx sp) (fxBpm fx b)

def rowsSpeed : List Fx → Nat → Nat
  | [], sp => sp
  | fx :: rest, sp => rowsSpeed rest (fxSpeed fx sp)

def rowsBpm : List Fx → Nat → Nat
  | [], b => b
  | fx :: rest, b => rowsBpm rest (fxBpm fx b)

/-- well-formed effect parameters (the property's vocabulary: speed 1..31, tempo 32..255, delay 0..15) -/
def Fx.WF : Fx → Prop
  | .speed s => 1 ≤ s
  | .tempo t => 20 ≤ t
  | _ => True

def Fx.isJump : Fx → Bool
  | .jump _ => true
  | _ => false

theorem fxSpeed_pos (fx : Fx) (sp : Nat) (h : 1 ≤ sp) (hw : fx.WF) : 1 ≤ fxSpeed fx sp := by
  cases fx <;> simp [fxSpeed, Fx.WF] at * <;> try omega
  split <;> omega

theorem fxBpm_ge (fx : Fx) (b : Nat) (h : 20 ≤ b) : 20 ≤ fxBpm fx b := by
  cases fx <;> simp [fxBpm] <;> try omega
  split <;> omega

/-! ## the scan's accounting of one row -/

/-- body of the row loop after the visit bookkeeping: effect, then `row_count++` -/
def scanStep (fx : Fx) (st : ScanSt) : ScanSt :=
  let st2 := applyFx fx st
  { st2 with rowCount := st2.rowCount + 1 }

theorem scanStep_speed (fx : Fx) (st : ScanSt) : (scanStep fx st).speed = fxSpeed fx st.speed := by
  cases fx <;> simp [scanStep, applyFx, fxSpeed]
  split <;> simp_all

theorem scanStep_bpm (fx : Fx) (st : ScanSt) (hw : fx.WF) : (scanStep fx st).bpm = fxBpm fx st.bpm := by
  cases fx <;> simp [scanStep, applyFx, fxBpm, Fx.WF] at *
  · split <;> simp_all
  · omega

/-- **Accounting identity.** Whatever the row's effect, the scan's bookkeeping
(`row_count`, `frame_count`, `time`) advances the exact row start time by the
time the player spends in the row: `speed' · (1 + delay)` ticks at the tempo in
force after the effect. -/
theorem scanStep_rowStart (fx : Fx) (st : ScanSt) (hw : fx.WF) :
    (scanStep fx st).rowStart = st.rowStart + rowFrames fx st.speed * tick (fxBpm fx st.bpm) := by
  cases fx with
  | none => simp [scanStep, applyFx, ScanSt.rowStart, rowFrames, fxSpeed, fxBpm, Fx.delayOf] <;> grind
  | jump j => simp [scanStep, applyFx, ScanSt.rowStart, rowFrames, fxSpeed, fxBpm, Fx.delayOf] <;> grind
  | delay d => simp [scanStep, applyFx, ScanSt.rowStart, rowFrames, fxSpeed, fxBpm, Fx.delayOf] <;> grind
  | speed s =>
    simp only [Fx.WF] at hw
    have hs : s ≠ 0 := by omega
    simp [scanStep, applyFx, ScanSt.rowStart, rowFrames, fxSpeed, fxBpm, Fx.delayOf, hs] <;> grind
  | tempo t =>
    simp only [Fx.WF] at hw
    have ht : ¬ t < 20 := by omega
    simp [scanStep, applyFx, ScanSt.rowStart, rowFrames, fxSpeed, fxBpm, Fx.delayOf, ht] <;> grind

/-! ## `scan_cnt` -/


theorem getD_set_ne {α} (l : List α) (i j : Nat) (a d : α) (h : i ≠ j) : (l.set i a).getD j d = l.getD j d := by
  simp [List.getD_eq_getElem?_getD, h]

theorem getD_set_eq {α} (l : List α) (i : Nat) (a d : α) (h : i < l.length) : (l.set i a).getD i d = a := by
  simp [List.getD_eq_getElem?_getD, h]

theorem cntAt_cntInc_ne (c : List (List Nat)) (o r o' r' : Nat) (h : ¬ (o' = o ∧ r' = r)) :
    cntAt (cntInc c o r) o' r' = cntAt c o' r' := by
  unfold cntAt cntInc
  by_cases ho : o = o'
  · subst ho
    by_cases hl : o < c.length
    · rw [getD_set_eq _ _ _ _ hl]
      have hr : r ≠ r' := by intro e; exact h ⟨rfl, e.symm⟩
      rw [getD_set_ne _ _ _ _ _ hr]
    · have : c.set o ((c.getD o []).set r (cntAt c o r + 1)) = c := by
        apply List.set_eq_of_length_le; omega
      rw [this]
  · rw [getD_set_ne _ _ _ _ _ ho]

theorem cntAt_cntInc_eq (c : List (List Nat)) (o r : Nat) (ho : o < c.length) (hr : r < (c.getD o []).length) :
    cntAt (cntInc c o r) o r = cntAt c o r + 1 := by
  unfold cntInc
  show ((c.set o _).getD o []).getD r 0 = _
  rw [getD_set_eq _ _ _ _ ho, getD_set_eq _ _ _ _ hr]

theorem cntInc_length (c : List (List Nat)) (o r : Nat) : (cntInc c o r).length = c.length := by
  simp [cntInc]

theorem cntInc_row_length (c : List (List Nat)) (o r o' : Nat) :
    ((cntInc c o r).getD o' []).length = (c.getD o' []).length := by
  unfold cntInc
  by_cases ho : o = o'
  · subst ho
    by_cases hl : o < c.length
    · rw [getD_set_eq _ _ _ _ hl]; simp
    · have : c.set o ((c.getD o []).set r (cntAt c o r + 1)) = c := by
        apply List.set_eq_of_length_le; omega
      rw [this]
  · rw [getD_set_ne _ _ _ _ _ ho]

/-! ## the row loop on fresh rows -/


/-- one iteration of the row loop on a fresh row -/
def visitStep (ord row : Nat) (fx : Fx) (st : ScanSt) : ScanSt :=
  let st1 := { st with cnt := cntInc st.cnt ord row, osv := 0, anyValid := true }
  let st2 := applyFx fx st1
  { st2 with rowCount := st2.rowCount + 1,
             trace := { ord := ord, row := row, speed := st2.speed, bpm := st2.bpm,
                        delay := fx.delayOf, t0 := st.rowStart } :: st2.trace }

theorem clamp_bpm_id (st : ScanSt) (h : 20 ≤ st.bpm) :
    { st with bpm := if st.bpm < 20 then 20 else st.bpm } = st := by
  have : (if st.bpm < 20 then 20 else st.bpm) = st.bpm := by split <;> omega
  rw [this]

theorem scanRows_cons_fresh (ord : Nat) (fx : Fx) (rest : List Fx) (row : Nat) (st : ScanSt)
    (hb : 20 ≤ st.bpm) (hf : cntAt st.cnt ord row = 0) (hj : fx.isJump = false) :
    scanRows ord (fx :: rest) row st = scanRows ord rest (row + 1) (visitStep ord row fx st) := by
  have hc : (if st.bpm < 20 then 20 else st.bpm) = st.bpm := by split <;> omega
  rw [scanRows]
  simp only [hc, hf, ne_eq, not_true_eq_false, if_false]
  cases fx <;> simp [Fx.isJump] at hj <;> (cases st; rfl)

theorem scanRows_cons_jump (ord : Nat) (j : Nat) (rest : List Fx) (row : Nat) (st : ScanSt)
    (hb : 20 ≤ st.bpm) (hf : cntAt st.cnt ord row = 0) :
    scanRows ord (.jump j :: rest) row st = .done (visitStep ord row (.jump j) st) (some j) := by
  have hc : (if st.bpm < 20 then 20 else st.bpm) = st.bpm := by split <;> omega
  rw [scanRows]
  simp only [hc, hf, ne_eq, not_true_eq_false, if_false]
  cases st; rfl

theorem applyFx_cnt (fx : Fx) (st : ScanSt) : (applyFx fx st).cnt = st.cnt := by
  cases fx <;> simp [applyFx] ; split <;> rfl
theorem applyFx_ctl (fx : Fx) (st : ScanSt) : (applyFx fx st).ctl = st.ctl := by
  cases fx <;> simp [applyFx] ; split <;> rfl
theorem applyFx_info (fx : Fx) (st : ScanSt) : (applyFx fx st).info = st.info := by
  cases fx <;> simp [applyFx] ; split <;> rfl
theorem applyFx_startTime (fx : Fx) (st : ScanSt) : (applyFx fx st).startTime = st.startTime := by
  cases fx <;> simp [applyFx] ; split <;> rfl
theorem applyFx_trace (fx : Fx) (st : ScanSt) : (applyFx fx st).trace = st.trace := by
  cases fx <;> simp [applyFx] ; split <;> rfl
theorem applyFx_osv (fx : Fx) (st : ScanSt) : (applyFx fx st).osv = st.osv := by
  cases fx <;> simp [applyFx] ; split <;> rfl
theorem applyFx_anyValid (fx : Fx) (st : ScanSt) : (applyFx fx st).anyValid = st.anyValid := by
  cases fx <;> simp [applyFx] ; split <;> rfl

theorem visitStep_cnt (ord row fx st) : (visitStep ord row fx st).cnt = cntInc st.cnt ord row := by
  simp [visitStep, applyFx_cnt]
theorem visitStep_ctl (ord row fx st) : (visitStep ord row fx st).ctl = st.ctl := by
  simp [visitStep, applyFx_ctl]
theorem visitStep_info (ord row fx st) : (visitStep ord row fx st).info = st.info := by
  simp [visitStep, applyFx_info]
theorem visitStep_startTime (ord row fx st) : (visitStep ord row fx st).startTime = st.startTime := by
  simp [visitStep, applyFx_startTime]
theorem visitStep_osv (ord row fx st) : (visitStep ord row fx st).osv = 0 := by
  simp [visitStep, applyFx_osv]
theorem visitStep_anyValid (ord row fx st) : (visitStep ord row fx st).anyValid = true := by
  simp [visitStep, applyFx_anyValid]

def posOf (r : RowRec) : Nat × Nat := (r.ord, r.row)

theorem visitStep_trace (ord row fx st) :
    (visitStep ord row fx st).trace.map posOf = (ord, row) :: st.trace.map posOf := by
  simp [visitStep, applyFx_trace, posOf]

theorem visitStep_eq_scanStep (ord row fx st) :
    (visitStep ord row fx st).rowStart = (scanStep fx st).rowStart ∧
    (visitStep ord row fx st).speed = (scanStep fx st).speed ∧
    (visitStep ord row fx st).bpm = (scanStep fx st).bpm := by
  cases fx <;> simp [visitStep, scanStep, applyFx, ScanSt.rowStart] <;> (try split) <;> simp




/-- positions `(ord,row), (ord,row+1), …` (`n` of them) -/
def rowSeq (ord row : Nat) : Nat → List (Nat × Nat)
  | 0 => []
  | n + 1 => (ord, row) :: rowSeq ord (row + 1) n

/-- what the row loop leaves behind after a jump-free stretch of fresh rows -/
structure RowsDone (ord row : Nat) (fxs : List Fx) (st st' : ScanSt) : Prop where
  rowStart : st'.rowStart = st.rowStart + rowsTime fxs st.speed st.bpm
  speed : st'.speed = rowsSpeed fxs st.speed
  bpm : st'.bpm = rowsBpm fxs st.bpm
  ctl : st'.ctl = st.ctl
  info : st'.info = st.info
  startTime : st'.startTime = st.startTime
  cntLen : st'.cnt.length = st.cnt.length
  rowLen : ∀ o, (st'.cnt.getD o []).length = (st.cnt.getD o []).length
  other : ∀ o r, (o ≠ ord ∨ r < row ∨ row + fxs.length ≤ r) → cntAt st'.cnt o r = cntAt st.cnt o r
  visited : ∀ r, row ≤ r → r < row + fxs.length → cntAt st'.cnt ord r = 1
  trace : st'.trace.map posOf = (rowSeq ord row fxs.length).reverse ++ st.trace.map posOf
  valid : fxs ≠ [] → st'.anyValid = true ∧ st'.osv = 0
  same : fxs = [] → st' = st

theorem rowSeq_snoc (ord row n : Nat) : rowSeq ord row (n + 1) = rowSeq ord row n ++ [(ord, row + n)] := by
  induction n generalizing row with
  | zero => simp [rowSeq]
  | succ n ih =>
    rw [rowSeq, ih (row + 1), rowSeq]
    simp; omega

theorem scanRows_nojump (ord : Nat) : ∀ (fxs : List Fx) (row : Nat) (st : ScanSt),
    (∀ fx ∈ fxs, fx.isJump = false ∧ fx.WF) → (∀ r, row ≤ r → cntAt st.cnt ord r = 0) → 20 ≤ st.bpm →
    ord < st.cnt.length → row + fxs.length ≤ (st.cnt.getD ord []).length →
    ∃ st', scanRows ord fxs row st = .done st' none ∧ RowsDone ord row fxs st st' := by
  intro fxs
  induction fxs with
  | nil =>
    intro row st _ _ _ _ _
    refine ⟨st, by simp [scanRows], ?_⟩
    constructor <;> simp [rowsTime, rowsSpeed, rowsBpm, rowSeq]
    intro r h1 h2; omega
  | cons fx rest ih =>
    intro row st hfx hfresh hb hlen hrl
    rw [List.length_cons] at hrl
    have hfx0 := hfx fx (by simp)
    have hf0 : cntAt st.cnt ord row = 0 := hfresh row (Nat.le_refl _)
    rw [scanRows_cons_fresh ord fx rest row st hb hf0 hfx0.1]
    obtain ⟨hrs, hsp, hbp⟩ := visitStep_eq_scanStep ord row fx st
    have hsp' : (visitStep ord row fx st).speed = fxSpeed fx st.speed := by rw [hsp, scanStep_speed]
    have hbp' : (visitStep ord row fx st).bpm = fxBpm fx st.bpm := by rw [hbp, scanStep_bpm _ _ hfx0.2]
    have hrs' : (visitStep ord row fx st).rowStart = st.rowStart + rowFrames fx st.speed * tick (fxBpm fx st.bpm) := by
      rw [hrs, scanStep_rowStart _ _ hfx0.2]
    have hlen' : ord < (visitStep ord row fx st).cnt.length := by
      rw [visitStep_cnt, cntInc_length]; exact hlen
    have hrl' : row + 1 + rest.length ≤ ((visitStep ord row fx st).cnt.getD ord []).length := by
      rw [visitStep_cnt, cntInc_row_length]; omega
    have hfresh' : ∀ r, row + 1 ≤ r → cntAt (visitStep ord row fx st).cnt ord r = 0 := by
      intro r hr
      rw [visitStep_cnt, cntAt_cntInc_ne _ _ _ _ _ (by omega)]
      exact hfresh r (by omega)
    have hb' : 20 ≤ (visitStep ord row fx st).bpm := by rw [hbp']; exact fxBpm_ge _ _ hb
    obtain ⟨st', he, hd⟩ := ih (row + 1) (visitStep ord row fx st)
      (fun f hf => hfx f (by simp [hf])) hfresh' hb' hlen' hrl'
    refine ⟨st', he, ?_⟩
    have hrowlt : row < (st.cnt.getD ord []).length := by omega
    constructor
    · rw [hd.rowStart, hrs', hsp', hbp', rowsTime]; omega
    · rw [hd.speed, hsp', rowsSpeed]
    · rw [hd.bpm, hbp', rowsBpm]
    · rw [hd.ctl, visitStep_ctl]
    · rw [hd.info, visitStep_info]
    · rw [hd.startTime, visitStep_startTime]
    · rw [hd.cntLen, visitStep_cnt, cntInc_length]
    · intro o; rw [hd.rowLen, visitStep_cnt, cntInc_row_length]
    · intro o r h
      rw [List.length_cons] at h
      rw [hd.other o r (by omega), visitStep_cnt, cntAt_cntInc_ne]
      omega
    · intro r h1 h2
      rw [List.length_cons] at h2
      by_cases hr : r = row
      · subst hr
        rw [hd.other ord r (by omega), visitStep_cnt, cntAt_cntInc_eq _ _ _ hlen hrowlt, hf0]
      · exact hd.visited r (by omega) (by omega)
    · rw [hd.trace, visitStep_trace]
      simp [rowSeq]
    · intro _
      by_cases hr : rest = []
      · subst hr
        rw [hd.same rfl]
        exact ⟨visitStep_anyValid .., visitStep_osv ..⟩
      · exact hd.valid hr
    · intro h; simp at h




/-! ## the player, frame by frame -/

/-- render one frame, then do the sequencing of the next one -/
def PlayEnv.stepF (e : PlayEnv) (s : PlaySt) : Option (PlaySt × PlaySt) :=
  let s1 := e.render s
  if s1.loopCount > 0 then none else (e.advance s1).map fun s2 => (s1, s2)

/-- `n` frames without loop-counter increment: the rendered frames and the state
after the sequencing that follows the last of them -/
def PlayEnv.runN (e : PlayEnv) : Nat → PlaySt → Option (List PlaySt × PlaySt)
  | 0, s => some ([], s)
  | n + 1, s =>
    match e.stepF s with
    | none => none
    | some (s1, s2) => (e.runN n s2).map fun r => (s1 :: r.1, r.2)

theorem frames_runN (e : PlayEnv) : ∀ (n : Nat) (s : PlaySt) (F : List PlaySt) (s' : PlaySt),
    e.runN n s = some (F, s') → ∀ fuel, e.frames (n + fuel) s = F ++ e.frames fuel s' := by
  intro n
  induction n with
  | zero => intro s F s' h fuel; simp [PlayEnv.runN] at h; simp [h.1, h.2]
  | succ n ih =>
    intro s F s' h fuel
    simp only [PlayEnv.runN] at h
    cases hs : e.stepF s with
    | none => simp [hs] at h
    | some pr =>
      obtain ⟨s1, s2⟩ := pr
      simp only [hs] at h
      cases hr : e.runN n s2 with
      | none => simp [hr] at h
      | some r =>
        simp [hr] at h
        have hstep := hs
        simp only [PlayEnv.stepF] at hstep
        split at hstep
        · simp at hstep
        · rename_i hlc
          cases ha : e.advance (e.render s) with
          | none => simp [ha] at hstep
          | some a =>
            simp [ha] at hstep
            have e1 : n + 1 + fuel = (n + fuel) + 1 := by omega
            rw [e1, PlayEnv.frames]
            simp only [hlc, if_false, ha]
            rw [← h.1, ← h.2, hstep.1]
            have := ih s2 r.1 r.2 (by rw [hr]) fuel
            rw [← hstep.2] at this
            simp [this]

theorem runN_add (e : PlayEnv) : ∀ (a : Nat) (s : PlaySt) (F1 : List PlaySt) (s1 : PlaySt) (b : Nat)
    (F2 : List PlaySt) (s2 : PlaySt),
    e.runN a s = some (F1, s1) → e.runN b s1 = some (F2, s2) → e.runN (a + b) s = some (F1 ++ F2, s2) := by
  intro a
  induction a with
  | zero => intro s F1 s1 b F2 s2 h1 h2; simp [PlayEnv.runN] at h1; simp [← h1.1, h1.2, h2]
  | succ a ih =>
    intro s F1 s1 b F2 s2 h1 h2
    have e1 : a + 1 + b = (a + b) + 1 := by omega
    rw [e1]
    simp only [PlayEnv.runN] at h1 ⊢
    cases hs : e.stepF s with
    | none => simp [hs] at h1
    | some pr =>
      obtain ⟨r1, r2⟩ := pr
      simp only [hs] at h1 ⊢
      cases hr : e.runN a r2 with
      | none => simp [hr] at h1
      | some r =>
        simp [hr] at h1
        have := ih r2 r.1 r.2 b F2 s2 (by rw [hr]) (by rw [h1.2]; exact h2)
        rw [this]
        simp [← h1.1]


end Xmp.LinFlow
