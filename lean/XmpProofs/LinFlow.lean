import XmpModel.LinFlow
/-! Helper lemmas for the linear-flow model (C18). -/
namespace Xmp.LinFlow

/-- `L` is divisible by every tempo in `1..255`, so `tick` is exact. -/
theorem L_dvd (b : Nat) (h1 : 1 ≤ b) (h2 : b ≤ 255) : L % b = 0 := by
  have : ∀ b : Fin 256, 1 ≤ b.val → L % b.val = 0 := by decide +kernel
  exact this ⟨b, by omega⟩ h1

/-! ## the player's view of one row -/

/-- speed in force after the row's effect (effects.c `fx_s3m_speed`) -/
def fxSpeed (fx : Fx) (sp : Nat) : Nat :=
  match fx with
  | .speed p => if p = 0 then sp else p
  | _ => sp

/-- tempo in force after the row's effect (effects.c `fx_s3m_bpm`) -/
def fxBpm (fx : Fx) (b : Nat) : Nat :=
  match fx with
  | .tempo t => if t < 20 then 20 else t
  | _ => b

/-- number of ticks the player spends in a row -/
def rowFrames (fx : Fx) (sp : Nat) : Nat := fxSpeed fx sp * (1 + fx.delayOf)

/-- exact time the player spends in consecutive rows, starting with speed `sp`, tempo `b` -/
def rowsTime : List Fx → Nat → Nat → Nat
  | [], _, _ => 0
  | fx :: rest, sp, b =>
    rowFrames fx sp * tick (fxBpm fx b) + rowsTime rest (fxSpeed fx sp) (fxBpm fx b)

def rowsSpeed : List Fx → Nat → Nat
  | [], sp => sp
  | fx :: rest, sp => rowsSpeed rest (fxSpeed fx sp)

def rowsBpm : List Fx → Nat → Nat
  | [], b => b
  | fx :: rest, b => rowsBpm rest (fxBpm fx b)

/-- well-formed effect parameters (the property's vocabulary: speed 1..31, tempo 32..255, delay 0..15) -/
def Fx.WF : Fx → Prop
  | .speed s => 1 ≤ s
  | .tempo t => 20 ≤ t
  | .rowdelay _ => False
  | _ => True

def Fx.isJump : Fx → Bool
  | .jump _ => true
  | _ => false

theorem fxSpeed_pos (fx : Fx) (sp : Nat) (h : 1 ≤ sp) (hw : fx.WF) : 1 ≤ fxSpeed fx sp := by
  cases fx <;> simp [fxSpeed, Fx.WF] at * <;> try omega
  split <;> omega

theorem fxBpm_ge (fx : Fx) (b : Nat) (h : 20 ≤ b) : 20 ≤ fxBpm fx b := by
  cases fx <;> simp [fxBpm] <;> try omega
  split <;> omega

/-! ## the scan's accounting of one row -/

/-- body of the row loop after the visit bookkeeping: effect, then `row_count++` -/
def scanStep (fx : Fx) (st : ScanSt) : ScanSt :=
  let st2 := applyFx fx st
  { st2 with rowCount := st2.rowCount + 1 }

theorem scanStep_speed (fx : Fx) (st : ScanSt) : (scanStep fx st).speed = fxSpeed fx st.speed := by
  cases fx <;> simp [scanStep, applyFx, fxSpeed]
  split <;> simp_all

theorem scanStep_bpm (fx : Fx) (st : ScanSt) (hw : fx.WF) : (scanStep fx st).bpm = fxBpm fx st.bpm := by
  cases fx <;> simp [scanStep, applyFx, fxBpm, Fx.WF] at *
  · split <;> simp_all
  · omega

/-- **Accounting identity.** Whatever the row's effect, the scan's bookkeeping
(`row_count`, `frame_count`, `time`) advances the exact row start time by the
time the player spends in the row: `speed' · (1 + delay)` ticks at the tempo in
force after the effect. -/
theorem scanStep_rowStart (fx : Fx) (st : ScanSt) (hw : fx.WF) :
    (scanStep fx st).rowStart = st.rowStart + rowFrames fx st.speed * tick (fxBpm fx st.bpm) := by
  cases fx with
  | none => simp [scanStep, applyFx, ScanSt.rowStart, rowFrames, fxSpeed, fxBpm, Fx.delayOf] <;> grind
  | jump j => simp [scanStep, applyFx, ScanSt.rowStart, rowFrames, fxSpeed, fxBpm, Fx.delayOf] <;> grind
  | delay d => simp [scanStep, applyFx, ScanSt.rowStart, rowFrames, fxSpeed, fxBpm, Fx.delayOf] <;> grind
  | speed s =>
    simp only [Fx.WF] at hw
    have hs : s ≠ 0 := by omega
    simp [scanStep, applyFx, ScanSt.rowStart, rowFrames, fxSpeed, fxBpm, Fx.delayOf, hs] <;> grind
  | tempo t =>
    simp only [Fx.WF] at hw
    have ht : ¬ t < 20 := by omega
    simp [scanStep, applyFx, ScanSt.rowStart, rowFrames, fxSpeed, fxBpm, Fx.delayOf, ht] <;> grind
  | rowdelay x => simp [Fx.WF] at hw

/-- **IT row delay** (`SEx`, scan.c:539-544): the scan's clock advances by `(1 + x)` rows at the
*running* speed and tempo (not the speed recorded when the order was entered). -/
theorem scanStep_rowStart_rowdelay (x : Nat) (st : ScanSt) :
    (scanStep (.rowdelay x) st).rowStart = st.rowStart + (1 + x % 16) * st.speed * tick st.bpm ∧
    (scanStep (.rowdelay x) st).speed = st.speed ∧ (scanStep (.rowdelay x) st).bpm = st.bpm := by
  refine ⟨?_, rfl, rfl⟩
  simp [scanStep, applyFx, ScanSt.rowStart] <;> grind

/-! ## `scan_cnt` -/


theorem getD_set_ne {α} (l : List α) (i j : Nat) (a d : α) (h : i ≠ j) : (l.set i a).getD j d = l.getD j d := by
  simp [List.getD_eq_getElem?_getD, h]

theorem getD_set_eq {α} (l : List α) (i : Nat) (a d : α) (h : i < l.length) : (l.set i a).getD i d = a := by
  simp [List.getD_eq_getElem?_getD, h]

theorem cntAt_cntInc_ne (c : List (List Nat)) (o r o' r' : Nat) (h : ¬ (o' = o ∧ r' = r)) :
    cntAt (cntInc c o r) o' r' = cntAt c o' r' := by
  unfold cntAt cntInc
  by_cases ho : o = o'
  · subst ho
    by_cases hl : o < c.length
    · rw [getD_set_eq _ _ _ _ hl]
      have hr : r ≠ r' := by intro e; exact h ⟨rfl, e.symm⟩
      rw [getD_set_ne _ _ _ _ _ hr]
    · have : c.set o ((c.getD o []).set r (cntAt c o r + 1)) = c := by
        apply List.set_eq_of_length_le; omega
      rw [this]
  · rw [getD_set_ne _ _ _ _ _ ho]

theorem cntAt_cntInc_eq (c : List (List Nat)) (o r : Nat) (ho : o < c.length) (hr : r < (c.getD o []).length) :
    cntAt (cntInc c o r) o r = cntAt c o r + 1 := by
  unfold cntInc
  show ((c.set o _).getD o []).getD r 0 = _
  rw [getD_set_eq _ _ _ _ ho, getD_set_eq _ _ _ _ hr]

theorem cntInc_length (c : List (List Nat)) (o r : Nat) : (cntInc c o r).length = c.length := by
  simp [cntInc]

/-- `c[o][r] := v` -/
def cntSet (c : List (List Nat)) (o r v : Nat) : List (List Nat) := c.set o ((c.getD o []).set r v)

theorem cntSet_length (c : List (List Nat)) (o r v : Nat) : (cntSet c o r v).length = c.length := by
  simp [cntSet]

theorem cntSet_row_length (c : List (List Nat)) (o r v o' : Nat) :
    ((cntSet c o r v).getD o' []).length = (c.getD o' []).length := by
  unfold cntSet
  by_cases ho : o = o'
  · subst ho
    by_cases hl : o < c.length
    · rw [getD_set_eq _ _ _ _ hl]; simp
    · have : c.set o ((c.getD o []).set r v) = c := by
        apply List.set_eq_of_length_le; omega
      rw [this]
  · rw [getD_set_ne _ _ _ _ _ ho]

theorem cntAt_cntSet_ne (c : List (List Nat)) (o r v o' r' : Nat) (h : ¬ (o' = o ∧ r' = r)) :
    cntAt (cntSet c o r v) o' r' = cntAt c o' r' := by
  unfold cntAt cntSet
  by_cases ho : o = o'
  · subst ho
    by_cases hl : o < c.length
    · rw [getD_set_eq _ _ _ _ hl]
      have hr : r ≠ r' := by intro e; exact h ⟨rfl, e.symm⟩
      rw [getD_set_ne _ _ _ _ _ hr]
    · have : c.set o ((c.getD o []).set r v) = c := by
        apply List.set_eq_of_length_le; omega
      rw [this]
  · rw [getD_set_ne _ _ _ _ _ ho]

/-- setting an entry to a non-zero value keeps every non-zero entry non-zero -/
theorem cntAt_cntSet_pos (c : List (List Nat)) (o r v o' r' : Nat) (hv : v ≠ 0)
    (h : cntAt c o' r' ≠ 0) : cntAt (cntSet c o r v) o' r' ≠ 0 := by
  by_cases hh : o' = o ∧ r' = r
  · rw [hh.1, hh.2]
    rw [hh.1, hh.2] at h
    unfold cntAt cntSet at *
    by_cases hl : o < c.length
    · rw [getD_set_eq _ _ _ _ hl]
      by_cases hr : r < (c.getD o []).length
      · rw [getD_set_eq _ _ _ _ hr]; exact hv
      · rw [List.set_eq_of_length_le (by omega)]; exact h
    · rw [List.set_eq_of_length_le (by omega)]; exact h
  · rw [cntAt_cntSet_ne _ _ _ _ _ _ hh]; exact h

theorem cntBump_wf (c : List (List Nat)) (o r : Nat) (fx : Fx) (hw : fx.WF) : cntBump c o r fx = c := by
  cases fx <;> first | rfl | simp [Fx.WF] at hw

theorem cntBump_length (c : List (List Nat)) (o r : Nat) (fx : Fx) : (cntBump c o r fx).length = c.length := by
  cases fx <;> try rfl
  simp only [cntBump]
  split
  · rfl
  · exact cntSet_length ..

theorem cntBump_row_length (c : List (List Nat)) (o r : Nat) (fx : Fx) (o' : Nat) :
    ((cntBump c o r fx).getD o' []).length = (c.getD o' []).length := by
  cases fx <;> try rfl
  simp only [cntBump]
  split
  · rfl
  · exact cntSet_row_length ..

theorem cntAt_cntBump_ne (c : List (List Nat)) (o r : Nat) (fx : Fx) (o' r' : Nat) (h : ¬ (o' = o ∧ r' = r)) :
    cntAt (cntBump c o r fx) o' r' = cntAt c o' r' := by
  cases fx <;> try rfl
  simp only [cntBump]
  split
  · rfl
  · exact cntAt_cntSet_ne _ _ _ _ _ _ h

theorem cntAt_cntBump_pos (c : List (List Nat)) (o r : Nat) (fx : Fx) (o' r' : Nat) (h : cntAt c o' r' ≠ 0) :
    cntAt (cntBump c o r fx) o' r' ≠ 0 := by
  cases fx <;> try exact h
  rename_i x
  simp only [cntBump]
  split
  · exact h
  · rename_i hx
    by_cases hh : o' = o ∧ r' = r
    · apply cntAt_cntSet_pos _ _ _ _ _ _ _ h
      rw [hh.1, hh.2] at h
      omega
    · rw [show (c.set o ((c.getD o []).set r (min (cntAt c o r + x % 16) 255))) = cntSet c o r (min (cntAt c o r + x % 16) 255) from rfl,
        cntAt_cntSet_ne _ _ _ _ _ _ hh]
      exact h

theorem cntInc_row_length (c : List (List Nat)) (o r o' : Nat) :
    ((cntInc c o r).getD o' []).length = (c.getD o' []).length := by
  unfold cntInc
  by_cases ho : o = o'
  · subst ho
    by_cases hl : o < c.length
    · rw [getD_set_eq _ _ _ _ hl]; simp
    · have : c.set o ((c.getD o []).set r (cntAt c o r + 1)) = c := by
        apply List.set_eq_of_length_le; omega
      rw [this]
  · rw [getD_set_ne _ _ _ _ _ ho]

/-! ## the row loop on fresh rows -/


/-- one iteration of the row loop on a fresh row -/
def visitStep (ord row : Nat) (fx : Fx) (st : ScanSt) : ScanSt :=
  let st1 := { st with cnt := cntBump (cntInc st.cnt ord row) ord row fx, osv := 0, anyValid := true }
  let st2 := applyFx fx st1
  { st2 with rowCount := st2.rowCount + 1, rowCountTotal := st2.rowCountTotal + 1,
             trace := { ord := ord, row := row, speed := st2.speed, bpm := st2.bpm,
                        delay := fx.delayOf, t0 := st.rowStart } :: st2.trace }

theorem clamp_bpm_id (st : ScanSt) (h : 20 ≤ st.bpm) :
    { st with bpm := if st.bpm < 20 then 20 else st.bpm } = st := by
  have : (if st.bpm < 20 then 20 else st.bpm) = st.bpm := by split <;> omega
  rw [this]

theorem scanRows_cons_fresh (ord : Nat) (fx : Fx) (rest : List Fx) (row : Nat) (st : ScanSt)
    (hb : 20 ≤ st.bpm) (hf : cntAt st.cnt ord row = 0) (hj : fx.isJump = false)
    (hg : st.rowCountTotal ≤ rowLimit) :
    scanRows ord (fx :: rest) row st = scanRows ord rest (row + 1) (visitStep ord row fx st) := by
  have hc : (if st.bpm < 20 then 20 else st.bpm) = st.bpm := by split <;> omega
  have hg' : ¬ st.rowCountTotal > rowLimit := by omega
  rw [scanRows]
  simp only [hc, hg', hf, ne_eq, not_true_eq_false, if_false]
  cases fx <;> simp [Fx.isJump] at hj <;> (cases st; rfl)

theorem scanRows_cons_jump (ord : Nat) (j : Nat) (rest : List Fx) (row : Nat) (st : ScanSt)
    (hb : 20 ≤ st.bpm) (hf : cntAt st.cnt ord row = 0) (hg : st.rowCountTotal ≤ rowLimit) :
    scanRows ord (.jump j :: rest) row st = .done (visitStep ord row (.jump j) st) (some j) := by
  have hc : (if st.bpm < 20 then 20 else st.bpm) = st.bpm := by split <;> omega
  have hg' : ¬ st.rowCountTotal > rowLimit := by omega
  rw [scanRows]
  simp only [hc, hg', hf, ne_eq, not_true_eq_false, if_false]
  cases st; rfl

theorem applyFx_cnt (fx : Fx) (st : ScanSt) : (applyFx fx st).cnt = st.cnt := by
  cases fx <;> simp [applyFx] ; split <;> rfl
theorem applyFx_ctl (fx : Fx) (st : ScanSt) : (applyFx fx st).ctl = st.ctl := by
  cases fx <;> simp [applyFx] ; split <;> rfl
theorem applyFx_info (fx : Fx) (st : ScanSt) : (applyFx fx st).info = st.info := by
  cases fx <;> simp [applyFx] ; split <;> rfl
theorem applyFx_startTime (fx : Fx) (st : ScanSt) : (applyFx fx st).startTime = st.startTime := by
  cases fx <;> simp [applyFx] ; split <;> rfl
theorem applyFx_trace (fx : Fx) (st : ScanSt) : (applyFx fx st).trace = st.trace := by
  cases fx <;> simp [applyFx] ; split <;> rfl
theorem applyFx_osv (fx : Fx) (st : ScanSt) : (applyFx fx st).osv = st.osv := by
  cases fx <;> simp [applyFx] ; split <;> rfl
theorem applyFx_anyValid (fx : Fx) (st : ScanSt) : (applyFx fx st).anyValid = st.anyValid := by
  cases fx <;> simp [applyFx] ; split <;> rfl
theorem applyFx_rct (fx : Fx) (st : ScanSt) : (applyFx fx st).rowCountTotal = st.rowCountTotal := by
  cases fx <;> simp [applyFx] ; split <;> rfl
theorem applyFx_endMark (fx : Fx) (st : ScanSt) : (applyFx fx st).endMark = st.endMark := by
  cases fx <;> simp [applyFx] ; split <;> rfl

theorem visitStep_cnt_gen (ord row fx st) :
    (visitStep ord row fx st).cnt = cntBump (cntInc st.cnt ord row) ord row fx := by
  simp [visitStep, applyFx_cnt]
theorem visitStep_cnt (ord row fx st) (hw : fx.WF) : (visitStep ord row fx st).cnt = cntInc st.cnt ord row := by
  rw [visitStep_cnt_gen, cntBump_wf _ _ _ _ hw]
/-- whatever the effect: lengths are kept, marks are kept, the scanned row is marked -/
theorem visitStep_cnt_facts (ord row fx st) :
    (visitStep ord row fx st).cnt.length = st.cnt.length ∧
    (∀ o, ((visitStep ord row fx st).cnt.getD o []).length = (st.cnt.getD o []).length) ∧
    (∀ o r, cntAt st.cnt o r ≠ 0 → cntAt (visitStep ord row fx st).cnt o r ≠ 0) ∧
    (ord < st.cnt.length → row < (st.cnt.getD ord []).length → cntAt (visitStep ord row fx st).cnt ord row ≠ 0) := by
  rw [visitStep_cnt_gen]
  refine ⟨by rw [cntBump_length, cntInc_length], fun o => by rw [cntBump_row_length, cntInc_row_length], ?_, ?_⟩
  · intro o r h
    apply cntAt_cntBump_pos
    exact cntAt_cntSet_pos _ _ _ _ _ _ (by omega) h
  · intro h1 h2
    apply cntAt_cntBump_pos
    rw [cntAt_cntInc_eq _ _ _ h1 h2]; omega
theorem visitStep_ctl (ord row fx st) : (visitStep ord row fx st).ctl = st.ctl := by
  simp [visitStep, applyFx_ctl]
theorem visitStep_info (ord row fx st) : (visitStep ord row fx st).info = st.info := by
  simp [visitStep, applyFx_info]
theorem visitStep_startTime (ord row fx st) : (visitStep ord row fx st).startTime = st.startTime := by
  simp [visitStep, applyFx_startTime]
theorem visitStep_osv (ord row fx st) : (visitStep ord row fx st).osv = 0 := by
  simp [visitStep, applyFx_osv]
theorem visitStep_anyValid (ord row fx st) : (visitStep ord row fx st).anyValid = true := by
  simp [visitStep, applyFx_anyValid]
theorem visitStep_rct (ord row fx st) : (visitStep ord row fx st).rowCountTotal = st.rowCountTotal + 1 := by
  simp [visitStep, applyFx_rct]
theorem visitStep_endMark (ord row fx st) : (visitStep ord row fx st).endMark = st.endMark := by
  simp [visitStep, applyFx_endMark]

def posOf (r : RowRec) : Nat × Nat := (r.ord, r.row)

theorem visitStep_trace (ord row fx st) :
    (visitStep ord row fx st).trace.map posOf = (ord, row) :: st.trace.map posOf := by
  simp [visitStep, applyFx_trace, posOf]

theorem visitStep_eq_scanStep (ord row fx st) :
    (visitStep ord row fx st).rowStart = (scanStep fx st).rowStart ∧
    (visitStep ord row fx st).speed = (scanStep fx st).speed ∧
    (visitStep ord row fx st).bpm = (scanStep fx st).bpm := by
  cases fx <;> simp [visitStep, scanStep, applyFx, ScanSt.rowStart] <;> (try split) <;> simp




/-- positions `(ord,row), (ord,row+1), …` (`n` of them) -/
def rowSeq (ord row : Nat) : Nat → List (Nat × Nat)
  | 0 => []
  | n + 1 => (ord, row) :: rowSeq ord (row + 1) n

/-- the scan-style records of consecutive rows `(ord,row), (ord,row+1), …` with effects `fxs`,
starting with speed `sp`, tempo `b` at exact time `t` -/
def recSeq (ord : Nat) : Nat → List Fx → Nat → Nat → Nat → List RowRec
  | _, [], _, _, _ => []
  | row, fx :: tl, sp, b, t =>
    { ord := ord, row := row, speed := fxSpeed fx sp, bpm := fxBpm fx b, delay := fx.delayOf, t0 := t } ::
      recSeq ord (row + 1) tl (fxSpeed fx sp) (fxBpm fx b) (t + rowFrames fx sp * tick (fxBpm fx b))

theorem visitStep_trace_full (ord row : Nat) (fx : Fx) (st : ScanSt) (hw : fx.WF) :
    (visitStep ord row fx st).trace =
      { ord := ord, row := row, speed := fxSpeed fx st.speed, bpm := fxBpm fx st.bpm, delay := fx.delayOf,
        t0 := st.rowStart } :: st.trace := by
  cases fx with
  | none => simp [visitStep, applyFx, fxSpeed, fxBpm]
  | jump j => simp [visitStep, applyFx, fxSpeed, fxBpm]
  | delay d => simp [visitStep, applyFx, fxSpeed, fxBpm]
  | speed s =>
    simp only [Fx.WF] at hw
    have hs : s ≠ 0 := by omega
    simp [visitStep, applyFx, fxSpeed, fxBpm, hs]
  | tempo t =>
    simp only [Fx.WF] at hw
    have ht : ¬ t < 20 := by omega
    simp [visitStep, applyFx, fxSpeed, fxBpm, ht]
  | rowdelay x => simp [Fx.WF] at hw

/-- what the row loop leaves behind after a jump-free stretch of fresh rows -/
structure RowsDone (ord row : Nat) (fxs : List Fx) (st st' : ScanSt) : Prop where
  rowStart : st'.rowStart = st.rowStart + rowsTime fxs st.speed st.bpm
  speed : st'.speed = rowsSpeed fxs st.speed
  bpm : st'.bpm = rowsBpm fxs st.bpm
  ctl : st'.ctl = st.ctl
  info : st'.info = st.info
  startTime : st'.startTime = st.startTime
  cntLen : st'.cnt.length = st.cnt.length
  rowLen : ∀ o, (st'.cnt.getD o []).length = (st.cnt.getD o []).length
  other : ∀ o r, (o ≠ ord ∨ r < row ∨ row + fxs.length ≤ r) → cntAt st'.cnt o r = cntAt st.cnt o r
  visited : ∀ r, row ≤ r → r < row + fxs.length → cntAt st'.cnt ord r = 1
  trace : st'.trace.map posOf = (rowSeq ord row fxs.length).reverse ++ st.trace.map posOf
  recs : st'.trace = (recSeq ord row fxs st.speed st.bpm st.rowStart).reverse ++ st.trace
  rct : st'.rowCountTotal = st.rowCountTotal + fxs.length
  endMark : st'.endMark = st.endMark
  valid : fxs ≠ [] → st'.anyValid = true ∧ st'.osv = 0
  same : fxs = [] → st' = st

theorem rowSeq_snoc (ord row n : Nat) : rowSeq ord row (n + 1) = rowSeq ord row n ++ [(ord, row + n)] := by
  induction n generalizing row with
  | zero => simp [rowSeq]
  | succ n ih =>
    rw [rowSeq, ih (row + 1), rowSeq]
    simp; omega

theorem scanRows_nojump_app (ord : Nat) (rest : List Fx) : ∀ (fxs : List Fx) (row : Nat) (st : ScanSt),
    (∀ fx ∈ fxs, fx.isJump = false ∧ fx.WF) → (∀ r, row ≤ r → cntAt st.cnt ord r = 0) → 20 ≤ st.bpm →
    ord < st.cnt.length → row + fxs.length ≤ (st.cnt.getD ord []).length →
    st.rowCountTotal + fxs.length ≤ rowLimit + 1 →
    ∃ st', scanRows ord (fxs ++ rest) row st = scanRows ord rest (row + fxs.length) st' ∧
      RowsDone ord row fxs st st' := by
  intro fxs
  induction fxs with
  | nil =>
    intro row st _ _ _ _ _ _
    refine ⟨st, by simp, ?_⟩
    constructor <;> simp [rowsTime, rowsSpeed, rowsBpm, rowSeq, recSeq]
    intro r h1 h2; omega
  | cons fx tl ih =>
    intro row st hfx hfresh hb hlen hrl hgl
    rw [List.length_cons] at hrl hgl
    have hfx0 := hfx fx (by simp)
    have hf0 : cntAt st.cnt ord row = 0 := hfresh row (Nat.le_refl _)
    rw [List.cons_append, scanRows_cons_fresh ord fx (tl ++ rest) row st hb hf0 hfx0.1 (by omega)]
    obtain ⟨hrs, hsp, hbp⟩ := visitStep_eq_scanStep ord row fx st
    have hsp' : (visitStep ord row fx st).speed = fxSpeed fx st.speed := by rw [hsp, scanStep_speed]
    have hbp' : (visitStep ord row fx st).bpm = fxBpm fx st.bpm := by rw [hbp, scanStep_bpm _ _ hfx0.2]
    have hrs' : (visitStep ord row fx st).rowStart = st.rowStart + rowFrames fx st.speed * tick (fxBpm fx st.bpm) := by
      rw [hrs, scanStep_rowStart _ _ hfx0.2]
    have hlen' : ord < (visitStep ord row fx st).cnt.length := by
      rw [visitStep_cnt _ _ _ _ hfx0.2, cntInc_length]; exact hlen
    have hrl' : row + 1 + tl.length ≤ ((visitStep ord row fx st).cnt.getD ord []).length := by
      rw [visitStep_cnt _ _ _ _ hfx0.2, cntInc_row_length]; omega
    have hfresh' : ∀ r, row + 1 ≤ r → cntAt (visitStep ord row fx st).cnt ord r = 0 := by
      intro r hr
      rw [visitStep_cnt _ _ _ _ hfx0.2, cntAt_cntInc_ne _ _ _ _ _ (by omega)]
      exact hfresh r (by omega)
    have hb' : 20 ≤ (visitStep ord row fx st).bpm := by rw [hbp']; exact fxBpm_ge _ _ hb
    obtain ⟨st', he, hd⟩ := ih (row + 1) (visitStep ord row fx st)
      (fun f hf => hfx f (by simp [hf])) hfresh' hb' hlen' hrl' (by rw [visitStep_rct]; omega)
    have hidx : row + 1 + tl.length = row + (fx :: tl).length := by rw [List.length_cons]; omega
    refine ⟨st', by rw [he, hidx], ?_⟩
    have hrowlt : row < (st.cnt.getD ord []).length := by omega
    constructor
    · rw [hd.rowStart, hrs', hsp', hbp', rowsTime]; omega
    · rw [hd.speed, hsp', rowsSpeed]
    · rw [hd.bpm, hbp', rowsBpm]
    · rw [hd.ctl, visitStep_ctl]
    · rw [hd.info, visitStep_info]
    · rw [hd.startTime, visitStep_startTime]
    · rw [hd.cntLen, visitStep_cnt _ _ _ _ hfx0.2, cntInc_length]
    · intro o; rw [hd.rowLen, visitStep_cnt _ _ _ _ hfx0.2, cntInc_row_length]
    · intro o r h
      rw [List.length_cons] at h
      rw [hd.other o r (by omega), visitStep_cnt _ _ _ _ hfx0.2, cntAt_cntInc_ne]
      omega
    · intro r h1 h2
      rw [List.length_cons] at h2
      by_cases hr : r = row
      · subst hr
        rw [hd.other ord r (by omega), visitStep_cnt _ _ _ _ hfx0.2, cntAt_cntInc_eq _ _ _ hlen hrowlt, hf0]
      · exact hd.visited r (by omega) (by omega)
    · rw [hd.trace, visitStep_trace]
      simp [rowSeq]
    · rw [hd.recs, visitStep_trace_full _ _ _ _ hfx0.2, hsp', hbp', hrs']
      simp [recSeq]
    · rw [hd.rct, visitStep_rct, List.length_cons]; omega
    · rw [hd.endMark, visitStep_endMark]
    · intro _
      by_cases hr : tl = []
      · subst hr
        rw [hd.same rfl]
        exact ⟨visitStep_anyValid .., visitStep_osv ..⟩
      · exact hd.valid hr
    · intro h; simp at h




theorem scanRows_nojump (ord : Nat) (fxs : List Fx) (row : Nat) (st : ScanSt)
    (h1 : ∀ fx ∈ fxs, fx.isJump = false ∧ fx.WF) (h2 : ∀ r, row ≤ r → cntAt st.cnt ord r = 0) (h3 : 20 ≤ st.bpm)
    (h4 : ord < st.cnt.length) (h5 : row + fxs.length ≤ (st.cnt.getD ord []).length)
    (h6 : st.rowCountTotal + fxs.length ≤ rowLimit + 1) :
    ∃ st', scanRows ord fxs row st = .done st' none ∧ RowsDone ord row fxs st st' := by
  obtain ⟨st', he, hd⟩ := scanRows_nojump_app ord [] fxs row st h1 h2 h3 h4 h5 h6
  exact ⟨st', by simpa [scanRows] using he, hd⟩

/-! ## the player, frame by frame -/

/-- render one frame, then do the sequencing of the next one -/
def PlayEnv.stepF (e : PlayEnv) (s : PlaySt) : Option (PlaySt × PlaySt) :=
  let s1 := e.render s
  if s1.loopCount > 0 then none else (e.advance s1).map fun s2 => (s1, s2)

/-- `n` frames without loop-counter increment: the rendered frames and the state
after the sequencing that follows the last of them -/
def PlayEnv.runN (e : PlayEnv) : Nat → PlaySt → Option (List PlaySt × PlaySt)
  | 0, s => some ([], s)
  | n + 1, s =>
    match e.stepF s with
    | none => none
    | some (s1, s2) => (e.runN n s2).map fun r => (s1 :: r.1, r.2)

theorem frames_runN (e : PlayEnv) : ∀ (n : Nat) (s : PlaySt) (F : List PlaySt) (s' : PlaySt),
    e.runN n s = some (F, s') → ∀ fuel, e.frames (n + fuel) s = F ++ e.frames fuel s' := by
  intro n
  induction n with
  | zero => intro s F s' h fuel; simp [PlayEnv.runN] at h; simp [h.1, h.2]
  | succ n ih =>
    intro s F s' h fuel
    simp only [PlayEnv.runN] at h
    cases hs : e.stepF s with
    | none => simp [hs] at h
    | some pr =>
      obtain ⟨s1, s2⟩ := pr
      simp only [hs] at h
      cases hr : e.runN n s2 with
      | none => simp [hr] at h
      | some r =>
        simp [hr] at h
        have hstep := hs
        simp only [PlayEnv.stepF] at hstep
        split at hstep
        · simp at hstep
        · rename_i hlc
          cases ha : e.advance (e.render s) with
          | none => simp [ha] at hstep
          | some a =>
            simp [ha] at hstep
            have e1 : n + 1 + fuel = (n + fuel) + 1 := by omega
            rw [e1, PlayEnv.frames]
            simp only [hlc, if_false, ha]
            rw [← h.1, ← h.2, hstep.1]
            have := ih s2 r.1 r.2 (by rw [hr]) fuel
            rw [← hstep.2] at this
            simp [this]

theorem runN_add (e : PlayEnv) : ∀ (a : Nat) (s : PlaySt) (F1 : List PlaySt) (s1 : PlaySt) (b : Nat)
    (F2 : List PlaySt) (s2 : PlaySt),
    e.runN a s = some (F1, s1) → e.runN b s1 = some (F2, s2) → e.runN (a + b) s = some (F1 ++ F2, s2) := by
  intro a
  induction a with
  | zero => intro s F1 s1 b F2 s2 h1 h2; simp [PlayEnv.runN] at h1; simp [← h1.1, h1.2, h2]
  | succ a ih =>
    intro s F1 s1 b F2 s2 h1 h2
    have e1 : a + 1 + b = (a + b) + 1 := by omega
    rw [e1]
    simp only [PlayEnv.runN] at h1 ⊢
    cases hs : e.stepF s with
    | none => simp [hs] at h1
    | some pr =>
      obtain ⟨r1, r2⟩ := pr
      simp only [hs] at h1 ⊢
      cases hr : e.runN a r2 with
      | none => simp [hr] at h1
      | some r =>
        simp [hr] at h1
        have := ih r2 r.1 r.2 b F2 s2 (by rw [hr]) (by rw [h1.2]; exact h2)
        rw [this]
        simp [← h1.1]




/-- Σ frame_time of a list of rendered frames -/
def ticks (F : List PlaySt) : Nat := (F.map fun s => tick s.bpm).sum

/-- `k` ticks later inside the same row -/
def later (p : PlaySt) (k : Nat) : PlaySt :=
  { p with frame := p.frame + k, time := p.time + k * tick p.bpm, ctime := p.ctime + k * tick p.bpm }

theorem later_zero (p : PlaySt) : later p 0 = p := by
  cases p; simp [later]

theorem later_later (p : PlaySt) (a b : Nat) : later (later p a) b = later p (a + b) := by
  cases p
  simp only [later, PlaySt.mk.injEq, true_and]
  refine ⟨by omega, ?_, ?_⟩ <;> (rw [Nat.add_mul]; omega)

/-- frames in the middle of a row: nothing happens but the clock -/
theorem runN_mid (e : PlayEnv) : ∀ (k : Nat) (p : PlaySt), 1 ≤ p.frame → p.loopCount = 0 →
    p.frame + k < p.speed * (1 + p.delay) →
    ∃ F, e.runN k p = some (F, later p k) ∧ rowTrace F = [] ∧ ticks F = k * tick p.bpm ∧ F.length = k := by
  intro k
  induction k with
  | zero => intro p _ _ _; exact ⟨[], by simp [PlayEnv.runN, later_zero], by simp [rowTrace], by simp [ticks], rfl⟩
  | succ k ih =>
    intro p hf hl hk
    have hf0 : ¬ p.frame = 0 := by omega
    have hr : e.render p = { p with time := p.time + tick p.bpm, ctime := p.ctime + tick p.bpm } := by
      simp [PlayEnv.render, hf0]
    have hadv : e.advance (e.render p) = some (later p 1) := by
      rw [hr]
      simp only [PlayEnv.advance]
      have : ¬ (p.frame + 1 ≥ p.speed * (1 + p.delay)) := by omega
      simp [this, later]
    obtain ⟨F, hrun, htr, htk, hlen⟩ := ih (later p 1) (by simp [later]) (by simp [later, hl])
      (by simp [later]; omega)
    refine ⟨e.render p :: F, ?_, ?_, ?_, ?_⟩
    · simp only [PlayEnv.runN, PlayEnv.stepF]
      have hlc : ¬ (e.render p).loopCount > 0 := by rw [hr]; simp [hl]
      simp only [hlc, if_false, hadv, Option.map_some, hrun]
      rw [later_later, Nat.add_comm 1 k]
    · simp [rowTrace, hr, hf0] at htr ⊢
      exact htr
    · simp [ticks, hr] at htk ⊢
      simp [later] at htk
      rw [htk]; rw [Nat.add_mul]; omega
    · simp [hlen]


theorem runN_add' (e : PlayEnv) : ∀ (a : Nat) (s : PlaySt) (F1 : List PlaySt) (s1 : PlaySt) (b : Nat),
    e.runN a s = some (F1, s1) → e.runN (a + b) s = (e.runN b s1).map fun r => (F1 ++ r.1, r.2) := by
  intro a
  induction a with
  | zero =>
    intro s F1 s1 b h1; simp [PlayEnv.runN] at h1
    obtain ⟨h1a, h1b⟩ := h1
    subst h1a; subst h1b
    rw [Nat.zero_add]
    cases e.runN b s <;> simp
  | succ a ih =>
    intro s F1 s1 b h1
    have e1 : a + 1 + b = (a + b) + 1 := by omega
    rw [e1]
    simp only [PlayEnv.runN] at h1 ⊢
    cases hs : e.stepF s with
    | none => simp [hs] at h1
    | some pr =>
      obtain ⟨r1, r2⟩ := pr
      simp only [hs] at h1 ⊢
      cases hr : e.runN a r2 with
      | none => simp [hr] at h1
      | some r =>
        simp [hr] at h1
        have := ih r2 r.1 r.2 b (by rw [hr])
        rw [this, h1.2]
        cases e.runN b s1 <;> simp [← h1.1]

theorem rowTrace_nil : rowTrace [] = [] := rfl
theorem rowTrace_cons (s : PlaySt) (F : List PlaySt) :
    rowTrace (s :: F) = if s.frame = 0 then (s.ord, s.row) :: rowTrace F else rowTrace F := by
  by_cases h : s.frame = 0 <;> simp [rowTrace, h]
theorem rowTrace_append (F G : List PlaySt) : rowTrace (F ++ G) = rowTrace F ++ rowTrace G := by
  simp [rowTrace]
theorem ticks_nil : ticks [] = 0 := rfl
theorem ticks_cons (s : PlaySt) (F : List PlaySt) : ticks (s :: F) = tick s.bpm + ticks F := by
  simp [ticks]
theorem ticks_append (F G : List PlaySt) : ticks (F ++ G) = ticks F + ticks G := by
  simp [ticks]

/-- `check_end_of_module` when it does not fire -/
def endAfter (e : PlayEnv) (ord row : Nat) (E : Int) : Int :=
  if ord = e.si.endOrd ∧ row = e.si.endRow then E - 1 else E

/-- argument of `next_row` at the end of a row -/
def rowEnd (e : PlayEnv) (p : PlaySt) (fx : Fx) : PlaySt :=
  { p with frame := rowFrames fx p.speed, speed := fxSpeed fx p.speed, bpm := fxBpm fx p.bpm,
           delay := fx.delayOf, endPoint := endAfter e p.ord p.row p.endPoint,
           time := p.time + rowFrames fx p.speed * tick (fxBpm fx p.bpm),
           ctime := p.ctime + rowFrames fx p.speed * tick (fxBpm fx p.bpm) }

theorem render_first (e : PlayEnv) (p : PlaySt) (fx : Fx) (hfx : e.fxAt p.ord p.row = fx)
    (hj : fx.isJump = false) (hw : fx.WF) (hfr : p.frame = 0) (hd : p.delay = 0)
    (hne : ¬ (p.ord = e.si.endOrd ∧ p.row = e.si.endRow ∧ p.endPoint = 0)) :
    e.render p = { p with speed := fxSpeed fx p.speed, bpm := fxBpm fx p.bpm, delay := fx.delayOf,
                          endPoint := endAfter e p.ord p.row p.endPoint,
                          time := p.time + tick (fxBpm fx p.bpm), ctime := p.ctime + tick (fxBpm fx p.bpm) } := by
  have hce : e.checkEnd p = { p with endPoint := endAfter e p.ord p.row p.endPoint } := by
    simp only [PlayEnv.checkEnd, endAfter]
    by_cases h1 : p.ord = e.si.endOrd ∧ p.row = e.si.endRow
    · have : ¬ p.endPoint = 0 := fun h => hne ⟨h1.1, h1.2, h⟩
      simp [h1, this]
    · simp [h1]
  simp only [PlayEnv.render, hfr, if_true, PlayEnv.newRow, hce, hfx]
  cases fx
  case rowdelay x => exact absurd hw (by simp [Fx.WF])
  all_goals (simp [Fx.isJump] at hj)
  all_goals (simp [readFx, fxSpeed, fxBpm, Fx.delayOf, hd])
  split <;> simp [hd]

theorem runN_row (e : PlayEnv) (p : PlaySt) (fx : Fx) (hfx : e.fxAt p.ord p.row = fx)
    (hj : fx.isJump = false) (hw : fx.WF) (hfr : p.frame = 0) (hd : p.delay = 0) (hl : p.loopCount = 0)
    (hs : 1 ≤ p.speed)
    (hne : ¬ (p.ord = e.si.endOrd ∧ p.row = e.si.endRow ∧ p.endPoint = 0)) :
    ∃ F, F.length = rowFrames fx p.speed ∧ rowTrace F = [(p.ord, p.row)] ∧
      ticks F = rowFrames fx p.speed * tick (fxBpm fx p.bpm) ∧
      e.runN (rowFrames fx p.speed) p = (e.nextRow (rowEnd e p fx)).map fun p' => (F, p') := by
  have hr0 := render_first e p fx hfx hj hw hfr hd hne
  have hN : 1 ≤ rowFrames fx p.speed := by
    have := fxSpeed_pos fx p.speed hs hw
    simp only [rowFrames]
    exact Nat.mul_pos this (by omega)
  have hNdef : fxSpeed fx p.speed * (1 + fx.delayOf) = rowFrames fx p.speed := rfl
  have hre : rowEnd e p fx = { p with frame := rowFrames fx p.speed, speed := fxSpeed fx p.speed, bpm := fxBpm fx p.bpm, delay := fx.delayOf, endPoint := endAfter e p.ord p.row p.endPoint, time := p.time + rowFrames fx p.speed * tick (fxBpm fx p.bpm), ctime := p.ctime + rowFrames fx p.speed * tick (fxBpm fx p.bpm) } := rfl
  generalize rowFrames fx p.speed = N at *
  generalize fxBpm fx p.bpm = b' at *
  generalize fxSpeed fx p.speed = s' at *
  generalize fx.delayOf = d' at *
  generalize endAfter e p.ord p.row p.endPoint = E' at *
  have hlc0 : ¬ (e.render p).loopCount > 0 := by rw [hr0]; simp [hl]
  by_cases h1 : N = 1
  · subst h1
    refine ⟨[e.render p], rfl, ?_, ?_, ?_⟩
    · rw [rowTrace_cons, rowTrace_nil, hr0]; simp [hfr]
    · rw [ticks_cons, ticks_nil, hr0]; simp
    · simp only [PlayEnv.runN, PlayEnv.stepF, hlc0, if_false]
      have hadv : e.advance (e.render p) = e.nextRow (rowEnd e p fx) := by
        rw [hr0, hre]
        simp only [PlayEnv.advance, hfr]
        have hge : (0 + 1 ≥ s' * (1 + d')) := by omega
        simp only [hge, if_true, Nat.one_mul]
      rw [hadv]
      cases e.nextRow (rowEnd e p fx) <;> simp
  · -- N ≥ 2
    obtain ⟨p1, hp1⟩ : ∃ p1 : PlaySt, p1 = { p with frame := 1, speed := s', bpm := b', delay := d', endPoint := E', time := p.time + tick b', ctime := p.ctime + tick b' } := ⟨_, rfl⟩
    have hadv : e.advance (e.render p) = some p1 := by
      rw [hr0, hp1]
      simp only [PlayEnv.advance, hfr]
      have hlt : ¬ (0 + 1 ≥ s' * (1 + d')) := by omega
      simp only [hlt, if_false]
    have hp1s : p1.speed * (1 + p1.delay) = N := by rw [hp1]; exact hNdef
    have hp1f : p1.frame = 1 := by rw [hp1]
    have hp1b : p1.bpm = b' := by rw [hp1]
    obtain ⟨F', hrun, htr, htk, hlen⟩ := runN_mid e (N - 2) p1 (by omega) (by rw [hp1]; exact hl)
      (by rw [hp1s, hp1f]; omega)
    obtain ⟨q, hq⟩ : ∃ q : PlaySt, q = later p1 (N - 2) := ⟨_, rfl⟩
    rw [← hq] at hrun
    have hqe : q = { p with frame := 1 + (N - 2), speed := s', bpm := b', delay := d', endPoint := E', time := p.time + tick b' + (N - 2) * tick b', ctime := p.ctime + tick b' + (N - 2) * tick b' } := by
      rw [hq, hp1]; rfl
    have hqf : q.frame = N - 1 := by rw [hqe]; show 1 + (N - 2) = N - 1; omega
    have hqb : q.bpm = b' := by rw [hqe]
    have hmul : ∀ t : Nat, t + (N - 2) * t + t = N * t := by
      intro t
      have h2 : N = (N - 2) + 2 := by omega
      conv => rhs; rw [h2, Nat.add_mul]
      omega
    have hrq : e.render q = { p with frame := 1 + (N - 2), speed := s', bpm := b', delay := d', endPoint := E', time := p.time + N * tick b', ctime := p.ctime + N * tick b' } := by
      have hne0 : ¬ q.frame = 0 := by omega
      simp only [PlayEnv.render, hne0, if_false]
      rw [hqe]
      simp only [PlaySt.mk.injEq, true_and]
      have := hmul (tick b')
      constructor <;> omega
    have hlcq : ¬ (e.render q).loopCount > 0 := by rw [hrq]; simp [hl]
    have hadvq : e.advance (e.render q) = e.nextRow (rowEnd e p fx) := by
      rw [hrq, hre]
      simp only [PlayEnv.advance]
      have hge : 1 + (N - 2) + 1 ≥ s' * (1 + d') := by omega
      simp only [hge, if_true]
      congr 1
      simp only [PlaySt.mk.injEq, true_and, and_true]
      omega
    refine ⟨e.render p :: (F' ++ [e.render q]), by simp [hlen]; omega, ?_, ?_, ?_⟩
    · rw [rowTrace_cons, rowTrace_append, htr, rowTrace_cons, rowTrace_nil]
      have h0 : (e.render p).frame = 0 := by rw [hr0]; exact hfr
      have hq0 : ¬ (e.render q).frame = 0 := by rw [hrq]; show ¬ 1 + (N - 2) = 0; omega
      simp only [h0, if_true, hq0, if_false, List.nil_append]
      rw [hr0]
    · rw [ticks_cons, ticks_append, htk, ticks_cons, ticks_nil]
      have hb0 : (e.render p).bpm = b' := by rw [hr0]
      have hbq : (e.render q).bpm = b' := by rw [hrq]
      rw [hb0, hbq, hp1b, Nat.add_zero, ← Nat.add_assoc]
      exact hmul _
    · have hsplit : N = ((N - 2) + 1) + 1 := by omega
      rw [hsplit, PlayEnv.runN]
      simp only [PlayEnv.stepF, hlc0, if_false, hadv, Option.map_some]
      have h2 := runN_add' e (N - 2) p1 F' q 1 hrun
      rw [h2]
      simp only [PlayEnv.runN, PlayEnv.stepF, hlcq, if_false, hadvq]
      cases e.nextRow (rowEnd e p fx) <;> simp




theorem getD_of_drop {α} (l : List α) (n : Nat) (a : α) (t : List α) (d : α) (h : l.drop n = a :: t) :
    l.getD n d = a ∧ l.drop (n + 1) = t ∧ n < l.length := by
  induction l generalizing n with
  | nil => simp at h
  | cons x xs ih =>
    cases n with
    | zero => simp at h; simp [h.1, h.2]
    | succ n =>
      simp at h
      have := ih n h
      refine ⟨by simpa using this.1, by simpa using this.2.1, ?_⟩
      have := this.2.2
      simp; omega

/-- The player over a jump-free stretch of rows that does not contain the last row of the
pattern nor the scan's end point. -/
theorem runN_rows (e : PlayEnv) (ord : Nat) : ∀ (fxs : List Fx) (rest : List Fx) (row : Nat) (p : PlaySt),
    (e.m.rowsOf (e.m.patOf ord)).drop row = fxs ++ rest → rest ≠ [] →
    (∀ fx ∈ fxs, fx.isJump = false ∧ fx.WF) →
    (ord = e.si.endOrd → ∀ r, row ≤ r → r < row + fxs.length → r ≠ e.si.endRow) →
    p.ord = ord → p.row = row → p.frame = 0 → p.delay = 0 → p.pbreak = false → p.loopCount = 0 → 1 ≤ p.speed →
    p.rowdelay = 0 →
    ∃ F p', e.runN F.length p = some (F, p') ∧ rowTrace F = rowSeq ord row fxs.length ∧
      ticks F = rowsTime fxs p.speed p.bpm ∧
      p'.ord = ord ∧ p'.row = row + fxs.length ∧ p'.frame = 0 ∧ p'.delay = 0 ∧ p'.pbreak = false ∧
      p'.loopCount = 0 ∧ p'.speed = rowsSpeed fxs p.speed ∧ p'.bpm = rowsBpm fxs p.bpm ∧
      p'.time = p.time + rowsTime fxs p.speed p.bpm ∧ p'.endPoint = p.endPoint ∧ p'.rowdelay = 0 := by
  intro fxs
  induction fxs with
  | nil =>
    intro rest row p _ _ _ _ ho hr hf hd hp hl hs hrd
    exact ⟨[], p, by simp [PlayEnv.runN], by simp [rowTrace, rowSeq], by simp [ticks, rowsTime],
      ho, by simp [hr], hf, hd, hp, hl, by simp [rowsSpeed], by simp [rowsBpm], by simp [rowsTime], rfl, hrd⟩
  | cons fx fxs ih =>
    intro rest row p hdrop hrest hfx hend ho hr hf hd hp hl hs hrd
    have hfx0 := hfx fx (by simp)
    obtain ⟨hget, hdrop', hlt⟩ := getD_of_drop _ row fx (fxs ++ rest) Fx.none (by simpa using hdrop)
    have hfxat : e.fxAt p.ord p.row = fx := by rw [ho, hr]; exact hget
    have hne : ¬ (p.ord = e.si.endOrd ∧ p.row = e.si.endRow ∧ p.endPoint = 0) := by
      intro h
      rw [ho, hr] at h
      exact hend h.1 row (Nat.le_refl _) (by simp) h.2.1
    obtain ⟨F1, hlen1, htr1, htk1, hrun1⟩ := runN_row e p fx hfxat hfx0.1 hfx0.2 hf hd hl hs hne
    -- next_row inside the pattern
    have hrowslen : row + 1 < (e.m.rowsOf (e.m.patOf ord)).length := by
      have h1 : ((e.m.rowsOf (e.m.patOf ord)).drop (row + 1)).length = (fxs ++ rest).length := by rw [hdrop']
      have h2 : 0 < rest.length := by cases rest with | nil => exact absurd rfl hrest | cons _ _ => simp
      simp at h1; omega
    obtain ⟨p2, hp2⟩ : ∃ p2 : PlaySt, p2 = { rowEnd e p fx with frame := 0, delay := 0, row := row + 1, rowdelaySet := false } := ⟨_, rfl⟩
    have hnr : e.nextRow (rowEnd e p fx) = some p2 := by
      have hge : ¬ (row + 1 ≥ (e.m.rowsOf (e.m.patOf ord)).length) := by omega
      simp only [PlayEnv.nextRow, rowEnd, hp, hr, ho, hrd, hge, if_false, if_true, Bool.false_eq_true, hp2]
    rw [hnr] at hrun1
    simp only [Option.map_some] at hrun1
    have hea : endAfter e p.ord p.row p.endPoint = p.endPoint := by
      simp only [endAfter]
      have : ¬ (p.ord = e.si.endOrd ∧ p.row = e.si.endRow) := by
        intro h; rw [ho, hr] at h
        exact hend h.1 row (Nat.le_refl _) (by simp) h.2
      simp [this]
    have hs2 : 1 ≤ p2.speed := by rw [hp2]; exact fxSpeed_pos fx p.speed hs hfx0.2
    obtain ⟨F2, p', hrun2, htr2, htk2, h1, h2, h3, h4, h5, h6, h7, h8, h9, h10, h11⟩ := ih rest (row + 1) p2 hdrop' hrest
      (fun f hf => hfx f (by simp [hf]))
      (fun ho' r h1 h2 => hend ho' r (by omega) (by simp; omega))
      (by rw [hp2]; exact ho) (by rw [hp2]) (by rw [hp2]) (by rw [hp2]) (by rw [hp2]; exact hp)
      (by rw [hp2]; exact hl) hs2 (by rw [hp2]; exact hrd)
    have hp2s : p2.speed = fxSpeed fx p.speed := by rw [hp2]; rfl
    have hp2b : p2.bpm = fxBpm fx p.bpm := by rw [hp2]; rfl
    have hp2t : p2.time = p.time + rowFrames fx p.speed * tick (fxBpm fx p.bpm) := by rw [hp2]; rfl
    have hp2e : p2.endPoint = p.endPoint := by rw [hp2]; exact hea
    refine ⟨F1 ++ F2, p', ?_, ?_, ?_, h1, ?_, h3, h4, h5, h6, ?_, ?_, ?_, ?_, h11⟩
    · rw [List.length_append, hlen1]
      have := runN_add e (rowFrames fx p.speed) p F1 p2 F2.length F2 p' hrun1 hrun2
      exact this
    · rw [rowTrace_append, htr1, htr2, ho, hr]; simp [rowSeq]
    · rw [ticks_append, htk1, htk2, hp2s, hp2b, rowsTime]
    · rw [h2]; simp; omega
    · rw [h7, hp2s, rowsSpeed]
    · rw [h8, hp2b, rowsBpm]
    · rw [h9, hp2t, hp2s, hp2b, rowsTime]; omega
    · rw [h10, hp2e]


end Xmp.LinFlow
