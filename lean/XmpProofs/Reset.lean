import XmpModel.Reset
/-!
# Helper lemmas for C06: agreement sets propagated through the reset operations

`AgreeOn A s₁ s₂` : the two states have equal values at every field of `A`.
Starting from agreement on the persistent settings, every step of
`load` / `startPlayer` (release, names, prologue, loader, epilogue, quirks,
scan, mixer_on, start) enlarges the agreement set; the side conditions are
inclusions between field sets, discharged by `cases f <;> decide` over the
generated field enumeration.
-/
namespace Xmp.Reset
open Xmp.Gen.CtxFields

def AgreeOn (A : Field → Bool) (s₁ s₂ : Ctx) : Prop := ∀ f, A f = true → s₁ f = s₂ f

theorem restrict_congr {A R : Field → Bool} {s₁ s₂ : Ctx} (h : AgreeOn A s₁ s₂)
    (hR : ∀ f, R f = true → A f = true) : restrict R s₁ = restrict R s₂ := by
  funext f
  unfold restrict
  by_cases hr : R f = true
  · simp only [hr, if_true]; exact h f (hR f hr)
  · simp only [hr]; rfl

/-! ## Well-formed states (invariant of every reachable state) -/

structure WF (s : Ctx) : Prop where
  idle : s .state 0 < K.XMP_STATE_PLAYING → ∀ f, IdleField f = true → s f = cst 0
  xtra : s .state 0 ≤ K.XMP_STATE_UNLOADED → s .m_xtra = null

theorem wf_create (r : Int) : WF (createContext r) := by
  constructor
  · intro _ f hf; cases f <;> first | rfl | exact absurd hf (by decide)
  · intro _; rfl

/-! ## Steps of `load` -/

theorem endPlayer_persistent (s : Ctx) (f : Field) (hf : Persistent f = true) : endPlayer s f = s f := by
  unfold endPlayer
  split
  · rfl
  · cases f <;> first | rfl | exact absurd hf (by decide)

theorem release_persistent (s : Ctx) (f : Field) (hf : Persistent f = true) : release s f = s f := by
  unfold release
  cases f <;> first
    | exact absurd hf (by decide)
    | (simp only []; split <;> first | rfl | exact endPlayer_persistent s _ hf)

theorem endPlayer_idle (s : Ctx) (hs : ¬ s .state 0 < K.XMP_STATE_PLAYING) (f : Field) (hf : IdleField f = true) :
    endPlayer s f = cst 0 := by
  unfold endPlayer
  rw [if_neg hs]
  cases f <;> first | rfl | exact absurd hf (by decide)

theorem release_idle (s : Ctx) (hw : WF s) (f : Field) (hf : IdleField f = true) : release s f = cst 0 := by
  have key : (if s .state 0 > K.XMP_STATE_LOADED then endPlayer s else s) f = cst 0 := by
    split
    · next h =>
      apply endPlayer_idle s _ f hf
      simp only [K.XMP_STATE_LOADED, K.XMP_STATE_PLAYING] at *; omega
    · next h =>
      apply hw.idle _ f hf
      simp only [K.XMP_STATE_LOADED, K.XMP_STATE_PLAYING] at *; omega
  unfold release
  cases f <;> first | exact absurd hf (by decide) | exact key

theorem wf_release (s : Ctx) (hw : WF s) : WF (release s) := by
  constructor
  · intro _ f hf; exact release_idle s hw f hf
  · intro _; rfl

/-- the state `load` starts from: released unless already unloaded -/
def pre (s : Ctx) : Ctx := if s .state 0 > K.XMP_STATE_UNLOADED then release s else s

theorem pre_agree {s₁ s₂ : Ctx} (h : AgreeOn Persistent s₁ s₂) (w₁ : WF s₁) (w₂ : WF s₂) :
    AgreeOn A0 (pre s₁) (pre s₂) := by
  have hp : ∀ (s : Ctx) f, Persistent f = true → pre s f = s f := by
    intro s f hf; unfold pre; split
    · exact release_persistent s f hf
    · rfl
  have hi : ∀ (s : Ctx), WF s → ∀ f, IdleField f = true → pre s f = cst 0 := by
    intro s w f hf; unfold pre; split
    · exact release_idle s w f hf
    · next hh =>
      apply w.idle _ f hf
      simp only [K.XMP_STATE_UNLOADED, K.XMP_STATE_PLAYING] at *; omega
  have hx : ∀ (s : Ctx), WF s → pre s .m_xtra = null := by
    intro s w; unfold pre; split
    · rfl
    · next hh => exact w.xtra (by simp only [K.XMP_STATE_UNLOADED] at *; omega)
  intro f hf
  by_cases h1 : Persistent f = true
  · rw [hp s₁ f h1, hp s₂ f h1]; exact h f h1
  · by_cases h2 : IdleField f = true
    · rw [hi s₁ w₁ f h2, hi s₂ w₂ f h2]
    · have : f = .m_xtra := by
        simp only [A0, Bool.or_eq_true, beq_iff_eq] at hf
        rcases hf with (hf | hf) | hf
        · exact absurd hf h1
        · exact absurd hf h2
        · exact hf
      subst this
      rw [hx s₁ w₁, hx s₂ w₂]

theorem name_agree (X : Ext) {s₁ s₂ : Ctx} (h : AgreeOn A0 s₁ s₂) : AgreeOn A1 (nameStep X s₁) (nameStep X s₂) := by
  intro f hf
  unfold nameStep
  by_cases hn : NameField f = true
  · simp only [hn, if_true]
  · simp only [hn]
    apply h f
    simp only [A1, Bool.or_eq_true] at hf
    rcases hf with hf | hf
    · exact hf
    · exact absurd hf hn

theorem prologue_agree {s₁ s₂ : Ctx} (h : AgreeOn A1 s₁ s₂) : AgreeOn A2 (prologue s₁) (prologue s₂) := by
  intro f hf
  have hd : s₁ .m_defpan = s₂ .m_defpan := h _ (by decide)
  cases f <;> first
    | rfl
    | exact h _ (by decide)
    | exact absurd hf (by decide)
    | (funext i; simp only [prologue, hd])

theorem persistent_sub_A2 : ∀ f, Persistent f = true → A2 f = true := by
  intro f hf; cases f <;> first | rfl | exact absurd hf (by decide)

/-- **Reset completeness**: every member a format loader may leave untouched has been given a
history-independent value before the loader runs (by release, the wrappers or the prologue). -/
theorem loaderMayWrite_sub_A2 : ∀ f, LoaderMayWrite f = true → A2 f = true := by
  intro f hf; cases f <;> first | rfl | exact absurd hf (by decide)

theorem loader_agree (X : Ext) {s₁ s₂ : Ctx} (h : AgreeOn A2 s₁ s₂) : AgreeOn A2 (loaderStep X s₁) (loaderStep X s₂) := by
  have hr := restrict_congr h persistent_sub_A2
  intro f hf
  unfold loaderStep
  rw [hr, h f hf]

theorem epilogue_agree {s₁ s₂ : Ctx} (h : AgreeOn A2 s₁ s₂) : AgreeOn A4 (epilogue s₁) (epilogue s₂) := by
  intro f hf
  have h1 : s₁ .m_gvol = s₂ .m_gvol := h _ (by decide)
  have h2 : s₁ .m_mod_len = s₂ .m_mod_len := h _ (by decide)
  have h3 : s₁ .m_mod_pat = s₂ .m_mod_pat := h _ (by decide)
  have h4 : s₁ .m_mod_ins = s₂ .m_mod_ins := h _ (by decide)
  have h5 : s₁ .m_mod_smp = s₂ .m_mod_smp := h _ (by decide)
  have h6 : s₁ .m_mod_chn = s₂ .m_mod_chn := h _ (by decide)
  have h7 : s₁ .m_mod_rst = s₂ .m_mod_rst := h _ (by decide)
  have h8 : s₁ .m_mod_spd = s₂ .m_mod_spd := h _ (by decide)
  have h9 : s₁ .m_mod_bpm = s₂ .m_mod_bpm := h _ (by decide)
  have h10 : s₁ .p_player_flags = s₂ .p_player_flags := h _ (by decide)
  cases f <;> first
    | rfl
    | exact h _ (by decide)
    | exact absurd hf (by decide)
    | simp only [epilogue, h1, h2, h3, h4, h5, h6, h7, h8, h9, h10]

theorem moduleReads_sub_A4 : ∀ f, ModuleReads f = true → A4 f = true := by
  intro f hf; cases f <;> first | rfl | exact absurd hf (by decide)

theorem quirk_agree (X : Ext) {s₁ s₂ : Ctx} (h : AgreeOn A4 s₁ s₂) : AgreeOn A4 (quirkStep X s₁) (quirkStep X s₂) := by
  have hr := restrict_congr h moduleReads_sub_A4
  intro f hf
  unfold quirkStep
  rw [hr, h f hf]

theorem scan_agree (X : Ext) {s₁ s₂ : Ctx} (h : AgreeOn A4 s₁ s₂) : AgreeOn A6 (scanStep X s₁) (scanStep X s₂) := by
  have hr := restrict_congr h moduleReads_sub_A4
  intro f hf
  cases f <;> first
    | exact h _ (by decide)
    | exact absurd hf (by decide)
    | simp only [scanStep, hr]

/-- the partially written arrays agree at every live index -/
def PartialAgree (L₁ L₂ : Ctx) : Prop :=
  ∀ f i, PartialField f = true → Live L₁ f i = true → L₁ f i = L₂ f i

theorem scan_partial (X : Ext) {s₁ s₂ : Ctx} (h : AgreeOn A4 s₁ s₂) :
    PartialAgree (scanStep X s₁) (scanStep X s₂) := by
  have hr := restrict_congr h moduleReads_sub_A4
  intro f i hf hl
  cases f <;> first
    | exact absurd hf (by decide)
    | (simp only [Live, scanStep, hr] at hl ⊢
       simp only [hl, if_true])
    | (simp only [Live, scanStep, hr, decide_eq_true_eq] at hl ⊢
       simp only [hl, if_true])

theorem setState_agree (v : Int) {s₁ s₂ : Ctx} (h : AgreeOn A6 s₁ s₂) : AgreeOn A7 (setState v s₁) (setState v s₂) := by
  intro f hf
  cases f <;> first
    | rfl
    | exact h _ (by decide)
    | exact absurd hf (by decide)

theorem load_eq (X : Ext) (s : Ctx) :
    load X s = setState K.XMP_STATE_LOADED (scanStep X (quirkStep X (epilogue (loaderStep X (prologue (nameStep X (pre s))))))) := rfl

theorem load_agree (X : Ext) {s₁ s₂ : Ctx} (h : AgreeOn Persistent s₁ s₂) (w₁ : WF s₁) (w₂ : WF s₂) :
    AgreeOn A7 (load X s₁) (load X s₂) := by
  rw [load_eq, load_eq]
  exact setState_agree _ (scan_agree X (quirk_agree X (epilogue_agree (loader_agree X (prologue_agree
    (name_agree X (pre_agree h w₁ w₂)))))))

theorem load_partial (X : Ext) {s₁ s₂ : Ctx} (h : AgreeOn Persistent s₁ s₂) (w₁ : WF s₁) (w₂ : WF s₂) :
    PartialAgree (load X s₁) (load X s₂) := by
  have hp := scan_partial X (quirk_agree X (epilogue_agree (loader_agree X (prologue_agree
    (name_agree X (pre_agree h w₁ w₂))))))
  intro f i hf hl
  rw [load_eq, load_eq]
  rw [load_eq] at hl
  cases f <;> first
    | exact absurd hf (by decide)
    | exact hp _ i hf hl

theorem load_state (X : Ext) (s : Ctx) : load X s .state 0 = K.XMP_STATE_LOADED := rfl

/-! ## `xmp_start_player` -/

theorem mixerOn_agree (X : Ext) (r fm : Int) {s₁ s₂ : Ctx} (h : AgreeOn A7 s₁ s₂) :
    AgreeOn A8 (mixerOn X r fm s₁) (mixerOn X r fm s₂) := by
  intro f hf
  cases f <;> first
    | rfl
    | exact h _ (by decide)
    | exact absurd hf (by decide)

theorem startReads_sub_A8 : ∀ f, StartReads f = true → A8 f = true := by
  intro f hf; cases f <;> first | rfl | exact absurd hf (by decide)

theorem startPlayer_loaded (X : Ext) (r fm : Int) (s : Ctx) (hs : s .state 0 = K.XMP_STATE_LOADED) :
    startPlayer X r fm s = startCore X (mixerOn X r fm s) := by
  unfold startPlayer
  simp [hs]

/-- everything `startCore` computes from the module agrees when the inputs agree on `A8` -/
theorem startCore_deps {s₁ s₂ : Ctx} (h : AgreeOn A8 s₁ s₂) :
    startLen s₁ = startLen s₂ ∧ startOrd s₁ = startOrd s₂ ∧ virtChannels s₁ = virtChannels s₂ ∧
    maxVoc s₁ = maxVoc s₂ ∧ muteOf s₁ = muteOf s₂ := by
  have h1 : s₁ .m_mod_len = s₂ .m_mod_len := h _ (by decide)
  have h2 : s₁ .m_mod_xxo = s₂ .m_mod_xxo := h _ (by decide)
  have h3 : s₁ .m_mod_pat = s₂ .m_mod_pat := h _ (by decide)
  have h4 : s₁ .m_mod_chn = s₂ .m_mod_chn := h _ (by decide)
  have h5 : s₁ .smix_chn = s₂ .smix_chn := h _ (by decide)
  have h6 : s₁ .s_numvoc = s₂ .s_numvoc := h _ (by decide)
  have h7 : s₁ .m_quirk = s₂ .m_quirk := h _ (by decide)
  have h8 : s₁ .m_mod_xxc_flg = s₂ .m_mod_xxc_flg := h _ (by decide)
  have hl : startLen s₁ = startLen s₂ := by simp only [startLen, h1, h2, h3]
  have hv : isVirtual s₁ = isVirtual s₂ := by simp only [isVirtual, h7]
  have hc : virtChannels s₁ = virtChannels s₂ := by simp only [virtChannels, h4, h5, h6, hv]
  refine ⟨hl, ?_, hc, ?_, ?_⟩
  · simp only [startOrd, hl, h1, h2, h3]
  · simp only [maxVoc, h6, hv, hc]
  · funext i; simp only [muteOf, h4, h8]

theorem pre_persistent (s : Ctx) (f : Field) (hf : Persistent f = true) : pre s f = s f := by
  unfold pre; split
  · exact release_persistent s f hf
  · rfl

theorem live_of_dead (s : Ctx) (f : Field) (i : Nat) (h : Dead f = true) : Live s f i = false := by
  cases f <;> first | rfl | exact absurd h (by decide)

theorem startOrd_mixerOn (X : Ext) (r fm : Int) (L : Ctx) : startOrd (mixerOn X r fm L) = startOrd L := rfl

theorem B_sub_A7 : ∀ f, B f = true → A7 f = true := by
  intro f hf; cases f <;> first | rfl | exact absurd hf (by decide)

theorem startReads_sub_B8 : ∀ f, StartReads f = true → B8 f = true := by
  intro f hf; cases f <;> first | rfl | exact absurd hf (by decide)

theorem mixerOn_agreeB (X : Ext) (r fm : Int) {s₁ s₂ : Ctx} (h : AgreeOn B s₁ s₂) :
    AgreeOn B8 (mixerOn X r fm s₁) (mixerOn X r fm s₂) := by
  intro f hf
  cases f <;> first
    | rfl
    | exact h _ (by decide)
    | exact absurd hf (by decide)

/-- the state `xmp_start_player` works on: a playing context is ended first -/
def norm (s : Ctx) : Ctx := if s .state 0 > K.XMP_STATE_LOADED then endPlayer s else s

theorem startPlayer_norm (X : Ext) (r fm : Int) (s : Ctx) :
    startPlayer X r fm s = startCore X (mixerOn X r fm (norm s)) := rfl

theorem endPlayer_B (s : Ctx) (f : Field) (hf : B f = true) : endPlayer s f = s f := by
  unfold endPlayer
  split
  · rfl
  · cases f <;> first | rfl | exact absurd hf (by decide)

theorem endPlayer_partial (s : Ctx) (f : Field) (hf : (PartialField f || ScanFull f) = true) : endPlayer s f = s f := by
  unfold endPlayer
  split
  · rfl
  · cases f <;> first | rfl | exact absurd hf (by decide)

theorem norm_B (s : Ctx) (f : Field) (hf : B f = true) : norm s f = s f := by
  unfold norm; split
  · exact endPlayer_B s f hf
  · rfl

theorem norm_partial (s : Ctx) (f : Field) (hf : (PartialField f || ScanFull f) = true) : norm s f = s f := by
  unfold norm; split
  · exact endPlayer_partial s f hf
  · rfl

theorem startOrd_norm (s : Ctx) : startOrd (norm s) = startOrd s := by
  have h1 : norm s .m_mod_len = s .m_mod_len := norm_B s _ (by decide)
  have h2 : norm s .m_mod_xxo = s .m_mod_xxo := norm_B s _ (by decide)
  have h3 : norm s .m_mod_pat = s .m_mod_pat := norm_B s _ (by decide)
  unfold startOrd startLen
  rw [h1, h2, h3]

theorem startCore_depsB {s₁ s₂ : Ctx} (h : AgreeOn B8 s₁ s₂) :
    startLen s₁ = startLen s₂ ∧ startOrd s₁ = startOrd s₂ ∧ virtChannels s₁ = virtChannels s₂ ∧
    maxVoc s₁ = maxVoc s₂ ∧ muteOf s₁ = muteOf s₂ := by
  have h1 : s₁ .m_mod_len = s₂ .m_mod_len := h _ (by decide)
  have h2 : s₁ .m_mod_xxo = s₂ .m_mod_xxo := h _ (by decide)
  have h3 : s₁ .m_mod_pat = s₂ .m_mod_pat := h _ (by decide)
  have h4 : s₁ .m_mod_chn = s₂ .m_mod_chn := h _ (by decide)
  have h5 : s₁ .smix_chn = s₂ .smix_chn := h _ (by decide)
  have h6 : s₁ .s_numvoc = s₂ .s_numvoc := h _ (by decide)
  have h7 : s₁ .m_quirk = s₂ .m_quirk := h _ (by decide)
  have h8 : s₁ .m_mod_xxc_flg = s₂ .m_mod_xxc_flg := h _ (by decide)
  have hl : startLen s₁ = startLen s₂ := by simp only [startLen, h1, h2, h3]
  have hv : isVirtual s₁ = isVirtual s₂ := by simp only [isVirtual, h7]
  have hc : virtChannels s₁ = virtChannels s₂ := by simp only [virtChannels, h4, h5, h6, hv]
  refine ⟨hl, ?_, hc, ?_, ?_⟩
  · simp only [startOrd, hl, h1, h2, h3]
  · simp only [maxVoc, h6, hv, hc]
  · funext i; simp only [muteOf, h4, h8]

attribute [local irreducible] startOrd startLen virtChannels maxVoc muteOf

theorem live_congr {L₁ L₂ : Ctx} (ht : L₁ .m_xxo_info_time = L₂ .m_xxo_info_time)
    (hn : L₁ .m_num_sequences = L₂ .m_num_sequences) (f : Field) (i : Nat) : Live L₁ f i = Live L₂ f i := by
  cases f <;> first
    | rfl
    | (simp only [Live]; rw [ht])
    | (simp only [Live]; rw [hn])


/-- `xmp_start_player` after the optional `xmp_end_player`: two states that agree on `B` (and on the
live entries of the partially written arrays) are indistinguishable afterwards -/
theorem core_agree (X : Ext) (r fm : Int) {N₁ N₂ : Ctx} (hB : AgreeOn B N₁ N₂) (hp : PartialAgree N₁ N₂)
    (hlive : N₁ .m_xxo_info_time (startOrd N₁) ≠ -1) (hspeed : N₁ .m_xxo_info_speed (startOrd N₁) ≠ 0) :
    ∀ f i, Live (startCore X (mixerOn X r fm N₁)) f i = true →
      startCore X (mixerOn X r fm N₁) f i = startCore X (mixerOn X r fm N₂) f i := by
  have h8 := mixerOn_agreeB X r fm hB
  obtain ⟨hl, ho, hc, hm, hmu⟩ := startCore_depsB h8
  have hr := restrict_congr h8 startReads_sub_B8
  have ho₁ := startOrd_mixerOn X r fm N₁
  have hlv : ∀ f, PartialField f = true → (match f with
      | .m_xxo_info_speed | .m_xxo_info_bpm | .m_xxo_info_gvl | .m_xxo_info_st26_speed => true | _ => false) = true →
      N₁ f (startOrd N₁) = N₂ f (startOrd N₁) := by
    intro f hf hx
    apply hp f _ hf
    cases f <;> first | exact absurd hx (by decide) | (simp only [Live]; simpa using hlive)
  have hbpm : mixerOn X r fm N₁ .m_xxo_info_bpm (startOrd (mixerOn X r fm N₂)) = mixerOn X r fm N₂ .m_xxo_info_bpm (startOrd (mixerOn X r fm N₂)) := by
    rw [← ho, ho₁]; exact hlv _ rfl rfl
  have hgvl : mixerOn X r fm N₁ .m_xxo_info_gvl (startOrd (mixerOn X r fm N₂)) = mixerOn X r fm N₂ .m_xxo_info_gvl (startOrd (mixerOn X r fm N₂)) := by
    rw [← ho, ho₁]; exact hlv _ rfl rfl
  have hst : mixerOn X r fm N₁ .m_xxo_info_st26_speed (startOrd (mixerOn X r fm N₂)) = mixerOn X r fm N₂ .m_xxo_info_st26_speed (startOrd (mixerOn X r fm N₂)) := by
    rw [← ho, ho₁]; exact hlv _ rfl rfl
  have hspd : mixerOn X r fm N₁ .m_xxo_info_speed (startOrd (mixerOn X r fm N₂)) = mixerOn X r fm N₂ .m_xxo_info_speed (startOrd (mixerOn X r fm N₂)) := by
    rw [← ho, ho₁]; exact hlv _ rfl rfl
  have htime : mixerOn X r fm N₁ .m_xxo_info_time = mixerOn X r fm N₂ .m_xxo_info_time := h8 _ (by decide)
  have htf : mixerOn X r fm N₁ .m_time_factor = mixerOn X r fm N₂ .m_time_factor := h8 _ (by decide)
  have hrr : mixerOn X r fm N₁ .m_rrate = mixerOn X r fm N₂ .m_rrate := h8 _ (by decide)
  have hchn : mixerOn X r fm N₁ .m_mod_chn = mixerOn X r fm N₂ .m_mod_chn := h8 _ (by decide)
  have hsx : mixerOn X r fm N₁ .smix_chn = mixerOn X r fm N₂ .smix_chn := h8 _ (by decide)
  have hscan : mixerOn X r fm N₁ .p_scan = mixerOn X r fm N₂ .p_scan := h8 _ (by decide)
  have hne₂ : mixerOn X r fm N₂ .m_xxo_info_speed (startOrd (mixerOn X r fm N₂)) ≠ 0 := by
    rw [← hspd, ← ho, ho₁]; exact hspeed
  have hin : startIn X (mixerOn X r fm N₁) = startIn X (mixerOn X r fm N₂) := by
    simp only [startIn, hl, ho, hc, hm, hmu, hr, hbpm, hgvl, hst, hspd, htime, htf, hrr, hchn, hsx, hscan, if_pos hne₂]
  intro f i hlf
  unfold startCore at hlf ⊢
  rw [hin] at hlf ⊢
  have hA : B8 f = true → mixerOn X r fm N₁ f i = mixerOn X r fm N₂ f i := fun h => congrFun (h8 f h) i
  have hP : PartialField f = true → Live N₁ f i = true → N₁ f i = N₂ f i := hp f i
  have hD : Dead f = true → False := fun hd => by
    rw [live_of_dead _ _ _ hd] at hlf; exact Bool.false_ne_true hlf
  revert hA hP hD hlf
  cases f <;> intro hlf hA hP hD <;> first
    | rfl
    | exact hA rfl
    | exact (hD rfl).elim
    | exact hP rfl hlf

theorem live_core (X : Ext) (r fm : Int) (N : Ctx) (f : Field) (i : Nat) :
    Live (startCore X (mixerOn X r fm N)) f i = Live N f i := by
  cases f <;> rfl

/-- **Restart**: `xmp_start_player` on two contexts in any state ≥ LOADED that agree on `B` yields the same view -/
theorem restart_view_agree (X : Ext) (r fm : Int) {L P : Ctx} (hB : AgreeOn B L P) (hp : PartialAgree L P)
    (hlive : L .m_xxo_info_time (startOrd L) ≠ -1) (hspeed : L .m_xxo_info_speed (startOrd L) ≠ 0) :
    playerView (startPlayer X r fm L) = playerView (startPlayer X r fm P) := by
  rw [startPlayer_norm, startPlayer_norm]
  have hBn : AgreeOn B (norm L) (norm P) := by
    intro f hf; rw [norm_B L f hf, norm_B P f hf]; exact hB f hf
  have ht : norm L .m_xxo_info_time = L .m_xxo_info_time := norm_partial L _ (by decide)
  have hn : norm L .m_num_sequences = L .m_num_sequences := norm_partial L _ (by decide)
  have ht' : norm P .m_xxo_info_time = P .m_xxo_info_time := norm_partial P _ (by decide)
  have hn' : norm P .m_num_sequences = P .m_num_sequences := norm_partial P _ (by decide)
  have htLP : L .m_xxo_info_time = P .m_xxo_info_time := hB _ (by decide)
  have hnLP : L .m_num_sequences = P .m_num_sequences := hB _ (by decide)
  have hpn : PartialAgree (norm L) (norm P) := by
    intro f i hf hl
    have e₁ : norm L f = L f := norm_partial L f (by rw [hf]; rfl)
    have e₂ : norm P f = P f := norm_partial P f (by rw [hf]; rfl)
    rw [e₁, e₂]
    apply hp f i hf
    rw [← live_congr ht hn f i]; exact hl
  have hlive' : norm L .m_xxo_info_time (startOrd (norm L)) ≠ -1 := by rw [startOrd_norm, ht]; exact hlive
  have hspeed' : norm L .m_xxo_info_speed (startOrd (norm L)) ≠ 0 := by
    rw [startOrd_norm, norm_partial L _ (by decide)]; exact hspeed
  have hag := core_agree X r fm hBn hpn hlive' hspeed'
  funext f i
  unfold playerView
  have hlv : Live (startCore X (mixerOn X r fm (norm L))) f i = Live (startCore X (mixerOn X r fm (norm P))) f i := by
    rw [live_core, live_core]
    exact live_congr (by rw [ht, ht', htLP]) (by rw [hn, hn', hnLP]) f i
  rw [← hlv]
  by_cases hl : Live (startCore X (mixerOn X r fm (norm L))) f i = true
  · rw [if_pos hl, if_pos hl]; exact hag f i hl
  · rw [if_neg hl, if_neg hl]


theorem start_agree (X : Ext) (r fm : Int) {L₁ L₂ : Ctx} (h7 : AgreeOn A7 L₁ L₂) (hp : PartialAgree L₁ L₂)
    (hs₁ : L₁ .state 0 = K.XMP_STATE_LOADED) (hs₂ : L₂ .state 0 = K.XMP_STATE_LOADED)
    (hlive : L₁ .m_xxo_info_time (startOrd L₁) ≠ -1) (hspeed : L₁ .m_xxo_info_speed (startOrd L₁) ≠ 0) :
    ∀ f i, Live (startPlayer X r fm L₁) f i = true → startPlayer X r fm L₁ f i = startPlayer X r fm L₂ f i := by
  rw [startPlayer_loaded X r fm L₁ hs₁, startPlayer_loaded X r fm L₂ hs₂]
  have h8 := mixerOn_agree X r fm h7
  obtain ⟨hl, ho, hc, hm, hmu⟩ := startCore_deps h8
  have hr := restrict_congr h8 startReads_sub_A8
  have ho₁ := startOrd_mixerOn X r fm L₁
  have hlv : ∀ f, PartialField f = true → (match f with
      | .m_xxo_info_speed | .m_xxo_info_bpm | .m_xxo_info_gvl | .m_xxo_info_st26_speed => true | _ => false) = true →
      L₁ f (startOrd L₁) = L₂ f (startOrd L₁) := by
    intro f hf hx
    apply hp f _ hf
    cases f <;> first | exact absurd hx (by decide) | (simp only [Live]; simpa using hlive)
  have hbpm : mixerOn X r fm L₁ .m_xxo_info_bpm (startOrd (mixerOn X r fm L₂)) = mixerOn X r fm L₂ .m_xxo_info_bpm (startOrd (mixerOn X r fm L₂)) := by
    rw [← ho, ho₁]; exact hlv _ rfl rfl
  have hgvl : mixerOn X r fm L₁ .m_xxo_info_gvl (startOrd (mixerOn X r fm L₂)) = mixerOn X r fm L₂ .m_xxo_info_gvl (startOrd (mixerOn X r fm L₂)) := by
    rw [← ho, ho₁]; exact hlv _ rfl rfl
  have hst : mixerOn X r fm L₁ .m_xxo_info_st26_speed (startOrd (mixerOn X r fm L₂)) = mixerOn X r fm L₂ .m_xxo_info_st26_speed (startOrd (mixerOn X r fm L₂)) := by
    rw [← ho, ho₁]; exact hlv _ rfl rfl
  have hspd : mixerOn X r fm L₁ .m_xxo_info_speed (startOrd (mixerOn X r fm L₂)) = mixerOn X r fm L₂ .m_xxo_info_speed (startOrd (mixerOn X r fm L₂)) := by
    rw [← ho, ho₁]; exact hlv _ rfl rfl
  have htime : mixerOn X r fm L₁ .m_xxo_info_time = mixerOn X r fm L₂ .m_xxo_info_time := h8 _ (by decide)
  have htf : mixerOn X r fm L₁ .m_time_factor = mixerOn X r fm L₂ .m_time_factor := h8 _ (by decide)
  have hrr : mixerOn X r fm L₁ .m_rrate = mixerOn X r fm L₂ .m_rrate := h8 _ (by decide)
  have hchn : mixerOn X r fm L₁ .m_mod_chn = mixerOn X r fm L₂ .m_mod_chn := h8 _ (by decide)
  have hsx : mixerOn X r fm L₁ .smix_chn = mixerOn X r fm L₂ .smix_chn := h8 _ (by decide)
  have hscan : mixerOn X r fm L₁ .p_scan = mixerOn X r fm L₂ .p_scan := h8 _ (by decide)
  have hne₂ : mixerOn X r fm L₂ .m_xxo_info_speed (startOrd (mixerOn X r fm L₂)) ≠ 0 := by
    rw [← hspd, ← ho, ho₁]; exact hspeed
  have hin : startIn X (mixerOn X r fm L₁) = startIn X (mixerOn X r fm L₂) := by
    simp only [startIn, hl, ho, hc, hm, hmu, hr, hbpm, hgvl, hst, hspd, htime, htf, hrr, hchn, hsx, hscan, if_pos hne₂]
  intro f i hlf
  unfold startCore at hlf ⊢
  rw [hin] at hlf ⊢
  have hA : A8 f = true → mixerOn X r fm L₁ f i = mixerOn X r fm L₂ f i := fun h => congrFun (h8 f h) i
  have hP : PartialField f = true → Live L₁ f i = true → L₁ f i = L₂ f i := hp f i
  have hD : Dead f = true → False := fun hd => by
    rw [live_of_dead _ _ _ hd] at hlf; exact Bool.false_ne_true hlf
  revert hA hP hD hlf
  cases f <;> intro hlf hA hP hD <;> first
    | rfl
    | exact hA rfl
    | exact (hD rfl).elim
    | exact hP rfl hlf

theorem live_startPlayer (X : Ext) (r fm : Int) (L : Ctx) (hs : L .state 0 = K.XMP_STATE_LOADED) (f : Field) (i : Nat) :
    Live (startPlayer X r fm L) f i = Live L f i := by
  rw [startPlayer_loaded X r fm L hs]
  cases f <;> rfl

/-- equal player views after `xmp_start_player` on two loaded states that agree on `A7` -/
theorem view_agree (X : Ext) (r fm : Int) {L₁ L₂ : Ctx} (h7 : AgreeOn A7 L₁ L₂) (hp : PartialAgree L₁ L₂)
    (hs₁ : L₁ .state 0 = K.XMP_STATE_LOADED) (hs₂ : L₂ .state 0 = K.XMP_STATE_LOADED)
    (hlive : L₁ .m_xxo_info_time (startOrd L₁) ≠ -1) (hspeed : L₁ .m_xxo_info_speed (startOrd L₁) ≠ 0) :
    playerView (startPlayer X r fm L₁) = playerView (startPlayer X r fm L₂) := by
  have hag := start_agree X r fm h7 hp hs₁ hs₂ hlive hspeed
  have ht : L₁ .m_xxo_info_time = L₂ .m_xxo_info_time := h7 _ (by decide)
  have hn : L₁ .m_num_sequences = L₂ .m_num_sequences := h7 _ (by decide)
  funext f i
  unfold playerView
  have hlv : Live (startPlayer X r fm L₁) f i = Live (startPlayer X r fm L₂) f i := by
    rw [live_startPlayer X r fm L₁ hs₁, live_startPlayer X r fm L₂ hs₂]
    exact live_congr ht hn f i
  rw [← hlv]
  by_cases hl : Live (startPlayer X r fm L₁) f i = true
  · rw [if_pos hl, if_pos hl]; exact hag f i hl
  · rw [if_neg hl, if_neg hl]

end Xmp.Reset
