import XmpModel.Sample
/-! Helper lemmas for C20 (loop-style passes = closed forms). -/
namespace Xmp.Sample
end Xmp.Sample
