import XmpModel.Sample
/-! Helper lemmas for C20: every loop-style pass of `Xmp.Sample` computes its closed form
(`Xmp.Sample.Spec`). -/
namespace Xmp.Sample
open Gen Spec

/-! ### lists by index -/

theorem nth_nil (i : Nat) : nth [] i = 0 := by simp [nth]
theorem nth_cons_zero (x : UInt8) (p : Bytes) : nth (x :: p) 0 = x := by simp [nth]
theorem nth_cons_succ (x : UInt8) (p : Bytes) (i : Nat) : nth (x :: p) (i + 1) = nth p i := by simp [nth]

theorem nth_eq_getElem (p : Bytes) (i : Nat) (h : i < p.length) : nth p i = p[i] := by
  simp [nth, List.getD_eq_getElem?_getD, h]

theorem nth_ge (p : Bytes) (i : Nat) (h : p.length ≤ i) : nth p i = 0 := by
  simp [nth, List.getD_eq_getElem?_getD, h]

theorem ext_nth {a b : Bytes} (hl : a.length = b.length) (h : ∀ i, i < a.length → nth a i = nth b i) : a = b := by
  apply List.ext_getElem hl
  intro i h1 h2
  have := h i h1
  rwa [nth_eq_getElem a i h1, nth_eq_getElem b i h2] at this

@[simp] theorem length_build (n : Nat) (f : Nat → UInt8) : (build n f).length = n := by simp [build]

theorem nth_build (n : Nat) (f : Nat → UInt8) (i : Nat) (h : i < n) : nth (build n f) i = f i := by
  simp [nth, build, List.getD_eq_getElem?_getD, h]

theorem build_succ (n : Nat) (f : Nat → UInt8) : build (n + 1) f = f 0 :: build n (fun i => f (i + 1)) := by
  simp [build, List.range_succ_eq_map, List.map_map, Function.comp_def]

theorem build_zero (f : Nat → UInt8) : build 0 f = [] := by simp [build]

theorem build_congr (n : Nat) (f g : Nat → UInt8) (h : ∀ i, i < n → f i = g i) : build n f = build n g := by
  apply ext_nth (by simp)
  intro i hi
  simp only [length_build] at hi
  rw [nth_build _ _ _ hi, nth_build _ _ _ hi, h i hi]

theorem nth_append_left (a b : Bytes) (i : Nat) (h : i < a.length) : nth (a ++ b) i = nth a i := by
  simp [nth, List.getD_eq_getElem?_getD, List.getElem?_append, h]

theorem nth_append_right (a b : Bytes) (i : Nat) (h : a.length ≤ i) : nth (a ++ b) i = nth b (i - a.length) := by
  have : ¬ i < a.length := by omega
  simp [nth, List.getD_eq_getElem?_getD, List.getElem?_append, this]

theorem nth_drop (p : Bytes) (k i : Nat) : nth (p.drop k) i = nth p (k + i) := by
  simp [nth, List.getD_eq_getElem?_getD, List.getElem?_drop]

theorem nth_take (p : Bytes) (k i : Nat) (h : i < k) : nth (p.take k) i = nth p i := by
  simp [nth, List.getD_eq_getElem?_getD, h]

/-- a list is the `build` of its own index function -/
theorem eq_build (p : Bytes) : p = build p.length (nth p) := by
  apply ext_nth (by simp)
  intro i hi
  rw [nth_build _ _ _ hi]

/-! ### byte-wise passes: 7-bit shift, 8-bit sign flip, VIDC -/

/-- the common shape of `convert_7bit_to_8bit`, the 8-bit `convert_signal` and `convert_vidc_to_linear` -/
def mapPrefix (f : UInt8 → UInt8) : Nat → Bytes → Bytes
  | l + 1, x :: p => f x :: mapPrefix f l p
  | _, p => p

theorem convert7bit_eq : ∀ l p, convert7bit l p = mapPrefix (· <<< 1) l p
  | 0, p => by simp [convert7bit, mapPrefix]
  | l + 1, [] => by simp [convert7bit, mapPrefix]
  | l + 1, x :: p => by simp [convert7bit, mapPrefix, convert7bit_eq l p]

theorem signal8_eq : ∀ l p, signal8 l p = mapPrefix (· + 0x80) l p
  | 0, p => by simp [signal8, mapPrefix]
  | l + 1, [] => by simp [signal8, mapPrefix]
  | l + 1, x :: p => by simp [signal8, mapPrefix, signal8_eq l p]

theorem convertVidc_eq : ∀ l p, convertVidc l p = mapPrefix vidcByte l p
  | 0, p => by simp [convertVidc, mapPrefix]
  | l + 1, [] => by simp [convertVidc, mapPrefix]
  | l + 1, x :: p => by simp [convertVidc, mapPrefix, convertVidc_eq l p]

theorem length_mapPrefix (f : UInt8 → UInt8) : ∀ l p, (mapPrefix f l p).length = p.length
  | 0, p => by simp [mapPrefix]
  | l + 1, [] => by simp [mapPrefix]
  | l + 1, x :: p => by simp [mapPrefix, length_mapPrefix f l p]

theorem nth_mapPrefix (f : UInt8 → UInt8) : ∀ l p i, i < p.length →
    nth (mapPrefix f l p) i = if i < l then f (nth p i) else nth p i
  | 0, p, i, _ => by simp [mapPrefix]
  | l + 1, [], i, h => by simp at h
  | l + 1, x :: p, 0, _ => by simp [mapPrefix, nth_cons_zero]
  | l + 1, x :: p, i + 1, h => by
    simp only [mapPrefix, nth_cons_succ]
    rw [nth_mapPrefix f l p i (by simpa using h)]
    simp

theorem mapPrefix_closed (f : UInt8 → UInt8) (l : Nat) (p : Bytes) :
    mapPrefix f l p = build p.length fun i => if i < l then f (nth p i) else nth p i := by
  apply ext_nth (by simp [length_mapPrefix])
  intro i hi
  rw [length_mapPrefix] at hi
  rw [nth_mapPrefix f l p i hi, nth_build _ _ _ hi]

theorem convert7bit_closed (l : Nat) (p : Bytes) : convert7bit l p = Spec.shl1 l p := by
  rw [convert7bit_eq, mapPrefix_closed]; rfl

/-- the regenerated C table is the published VIDC law -/
theorem vdicTable_law : vdicTable = Spec.vidcLaw := by decide +kernel

theorem vidcByte_eq (x : UInt8) : vidcByte x = Spec.vidcLin x := by
  have h : ∀ n, n < 256 → vidcByte (UInt8.ofNat n) = Spec.vidcLin (UInt8.ofNat n) := by
    rw [show vidcByte = fun (x : UInt8) => (let amp : Int := Spec.vidcLaw.getD (x >>> 1).toNat 0
          UInt8.ofNat ((if x &&& 1 != 0 then -amp else amp) % 256).toNat) from by
      funext x; simp only [vidcByte, vdicTable_law]]
    decide +kernel
  have := h x.toNat (UInt8.toNat_lt x)
  rwa [UInt8.ofNat_toNat] at this

theorem convertVidc_closed (l : Nat) (p : Bytes) : convertVidc l p = Spec.vidc l p := by
  rw [convertVidc_eq, mapPrefix_closed]
  unfold Spec.vidc
  apply build_congr
  intro i _
  simp only [vidcByte_eq]

theorem add80_eq_xor (x : UInt8) : x + 0x80 = x ^^^ 0x80 := by
  have h : ∀ n, n < 256 → UInt8.ofNat n + 0x80 = UInt8.ofNat n ^^^ 0x80 := by decide +kernel
  have := h x.toNat (UInt8.toNat_lt x)
  rwa [UInt8.ofNat_toNat] at this

theorem signal8_closed (l : Nat) (p : Bytes) : signal8 l p = Spec.unsign l false p := by
  rw [signal8_eq, mapPrefix_closed]
  unfold Spec.unsign
  apply build_congr
  intro i _
  simp [add80_eq_xor]

/-! ### word-wise passes: endian swap, 16-bit sign flip -/

/-- the common shape of `convert_endian` and the 16-bit `convert_signal` -/
def mapPairs (g : UInt8 → UInt8 → UInt8 × UInt8) : Nat → Bytes → Bytes
  | l + 1, a :: b :: p => (g a b).1 :: (g a b).2 :: mapPairs g l p
  | _, p => p

theorem convertEndian_eq : ∀ l p, convertEndian l p = mapPairs (fun a b => (b, a)) l p
  | 0, p => by simp [convertEndian, mapPairs]
  | l + 1, [] => by simp [convertEndian, mapPairs]
  | l + 1, [x] => by simp [convertEndian, mapPairs]
  | l + 1, a :: b :: p => by simp [convertEndian, mapPairs, convertEndian_eq l p]

def sig16 (lo hi : UInt8) : UInt8 × UInt8 :=
  (UInt8.ofNat ((lo.toNat + 256 * hi.toNat + 0x8000) % 65536 % 256),
   UInt8.ofNat ((lo.toNat + 256 * hi.toNat + 0x8000) % 65536 / 256))

theorem signal16_eq : ∀ l p, signal16 l p = mapPairs sig16 l p
  | 0, p => by simp [signal16, mapPairs]
  | l + 1, [] => by simp [signal16, mapPairs]
  | l + 1, [x] => by simp [signal16, mapPairs]
  | l + 1, a :: b :: p => by simp [signal16, mapPairs, sig16, signal16_eq l p]

theorem length_mapPairs (g) : ∀ l p, (mapPairs g l p).length = p.length
  | 0, p => by simp [mapPairs]
  | l + 1, [] => by simp [mapPairs]
  | l + 1, [x] => by simp [mapPairs]
  | l + 1, a :: b :: p => by simp [mapPairs, length_mapPairs g l p]

theorem nth_mapPairs (g) : ∀ l p i, 2 * l ≤ p.length → i < p.length →
    nth (mapPairs g l p) i =
      if i < 2 * l then (if i % 2 = 0 then (g (nth p i) (nth p (i + 1))).1 else (g (nth p (i - 1)) (nth p i)).2)
      else nth p i
  | 0, p, i, _, _ => by simp [mapPairs]
  | l + 1, [], i, _, h => by simp at h
  | l + 1, [x], i, hl, _ => by simp at hl; omega
  | l + 1, a :: b :: p, 0, _, _ => by simp [mapPairs, nth_cons_zero, nth_cons_succ]
  | l + 1, a :: b :: p, 1, _, _ => by
    have : (1 : Nat) < 2 * (l + 1) := by omega
    simp [mapPairs, nth_cons_zero, nth_cons_succ, this]
  | l + 1, a :: b :: p, i + 2, hl, h => by
    simp only [mapPairs, nth_cons_succ]
    rw [nth_mapPairs g l p i (by simp at hl; omega) (by simpa using h)]
    have e1 : (i + 2) % 2 = i % 2 := by omega
    have e3 : i % 2 ≠ 0 → nth (a :: b :: p) (i + 1) = nth p (i - 1) := by
      intro h0
      have : i + 1 = i - 1 + 2 := by omega
      rw [this, nth_cons_succ, nth_cons_succ]
    rw [e1]
    by_cases hc : i < 2 * l
    · have hc' : i + 2 < 2 * (l + 1) := by omega
      by_cases h0 : i % 2 = 0
      · simp [hc, hc', h0]
      · simp [hc, hc', h0, e3 h0]
    · have hc' : ¬ i + 2 < 2 * (l + 1) := by omega
      simp [hc, hc']

theorem mapPairs_closed (g) (l : Nat) (p : Bytes) (hl : 2 * l ≤ p.length) :
    mapPairs g l p = build p.length fun i =>
      if i < 2 * l then (if i % 2 = 0 then (g (nth p i) (nth p (i + 1))).1 else (g (nth p (i - 1)) (nth p i)).2)
      else nth p i := by
  apply ext_nth (by simp [length_mapPairs])
  intro i hi
  rw [length_mapPairs] at hi
  rw [nth_mapPairs g l p i hl hi, nth_build _ _ _ hi]

theorem convertEndian_closed (l : Nat) (p : Bytes) (hl : 2 * l ≤ p.length) : convertEndian l p = Spec.bswap l p := by
  rw [convertEndian_eq, mapPairs_closed _ _ _ hl]; rfl

theorem ofNat_add128 (x : UInt8) : UInt8.ofNat ((x.toNat + 128) % 256) = x ^^^ 0x80 := by
  have h : ∀ n, n < 256 → UInt8.ofNat ((n + 128) % 256) = UInt8.ofNat n ^^^ 0x80 := by decide +kernel
  have := h x.toNat (UInt8.toNat_lt x)
  rwa [UInt8.ofNat_toNat] at this

theorem sig16_fst (lo hi : UInt8) : (sig16 lo hi).1 = lo := by
  have h1 := UInt8.toNat_lt lo
  have h2 := UInt8.toNat_lt hi
  have : (lo.toNat + 256 * hi.toNat + 0x8000) % 65536 % 256 = lo.toNat := by omega
  simp only [sig16, this, UInt8.ofNat_toNat]

theorem sig16_snd (lo hi : UInt8) : (sig16 lo hi).2 = hi ^^^ 0x80 := by
  have h1 := UInt8.toNat_lt lo
  have h2 := UInt8.toNat_lt hi
  have : (lo.toNat + 256 * hi.toNat + 0x8000) % 65536 / 256 = (hi.toNat + 128) % 256 := by omega
  simp only [sig16, this, ofNat_add128]

theorem signal16_closed (l : Nat) (p : Bytes) (hl : 2 * l ≤ p.length) : signal16 l p = Spec.unsign l true p := by
  rw [signal16_eq, mapPairs_closed _ _ _ hl]
  unfold Spec.unsign
  apply build_congr
  intro i _
  simp only [sig16_fst, sig16_snd, if_true]
  by_cases h1 : i < 2 * l <;> by_cases h2 : i % 2 = 0 <;> simp [h1, h2]

theorem convertSignal_closed (l : Nat) (is16 : Bool) (p : Bytes) (hl : is16 = true → 2 * l ≤ p.length) :
    convertSignal l is16 p = Spec.unsign l is16 p := by
  cases is16
  · simp [convertSignal, signal8_closed]
  · simp [convertSignal, signal16_closed l p (hl rfl)]

/-! ### delta decoding -/

/-- `Σ_{j < n} f j` in the shape the closed forms use -/
def psum (f : Nat → Nat) (n : Nat) : Nat := ((List.range n).map f).sum

theorem psum_zero (f : Nat → Nat) : psum f 0 = 0 := by simp [psum]

theorem psum_succ_left (f : Nat → Nat) (n : Nat) : psum f (n + 1) = f 0 + psum (fun j => f (j + 1)) n := by
  simp [psum, List.range_succ_eq_map, List.map_map, Function.comp_def]

theorem psum_succ (f : Nat → Nat) (n : Nat) : psum f (n + 1) = psum f n + f n := by
  simp [psum, List.range_succ]

theorem ofNat_congr {a b : Nat} (h : a % 256 = b % 256) : UInt8.ofNat a = UInt8.ofNat b := by
  have e1 : UInt8.ofNat a = UInt8.ofNat (a % 2 ^ 8) := UInt8.ofNat_mod_size.symm
  have e2 : UInt8.ofNat b = UInt8.ofNat (b % 2 ^ 8) := UInt8.ofNat_mod_size.symm
  rw [e1, e2]
  show UInt8.ofNat (a % 256) = UInt8.ofNat (b % 256)
  rw [h]

theorem length_delta8Chan : ∀ n a q, (delta8Chan n a q).length = q.length
  | 0, a, q => by simp [delta8Chan]
  | n + 1, a, [] => by simp [delta8Chan]
  | n + 1, a, x :: q => by simp [delta8Chan, length_delta8Chan n _ q]

theorem nth_delta8Chan : ∀ n a q i, q.length ≤ n → i < q.length →
    nth (delta8Chan n a q) i = UInt8.ofNat ((a + psum (fun j => (nth q j).toNat) (i + 1)) % 256)
  | 0, a, q, i, hl, hi => by omega
  | n + 1, a, [], i, hl, hi => by simp at hi
  | n + 1, a, x :: q, 0, hl, hi => by
    simp only [delta8Chan, nth_cons_zero, psum_succ_left, psum_zero]
    apply ofNat_congr; omega
  | n + 1, a, x :: q, i + 1, hl, hi => by
    simp only [delta8Chan, nth_cons_succ]
    rw [nth_delta8Chan n _ q i (by simp at hl; omega) (by simpa using hi)]
    rw [psum_succ_left (fun j => (nth (x :: q) j).toNat)]
    simp only [nth_cons_zero, nth_cons_succ]
    generalize psum (fun j => (nth q j).toNat) (i + 1) = S
    apply ofNat_congr; omega

theorem delta8Chan_closed (n : Nat) (q : Bytes) (h : q.length ≤ n) : delta8Chan n 0 q = Spec.prefixSums8 q := by
  apply ext_nth (by simp [length_delta8Chan, Spec.prefixSums8])
  intro i hi
  rw [length_delta8Chan] at hi
  rw [nth_delta8Chan n 0 q i h hi, Spec.prefixSums8, nth_build _ _ _ hi]
  simp [psum]

theorem word_cons_zero (lo hi : UInt8) (q : Bytes) : word (lo :: hi :: q) 0 = lo.toNat + 256 * hi.toNat := by
  simp [word, nth_cons_zero, nth_cons_succ]

theorem word_cons_succ (lo hi : UInt8) (q : Bytes) (k : Nat) : word (lo :: hi :: q) (k + 1) = word q k := by
  have e1 : 2 * (k + 1) = 2 * k + 1 + 1 := by omega
  have e2 : 2 * (k + 1) + 1 = 2 * k + 1 + 1 + 1 := by omega
  simp only [word, e1, nth_cons_succ]

theorem length_delta16Chan : ∀ n a q, (delta16Chan n a q).length = q.length
  | 0, a, q => by simp [delta16Chan]
  | n + 1, a, [] => by simp [delta16Chan]
  | n + 1, a, [x] => by simp [delta16Chan]
  | n + 1, a, lo :: hi :: q => by simp [delta16Chan, length_delta16Chan n _ q]

theorem nth_delta16Chan : ∀ n a q i, q.length ≤ 2 * n → i < q.length →
    nth (delta16Chan n a q) i =
      if i < 2 * (q.length / 2) then
        UInt8.ofNat (if i % 2 = 0 then (a + psum (word q) (i / 2 + 1)) % 65536 % 256
                     else (a + psum (word q) (i / 2 + 1)) % 65536 / 256)
      else nth q i
  | 0, a, q, i, hl, hi => by omega
  | n + 1, a, [], i, hl, hi => by simp at hi
  | n + 1, a, [x], i, hl, hi => by
    have : i = 0 := by simp at hi; omega
    subst this
    simp [delta16Chan]
  | n + 1, a, lo :: hi' :: q, 0, hl, hi => by
    have hlen : (lo :: hi' :: q).length = q.length + 2 := rfl
    have hc : 0 < 2 * ((lo :: hi' :: q).length / 2) := by omega
    simp only [delta16Chan, nth_cons_zero, hc, if_true, psum_succ_left, Nat.zero_div, psum_zero, word_cons_zero]
    apply ofNat_congr
    omega
  | n + 1, a, lo :: hi' :: q, 1, hl, hi => by
    have hlen : (lo :: hi' :: q).length = q.length + 2 := rfl
    have hc : 1 < 2 * ((lo :: hi' :: q).length / 2) := by omega
    have h1 : ¬ ((1 : Nat) % 2 = 0) := by omega
    have h2 : (1 : Nat) / 2 + 1 = 0 + 1 := rfl
    simp only [delta16Chan, nth_cons_zero, nth_cons_succ, hc, if_true, h1, if_false, h2, psum_succ_left, psum_zero,
      word_cons_zero]
    apply ofNat_congr
    have : (lo.toNat + 256 * hi'.toNat + a) = (a + (lo.toNat + 256 * hi'.toNat + 0)) := by omega
    rw [this]
  | n + 1, a, lo :: hi' :: q, i + 2, hl, hi => by
    simp only [delta16Chan, nth_cons_succ]
    rw [nth_delta16Chan n _ q i (by simp at hl; omega) (by simpa using hi)]
    have e1 : (i + 2) % 2 = i % 2 := by omega
    have e2 : (i + 2) / 2 + 1 = (i / 2 + 1) + 1 := by omega
    have hlen : (lo :: hi' :: q).length = q.length + 2 := rfl
    have e3 : (lo :: hi' :: q).length / 2 = q.length / 2 + 1 := by omega
    rw [e1, e2, e3, psum_succ_left (word (lo :: hi' :: q))]
    simp only [word_cons_zero, word_cons_succ]
    generalize psum (word q) (i / 2 + 1) = S
    have e5 : ((lo.toNat + 256 * hi'.toNat + a) % 65536 + S) % 65536 = (a + (lo.toNat + 256 * hi'.toNat + S)) % 65536 := by
      omega
    rw [e5]
    by_cases hc : i < 2 * (q.length / 2)
    · have hc' : i + 2 < 2 * (q.length / 2 + 1) := by omega
      simp [hc, hc']
    · have hc' : ¬ i + 2 < 2 * (q.length / 2 + 1) := by omega
      simp [hc, hc']

theorem delta16Chan_closed (n : Nat) (q : Bytes) (h : q.length ≤ 2 * n) : delta16Chan n 0 q = Spec.prefixSums16 q := by
  apply ext_nth (by simp [length_delta16Chan, Spec.prefixSums16])
  intro i hi
  rw [length_delta16Chan] at hi
  rw [nth_delta16Chan n 0 q i h hi, Spec.prefixSums16, nth_build _ _ _ hi]
  simp [psum]

theorem convertDelta_closed8 (frames : Nat) : ∀ c p, convertDelta frames false c p = Spec.delta8 frames c p
  | 0, p => by simp [convertDelta, Spec.delta8, Spec.planes]
  | c + 1, p => by
    have ih := convertDelta_closed8 frames c (p.drop frames)
    simp only [Spec.delta8] at ih
    simp only [convertDelta, Spec.delta8, Spec.planes, ih]
    rw [delta8Chan_closed frames _ (by simp [List.length_take]; omega)]
    simp

theorem convertDelta_closed16 (frames : Nat) : ∀ c p, convertDelta frames true c p = Spec.delta16 frames c p
  | 0, p => by simp [convertDelta, Spec.delta16, Spec.planes]
  | c + 1, p => by
    have ih := convertDelta_closed16 frames c (p.drop (2 * frames))
    simp only [Spec.delta16] at ih
    simp only [convertDelta, Spec.delta16, Spec.planes, ih]
    rw [delta16Chan_closed frames _ (by simp [List.length_take]; omega)]
    simp

/-! ### stereo interleave -/

theorem length_interleave8 : ∀ n ls rs, n ≤ ls.length → n ≤ rs.length → (interleave8 n ls rs).length = 2 * n
  | 0, ls, rs, _, _ => by simp [interleave8]
  | n + 1, [], rs, h, _ => by simp at h
  | n + 1, l :: ls, [], _, h => by simp at h
  | n + 1, l :: ls, r :: rs, h1, h2 => by
    simp only [interleave8, List.length_cons]
    rw [length_interleave8 n ls rs (by simpa using h1) (by simpa using h2)]
    omega

theorem nth_interleave8 : ∀ n ls rs i, n ≤ ls.length → n ≤ rs.length → i < 2 * n →
    nth (interleave8 n ls rs) i = if i % 2 = 0 then nth ls (i / 2) else nth rs (i / 2)
  | 0, ls, rs, i, _, _, hi => by omega
  | n + 1, [], rs, i, h, _, _ => by simp at h
  | n + 1, l :: ls, [], i, _, h, _ => by simp at h
  | n + 1, l :: ls, r :: rs, 0, _, _, _ => by simp [interleave8, nth_cons_zero]
  | n + 1, l :: ls, r :: rs, 1, _, _, _ => by simp [interleave8, nth_cons_zero, nth_cons_succ]
  | n + 1, l :: ls, r :: rs, i + 2, h1, h2, hi => by
    simp only [interleave8, nth_cons_succ]
    rw [nth_interleave8 n ls rs i (by simpa using h1) (by simpa using h2) (by omega)]
    have e1 : (i + 2) % 2 = i % 2 := by omega
    have e2 : (i + 2) / 2 = i / 2 + 1 := by omega
    rw [e1, e2, nth_cons_succ, nth_cons_succ]

theorem length_interleave16 : ∀ n ls rs, 2 * n ≤ ls.length → 2 * n ≤ rs.length → (interleave16 n ls rs).length = 4 * n
  | 0, ls, rs, _, _ => by simp [interleave16]
  | n + 1, [], rs, h, _ => by simp at h
  | n + 1, [x], rs, h, _ => by simp at h; omega
  | n + 1, l0 :: l1 :: ls, [], _, h => by simp at h
  | n + 1, l0 :: l1 :: ls, [x], _, h => by simp at h; omega
  | n + 1, l0 :: l1 :: ls, r0 :: r1 :: rs, h1, h2 => by
    simp only [interleave16, List.length_cons]
    rw [length_interleave16 n ls rs (by simp at h1; omega) (by simp at h2; omega)]
    omega

theorem nth_interleave16 : ∀ n ls rs i, 2 * n ≤ ls.length → 2 * n ≤ rs.length → i < 4 * n →
    nth (interleave16 n ls rs) i =
      if i / 2 % 2 = 0 then nth ls (2 * (i / 4) + i % 2) else nth rs (2 * (i / 4) + i % 2)
  | 0, ls, rs, i, _, _, hi => by omega
  | n + 1, [], rs, i, h, _, _ => by simp at h
  | n + 1, [x], rs, i, h, _, _ => by simp at h; omega
  | n + 1, l0 :: l1 :: ls, [], i, _, h, _ => by simp at h
  | n + 1, l0 :: l1 :: ls, [x], i, _, h, _ => by simp at h; omega
  | n + 1, l0 :: l1 :: ls, r0 :: r1 :: rs, 0, _, _, _ => by simp [interleave16, nth_cons_zero]
  | n + 1, l0 :: l1 :: ls, r0 :: r1 :: rs, 1, _, _, _ => by simp [interleave16, nth_cons_zero, nth_cons_succ]
  | n + 1, l0 :: l1 :: ls, r0 :: r1 :: rs, 2, _, _, _ => by simp [interleave16, nth_cons_zero, nth_cons_succ]
  | n + 1, l0 :: l1 :: ls, r0 :: r1 :: rs, 3, _, _, _ => by simp [interleave16, nth_cons_zero, nth_cons_succ]
  | n + 1, l0 :: l1 :: ls, r0 :: r1 :: rs, i + 4, h1, h2, hi => by
    simp only [interleave16, nth_cons_succ]
    rw [nth_interleave16 n ls rs i (by simp at h1; omega) (by simp at h2; omega) (by omega)]
    have e1 : (i + 4) / 2 % 2 = i / 2 % 2 := by omega
    have e2 : 2 * ((i + 4) / 4) + (i + 4) % 2 = 2 * (i / 4) + i % 2 + 1 + 1 := by omega
    rw [e1, e2, nth_cons_succ, nth_cons_succ, nth_cons_succ, nth_cons_succ]

theorem stereoInterleave_closed (frames : Nat) (is16 : Bool) (tmp : Bytes)
    (h : (if is16 then 4 else 2) * frames ≤ tmp.length) :
    stereoInterleave frames is16 tmp = Spec.interleave frames is16 tmp := by
  cases is16
  · simp only [Bool.false_eq_true, if_false] at h
    simp only [stereoInterleave, Spec.interleave, Bool.false_eq_true, if_false]
    have hr : frames ≤ (tmp.drop frames).length := by simp; omega
    apply ext_nth (by rw [length_interleave8 _ _ _ (by omega) hr]; simp)
    intro i hi
    rw [length_interleave8 _ _ _ (by omega) hr] at hi
    rw [nth_interleave8 _ _ _ i (by omega) hr hi, nth_build _ _ _ hi, nth_drop]
    by_cases h0 : i % 2 = 0
    · simp [h0]
    · have : i % 2 = 1 := by omega
      simp [this]
  · simp only [if_true] at h
    simp only [stereoInterleave, Spec.interleave, if_true]
    have hr : 2 * frames ≤ (tmp.drop (2 * frames)).length := by simp; omega
    apply ext_nth (by rw [length_interleave16 _ _ _ (by omega) hr]; simp)
    intro i hi
    rw [length_interleave16 _ _ _ (by omega) hr] at hi
    rw [nth_interleave16 _ _ _ i (by omega) hr hi, nth_build _ _ _ hi, nth_drop]
    by_cases h0 : i / 2 % 2 = 0
    · simp [h0]
    · have : i / 2 % 2 = 1 := by omega
      have e : 2 * frames + (2 * (i / 4) + i % 2) = 2 * (frames + i / 4) + i % 2 := by omega
      simp [this, e]

/-! ### lengths of the closed forms, and the pipeline -/

@[simp] theorem length_shl1 (c : Nat) (p : Bytes) : (Spec.shl1 c p).length = p.length := by simp [Spec.shl1]
@[simp] theorem length_bswap (c : Nat) (p : Bytes) : (Spec.bswap c p).length = p.length := by simp [Spec.bswap]
@[simp] theorem length_unsign (c : Nat) (b : Bool) (p : Bytes) : (Spec.unsign c b p).length = p.length := by
  simp [Spec.unsign]
@[simp] theorem length_vidc (c : Nat) (p : Bytes) : (Spec.vidc c p).length = p.length := by simp [Spec.vidc]
@[simp] theorem length_prefixSums8 (p : Bytes) : (Spec.prefixSums8 p).length = p.length := by simp [Spec.prefixSums8]
@[simp] theorem length_prefixSums16 (p : Bytes) : (Spec.prefixSums16 p).length = p.length := by simp [Spec.prefixSums16]

theorem length_planes (n : Nat) (g : Bytes → Bytes) (hg : ∀ q, (g q).length = q.length) :
    ∀ c p, (Spec.planes n g c p).length = p.length
  | 0, p => by simp [Spec.planes]
  | c + 1, p => by
    simp only [Spec.planes, List.length_append, hg, length_planes n g hg c, List.length_take, List.length_drop]
    omega

@[simp] theorem length_delta8 (f c : Nat) (p : Bytes) : (Spec.delta8 f c p).length = p.length :=
  length_planes _ _ length_prefixSums8 _ _
@[simp] theorem length_delta16 (f c : Nat) (p : Bytes) : (Spec.delta16 f c p).length = p.length :=
  length_planes _ _ length_prefixSums16 _ _

theorem length_interleave (frames : Nat) (is16 : Bool) (p : Bytes) :
    (Spec.interleave frames is16 p).length = (if is16 then 4 else 2) * frames := by
  cases is16 <;> simp [Spec.interleave]

theorem frameLen_cases (is16 stereo : Bool) :
    frameLen is16 stereo = (if is16 then 2 else 1) * (if stereo then 2 else 1) := rfl

theorem length_pre (flags : Nat) (is16 stereo : Bool) (len : Nat) (raw : Bytes) :
    (Spec.pre flags is16 stereo len raw).length = raw.length := by
  unfold Spec.pre
  simp only
  generalize len * (if stereo then 2 else 1) = cnt
  generalize h1 : (if fl flags SAMPLE_FLAG_7BIT then Spec.shl1 cnt raw else raw) = d1
  have l1 : d1.length = raw.length := by subst h1; split <;> simp
  generalize h2 : (if (is16 && fl flags SAMPLE_FLAG_BIGEND) = true then Spec.bswap cnt d1 else d1) = d2
  have l2 : d2.length = raw.length := by subst h2; split <;> simp [l1]
  generalize h3 : (if fl flags SAMPLE_FLAG_DIFF = true then
               (if is16 then Spec.delta16 len (if stereo then 2 else 1) d2 else Spec.delta8 len (if stereo then 2 else 1) d2)
             else if fl flags SAMPLE_FLAG_8BDIFF = true then
               Spec.delta8 (if is16 then len * 2 else len) (if stereo then 2 else 1) d2 else d2) = d3
  have l3 : d3.length = raw.length := by
    subst h3; split
    · split <;> simp [l2]
    · split <;> simp [l2]
  generalize h4 : (if fl flags SAMPLE_FLAG_UNS = true then Spec.unsign cnt is16 d3 else d3) = d4
  have l4 : d4.length = raw.length := by subst h4; split <;> simp [l3]
  split <;> simp [l4]

theorem length_pcm (flags : Nat) (is16 stereo : Bool) (n : Nat) (raw : Bytes)
    (hraw : raw.length = n * frameLen is16 stereo) :
    (Spec.pcm flags is16 stereo n raw).length = n * frameLen is16 stereo := by
  unfold Spec.pcm
  simp only
  split
  · rename_i h
    simp only [Bool.and_eq_true] at h
    rw [length_interleave, frameLen_cases, h.1]
    cases is16 <;> simp <;> omega
  · rw [length_pre, hraw]

/-- **The conversion passes, in the C's order, compute the closed-form pipeline.** -/
theorem convert_closed (flags : Nat) (is16 stereo : Bool) (len : Nat) (dest : Bytes)
    (hlen : dest.length = len * frameLen is16 stereo) :
    (let d := convert flags is16 len (if stereo then 2 else 1) dest
     if stereo && !fl flags SAMPLE_FLAG_INTERLEAVED then stereoInterleave len is16 d else d)
      = Spec.pcm flags is16 stereo len dest := by
  simp only [convert, Spec.pcm, Spec.pre, convert7bit_closed, convertVidc_closed]
  generalize hc : len * (if stereo then 2 else 1) = cnt
  have hcnt : (if is16 then 2 else 1) * cnt = dest.length := by
    rw [hlen, ← hc, frameLen_cases]; cases is16 <;> cases stereo <;> simp <;> omega
  generalize h1 : (if fl flags SAMPLE_FLAG_7BIT then Spec.shl1 cnt dest else dest) = d1
  have l1 : d1.length = dest.length := by subst h1; split <;> simp
  have e2 : (if (is16 && fl flags SAMPLE_FLAG_BIGEND) = true then convertEndian cnt d1 else d1)
          = (if (is16 && fl flags SAMPLE_FLAG_BIGEND) = true then Spec.bswap cnt d1 else d1) := by
    split
    · rename_i h; simp only [Bool.and_eq_true] at h
      rw [convertEndian_closed _ _ (by rw [l1, ← hcnt, h.1]; simp)]
    · rfl
  rw [e2]
  generalize h2 : (if (is16 && fl flags SAMPLE_FLAG_BIGEND) = true then Spec.bswap cnt d1 else d1) = d2
  have l2 : d2.length = dest.length := by subst h2; split <;> simp [l1]
  have e3 : (if fl flags SAMPLE_FLAG_DIFF = true then convertDelta len is16 (if stereo then 2 else 1) d2
             else if fl flags SAMPLE_FLAG_8BDIFF = true then
               convertDelta (if is16 then len * 2 else len) false (if stereo then 2 else 1) d2 else d2)
          = (if fl flags SAMPLE_FLAG_DIFF = true then
               (if is16 then Spec.delta16 len (if stereo then 2 else 1) d2 else Spec.delta8 len (if stereo then 2 else 1) d2)
             else if fl flags SAMPLE_FLAG_8BDIFF = true then
               Spec.delta8 (if is16 then len * 2 else len) (if stereo then 2 else 1) d2 else d2) := by
    rw [convertDelta_closed8]
    cases is16
    · rw [convertDelta_closed8]; simp
    · rw [convertDelta_closed16]; simp
  rw [e3]
  generalize h3 : (if fl flags SAMPLE_FLAG_DIFF = true then
               (if is16 then Spec.delta16 len (if stereo then 2 else 1) d2 else Spec.delta8 len (if stereo then 2 else 1) d2)
             else if fl flags SAMPLE_FLAG_8BDIFF = true then
               Spec.delta8 (if is16 then len * 2 else len) (if stereo then 2 else 1) d2 else d2) = d3
  have l3 : d3.length = dest.length := by
    subst h3; split
    · split <;> simp [l2]
    · split <;> simp [l2]
  have e4 : (if fl flags SAMPLE_FLAG_UNS = true then convertSignal cnt is16 d3 else d3)
          = (if fl flags SAMPLE_FLAG_UNS = true then Spec.unsign cnt is16 d3 else d3) := by
    split
    · rw [convertSignal_closed _ _ _ (by intro h; rw [l3, ← hcnt, h]; simp)]
    · rfl
  rw [e4]
  generalize h4 : (if fl flags SAMPLE_FLAG_UNS = true then Spec.unsign cnt is16 d3 else d3) = d4
  have l4 : d4.length = dest.length := by subst h4; split <;> simp [l3]
  generalize h5 : (if fl flags SAMPLE_FLAG_VIDC = true then Spec.vidc cnt d4 else d4) = d5
  have l5 : d5.length = dest.length := by subst h5; split <;> simp [l4]
  split
  · rename_i h; simp only [Bool.and_eq_true] at h
    rw [stereoInterleave_closed _ _ _ (by
      rw [l5, hlen, frameLen_cases, h.1]; cases is16 <;> simp <;> omega)]
  · rfl

/-! ### truncation block -/

theorem and3 (x : Nat) : x &&& 3 = x % 4 := Nat.and_two_pow_sub_one_eq_mod x 2
theorem shr1 (x : Nat) : x >>> 1 = x / 2 := by simp [Nat.shiftRight_eq_div_pow]
theorem shl1' (x : Nat) : x <<< 1 = 2 * x := by simp [Nat.shiftLeft_eq]; omega

/-- **The truncation block in closed form**: nothing is loaded when no byte (or no complete ADPCM
    table) is left; otherwise the sample keeps the whole frames that are present. -/
theorem truncBlock_closed (flags : Nat) (is16 stereo : Bool) (n rem : Nat) :
    truncBlock flags is16 stereo (frameLen is16 stereo) (n * frameLen is16 stereo) (n : Int) rem =
      if rem = 0 ∨ (fl flags SAMPLE_FLAG_ADPCM = true ∧ rem < 16) then none
      else
        let b := Spec.effBytes (fl flags SAMPLE_FLAG_ADPCM) (frameLen is16 stereo) (n * frameLen is16 stereo) rem
        some (b, ((b / frameLen is16 stereo : Nat) : Int)) := by
  unfold truncBlock Spec.effBytes
  by_cases h0 : rem = 0
  · simp [h0]
  · simp only [h0, if_false, false_or]
    generalize hneed : n * frameLen is16 stereo = need
    by_cases ha : fl flags SAMPLE_FLAG_ADPCM = true
    · simp only [ha, if_true, true_and]
      by_cases h16 : rem < 16
      · simp [h16]
      · simp only [h16, if_false, shr1, shl1']
        by_cases hb : 16 + (need + 1) / 2 > rem
        · have hov : 16 + (need + 1) / 2 - rem ≠ 0 := by omega
          simp only [hb, if_true, hov, ne_eq, not_false_eq_true]
          subst hneed
          cases is16 <;> cases stereo <;> simp [frameLen, and3, Nat.and_one_is_mod, shr1] at hb hov ⊢ <;> (try rw [if_neg hov]) <;>
          (try simp only [Option.some.injEq, Prod.mk.injEq]) <;> omega
        · simp only [hb, if_false, ne_eq, not_true_eq_false]
          subst hneed
          cases is16 <;> cases stereo <;> simp [frameLen] at hb ⊢ <;> omega
    · simp only [ha]
      by_cases hb : need > rem
      · have hov : need - rem ≠ 0 := by omega
        simp only [hb, if_true, hov, ne_eq, not_false_eq_true]
        subst hneed
        cases is16 <;> cases stereo <;> simp [frameLen, and3, Nat.and_one_is_mod, shr1] at hb hov ⊢ <;> (try rw [if_neg hov]) <;>
          (try simp only [Option.some.injEq, Prod.mk.injEq]) <;> omega
      · simp only [hb, if_false, ne_eq, not_true_eq_false]
        subst hneed
        cases is16 <;> cases stereo <;> simp [frameLen] at hb ⊢ <;> omega

/-! ### loop sanity -/

theorem clr_of_not_sf (g : Flg) (m : Nat) (h : sf g m = false) : clr g m = g := by
  simp only [sf, bne_eq_false_iff_eq] at h
  simp only [clr]
  ext i hi
  have := congrArg (fun v => v[i]) h
  simp only [BitVec.getElem_and] at this
  simp only [BitVec.getElem_and, BitVec.getElem_not]
  cases hx : g[i] <;> simp_all

theorem fixBidir_eq (h : Hdr) (mb ml : Nat) :
    (if sf h.flg mb then (if !sf h.flg ml then { h with flg := clr h.flg mb } else h) else h)
      = { h with flg := if !sf h.flg ml then clr h.flg mb else h.flg } := by
  cases hb : sf h.flg mb <;> cases hl : sf h.flg ml <;> simp [clr_of_not_sf, hb]

/-- the two "disable bidirectional flag" statements of the C -/
def cTail (h : Hdr) : Hdr :=
  let h := if sf h.flg XMP_SAMPLE_LOOP_BIDIR then
             (if !sf h.flg XMP_SAMPLE_LOOP then { h with flg := clr h.flg XMP_SAMPLE_LOOP_BIDIR } else h)
           else h
  let h := if sf h.flg XMP_SAMPLE_SLOOP_BIDIR then
             (if !sf h.flg XMP_SAMPLE_SLOOP then { h with flg := clr h.flg XMP_SAMPLE_SLOOP_BIDIR } else h)
           else h
  h

/-- the same in the closed form's shape -/
def sTail (g : Flg) : Flg :=
  let g := if !sf g XMP_SAMPLE_LOOP then clr g XMP_SAMPLE_LOOP_BIDIR else g
  let g := if !sf g XMP_SAMPLE_SLOOP then clr g XMP_SAMPLE_SLOOP_BIDIR else g
  g

theorem fixFlg_eq (g : Flg) (mb ml : Nat) :
    (if sf g mb then (if !sf g ml then clr g mb else g) else g) = (if !sf g ml then clr g mb else g) := by
  cases hb : sf g mb <;> cases hl : sf g ml <;> simp [clr_of_not_sf, hb]

theorem cTail_eq (h : Hdr) : cTail h = { h with flg := sTail h.flg } := by
  obtain ⟨len, lps, lpe, g⟩ := h
  have e1 : ∀ (g : Flg) (mb ml : Nat), (if sf g mb then (if !sf g ml then ({ len := len, lps := lps, lpe := lpe, flg := clr g mb } : Hdr)
      else ⟨len, lps, lpe, g⟩) else ⟨len, lps, lpe, g⟩) = ⟨len, lps, lpe, if !sf g ml then clr g mb else g⟩ := by
    intro g mb ml
    rw [← fixFlg_eq]
    split <;> (try split) <;> rfl
  simp only [cTail, sTail, e1]

theorem loopSanity_closed (h : Hdr) : loopSanity h = Spec.loop h := by
  obtain ⟨len, lps, lpe, flg⟩ := h
  have L : loopSanity ⟨len, lps, lpe, flg⟩ = cTail
      (let h : Hdr := ⟨len, lps, lpe, flg⟩
       let h := if h.lps < 0 then { h with lps := 0 } else h
       let h := if h.lpe > h.len then { h with lpe := h.len } else h
       if h.lps ≥ h.len ∨ h.lps ≥ h.lpe then
             { h with lps := 0, lpe := 0, flg := clr h.flg (XMP_SAMPLE_LOOP ||| XMP_SAMPLE_LOOP_BIDIR) }
           else h) := rfl
  rw [L, cTail_eq]
  unfold Spec.loop sTail
  simp only
  have e1 : (if lps < 0 then ({ len := len, lps := 0, lpe := lpe, flg := flg } : Hdr) else ⟨len, lps, lpe, flg⟩)
      = ⟨len, max lps 0, lpe, flg⟩ := by
    split
    · congr; omega
    · congr; omega
  rw [e1]
  simp only
  have e2 : (if lpe > len then ({ len := len, lps := max lps 0, lpe := len, flg := flg } : Hdr) else ⟨len, max lps 0, lpe, flg⟩)
      = ⟨len, max lps 0, min lpe len, flg⟩ := by
    split
    · congr; omega
    · congr; omega
  rw [e2]
  simp only
  have e3 : (max lps 0 ≥ len ∨ max lps 0 ≥ min lpe len) ↔ ¬ (max lps 0 < min lpe len) := by omega
  simp only [e3]
  by_cases hv : max lps 0 < min lpe len
  · simp only [hv, not_true_eq_false, if_false, if_true]
  · simp only [hv, not_false_eq_true, if_false, if_true]

/-! ### guard fill -/

theorem build_succ_right (n : Nat) (f : Nat → UInt8) : build (n + 1) f = build n f ++ [f n] := by
  simp [build, List.range_succ]

/-- end guard: `n` bytes appended, byte `j` replicates byte `j mod framelen` of the last frame -/
theorem guardEnd_closed (fl : Nat) (hfl : fl = 1 ∨ fl = 2 ∨ fl = 4) :
    ∀ n (a : Bytes), fl ≤ a.length →
      guardEnd n fl a = a ++ build n (fun j => nth a (a.length - fl + j % fl))
  | 0, a, _ => by simp [guardEnd, build_zero]
  | n + 1, a, h => by
    rw [guardEnd, guardEnd_closed fl hfl n _ (by simp; omega), build_succ, List.append_assoc]
    congr 1
    simp only [List.singleton_append, List.length_append, List.length_singleton]
    have h0 : 0 % fl = 0 := by simp
    rw [h0, Nat.add_zero]
    show nth a (a.length - fl) :: _ = _
    congr 1
    apply build_congr
    intro j _
    rcases hfl with h1 | h1 | h1 <;> subst h1
    · have e1 : j % 1 = 0 := by omega
      have e2 : (j + 1) % 1 = 0 := by omega
      rw [e1, e2, nth_append_right _ _ _ (by omega)]
      have : a.length + 1 - 1 + 0 - a.length = 0 := by omega
      rw [this, nth_cons_zero]
      rfl
    · by_cases hj : j % 2 = 1
      · have e2 : (j + 1) % 2 = 0 := by omega
        rw [hj, e2, nth_append_right _ _ _ (by omega)]
        have : a.length + 1 - 2 + 1 - a.length = 0 := by omega
        rw [this, nth_cons_zero]; rfl
      · have e1 : j % 2 = 0 := by omega
        have e2 : (j + 1) % 2 = 1 := by omega
        rw [e1, e2, nth_append_left _ _ _ (by omega)]
        congr 1; omega
    · by_cases hj : j % 4 = 3
      · have e2 : (j + 1) % 4 = 0 := by omega
        rw [hj, e2, nth_append_right _ _ _ (by omega)]
        have : a.length + 1 - 4 + 3 - a.length = 0 := by omega
        rw [this, nth_cons_zero]; rfl
      · have e2 : (j + 1) % 4 = j % 4 + 1 := by omega
        rw [e2, nth_append_left _ _ _ (by omega)]
        congr 1; omega

theorem guardStart_closed (fl : Nat) (hfl : fl = 1 ∨ fl = 2 ∨ fl = 4) (z0 z1 z2 z3 : UInt8) :
    ∀ (rest : Bytes), 4 ≤ rest.length →
      guardStart fl (z0 :: z1 :: z2 :: z3 :: rest) = build 4 (fun k => nth rest ((k + 4 * fl - 4) % fl)) ++ rest
  | [], h => by simp at h
  | [_], h => by simp at h
  | [_, _], h => by simp at h
  | [_, _, _], h => by simp at h
  | r0 :: r1 :: r2 :: r3 :: rest, _ => by
    rcases hfl with h1 | h1 | h1 <;> subst h1 <;>
      simp [guardStart, build, List.range_succ_eq_map, nth]

/-- **Guard fill in closed form.** -/
theorem guards_closed (fl : Nat) (hfl : fl = 1 ∨ fl = 2 ∨ fl = 4) (pcm : Bytes) (hmod : pcm.length % fl = 0) :
    guardStart fl (guardEnd (4 * fl) fl (([0, 0, 0, 0] : Bytes) ++ pcm)) = Spec.withGuards fl pcm := by
  have hfl4 : fl ≤ 4 ∧ 0 < fl := by omega
  rw [guardEnd_closed fl hfl _ _ (by simp; omega)]
  unfold Spec.withGuards
  by_cases hn : pcm.length = 0
  · have : pcm = [] := List.eq_nil_of_length_eq_zero hn
    subst this
    simp only [List.length_nil, if_true]
    rcases hfl with h1 | h1 | h1 <;> subst h1 <;> decide
  · simp only [hn, if_false]
    have hge : fl ≤ pcm.length := by
      rcases Nat.lt_or_ge pcm.length fl with h | h
      · rw [Nat.mod_eq_of_lt h] at hmod; omega
      · exact h
    have hE : build (4 * fl) (fun j => nth (([0, 0, 0, 0] : Bytes) ++ pcm) ((([0, 0, 0, 0] : Bytes) ++ pcm).length - fl + j % fl))
        = build (4 * fl) (fun i => nth pcm (pcm.length - fl + i % fl)) := by
      apply build_congr
      intro j _
      have hj : j % fl < fl := Nat.mod_lt _ hfl4.2
      rw [nth_append_right _ _ _ (by simp; omega)]
      congr 1
      simp; omega
    rw [hE]
    show guardStart fl (0 :: 0 :: 0 :: 0 :: (pcm ++ _)) = _
    rw [guardStart_closed fl hfl _ _ _ _ _ (by simp; omega), List.append_assoc]
    congr 1
    apply build_congr
    intro k _
    have hk : (k + 4 * fl - 4) % fl < fl := Nat.mod_lt _ hfl4.2
    rw [nth_append_left _ _ _ (by omega)]

/-! ### ADPCM4 -/

theorem psum_congr (f g : Nat → Nat) (n : Nat) (h : ∀ j, j < n → f j = g j) : psum f n = psum g n := by
  induction n with
  | zero => simp [psum_zero]
  | succ n ih => rw [psum_succ, psum_succ, ih (fun j hj => h j (by omega)), h n (by omega)]

theorem lo_nibble (b : UInt8) : (b &&& 0x0f).toNat = b.toNat % 16 := by
  have h : ∀ n, n < 256 → (UInt8.ofNat n &&& 0x0f).toNat = (UInt8.ofNat n).toNat % 16 := by decide +kernel
  have := h b.toNat (UInt8.toNat_lt b)
  rwa [UInt8.ofNat_toNat] at this

theorem hi_nibble (b : UInt8) : ((b >>> 4) &&& 0x0f).toNat = b.toNat / 16 := by
  have h : ∀ n, n < 256 → ((UInt8.ofNat n >>> 4) &&& 0x0f).toNat = (UInt8.ofNat n).toNat / 16 := by decide +kernel
  have := h b.toNat (UInt8.toNat_lt b)
  rwa [UInt8.ofNat_toNat] at this

theorem hi_nibble' (b : UInt8) : (b >>> 4).toNat % 16 = b.toNat / 16 := by
  have h : ∀ n, n < 256 → (UInt8.ofNat n >>> 4).toNat % 16 = (UInt8.ofNat n).toNat / 16 := by decide +kernel
  have := h b.toNat (UInt8.toNat_lt b)
  rwa [UInt8.ofNat_toNat] at this

theorem add_eq_ofNat (d x : UInt8) : d + x = UInt8.ofNat (d.toNat + x.toNat) := by
  rw [UInt8.ofNat_add, UInt8.ofNat_toNat, UInt8.ofNat_toNat]

/-- table value of nibble `j` of the packed input -/
def tv (tab inp : Bytes) (j : Nat) : Nat :=
  (nth tab (if j % 2 = 0 then (nth inp (j / 2)).toNat % 16 else (nth inp (j / 2)).toNat / 16)).toNat

theorem tv_cons_succ (tab : Bytes) (b : UInt8) (inp : Bytes) (j : Nat) : tv tab (b :: inp) (j + 2) = tv tab inp j := by
  have e1 : (j + 2) % 2 = j % 2 := by omega
  have e2 : (j + 2) / 2 = j / 2 + 1 := by omega
  simp only [tv, e1, e2, nth_cons_succ]

theorem length_adpcm4 : ∀ n d tab inp, (adpcm4 n d tab inp).length = 2 * min n inp.length
  | 0, d, tab, inp => by simp [adpcm4]
  | n + 1, d, tab, [] => by simp [adpcm4]
  | n + 1, d, tab, b :: inp => by
    simp only [adpcm4, List.length_cons, length_adpcm4 n _ tab inp]
    omega

theorem eq_ofNat_of (x : UInt8) (m : Nat) (h : x.toNat % 256 = m % 256) : x = UInt8.ofNat m := by
  rw [← UInt8.ofNat_toNat (x := x)]; exact ofNat_congr h

theorem tv_zero (tab : Bytes) (b : UInt8) (inp : Bytes) : tv tab (b :: inp) 0 = (nth tab (b.toNat % 16)).toNat := by
  simp [tv, nth_cons_zero]

theorem tv_one (tab : Bytes) (b : UInt8) (inp : Bytes) : tv tab (b :: inp) 1 = (nth tab (b.toNat / 16)).toNat := by
  simp [tv, nth_cons_zero]

theorem nth_adpcm4 : ∀ n d tab inp k, inp.length ≤ n → k < 2 * inp.length →
    nth (adpcm4 n d tab inp) k = UInt8.ofNat (d.toNat + psum (tv tab inp) (k + 1))
  | 0, d, tab, inp, k, h, hk => by omega
  | n + 1, d, tab, [], k, h, hk => by simp at hk
  | n + 1, d, tab, b :: inp, 0, h, hk => by
    simp only [adpcm4, nth_cons_zero, psum_succ_left, psum_zero, Nat.add_zero, lo_nibble, tv_zero]
    apply eq_ofNat_of
    rw [UInt8.toNat_add]
    show (d.toNat + (nth tab (b.toNat % 16)).toNat) % 256 % 256 = _
    omega
  | n + 1, d, tab, b :: inp, 1, h, hk => by
    simp only [adpcm4, nth_cons_zero, nth_cons_succ, psum_succ_left, psum_zero, Nat.add_zero, lo_nibble, hi_nibble,
      tv_zero, tv_one]
    apply eq_ofNat_of
    rw [UInt8.toNat_add, UInt8.toNat_add]
    have e1 : tv tab (b :: inp) (0 + 1) = (nth tab (b.toNat / 16)).toNat := tv_one tab b inp
    simp only [nth, hi_nibble', e1]
    generalize (List.getD tab (b.toNat % 16) 0).toNat = x0
    generalize (List.getD tab (b.toNat / 16) 0).toNat = x1
    omega
  | n + 1, d, tab, b :: inp, k + 2, h, hk => by
    have hl : (b :: inp).length = inp.length + 1 := rfl
    simp only [adpcm4, nth_cons_succ]
    rw [nth_adpcm4 n _ tab inp k (by omega) (by omega)]
    rw [psum_succ_left (tv tab (b :: inp)), psum_succ_left (fun j => tv tab (b :: inp) (j + 1))]
    simp only [tv_cons_succ, tv_zero, lo_nibble, hi_nibble]
    have e1 : tv tab (b :: inp) (0 + 1) = (nth tab (b.toNat / 16)).toNat := tv_one tab b inp
    rw [e1]
    generalize psum (fun j => tv tab inp j) (k + 1) = S
    apply ofNat_congr
    rw [UInt8.toNat_add, UInt8.toNat_add]
    simp only [nth, hi_nibble']
    generalize (List.getD tab (b.toNat % 16) 0).toNat = x0
    generalize (List.getD tab (b.toNat / 16) 0).toNat = x1
    omega

/-! ### the part after the truncation block -/

theorem loop_len (h : Hdr) : (Spec.loop h).len = h.len := by
  unfold Spec.loop
  simp only
  split <;> rfl

theorem frameLen_mem (is16 stereo : Bool) : frameLen is16 stereo = 1 ∨ frameLen is16 stereo = 2 ∨ frameLen is16 stereo = 4 := by
  cases is16 <;> cases stereo <;> simp [frameLen]

/-- the header the closed form returns -/
def specHdr (flags : Nat) (h : Hdr) (n : Nat) : Hdr :=
  let h1 := Spec.loop { h with len := (n : Int) }
  if fl flags SAMPLE_FLAG_FULLREP ∧ h1.lps = 0 ∧ h1.len > h1.lpe
  then { h1 with flg := setf h1.flg XMP_SAMPLE_LOOP_FULL } else h1

theorem loadCoreS_closed (flags : Nat) (h : Hdr) (is16 stereo : Bool) (n : Nat) (tr : Bool) (f : Bytes) (limit : Nat)
    (buffer raw : Bytes) (consumed : Nat)
    (hread : readDestS flags (n * frameLen is16 stereo) f limit buffer = some (raw, consumed))
    (hraw : raw.length = n * frameLen is16 stereo) :
    loadCoreS flags h is16 stereo (n * frameLen is16 stereo) (n : Int) tr f limit buffer =
      .ok (specHdr flags h n) (Spec.withGuards (frameLen is16 stereo) (Spec.pcm flags is16 stereo n raw))
        (if tr then f.length else consumed) := by
  unfold loadCoreS
  simp only [hread, loopSanity_closed, loop_len, Int.toNat_natCast]
  have hc := convert_closed flags is16 stereo n raw hraw
  simp only at hc
  rw [hc, guards_closed _ (frameLen_mem is16 stereo) _ (by rw [length_pcm _ _ _ _ _ hraw]; simp)]
  congr 1
  unfold fullRep specHdr
  simp only
  by_cases hf : fl flags SAMPLE_FLAG_FULLREP = true
  · simp only [hf, if_true, true_and]
  · simp only [hf, if_false, false_and]
    simp

theorem loadCoreS_error (flags : Nat) (h : Hdr) (is16 stereo : Bool) (b : Nat) (len : Int) (tr : Bool) (f : Bytes)
    (limit : Nat) (buffer : Bytes) (hread : readDestS flags b f limit buffer = none) :
    loadCoreS flags h is16 stereo b len tr f limit buffer = .error := by
  unfold loadCoreS
  simp only [hread]

theorem loadCore_closed (flags : Nat) (h : Hdr) (is16 stereo : Bool) (n : Nat) (f buffer raw : Bytes) (consumed : Nat)
    (hread : readDest flags (n * frameLen is16 stereo) f buffer = some (raw, consumed))
    (hraw : raw.length = n * frameLen is16 stereo) :
    loadCore flags h is16 stereo (n * frameLen is16 stereo) (n : Int) f buffer =
      .ok (specHdr flags h n) (Spec.withGuards (frameLen is16 stereo) (Spec.pcm flags is16 stereo n raw)) consumed :=
  loadCoreS_closed flags h is16 stereo n false f f.length buffer raw consumed hread hraw

/-! ### the read -/

theorem adpcm_read_closed (b : Nat) (table rest : Bytes) (hx : (b + 1) / 2 ≤ rest.length) :
    (adpcm4 ((b + 1) / 2) 0 table (rest.take ((b + 1) / 2))).take b = Spec.adpcm b table rest := by
  have hl : (rest.take ((b + 1) / 2)).length = (b + 1) / 2 := by simp; omega
  apply ext_nth
  · simp [length_adpcm4, hl, Spec.adpcm]; omega
  · intro k hk
    simp only [List.length_take, length_adpcm4, hl] at hk
    have hkb : k < b := by omega
    rw [nth_take _ _ _ hkb, nth_adpcm4 _ _ _ _ k (by omega) (by omega), Spec.adpcm, nth_build _ _ _ hkb]
    apply ofNat_congr
    have : psum (tv table (rest.take ((b + 1) / 2))) (k + 1)
         = ((List.range (k + 1)).map fun j =>
              (nth table (if j % 2 = 0 then (nth rest (j / 2)).toNat % 16 else (nth rest (j / 2)).toNat / 16)).toNat).sum := by
      unfold psum
      congr 1
      apply List.map_congr_left
      intro j hj
      simp only [List.mem_range] at hj
      simp only [tv]
      rw [nth_take _ _ _ (by omega)]
    rw [this]
    simp

theorem readDestS_noload (flags b : Nat) (f : Bytes) (limit : Nat) (buffer : Bytes)
    (h : fl flags SAMPLE_FLAG_NOLOAD = true) :
    readDestS flags b f limit buffer = some (buffer.take b, 0) := by simp [readDestS, h]

theorem readDestS_adpcm (flags b : Nat) (f : Bytes) (limit : Nat) (buffer : Bytes)
    (h : fl flags SAMPLE_FLAG_NOLOAD = false)
    (ha : fl flags SAMPLE_FLAG_ADPCM = true) (h16 : 16 ≤ f.length) (hx : (b + 1) / 2 ≤ f.length - 16)
    (hlim : 16 + (b + 1) / 2 ≤ limit) :
    readDestS flags b f limit buffer = some (Spec.adpcm b (f.take 16) (f.drop 16), 16 + (b + 1) / 2) := by
  have m1 : min 16 limit = 16 := by omega
  have m2 : min ((b + 1) / 2) (limit - 16) = (b + 1) / 2 := by omega
  have e1 : (f.take 16).length = 16 := by simp; omega
  have e2 : ((f.drop 16).take ((b + 1) / 2)).length = (b + 1) / 2 := by simp; omega
  simp [readDestS, h, ha, shr1, m1, m2, e1, e2]
  exact adpcm_read_closed b _ _ (by simp; omega)

/-- an ADPCM sample whose 16-byte table or packed data is not delivered completely: `goto err2` -/
theorem readDestS_adpcm_short (flags b : Nat) (f : Bytes) (limit : Nat) (buffer : Bytes)
    (h : fl flags SAMPLE_FLAG_NOLOAD = false)
    (ha : fl flags SAMPLE_FLAG_ADPCM = true) (hlim : limit < 16 + (b + 1) / 2) :
    readDestS flags b f limit buffer = none := by
  simp only [readDestS, h, ha, shr1, Bool.false_eq_true, if_false, if_true, List.length_take, List.length_drop]
  split
  · rfl
  · split
    · rfl
    · exfalso; omega

theorem nth_replicate_zero (n j : Nat) : nth (List.replicate n (0 : UInt8)) j = 0 := by
  by_cases h : j < n
  · simp [nth, List.getD_eq_getElem?_getD, List.getElem?_replicate, h]
  · simp [nth, List.getD_eq_getElem?_getD, List.getElem?_replicate, h]

/-- **Short read, plain sample**: what `hio_read` + `memset` leave in `dest` is the delivered bytes
    followed by zeros. -/
theorem readDestS_plain (flags b : Nat) (f : Bytes) (limit : Nat) (buffer : Bytes)
    (h : fl flags SAMPLE_FLAG_NOLOAD = false)
    (ha : fl flags SAMPLE_FLAG_ADPCM = false) (hb : b ≤ f.length) :
    readDestS flags b f limit buffer = some (Spec.shortRaw f b (min b limit), min b limit) := by
  have e1 : (f.take (min b limit)).length = min b limit := by simp; omega
  simp only [readDestS, h, ha, Bool.false_eq_true, if_false, e1]
  congr 2
  apply ext_nth
  · simp [Spec.shortRaw, e1]; omega
  · intro i hi
    simp only [List.length_append, e1, List.length_replicate] at hi
    have hib : i < b := by omega
    rw [Spec.shortRaw, nth_build _ _ _ hib]
    by_cases hd : i < min b limit
    · rw [nth_append_left _ _ _ (by rw [e1]; exact hd), nth_take _ _ _ hd]
      simp [hd]
    · rw [nth_append_right _ _ _ (by rw [e1]; omega), nth_replicate_zero]
      simp [hd]

theorem shortRaw_full (f : Bytes) (b d : Nat) (hb : b ≤ f.length) (hd : b ≤ d) : Spec.shortRaw f b d = f.take b := by
  apply ext_nth
  · simp [Spec.shortRaw]; omega
  · intro i hi
    simp only [Spec.shortRaw, length_build] at hi
    rw [Spec.shortRaw, nth_build _ _ _ hi, nth_take _ _ _ hi]
    have : i < d := by omega
    simp [this]

theorem readDest_noload (flags b : Nat) (f buffer : Bytes) (h : fl flags SAMPLE_FLAG_NOLOAD = true) :
    readDest flags b f buffer = some (buffer.take b, 0) := readDestS_noload flags b f _ buffer h

theorem readDest_adpcm (flags b : Nat) (f buffer : Bytes) (h : fl flags SAMPLE_FLAG_NOLOAD = false)
    (ha : fl flags SAMPLE_FLAG_ADPCM = true) (h16 : 16 ≤ f.length) (hx : (b + 1) / 2 ≤ f.length - 16) :
    readDest flags b f buffer = some (Spec.adpcm b (f.take 16) (f.drop 16), 16 + (b + 1) / 2) :=
  readDestS_adpcm flags b f _ buffer h ha h16 hx (by omega)

theorem readDest_plain (flags b : Nat) (f buffer : Bytes) (h : fl flags SAMPLE_FLAG_NOLOAD = false)
    (ha : fl flags SAMPLE_FLAG_ADPCM = false) (hb : b ≤ f.length) :
    readDest flags b f buffer = some (f.take b, b) := by
  unfold readDest
  rw [readDestS_plain flags b f _ buffer h ha hb, Nat.min_eq_left hb, shortRaw_full f b b hb (Nat.le_refl _)]

/-! ### whole function -/

/-- the C's `truncated` flag in closed form: fewer whole frames are present than declared -/
theorem truncOver_closed (flags : Nat) (is16 stereo : Bool) (n rem : Nat)
    (h16 : fl flags SAMPLE_FLAG_ADPCM = true → 16 ≤ rem) :
    truncOver flags (n * frameLen is16 stereo) rem =
      decide (Spec.effBytes (fl flags SAMPLE_FLAG_ADPCM) (frameLen is16 stereo) (n * frameLen is16 stereo) rem
              < n * frameLen is16 stereo) := by
  have hfl := frameLen_mem is16 stereo
  unfold truncOver Spec.effBytes
  generalize frameLen is16 stereo = k at *
  cases ha : fl flags SAMPLE_FLAG_ADPCM
  · simp only [Bool.false_eq_true, if_false]
    congr 1
    apply propext
    rcases hfl with h1 | h1 | h1 <;> subst h1 <;> omega
  · have := h16 ha
    simp only [if_true, shr1]
    congr 1
    apply propext
    rcases hfl with h1 | h1 | h1 <;> subst h1 <;> omega

/-- caller's obligation for `SAMPLE_FLAG_NOLOAD`: the buffer holds the declared sample -/
def BufferOk (flags : Nat) (h : Hdr) (buffer : Bytes) : Prop :=
  fl flags SAMPLE_FLAG_NOLOAD = true →
    h.len.toNat * frameLen (sf h.flg XMP_SAMPLE_16BIT) (sf h.flg XMP_SAMPLE_STEREO) ≤ buffer.length

theorem effBytes_le (a : Bool) (fl need rem : Nat) : Spec.effBytes a fl need rem ≤ (if a then 2 * (rem - 16) else rem) := by
  unfold Spec.effBytes
  have := Nat.div_mul_le_self (if a then min need (2 * (rem - 16)) else min need rem) fl
  cases a <;> simp at this ⊢ <;> omega

theorem effBytes_mul (a : Bool) (fl need rem : Nat) (hfl : 0 < fl) :
    Spec.effBytes a fl need rem / fl * fl = Spec.effBytes a fl need rem := by
  unfold Spec.effBytes
  rw [Nat.mul_div_cancel _ hfl]


/-- **Whole function, any delivery**: the pass-by-pass model on a stream whose reads deliver `limit`
    bytes equals the closed form `Spec.loadS`. -/
theorem loadS_closed (flags : Nat) (h : Hdr) (skip : Bool) (f : Option Bytes) (limit : Nat) (buffer : Bytes)
    (hbuf : BufferOk flags h buffer) :
    loadS flags h skip f limit buffer = Spec.loadS flags h skip f limit buffer := by
  unfold loadS Spec.loadS
  by_cases hA : fl flags SAMPLE_FLAG_ADLIB = true
  · simp [hA]
  by_cases hL : h.len ≤ 0
  · simp [hA, hL]
  simp only [hA, hL, if_false, or_self, Bool.false_eq_true]
  by_cases hS : h.len > MAX_SAMPLE_SIZE ∨ skip = true
  · simp only [hS, if_true]
    cases f <;> simp
  simp only [hS, if_false]
  obtain ⟨len, lps, lpe, flg⟩ := h
  obtain ⟨n, rfl⟩ : ∃ n : Nat, len = n := ⟨len.toNat, (Int.toNat_of_nonneg (by simp at hL; omega)).symm⟩
  simp only [Int.toNat_natCast] at *
  generalize hi : sf flg XMP_SAMPLE_16BIT = is16 at *
  generalize hs : sf flg XMP_SAMPLE_STEREO = stereo at *
  have hfl := frameLen_mem is16 stereo
  have hflpos : 0 < frameLen is16 stereo := by omega
  by_cases hN : fl flags SAMPLE_FLAG_NOLOAD = true
  · simp only [hN, if_true, Bool.not_true, Bool.false_eq_true, false_and, if_false, true_or]
    have hb := hbuf hN
    simp only [Int.toNat_natCast, hi, hs] at hb
    rw [loadCoreS_closed flags _ is16 stereo n _ _ _ buffer _ 0 (readDestS_noload _ _ _ _ _ hN) (by simp; omega)]
    simp only [Nat.mul_div_cancel _ hflpos, specHdr, Bool.false_and, Bool.false_eq_true, if_false]
  · have hN' : fl flags SAMPLE_FLAG_NOLOAD = false := by simpa using hN
    simp only [hN', Bool.false_eq_true, if_false, Bool.not_false, true_and, false_or]
    cases f with
    | none => simp
    | some av =>
      simp only [Option.getD_some, Option.isNone_some, Bool.false_eq_true, false_or]
      rw [truncBlock_closed]
      by_cases hz : av.length = 0
      · simp [hz]
      by_cases ha : fl flags SAMPLE_FLAG_ADPCM = true
      · by_cases h16 : av.length < 16
        · simp [ha, h16]
        · have hcond : ¬ (av.length = 0 ∨ fl flags SAMPLE_FLAG_ADPCM = true ∧ av.length < 16) := by omega
          rw [truncOver_closed flags is16 stereo n av.length (by intro _; omega)]
          simp only [hcond, if_false, ha, true_and, h16, or_false, hz]
          generalize hb : Spec.effBytes true (frameLen is16 stereo) (n * frameLen is16 stereo) av.length = b
          have hle := effBytes_le true (frameLen is16 stereo) (n * frameLen is16 stereo) av.length
          have hmul := effBytes_mul true (frameLen is16 stereo) (n * frameLen is16 stereo) av.length hflpos
          rw [hb] at hle hmul
          simp only [if_true] at hle
          obtain ⟨k, rfl⟩ : ∃ k, b = k * frameLen is16 stereo := ⟨_, hmul.symm⟩
          rw [Nat.mul_div_cancel _ hflpos]
          by_cases hlim : limit < 16 + (k * frameLen is16 stereo + 1) / 2
          · rw [loadCoreS_error _ _ _ _ _ _ _ _ _ _ (readDestS_adpcm_short _ _ _ _ _ hN' ha hlim)]
            simp only [hlim, if_true]
          · rw [loadCoreS_closed flags _ is16 stereo k _ av limit buffer _ _
              (readDestS_adpcm _ _ _ _ _ hN' ha (by omega) (by omega) (by omega)) (by simp [Spec.adpcm])]
            simp only [specHdr, if_true, hlim, if_false, Bool.true_and, decide_eq_true_eq]
      · have ha' : fl flags SAMPLE_FLAG_ADPCM = false := by simpa using ha
        have hcond : ¬ (av.length = 0 ∨ fl flags SAMPLE_FLAG_ADPCM = true ∧ av.length < 16) := by
          simp [ha', hz]
        rw [truncOver_closed flags is16 stereo n av.length (by intro h; rw [ha'] at h; exact absurd h (by simp))]
        simp only [hcond, if_false, ha', Bool.false_eq_true, false_and, or_false, hz]
        generalize hb : Spec.effBytes false (frameLen is16 stereo) (n * frameLen is16 stereo) av.length = b
        have hle := effBytes_le false (frameLen is16 stereo) (n * frameLen is16 stereo) av.length
        have hmul := effBytes_mul false (frameLen is16 stereo) (n * frameLen is16 stereo) av.length hflpos
        rw [hb] at hle hmul
        simp only [Bool.false_eq_true, if_false] at hle
        obtain ⟨k, rfl⟩ : ∃ k, b = k * frameLen is16 stereo := ⟨_, hmul.symm⟩
        rw [Nat.mul_div_cancel _ hflpos]
        rw [loadCoreS_closed flags _ is16 stereo k _ av limit buffer _ _
          (readDestS_plain _ _ _ _ _ hN' ha' hle) (by simp [Spec.shortRaw])]
        simp only [specHdr, if_false, Bool.false_eq_true, Bool.true_and, decide_eq_true_eq]

/-- when every promised byte is delivered the general closed form is the plain one -/
theorem spec_loadS_full (flags : Nat) (h : Hdr) (skip : Bool) (f : Option Bytes) (limit : Nat) (buffer : Bytes)
    (hlim : (f.getD []).length ≤ limit) :
    Spec.loadS flags h skip f limit buffer = Spec.load flags h skip f buffer := by
  unfold Spec.loadS Spec.load
  simp only
  split
  · rfl
  · split
    · rfl
    · split
      · rfl
      · rename_i c1 c2 c3
        generalize hi : sf h.flg XMP_SAMPLE_16BIT = is16 at *
        generalize hs : sf h.flg XMP_SAMPLE_STEREO = stereo at *
        generalize hav : (f.getD []).length = avail at *
        by_cases hN : fl flags SAMPLE_FLAG_NOLOAD = true
        · simp [hN]
        · have hN' : fl flags SAMPLE_FLAG_NOLOAD = false := by simpa using hN
          simp only [hN', Bool.not_false, true_and, Bool.false_eq_true, if_false, false_or] at c3 ⊢
          by_cases ha : fl flags SAMPLE_FLAG_ADPCM = true
          · have hle := effBytes_le true (frameLen is16 stereo) (h.len.toNat * frameLen is16 stereo) avail
            simp only [if_true] at hle
            have h16 : ¬ avail < 16 := by
              intro hc; exact c3 (Or.inr (Or.inr ⟨ha, hc⟩))
            have : ¬ limit < 16 + (Spec.effBytes true (frameLen is16 stereo) (h.len.toNat * frameLen is16 stereo) avail + 1) / 2 := by
              omega
            simp only [ha, true_and, this, if_false, if_true]
          · have ha' : fl flags SAMPLE_FLAG_ADPCM = false := by simpa using ha
            have hle := effBytes_le false (frameLen is16 stereo) (h.len.toNat * frameLen is16 stereo) avail
            simp only [Bool.false_eq_true, if_false] at hle
            simp only [ha', Bool.false_eq_true, false_and, if_false]
            have hm : min (Spec.effBytes false (frameLen is16 stereo) (h.len.toNat * frameLen is16 stereo) avail) limit
                = Spec.effBytes false (frameLen is16 stereo) (h.len.toNat * frameLen is16 stereo) avail := by omega
            rw [hm, shortRaw_full _ _ _ (by rw [hav]; exact hle) (Nat.le_refl _)]

theorem load_closed (flags : Nat) (h : Hdr) (skip : Bool) (f : Option Bytes) (buffer : Bytes)
    (hbuf : BufferOk flags h buffer) :
    load flags h skip f buffer = Spec.load flags h skip f buffer := by
  unfold load
  rw [loadS_closed flags h skip f _ buffer hbuf, spec_loadS_full flags h skip f _ buffer (Nat.le_refl _)]

/-! ### flag-bit algebra -/

theorem bv_and_ext (g m m' : Flg) (h : m &&& m' = 0#32) : (g &&& ~~~m) &&& m' = g &&& m' := by
  ext i hi
  have := congrArg (fun v => v[i]) h
  simp only [BitVec.getElem_and, BitVec.getElem_zero] at this
  simp only [BitVec.getElem_and, BitVec.getElem_not]
  cases g[i] <;> cases hm : m[i] <;> simp_all

theorem bv_and_sub (g m m' : Flg) (h : m' &&& ~~~m = 0#32) : (g &&& ~~~m) &&& m' = 0#32 := by
  ext i hi
  have := congrArg (fun v => v[i]) h
  simp only [BitVec.getElem_and, BitVec.getElem_zero, BitVec.getElem_not] at this
  simp only [BitVec.getElem_and, BitVec.getElem_not, BitVec.getElem_zero]
  cases g[i] <;> cases hm : m[i] <;> simp_all

theorem bv_or_ext (g m m' : Flg) (h : m &&& m' = 0#32) : (g ||| m) &&& m' = g &&& m' := by
  ext i hi
  have := congrArg (fun v => v[i]) h
  simp only [BitVec.getElem_and, BitVec.getElem_zero] at this
  simp only [BitVec.getElem_and, BitVec.getElem_or]
  cases g[i] <;> cases hm : m[i] <;> simp_all

theorem sf_clr_other (g : Flg) (m m' : Nat) (h : BitVec.ofNat 32 m &&& BitVec.ofNat 32 m' = 0#32) :
    sf (clr g m) m' = sf g m' := by simp only [sf, clr, bv_and_ext _ _ _ h]

theorem sf_clr_sub (g : Flg) (m m' : Nat) (h : BitVec.ofNat 32 m' &&& ~~~ BitVec.ofNat 32 m = 0#32) :
    sf (clr g m) m' = false := by simp [sf, clr, bv_and_sub _ _ _ h]

theorem sf_setf_other (g : Flg) (m m' : Nat) (h : BitVec.ofNat 32 m &&& BitVec.ofNat 32 m' = 0#32) :
    sf (setf g m) m' = sf g m' := by simp only [sf, setf, bv_or_ext _ _ _ h]


theorem sTail_props (g : Flg) :
    sf (sTail g) XMP_SAMPLE_LOOP = sf g XMP_SAMPLE_LOOP ∧
    sf (sTail g) XMP_SAMPLE_SLOOP = sf g XMP_SAMPLE_SLOOP ∧
    (sf (sTail g) XMP_SAMPLE_LOOP_BIDIR = true → sf (sTail g) XMP_SAMPLE_LOOP = true) ∧
    (sf (sTail g) XMP_SAMPLE_SLOOP_BIDIR = true → sf (sTail g) XMP_SAMPLE_SLOOP = true) := by
  have d1 : sf (clr g XMP_SAMPLE_LOOP_BIDIR) XMP_SAMPLE_LOOP = sf g XMP_SAMPLE_LOOP := sf_clr_other _ _ _ (by decide)
  have d2 : sf (clr g XMP_SAMPLE_LOOP_BIDIR) XMP_SAMPLE_LOOP_BIDIR = false := sf_clr_sub _ _ _ (by decide)
  have d3 : ∀ g : Flg, sf (clr g XMP_SAMPLE_SLOOP_BIDIR) XMP_SAMPLE_LOOP = sf g XMP_SAMPLE_LOOP :=
    fun g => sf_clr_other _ _ _ (by decide)
  have d4 : ∀ g : Flg, sf (clr g XMP_SAMPLE_SLOOP_BIDIR) XMP_SAMPLE_LOOP_BIDIR = sf g XMP_SAMPLE_LOOP_BIDIR :=
    fun g => sf_clr_other _ _ _ (by decide)
  have d5 : ∀ g : Flg, sf (clr g XMP_SAMPLE_SLOOP_BIDIR) XMP_SAMPLE_SLOOP = sf g XMP_SAMPLE_SLOOP :=
    fun g => sf_clr_other _ _ _ (by decide)
  have d6 : ∀ g : Flg, sf (clr g XMP_SAMPLE_SLOOP_BIDIR) XMP_SAMPLE_SLOOP_BIDIR = false :=
    fun g => sf_clr_sub _ _ _ (by decide)
  have d7 : sf (clr g XMP_SAMPLE_LOOP_BIDIR) XMP_SAMPLE_SLOOP = sf g XMP_SAMPLE_SLOOP := sf_clr_other _ _ _ (by decide)
  have d8 : sf (clr g XMP_SAMPLE_LOOP_BIDIR) XMP_SAMPLE_SLOOP_BIDIR = sf g XMP_SAMPLE_SLOOP_BIDIR :=
    sf_clr_other _ _ _ (by decide)
  unfold sTail
  cases h1 : sf g XMP_SAMPLE_LOOP <;> cases h2 : sf g XMP_SAMPLE_SLOOP <;>
    simp [h1, h2, d1, d2, d3, d4, d5, d6, d7, d8]

/-- **Loop points after loading** (all facts about `lps/lpe/flg` of the returned header). -/
theorem specHdr_loop (flags : Nat) (h : Hdr) (n : Nat) :
    let h' := specHdr flags h n
    h'.len = n ∧ 0 ≤ h'.lps ∧ h'.lps ≤ h'.lpe ∧ h'.lpe ≤ n ∧
    (sf h'.flg XMP_SAMPLE_LOOP = true → h'.lps < h'.lpe) ∧
    (sf h'.flg XMP_SAMPLE_LOOP_BIDIR = true → sf h'.flg XMP_SAMPLE_LOOP = true) ∧
    (sf h'.flg XMP_SAMPLE_SLOOP_BIDIR = true → sf h'.flg XMP_SAMPLE_SLOOP = true) ∧
    (max h.lps 0 < min h.lpe n →
      h'.lps = max h.lps 0 ∧ h'.lpe = min h.lpe n ∧ sf h'.flg XMP_SAMPLE_LOOP = sf h.flg XMP_SAMPLE_LOOP) ∧
    (¬ max h.lps 0 < min h.lpe n → h'.lps = 0 ∧ h'.lpe = 0 ∧ sf h'.flg XMP_SAMPLE_LOOP = false) := by
  intro h'
  have e6 : sf (clr h.flg (XMP_SAMPLE_LOOP ||| XMP_SAMPLE_LOOP_BIDIR)) XMP_SAMPLE_LOOP = false :=
    sf_clr_sub _ _ _ (by decide)
  have f1 : ∀ g : Flg, sf (setf g XMP_SAMPLE_LOOP_FULL) XMP_SAMPLE_LOOP = sf g XMP_SAMPLE_LOOP :=
    fun g => sf_setf_other _ _ _ (by decide)
  have f2 : ∀ g : Flg, sf (setf g XMP_SAMPLE_LOOP_FULL) XMP_SAMPLE_LOOP_BIDIR = sf g XMP_SAMPLE_LOOP_BIDIR :=
    fun g => sf_setf_other _ _ _ (by decide)
  have f3 : ∀ g : Flg, sf (setf g XMP_SAMPLE_LOOP_FULL) XMP_SAMPLE_SLOOP = sf g XMP_SAMPLE_SLOOP :=
    fun g => sf_setf_other _ _ _ (by decide)
  have f4 : ∀ g : Flg, sf (setf g XMP_SAMPLE_LOOP_FULL) XMP_SAMPLE_SLOOP_BIDIR = sf g XMP_SAMPLE_SLOOP_BIDIR :=
    fun g => sf_setf_other _ _ _ (by decide)
  -- the header before the full-repeat flag
  have key : ∀ h1 : Hdr, h1 = Spec.loop { h with len := (n : Int) } →
      h1.len = n ∧ 0 ≤ h1.lps ∧ h1.lps ≤ h1.lpe ∧ h1.lpe ≤ n ∧
      (sf h1.flg XMP_SAMPLE_LOOP = true → h1.lps < h1.lpe) ∧
      (sf h1.flg XMP_SAMPLE_LOOP_BIDIR = true → sf h1.flg XMP_SAMPLE_LOOP = true) ∧
      (sf h1.flg XMP_SAMPLE_SLOOP_BIDIR = true → sf h1.flg XMP_SAMPLE_SLOOP = true) ∧
      (max h.lps 0 < min h.lpe n →
        h1.lps = max h.lps 0 ∧ h1.lpe = min h.lpe n ∧ sf h1.flg XMP_SAMPLE_LOOP = sf h.flg XMP_SAMPLE_LOOP) ∧
      (¬ max h.lps 0 < min h.lpe n → h1.lps = 0 ∧ h1.lpe = 0 ∧ sf h1.flg XMP_SAMPLE_LOOP = false) := by
    intro h1 hh
    by_cases hv : max h.lps 0 < min h.lpe (n : Int)
    · have e : h1 = ⟨(n : Int), max h.lps 0, min h.lpe n, sTail h.flg⟩ := by
        rw [hh]; unfold Spec.loop sTail; simp only [hv, if_true]
      have sp := sTail_props h.flg
      subst e
      refine ⟨rfl, ?_, ?_, ?_, fun _ => hv, ?_, sp.2.2.2, fun _ => ⟨rfl, rfl, sp.1⟩, fun hc => absurd hv hc⟩
      · show 0 ≤ max h.lps 0; omega
      · show max h.lps 0 ≤ min h.lpe n; omega
      · show min h.lpe (n : Int) ≤ n; omega
      · exact sp.2.2.1
    · let g0 := clr h.flg (XMP_SAMPLE_LOOP ||| XMP_SAMPLE_LOOP_BIDIR)
      have e : h1 = ⟨(n : Int), 0, 0, sTail g0⟩ := by
        rw [hh]; unfold Spec.loop sTail; simp only [hv, if_false]; rfl
      have sp := sTail_props g0
      have e6' : sf (sTail g0) XMP_SAMPLE_LOOP = false := by rw [sp.1]; exact e6
      subst e
      refine ⟨rfl, Int.le_refl _, Int.le_refl _, ?_, ?_, ?_, sp.2.2.2, fun hc => absurd hc hv, fun _ => ⟨rfl, rfl, e6'⟩⟩
      · show (0 : Int) ≤ n; omega
      · intro hc; rw [e6'] at hc; exact absurd hc (by simp)
      · intro hc; have := sp.2.2.1 hc; rw [e6'] at this; exact absurd this (by simp)
  have k := key _ rfl
  generalize hh1 : Spec.loop { h with len := (n : Int) } = h1 at k
  have hs : h' = if (fl flags SAMPLE_FLAG_FULLREP = true ∧ h1.lps = 0 ∧ h1.len > h1.lpe)
      then { h1 with flg := setf h1.flg XMP_SAMPLE_LOOP_FULL } else h1 := by
    show specHdr flags h n = _
    unfold specHdr; simp only [hh1]
  clear_value h'
  subst hs
  split
  · simp only [f1, f2, f3, f4]; exact k
  · exact k

/-! ### shape of the closed-form result -/

/-- bytes left in the stream (`file_len - file_pos`) -/
def avail (f : Option Bytes) : Nat := (f.getD []).length

/-- the cases in which nothing is loaded (`return 0`, header and `data` untouched) -/
def Skips (flags : Nat) (h : Hdr) (skip : Bool) (f : Option Bytes) : Prop :=
  fl flags SAMPLE_FLAG_ADLIB = true ∨ h.len ≤ 0 ∨ h.len > MAX_SAMPLE_SIZE ∨ skip = true ∨
  (fl flags SAMPLE_FLAG_NOLOAD = false ∧
    (f.isNone = true ∨ avail f = 0 ∨ (fl flags SAMPLE_FLAG_ADPCM = true ∧ avail f < 16)))

instance (flags : Nat) (h : Hdr) (skip : Bool) (f : Option Bytes) : Decidable (Skips flags h skip f) := by
  unfold Skips; infer_instance

instance (flags : Nat) (h : Hdr) (buffer : Bytes) : Decidable (BufferOk flags h buffer) := by
  unfold BufferOk; infer_instance

def is16Of (h : Hdr) : Bool := sf h.flg XMP_SAMPLE_16BIT
def stereoOf (h : Hdr) : Bool := sf h.flg XMP_SAMPLE_STEREO
def frameLenOf (h : Hdr) : Nat := frameLen (is16Of h) (stereoOf h)

/-- PCM bytes of the loaded sample -/
def outBytes (flags : Nat) (h : Hdr) (f : Option Bytes) : Nat :=
  if fl flags SAMPLE_FLAG_NOLOAD then h.len.toNat * frameLenOf h
  else Spec.effBytes (fl flags SAMPLE_FLAG_ADPCM) (frameLenOf h) (h.len.toNat * frameLenOf h) (avail f)

/-- frames of the loaded sample (`xxs->len` afterwards) -/
def outLen (flags : Nat) (h : Hdr) (f : Option Bytes) : Nat := outBytes flags h f / frameLenOf h

/-- the stored bytes the PCM is computed from -/
def srcRaw (flags : Nat) (h : Hdr) (f : Option Bytes) (buffer : Bytes) : Bytes :=
  if fl flags SAMPLE_FLAG_NOLOAD then buffer.take (outBytes flags h f)
  else if fl flags SAMPLE_FLAG_ADPCM then Spec.adpcm (outBytes flags h f) ((f.getD []).take 16) ((f.getD []).drop 16)
  else (f.getD []).take (outBytes flags h f)

/-- bytes the decoder reads for the loaded sample (ADPCM: table and packed nibbles) -/
def neededBytes (flags : Nat) (h : Hdr) (f : Option Bytes) : Nat :=
  if fl flags SAMPLE_FLAG_ADPCM then 16 + (outBytes flags h f + 1) / 2 else outBytes flags h f

/-- the sample is cut short by the end of the stream -/
def isTruncated (flags : Nat) (h : Hdr) (f : Option Bytes) : Prop :=
  outBytes flags h f < h.len.toNat * frameLenOf h

instance (flags : Nat) (h : Hdr) (f : Option Bytes) : Decidable (isTruncated flags h f) := by
  unfold isTruncated; infer_instance

/-- bytes taken from the stream: what the decoder reads, or - for a sample cut short by the end of the
    stream - everything up to that end (the stream position afterwards is `hio_size`) -/
def consumedBytes (flags : Nat) (h : Hdr) (f : Option Bytes) : Nat :=
  if fl flags SAMPLE_FLAG_NOLOAD then 0
  else if isTruncated flags h f then avail f
  else neededBytes flags h f

theorem spec_load_ok (flags : Nat) (h : Hdr) (skip : Bool) (f : Option Bytes) (buffer : Bytes)
    (hs : ¬ Skips flags h skip f) :
    Spec.load flags h skip f buffer =
      .ok (specHdr flags h (outLen flags h f))
          (Spec.withGuards (frameLenOf h) (Spec.pcm flags (is16Of h) (stereoOf h) (outLen flags h f) (srcRaw flags h f buffer)))
          (consumedBytes flags h f) := by
  unfold Skips at hs
  simp only [not_or, not_and] at hs
  obtain ⟨h1, h2, h3, h4, h5⟩ := hs
  unfold Spec.load
  have c1 : ¬ (fl flags SAMPLE_FLAG_ADLIB = true ∨ h.len ≤ 0) := by simp [h1, h2]
  have c2 : ¬ (h.len > (MAX_SAMPLE_SIZE : Int) ∨ skip = true) := by simp [h3, h4]
  rw [if_neg c1, if_neg c2]
  by_cases hN : fl flags SAMPLE_FLAG_NOLOAD = true
  · simp [hN, specHdr, outLen, outBytes, srcRaw, consumedBytes, isTruncated, neededBytes, frameLenOf, is16Of, stereoOf]
  · have hN' : fl flags SAMPLE_FLAG_NOLOAD = false := by simpa using hN
    have := h5 hN'
    obtain ⟨g1, g2, g3⟩ := this
    have c3 : ¬ ((!fl flags SAMPLE_FLAG_NOLOAD) = true ∧ ((f.getD []).length = 0 ∨ f.isNone = true ∨
        fl flags SAMPLE_FLAG_ADPCM = true ∧ (f.getD []).length < 16)) := by
      simp only [avail] at g2 g3
      simp [hN', g1, g2]; intro ha; have := g3 ha; omega
    rw [if_neg c3]
    simp [hN', specHdr, outLen, outBytes, srcRaw, consumedBytes, isTruncated, neededBytes, frameLenOf, is16Of, stereoOf, avail]

theorem spec_load_skips (flags : Nat) (h : Hdr) (skip : Bool) (f : Option Bytes) (buffer : Bytes)
    (hs : Skips flags h skip f) : ∃ c, Spec.load flags h skip f buffer = .skipped h c := by
  unfold Spec.load
  simp only
  split
  · exact ⟨_, rfl⟩
  · split
    · exact ⟨_, rfl⟩
    · split
      · exact ⟨_, rfl⟩
      · rename_i c1 c2 c3
        exfalso
        unfold Skips at hs
        rcases hs with hs | hs | hs | hs | ⟨hN, hs⟩
        · exact c1 (Or.inl hs)
        · exact c1 (Or.inr hs)
        · exact c2 (Or.inl hs)
        · exact c2 (Or.inr hs)
        · apply c3
          simp only [hN, Bool.not_false, true_and]
          simp only [avail] at hs
          rcases hs with hs | hs | hs
          · exact Or.inr (Or.inl hs)
          · exact Or.inl hs
          · exact Or.inr (Or.inr hs)

/-- shape of the general closed form for a plain (non-NOLOAD, non-ADPCM) stream sample -/
theorem spec_loadS_plain (flags : Nat) (h : Hdr) (skip : Bool) (f : Option Bytes) (limit : Nat) (buffer : Bytes)
    (hN : fl flags SAMPLE_FLAG_NOLOAD = false) (hA : fl flags SAMPLE_FLAG_ADPCM = false)
    (hs : ¬ Skips flags h skip f) :
    Spec.loadS flags h skip f limit buffer =
      .ok (specHdr flags h (outLen flags h f))
          (Spec.withGuards (frameLenOf h) (Spec.pcm flags (is16Of h) (stereoOf h) (outLen flags h f)
            (Spec.shortRaw (f.getD []) (outBytes flags h f) (min (outBytes flags h f) limit))))
          (if isTruncated flags h f then avail f else min (outBytes flags h f) limit) := by
  unfold Skips at hs
  simp only [not_or, not_and] at hs
  obtain ⟨h1, h2, h3, h4, h5⟩ := hs
  unfold Spec.loadS
  have c1 : ¬ (fl flags SAMPLE_FLAG_ADLIB = true ∨ h.len ≤ 0) := by simp [h1, h2]
  have c2 : ¬ (h.len > (MAX_SAMPLE_SIZE : Int) ∨ skip = true) := by simp [h3, h4]
  rw [if_neg c1, if_neg c2]
  obtain ⟨g1, g2, _⟩ := h5 hN
  have c3 : ¬ ((!fl flags SAMPLE_FLAG_NOLOAD) = true ∧ ((f.getD []).length = 0 ∨ f.isNone = true ∨
      fl flags SAMPLE_FLAG_ADPCM = true ∧ (f.getD []).length < 16)) := by
    simp only [avail] at g2
    simp [hN, hA, g1, g2]
  rw [if_neg c3]
  simp [hN, hA, specHdr, outLen, outBytes, isTruncated, neededBytes, frameLenOf, is16Of, stereoOf, avail]

/-- shape of the general closed form for an ADPCM stream sample: all or nothing -/
theorem spec_loadS_adpcm (flags : Nat) (h : Hdr) (skip : Bool) (f : Option Bytes) (limit : Nat) (buffer : Bytes)
    (hN : fl flags SAMPLE_FLAG_NOLOAD = false) (hA : fl flags SAMPLE_FLAG_ADPCM = true)
    (hs : ¬ Skips flags h skip f) :
    Spec.loadS flags h skip f limit buffer =
      if limit < neededBytes flags h f then .error else Spec.load flags h skip f buffer := by
  rw [spec_load_ok flags h skip f buffer hs]
  unfold Skips at hs
  simp only [not_or, not_and] at hs
  obtain ⟨h1, h2, h3, h4, h5⟩ := hs
  unfold Spec.loadS
  have c1 : ¬ (fl flags SAMPLE_FLAG_ADLIB = true ∨ h.len ≤ 0) := by simp [h1, h2]
  have c2 : ¬ (h.len > (MAX_SAMPLE_SIZE : Int) ∨ skip = true) := by simp [h3, h4]
  rw [if_neg c1, if_neg c2]
  obtain ⟨g1, g2, g3⟩ := h5 hN
  have c3 : ¬ ((!fl flags SAMPLE_FLAG_NOLOAD) = true ∧ ((f.getD []).length = 0 ∨ f.isNone = true ∨
      fl flags SAMPLE_FLAG_ADPCM = true ∧ (f.getD []).length < 16)) := by
    simp only [avail] at g2 g3
    simp [hN, g1, g2]; intro ha; have := g3 ha; omega
  rw [if_neg c3]
  simp only [hN, hA, consumedBytes, isTruncated, neededBytes, outBytes, frameLenOf, is16Of, stereoOf, avail, Bool.false_eq_true, if_false, if_true,
    Bool.not_false, true_and]
  split
  · rfl
  · simp [hN, hA, specHdr, outLen, outBytes, srcRaw, frameLenOf, is16Of, stereoOf, avail]

end Xmp.Sample
