import XmpProofs.WorkBound
/-!
# Work bounds of the LHA reader (`XmpModel.LhaFrame`: unlha.c + the lhasa header reader) (C02)

`skip_sfx`, the two extended-header walks, the null decoder and the member walk of `decrunch_lha`, for
arbitrary bytes: each continuing iteration consumes input (1 byte of the self-extractor window, ≥ 3 bytes of
extended header, ≥ 1 wanted byte, ≥ 22 bytes of member header), so every loop ends by itself and the fuel of the
models is never what ends it; the output of `decrunch_lha` is at most the unpack ceiling.
-/
namespace Xmp.Work
open Xmp Xmp.Container

/-! ## `skip_sfx` -/

theorem skipSfxGo_eq_run (f : Bytes) : ∀ fuel i sk,
    skipSfxGo f fuel i sk = (run (sfxStep f) fuel (i, sk)).outD none := by
  intro fuel
  induction fuel with
  | zero => intros; rfl
  | succ n ih =>
    intro i sk
    rw [run_outD_fold]
    simp only [skipSfxGo, sfxStep, apply_ite (Out.fold none (run (sfxStep f) n)), Out.fold_done, Out.fold_next, ← ih]

theorem sfxStep_progress (f : Bytes) (s s' : Nat × Nat) (h : (sfxStep f s).succ? = some s') :
    s'.1 = s.1 + 1 ∧ s.1 + 13 ≤ f.length ∧ s.1 < lhaSfxLimit := by
  obtain ⟨i, sk⟩ := s
  unfold sfxStep at h
  dsimp only at h
  repeat' split at h
  all_goals (simp only [Out.succ?, Option.some.injEq, reduceCtorEq] at h)
  all_goals (subst h; exact ⟨rfl, by omega, by omega⟩)

/-- **`skip_sfx` work bound**: at most `min(|file|, 262 152) + 1` positions are examined -/
theorem skipSfx_work (f : Bytes) :
    EndsWithin (sfxStep f) (f.length + 1) (0, 0) (f.length + 1) ∧
    EndsWithin (sfxStep f) (f.length + 1) (0, 0) (lhaSfxLimit + 1) ∧
    skipSfx f = (run (sfxStep f) (f.length + 1) (0, 0)).outD none := by
  have h1 := run_bounded (sfxStep f) (fun _ => True) (fun s => f.length - s.1) 1 (by decide)
    (fun s s' _ h => ⟨trivial, by have := sfxStep_progress f s s' h; omega⟩) (f.length + 1) (0, 0) trivial
    (by show (f.length - 0) / 1 < f.length + 1
        rw [Nat.div_one]; omega)
  have h2 := run_bounded (sfxStep f) (fun s => s.1 + (f.length - s.1) = f.length)
    (fun s => min (f.length - s.1) (lhaSfxLimit - s.1)) 1 (by decide)
    (fun s s' hi h => by have := sfxStep_progress f s s' h; constructor <;> omega)
    (f.length + 1) (0, 0) (by show 0 + (f.length - 0) = f.length; omega)
    (by show min (f.length - 0) (lhaSfxLimit - 0) / 1 < f.length + 1
        rw [Nat.div_one]; omega)
  refine ⟨h1.mono (Nat.le_refl _) (by show (f.length - 0) / 1 + 1 ≤ _; rw [Nat.div_one]; omega),
          h2.mono (Nat.le_refl _) (by show min (f.length - 0) (lhaSfxLimit - 0) / 1 + 1 ≤ _; rw [Nat.div_one]; omega),
          skipSfxGo_eq_run f _ 0 0⟩

/-! ## extended headers -/

theorem extWalk_eq_run (fs : Nat) : ∀ fuel h off avail,
    extWalk fs fuel h off avail = (run (extStep fs) fuel (h, off, avail)).outD none := by
  intro fuel
  induction fuel with
  | zero => intros; rfl
  | succ n ih =>
    intro h off avail
    rw [run_outD_fold]
    simp only [extWalk, extStep, apply_ite (Out.fold none (run (extStep fs) n)), Out.fold_done, Out.fold_next, ← ih]

theorem extStep_progress (fs : Nat) (s s' : LhaHeader × Nat × Nat) (h : (extStep fs s).succ? = some s') :
    s'.2.2 + (fs + 1) ≤ s.2.2 := by
  unfold extStep at h
  simp only [] at h
  repeat' split at h
  all_goals (simp only [Out.succ?, Option.some.injEq, reduceCtorEq] at h)
  all_goals (subst h; simp only; omega)

/-- **extended-header walk**: every header uses up at least `fs + 1` of the available bytes (a length field that
is 0 ends the walk, one below `fs + 1` or above what is left is refused), so at most `avail/(fs+1) + 1` iterations -/
theorem extWalk_work (fs : Nat) (h : LhaHeader) (off : Nat) :
    EndsWithin (extStep fs) (h.raw.length + 1) (h, off, h.raw.length - off - fs) ((h.raw.length - off - fs) / (fs + 1) + 1) ∧
    decodeExt fs h off = (run (extStep fs) (h.raw.length + 1) (h, off, h.raw.length - off - fs)).outD none :=
  ⟨run_bounded (extStep fs) (fun _ => True) (fun s => s.2.2) (fs + 1) (by omega)
      (fun s s' _ hs => ⟨trivial, extStep_progress fs s s' hs⟩) _ _ trivial
      (by have : (h.raw.length - off - fs) / (fs + 1) ≤ h.raw.length - off - fs := Nat.div_le_self _ _
          show (h.raw.length - off - fs) / (fs + 1) < h.raw.length + 1
          omega),
   extWalk_eq_run fs _ h off _⟩

theorem sRead_len (s : Bytes) (n : Nat) (a b : Bytes) (h : sRead s n = some (a, b)) : b.length + n = s.length := by
  unfold sRead at h
  split at h
  · simp at h
  · simp only [Option.some.injEq, Prod.mk.injEq] at h
    obtain ⟨_, h2⟩ := h
    subst h2
    simp only [List.length_drop]
    omega

theorem extendRaw_len (h : LhaHeader) (s : Bytes) (n : Nat) (h' : LhaHeader) (s' : Bytes)
    (e : extendRaw h s n = some (h', s')) : s'.length + n = s.length := by
  unfold extendRaw at e
  split at e
  · simp at e
  · simp only [Option.map_eq_some_iff] at e
    obtain ⟨r, hr, he⟩ := e
    obtain ⟨a, b⟩ := r
    simp only [Prod.mk.injEq] at he
    obtain ⟨_, h2⟩ := he
    subst h2
    exact sRead_len s n a b hr

theorem readL1Ext_eq_run : ∀ fuel h s, readL1Ext fuel h s = (run l1ExtStep fuel (h, s)).outD none := by
  intro fuel
  induction fuel with
  | zero => intros; rfl
  | succ n ih =>
    intro h s
    rw [run_outD_fold]
    simp only [readL1Ext, l1ExtStep]
    split
    · rfl
    cases he : extendRaw h s (u16At h.raw (h.raw.length - 2)) with
    | none => rfl
    | some r =>
      obtain ⟨h', s'⟩ := r
      simp only [apply_ite (Out.fold none (run l1ExtStep n)), Out.fold_done, Out.fold_next, ← ih]

theorem l1ExtStep_progress (s s' : LhaHeader × Bytes) (h : (l1ExtStep s).succ? = some s') :
    s'.2.length + 3 ≤ s.2.length := by
  unfold l1ExtStep at h
  simp only [] at h
  split at h
  · simp [Out.succ?] at h
  split at h
  · simp [Out.succ?] at h
  rename_i h1 s1 he
  have := extendRaw_len _ _ _ _ _ he
  repeat' split at h
  all_goals (simp only [Out.succ?, Option.some.injEq, reduceCtorEq] at h)
  subst h
  simp only
  omega

/-- **level-1 extended headers**: each one takes at least 3 bytes from the stream; at most `|rest|/3 + 1` iterations -/
theorem readL1Ext_work (h : LhaHeader) (s : Bytes) :
    EndsWithin l1ExtStep (s.length + 1) (h, s) (s.length / 3 + 1) ∧
    readL1Ext (s.length + 1) h s = (run l1ExtStep (s.length + 1) (h, s)).outD none :=
  ⟨run_bounded l1ExtStep (fun _ => True) (fun x => x.2.length) 3 (by decide)
      (fun x x' _ hx => ⟨trivial, l1ExtStep_progress x x' hx⟩) _ _ trivial
      (by have : s.length / 3 ≤ s.length := Nat.div_le_self _ _
          show s.length / 3 < s.length + 1
          omega),
   readL1Ext_eq_run _ h s⟩

theorem readL1Ext_len : ∀ fuel h s h' s', readL1Ext fuel h s = some (h', s') → s'.length ≤ s.length := by
  intro fuel
  induction fuel with
  | zero => intro h s h' s' e; simp [readL1Ext] at e
  | succ n ih =>
    intro h s h' s' e
    simp only [readL1Ext] at e
    split at e
    · simp only [Option.some.injEq, Prod.mk.injEq] at e; obtain ⟨_, e2⟩ := e; subst e2; omega
    split at e
    · simp at e
    rename_i h1 s1 he
    have := extendRaw_len _ _ _ _ _ he
    repeat' split at e
    all_goals (try (simp at e; done))
    have := ih _ _ _ _ e
    omega

/-! ## null decoder -/

theorem lhaNullRead_eq_run : ∀ fuel s rem want acc,
    lhaNullRead fuel s rem want acc = (run nullStep fuel (s, rem, want, acc)).outD none := by
  intro fuel
  induction fuel with
  | zero => intros; rfl
  | succ n ih =>
    intro s rem want acc
    rw [run_outD_fold]
    simp only [lhaNullRead, nullStep, apply_ite (Out.fold none (run nullStep n)), Out.fold_done, Out.fold_next, ← ih]

theorem nullStep_progress (s s' : Bytes × Nat × Nat × Bytes) (h : (nullStep s).succ? = some s') :
    s'.2.2.1 + 1 ≤ s.2.2.1 := by
  unfold nullStep at h
  simp only [] at h
  repeat' split at h
  all_goals (simp only [Out.succ?, Option.some.injEq, reduceCtorEq] at h)
  all_goals (subst h; simp only; omega)

theorem lhaNullRead_work (s : Bytes) (rem want : Nat) :
    EndsWithin nullStep (want + 1) (s, rem, want, []) (want + 1) ∧
    lhaNullRead (want + 1) s rem want [] = (run nullStep (want + 1) (s, rem, want, [])).outD none :=
  ⟨by have := run_bounded nullStep (fun _ => True) (fun x => x.2.2.1) 1 (by decide)
        (fun x x' _ hx => ⟨trivial, nullStep_progress x x' hx⟩) (want + 1) (s, rem, want, []) trivial (by simp)
      simpa using this,
   lhaNullRead_eq_run _ s rem want []⟩

theorem lhaNullRead_len : ∀ fuel s rem want acc out, lhaNullRead fuel s rem want acc = some out →
    out.length = acc.length + want := by
  intro fuel
  induction fuel with
  | zero => intro s rem want acc out h; simp [lhaNullRead] at h
  | succ n ih =>
    intro s rem want acc out h
    simp only [lhaNullRead] at h
    split at h
    · rename_i hw; simp only [Option.some.injEq] at h; subst h; omega
    repeat' split at h
    all_goals (try (simp at h; done))
    have := ih _ _ _ _ _ h
    simp only [List.length_append, List.length_take] at this
    omega

/-! ## header reader consumes at least 22 bytes -/

theorem decodeLevel0_len (h : LhaHeader) (s : Bytes) (h' : LhaHeader) (s' : Bytes)
    (e : decodeLevel0 h s = some (h', s')) : s'.length ≤ s.length := by
  unfold decodeLevel0 at e
  dsimp only at e
  generalize (if h.level = 0 then 22 else 25) = minLen at e
  split at e
  · simp at e
  split at e
  · simp at e
  rename_i h1 s1 he
  have := extendRaw_len _ _ _ _ _ he
  repeat' split at e
  all_goals (try (simp at e; done))
  all_goals (simp only [Option.some.injEq, Prod.mk.injEq] at e; obtain ⟨_, e2⟩ := e; subst e2; omega)

theorem lhaPost_len (h : LhaHeader) (s : Bytes) (h' : LhaHeader) (s' : Bytes) (e : lhaPost h s = some (h', s')) : s' = s := by
  unfold lhaPost at e
  dsimp only at e
  repeat' split at e
  all_goals (try (simp at e; done))
  all_goals (simp only [Option.some.injEq, Prod.mk.injEq] at e; exact e.2.symm)

theorem map_pair_some {α β : Type} (o : Option α) (s : β) (a : α) (b : β) (e : o.map (fun h => (h, s)) = some (a, b)) : b = s := by
  cases o with
  | none => simp at e
  | some x => simp only [Option.map_some, Option.some.injEq, Prod.mk.injEq] at e; exact e.2.symm

/-- `lha_file_header_read` consumes at least the 22 bytes every header level starts with -/
theorem lhaReadHeader_len (s : Bytes) (h : LhaHeader) (s' : Bytes) (e : lhaReadHeader s = some (h, s')) :
    s'.length + 22 ≤ s.length := by
  unfold lhaReadHeader at e
  split at e
  · simp at e
  rename_i raw s0 hr
  have h0 := sRead_len s 22 raw s0 hr
  dsimp only at e
  split at e
  · simp at e
  rename_i h1 s1 hlev
  have hp := lhaPost_len _ _ _ _ e
  rw [hp]
  suffices s1.length ≤ s0.length by omega
  clear e
  split at hlev
  · exact decodeLevel0_len _ _ _ _ hlev
  split at hlev
  · split at hlev
    · simp at hlev
    rename_i h2 s2 hd
    have l0 := decodeLevel0_len _ _ _ _ hd
    split at hlev
    · simp at hlev
    rename_i h3 s3 hl
    have l1 := readL1Ext_len _ _ _ _ _ hl
    have := map_pair_some _ _ _ _ hlev
    subst this
    omega
  split at hlev
  · split at hlev
    · simp at hlev
    split at hlev
    · simp at hlev
    rename_i h2 s2 he
    have l0 := extendRaw_len _ _ _ _ _ he
    split at hlev
    · simp at hlev
    rename_i h3 s3 he2
    have l1 : s3.length ≤ s2.length := by
      split at he2
      · have := extendRaw_len _ _ _ _ _ he2; omega
      · simp only [Option.some.injEq, Prod.mk.injEq] at he2; obtain ⟨_, e2⟩ := he2; subst e2; omega
    have := map_pair_some _ _ _ _ hlev
    subst this
    omega
  split at hlev
  · split at hlev
    · simp at hlev
    split at hlev
    · simp at hlev
    rename_i h2 s2 he
    have l0 := extendRaw_len _ _ _ _ _ he
    split at hlev
    · simp at hlev
    split at hlev
    · simp at hlev
    rename_i h3 s3 he2
    have l1 := extendRaw_len _ _ _ _ _ he2
    have := map_pair_some _ _ _ _ hlev
    subst this
    omega
  · simp at hlev

/-! ## member walk -/

theorem lhaWalk_eq_run (dec : Bytes → Bool → Bytes → Nat → Option Bytes) : ∀ fuel s,
    lhaWalk dec fuel s = (run (lhaStep dec) fuel s).outD none := by
  intro fuel
  induction fuel with
  | zero => intros; rfl
  | succ n ih =>
    intro s
    rw [run_outD_fold]
    simp only [lhaWalk, lhaStep]
    cases hh : lhaReadHeader s with
    | none => rfl
    | some r =>
      obtain ⟨h, s1⟩ := r
      simp only [apply_ite (Out.fold none (run (lhaStep dec) n)), Out.fold_done, Out.fold_next, ← ih]
      rfl

/-- **progress**: a skipped member (directory entry, excluded name) has used up at least its 22-byte header,
whatever compressed size it declares -/
theorem lhaStep_progress (dec : Bytes → Bool → Bytes → Nat → Option Bytes) (s s' : Bytes)
    (h : (lhaStep dec s).succ? = some s') : s'.length + 22 ≤ s.length := by
  unfold lhaStep at h
  split at h
  · simp [Out.succ?] at h
  rename_i hd s1 hh
  have := lhaReadHeader_len s hd s1 hh
  repeat' split at h
  all_goals (simp only [Out.succ?, Option.some.injEq, reduceCtorEq] at h)
  subst h
  simp only [List.length_drop]
  omega

/-- **LHA work bound**: the member walk of `decrunch_lha` ends by itself within `|file|/22 + 1` iterations -/
theorem lha_work (dec : Bytes → Bool → Bytes → Nat → Option Bytes) (f : Bytes) (i : Nat) :
    EndsWithin (lhaStep dec) (f.length + 1) (f.drop i) ((f.length - i) / 22 + 1) ∧
    lhaWalk dec (f.length + 1) (f.drop i) = (run (lhaStep dec) (f.length + 1) (f.drop i)).outD none := by
  have hb := run_bounded (lhaStep dec) (fun _ => True) List.length 22 (by decide)
    (fun s s' _ h => ⟨trivial, lhaStep_progress dec s s' h⟩) (f.length + 1) (f.drop i) trivial
    (by simp only [List.length_drop]
        have : (f.length - i) / 22 ≤ f.length - i := Nat.div_le_self _ _
        omega)
  simp only [List.length_drop] at hb
  exact ⟨hb, lhaWalk_eq_run dec _ _⟩

/-- **LHA output ceiling**: whatever length a member header declares, what `decrunch_lha` returns has between 1 and
`LIBXMP_DEPACK_LIMIT` bytes (the a16da52 repair: the ceiling applies to the declared length before anything is
allocated) -/
theorem lhaWalk_out (dec : Bytes → Bool → Bytes → Nat → Option Bytes) : ∀ fuel s out,
    lhaWalk dec fuel s = some out → 1 ≤ out.length ∧ out.length ≤ depackLimit := by
  intro fuel
  induction fuel with
  | zero => intro s out h; simp [lhaWalk] at h
  | succ n ih =>
    intro s out h
    simp only [lhaWalk] at h
    split at h
    · simp at h
    rename_i hd s1 _
    split at h
    · exact ih _ _ h
    split at h
    · simp at h
    rename_i hlen
    split at h
    · have := lhaNullRead_len _ _ _ _ _ _ h
      simp only [List.length_nil] at this
      omega
    split at h
    · simp at h
    split at h
    · split at h
      · rename_i ho
        simp only [Option.some.injEq] at h
        subst h
        omega
      · simp at h
    · simp at h

theorem unlha_out (dec : Bytes → Bool → Bytes → Nat → Option Bytes) (f out : Bytes) (h : unlha dec f = some out) :
    1 ≤ out.length ∧ out.length ≤ depackLimit := by
  unfold unlha at h
  split at h
  · simp at h
  · exact lhaWalk_out dec _ _ _ h

end Xmp.Work
