import XmpModel.Inflate
/-!
# Canonical Huffman codes as tinfl decodes them

`decodeSym_code`: for a complete set of code lengths (tinfl's acceptance test `total = 65536`), the decoder reads
the canonical code word of any used symbol back as that symbol, whatever follows.
-/
namespace Xmp.Inflate

/-! ## bits -/

theorem toNat_mod2 (x : Nat) : (x % 2 == 1).toNat = x % 2 := by
  rcases Nat.mod_two_eq_zero_or_one x with h | h <;> simp [h]

theorem bitsMSB_length (n v : Nat) : (bitsMSB n v).length = n := by
  induction n with
  | zero => rfl
  | succ n ih => simp [bitsMSB, ih]

theorem bitsLSB_length (n v : Nat) : (bitsLSB n v).length = n := by
  induction n generalizing v with
  | zero => rfl
  | succ n ih => simp [bitsLSB, ih]

/-! ## first codes -/

theorem firstCode_succ (lens : List Nat) (l : Nat) (hl : 1 ≤ l) :
    firstCode lens (l + 1) = (firstCode lens l + lens.count l) * 2 := by
  have : l ≠ 0 := by omega
  simp [firstCode, this]

/-- the codes of length `n > l` start above all codes of length `l`, shifted -/
theorem firstCode_ge (lens : List Nat) (l : Nat) (hl : 1 ≤ l) (d : Nat) :
    (firstCode lens l + lens.count l) * 2 ^ (d + 1) ≤ firstCode lens (l + d + 1) := by
  induction d with
  | zero => rw [firstCode_succ lens l hl]; simp
  | succ d ih =>
    have : l + (d + 1) + 1 = (l + d + 1) + 1 := by omega
    rw [this, firstCode_succ lens (l + d + 1) (by omega), Nat.pow_succ]
    have h2 : (firstCode lens l + lens.count l) * (2 ^ (d + 1) * 2) =
        ((firstCode lens l + lens.count l) * 2 ^ (d + 1)) * 2 := by rw [Nat.mul_assoc]
    rw [h2]
    have : firstCode lens (l + d + 1) ≤ firstCode lens (l + d + 1) + lens.count (l + d + 1) := Nat.le_add_right _ _
    exact Nat.mul_le_mul_right 2 (Nat.le_trans ih this)

/-- a complete set does not overflow: the codes of length `n` fit into `n` bits -/
theorem firstCode_fit (lens : List Nat) (h : firstCode lens 16 = 65536) (n : Nat) (h1 : 1 ≤ n) (h15 : n ≤ 15) :
    firstCode lens n + lens.count n ≤ 2 ^ n := by
  have := firstCode_ge lens n h1 (15 - n)
  have e : n + (15 - n) + 1 = 16 := by omega
  rw [e, h] at this
  have hp : (2 : Nat) ^ n * 2 ^ (15 - n + 1) = 65536 := by
    rw [← Nat.pow_add]
    have : n + (15 - n + 1) = 16 := by omega
    rw [this]
  rw [← hp] at this
  exact Nat.le_of_mul_le_mul_right this (Nat.pow_pos (by decide))

/-! ## symbol ranks -/

theorem nthLen_rank (lens : List Nat) (n sym i : Nat) (hs : sym < lens.length) (hn : lens.getD sym 0 = n) :
    nthLen lens n ((lens.take sym).count n) i = i + sym := by
  induction lens generalizing sym i with
  | nil => simp at hs
  | cons x xs ih =>
    cases sym with
    | zero =>
      simp at hn
      simp [nthLen, hn]
    | succ s =>
      have hs' : s < xs.length := by simpa using hs
      have hn' : xs.getD s 0 = n := by simpa using hn
      by_cases hx : x = n
      · simp [nthLen, hx, List.take_succ_cons]
        rw [ih s (i + 1) hs' hn']; omega
      · simp [nthLen, hx, List.take_succ_cons]
        rw [ih s (i + 1) hs' hn']; omega

theorem rank_lt (lens : List Nat) (n sym : Nat) (hs : sym < lens.length) (hn : lens.getD sym 0 = n) :
    (lens.take sym).count n < lens.count n := by
  have h : lens = lens.take sym ++ lens.drop sym := (List.take_append_drop sym lens).symm
  have hd : lens.drop sym = n :: lens.drop (sym + 1) := by
    rw [List.drop_eq_getElem_cons hs]
    congr 1
    rw [← hn]; simp [List.getD_eq_getElem?_getD, hs]
  have : lens.count n = (lens.take sym).count n + (n :: lens.drop (sym + 1)).count n := by
    conv => lhs; rw [h, hd]
    rw [List.count_append]
  rw [this]; simp

/-! ## the counting decoder on a canonical code word -/

theorem bitsMSB_succ' (k v : Nat) : bitsMSB (k + 1) v = (v / 2 ^ k % 2 == 1) :: bitsMSB k v := rfl

theorem range'_map_cons (f : Nat → Nat) (l m : Nat) :
    (List.range' l (m + 1)).map f = f l :: (List.range' (l + 1) m).map f := by
  simp [List.range'_succ]

/-- `k` bits of the code word `V` of symbol `sym` (length `n`) are still to come -/
theorem decLoop_code (lens : List Nat) (sym n V : Nat) (r : Bits)
    (hs : sym < lens.length) (hn : lens.getD sym 0 = n) (h15 : n ≤ 15)
    (hV : V = firstCode lens n + (lens.take sym).count n)
    (k : Nat) (hk1 : 1 ≤ k) (hkn : k ≤ n) :
    decLoop lens ((List.range' (n - k + 1) (15 - (n - k))).map (fun l => lens.count l)) (n - k + 1) (V / 2 ^ k)
      (firstCode lens (n - k + 1)) (bitsMSB k V ++ r) = .ok (sym, n, r) := by
  induction k with
  | zero => omega
  | succ k ih =>
    have hlen : 15 - (n - (k + 1)) = (14 - (n - (k + 1))) + 1 := by omega
    rw [hlen, range'_map_cons, bitsMSB_succ', List.cons_append, decLoop, toNat_mod2]
    have hcode : V / 2 ^ (k + 1) * 2 + V / 2 ^ k % 2 = V / 2 ^ k := by
      rw [Nat.pow_succ, ← Nat.div_div_eq_div_mul]; omega
    rw [hcode]
    by_cases hk0 : k = 0
    · subst hk0
      have hl : n - (0 + 1) + 1 = n := by omega
      simp only [hl, Nat.pow_zero, Nat.div_one]
      have hr := rank_lt lens n sym hs hn
      have hlt : V < firstCode lens n + lens.count n := by omega
      rw [if_pos hlt]
      have : V - firstCode lens n = (lens.take sym).count n := by omega
      rw [this, nthLen_rank lens n sym 0 hs hn]
      simp [bitsMSB]
    · have hl1 : 1 ≤ n - (k + 1) + 1 := by omega
      have hge := firstCode_ge lens (n - (k + 1) + 1) hl1 (k - 1)
      have e1 : n - (k + 1) + 1 + (k - 1) + 1 = n := by omega
      have e2 : k - 1 + 1 = k := by omega
      rw [e1, e2] at hge
      have hVge : firstCode lens n ≤ V := by omega
      have hnot : ¬ V / 2 ^ k < firstCode lens (n - (k + 1) + 1) + lens.count (n - (k + 1) + 1) := by
        have : (firstCode lens (n - (k + 1) + 1) + lens.count (n - (k + 1) + 1)) * 2 ^ k ≤ V := Nat.le_trans hge hVge
        have := (Nat.le_div_iff_mul_le (Nat.pow_pos (by decide : 0 < 2))).2 this
        omega
      rw [if_neg hnot]
      have ih' := ih (by omega) (by omega)
      have e3 : n - k + 1 = n - (k + 1) + 1 + 1 := by omega
      have e4 : 15 - (n - k) = 14 - (n - (k + 1)) := by omega
      rw [e3, e4] at ih'
      rw [← firstCode_succ lens (n - (k + 1) + 1) hl1]
      exact ih'


/-- tinfl's completeness test implies at least two used symbols -/
theorem complete_used (lens : List Nat) (h : firstCode lens 16 = 65536) :
    2 ≤ ((List.range' 1 15).map (fun l => lens.count l)).sum := by
  simp [firstCode, List.range'] at h ⊢
  omega

theorem mkHuff_complete (lens : List Nat) (h : firstCode lens 16 = 65536) : mkHuff lens = some (huffOf lens) := by
  unfold mkHuff
  simp [h]

/-- **canonical Huffman decoding**: with a complete set of code lengths the decoder maps the code word of every
    used symbol back to the symbol and consumes exactly its length -/
theorem decodeSym_code (lens : List Nat) (hd : Huff) (hm : mkHuff lens = some hd) (hc : firstCode lens 16 = 65536)
    (sym : Nat) (hs : sym < lens.length) (hn0 : lens.getD sym 0 ≠ 0) (h15 : lens.getD sym 0 ≤ 15) (r : Bits) :
    decodeSym hd (codeBits lens sym ++ r) = .ok (sym, lens.getD sym 0, r) := by
  rw [mkHuff_complete lens hc] at hm
  injection hm with hm
  subst hm
  have hu := complete_used lens hc
  unfold decodeSym huffOf
  simp only []
  rw [if_neg (by omega), if_neg (by omega)]
  have hfit := firstCode_fit lens hc (lens.getD sym 0) (by omega) h15
  have hr := rank_lt lens _ sym hs rfl
  have hV : codeOf lens sym < 2 ^ lens.getD sym 0 := by unfold codeOf; omega
  have := decLoop_code lens sym (lens.getD sym 0) (codeOf lens sym) r hs rfl h15 rfl (lens.getD sym 0) (by omega) (Nat.le_refl _)
  simp only [Nat.sub_self, Nat.zero_add, Nat.sub_zero] at this
  rw [Nat.div_eq_of_lt hV] at this
  have hf1 : firstCode lens 1 = 0 := by simp [firstCode]
  rw [hf1] at this
  exact this

end Xmp.Inflate
