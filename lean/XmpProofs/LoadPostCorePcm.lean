import XmpProofs.LoadPostCore
import XmpProofs.FmtPcm
/-!
# C03 × C19 — lengths of the loaders' PCM conversions

Every storage conversion of the C19 readers (sign flip, delta decoding, stereo block → interleaved, IT 2.14/2.15
decompression) returns exactly `len` frames when it is given `len` frames: the facts behind `PcmOk`.
-/
namespace Xmp.LoadPost.Core
open Xmp Xmp.Fmt

theorem interleave_length (fs : Nat) : ∀ (n : Nat) (l r : Bytes), n * fs ≤ l.length → n * fs ≤ r.length →
    (interleave fs n l r).length = n * (2 * fs)
  | 0, _, _, _, _ => by simp [interleave]
  | n + 1, l, r, hl, hr => by
    have e : (n + 1) * fs = n * fs + fs := Nat.succ_mul n fs
    have e2 : (n + 1) * (2 * fs) = n * (2 * fs) + 2 * fs := Nat.succ_mul n (2 * fs)
    have ih := interleave_length fs n (l.drop fs) (r.drop fs) (by rw [List.length_drop]; omega)
      (by rw [List.length_drop]; omega)
    simp only [interleave, List.length_append, List.length_take, ih]
    omega

theorem deltaDecN_length (m : Nat) : ∀ (acc : Nat) (xs : List Nat), (deltaDecN m acc xs).length = xs.length
  | _, [] => rfl
  | acc, x :: r => by simp only [deltaDecN, List.length_cons, deltaDecN_length m _ r]

theorem deltaDec_length (is16 : Bool) (b : Bytes) (n : Nat) (h : is16 = true → b.length = 2 * n) :
    (deltaDec is16 b).length = b.length := by
  cases is16
  · simp [deltaDec, deltaDecN_length]
  · have h' := h rfl
    simp only [deltaDec, if_true, unwords_length, deltaDecN_length, words_length n b h', h']

/-- masks that keep the 16-bit and stereo bits keep the frame size -/
theorem frameBytes_and (x m : Nat) (h1 : m &&& F16BIT = F16BIT) (h2 : m &&& FSTEREO = FSTEREO) :
    frameBytes (x &&& m) = frameBytes x := by
  unfold frameBytes
  rw [Nat.and_assoc, Nat.and_assoc, h1, h2]

theorem chanBytes_and (x m : Nat) (h1 : m &&& F16BIT = F16BIT) : chanBytes (x &&& m) = chanBytes x := by
  unfold chanBytes
  rw [Nat.and_assoc, h1]

/-- `libxmp_load_sample`'s loop sanity only touches the loop bits -/
theorem frameBytes_loopSanity (len lps lpe f : Nat) : frameBytes (loopSanity len lps lpe f).2.2 = frameBytes f := by
  unfold loopSanity
  simp only
  repeat' split
  all_goals dsimp only
  all_goals first
    | rfl
    | (refine frameBytes_and f _ ?_ ?_ <;> decide)

theorem len_even_of_16 (flg len : Nat) (b : Bytes) (h : b.length = len * chanBytes flg) :
    decide (flg &&& F16BIT ≠ 0) = true → b.length = 2 * len := by
  intro h16
  have : flg &&& F16BIT ≠ 0 := by simpa using h16
  rw [h, chanBytes_16 flg this]; omega

/-- S3M / IT storage: optional sign flip, stereo blocks → interleaved -/
theorem s3m_loadPcm_length (u : Bool) (flg len : Nat) (raw : Bytes) (h : raw.length = len * frameBytes flg) :
    (S3m.loadPcm u flg len raw).length = len * frameBytes flg := by
  unfold S3m.loadPcm
  simp only
  have hev : decide (flg &&& F16BIT ≠ 0) = true → raw.length = 2 * (len * (if flg &&& FSTEREO ≠ 0 then 2 else 1)) := by
    intro h16
    have : flg &&& F16BIT ≠ 0 := by simpa using h16
    rw [h, frameBytes_eq, chanBytes_16 flg this]
    split <;> omega
  have hsf : (if u = true then signFlip (decide (flg &&& F16BIT ≠ 0)) raw else raw).length = raw.length := by
    split
    · exact signFlip_length _ raw _ hev
    · rfl
  generalize (if u = true then signFlip (decide (flg &&& F16BIT ≠ 0)) raw else raw) = raw' at hsf
  unfold fromBlocks
  rw [frameBytes_eq] at h ⊢
  split
  · rename_i hs
    rw [if_pos hs] at h
    rw [interleave_length]
    · rw [Nat.mul_comm 2 (chanBytes flg)]
    · rw [List.length_take, hsf, h]
      have : len * chanBytes flg ≤ len * (chanBytes flg * 2) := Nat.mul_le_mul_left len (by omega)
      omega
    · rw [List.length_drop, hsf, h]
      have : len * (chanBytes flg * 2) = len * chanBytes flg + len * chanBytes flg := by
        rw [Nat.mul_comm (chanBytes flg) 2, ← Nat.mul_assoc, Nat.mul_comm len 2, Nat.mul_assoc]; omega
      omega
  · rename_i hs
    rw [if_neg hs] at h
    rw [hsf, h]

/-- XM storage: delta decoding per channel block, stereo blocks → interleaved -/
theorem xm_loadPcm_length (flg len : Nat) (raw : Bytes) (h : raw.length = len * frameBytes flg) :
    (Xm.loadPcm flg len raw).length = len * frameBytes flg := by
  unfold Xm.loadPcm
  simp only
  rw [frameBytes_eq] at h ⊢
  split
  · rename_i hs
    rw [if_pos hs] at h
    have hdbl : len * (chanBytes flg * 2) = len * chanBytes flg + len * chanBytes flg := by
      rw [Nat.mul_comm (chanBytes flg) 2, ← Nat.mul_assoc, Nat.mul_comm len 2, Nat.mul_assoc]; omega
    have hl : (raw.take (len * chanBytes flg)).length = len * chanBytes flg := by
      rw [List.length_take, h]; omega
    have hr : (raw.drop (len * chanBytes flg)).length = len * chanBytes flg := by
      rw [List.length_drop, h]; omega
    rw [interleave_length]
    · rw [Nat.mul_comm 2 (chanBytes flg)]
    · rw [deltaDec_length _ _ len (len_even_of_16 flg len _ hl), hl]; exact Nat.le_refl _
    · rw [deltaDec_length _ _ len (len_even_of_16 flg len _ hr), hr]; exact Nat.le_refl _
  · rename_i hs
    rw [if_neg hs] at h
    simp only [Nat.mul_one] at h ⊢
    rw [deltaDec_length _ _ len (len_even_of_16 flg len _ h), h]

end Xmp.LoadPost.Core
