import XmpModel.PowerPacker
/-!
Round trip for the PowerPacker model: `decrunchPP (ppEncode eff p) = some p`.
The bit reader of `ppDecrunch` (byte-wise refill of `bit_buffer`, MSB-first assembly) is related to the abstract
stream of pending bits.
-/
namespace Xmp.PowerPacker
open Xmp

/-- `n` low bits of `v`, least significant first (the order in which `bit_buffer` is consumed) -/
def lsbBits : Nat → Nat → List Bool
  | 0, _ => []
  | n + 1, v => (v % 2 == 1) :: lsbBits n (v / 2)

/-- value of a bit string read most significant first -/
def msbVal (bs : List Bool) : Nat := bs.foldl (fun v b => 2 * v + (if b then 1 else 0)) 0

def srcBits (src : Bytes) : List Bool := src.flatMap (fun b => lsbBits 8 b.toNat)

/-- the bits the reader will deliver, in order -/
def pending (br : BR) : List Bool := lsbBits br.left br.buf ++ srcBits br.src

theorem lsbBits_length (n v : Nat) : (lsbBits n v).length = n := by
  induction n generalizing v with
  | zero => rfl
  | succ n ih => simp [lsbBits, ih]

theorem lsbBits_add (a b v : Nat) : lsbBits (a + b) v = lsbBits a v ++ lsbBits b (v / 2 ^ a) := by
  induction a generalizing v with
  | zero => simp [lsbBits]
  | succ a ih =>
    have : a + 1 + b = (a + b) + 1 := by omega
    rw [this]
    simp only [lsbBits, ih, List.cons_append, Nat.pow_succ]
    rw [Nat.div_div_eq_div_mul, Nat.mul_comm]

theorem lsbBits_mod (n v : Nat) : lsbBits n (v % 2 ^ n) = lsbBits n v := by
  induction n generalizing v with
  | zero => rfl
  | succ n ih =>
    simp only [lsbBits]
    have h1 : v % 2 ^ (n + 1) % 2 = v % 2 := by
      rw [Nat.pow_succ, Nat.mul_comm]; exact Nat.mod_mul_right_mod v 2 (2 ^ n)
    have h2 : v % 2 ^ (n + 1) / 2 = (v / 2) % 2 ^ n := by
      rw [Nat.pow_succ, Nat.mul_comm]; exact Nat.mod_mul_right_div_self v 2 (2 ^ n)
    rw [h1, h2, ih]

/-- appending a byte above the `left` valid bits of the buffer -/
theorem lsbBits_or (buf left b : Nat) (hb : buf < 2 ^ left) :
    lsbBits (left + 8) (buf ||| (b <<< left)) = lsbBits left buf ++ lsbBits 8 b := by
  have h : buf ||| (b <<< left) = b <<< left + buf := by
    rw [Nat.or_comm]; exact (Nat.shiftLeft_add_eq_or_of_lt hb b).symm
  rw [h, lsbBits_add, Nat.shiftLeft_eq]
  have hpos : 0 < 2 ^ left := Nat.pow_pos (by decide)
  have h1 : (b * 2 ^ left + buf) / 2 ^ left = b := by
    rw [Nat.mul_comm, Nat.mul_add_div hpos, Nat.div_eq_of_lt hb, Nat.add_zero]
  have h2 : lsbBits left (b * 2 ^ left + buf) = lsbBits left buf := by
    rw [← lsbBits_mod left (b * 2 ^ left + buf), Nat.mul_comm, Nat.mul_add_mod, Nat.mod_eq_of_lt hb]
  rw [h1, h2]

theorem fill_spec (n : Nat) (src : Bytes) : ∀ (buf left : Nat), buf < 2 ^ left →
    n ≤ left + 8 * src.length →
    ∃ b, fill n src buf left = some b ∧ pending b = lsbBits left buf ++ srcBits src ∧ b.buf < 2 ^ b.left ∧ n ≤ b.left := by
  induction src with
  | nil =>
    intro buf left hb hn
    have : ¬ left < n := by simp at hn; omega
    exact ⟨⟨buf, left, []⟩, by simp [fill, this], rfl, hb, by omega⟩
  | cons c r ih =>
    intro buf left hb hn
    by_cases hl : left < n
    · have hb' : buf ||| (c.toNat <<< left) < 2 ^ (left + 8) := by
        have h : buf ||| (c.toNat <<< left) = c.toNat <<< left + buf := by
          rw [Nat.or_comm]; exact (Nat.shiftLeft_add_eq_or_of_lt hb c.toNat).symm
        rw [h, Nat.shiftLeft_eq, Nat.pow_add]
        have := c.toNat_lt
        have hpos : 0 < 2 ^ left := Nat.pow_pos (by decide)
        calc c.toNat * 2 ^ left + buf < c.toNat * 2 ^ left + 2 ^ left := by omega
          _ = (c.toNat + 1) * 2 ^ left := by rw [Nat.add_mul, Nat.one_mul]
          _ ≤ 2 ^ 8 * 2 ^ left := Nat.mul_le_mul_right _ (by omega)
          _ = 2 ^ left * 2 ^ 8 := Nat.mul_comm _ _
      obtain ⟨b, h1, h2, h3, h4⟩ := ih (buf ||| (c.toNat <<< left)) (left + 8) hb' (by simp at hn ⊢; omega)
      refine ⟨b, by simp [fill, hl, h1], ?_, h3, h4⟩
      rw [h2, lsbBits_or buf left c.toNat hb]
      simp [srcBits, List.append_assoc]
    · exact ⟨⟨buf, left, c :: r⟩, by simp [fill, hl], rfl, hb, Nat.le_of_not_lt hl⟩

theorem msbVal_append (a : List Bool) (b : Bool) : msbVal (a ++ [b]) = 2 * msbVal a + (if b then 1 else 0) := by
  simp [msbVal, List.foldl_append]

theorem foldl_msb (bs : List Bool) (v : Nat) :
    bs.foldl (fun v b => 2 * v + (if b then 1 else 0)) v = v * 2 ^ bs.length + msbVal bs := by
  induction bs generalizing v with
  | nil => simp [msbVal]
  | cons b bs ih =>
    simp only [List.foldl_cons, msbVal, List.length_cons]
    rw [ih, ih (2 * 0 + _)]
    rw [Nat.pow_succ, Nat.add_mul]
    simp only [Nat.mul_zero, Nat.zero_add]
    have : v * (2 ^ bs.length * 2) = 2 * (v * 2 ^ bs.length) := by
      rw [← Nat.mul_assoc, Nat.mul_comm]
    rw [this, Nat.mul_assoc]
    omega

theorem takeBits_spec (k : Nat) : ∀ (var buf : Nat),
    takeBits k var buf = (var * 2 ^ k + msbVal (lsbBits k buf), buf / 2 ^ k) := by
  induction k with
  | zero => intro var buf; simp [takeBits, lsbBits, msbVal]
  | succ k ih =>
    intro var buf
    have h1 : (var <<< 1) ||| (buf &&& 1) = 2 * var + buf % 2 := by
      have hlt : buf &&& 1 < 2 ^ 1 := by rw [Nat.and_one_is_mod]; omega
      rw [← Nat.shiftLeft_add_eq_or_of_lt hlt, Nat.shiftLeft_eq, Nat.and_one_is_mod]; omega
    simp only [takeBits, h1, ih, Nat.shiftRight_eq_div_pow, Nat.pow_one, lsbBits]
    have hm : msbVal ((buf % 2 == 1) :: lsbBits k (buf / 2)) =
        (if (buf % 2 == 1) = true then 1 else 0) * 2 ^ k + msbVal (lsbBits k (buf / 2)) := by
      simp only [msbVal, List.foldl_cons]
      rw [foldl_msb, lsbBits_length]
      simp [msbVal]
    rw [hm, Nat.div_div_eq_div_mul, Nat.pow_succ, Nat.mul_comm (2 ^ k) 2]
    congr 1
    have hv : var * (2 * 2 ^ k) = 2 * (var * 2 ^ k) := Nat.mul_left_comm _ _ _
    rw [Nat.add_mul, Nat.mul_assoc, hv]
    rcases Nat.mod_two_eq_zero_or_one buf with h | h <;> simp [h] <;> omega

/-- **`PP_READ_BITS`**: reading `n` bits delivers the next `n` pending bits, assembled MSB first -/
theorem readBits_spec (n : Nat) (br : BR) (bs rest : List Bool) (hinv : br.buf < 2 ^ br.left)
    (hp : pending br = bs ++ rest) (hn : bs.length = n) :
    ∃ br', readBits n br = some (msbVal bs, br') ∧ pending br' = rest ∧ br'.buf < 2 ^ br'.left := by
  have hlen : n ≤ br.left + 8 * br.src.length := by
    have := congrArg List.length hp
    simp only [pending, List.length_append, lsbBits_length, srcBits, List.length_flatMap, lsbBits_length] at this
    have h8 : (br.src.map (fun _ => 8)).sum = 8 * br.src.length := by
      induction br.src with
      | nil => rfl
      | cons x xs ih => simp [ih]; omega
    rw [h8] at this; omega
  obtain ⟨b, h1, h2, h3, h4⟩ := fill_spec n br.src br.buf br.left hinv hlen
  have hpb : pending b = bs ++ rest := by rw [h2]; exact hp
  have hsplit : b.left = n + (b.left - n) := by omega
  have hpb' : lsbBits n b.buf ++ (lsbBits (b.left - n) (b.buf / 2 ^ n) ++ srcBits b.src) = bs ++ rest := by
    rw [← List.append_assoc, ← lsbBits_add, ← hsplit]; exact hpb
  have hbs : lsbBits n b.buf = bs ∧ lsbBits (b.left - n) (b.buf / 2 ^ n) ++ srcBits b.src = rest :=
    List.append_inj hpb' (by rw [lsbBits_length, hn])
  refine ⟨⟨b.buf / 2 ^ n, b.left - n, b.src⟩, ?_, hbs.2, ?_⟩
  · simp only [readBits, h1, takeBits_spec, Nat.zero_mul, Nat.zero_add, hbs.1]
  · show b.buf / 2 ^ n < 2 ^ (b.left - n)
    rw [Nat.div_lt_iff_lt_mul (Nat.pow_pos (by decide)), ← Nat.pow_add]
    have : b.left - n + n = b.left := by omega
    rw [this]; exact h3


/-! ## the encoder's pieces through the reader -/

theorem msbVal_cons (b : Bool) (bs : List Bool) :
    msbVal (b :: bs) = (if b then 1 else 0) * 2 ^ bs.length + msbVal bs := by
  simp only [msbVal, List.foldl_cons]
  rw [foldl_msb]; simp [msbVal]

theorem msbBits_length (n v : Nat) : (msbBits n v).length = n := by
  induction n with
  | zero => rfl
  | succ n ih => simp [msbBits, ih]

theorem msbVal_msbBits (n v : Nat) : msbVal (msbBits n v) = v % 2 ^ n := by
  induction n with
  | zero => simp [msbBits, msbVal, Nat.mod_one]
  | succ n ih =>
    rw [msbBits, msbVal_cons, msbBits_length, ih, Nat.mod_pow_succ]
    rcases Nat.mod_two_eq_zero_or_one (v / 2 ^ n) with h | h <;> simp [h] <;> omega

theorem pending_length (br : BR) : (pending br).length = bitsAvail br := by
  simp only [pending, List.length_append, lsbBits_length, srcBits, List.length_flatMap, bitsAvail]
  have h8 : (br.src.map (fun _ => 8)).sum = 8 * br.src.length := by
    induction br.src with
    | nil => rfl
    | cons x xs ih => simp [ih]; omega
  rw [h8]

theorem readCount_countBits (fuelC : Nat) : ∀ (m fuelR : Nat) (br : BR) (todo : Nat) (rest : List Bool),
    br.buf < 2 ^ br.left → pending br = countBits fuelC m ++ rest → m ≤ 3 * fuelC → fuelC < fuelR →
    ∃ br', readCount 2 fuelR br todo = some (todo + m, br') ∧ pending br' = rest ∧ br'.buf < 2 ^ br'.left := by
  induction fuelC with
  | zero =>
    intro m fuelR br todo rest hinv hp hm hf
    have hm0 : m = 0 := by omega
    subst hm0
    obtain ⟨f, rfl⟩ : ∃ f, fuelR = f + 1 := ⟨fuelR - 1, by omega⟩
    obtain ⟨br', h1, h2, h3⟩ := readBits_spec 2 br [false, false] rest hinv (by simpa [countBits] using hp) rfl
    refine ⟨br', ?_, h2, h3⟩
    simp [readCount, h1, msbVal]
  | succ fc ih =>
    intro m fuelR br todo rest hinv hp hm hf
    obtain ⟨f, rfl⟩ : ∃ f, fuelR = f + 1 := ⟨fuelR - 1, by omega⟩
    by_cases h3 : m ≥ 3
    · have hp' : pending br = [true, true] ++ (countBits fc (m - 3) ++ rest) := by
        simpa [countBits, h3] using hp
      obtain ⟨br1, h1, h2, h4⟩ := readBits_spec 2 br [true, true] _ hinv hp' rfl
      obtain ⟨br', h5, h6, h7⟩ := ih (m - 3) f br1 (todo + 3) rest h4 h2 (by omega) (by omega)
      refine ⟨br', ?_, h6, h7⟩
      have hv : msbVal [true, true] = 3 := by simp [msbVal]
      simp only [readCount, h1, hv]
      rw [if_pos (by decide), h5]
      congr 2; omega
    · have hp' : pending br = msbBits 2 m ++ rest := by simpa [countBits, h3] using hp
      obtain ⟨br', h1, h2, h4⟩ := readBits_spec 2 br (msbBits 2 m) rest hinv hp' (msbBits_length 2 m)
      refine ⟨br', ?_, h2, h4⟩
      have hv : msbVal (msbBits 2 m) = m := by rw [msbVal_msbBits]; omega
      simp only [readCount, h1, hv]
      rw [if_neg (by omega)]

theorem copyLits_spec (destLen : Nat) (q : Bytes) : ∀ (br : BR) (acc : Bytes) (rest : List Bool),
    br.buf < 2 ^ br.left → pending br = q.flatMap (fun b => msbBits 8 b.toNat) ++ rest →
    acc.length + q.length ≤ destLen →
    ∃ br', copyLits destLen q.length br acc = some (br', q.reverse ++ acc) ∧ pending br' = rest ∧
      br'.buf < 2 ^ br'.left := by
  induction q with
  | nil => intro br acc rest hinv hp _; exact ⟨br, by simp [copyLits], by simpa using hp, hinv⟩
  | cons b q ih =>
    intro br acc rest hinv hp hl
    have hp' : pending br = msbBits 8 b.toNat ++ (q.flatMap (fun b => msbBits 8 b.toNat) ++ rest) := by
      simpa [List.append_assoc] using hp
    obtain ⟨br1, h1, h2, h3⟩ := readBits_spec 8 br _ _ hinv hp' (msbBits_length 8 _)
    have hv : msbVal (msbBits 8 b.toNat) = b.toNat := by
      rw [msbVal_msbBits]; have := b.toNat_lt; omega
    obtain ⟨br', h4, h5, h6⟩ := ih br1 (b :: acc) rest h3 h2 (by simp at hl ⊢; omega)
    refine ⟨br', ?_, h5, h6⟩
    have hno : ¬ acc.length ≥ destLen := by simp at hl; omega
    simp only [List.length_cons, copyLits, h1, hv, hno, if_false, UInt8.ofNat_toNat, h4]
    simp

theorem lsbBits_bitVal (bs : List Bool) : lsbBits bs.length (bitVal bs) = bs := by
  induction bs with
  | nil => rfl
  | cons b bs ih =>
    simp only [List.length_cons, lsbBits, bitVal]
    have h1 : ((if b then 1 else 0) + 2 * bitVal bs) % 2 = (if b then 1 else 0) := by cases b <;> simp <;> omega
    have h2 : ((if b then 1 else 0) + 2 * bitVal bs) / 2 = bitVal bs := by cases b <;> simp <;> omega
    rw [h1, h2, ih]; cases b <;> simp

theorem bitVal_lt (bs : List Bool) : bitVal bs < 2 ^ bs.length := by
  induction bs with
  | nil => simp [bitVal]
  | cons b bs ih => simp only [bitVal, List.length_cons, Nat.pow_succ]; split <;> omega

theorem srcBits_packGo (k : Nat) : ∀ l : List Bool, l.length = 8 * k → srcBits (packGo k l) = l := by
  induction k with
  | zero => intro l h; simp [packGo, srcBits, List.eq_nil_of_length_eq_zero (by omega : l.length = 0)]
  | succ k ih =>
    intro l h
    have h8 : (l.take 8).length = 8 := by simp [List.length_take]; omega
    have hlt : bitVal (l.take 8) < 256 := by have := bitVal_lt (l.take 8); rw [h8] at this; exact this
    have hto : (UInt8.ofNat (bitVal (l.take 8))).toNat = bitVal (l.take 8) := by
      rw [UInt8.toNat_ofNat']; omega
    have hrest := ih (l.drop 8) (by simp; omega)
    simp only [packGo, srcBits, List.flatMap_cons, hto] at hrest ⊢
    have := lsbBits_bitVal (l.take 8)
    rw [h8] at this
    rw [this, hrest, List.take_append_drop]

theorem packGo_length (k : Nat) (l : List Bool) : (packGo k l).length = k := by
  induction k generalizing l with
  | zero => rfl
  | succ k ih => simp [packGo, ih]


/-! ## the whole decoder on an encoded file -/

theorem litBits_tail_length (p : Bytes) : (p.reverse.flatMap (fun b => msbBits 8 b.toNat)).length = 8 * p.length := by
  rw [List.length_flatMap]
  have : ∀ q : Bytes, (q.map (fun b => (msbBits 8 b.toNat).length)).sum = 8 * q.length := by
    intro q; induction q with
    | nil => rfl
    | cons x xs ih =>
      simp only [List.map_cons, List.sum_cons, msbBits_length, List.length_cons] at ih ⊢
      omega
  rw [this, List.length_reverse]

/-- the main loop on the bit string of the literal-run encoder -/
theorem mainLoop_lit (p : Bytes) (hne : p ≠ []) (eff : Bytes) (br : BR) (tail : List Bool)
    (hinv : br.buf < 2 ^ br.left) (hp : pending br = litBits p ++ tail) :
    mainLoop eff p.length (p.length + 1) br [] = some p := by
  have hpl : 0 < p.length := List.length_pos_iff.mpr hne
  rw [mainLoop]
  have hno : ¬ ([] : Bytes).length ≥ p.length := by simp; omega
  simp only [hno, if_false]
  have hp1 : pending br = [false] ++ (countBits p.length (p.length - 1) ++
      (p.reverse.flatMap (fun b => msbBits 8 b.toNat) ++ tail)) := by
    rw [hp]; simp [litBits, List.append_assoc]
  obtain ⟨br2, h4, h5, h6⟩ := readBits_spec 1 br [false] _ hinv hp1 rfl
  have hv0 : msbVal [false] = 0 := by simp [msbVal]
  rw [h4, hv0]
  simp only [if_true]
  have havail : p.length < bitsAvail br2 + 1 := by
    rw [← pending_length, h5]
    simp only [List.length_append, litBits_tail_length]; omega
  obtain ⟨br3, h7, h8, h9⟩ := readCount_countBits p.length (p.length - 1) (bitsAvail br2 + 1) br2 1 _ h6 h5
    (by omega) havail
  have h1p : 1 + (p.length - 1) = p.reverse.length := by simp; omega
  rw [h7, h1p]
  simp only []
  obtain ⟨br4, h10, _, _⟩ := copyLits_spec p.length p.reverse br3 [] _ h9 h8 (by simp)
  rw [h10]
  simp

/-- `ppDecrunch` on a packed bit string: the skip bits are consumed and the main loop sees exactly `bits`
    (followed by the 8 bits of the byte in front of the packed area) -/
theorem ppDecrunch_bits (bits : List Bool) (eff : Bytes) (before : UInt8) (skip k n : Nat) (out : Bytes) (hs : skip ≤ 32)
    (hk : (List.replicate skip false ++ bits).length = 8 * k)
    (H : ∀ br tail, br.buf < 2 ^ br.left → pending br = bits ++ tail → mainLoop eff n (n + 1) br [] = some out) :
    ppDecrunch (packGo k (List.replicate skip false ++ bits)).reverse eff before n skip = some out := by
  unfold ppDecrunch
  rw [if_neg (by omega), List.reverse_reverse]
  have hp0 : pending { buf := 0, left := 0, src := packGo k (List.replicate skip false ++ bits) ++ [before] } =
      List.replicate skip false ++ (bits ++ lsbBits 8 before.toNat) := by
    have h00 : lsbBits 0 0 = [] := rfl
    simp only [pending, h00, List.nil_append, srcBits, List.flatMap_append, List.flatMap_cons, List.flatMap_nil,
      List.append_nil]
    have := srcBits_packGo k _ hk
    simp only [srcBits] at this
    rw [this, List.append_assoc]
  obtain ⟨br1, h1, h2, h3⟩ := readBits_spec skip _ _ _ (by simp) hp0 (by simp)
  rw [h1]
  exact H br1 _ h3 h2

def LegalEff (eff : Bytes) : Prop := eff.length = 4 ∧ ∀ e ∈ eff, 9 ≤ e.toNat ∧ e.toNat ≤ 15

/-- `decrunch_pp` on a packed file: all header and trailer checks pass and the main loop runs on `bits` -/
theorem decrunchPP_pack (eff : Bytes) (bits : List Bool) (n : Nat) (out : Bytes) (he : LegalEff eff)
    (hb : 0 < bits.length) (hn0 : 0 < n) (hn : n < 2 ^ 24)
    (H : ∀ br tail, br.buf < 2 ^ br.left → pending br = bits ++ tail → mainLoop eff n (n + 1) br [] = some out) :
    decrunchPP (ppPack eff bits n) = some out := by
  obtain ⟨hel, hev⟩ := he
  obtain ⟨e0, e1, e2, e3, rfl⟩ : ∃ e0 e1 e2 e3, eff = [e0, e1, e2, e3] := by
    match eff, hel with
    | [a, b, c, d], _ => exact ⟨a, b, c, d, rfl⟩
  simp only [ppPack]
  generalize hskip : (32 - bits.length % 32) % 32 = skip
  have hs32 : skip < 32 := by rw [← hskip]; exact Nat.mod_lt _ (by decide)
  have hall : (List.replicate skip false ++ bits).length % 32 = 0 := by
    simp only [List.length_append, List.length_replicate, ← hskip]; omega
  generalize hk : (List.replicate skip false ++ bits).length / 8 = k
  have hk8 : (List.replicate skip false ++ bits).length = 8 * k := by omega
  have hk4 : k % 4 = 0 ∧ 4 ≤ k := by
    have : 0 < (List.replicate skip false ++ bits).length := by simp only [List.length_append]; omega
    omega
  have hdec := ppDecrunch_bits bits [e0, e1, e2, e3] e3 skip k n out (by omega) hk8 H
  generalize hpk : (packGo k (List.replicate skip false ++ bits)).reverse = packed at *
  have hpkl : packed.length = k := by rw [← hpk, List.length_reverse, packGo_length]
  simp only [List.take, List.cons_append, List.nil_append]
  unfold decrunchPP
  simp only [List.length_cons, List.length_append, List.length_nil, hpkl]
  have hc1 : ¬ ((k + (0 + 1 + 1 + 1 + 1) + 1 + 1 + 1 + 1 + 1 + 1 + 1 + 1) % 2 ≠ 0 ∨
      k + (0 + 1 + 1 + 1 + 1) + 1 + 1 + 1 + 1 + 1 + 1 + 1 + 1 < 16 ∨
      (k + (0 + 1 + 1 + 1 + 1) + 1 + 1 + 1 + 1 + 1 + 1 + 1 + 1) % 4 ≠ 0) := by omega
  simp only [hc1, if_false, List.take, ne_eq, not_true_eq_false, List.drop]
  have hany : ([e0, e1, e2, e3].any fun e => decide (e.toNat < 9 ∨ e.toNat / 16 ≠ 0)) = false := by
    have h0 := hev e0 (by simp); have h1 := hev e1 (by simp); have h2 := hev e2 (by simp); have h3 := hev e3 (by simp)
    simp only [List.any_cons, List.any_nil, Bool.or_false, Bool.or_eq_false_iff, decide_eq_false_iff_not]
    refine ⟨?_, ?_, ?_, ?_⟩ <;> omega
  simp only [hany, Bool.false_eq_true, if_false]
  have hidx : ∀ j, j < 4 → (0x50 :: 0x50 :: 0x32 :: 0x30 :: e0 :: e1 :: e2 :: e3 ::
      (packed ++ [UInt8.ofNat (n / 65536 % 256), UInt8.ofNat (n / 256 % 256),
        UInt8.ofNat (n % 256), UInt8.ofNat skip])).getD (k + (0 + 1 + 1 + 1 + 1) + 1 + 1 + 1 + 1 + 1 + 1 + 1 + 1 - (4 - j)) 0 =
      [UInt8.ofNat (n / 65536 % 256), UInt8.ofNat (n / 256 % 256),
        UInt8.ofNat (n % 256), UInt8.ofNat skip].getD j 0 := by
    intro j hj
    have e : k + (0 + 1 + 1 + 1 + 1) + 1 + 1 + 1 + 1 + 1 + 1 + 1 + 1 - (4 - j) = (k + j) + 8 := by omega
    rw [e]
    simp only [List.getD_cons_succ]
    rw [List.getD_eq_getElem?_getD, List.getElem?_append_right (by omega), hpkl]
    have : k + j - k = j := by omega
    rw [this, ← List.getD_eq_getElem?_getD]
  have h0 := hidx 0 (by decide); have h1 := hidx 1 (by decide); have h2 := hidx 2 (by decide); have h3 := hidx 3 (by decide)
  simp only [Nat.sub_zero, List.getD_cons_zero, List.getD_cons_succ] at h0 h1 h2 h3
  rw [h0, h1, h2, h3]
  have hbe : be24 (UInt8.ofNat (n / 65536 % 256)) (UInt8.ofNat (n / 256 % 256))
      (UInt8.ofNat (n % 256)) = n := by
    simp only [be24, UInt8.toNat_ofNat']; omega
  have hsk : (UInt8.ofNat skip).toNat = skip := by rw [UInt8.toNat_ofNat']; omega
  rw [hbe, hsk, if_neg (by omega)]
  have htk : (packed ++ [UInt8.ofNat (n / 65536 % 256), UInt8.ofNat (n / 256 % 256),
      UInt8.ofNat (n % 256), UInt8.ofNat skip]).take
      (k + (0 + 1 + 1 + 1 + 1) + 1 + 1 + 1 + 1 + 1 + 1 + 1 + 1 - 12) = packed := by
    have : k + (0 + 1 + 1 + 1 + 1) + 1 + 1 + 1 + 1 + 1 + 1 + 1 + 1 - 12 = packed.length := by omega
    rw [this, List.take_left']; rfl
  simp only [List.getD_cons_succ, List.getD_cons_zero]
  rw [htk]
  exact hdec

theorem litBits_length_pos (p : Bytes) : 0 < (litBits p).length := by simp [litBits]

/-- **round trip**: `decrunch_pp` (all header checks, bit reader, literal runs, end-of-output test) inverts the
    literal-run encoder for every payload below 16 MiB and every legal efficiency table -/
theorem decrunchPP_ppEncode (eff p : Bytes) (he : LegalEff eff) (hne : p ≠ []) (hlen : p.length < 2 ^ 24) :
    decrunchPP (ppEncode eff p) = some p :=
  decrunchPP_pack eff (litBits p) p.length p he (litBits_length_pos p) (List.length_pos_iff.mpr hne) hlen
    (fun br tail hinv hp => mainLoop_lit p hne eff br tail hinv hp)


/-! ## token streams with matches -/

theorem count3Bits_length_ge (fuel m : Nat) : 3 * (m / 7 + 1) ≤ (count3Bits fuel m).length + 3 * (m / 7 + 1 - (fuel + 1)) := by
  induction fuel generalizing m with
  | zero => simp [count3Bits]; omega
  | succ f ih =>
    rw [count3Bits]
    by_cases h : m ≥ 7
    · simp only [h, if_true, List.length_cons]
      have := ih (m - 7)
      have e : (m - 7) / 7 + 1 = m / 7 := by omega
      omega
    · simp only [h, if_false, msbBits_length]
      have : m / 7 = 0 := by omega
      omega

theorem readCount_count3Bits (fuelC : Nat) : ∀ (m fuelR : Nat) (br : BR) (todo : Nat) (rest : List Bool),
    br.buf < 2 ^ br.left → pending br = count3Bits fuelC m ++ rest → m ≤ 7 * fuelC → m / 7 + 1 ≤ fuelR →
    ∃ br', readCount 3 fuelR br todo = some (todo + m, br') ∧ pending br' = rest ∧ br'.buf < 2 ^ br'.left := by
  induction fuelC with
  | zero =>
    intro m fuelR br todo rest hinv hp hm hf
    have hm0 : m = 0 := by omega
    subst hm0
    obtain ⟨f, rfl⟩ : ∃ f, fuelR = f + 1 := ⟨fuelR - 1, by omega⟩
    obtain ⟨br', h1, h2, h3⟩ := readBits_spec 3 br [false, false, false] rest hinv (by simpa [count3Bits] using hp) rfl
    refine ⟨br', ?_, h2, h3⟩
    simp [readCount, h1, msbVal]
  | succ fc ih =>
    intro m fuelR br todo rest hinv hp hm hf
    obtain ⟨f, rfl⟩ : ∃ f, fuelR = f + 1 := ⟨fuelR - 1, by omega⟩
    by_cases h7 : m ≥ 7
    · have hp' : pending br = [true, true, true] ++ (count3Bits fc (m - 7) ++ rest) := by
        simpa [count3Bits, h7] using hp
      obtain ⟨br1, h1, h2, h4⟩ := readBits_spec 3 br [true, true, true] _ hinv hp' rfl
      obtain ⟨br', h5, h6, h7'⟩ := ih (m - 7) f br1 (todo + 7) rest h4 h2 (by omega) (by omega)
      refine ⟨br', ?_, h6, h7'⟩
      have hv : msbVal [true, true, true] = 7 := by simp [msbVal]
      simp only [readCount, h1, hv]
      rw [if_pos (by decide), h5]
      congr 2; omega
    · have hp' : pending br = msbBits 3 m ++ rest := by simpa [count3Bits, h7] using hp
      obtain ⟨br', h1, h2, h4⟩ := readBits_spec 3 br (msbBits 3 m) rest hinv hp' (msbBits_length 3 m)
      refine ⟨br', ?_, h2, h4⟩
      have hv : msbVal (msbBits 3 m) = m := by rw [msbVal_msbBits]; omega
      simp only [readCount, h1, hv]
      rw [if_neg (by omega)]

theorem copyMatch_spec (destLen off : Nat) : ∀ (len : Nat) (acc : Bytes), acc.length + len ≤ destLen →
    copyMatch destLen off len acc = some (copyM off len acc) := by
  intro len
  induction len with
  | zero => intro acc _; rfl
  | succ k ih =>
    intro acc h
    have hno : ¬ acc.length ≥ destLen := by omega
    simp only [copyMatch, hno, if_false, copyM]
    exact ih _ (by simp; omega)

/-- offset width the decoder uses for a match of this length -/
def offBits (eff : Bytes) (len : Nat) (short : Bool) : Nat :=
  if min len 5 - 2 = 3 then (if short then 7 else (eff.getD 3 0).toNat) else (eff.getD (min len 5 - 2) 0).toNat

theorem doMatch_spec (eff : Bytes) (destLen len off : Nat) (short : Bool) (br : BR) (acc : Bytes) (rest : List Bool)
    (hinv : br.buf < 2 ^ br.left) (hp : pending br = matchBits eff len off short ++ rest)
    (hlen : 2 ≤ len) (hoff : off < acc.length) (hroom : acc.length + len ≤ destLen)
    (hfit : off < 2 ^ offBits eff len short) :
    ∃ br', doMatch eff destLen br acc = some (br', copyM off len acc) ∧ pending br' = rest ∧ br'.buf < 2 ^ br'.left := by
  unfold matchBits at hp
  simp only [List.append_assoc] at hp
  obtain ⟨br1, h1, h2, h3⟩ := readBits_spec 2 br (msbBits 2 (min len 5 - 2)) _ hinv hp (msbBits_length _ _)
  have hx : msbVal (msbBits 2 (min len 5 - 2)) = min len 5 - 2 := by rw [msbVal_msbBits]; omega
  unfold doMatch
  rw [h1, hx]
  simp only []
  by_cases h3' : min len 5 - 2 = 3
  · -- long match
    have hl5 : 5 ≤ len := by omega
    simp only [h3', if_true] at h2 ⊢
    unfold offBits at hfit
    simp only [h3', if_true] at hfit
    cases short with
    | true =>
      simp only [if_true, List.cons_append, List.append_assoc] at h2 hfit
      have h2' : pending br1 = [false] ++ (msbBits 7 off ++ (count3Bits len (len - 5) ++ rest)) := by simpa using h2
      obtain ⟨br2, h4, h5, h6⟩ := readBits_spec 1 br1 [false] _ h3 h2' rfl
      have hv0 : msbVal [false] = 0 := by simp [msbVal]
      rw [h4, hv0]
      simp only [if_true]
      obtain ⟨br3, h7, h8, h9⟩ := readBits_spec 7 br2 (msbBits 7 off) _ h6 h5 (msbBits_length _ _)
      have hvo : msbVal (msbBits 7 off) = off := by rw [msbVal_msbBits]; exact Nat.mod_eq_of_lt hfit
      rw [h7, hvo]
      simp only []
      have hav : (len - 5) / 7 + 1 ≤ bitsAvail br3 + 1 := by
        rw [← pending_length, h8]
        have := count3Bits_length_ge len (len - 5)
        simp only [List.length_append]; omega
      obtain ⟨br4, h10, h11, h12⟩ := readCount_count3Bits len (len - 5) (bitsAvail br3 + 1) br3 (3 + 2) rest h9 h8
        (by omega) hav
      rw [h10]
      have hto : 3 + 2 + (len - 5) = len := by omega
      simp only [hto]
      rw [if_neg (by omega), copyMatch_spec destLen off len acc hroom]
      exact ⟨br4, rfl, h11, h12⟩
    | false =>
      simp only [Bool.false_eq_true, if_false, List.cons_append, List.append_assoc] at h2 hfit
      have h2' : pending br1 = [true] ++ (msbBits (eff.getD 3 0).toNat off ++ (count3Bits len (len - 5) ++ rest)) := by
        simpa using h2
      obtain ⟨br2, h4, h5, h6⟩ := readBits_spec 1 br1 [true] _ h3 h2' rfl
      have hv1 : msbVal [true] = 1 := by simp [msbVal]
      rw [h4, hv1]
      simp only [show ¬ (1 = 0) by decide, if_false]
      obtain ⟨br3, h7, h8, h9⟩ := readBits_spec _ br2 (msbBits (eff.getD 3 0).toNat off) _ h6 h5 (msbBits_length _ _)
      have hvo : msbVal (msbBits (eff.getD 3 0).toNat off) = off := by
        rw [msbVal_msbBits]; exact Nat.mod_eq_of_lt hfit
      rw [h7, hvo]
      simp only []
      have hav : (len - 5) / 7 + 1 ≤ bitsAvail br3 + 1 := by
        rw [← pending_length, h8]
        have := count3Bits_length_ge len (len - 5)
        simp only [List.length_append]; omega
      obtain ⟨br4, h10, h11, h12⟩ := readCount_count3Bits len (len - 5) (bitsAvail br3 + 1) br3 (3 + 2) rest h9 h8
        (by omega) hav
      rw [h10]
      have hto : 3 + 2 + (len - 5) = len := by omega
      simp only [hto]
      rw [if_neg (by omega), copyMatch_spec destLen off len acc hroom]
      exact ⟨br4, rfl, h11, h12⟩
  · -- short match: length 2, 3 or 4
    simp only [h3', if_false] at h2 ⊢
    unfold offBits at hfit
    simp only [h3', if_false] at hfit
    obtain ⟨br2, h4, h5, h6⟩ := readBits_spec _ br1 (msbBits (eff.getD (min len 5 - 2) 0).toNat off) _ h3 h2
      (msbBits_length _ _)
    have hvo : msbVal (msbBits (eff.getD (min len 5 - 2) 0).toNat off) = off := by
      rw [msbVal_msbBits]; exact Nat.mod_eq_of_lt hfit
    rw [h4, hvo]
    simp only []
    have hto : min len 5 - 2 + 2 = len := by omega
    rw [hto, if_neg (by omega), copyMatch_spec destLen off len acc hroom]
    exact ⟨br2, rfl, h5, h6⟩


/-- legality of one decoder iteration when `L` bytes are already written -/
def ItemOk (eff : Bytes) (destLen L : Nat) (it : PPItem) : Prop :=
  L + it.lits.length ≤ destLen ∧
  (if it.mlen = 0 then it.lits.length ≠ 0 ∧ L + it.lits.length = destLen
   else 2 ≤ it.mlen ∧ (it.lits.length ≠ 0 → L + it.lits.length < destLen) ∧
        it.moff < L + it.lits.length ∧ L + it.lits.length + it.mlen ≤ destLen ∧
        it.moff < 2 ^ offBits eff it.mlen it.short)

/-- legality of a token stream: every iteration starts below `destLen`, the last one ends exactly there -/
def ItemsOk (eff : Bytes) (destLen : Nat) : Nat → List PPItem → Prop
  | L, [] => L = destLen
  | L, it :: r => L < destLen ∧ ItemOk eff destLen L it ∧ ItemsOk eff destLen (L + it.lits.length + it.mlen) r

theorem copyM_length (off : Nat) : ∀ (len : Nat) (acc : Bytes), (copyM off len acc).length = acc.length + len := by
  intro len
  induction len with
  | zero => intro acc; rfl
  | succ k ih => intro acc; simp [copyM, ih]; omega

theorem itemExpand_length (acc : Bytes) (it : PPItem) :
    (itemExpand acc it).length = acc.length + it.lits.length + it.mlen := by
  simp [itemExpand, copyM_length]; omega

theorem itemsOk_length (eff : Bytes) (destLen : Nat) (items : List PPItem) : ∀ L, ItemsOk eff destLen L items →
    L + items.length ≤ destLen := by
  induction items with
  | nil => intro L h; simp [ItemsOk] at h; simp [h]
  | cons it r ih =>
    intro L h
    obtain ⟨h1, h2, h3⟩ := h
    have := ih _ h3
    have hpos : 1 ≤ it.lits.length + it.mlen := by
      obtain ⟨_, h2b⟩ := h2
      by_cases hm : it.mlen = 0
      · simp only [hm, if_true] at h2b; omega
      · simp only [hm, if_false] at h2b; omega
    simp only [List.length_cons]; omega

theorem mainLoop_items (eff : Bytes) (destLen : Nat) (items : List PPItem) : ∀ (acc : Bytes) (br : BR)
    (tail : List Bool) (fuel : Nat), ItemsOk eff destLen acc.length items → br.buf < 2 ^ br.left →
    pending br = items.flatMap (itemBits eff) ++ tail → items.length + 1 ≤ fuel →
    mainLoop eff destLen fuel br acc = some (items.foldl itemExpand acc) := by
  induction items with
  | nil =>
    intro acc br tail fuel hok _ _ hf
    obtain ⟨f, rfl⟩ : ∃ f, fuel = f + 1 := ⟨fuel - 1, by omega⟩
    simp only [ItemsOk] at hok
    rw [mainLoop]
    have : acc.length ≥ destLen := by omega
    simp [this]
  | cons it r ih =>
    intro acc br tail fuel hok hinv hp hf
    obtain ⟨f, rfl⟩ : ∃ f, fuel = f + 1 := ⟨fuel - 1, by omega⟩
    obtain ⟨hL, ⟨hroomL, hitem⟩, hrest⟩ := hok
    rw [mainLoop]
    have hno : ¬ acc.length ≥ destLen := by omega
    simp only [hno, if_false]
    simp only [List.flatMap_cons, itemBits, List.append_assoc] at hp
    by_cases hl0 : it.lits.length = 0
    · -- match only
      have hlits : it.lits = [] := List.eq_nil_of_length_eq_zero hl0
      have hm : it.mlen ≠ 0 := by
        intro hm; simp only [hm, if_true] at hitem; exact hitem.1 hl0
      simp only [hl0, if_true, hm, if_false] at hp hitem
      obtain ⟨hm2, _, hoff, hroom, hfit⟩ := hitem
      have hp' : pending br = [true] ++ (matchBits eff it.mlen it.moff it.short ++ (r.flatMap (itemBits eff) ++ tail)) := by
        simpa using hp
      obtain ⟨br1, h1, h2, h3⟩ := readBits_spec 1 br [true] _ hinv hp' rfl
      have hv1 : msbVal [true] = 1 := by simp [msbVal]
      rw [h1, hv1]
      simp only [show ¬ (1 = 0) by decide, if_false]
      obtain ⟨br2, h4, h5, h6⟩ := doMatch_spec eff destLen it.mlen it.moff it.short br1 acc _ h3 h2 hm2
        (by omega) (by omega) hfit
      rw [h4]
      simp only []
      have hexp : itemExpand acc it = copyM it.moff it.mlen acc := by simp [itemExpand, hlits]
      rw [List.foldl_cons, hexp]
      exact ih _ br2 tail f (by rw [copyM_length]; simpa [hl0] using hrest) h6 h5 (by simp at hf; omega)
    · -- literal run, then possibly a match
      simp only [hl0, if_false] at hp
      have hp' : pending br = [false] ++ (countBits it.lits.length (it.lits.length - 1) ++
          (it.lits.flatMap (fun b => msbBits 8 b.toNat) ++
            ((if it.mlen = 0 then [] else matchBits eff it.mlen it.moff it.short) ++ (r.flatMap (itemBits eff) ++ tail)))) := by
        simpa [List.append_assoc] using hp
      obtain ⟨br1, h1, h2, h3⟩ := readBits_spec 1 br [false] _ hinv hp' rfl
      have hv0 : msbVal [false] = 0 := by simp [msbVal]
      rw [h1, hv0]
      simp only [if_true]
      have hlb : (it.lits.flatMap (fun b => msbBits 8 b.toNat)).length = 8 * it.lits.length := by
        rw [List.length_flatMap]
        have : ∀ q : Bytes, (q.map (fun b => (msbBits 8 b.toNat).length)).sum = 8 * q.length := by
          intro q; induction q with
          | nil => rfl
          | cons x xs ih' =>
            simp only [List.map_cons, List.sum_cons, msbBits_length, List.length_cons] at ih' ⊢
            omega
        exact this _
      have havail : it.lits.length < bitsAvail br1 + 1 := by
        rw [← pending_length, h2]
        simp only [List.length_append, hlb]; omega
      obtain ⟨br2, h4, h5, h6⟩ := readCount_countBits it.lits.length (it.lits.length - 1) (bitsAvail br1 + 1) br1 1 _
        h3 h2 (by omega) havail
      have h1p : 1 + (it.lits.length - 1) = it.lits.length := by omega
      rw [h4, h1p]
      simp only []
      obtain ⟨br3, h7, h8, h9⟩ := copyLits_spec destLen it.lits br2 acc _ h6 h5 hroomL
      rw [h7]
      simp only []
      by_cases hm : it.mlen = 0
      · -- the run completes the output
        simp only [hm, if_true] at hitem h8
        have hfull : (it.lits.reverse ++ acc).length = destLen := by simp; omega
        rw [if_pos hfull]
        have hr : r = [] := by
          cases r with
          | nil => rfl
          | cons it2 r2 =>
            simp only [hm, Nat.add_zero] at hrest
            obtain ⟨hlt, _⟩ := hrest
            omega
        subst hr
        simp [itemExpand, hm, copyM]
      · simp only [hm, if_false] at hitem h8
        obtain ⟨hm2, hlt, hoff, hroom, hfit⟩ := hitem
        have hnf : ¬ (it.lits.reverse ++ acc).length = destLen := by
          have := hlt hl0; simp; omega
        rw [if_neg hnf]
        obtain ⟨br4, h10, h11, h12⟩ := doMatch_spec eff destLen it.mlen it.moff it.short br3 (it.lits.reverse ++ acc) _
          h9 h8 hm2 (by simp; omega) (by simp; omega) hfit
        rw [h10]
        simp only []
        rw [List.foldl_cons]
        exact ih _ br4 tail f (by rw [copyM_length]; simpa [Nat.add_comm, Nat.add_assoc, Nat.add_left_comm] using hrest) h12 h11
          (by simp at hf; omega)

/-- **round trip for arbitrary token streams (literal runs and matches)**: for every legal efficiency table and every
    legal token stream — whatever encoder produced it — `decrunch_pp` returns the payload the stream stands for -/
theorem decrunchPP_ppRender (eff : Bytes) (items : List PPItem) (he : LegalEff eff) (hne : items ≠ [])
    (hok : ItemsOk eff (ppExpand items).length 0 items) (hlen : (ppExpand items).length < 2 ^ 24) :
    decrunchPP (ppRender eff items) = some (ppExpand items) := by
  have hcount := itemsOk_length eff _ items 0 hok
  have hpos : 0 < (ppExpand items).length := by
    have : 0 < items.length := List.length_pos_iff.mpr hne
    omega
  have hbits : 0 < (items.flatMap (itemBits eff)).length := by
    cases items with
    | nil => exact absurd rfl hne
    | cons it r =>
      simp only [List.flatMap_cons, List.length_append, itemBits]
      split <;> simp <;> omega
  exact decrunchPP_pack eff _ _ _ he hbits hpos hlen
    (fun br tail hinv hp => mainLoop_items eff _ items [] br tail _ hok hinv hp (by omega))

end Xmp.PowerPacker
