import XmpModel.MixKernelPaula
import XmpProofs.MixKernel
/-!
# Lemmas about the bit-exact Paula kernel model (`XmpModel/MixKernelPaula.lean`)

The Paula kernels only add to the buffer; what they add and the Paula state they leave are
functions of the voice and the scalar arguments alone (`prun_eq`); zero levels add nothing
(`pcontrib_zero`); every word is bounded by `32768 · 256 · level` (`pcontrib_bound`, from the clamp of
`output_sample`); exchanging `vl` and `vr` exchanges the words of every frame (`pcontrib_mirror`).
-/
namespace Xmp.MixKernel.Paula
open Xmp.Gen.MixKernelConsts Xmp.Gen.MixKernelPaulaConsts
open Xmp.MixLinear
open Xmp.MixKernel (store store_eq addInto_append_split mul_bound swapPairs)

theorem ploopBuf_eq (v : PVoice) (a : PArgs) (n : Nat) (s : PSt) (buf : Buf) :
    ploopBuf v a n s buf = (addInto buf ((ploop v a n s).1.map toAcc), (ploop v a n s).2) := by
  induction n generalizing s buf with
  | zero => simp [ploopBuf, ploop]
  | succ n ih =>
    simp only [ploopBuf, ploop, store_eq, ih, List.map_append]
    rw [addInto_append_split]
    simp

/-- **A Paula kernel call = buffer + contribution(voice, arguments)**; the Paula state written back
does not depend on the buffer. -/
theorem prun_eq (v : PVoice) (a : PArgs) (buf : Buf) :
    prun v a buf = (addInto buf (pcontribAcc v a), pstateAfter v a) := by
  simp [prun, ploopBuf_eq, pcontribAcc, pcontrib, pstateAfter]

theorem pWords_length (a : PArgs) (x : Int) : (pWords a x).length = if a.stereoOut then 2 else 1 := by
  unfold pWords; split <;> rfl

theorem ploop_length (v : PVoice) (a : PArgs) (n : Nat) (s : PSt) :
    (ploop v a n s).1.length = n * (if a.stereoOut then 2 else 1) := by
  induction n generalizing s with
  | zero => simp [ploop]
  | succ n ih => simp only [ploop, List.length_append, ih, pWords_length]; rw [Nat.succ_mul, Nat.add_comm]

/-- zero levels: every word is zero -/
theorem ploop_zero (v : PVoice) (a : PArgs) (hl : a.vl = 0) (hr : a.vr = 0) (n : Nat) (s : PSt) :
    ∀ w ∈ (ploop v a n s).1, w = 0 := by
  induction n generalizing s with
  | zero => intro w h; simp [ploop] at h
  | succ n ih =>
    intro w h
    simp only [ploop, List.mem_append] at h
    rcases h with h | h
    · unfold pWords at h
      simp only [hl, hr, Int.zero_mul, Int.mul_zero] at h
      split at h <;> simpa using h
    · exact ih _ w h

/-- the clamp of `output_sample` -/
theorem outputSample_range (s : PState) (tab : Bool) : -32768 ≤ outputSample s tab ∧ outputSample s tab ≤ 32767 := by
  unfold outputSample
  simp only
  split
  · omega
  · split <;> omega

theorem simulate_out_range (v : PVoice) (a : PArgs) (s : PSt) :
    -32768 ≤ (simulate v a s).1 ∧ (simulate v a s).1 ≤ 32767 := by
  unfold simulate
  exact outputSample_range _ _

theorem ploop_bound (v : PVoice) (a : PArgs) (L : Int) (hvl : -L ≤ a.vl ∧ a.vl ≤ L) (hvr : a.stereoOut = true → -L ≤ a.vr ∧ a.vr ≤ L)
    (n : Nat) (s : PSt) : ∀ w ∈ (ploop v a n s).1, -(32768 * (L * 256)) ≤ w ∧ w ≤ 32768 * (L * 256) := by
  induction n generalizing s with
  | zero => intro w h; simp [ploop] at h
  | succ n ih =>
    intro w h
    simp only [ploop, List.mem_append] at h
    rcases h with h | h
    · have ho : -32768 ≤ (simulate v a s).1 ∧ (simulate v a s).1 ≤ 32768 := by
        have := simulate_out_range v a s
        omega
      generalize (simulate v a s).1 = x at ho h
      have e8 : (2 : Int) ^ paulaLevelShift.getD 0 = 256 := by simp [paulaLevelShift]
      unfold pWords at h
      rw [e8] at h
      split at h
      · rename_i hso
        simp only [List.mem_cons, List.mem_nil_iff, or_false] at h
        rcases h with h | h <;> rw [h]
        · exact mul_bound (S := 32768) (L := L * 256) ho (by omega)
        · have := hvr hso
          exact mul_bound (S := 32768) (L := L * 256) ho (by omega)
      · simp only [List.mem_cons, List.mem_nil_iff, or_false] at h
        rw [h]
        exact mul_bound (S := 32768) (L := L * 256) ho (by omega)
    · exact ih _ w h

/-- exchange of `vl` and `vr` -/
def PArgs.mirror (a : PArgs) : PArgs := { a with vl := a.vr, vr := a.vl }

theorem simulate_mirror (v : PVoice) (a : PArgs) (s : PSt) : simulate v a.mirror s = simulate v a s := rfl

theorem ploop_mirror (v : PVoice) (a : PArgs) (ho : a.stereoOut = true) (n : Nat) (s : PSt) :
    ploop v a.mirror n s = (swapPairs (ploop v a n s).1, (ploop v a n s).2) := by
  induction n generalizing s with
  | zero => simp [ploop, swapPairs]
  | succ n ih =>
    simp only [ploop, simulate_mirror, ih]
    have e1 : pWords a.mirror (simulate v a s).1 = [(simulate v a s).1 * (a.vr * 2 ^ paulaLevelShift.getD 0), (simulate v a s).1 * (a.vl * 2 ^ paulaLevelShift.getD 0)] := by
      simp [pWords, PArgs.mirror, ho]
    have e2 : pWords a (simulate v a s).1 = [(simulate v a s).1 * (a.vl * 2 ^ paulaLevelShift.getD 0), (simulate v a s).1 * (a.vr * 2 ^ paulaLevelShift.getD 0)] := by
      simp [pWords, ho]
    rw [e1, e2]
    rfl

end Xmp.MixKernel.Paula
