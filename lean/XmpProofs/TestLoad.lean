import XmpModel.TestLoad
/-! Helper lemmas for the TestLoad model (C11): C strings, trimming, the canonical title
form, and the two table walks. -/
namespace Xmp.TestLoad

/-! ## characters -/

theorem isPrint_ne_zero {c : UInt8} (h : isPrint c = true) : c ≠ 0 := by
  intro hc
  subst hc
  simp [isPrint] at h

theorem dotCh_ne_zero (c : UInt8) : dotCh c ≠ 0 := by
  unfold dotCh
  split
  · rename_i h; exact isPrint_ne_zero h
  · decide

theorem spCh_ne_zero (c : UInt8) : spCh c ≠ 0 := by
  unfold spCh
  split
  · rename_i h; exact isPrint_ne_zero h
  · decide

theorem isPrint_dotCh (c : UInt8) : isPrint (dotCh c) = true := by
  unfold dotCh
  split
  · assumption
  · decide

theorem isPrint_spCh (c : UInt8) : isPrint (spCh c) = true := by
  unfold spCh
  split
  · assumption
  · decide

theorem spCh_of_isPrint {c : UInt8} (h : isPrint c = true) : spCh c = c := by
  simp [spCh, h]

theorem canonCh_space : canonCh 32 = 32 := by decide

theorem canonCh_dotCh (c : UInt8) : canonCh (dotCh c) = canonCh c := by
  unfold dotCh
  split
  · rfl
  · rename_i h
    have : canonCh c = 32 := by simp [canonCh, h]
    rw [this]; decide

theorem canonCh_spCh (c : UInt8) : canonCh (spCh c) = canonCh c := by
  unfold spCh
  split
  · rfl
  · rename_i h
    have : canonCh c = 32 := by simp [canonCh, h]
    rw [this]; decide

/-! ## C strings -/

theorem cstr_of_no_zero : ∀ (l : Bytes), (∀ c ∈ l, c ≠ 0) → cstr l = l
  | [], _ => rfl
  | c :: cs, h => by
    have hc : c ≠ 0 := h c (by simp)
    have := cstr_of_no_zero cs (fun x hx => h x (by simp [hx]))
    simp [cstr, hc, this]

theorem cstr_no_zero : ∀ (l : Bytes), ∀ c ∈ cstr l, c ≠ 0
  | [], _, h => by simp [cstr] at h
  | x :: xs, c, h => by
    unfold cstr at h
    split at h
    · simp at h
    · rename_i hx
      rcases List.mem_cons.mp h with rfl | h'
      · exact hx
      · exact cstr_no_zero xs c h'

theorem cstr_idem (l : Bytes) : cstr (cstr l) = cstr l :=
  cstr_of_no_zero _ (cstr_no_zero l)

theorem cstr_length_le : ∀ (l : Bytes), (cstr l).length ≤ l.length
  | [] => by simp [cstr]
  | x :: xs => by
    unfold cstr
    split
    · simp
    · simp; exact cstr_length_le xs

/-- a buffer with a NUL in it holds a C string strictly shorter than the buffer -/
theorem cstr_length_lt_of_hasNul : ∀ (l : Bytes), hasNul l = true → (cstr l).length < l.length
  | [], h => by simp [hasNul] at h
  | x :: xs, h => by
    unfold cstr
    split
    · simp
    · rename_i hx
      have : hasNul xs = true := by
        simp only [hasNul, List.any_cons, Bool.or_eq_true, decide_eq_true_eq] at h ⊢
        rcases h with h | h
        · exact absurd h hx
        · simpa [hasNul] using h
      simp; exact cstr_length_lt_of_hasNul xs this

theorem hasNul_append_left {a b : Bytes} (h : hasNul a = true) : hasNul (a ++ b) = true := by
  simp only [hasNul, List.any_append, Bool.or_eq_true] at *
  exact Or.inl h

theorem hasNul_append_right {a b : Bytes} (h : hasNul b = true) : hasNul (a ++ b) = true := by
  simp only [hasNul, List.any_append, Bool.or_eq_true] at *
  exact Or.inr h

theorem cstr_zero_cons (l : Bytes) : cstr (0 :: l) = [] := by simp [cstr]

theorem cstr_append_zero : ∀ (a b : Bytes), (∀ c ∈ a, c ≠ 0) → cstr (a ++ 0 :: b) = a
  | [], b, _ => by simp [cstr]
  | x :: xs, b, h => by
    have hx : x ≠ 0 := h x (by simp)
    have := cstr_append_zero xs b (fun c hc => h c (by simp [hc]))
    simp [cstr, hx, this]

/-! ## trimming -/

theorem trimR_cons (c : UInt8) (cs : Bytes) :
    trimR (c :: cs) = if (trimR cs).isEmpty ∧ c = 32 then [] else c :: trimR cs := rfl

theorem trimR_prefix : ∀ (s : Bytes), trimR s <+: s
  | [] => by simp [trimR]
  | c :: cs => by
    rw [trimR_cons]
    split
    · exact List.nil_prefix
    · exact (List.cons_prefix_cons).mpr ⟨rfl, trimR_prefix cs⟩

theorem trimR_length_le (s : Bytes) : (trimR s).length ≤ s.length :=
  (trimR_prefix s).length_le

theorem trimR_mem {s : Bytes} {c : UInt8} (h : c ∈ trimR s) : c ∈ s :=
  (trimR_prefix s).subset h

theorem trimR_idem : ∀ (s : Bytes), trimR (trimR s) = trimR s
  | [] => rfl
  | c :: cs => by
    rw [trimR_cons]
    split
    · rfl
    · rename_i h
      rw [trimR_cons, trimR_idem cs]
      simp only [h, if_false]

/-- trimming commutes with a character map that keeps spaces -/
theorem trimR_map_trimR (f : UInt8 → UInt8) (hf : f 32 = 32) :
    ∀ (s : Bytes), trimR ((trimR s).map f) = trimR (s.map f)
  | [] => rfl
  | c :: cs => by
    have ih := trimR_map_trimR f hf cs
    rw [trimR_cons]
    split
    · rename_i h
      obtain ⟨h1, h2⟩ := h
      have e : trimR cs = [] := List.isEmpty_iff.mp h1
      rw [e] at ih
      simp only [List.map_nil, List.map_cons] at ih ⊢
      rw [trimR_cons, ← ih, h2, hf]
      simp [trimR]
    · simp only [List.map_cons]
      rw [trimR_cons, trimR_cons, ih]

/-- the last character of a trimmed string is not a space -/
theorem trimR_getLast_ne_space : ∀ (s : Bytes) (h : trimR s ≠ []), (trimR s).getLast h ≠ 32
  | [], h => absurd rfl h
  | c :: cs, h => by
    have e := trimR_cons c cs
    by_cases hc : (trimR cs).isEmpty ∧ c = 32
    · exfalso; apply h; rw [e, if_pos hc]
    · have e' : trimR (c :: cs) = c :: trimR cs := by rw [e, if_neg hc]
      by_cases ht : trimR cs = []
      · have : trimR (c :: cs) = [c] := by rw [e', ht]
        simp only [this, List.getLast_singleton]
        intro h32
        exact hc ⟨by simp [ht], h32⟩
      · have := trimR_getLast_ne_space cs ht
        simp only [e', List.getLast_cons ht]
        exact this

/-- a string that does not end in a space is left alone -/
theorem trimR_eq_self_of_getLast : ∀ (s : Bytes), (∀ h : s ≠ [], s.getLast h ≠ 32) → trimR s = s
  | [], _ => rfl
  | c :: cs, hl => by
    rw [trimR_cons]
    by_cases hcs : cs = []
    · subst hcs
      have : c ≠ 32 := by simpa using hl (by simp)
      simp [trimR, this]
    · have ih := trimR_eq_self_of_getLast cs (fun h => by
        have := hl (by simp)
        rwa [List.getLast_cons h] at this)
      rw [ih]
      simp [hcs]

/-! ## the two string normalisations and the canonical form -/

theorem copyAdjust_printable (r : Bytes) (n : Nat) : ∀ c ∈ copyAdjust r n, isPrint c = true := by
  intro c hc
  have := trimR_mem hc
  obtain ⟨x, _, rfl⟩ := List.mem_map.mp this
  exact isPrint_dotCh x

theorem adjustString_printable (s : Bytes) : ∀ c ∈ adjustString s, isPrint c = true := by
  intro c hc
  have := trimR_mem hc
  obtain ⟨x, _, rfl⟩ := List.mem_map.mp this
  exact isPrint_spCh x

theorem map_spCh_of_printable : ∀ (l : Bytes), (∀ c ∈ l, isPrint c = true) → l.map spCh = l
  | [], _ => rfl
  | c :: cs, h => by
    simp only [List.map_cons]
    rw [spCh_of_isPrint (h c (by simp)), map_spCh_of_printable cs (fun x hx => h x (by simp [hx]))]

theorem canon_trimR_map (f : UInt8 → UInt8) (hz : ∀ c, f c ≠ 0) (hc : ∀ c, canonCh (f c) = canonCh c)
    (s : Bytes) : canon (trimR (s.map f)) = trimR (s.map canonCh) := by
  unfold canon
  have nz : ∀ c ∈ trimR (s.map f), c ≠ 0 := by
    intro c h
    obtain ⟨x, _, rfl⟩ := List.mem_map.mp (trimR_mem h)
    exact hz x
  rw [cstr_of_no_zero _ nz, trimR_map_trimR canonCh canonCh_space, List.map_map]
  congr 1
  apply List.map_congr_left
  intro a _
  exact hc a

theorem canon_copyAdjust (r : Bytes) (n : Nat) : canon (copyAdjust r n) = canon (r.take n) := by
  unfold copyAdjust
  rw [canon_trimR_map dotCh dotCh_ne_zero canonCh_dotCh]
  rfl

theorem canon_adjustString (s : Bytes) : canon (adjustString s) = canon s := by
  unfold adjustString
  rw [canon_trimR_map spCh spCh_ne_zero canonCh_spCh]
  rfl

theorem canon_cstr (s : Bytes) : canon (cstr s) = canon s := by
  unfold canon
  rw [cstr_idem]

/-! ## buffers -/

theorem zeros_length (n : Nat) : (zeros n).length = n := by simp [zeros]

theorem hasNul_zeros {n : Nat} (h : 0 < n) : hasNul (zeros n) = true := by
  cases n with
  | zero => omega
  | succ k => simp [zeros, hasNul, List.replicate_succ]

theorem cstr_append_zeros (a : Bytes) (n : Nat) (b : Bytes) (ha : ∀ c ∈ a, c ≠ 0) (hn : 0 < n) :
    cstr (a ++ zeros n ++ b) = a := by
  cases n with
  | zero => omega
  | succ k =>
    have : a ++ zeros (k + 1) ++ b = a ++ 0 :: (zeros k ++ b) := by
      simp [zeros, List.replicate_succ]
    rw [this, cstr_append_zero a _ ha]

theorem copyAdjust_length_le (r : Bytes) (n : Nat) : (copyAdjust r n).length ≤ n := by
  unfold copyAdjust
  calc (trimR ((cstr (r.take n)).map dotCh)).length
      ≤ ((cstr (r.take n)).map dotCh).length := trimR_length_le _
    _ = (cstr (r.take n)).length := by simp
    _ ≤ (r.take n).length := cstr_length_le _
    _ ≤ n := by simp [List.length_take]; omega

theorem copyAdjustBuf_length (r : Bytes) (n : Nat) : (copyAdjustBuf r n).length = n + 1 := by
  have := copyAdjust_length_le r n
  simp only [copyAdjustBuf, List.length_append, zeros_length]
  omega

/-- the buffer `libxmp_copy_adjust` leaves holds exactly the string-level result -/
theorem cstr_copyAdjustBuf (r : Bytes) (n : Nat) : cstr (copyAdjustBuf r n) = copyAdjust r n := by
  have hl := copyAdjust_length_le r n
  have nz : ∀ c ∈ copyAdjust r n, c ≠ 0 := fun c hc => isPrint_ne_zero (copyAdjust_printable r n c hc)
  have := cstr_append_zeros (copyAdjust r n) (n + 1 - (copyAdjust r n).length) [] nz (by omega)
  simpa [copyAdjustBuf] using this

theorem adjustString_length_le (b : Bytes) : (adjustString b).length ≤ (cstr b).length := by
  unfold adjustString
  calc _ ≤ ((cstr b).map spCh).length := trimR_length_le _
    _ = _ := by simp

theorem adjustStringBuf_length (b : Bytes) : (adjustStringBuf b).length = b.length := by
  have h1 := adjustString_length_le b
  have h2 := cstr_length_le b
  simp only [adjustStringBuf, List.length_append, zeros_length, List.length_drop]
  omega

/-- on a NUL-terminated buffer `libxmp_adjust_string` leaves exactly the string-level result -/
theorem cstr_adjustStringBuf (b : Bytes) (h : hasNul b = true) :
    cstr (adjustStringBuf b) = adjustString b := by
  have nz : ∀ c ∈ adjustString b, c ≠ 0 := fun c hc => isPrint_ne_zero (adjustString_printable b c hc)
  have hlt := cstr_length_lt_of_hasNul b h
  have hle := adjustString_length_le b
  unfold adjustStringBuf
  by_cases hz : 0 < (cstr b).length - (adjustString b).length
  · exact cstr_append_zeros _ _ _ nz hz
  · -- nothing was trimmed: the original terminator follows
    have he : (cstr b).length - (adjustString b).length = 0 := by omega
    simp only [he, zeros, List.replicate_zero, List.append_nil]
    -- b.drop (cstr b).length starts with the NUL
    have hd : ∃ t, b.drop (cstr b).length = 0 :: t := by
      clear hz he hle nz
      induction b with
      | nil => simp [hasNul] at h
      | cons x xs ih =>
        unfold cstr
        split
        · rename_i hx; subst hx; exact ⟨xs, by simp⟩
        · rename_i hx
          have h' : hasNul xs = true := by
            simp only [hasNul, List.any_cons, Bool.or_eq_true, decide_eq_true_eq] at h ⊢
            rcases h with h | h
            · exact absurd h hx
            · simpa [hasNul] using h
          have hlt' := cstr_length_lt_of_hasNul xs h'
          obtain ⟨t, ht⟩ := ih h' hlt'
          exact ⟨t, by simpa using ht⟩
    obtain ⟨t, ht⟩ := hd
    rw [ht, cstr_append_zero _ _ nz]

/-! ## the table walks -/

/-- the shared premise about the loaders: `test` is a function of the stream (built into the
model's types), it only reads the stream, and its verdict does not depend on whether a title
buffer is supplied -/
def Premise (ls : List Loader) : Prop :=
  ∀ l ∈ ls, ∀ s : Stream,
    ((l.test s true).rc = 0 ↔ (l.test s false).rc = 0) ∧ ∀ w, (l.test s w).st.data = s.data

/-- `test` never answers with a positive value -/
def NonPos (ls : List Loader) : Prop :=
  ∀ l ∈ ls, ∀ s w, (l.test s w).rc ≤ 0

theorem rewind_eq_of_data {s s' : Stream} (h : s.data = s'.data) : s.rewind = s'.rewind := by
  cases s; cases s'; simp_all [Stream.rewind]

/-- Both walks select the same loader (or none): same table, same order, rewind before each probe. -/
theorem walks_agree (e : Env) : ∀ (ls : List Loader), Premise ls →
    ∀ (s s' : Stream) (buf : Bytes) (info : Option Info) (tr : Int), s.data = s'.data →
      ((testWalk e ls s buf info).1 = 0 ↔ (loadWalk ls s' tr).2.1.isSome = true) ∧
      ((testWalk e ls s buf info).1 = 0 ∨ (testWalk e ls s buf info).1 = eFormat)
  | [], _, s, s', buf, info, tr, _ => by
    simp [testWalk, loadWalk, eFormat, Gen.XMP_ERROR_FORMAT]
  | l :: ls, hp, s, s', buf, info, tr, hd => by
    have hl := hp l (by simp)
    have hrest : Premise ls := fun x hx => hp x (by simp [hx])
    have hr : s.rewind = s'.rewind := rewind_eq_of_data hd
    obtain ⟨hrc, hdata⟩ := hl s'.rewind
    unfold testWalk loadWalk
    rw [hr]
    by_cases h0 : (l.test s'.rewind true).rc = 0
    · have h0' := hrc.mp h0
      simp only [h0, h0', if_true]
      split <;> simp
    · have h0' : ¬ (l.test s'.rewind false).rc = 0 := fun h => h0 (hrc.mpr h)
      simp only [h0, h0', if_false]
      apply walks_agree e ls hrest
      rw [hdata true, hdata false]

theorem loadWalk_some_tr : ∀ (ls : List Loader) (s : Stream) (tr : Int),
    (loadWalk ls s tr).2.1.isSome = true → (loadWalk ls s tr).1 = 0
  | [], s, tr, h => by simp [loadWalk] at h
  | l :: ls, s, tr, h => by
    by_cases h0 : (l.test s.rewind false).rc = 0
    · simp [loadWalk, h0]
    · simp only [loadWalk, h0, if_false] at h ⊢
      exact loadWalk_some_tr ls _ _ h

theorem loadWalk_none_neg : ∀ (ls : List Loader), NonPos ls → ∀ (s : Stream) (tr : Int), tr < 0 →
    (loadWalk ls s tr).2.1.isSome = false → (loadWalk ls s tr).1 < 0
  | [], _, s, tr, htr, _ => by simpa [loadWalk] using htr
  | l :: ls, hn, s, tr, _, h => by
    by_cases h0 : (l.test s.rewind false).rc = 0
    · simp [loadWalk, h0] at h
    · simp only [loadWalk, h0, if_false] at h ⊢
      have hle := hn l (by simp) s.rewind false
      exact loadWalk_none_neg ls (fun x hx => hn x (by simp [hx])) _ _ (by omega) h

theorem loadWalk_sel_mem : ∀ (ls : List Loader) (s : Stream) (tr : Int) (l : Loader) (o : LoadOut),
    (loadWalk ls s tr).2.1 = some (l, o) → l ∈ ls ∧ ∃ s', o = l.load s'
  | [], s, tr, l, o, h => by simp [loadWalk] at h
  | x :: xs, s, tr, l, o, h => by
    by_cases h0 : (x.test s.rewind false).rc = 0
    · simp only [loadWalk, h0, if_true, Option.some.injEq, Prod.mk.injEq] at h
      obtain ⟨rfl, rfl⟩ := h
      exact ⟨by simp, _, rfl⟩
    · simp only [loadWalk, h0, if_false] at h
      obtain ⟨hm, hs⟩ := loadWalk_sel_mem xs _ _ l o h
      exact ⟨by simp [hm], hs⟩

/-- a failing `test_module` hands `info` back exactly as it received it (i.e. reset) -/
theorem testWalk_fail_info (e : Env) : ∀ (ls : List Loader) (s : Stream) (buf : Bytes) (info : Option Info),
    (testWalk e ls s buf info).1 ≠ 0 → (testWalk e ls s buf info).2.1 = info
  | [], s, buf, info, _ => by simp [testWalk]
  | l :: ls, s, buf, info, h => by
    by_cases h0 : (l.test s.rewind true).rc = 0
    · exfalso; apply h
      simp only [testWalk, h0, if_true]
      split <;> rfl
    · simp only [testWalk, h0, if_false] at h ⊢
      exact testWalk_fail_info e ls _ _ info h

/-- a successful `test_module` filled `info` in one of exactly two ways -/
theorem testWalk_ok_info (e : Env) : ∀ (ls : List Loader) (s : Stream) (buf : Bytes) (info : Option Info),
    (testWalk e ls s buf info).1 = 0 →
      (∃ l ∈ ls, ∃ st, l.name = prowizardName ∧
          (testWalk e ls s buf info).2.1 = info.map (pwFill e.pwGarbage (e.pw st))) ∨
      (∃ l ∈ ls, ∃ buf', l.name ≠ prowizardName ∧
          (testWalk e ls s buf info).2.1 =
            info.map (fun i => { name := boundedCopy i.name buf', type := boundedCopy i.type l.name }))
  | [], s, buf, info, h => by simp [testWalk, eFormat, Gen.XMP_ERROR_FORMAT] at h
  | l :: ls, s, buf, info, h => by
    by_cases h0 : (l.test s.rewind true).rc = 0
    · by_cases hpw : l.name = prowizardName
      · left
        refine ⟨l, by simp, (l.test s.rewind true).st.rewind, hpw, ?_⟩
        simp only [testWalk, h0, hpw, if_true]
      · right
        refine ⟨l, by simp, overlayOpt (l.test s.rewind true).title (if Gen.testBufInit = 2 then set0 buf else buf), hpw, ?_⟩
        simp only [testWalk, h0, hpw, if_true, if_false]
    · simp only [testWalk, h0, if_false] at h ⊢
      rcases testWalk_ok_info e ls _ _ info h with ⟨x, hx, st, h1, h2⟩ | ⟨x, hx, b, h1, h2⟩
      · exact Or.inl ⟨x, by simp [hx], st, h1, h2⟩
      · exact Or.inr ⟨x, by simp [hx], b, h1, h2⟩

/-! ## bounded copies -/

theorem set0_length (b : Bytes) : (set0 b).length = b.length := by
  cases b <;> simp [set0]

theorem cstr_set0 (b : Bytes) : cstr (set0 b) = [] := by
  cases b <;> simp [set0, cstr]

theorem hasNul_set0 {b : Bytes} (h : 0 < b.length) : hasNul (set0 b) = true := by
  cases b with
  | nil => simp at h
  | cons x xs => simp [set0, hasNul]

theorem strncpyBuf_prefix_length (s : Bytes) (n : Nat) :
    ((cstr s).take n ++ zeros (n - ((cstr s).take n).length)).length = n := by
  simp only [List.length_append, zeros_length, List.length_take]
  omega

theorem boundedCopy_length (d s : Bytes) (h : d.length = nameSize) : (boundedCopy d s).length = nameSize := by
  have hp := strncpyBuf_prefix_length s (nameSize - 1)
  unfold boundedCopy strncpyBuf
  simp only [List.length_append, List.length_take, List.length_drop, zeros_length, List.length_cons,
    List.length_nil, h] at hp ⊢
  simp only [nameSize, Gen.XMP_NAME_SIZE] at hp ⊢
  omega

theorem boundedCopy_hasNul (d s : Bytes) : hasNul (boundedCopy d s) = true := by
  unfold boundedCopy
  apply hasNul_append_left
  apply hasNul_append_right
  simp [hasNul]

/-- `strncpy(d, s, n)` leaves a terminated string when the source is shorter than `n` -/
theorem strncpyBuf_hasNul (d s : Bytes) (n : Nat) (h : (cstr s).length < n) : hasNul (strncpyBuf d s n) = true := by
  unfold strncpyBuf
  apply hasNul_append_left
  apply hasNul_append_right
  apply hasNul_zeros
  simp only [List.length_take]
  omega

theorem strncpyBuf_length (d s : Bytes) (n : Nat) (h : n ≤ d.length) : (strncpyBuf d s n).length = d.length := by
  have hp := strncpyBuf_prefix_length s n
  unfold strncpyBuf
  simp only [List.length_append, List.length_drop] at hp ⊢
  omega

theorem overlay_length (w b : Bytes) (h : w.length ≤ b.length) : (overlay w b).length = b.length := by
  simp only [overlay, List.length_append, List.length_drop]
  omega

end Xmp.TestLoad
