import XmpModel.TestLoad
/-! Helper lemmas for the TestLoad model (C11). -/
namespace Xmp.TestLoad

end Xmp.TestLoad
