import XmpModel.Stream
/-! Helper lemmas for C07: slices, the `fgetc` loop, and the per-operation
refinement of `Spec` by the three back-ends. -/
namespace Xmp.Stream

/-! ### slices -/

theorem slice_length (bytes : Bytes) (pos n : Nat) :
    (slice bytes pos n).length = min n (bytes.length - pos) := by
  simp [slice]

theorem slice_all (bytes : Bytes) (pos n : Nat) (h : bytes.length - pos ≤ n) :
    slice bytes pos n = bytes.drop pos := by
  unfold slice
  apply List.take_of_length_le
  simp [h]

theorem slice_succ (bytes : Bytes) (pos n : Nat) (b : UInt8) (h : bytes[pos]? = some b) :
    slice bytes pos (n + 1) = b :: slice bytes (pos + 1) n := by
  unfold slice
  have hlt : pos < bytes.length := by
    rcases Nat.lt_or_ge pos bytes.length with h' | h'
    · exact h'
    · simp [List.getElem?_eq_none h'] at h
  have hb : bytes[pos] = b := by
    have := List.getElem?_eq_getElem hlt
    rw [this] at h; exact Option.some.inj h
  rw [List.drop_eq_getElem_cons hlt, List.take_succ_cons, hb]

theorem slice_append (bytes : Bytes) (pos a b : Nat) :
    slice bytes pos a ++ slice bytes (pos + a) b = slice bytes pos (a + b) ∨ bytes.length < pos + a := by
  rcases Nat.lt_or_ge bytes.length (pos + a) with h | h
  · exact Or.inr h
  · left
    unfold slice
    rw [← List.drop_drop, List.take_add]

/-! ### the `fgetc` loop of dataio.c -/

theorem File.getcs_ok (bytes : Bytes) : ∀ (n : Nat) (t : File.St) (acc : Bytes),
    t.pos + n ≤ bytes.length →
    File.getcs bytes n t acc = (some (acc.reverse ++ slice bytes t.pos n), { t with pos := t.pos + n })
  | 0, t, acc, _ => by simp [File.getcs, slice]
  | n + 1, t, acc, h => by
    have hlt : t.pos < bytes.length := by omega
    have hb : bytes[t.pos]? = some bytes[t.pos] := List.getElem?_eq_getElem hlt
    rw [File.getcs, hb]
    simp only
    rw [File.getcs_ok bytes n _ _ (by simp; omega)]
    simp only [List.reverse_cons, List.append_assoc, List.singleton_append]
    rw [slice_succ bytes t.pos n _ hb]
    simp [Nat.add_assoc, Nat.add_comm 1 n]

theorem File.getcs_fail (bytes : Bytes) : ∀ (n : Nat) (t : File.St) (acc : Bytes),
    t.pos ≤ bytes.length → bytes.length < t.pos + n →
    File.getcs bytes n t acc = (none, { t with pos := bytes.length, eofF := true })
  | 0, t, acc, _, h => by omega
  | n + 1, t, acc, hle, h => by
    rcases Nat.lt_or_ge t.pos bytes.length with hlt | hge
    · have hb : bytes[t.pos]? = some bytes[t.pos] := List.getElem?_eq_getElem hlt
      rw [File.getcs, hb]
      simp only
      rw [File.getcs_fail bytes n _ _ (by simp; omega) (by simp; omega)]
    · have hb : bytes[t.pos]? = none := List.getElem?_eq_none hge
      have : t.pos = bytes.length := by omega
      rw [File.getcs, hb]
      simp only
      rw [this]

/-! ### chunked copying is invisible -/

theorem copyChunks_eq (bytes : Bytes) (chunk : Nat) : ∀ (fuel pos n : Nat),
    pos + n ≤ bytes.length → copyChunks bytes chunk fuel pos n = slice bytes pos n
  | 0, _, _, _ => rfl
  | fuel + 1, pos, n, h => by
    unfold copyChunks
    split
    · rfl
    · rename_i hc
      have hc' : chunk ≠ 0 ∧ chunk < n := by omega
      rw [copyChunks_eq bytes chunk fuel (pos + chunk) (n - chunk) (by omega)]
      rcases slice_append bytes pos chunk (n - chunk) with h' | h'
      · rw [h']; congr 1; omega
      · omega

/-! ### states of the concrete back-ends determined by the abstract state -/

def File.ofSpec (s : Spec.St) : File.St := { pos := s.pos, eofF := s.sticky, err := s.err }
def Mem.ofSpec (s : Spec.St) : Mem.St := { pos := s.pos, err := s.err }

/-- simulation relation for a callback handle -/
def Cb.Rel {σ : Type} (posOf : σ → Nat) (s : Spec.St) (t : Cb.St σ) : Prop :=
  posOf t.u = s.pos ∧ t.eof = s.sticky ∧ t.err = s.err

theorem Spec.inv_init (bytes : Bytes) : Spec.Inv bytes {} := by
  simp [Spec.Inv]

end Xmp.Stream
