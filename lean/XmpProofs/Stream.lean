import XmpModel.Stream
set_option linter.unusedSimpArgs false
/-! Helper lemmas for C07: slices, the `fgetc` loop, and the per-operation
refinement of `Spec` by the three back-ends. -/
namespace Xmp.Stream

/-! ### slices -/

theorem slice_length (bytes : Bytes) (pos n : Nat) :
    (slice bytes pos n).length = min n (bytes.length - pos) := by
  simp [slice]

theorem slice_all (bytes : Bytes) (pos n : Nat) (h : bytes.length - pos ≤ n) :
    slice bytes pos n = bytes.drop pos := by
  unfold slice
  apply List.take_of_length_le
  simp [h]

theorem slice_succ (bytes : Bytes) (pos n : Nat) (b : UInt8) (h : bytes[pos]? = some b) :
    slice bytes pos (n + 1) = b :: slice bytes (pos + 1) n := by
  unfold slice
  have hlt : pos < bytes.length := by
    rcases Nat.lt_or_ge pos bytes.length with h' | h'
    · exact h'
    · simp [List.getElem?_eq_none h'] at h
  have hb : bytes[pos] = b := by
    have := List.getElem?_eq_getElem hlt
    rw [this] at h; exact Option.some.inj h
  rw [List.drop_eq_getElem_cons hlt, List.take_succ_cons, hb]

theorem slice_append (bytes : Bytes) (pos a b : Nat) :
    slice bytes pos a ++ slice bytes (pos + a) b = slice bytes pos (a + b) ∨ bytes.length < pos + a := by
  rcases Nat.lt_or_ge bytes.length (pos + a) with h | h
  · exact Or.inr h
  · left
    unfold slice
    rw [← List.drop_drop, List.take_add]

/-! ### the `fgetc` loop of dataio.c -/

theorem File.getcs_ok (bytes : Bytes) : ∀ (n : Nat) (t : File.St) (acc : Bytes),
    t.pos + n ≤ bytes.length →
    File.getcs bytes n t acc = (some (acc.reverse ++ slice bytes t.pos n), { t with pos := t.pos + n })
  | 0, t, acc, _ => by simp [File.getcs, slice]
  | n + 1, t, acc, h => by
    have hlt : t.pos < bytes.length := by omega
    have hb : bytes[t.pos]? = some bytes[t.pos] := List.getElem?_eq_getElem hlt
    rw [File.getcs, hb]
    simp only
    rw [File.getcs_ok bytes n _ _ (by simp; omega)]
    simp only [List.reverse_cons, List.append_assoc, List.singleton_append]
    rw [slice_succ bytes t.pos n _ hb]
    simp [Nat.add_assoc, Nat.add_comm 1 n]

theorem File.getcs_fail (bytes : Bytes) : ∀ (n : Nat) (t : File.St) (acc : Bytes),
    t.pos ≤ bytes.length → bytes.length < t.pos + n →
    File.getcs bytes n t acc = (none, { t with pos := bytes.length, eofF := true })
  | 0, t, acc, _, h => by omega
  | n + 1, t, acc, hle, h => by
    rcases Nat.lt_or_ge t.pos bytes.length with hlt | hge
    · have hb : bytes[t.pos]? = some bytes[t.pos] := List.getElem?_eq_getElem hlt
      rw [File.getcs, hb]
      simp only
      rw [File.getcs_fail bytes n _ _ (by simp; omega) (by simp; omega)]
    · have hb : bytes[t.pos]? = none := List.getElem?_eq_none hge
      have : t.pos = bytes.length := by omega
      rw [File.getcs, hb]
      simp only
      rw [this]

/-! ### chunked copying is invisible -/

theorem copyChunks_eq (bytes : Bytes) (chunk : Nat) : ∀ (fuel pos n : Nat),
    pos + n ≤ bytes.length → copyChunks bytes chunk fuel pos n = slice bytes pos n
  | 0, _, _, _ => rfl
  | fuel + 1, pos, n, h => by
    unfold copyChunks
    split
    · rfl
    · rename_i hc
      have hc' : chunk ≠ 0 ∧ chunk < n := by omega
      rw [copyChunks_eq bytes chunk fuel (pos + chunk) (n - chunk) (by omega)]
      rcases slice_append bytes pos chunk (n - chunk) with h' | h'
      · rw [h']; congr 1; omega
      · omega

/-! ### states of the concrete back-ends determined by the abstract state -/

def File.ofSpec (s : Spec.St) : File.St := { pos := s.pos, eofF := s.sticky, err := s.err }
def Mem.ofSpec (s : Spec.St) : Mem.St := { pos := s.pos, err := s.err }

/-- simulation relation for a callback handle -/
def Cb.Rel {σ : Type} (posOf : σ → Nat) (s : Spec.St) (t : Cb.St σ) : Prop :=
  posOf t.u = s.pos ∧ t.eof = s.sticky ∧ t.err = s.err

theorem Spec.inv_init (bytes : Bytes) : Spec.Inv bytes {} := by
  simp [Spec.Inv]


/-! ### the abstract stream keeps its invariant -/


theorem Word.len_pos (w : Word) : 0 < w.len := by cases w <;> decide

theorem Spec.inv_step (bytes : Bytes) (s s' : Spec.St) (o : Op) (out : Out)
    (hinv : Spec.Inv bytes s) (h : Spec.step bytes s o = some (out, s')) : Spec.Inv bytes s' := by
  obtain ⟨hp, hs⟩ := hinv
  cases o with
  | word w =>
    simp only [Spec.step] at h
    split at h <;> simp at h <;> obtain ⟨_, rfl⟩ := h
    · have := Word.len_pos w
      refine ⟨by simpa, ?_⟩
      intro hst; have := hs hst; simp at *; omega
    · simp [Spec.Inv]
  | read size num =>
    simp only [Spec.step] at h
    split at h
    · split at h <;> simp at h
      obtain ⟨_, rfl⟩ := h; exact ⟨hp, hs⟩
    · split at h
      · split at h <;> simp at h
        obtain ⟨_, rfl⟩ := h; exact ⟨hp, hs⟩
      · split at h <;> simp at h <;> obtain ⟨_, rfl⟩ := h
        · rename_i h1 h2 h3
          refine ⟨by simpa, ?_⟩
          intro hst; have := hs hst; simp at *
          have : 0 < size * num := Nat.mul_pos (by omega) (by omega)
          omega
        · simp [Spec.Inv]
  | seek off w =>
    simp only [Spec.step] at h
    split at h
    · split at h <;> simp at h
      obtain ⟨_, rfl⟩ := h; exact ⟨hp, hs⟩
    · split at h
      · rename_i h2; simp at h; obtain ⟨_, rfl⟩ := h; exact ⟨h2, by simp⟩
      · simp at h
  | tell => simp [Spec.step] at h; obtain ⟨_, rfl⟩ := h; exact ⟨hp, hs⟩
  | eof =>
    simp only [Spec.step] at h
    split at h
    · simp at h; obtain ⟨_, rfl⟩ := h; exact ⟨hp, hs⟩
    · split at h <;> simp at h
      obtain ⟨_, rfl⟩ := h; exact ⟨hp, hs⟩
  | error => simp [Spec.step] at h; obtain ⟨_, rfl⟩ := h; exact ⟨hp, hs⟩
  | size => simp [Spec.step] at h; obtain ⟨_, rfl⟩ := h; exact ⟨hp, hs⟩

/-! ### FILE refines Spec -/


theorem File.refines (bytes : Bytes) (s s' : Spec.St) (o : Op) (out : Out)
    (hinv : Spec.Inv bytes s) (h : Spec.step bytes s o = some (out, s')) :
    Agree out (File.step bytes (File.ofSpec s) o).1 ∧
    (File.step bytes (File.ofSpec s) o).2 = File.ofSpec s' := by
  obtain ⟨hp, hs⟩ := hinv
  cases o with
  | word w =>
    simp only [Spec.step] at h
    split at h <;> simp at h <;> obtain ⟨rfl, rfl⟩ := h
    · rename_i hle
      simp only [File.step]
      rw [File.getcs_ok bytes w.len (File.ofSpec s) [] (by simpa [File.ofSpec] using hle)]
      simp [Agree, File.ofSpec]
    · rename_i hgt
      simp only [File.step]
      rw [File.getcs_fail bytes w.len (File.ofSpec s) [] (by simpa [File.ofSpec] using hp)
        (by simp [File.ofSpec]; omega)]
      exact ⟨Or.inl rfl, by simp [File.ofSpec]⟩
  | read size num =>
    simp only [Spec.step] at h
    split at h
    · rename_i hn
      split at h <;> simp at h
      obtain ⟨rfl, rfl⟩ := h
      subst hn
      simp [File.step, File.fread, Agree]
    · rename_i hn
      split at h
      · rename_i hz
        split at h <;> simp at h
        rename_i hst
        obtain ⟨rfl, rfl⟩ := h
        subst hz
        have : ¬ (0 = num) := fun h => hn h.symm
        simp [File.step, File.fread, Agree, File.ofSpec, hst, this]
      · rename_i hz
        have htot : size * num ≠ 0 := Nat.mul_ne_zero hz hn
        split at h <;> simp at h <;> obtain ⟨rfl, rfl⟩ := h
        · rename_i hle
          have hlen : (slice bytes s.pos (size * num)).length = size * num := by
            rw [slice_length]; omega
          have hdiv : size * num / size = num := Nat.mul_div_cancel_left num (Nat.pos_of_ne_zero hz)
          simp only [File.step, File.fread, htot, if_false, File.ofSpec, hlen, hdiv]
          have hst : s.sticky = false := by
            cases hb : s.sticky
            · rfl
            · have := hs hb; omega
          simp [Agree, Nat.mul_comm num size, hlen, hst]
          left; exact List.take_of_length_le (by omega)
        · rename_i hgt
          have hall : slice bytes s.pos (size * num) = bytes.drop s.pos := slice_all _ _ _ (by omega)
          have hlen : (bytes.drop s.pos).length = bytes.length - s.pos := by simp
          have hne : (bytes.length - s.pos) / size ≠ num := by
            intro he
            have := Nat.div_mul_le_self (bytes.length - s.pos) size
            rw [he, Nat.mul_comm] at this
            omega
          simp only [File.step, File.fread, htot, if_false, File.ofSpec, hall]
          simp [Agree, hne, hlen]
          constructor
          · omega
          · omega
  | seek off w =>
    simp only [Spec.step] at h
    split at h
    · split at h <;> simp at h
      obtain ⟨rfl, rfl⟩ := h
      rename_i hneg hst
      simp [File.step, File.ofSpec, hneg, Agree]
    · split at h
      · rename_i hneg hle; simp at h; obtain ⟨rfl, rfl⟩ := h
        simp [File.step, File.ofSpec, hneg, Agree]
      · simp at h
  | tell => simp [Spec.step] at h; obtain ⟨rfl, rfl⟩ := h; simp [File.step, File.ofSpec, Agree]
  | eof =>
    simp only [Spec.step] at h
    split at h
    · rename_i hst; simp at h; obtain ⟨rfl, rfl⟩ := h; simp [File.step, File.ofSpec, Agree, hst, b2i]
    · split at h <;> simp at h
      rename_i hst _
      obtain ⟨rfl, rfl⟩ := h; simp [File.step, File.ofSpec, Agree, hst, b2i]
  | error => simp [Spec.step] at h; obtain ⟨rfl, rfl⟩ := h; simp [File.step, File.ofSpec, Agree]
  | size => simp [Spec.step] at h; obtain ⟨rfl, rfl⟩ := h; simp [File.step, File.ofSpec, Agree]

/-! ### memory refines Spec (exactly) -/


theorem Mem.refines (bytes : Bytes) (s s' : Spec.St) (o : Op) (out : Out)
    (hinv : Spec.Inv bytes s) (h : Spec.step bytes s o = some (out, s')) :
    Mem.step bytes (Mem.ofSpec s) o = (out, Mem.ofSpec s') := by
  obtain ⟨hp, hs⟩ := hinv
  cases o with
  | word w =>
    simp only [Spec.step] at h
    split at h <;> simp at h <;> obtain ⟨rfl, rfl⟩ := h
    · rename_i hle
      have : bytes.length - s.pos ≥ w.len := by omega
      simp [Mem.step, Mem.canRead, Mem.ofSpec, this]
    · rename_i hgt
      have : ¬ (bytes.length - s.pos ≥ w.len) := by omega
      simp [Mem.step, Mem.canRead, Mem.ofSpec, this]
      omega
  | read size num =>
    simp only [Spec.step] at h
    split at h
    · rename_i hn
      split at h <;> simp at h
      obtain ⟨rfl, rfl⟩ := h
      subst hn
      simp [Mem.step, Mem.mread]
    · rename_i hn
      split at h
      · rename_i hz
        split at h <;> simp at h
        obtain ⟨rfl, rfl⟩ := h
        subst hz
        have : ¬ (0 = num) := fun h => hn h.symm
        simp [Mem.step, Mem.mread, Mem.ofSpec, this]
      · rename_i hz
        have htot : 0 < size * num := Nat.mul_pos (Nat.pos_of_ne_zero hz) (Nat.pos_of_ne_zero hn)
        split at h <;> simp at h <;> obtain ⟨rfl, rfl⟩ := h
        · rename_i hle
          have hlen : (slice bytes s.pos (size * num)).length = size * num := by
            rw [slice_length]; omega
          have hc : ¬ (bytes.length - s.pos = 0) := by omega
          have hc2 : ¬ (size * num > bytes.length - s.pos) := by omega
          simp only [Mem.step, Mem.mread, Mem.canRead, Mem.ofSpec, hz, hn, hc, hc2, false_or, if_false]
          simp [Nat.mul_comm num size, hlen]
          exact List.take_of_length_le (by omega)
        · rename_i hgt
          have hlen : (bytes.drop s.pos).length = bytes.length - s.pos := by simp
          have hne : (bytes.length - s.pos) / size ≠ num := by
            intro he
            have := Nat.div_mul_le_self (bytes.length - s.pos) size
            rw [he, Nat.mul_comm] at this
            omega
          by_cases hc : bytes.length - s.pos = 0
          · have hd : bytes.drop s.pos = [] := by
              apply List.drop_eq_nil_of_le; omega
            have h0 : ¬ (0 = num) := fun h => hn h.symm
            have hpe : s.pos = bytes.length := by omega
            simp [Mem.step, Mem.mread, Mem.canRead, Mem.ofSpec, hz, hn, hc, hd, h0, hpe]
          · have hc2 : size * num > bytes.length - s.pos := by omega
            have hall : slice bytes s.pos (bytes.length - s.pos) = bytes.drop s.pos := slice_all _ _ _ (Nat.le_refl _)
            simp only [Mem.step, Mem.mread, Mem.canRead, Mem.ofSpec, hz, hn, hc, hc2, false_or, if_false, if_true, hall]
            simp [hne]
            omega
  | seek off w =>
    simp only [Spec.step] at h
    split at h
    · split at h <;> simp at h
      obtain ⟨rfl, rfl⟩ := h
      rename_i hneg hst
      simp [Mem.step, Mem.ofSpec, hneg]
    · split at h
      · rename_i hneg hle; simp at h; obtain ⟨rfl, rfl⟩ := h
        simp [Mem.step, Mem.ofSpec, hneg, Nat.min_eq_left hle]
      · simp at h
  | tell => simp [Spec.step] at h; obtain ⟨rfl, rfl⟩ := h; simp [Mem.step, Mem.ofSpec]
  | eof =>
    simp only [Spec.step] at h
    split at h
    · rename_i hst; simp at h; obtain ⟨rfl, rfl⟩ := h
      have := hs hst
      simp [Mem.step, Mem.ofSpec, Mem.canRead, this, b2i]
    · split at h <;> simp at h
      rename_i hst hlt
      obtain ⟨rfl, rfl⟩ := h
      have : ¬ (bytes.length - s.pos = 0) := by omega
      simp [Mem.step, Mem.ofSpec, Mem.canRead, b2i, this]
  | error => simp [Spec.step] at h; obtain ⟨rfl, rfl⟩ := h; simp [Mem.step, Mem.ofSpec]
  | size => simp [Spec.step] at h; obtain ⟨rfl, rfl⟩ := h; simp [Mem.step, Mem.ofSpec]

/-! ### every legal callback set refines Spec -/


theorem Cb.refines {σ : Type} (bytes : Bytes) (cb : Callbacks σ) (posOf : σ → Nat)
    (hl : Legal bytes cb posOf) (s s' : Spec.St) (t : Cb.St σ) (o : Op) (out : Out)
    (hinv : Spec.Inv bytes s) (hr : Cb.Rel posOf s t) (h : Spec.step bytes s o = some (out, s')) :
    Agree out (Cb.step cb bytes.length t o).1 ∧
    Cb.Rel posOf s' (Cb.step cb bytes.length t o).2 := by
  obtain ⟨hp, hs⟩ := hinv
  obtain ⟨hpos, heof, herr⟩ := hr
  have hpu : posOf t.u ≤ bytes.length := by omega
  cases o with
  | word w =>
    have hwl := Word.len_pos w
    simp only [Spec.step] at h
    split at h <;> simp at h <;> obtain ⟨rfl, rfl⟩ := h
    · rename_i hle
      obtain ⟨h1, h2, h3⟩ := hl.read_full t.u w.len 1 (by omega) (by omega)
      rw [Cb.step]
      generalize cb.read t.u w.len 1 = rr at *
      obtain ⟨r, buf, u'⟩ := rr
      simp only at h1 h2 h3
      subst h1
      have hbl : buf.length = w.len := by rw [h2, slice_length]; omega
      have hbt : buf.take w.len = buf := List.take_of_length_le (by omega)
      simp only [Nat.mul_one] at h2 h3
      refine ⟨Or.inl ?_, ?_⟩
      · rw [hpos] at h2
        subst h2
        simp [hbt, hbl]
      · simp [Cb.Rel, h3, hpos, herr]
        cases hb : s.sticky
        · rfl
        · have := hs hb; omega
    · rename_i hgt
      obtain ⟨h1, _, _, h4⟩ := hl.read_short t.u w.len 1 hpu (by omega)
      rw [Cb.step]
      generalize cb.read t.u w.len 1 = rr at *
      obtain ⟨r, buf, u'⟩ := rr
      simp only at h1 h4
      have hr0 : r = 0 := by rw [h1]; apply Nat.div_eq_of_lt; omega
      subst hr0
      simp [Agree, Cb.Rel, h4]
  | read size num =>
    simp only [Spec.step] at h
    split at h
    · rename_i hn
      split at h <;> simp at h
      rename_i hst
      obtain ⟨rfl, rfl⟩ := h
      subst hn
      obtain ⟨h1, h2, h3⟩ := hl.read_zero t.u size 0 hpu (by simp)
      rw [Cb.step]
      generalize cb.read t.u size 0 = rr at *
      obtain ⟨r, buf, u'⟩ := rr
      simp only at h1 h2 h3
      subst h1 h2
      simp [Agree, Cb.Rel, h3, hpos, herr, hst]
    · rename_i hn
      split at h
      · rename_i hz
        split at h <;> simp at h
        rename_i hst
        obtain ⟨rfl, rfl⟩ := h
        subst hz
        obtain ⟨h1, h2, h3⟩ := hl.read_zero t.u 0 num hpu (by simp)
        rw [Cb.step]
        generalize cb.read t.u 0 num = rr at *
        obtain ⟨r, buf, u'⟩ := rr
        simp only at h1 h2 h3
        subst h1 h2
        have h0 : ¬ (0 = num) := fun h => hn h.symm
        simp [Agree, Cb.Rel, h3, hpos, hst, h0]
        omega
      · rename_i hz
        have htot : 0 < size * num := Nat.mul_pos (Nat.pos_of_ne_zero hz) (Nat.pos_of_ne_zero hn)
        split at h <;> simp at h <;> obtain ⟨rfl, rfl⟩ := h
        · rename_i hle
          obtain ⟨h1, h2, h3⟩ := hl.read_full t.u size num htot (by omega)
          rw [Cb.step]
          generalize cb.read t.u size num = rr at *
          obtain ⟨r, buf, u'⟩ := rr
          simp only at h1 h2 h3
          subst h1
          rw [hpos] at h2 h3
          subst h2
          have hlen : (slice bytes s.pos (size * r)).length = size * r := by
            rw [slice_length]; omega
          have hst : s.sticky = false := by
            cases hb : s.sticky
            · rfl
            · have := hs hb; omega
          refine ⟨Or.inl ?_, ?_⟩
          · simp [Nat.mul_comm r size, hlen]
            exact List.take_of_length_le (by omega)
          · simp [Cb.Rel, h3, herr, hst]
        · rename_i hgt
          obtain ⟨h1, h2, h3, h4⟩ := hl.read_short t.u size num hpu (by omega)
          rw [Cb.step]
          generalize cb.read t.u size num = rr at *
          obtain ⟨r, buf, u'⟩ := rr
          simp only at h1 h2 h3 h4
          rw [hpos] at h1 h2
          have hall : slice bytes s.pos (bytes.length - s.pos) = bytes.drop s.pos := slice_all _ _ _ (Nat.le_refl _)
          rw [hall] at h2
          unfold IsPre at h2
          have hlen : (bytes.drop s.pos).length = bytes.length - s.pos := by simp
          have hrlt : r < num := by
            have := Nat.div_mul_le_self (bytes.length - s.pos) size
            rw [← h1] at this
            have h5 : r * size < num * size := by rw [Nat.mul_comm num size]; omega
            exact Nat.lt_of_mul_lt_mul_right h5
          have hitems : buf.take (r * size) = (bytes.drop s.pos).take (r * size) := by
            rw [← h2, List.take_take, Nat.min_eq_left h3]
          refine ⟨Or.inr ⟨r, buf.take (r * size), (bytes.drop s.pos).drop (r * size),
            buf.drop (r * size), ?_, rfl⟩, ?_⟩
          · subst h1
            simp
            exact hitems.symm
          · have hne : r ≠ num := by omega
            simp [Cb.Rel, h4, hrlt, hne]
  | seek off w =>
    simp only [Spec.step] at h
    split at h
    · split at h <;> simp at h
      obtain ⟨rfl, rfl⟩ := h
      rename_i hneg hst
      obtain ⟨h1, h2⟩ := hl.seek_neg t.u off w hpu (by rw [hpos]; exact hneg)
      rw [Cb.step]
      generalize cb.seek t.u off w = rr at *
      obtain ⟨ret, u'⟩ := rr
      simp only at h1 h2
      simp [h1, Agree, Cb.Rel, h2, hpos, hst]
    · split at h
      · rename_i hneg hle; simp at h; obtain ⟨rfl, rfl⟩ := h
        obtain ⟨h1, h2⟩ := hl.seek_ok t.u off w hpu (by rw [hpos]; omega) (by rw [hpos]; omega)
        rw [Cb.step]
        generalize cb.seek t.u off w = rr at *
        obtain ⟨ret, u'⟩ := rr
        simp only at h1 h2
        subst h1
        simp [Agree, Cb.Rel, herr]
        rw [hpos] at h2
        omega
      · simp at h
  | tell =>
    simp [Spec.step] at h; obtain ⟨rfl, rfl⟩ := h
    have := hl.tell_eq t.u hpu
    have hnn : ¬ ((s.pos : Int) < 0) := by omega
    simp [Cb.step, Agree, Cb.Rel, this, hpos, heof, herr, hnn]
  | eof =>
    simp only [Spec.step] at h
    split at h
    · rename_i hst; simp at h; obtain ⟨rfl, rfl⟩ := h
      simp [Cb.step, Agree, Cb.Rel, hpos, heof, herr, hst, b2i]
    · split at h <;> simp at h
      rename_i hst hlt
      obtain ⟨rfl, rfl⟩ := h
      simp [Cb.step, Agree, Cb.Rel, hpos, heof, herr, hst, b2i]
  | error => simp [Spec.step] at h; obtain ⟨rfl, rfl⟩ := h; simp [Cb.step, Agree, Cb.Rel, hpos, heof, herr]
  | size => simp [Spec.step] at h; obtain ⟨rfl, rfl⟩ := h; simp [Cb.step, Agree, Cb.Rel, hpos, heof, herr]


/-! ### the harness's callback family honours the contract -/


theorem memCb_legal (bytes : Bytes) (pol : CbPolicy) : Legal bytes (memCb bytes pol) id where
  tell_eq := by intro u _; rfl
  read_zero := by
    intro u len n _ h0
    simp [memCb, h0]
  read_full := by
    intro u len n hpos hle
    have hlen : 0 < len := Nat.pos_of_mul_pos_right hpos
    have hne : len * n ≠ 0 := by omega
    have hmin : min (len * n) (bytes.length - u) = len * n := by
      apply Nat.min_eq_left; simp only [id] at hle; omega
    simp only [memCb, hne, if_false, hmin, true_or, if_true, id]
    refine ⟨Nat.mul_div_cancel_left n hlen, ?_, trivial⟩
    exact copyChunks_eq bytes pol.chunk _ _ _ hle
  read_short := by
    intro u len n hp hgt
    simp only [id] at hp hgt
    have hne : len * n ≠ 0 := by omega
    have hmin : min (len * n) (bytes.length - u) = bytes.length - u := by
      apply Nat.min_eq_right; omega
    have hneq : ¬ (bytes.length - u = len * n) := by omega
    have hdm := Nat.div_mul_le_self (bytes.length - u) len
    simp only [memCb, hne, if_false, hmin, hneq, false_or, id]
    refine ⟨trivial, ?_, ?_, by omega⟩
    · split
      · rw [copyChunks_eq bytes pol.chunk _ _ _ (by omega)]
        simp [IsPre]
      · rw [copyChunks_eq bytes pol.chunk _ _ _ (by omega)]
        simp only [IsPre, slice_length]
        unfold slice
        rw [List.take_take]
        congr 1
        omega
    · split
      · rw [copyChunks_eq bytes pol.chunk _ _ _ (by omega), slice_length]; omega
      · rw [copyChunks_eq bytes pol.chunk _ _ _ (by omega), slice_length]; omega
  seek_ok := by
    intro u off w hp h0 hle
    simp only [id] at *
    have h1 : ¬ (target bytes.length u off w < 0) := by omega
    have h2 : (target bytes.length u off w).toNat ≤ bytes.length := by omega
    simp only [memCb, h1, if_false, h2, if_true, true_and]
    omega
  seek_neg := by
    intro u off w hp hneg
    simp only [id] at *
    simp [memCb, hneg]

end Xmp.Stream
