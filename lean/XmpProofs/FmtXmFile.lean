import XmpProofs.FmtXm
import XmpProofs.FmtPcm
/-!
# Whole-file round trip of the XM codec (`Xmp.Fmt.Xm.read (write s o) = some (loaded s)`)

Main results (namespace `Xmp.Fmt.Xm`), all for arbitrary sizes, by structural proofs over lists:

* `readPats_encPats` : the pattern blocks, wherever they lie in the file (`file = pre ++ encPats … ++ post`), every
  packing mode, empty patterns stored with data size 0 or not;
* `loadPcm_storePcm` : delta + stereo block storage of 8/16-bit PCM;
* `decSmpHdr_encSmpHdr`, `hdrSmp_enc`, `hdrSub_enc` : the 40-byte sample header;
* `readBodies_bodies` : the sample bodies of one instrument (the OXM probe stays inside a sample's own bytes);
* `readIns_step_empty`, `readIns_step_smp` : one instrument block with **any** header size the loader accepts
  (≥ 29 without samples; ≥ 241 full / 33..240 stripped with samples), independent of the writer;
* `readIns_encInss` : the whole instrument list up to the end of the file;
* `roundtrip` : `WellFormed s o → read (write s o) = some (loaded s)`, every song header size
  `20 + songlen ≤ o.hsz ≤ 276`, every instrument header size allowed by `SizeOk`, every `emptyInsSize ≥ 29`;
* `cxOgg_roundtrip` : the former counterexample (a 5-byte sample ending in 'O' followed by a sample whose stored
  bytes begin "ggS", `cxOgg_window`) round-trips since `is_ogg_sample` no longer probes beyond a short sample.
-/
namespace Xmp.Fmt.Xm
open Xmp Xmp.Fmt

/-! ## little-endian fields, slices -/

theorem le16_length (n : Nat) : (le16 n).length = 2 := rfl
theorem le32_length (n : Nat) : (le32 n).length = 4 := rfl

theorem rd16le_le16 {n : Nat} (h : n < 65536) : rd16le (le16 n) = n := by
  simp only [le16, rd16le, u8_toNat]; omega

theorem rd32le_le32 {n : Nat} (h : n < 4294967296) : rd32le (le32 n) = n := by
  simp only [le32, rd32le, u8_toNat]; omega

/-- the bytes `mid` lying at offset `pre.length` -/
theorem slice (pre mid post : Bytes) {k n : Nat} (hk : pre.length = k) (hn : mid.length = n) :
    ((pre ++ (mid ++ post)).drop k).take n = mid := by
  rw [List.drop_left' hk, List.take_left' hn]

theorem drop_add {α : Type} (l : List α) (a b : Nat) : l.drop (a + b) = (l.drop a).drop b := by
  rw [List.drop_drop]

theorem length_of_drop {α : Type} {l r : List α} {k : Nat} (h : l.drop k = r) (hr : r ≠ []) :
    l.length = k + r.length := by
  subst h
  rw [List.length_drop]
  have : k < l.length := by
    rcases Nat.lt_or_ge k l.length with h | h
    · exact h
    · exact absurd (List.drop_of_length_le h) hr
  omega

theorem length_ge_of_drop {α : Type} {l r : List α} {k : Nat} (h : l.drop k = r) :
    k + r.length ≤ l.length ∨ r = [] := by
  cases r with
  | nil => right; rfl
  | cons a t => left; rw [length_of_drop h (by simp)]; exact Nat.le_refl _

/-! ## patterns -/

theorem packed_length_le (f0 f1 f2 f3 f4 : Nat) (b0 b1 b2 b3 b4 : Bool) :
    1 ≤ (packed f0 f1 f2 f3 f4 b0 b1 b2 b3 b4).length ∧ (packed f0 f1 f2 f3 f4 b0 b1 b2 b3 b4).length ≤ 6 := by
  cases b0 <;> cases b1 <;> cases b2 <;> cases b3 <;> cases b4 <;> simp [packed]

theorem encCell_length_le (c : Cell) (fx : UInt8 × UInt8) (volfx : UInt8) (mode : Nat) :
    1 ≤ (encCell c fx volfx mode).length ∧ (encCell c fx volfx mode).length ≤ 6 := by
  by_cases hm : mode = 32
  · subst hm; rw [encCell_unpacked]; simp
  · rw [encCell_packed c fx volfx mode hm]; exact packed_length_le ..

theorem encCells_length_le (fx : Nat → UInt8 × UInt8) (volfx : Nat → UInt8) (mode : Nat → Nat) (cs : List Cell) (i : Nat) :
    cs.length ≤ (encCells fx volfx mode cs i).length ∧ (encCells fx volfx mode cs i).length ≤ 6 * cs.length := by
  induction cs generalizing i with
  | nil => simp [encCells]
  | cons c cs ih =>
    have h1 := encCell_length_le c (fx i) (volfx i) (mode i)
    have h2 := ih (i + 1)
    simp only [encCells, List.length_append, List.length_cons]
    omega

theorem cells_of_isEmptyPat (p : Pat) (h : isEmptyPat p = true) : p.cells = List.replicate p.cells.length {} := by
  rw [List.eq_replicate_iff]
  refine ⟨rfl, fun c hc => ?_⟩
  have := List.all_eq_true.1 h c hc
  simp only [Bool.and_eq_true, decide_eq_true_eq] at this
  obtain ⟨⟨h1, h2⟩, h3⟩ := this
  cases c; simp_all


/-- one step of `readPats` on a file whose bytes at `pos` are a 9-byte pattern header followed by the data -/
theorem readPats_step (chn n : Nat) (file : Bytes) (pos rows dl : Nat) (d rest : Bytes) (cells : List Cell)
    (hdrop : file.drop pos = le32 9 ++ [0] ++ le16 rows ++ le16 dl ++ (d ++ rest))
    (hr1 : 1 ≤ rows) (hr2 : rows ≤ 256) (hdl : dl < 65536) (hd : d.length = dl)
    (hcells : if dl = 0 then cells = List.replicate (rows * chn) {} else decCells (rows * chn) d = some cells) :
    readPats chn file (n + 1) pos =
      (readPats chn file n (pos + 9 + dl)).map fun (ps, e) => ({ rows := rows, cells := cells } :: ps, e) := by
  have hlen : pos + 9 ≤ file.length := by
    rcases length_ge_of_drop hdrop with h | h
    · simp only [List.length_append, le32_length, le16_length, List.length_cons, List.length_nil] at h; omega
    · simp [le32] at h
  have hh : (file.drop pos).take 9 = le32 9 ++ [0] ++ le16 rows ++ le16 dl := by
    rw [hdrop]; exact List.take_left' rfl
  have hdd : file.drop (pos + 9) = d ++ rest := by
    rw [drop_add, hdrop]; exact List.drop_left' rfl
  have e1 : rd32le ((le32 9 ++ [0] ++ le16 rows ++ le16 dl).take 4) = 9 := by
    show rd32le (le32 9) = 9
    decide
  have e2 : rd16le (((le32 9 ++ [0] ++ le16 rows ++ le16 dl).drop 5).take 2) = rows := by
    show rd16le (le16 rows) = rows
    exact rd16le_le16 (by omega)
  have e3 : rd16le (((le32 9 ++ [0] ++ le16 rows ++ le16 dl).drop 7).take 2) = dl := by
    show rd16le (le16 dl) = dl
    exact rd16le_le16 hdl
  have hr : (if rows = 0 then 256 else rows) = rows := by rw [if_neg (by omega)]
  rw [readPats]
  simp only [hh, e1, e2, e3, hr]
  rw [if_neg (by simp [le32, le16]), if_neg (by omega), if_neg (by omega)]
  by_cases hz : dl = 0
  · rw [if_pos hz] at hcells
    rw [if_pos hz, hcells, hz]
  · rw [if_neg hz] at hcells
    rw [if_neg hz, hdd, List.take_left' hd, if_neg (by omega), hcells, Nat.add_assoc]

/-- the stored pattern data -/
def patData (o : Opts) (p : Pat) (ci : Nat) : Bytes :=
  if o.emptyZero && isEmptyPat p then [] else encCells o.fx o.volfx o.mode p.cells ci

theorem encPat_eq (o : Opts) (p : Pat) (ci : Nat) :
    encPat o p ci = le32 9 ++ [0] ++ le16 p.rows ++ le16 (patData o p ci).length ++ patData o p ci := rfl

theorem encPat_length (o : Opts) (p : Pat) (ci : Nat) : (encPat o p ci).length = 9 + (patData o p ci).length := by
  rw [encPat_eq]
  simp only [List.length_append, le32_length, le16_length, List.length_cons, List.length_nil]

theorem patData_spec (o : Opts) {chn : Nat} (hc : 1 ≤ chn) {p : Pat} (ci : Nat) (h : PatOk chn p) :
    (patData o p ci).length < 65536 ∧
    (if (patData o p ci).length = 0 then p.cells = List.replicate (p.rows * chn) {}
     else decCells (p.rows * chn) (patData o p ci) = some p.cells) := by
  obtain ⟨hr1, hr2, hsz, hl, hcells⟩ := h
  unfold patData
  by_cases he : (o.emptyZero && isEmptyPat p) = true
  · rw [if_pos he]
    simp only [Bool.and_eq_true] at he
    refine ⟨by simp, ?_⟩
    rw [if_pos (by rfl), ← hl]
    exact cells_of_isEmptyPat p he.2
  · rw [if_neg he]
    have hb := encCells_length_le o.fx o.volfx o.mode p.cells ci
    have hpos : 1 ≤ p.cells.length := by
      rw [hl]; exact Nat.mul_le_mul hr1 hc
    refine ⟨by omega, ?_⟩
    rw [if_neg (by omega), ← hl]
    have := decCells_encCells p.cells hcells o.fx o.volfx o.mode ci []
    rwa [List.append_nil] at this

/-- **patterns**: the reader walks over the written pattern blocks, wherever they lie in the file -/
theorem readPats_encPats (o : Opts) {chn : Nat} (hc : 1 ≤ chn) (ps : List Pat) (ci : Nat) (pre post : Bytes)
    (h : ∀ p ∈ ps, PatOk chn p) :
    readPats chn (pre ++ (encPats o ps ci ++ post)) ps.length pre.length =
      some (ps, pre.length + (encPats o ps ci).length) := by
  induction ps generalizing ci pre with
  | nil => simp [readPats, encPats]
  | cons p ps ih =>
    have hp := h p (by simp)
    obtain ⟨hr1, hr2, -, -, -⟩ := id hp
    obtain ⟨hdl, hcells⟩ := patData_spec o hc ci hp
    have hfile : pre ++ (encPats o (p :: ps) ci ++ post) =
        (pre ++ encPat o p ci) ++ (encPats o ps (ci + p.cells.length) ++ post) := by
      simp only [encPats, List.append_assoc]
    have hdrop : (pre ++ (encPats o (p :: ps) ci ++ post)).drop pre.length =
        le32 9 ++ [0] ++ le16 p.rows ++ le16 (patData o p ci).length ++
          (patData o p ci ++ (encPats o ps (ci + p.cells.length) ++ post)) := by
      rw [List.drop_left' rfl]
      simp only [encPats, encPat_eq, List.append_assoc]
    rw [List.length_cons, readPats_step chn ps.length _ pre.length p.rows _ _ _ p.cells hdrop hr1 hr2 hdl rfl hcells,
      hfile]
    have := ih (ci + p.cells.length) (pre ++ encPat o p ci) (fun q hq => h q (by simp [hq]))
    rw [List.length_append, encPat_length, ← Nat.add_assoc] at this
    rw [this]
    simp only [Option.map_some, encPats, List.length_append, encPat_length]
    congr 2
    omega

/-! ## PCM -/

theorem frameBytes_stereo {flg : Nat} (hs : flg &&& FSTEREO ≠ 0) : frameBytes flg = 2 * chanBytes flg := by
  rw [frameBytes_eq, if_pos hs, Nat.mul_comm]

theorem frameBytes_mono {flg : Nat} (hs : ¬ flg &&& FSTEREO ≠ 0) : frameBytes flg = chanBytes flg := by
  rw [frameBytes_eq, if_neg hs, Nat.mul_one]

theorem chan_even (flg len : Nat) : decide (flg &&& F16BIT ≠ 0) = true → len * chanBytes flg = 2 * len := by
  intro h
  rw [chanBytes_16 flg (by simpa using h), Nat.mul_comm]

theorem storePcm_length (flg len : Nat) (pcm : Bytes) (h : pcm.length = len * frameBytes flg) :
    (storePcm flg len pcm).length = len * frameBytes flg := by
  unfold storePcm
  by_cases hs : flg &&& FSTEREO ≠ 0
  · have h' : pcm.length = len * (2 * chanBytes flg) := by rw [h, frameBytes_stereo hs]
    obtain ⟨h1, h2⟩ := deinterleave_length (chanBytes flg) len pcm h'
    simp only [if_pos hs, List.length_append]
    rw [deltaEnc_length _ _ len (fun h16 => by rw [h1]; exact chan_even flg len h16),
      deltaEnc_length _ _ len (fun h16 => by rw [h2]; exact chan_even flg len h16), h1, h2, frameBytes_stereo hs]
    rw [Nat.mul_left_comm, Nat.two_mul]
  · simp only [if_neg hs]
    rw [deltaEnc_length _ _ _ (pcm_even flg len pcm h), h]

/-- **PCM storage**: delta decoding + channel interleaving undo the writer's block split + delta encoding -/
theorem loadPcm_storePcm (flg len : Nat) (pcm : Bytes) (h : pcm.length = len * frameBytes flg) :
    loadPcm flg len (storePcm flg len pcm) = pcm := by
  unfold loadPcm storePcm
  by_cases hs : flg &&& FSTEREO ≠ 0
  · have h' : pcm.length = len * (2 * chanBytes flg) := by rw [h, frameBytes_stereo hs]
    obtain ⟨h1, h2⟩ := deinterleave_length (chanBytes flg) len pcm h'
    have e1 := deltaEnc_length (decide (flg &&& F16BIT ≠ 0)) _ len
      (fun h16 => by rw [h1]; exact chan_even flg len h16)
    rw [h1] at e1
    simp only [if_pos hs]
    rw [List.take_left' e1, List.drop_left' e1,
      deltaDec_deltaEnc _ _ len (fun h16 => by rw [h1]; exact chan_even flg len h16),
      deltaDec_deltaEnc _ _ len (fun h16 => by rw [h2]; exact chan_even flg len h16)]
    exact interleave_deinterleave _ _ _ h'
  · simp only [if_neg hs]
    exact deltaDec_deltaEnc _ _ _ (pcm_even flg len pcm h)

/-! ## sample headers -/

def typOf (flg : Nat) : Nat :=
  (if flg &&& FBIDIR ≠ 0 then 2 else if flg &&& FLOOP ≠ 0 then 1 else 0) +
  (if flg &&& F16BIT ≠ 0 then 0x10 else 0) + (if flg &&& FSTEREO ≠ 0 then 0x20 else 0)

theorem encSmpHdr_eq (m : Smp) (sub : Sub) :
    encSmpHdr m sub = le32 (m.len * frameBytes m.flg) ++ (le32 (m.lps * frameBytes m.flg) ++
      (le32 ((m.lpe - m.lps) * frameBytes m.flg) ++
      ([u8 sub.vol, i8 sub.fin, u8 (typOf m.flg), u8 sub.pan.toNat, i8 sub.xpo, 0] ++ padTo 22 m.name))) := by
  simp only [encSmpHdr, typOf, List.append_assoc]

theorem encSmpHdr_length (m : Smp) (sub : Sub) : (encSmpHdr m sub).length = 40 := by
  rw [encSmpHdr_eq]
  simp only [List.length_append, le32_length, List.length_cons, List.length_nil, padTo_length]

theorem decSmpHdr_parts (a b c : Bytes) (v f t p r z : UInt8) (n : Bytes)
    (ha : a.length = 4) (hb : b.length = 4) (hc : c.length = 4) (hn : n.length = 22) :
    decSmpHdr (a ++ (b ++ (c ++ ([v, f, t, p, r, z] ++ n)))) =
      { length := rd32le a, lstart := rd32le b, llen := rd32le c, vol := v.toNat, fin := s8 f, typ := t.toNat,
        pan := p.toNat, rel := s8 r, reserved := z.toNat, name := n } := by
  match a, b, c, ha, hb, hc with
  | [a0, a1, a2, a3], [b0, b1, b2, b3], [c0, c1, c2, c3], _, _, _ =>
    simp [decSmpHdr, List.take_of_length_le, hn]

theorem s8_i8 {x : Int} (h1 : -128 ≤ x) (h2 : x ≤ 127) : s8 (i8 x) = x := by
  unfold s8 i8
  rw [u8_toNat]
  split <;> omega

/-- facts about the 16 legal flag words, by enumeration -/
theorem flag_table : ∀ flg ∈ List.range 136,
    flg &&& (F16BIT ||| FLOOP ||| FBIDIR ||| FSTEREO) = flg → (flg &&& FBIDIR ≠ 0 → flg &&& FLOOP ≠ 0) →
    typOf flg < 256 ∧
    (if typOf flg / 16 % 2 = 1 then 2 else 1) * (if typOf flg / 32 % 2 = 1 then 2 else 1) = frameBytes flg ∧
    (if typOf flg / 16 % 2 = 1 then F16BIT else 0) + (if typOf flg / 32 % 2 = 1 then FSTEREO else 0) +
      (if typOf flg % 2 = 1 ∨ typOf flg / 2 % 2 = 1 then FLOOP else 0) +
      (if typOf flg / 2 % 2 = 1 then FBIDIR else 0) = flg ∧
    (flg &&& FLOOP = 0 → flg &&& (0xffff - (FLOOP ||| FBIDIR)) = flg) ∧
    flg &&& FSLOOP = 0 := by
  decide +kernel

theorem flg_le {flg : Nat} (h : flg &&& (F16BIT ||| FLOOP ||| FBIDIR ||| FSTEREO) = flg) : flg < 136 := by
  have : flg &&& (F16BIT ||| FLOOP ||| FBIDIR ||| FSTEREO) ≤ (F16BIT ||| FLOOP ||| FBIDIR ||| FSTEREO) := Nat.and_le_right
  rw [h] at this
  have e : (F16BIT ||| FLOOP ||| FBIDIR ||| FSTEREO) = 135 := by decide
  omega

theorem frameBytes_pos (flg : Nat) : 1 ≤ frameBytes flg ∧ frameBytes flg ≤ 4 := by
  unfold frameBytes; split <;> split <;> omega

theorem smp_flags {m : Smp} (h : SmpOk m) :
    typOf m.flg < 256 ∧
    (if typOf m.flg / 16 % 2 = 1 then 2 else 1) * (if typOf m.flg / 32 % 2 = 1 then 2 else 1) = frameBytes m.flg ∧
    (if typOf m.flg / 16 % 2 = 1 then F16BIT else 0) + (if typOf m.flg / 32 % 2 = 1 then FSTEREO else 0) +
      (if typOf m.flg % 2 = 1 ∨ typOf m.flg / 2 % 2 = 1 then FLOOP else 0) +
      (if typOf m.flg / 2 % 2 = 1 then FBIDIR else 0) = m.flg ∧
    (m.flg &&& FLOOP = 0 → m.flg &&& (0xffff - (FLOOP ||| FBIDIR)) = m.flg) ∧
    m.flg &&& FSLOOP = 0 := by
  obtain ⟨-, -, -, hmask, hbi, -⟩ := h
  exact flag_table m.flg (List.mem_range.2 (flg_le hmask)) hmask hbi

theorem smp_loop {m : Smp} (h : SmpOk m) : m.lps ≤ m.lpe ∧ m.lpe ≤ m.len := by
  obtain ⟨-, -, -, -, -, -, -, hl, -⟩ := h
  split at hl <;> omega

/-- the raw header read back from the written one -/
theorem decSmpHdr_encSmpHdr {m : Smp} (sub : Sub) (h : SmpOk m) :
    decSmpHdr (encSmpHdr m sub) =
      { length := m.len * frameBytes m.flg, lstart := m.lps * frameBytes m.flg,
        llen := (m.lpe - m.lps) * frameBytes m.flg, vol := (u8 sub.vol).toNat, fin := s8 (i8 sub.fin),
        typ := typOf m.flg, pan := (u8 sub.pan.toNat).toNat, rel := s8 (i8 sub.xpo), reserved := 0,
        name := padTo 22 m.name } := by
  have hf := frameBytes_pos m.flg
  have hl := smp_loop h
  have ht := (smp_flags h).1
  have hlen : m.len ≤ 0x100000 := h.2.2.2.2.2.1
  have b1 : m.len * frameBytes m.flg ≤ 0x100000 * 4 := Nat.mul_le_mul hlen hf.2
  have b2 : m.lps * frameBytes m.flg ≤ 0x100000 * 4 := Nat.mul_le_mul (by omega) hf.2
  have b3 : (m.lpe - m.lps) * frameBytes m.flg ≤ 0x100000 * 4 := Nat.mul_le_mul (by omega) hf.2
  rw [encSmpHdr_eq, decSmpHdr_parts _ _ _ _ _ _ _ _ _ _ rfl rfl rfl (padTo_length _ _),
    rd32le_le32 (by omega), rd32le_le32 (by omega), rd32le_le32 (by omega), u8_toNat_lt ht]
  rfl

theorem hdrSmp_enc {m : Smp} (sub : Sub) (h : SmpOk m) :
    hdrSmp (decSmpHdr (encSmpHdr m sub)) = { m with pcm := [] } := by
  obtain ⟨ht, hsh, hflg, -, -⟩ := smp_flags h
  have hl := smp_loop h
  have hf := frameBytes_pos m.flg
  have hname : NameOk 22 m.name := h.1
  have hsus : m.sus = 0 := h.2.1
  have hsue : m.sue = 0 := h.2.2.1
  rw [decSmpHdr_encSmpHdr sub h]
  unfold hdrSmp
  simp only [hsh, hflg, copyAdjust_padTo hname, adjustString_self hname]
  have e1 : m.len * frameBytes m.flg / frameBytes m.flg = m.len := Nat.mul_div_cancel _ (by omega)
  have e2 : m.lps * frameBytes m.flg / frameBytes m.flg = m.lps := Nat.mul_div_cancel _ (by omega)
  have e3 : (m.lps * frameBytes m.flg + (m.lpe - m.lps) * frameBytes m.flg) / frameBytes m.flg = m.lpe := by
    rw [← Nat.add_mul, Nat.mul_div_cancel _ (by omega)]; omega
  rw [e1, e2, e3]
  cases m; simp_all

theorem hdrSub_enc {sid : Nat} {sub : Sub} (m : Smp) (hm : SmpOk m) (h : SubOk sid sub) :
    hdrSub sid (decSmpHdr (encSmpHdr m sub)) = sub := by
  obtain ⟨h0, h1, h2, h3, h4, h5, h6, h7⟩ := h
  rw [decSmpHdr_encSmpHdr sub hm]
  unfold hdrSub
  simp only [s8_i8 h4 h5, s8_i8 h6 h7, u8_toNat]
  cases sub with
  | mk sid' vol pan xpo fin =>
    simp only at h0 h1 h2 h3
    subst h0
    simp only
    congr 1
    · omega
    · omega

/-! ## sample bodies -/

theorem bodies_cons (m : Smp) (ms : List Smp) : bodies (m :: ms) = storePcm m.flg m.len m.pcm ++ bodies ms := by
  simp [bodies]

theorem smp_store_length {m : Smp} (h : SmpOk m) :
    (storePcm m.flg m.len m.pcm).length = m.len * frameBytes m.flg :=
  storePcm_length _ _ _ h.2.2.2.2.2.2.1

/-- the 4-byte window at offset 4 of a block of at least eight bytes lies inside the block -/
theorem probe_own (A T : Bytes) (h : 8 ≤ A.length) : ((A ++ T).drop 4).take 4 = (A.drop 4).take 4 := by
  rw [List.drop_append_of_le_length (by omega), List.take_append_of_le_length (by rw [List.length_drop]; omega)]

theorem loopSanity_ok {m : Smp} (h : SmpOk m) :
    loopSanity m.len m.lps m.lpe m.flg = (m.lps, m.lpe, m.flg) := by
  obtain ⟨-, -, -, hmask, -⟩ := smp_flags h
  obtain ⟨-, -, -, -, hbi, -, -, hl, -⟩ := h
  unfold loopSanity
  by_cases hloop : m.flg &&& FLOOP ≠ 0
  · rw [if_pos hloop] at hl
    have a1 : ¬ (m.lpe > m.len) := by omega
    simp only [if_neg a1]
    rw [if_neg (by omega), if_neg (by intro hh; exact hloop hh.2)]
  · rw [if_neg hloop] at hl
    have hz : m.flg &&& FLOOP = 0 := by simpa using hloop
    have a1 : ¬ (m.lpe > m.len) := by omega
    have a2 : m.lps ≥ m.len ∨ m.lps ≥ m.lpe := by omega
    rw [if_neg a1, if_pos a2, hmask hz, hl.1, hl.2]

/-- **sample bodies**: `readBodies` on the written bodies of one instrument, followed by anything; the OXM probe
only looks at a sample's own stored bytes -/
theorem readBodies_bodies (ms : List Smp) (pre tail : Bytes) (hok : ∀ m ∈ ms, SmpOk m) :
    readBodies (pre ++ (bodies ms ++ tail)) (ms.map fun m => ({ m with pcm := [] }, m.len * frameBytes m.flg))
      pre.length = some ms := by
  induction ms generalizing pre with
  | nil => rfl
  | cons m ms ih =>
    have hm := hok m (by simp)
    have hst := smp_store_length hm
    have hpl : m.pcm.length = m.len * frameBytes m.flg := hm.2.2.2.2.2.2.1
    have hown : m.len ≥ 4 → ((storePcm m.flg m.len m.pcm).drop 4).take 4 ≠ str "OggS" := hm.2.2.2.2.2.2.2.2
    simp only [List.map_cons]
    rw [readBodies]
    by_cases hz : m.len = 0
    · have hp : m.pcm = [] := List.eq_nil_of_length_eq_zero (by rw [hpl, hz, Nat.zero_mul])
      have hs : storePcm m.flg m.len m.pcm = [] := List.eq_nil_of_length_eq_zero (by rw [hst, hz, Nat.zero_mul])
      simp only [if_pos hz]
      rw [bodies_cons, hs, List.nil_append, ih pre (fun q hq => hok q (by simp [hq]))]
      have e : ({ m with pcm := [] } : Smp) = m := by
        cases m; simp only at hp; subst hp; rfl
      rw [e]; rfl
    · have hdrop : (pre ++ (bodies (m :: ms) ++ tail)).drop pre.length = bodies (m :: ms) ++ tail :=
        List.drop_left' rfl
      have hfl : (pre ++ (bodies (m :: ms) ++ tail)).length =
          pre.length + (m.len * frameBytes m.flg + (bodies ms ++ tail).length) := by
        simp only [bodies_cons, List.length_append, hst]
        omega
      have hnoogg : ¬ (m.len ≥ 4 ∧ m.len * frameBytes m.flg ≥ 8 ∧
          ((pre ++ (bodies (m :: ms) ++ tail)).drop (pre.length + 4)).take 4 = str "OggS") := by
        rintro ⟨h4, h8, he⟩
        rw [drop_add, hdrop, bodies_cons, List.append_assoc, probe_own _ _ (by rw [hst]; exact h8)] at he
        exact hown h4 he
      have htake : ((pre ++ (bodies (m :: ms) ++ tail)).drop pre.length).take (m.len * frameBytes m.flg) =
          storePcm m.flg m.len m.pcm := by
        rw [hdrop, bodies_cons, List.append_assoc, List.take_left' hst]
      have hfile : pre ++ (bodies (m :: ms) ++ tail) = (pre ++ storePcm m.flg m.len m.pcm) ++ (bodies ms ++ tail) := by
        simp only [bodies_cons, List.append_assoc]
      simp only [if_neg hz]
      rw [if_neg hnoogg, if_neg (by rw [hfl]; omega)]
      simp only [htake, loopSanity_ok hm, loadPcm_storePcm _ _ _ hpl]
      have := ih (pre ++ storePcm m.flg m.len m.pcm) (fun q hq => hok q (by simp [hq]))
      rw [List.length_append, hst] at this
      rw [hfile, this]
      rfl

/-! ## the sample headers of one instrument -/

theorem decodeN_flatMap {α β : Type} (n : Nat) (dec : Bytes → β) (enc : α → Bytes) (l : List α) (rest : Bytes)
    (h : ∀ a ∈ l, (enc a).length = n) :
    decodeN n dec l.length (l.flatMap enc ++ rest) = l.map fun a => dec (enc a) := by
  induction l with
  | nil => rfl
  | cons a l ih =>
    have ha := h a (by simp)
    simp only [List.flatMap_cons, List.length_cons, decodeN, List.append_assoc, List.map_cons]
    rw [List.take_left' ha, List.drop_left' ha, ih (fun b hb => h b (by simp [hb]))]

/-- the raw headers the reader sees for samples `ms` with sub-instrument data `subs` -/
def rawHdrs (ms : List Smp) (subs : List Sub) : List SmpHdr :=
  (ms.zip subs).map fun p => decSmpHdr (encSmpHdr p.1 p.2)

theorem rawHdrs_cons (m : Smp) (ms : List Smp) (sub : Sub) (subs : List Sub) :
    rawHdrs (m :: ms) (sub :: subs) = decSmpHdr (encSmpHdr m sub) :: rawHdrs ms subs := rfl

theorem rawHdrs_length {ms : List Smp} {subs : List Sub} (hlen : ms.length = subs.length) :
    (rawHdrs ms subs).length = subs.length := by
  simp [rawHdrs, hlen]

theorem rawHdrs_smp {ms : List Smp} {subs : List Sub} (hlen : ms.length = subs.length) (hok : ∀ m ∈ ms, SmpOk m) :
    (rawHdrs ms subs).map (fun h => (hdrSmp h, h.length)) =
      ms.map fun m => ({ m with pcm := [] }, m.len * frameBytes m.flg) := by
  induction ms generalizing subs with
  | nil => rfl
  | cons m ms ih =>
    cases subs with
    | nil => simp at hlen
    | cons sub subs =>
      have hm := hok m (by simp)
      rw [rawHdrs_cons, List.map_cons, List.map_cons, hdrSmp_enc sub hm,
        ih (by simpa using hlen) (fun q hq => hok q (by simp [hq])), decSmpHdr_encSmpHdr sub hm]

theorem rawHdrs_sub {ms : List Smp} {subs : List Sub} (sid k : Nat) (hlen : ms.length = subs.length)
    (hok : ∀ m ∈ ms, SmpOk m) (hs : SubsOk (sid + k) subs) :
    ((rawHdrs ms subs).zipIdx k).map (fun (h, j) => hdrSub (sid + j) h) = subs := by
  induction ms generalizing subs k with
  | nil =>
    cases subs with
    | nil => rfl
    | cons sub subs => simp at hlen
  | cons m ms ih =>
    cases subs with
    | nil => simp at hlen
    | cons sub subs =>
      obtain ⟨h1, h2⟩ := hs
      rw [rawHdrs_cons, List.zipIdx_cons, List.map_cons]
      show hdrSub (sid + k) _ :: _ = _
      rw [hdrSub_enc m (hok m (by simp)) h1,
        ih (k + 1) (by simpa using hlen) (fun q hq => hok q (by simp [hq])) (by rwa [Nat.add_assoc] at h2)]

theorem rawHdrs_total {ms : List Smp} {subs : List Sub} (hlen : ms.length = subs.length) (hok : ∀ m ∈ ms, SmpOk m) :
    ((rawHdrs ms subs).map (·.length)).sum = (bodies ms).length := by
  induction ms generalizing subs with
  | nil => rfl
  | cons m ms ih =>
    cases subs with
    | nil => simp at hlen
    | cons sub subs =>
      have hm := hok m (by simp)
      rw [rawHdrs_cons, List.map_cons, List.sum_cons, decSmpHdr_encSmpHdr sub hm, bodies_cons, List.length_append,
        smp_store_length hm, ih (by simpa using hlen) (fun q hq => hok q (by simp [hq]))]

theorem rawHdrs_bounds {ms : List Smp} {subs : List Sub} (hok : ∀ m ∈ ms, SmpOk m) :
    ∀ h ∈ rawHdrs ms subs, h.length ≤ 0x400000 ∧ h.lstart ≤ 0x400000 ∧ h.llen ≤ 0x400000 ∧ h.reserved = 0 := by
  intro h hh
  simp only [rawHdrs, List.mem_map] at hh
  obtain ⟨p, hp, rfl⟩ := hh
  have hm := hok p.1 (List.of_mem_zip hp).1
  have hf := frameBytes_pos p.1.flg
  have hl := smp_loop hm
  have hlen : p.1.len ≤ 0x100000 := hm.2.2.2.2.2.1
  rw [decSmpHdr_encSmpHdr p.2 hm]
  have b1 : p.1.len * frameBytes p.1.flg ≤ 0x100000 * 4 := Nat.mul_le_mul hlen hf.2
  have b2 : p.1.lps * frameBytes p.1.flg ≤ 0x100000 * 4 := Nat.mul_le_mul (by omega) hf.2
  have b3 : (p.1.lpe - p.1.lps) * frameBytes p.1.flg ≤ 0x100000 * 4 := Nat.mul_le_mul (by omega) hf.2
  exact ⟨b1, b2, b3, rfl⟩

theorem hdrBytes_length (ms : List Smp) (subs : List Sub) :
    ((ms.zip subs).flatMap fun (m, sub) => encSmpHdr m sub).length = 40 * (ms.zip subs).length := by
  induction (ms.zip subs) with
  | nil => rfl
  | cons p l ih => simp only [List.flatMap_cons, List.length_append, encSmpHdr_length, ih, List.length_cons]; omega

/-! ## key map, sample numbering -/

theorem eq_replicate_zero {l : List Nat} {n : Nat} (hl : l.length = n) (h : ∀ k ∈ l, k = 0) :
    l = List.replicate n 0 := by
  rw [List.eq_replicate_iff]; exact ⟨hl, h⟩

theorem keymapOf_written {sid : Nat} {x : Ins} (h : InsOk sid x) (hne : x.subs ≠ []) (rest : Bytes) :
    keymapOf x.subs.length true (((x.keymap.drop 12).take 96).map u8 ++ rest) = x.keymap := by
  obtain ⟨-, hn, -, hk⟩ := h
  rw [if_neg hne] at hk
  obtain ⟨hl, h1, h2, h3⟩ := hk
  have hmid : ((x.keymap.drop 12).take 96).length = 96 := by
    rw [List.length_take, List.length_drop, hl]; rfl
  have e1 : x.keymap.take 12 = List.replicate 12 0 :=
    eq_replicate_zero (by rw [List.length_take, hl]; rfl) h1
  have e2 : x.keymap.drop 108 = List.replicate 13 0 :=
    eq_replicate_zero (by rw [List.length_drop, hl]) h2
  have e3 : (((x.keymap.drop 12).take 96).map u8).map (fun k => if k.toNat ≥ x.subs.length then 0xff else k.toNat) =
      (x.keymap.drop 12).take 96 := by
    rw [List.map_map]
    conv => rhs; rw [← List.map_id ((x.keymap.drop 12).take 96)]
    apply List.map_congr_left
    intro k hk
    have := h3 k hk
    simp only [Function.comp, id]
    rw [u8_toNat_lt (by omega), if_neg (by omega)]
  have e4 : x.keymap = x.keymap.take 12 ++ ((x.keymap.drop 12).take 96 ++ x.keymap.drop 108) := by
    have : x.keymap.drop 108 = (x.keymap.drop 12).drop 96 := by rw [List.drop_drop]
    rw [this, List.take_append_drop, List.take_append_drop]
  unfold keymapOf
  simp only [if_true]
  rw [List.take_left' (by rw [List.length_map, hmid]), e3, ← e1, ← e2, List.append_assoc]
  exact e4.symm

theorem insSmps_eq {sid : Nat} {subs : List Sub} (smps : List Smp) (hs : SubsOk sid subs)
    (hle : sid + subs.length ≤ smps.length) :
    subs.map (fun sub => smps.getD sub.sid default) = (smps.drop sid).take subs.length := by
  induction subs generalizing sid with
  | nil => simp
  | cons sub subs ih =>
    obtain ⟨h1, h2⟩ := hs
    simp only [List.length_cons] at hle
    have hlt : sid < smps.length := by omega
    rw [List.map_cons, ih h2 (by omega), h1.1, List.length_cons, List.getD_eq_getElem?_getD,
      List.getElem?_eq_getElem hlt, Option.getD_some]
    rw [List.drop_eq_getElem_cons hlt, List.take_succ_cons]

/-! ## instrument headers -/

theorem insHdr_fields (size nsm : Nat) (nm c : Bytes) (t : UInt8) (hn : nm.length = 22) (hc : c.length = 4) :
    (le32 size ++ (nm ++ ([t] ++ (le16 nsm ++ c)))).take 4 = le32 size ∧
    ((le32 size ++ (nm ++ ([t] ++ (le16 nsm ++ c)))).drop 4).take 22 = nm ∧
    ((le32 size ++ (nm ++ ([t] ++ (le16 nsm ++ c)))).drop 27).take 2 = le16 nsm ∧
    ((le32 size ++ (nm ++ ([t] ++ (le16 nsm ++ c)))).drop 29).take 4 = c := by
  refine ⟨List.take_left' rfl, ?_, ?_, ?_⟩
  · rw [List.drop_left' (le32_length size), List.take_left' hn]
  · have e : le32 size ++ (nm ++ ([t] ++ (le16 nsm ++ c))) = (le32 size ++ nm ++ [t]) ++ (le16 nsm ++ c) := by
      simp only [List.append_assoc]
    rw [e, List.drop_left' (by simp [hn, le32_length]), List.take_left' (le16_length nsm)]
  · have e : le32 size ++ (nm ++ ([t] ++ (le16 nsm ++ c))) = (le32 size ++ nm ++ [t] ++ le16 nsm) ++ c := by
      simp only [List.append_assoc]
    rw [e, List.drop_left' (by simp [hn, le32_length, le16_length]), List.take_of_length_le (by omega)]

theorem insHdr_length (size nsm : Nat) (nm c : Bytes) (t : UInt8) (hn : nm.length = 22) :
    (le32 size ++ (nm ++ ([t] ++ (le16 nsm ++ c)))).length = 29 + c.length := by
  simp only [List.length_append, le32_length, le16_length, hn, List.length_cons, List.length_nil]
  omega

theorem padTo_self {n : Nat} {b : Bytes} (h : b.length = n) : padTo n b = b := by
  unfold padTo; exact List.take_left' h

/-- a 29-byte header followed by anything: the 33-byte window, zero padded, keeps the 29 bytes -/
theorem padTo33_prefix (a t : Bytes) (ha : a.length = 29) :
    29 ≤ ((a ++ t).take 33).length ∧ ∃ c, c.length = 4 ∧ padTo 33 ((a ++ t).take 33) = a ++ c := by
  have e : (a ++ t).take 33 = a ++ t.take 4 := by
    rw [List.take_append, List.take_of_length_le (by omega), ha]
  rw [e]
  refine ⟨by simp [ha], ((t.take 4 ++ List.replicate 33 0).take 4), by simp, ?_⟩
  unfold padTo
  rw [List.append_assoc, List.take_append, List.take_of_length_le (by omega), ha]

/-- one step of `readIns` over an instrument without samples (`size` ≥ 29 header bytes in total) -/
theorem readIns_step_empty (n sid size : Nat) (file pre nm ext rest : Bytes)
    (hfile : file = pre ++ (le32 size ++ (padTo 22 nm ++ ([0] ++ (le16 0 ++ (ext ++ rest))))))
    (hsz1 : 29 ≤ size) (hsz2 : size < 0x80000000) (hext : ext.length = size - 29) (hname : NameOk 22 nm) :
    readIns file (n + 1) pre.length sid =
      (readIns file n (pre.length + size) sid).map fun (is, ss) => ({ name := nm, subs := [] } :: is, ss) := by
  have hn22 := padTo_length 22 nm
  have hdrop : file.drop pre.length = (le32 size ++ (padTo 22 nm ++ ([0] ++ le16 0))) ++ (ext ++ rest) := by
    rw [hfile, List.drop_left' rfl]; simp only [List.append_assoc]
  have hA : (le32 size ++ (padTo 22 nm ++ ([0] ++ le16 0))).length = 29 := by
    have := insHdr_length size 0 (padTo 22 nm) [] 0 hn22
    simpa using this
  obtain ⟨hge, c, hc, hpad⟩ := padTo33_prefix _ (ext ++ rest) hA
  have hpad' : padTo 33 ((file.drop pre.length).take 33) =
      le32 size ++ (padTo 22 nm ++ ([0] ++ (le16 0 ++ c))) := by
    rw [hdrop, hpad]; simp only [List.append_assoc]
  obtain ⟨f1, f2, f3, -⟩ := insHdr_fields size 0 (padTo 22 nm) c 0 hn22 hc
  have hlen : file.length = pre.length + (29 + (ext.length + rest.length)) := by
    rw [hfile]
    simp only [List.length_append, le32_length, le16_length, hn22, List.length_cons, List.length_nil]
    omega
  rw [readIns]
  simp only [hpad', f1, f2, f3, rd32le_le32 (show size < 4294967296 by omega), rd16le_le16 (show 0 < 65536 by omega),
    copyAdjust_padTo hname, adjustString_self hname]
  rw [← hdrop] at hge
  rw [if_neg (by omega), if_neg (by omega), if_neg (by omega), if_neg (by omega), if_pos trivial,
    if_neg (by rw [hlen]; omega)]

/-- the written sample headers of one instrument -/
def hdrBytes (ms : List Smp) (subs : List Sub) : Bytes := (ms.zip subs).flatMap fun p => encSmpHdr p.1 p.2

theorem hdrBytes_length' {ms : List Smp} {subs : List Sub} {nsm : Nat} (hms : ms.length = nsm) (hsubs : subs.length = nsm) :
    (hdrBytes ms subs).length = 40 * nsm := by
  have := hdrBytes_length ms subs
  have e : (fun (x : Smp × Sub) => match x with | (m, sub) => encSmpHdr m sub) = fun p => encSmpHdr p.1 p.2 := by
    funext p; cases p; rfl
  rw [e] at this
  rw [hdrBytes, this, List.length_zip, hms, hsubs, Nat.min_self]

theorem decodeN_hdrBytes {ms : List Smp} {subs : List Sub} {nsm : Nat} (hms : ms.length = nsm) (hsubs : subs.length = nsm) :
    decodeN 40 decSmpHdr nsm (hdrBytes ms subs) = rawHdrs ms subs := by
  have hl : (ms.zip subs).length = nsm := by rw [List.length_zip, hms, hsubs, Nat.min_self]
  have := decodeN_flatMap 40 decSmpHdr (fun p : Smp × Sub => encSmpHdr p.1 p.2) (ms.zip subs) []
    (fun p _ => encSmpHdr_length p.1 p.2)
  rw [List.append_nil, hl] at this
  exact this

/-- one step of `readIns` over an instrument with samples `ms`: header of `size` bytes (33 fixed bytes + `ext`),
the sample headers, the sample bodies, then `rest` -/
theorem readIns_step_smp (n sid size nsm shsz : Nat) (file pre nm ext rest : Bytes) (ms : List Smp) (subs : List Sub)
    (hfile : file = pre ++ (le32 size ++ (padTo 22 nm ++ ([0] ++ (le16 nsm ++ (le32 shsz ++
      (ext ++ (hdrBytes ms subs ++ (bodies ms ++ rest)))))))))
    (hsz1 : 33 ≤ size) (hsz2 : size < 0x80000000) (hext : ext.length = size - 33)
    (hn1 : 1 ≤ nsm) (hn2 : nsm ≤ 32) (hshsz : shsz ≤ 0x100) (hms : ms.length = nsm) (hsubs : subs.length = nsm)
    (hok : ∀ m ∈ ms, SmpOk m) (hsub : SubsOk sid subs) (hname : NameOk 22 nm) :
    readIns file (n + 1) pre.length sid =
      (readIns file n (pre.length + size + 40 * nsm + (bodies ms).length) (sid + nsm)).map fun (is, ss) =>
        ({ name := nm, subs := subs,
           keymap := keymapOf nsm (decide (size ≥ 241)) (ext ++ (hdrBytes ms subs ++ (bodies ms ++ rest))) } :: is,
         ms ++ ss) := by
  have hn22 := padTo_length 22 nm
  have hHB := hdrBytes_length' hms hsubs
  have hlenms : ms.length = subs.length := by rw [hms, hsubs]
  -- the 33 fixed bytes
  have hH : (le32 size ++ (padTo 22 nm ++ ([0] ++ (le16 nsm ++ le32 shsz)))).length = 33 :=
    insHdr_length size nsm (padTo 22 nm) (le32 shsz) 0 hn22
  have hdrop : file.drop pre.length = (le32 size ++ (padTo 22 nm ++ ([0] ++ (le16 nsm ++ le32 shsz)))) ++
      (ext ++ (hdrBytes ms subs ++ (bodies ms ++ rest))) := by
    rw [hfile, List.drop_left' rfl]; simp only [List.append_assoc]
  have hh0 : (file.drop pre.length).take 33 = le32 size ++ (padTo 22 nm ++ ([0] ++ (le16 nsm ++ le32 shsz))) := by
    rw [hdrop, List.take_left' hH]
  obtain ⟨f1, f2, f3, f4⟩ := insHdr_fields size nsm (padTo 22 nm) (le32 shsz) 0 hn22 rfl
  have hd33 : file.drop (pre.length + 33) = ext ++ (hdrBytes ms subs ++ (bodies ms ++ rest)) := by
    rw [drop_add, hdrop, List.drop_left' hH]
  have hdsz : file.drop (pre.length + size) = hdrBytes ms subs ++ (bodies ms ++ rest) := by
    rw [show pre.length + size = pre.length + 33 + (size - 33) by omega, drop_add, hd33, List.drop_left' hext]
  have hfile2 : file = (pre ++ (le32 size ++ (padTo 22 nm ++ ([0] ++ (le16 nsm ++ le32 shsz)))) ++ ext ++ hdrBytes ms subs) ++
      (bodies ms ++ rest) := by
    rw [hfile]; simp only [List.append_assoc]
  have hpre2 : (pre ++ (le32 size ++ (padTo 22 nm ++ ([0] ++ (le16 nsm ++ le32 shsz)))) ++ ext ++ hdrBytes ms subs).length =
      pre.length + size + 40 * nsm := by
    simp only [List.length_append, hH, hext, hHB]; omega
  have hlen : file.length = pre.length + size + 40 * nsm + ((bodies ms).length + rest.length) := by
    rw [hfile2, List.length_append, hpre2, List.length_append]
  have hbodies : readBodies file ((rawHdrs ms subs).map fun h => (hdrSmp h, h.length))
      (pre.length + size + 40 * nsm) = some ms := by
    rw [rawHdrs_smp hlenms hok, ← hpre2, hfile2]
    exact readBodies_bodies ms _ rest hok
  have hb := rawHdrs_bounds (subs := subs) hok
  have c1 : ((rawHdrs ms subs).any fun h => decide (h.length > 0x10000000)) = false := by
    rw [List.any_eq_false]; intro h hh; have := hb h hh; simp only [decide_eq_true_eq]; omega
  have c2 : ((rawHdrs ms subs).any fun h =>
      decide (h.lstart ≥ 0x80000000 ∨ h.llen ≥ 0x80000000 ∨ h.lstart + h.llen ≥ 0x80000000)) = false := by
    rw [List.any_eq_false]; intro h hh; have := hb h hh; simp only [decide_eq_true_eq]; omega
  have c3 : ((rawHdrs ms subs).any fun h => decide (h.reserved = 0xad)) = false := by
    rw [List.any_eq_false]; intro h hh; have := hb h hh; simp only [decide_eq_true_eq]; omega
  have hsubs' := rawHdrs_sub sid 0 hlenms hok (by simpa using hsub)
  rw [readIns]
  simp only [hh0, padTo_self hH, f1, f2, f3, f4, rd32le_le32 (show size < 4294967296 by omega),
    rd32le_le32 (show shsz < 4294967296 by omega), rd16le_le16 (show nsm < 65536 by omega),
    copyAdjust_padTo hname, adjustString_self hname, hd33, hdsz, List.take_left' hHB, decodeN_hdrBytes hms hsubs,
    c1, c2, c3, hbodies, rawHdrs_total hlenms hok, hsubs']
  rw [if_neg (by omega), if_neg (by omega), if_neg (by omega), if_neg (by omega), if_neg (by omega),
    if_neg (by simp only [decide_eq_true_eq, List.length_append, hext]; omega),
    if_neg (by omega)]
  simp only [Bool.false_eq_true, if_false]
  rw [if_neg (by rw [hlen]; omega)]

/-! ## the instrument list -/

/-- the instrument blocks of the file (recursive form of the `zipIdx.flatMap` in `write`) -/
def encInss (o : Opts) (smps : List Smp) : List Ins → Nat → Bytes
  | [], _ => []
  | x :: xs, i => encIns o x (insSmps smps x) (o.insSize i) (1000 * i) ++ encInss o smps xs (i + 1)

theorem flatMap_encIns (o : Opts) (smps : List Smp) (xs : List Ins) (k : Nat) :
    ((xs.zipIdx k).flatMap fun (x, i) => encIns o x (insSmps smps x) (o.insSize i) (1000 * i)) = encInss o smps xs k := by
  induction xs generalizing k with
  | nil => rfl
  | cons x xs ih => simp only [List.zipIdx_cons, List.flatMap_cons, encInss, ih]

/-- bytes after the 29-byte header of an instrument without samples -/
def emptyExt (o : Opts) (seed : Nat) : Bytes :=
  if o.emptyInsSize ≥ 33 then le32 40 ++ (List.range (o.emptyInsSize - 33)).map (fun k => o.filler (seed + k))
  else (List.range (o.emptyInsSize - 29)).map (fun k => o.filler (seed + k))

theorem encIns_empty (o : Opts) (x : Ins) (ms : List Smp) (sz seed : Nat) (h : x.subs = []) :
    encIns o x ms sz seed =
      le32 o.emptyInsSize ++ (padTo 22 x.name ++ ([0] ++ (le16 0 ++ emptyExt o seed))) := by
  simp only [encIns, h, List.isEmpty_nil, if_true, emptyExt, List.append_assoc]

theorem emptyExt_length (o : Opts) (seed : Nat) (_h : 29 ≤ o.emptyInsSize) :
    (emptyExt o seed).length = o.emptyInsSize - 29 := by
  unfold emptyExt
  split
  · simp only [List.length_append, le32_length, List.length_map, List.length_range]; omega
  · simp only [List.length_map, List.length_range]

/-- key map bytes + envelope / vibrato / reserved filler of an instrument with samples -/
def smpExt (o : Opts) (x : Ins) (sz seed : Nat) : Bytes :=
  if sz ≥ 241 then ((x.keymap.drop 12).take 96).map u8 ++ (List.range (sz - 129)).map (fun k => o.filler (seed + k))
  else (List.range (sz - 33)).map (fun k => o.filler (seed + k))

theorem encIns_smp (o : Opts) (x : Ins) (ms : List Smp) (sz seed : Nat) (h : x.subs ≠ []) :
    encIns o x ms sz seed =
      le32 sz ++ (padTo 22 x.name ++ ([0] ++ (le16 x.subs.length ++ (le32 40 ++
        (smpExt o x sz seed ++ (hdrBytes ms x.subs ++ (bodies ms ++ [] ))))))) := by
  have hne : x.subs.isEmpty = false := by
    cases hs : x.subs with
    | nil => exact absurd hs h
    | cons a l => rfl
  simp only [encIns, hne, Bool.false_eq_true, if_false, smpExt, hdrBytes, bodies, List.append_assoc, List.append_nil]

theorem smpExt_length {sid : Nat} {x : Ins} (o : Opts) (sz seed : Nat) (h : InsOk sid x) (hne : x.subs ≠ [])
    (_hsz : 33 ≤ sz) : (smpExt o x sz seed).length = sz - 33 := by
  obtain ⟨-, -, -, hk⟩ := h
  rw [if_neg hne] at hk
  unfold smpExt
  split
  · simp only [List.length_append, List.length_map, List.length_take, List.length_drop, hk.1, List.length_range]
    omega
  · simp only [List.length_map, List.length_range]

theorem isEmpty_false {x : Ins} (h : x.subs ≠ []) : x.subs.isEmpty = false := by
  cases hs : x.subs with
  | nil => exact absurd hs h
  | cons a l => rfl

/-- the key map read back: the written one for a full header, all zero for a stripped header -/
theorem keymap_read {sid : Nat} {x : Ins} (o : Opts) (i seed : Nat) (h : InsOk sid x) (hne : x.subs ≠ [])
    (hs : SizeOk o x i) (rest : Bytes) :
    keymapOf x.subs.length (decide (o.insSize i ≥ 241)) (smpExt o x (o.insSize i) seed ++ rest) = x.keymap := by
  by_cases hf : o.insSize i ≥ 241
  · unfold smpExt
    rw [if_pos hf, List.append_assoc, decide_eq_true hf]
    exact keymapOf_written h hne _
  · have hz := (hs hne).2.2 (by omega)
    have hl : x.keymap.length = 121 := by
      have := h.2.2.2; rw [if_neg hne] at this; exact this.1
    rw [decide_eq_false hf, eq_replicate_zero hl hz]
    rfl

theorem inssOk_cons {sid : Nat} {x : Ins} {xs : List Ins} :
    InssOk sid (x :: xs) ↔ InsOk sid x ∧ InssOk (sid + x.subs.length) xs := Iff.rfl

/-- **instruments**: the reader walks over the written instrument blocks up to the end of the file and returns
the instruments and all remaining samples -/
theorem readIns_encInss (o : Opts) (smps : List Smp) (xs : List Ins) (i sid : Nat) (pre : Bytes)
    (ho : 29 ≤ o.emptyInsSize) (ho2 : o.emptyInsSize < 0x80000000)
    (hx : InssOk sid xs) (hlen : sid + (xs.map (·.subs.length)).sum = smps.length)
    (hok : ∀ m ∈ smps, SmpOk m) (hsz : ∀ p ∈ xs.zipIdx i, SizeOk o p.1 p.2) :
    readIns (pre ++ encInss o smps xs i) xs.length pre.length sid = some (xs, smps.drop sid) := by
  induction xs generalizing i sid pre with
  | nil =>
    simp only [List.map_nil, List.sum_nil, Nat.add_zero] at hlen
    simp [readIns, hlen]
  | cons x xs ih =>
    obtain ⟨hx1, hx2⟩ := inssOk_cons.1 hx
    simp only [List.map_cons, List.sum_cons] at hlen
    have hsz1 : SizeOk o x i := hsz (x, i) (by simp [List.zipIdx_cons])
    have hsz2 : ∀ p ∈ xs.zipIdx (i + 1), SizeOk o p.1 p.2 := fun p hp => hsz p (by simp [List.zipIdx_cons, hp])
    have hfile2 : pre ++ encInss o smps (x :: xs) i =
        (pre ++ encIns o x (insSmps smps x) (o.insSize i) (1000 * i)) ++ encInss o smps xs (i + 1) := by
      simp only [encInss, List.append_assoc]
    by_cases hs : x.subs = []
    · -- no samples
      have hfile : pre ++ encInss o smps (x :: xs) i = pre ++ (le32 o.emptyInsSize ++ (padTo 22 x.name ++ ([0] ++
          (le16 0 ++ (emptyExt o (1000 * i) ++ encInss o smps xs (i + 1)))))) := by
        simp only [encInss, encIns_empty _ _ _ _ _ hs, List.append_assoc]
      have hel := emptyExt_length o (1000 * i) ho
      rw [List.length_cons, readIns_step_empty xs.length sid o.emptyInsSize _ pre x.name _ _ hfile ho ho2 hel hx1.1]
      have hpl : (pre ++ encIns o x (insSmps smps x) (o.insSize i) (1000 * i)).length = pre.length + o.emptyInsSize := by
        rw [encIns_empty _ _ _ _ _ hs]
        simp only [List.length_append, le32_length, le16_length, padTo_length, hel, List.length_cons, List.length_nil]
        omega
      rw [hs] at hx2 hlen
      have := ih (i + 1) sid (pre ++ encIns o x (insSmps smps x) (o.insSize i) (1000 * i)) hx2 (by simpa using hlen)
        hsz2
      rw [hpl] at this
      rw [hfile2, this]
      have hkm : x.keymap = [] := by
        have := hx1.2.2.2; rwa [if_pos hs] at this
      cases x
      simp only at hs hkm
      subst hs hkm
      rfl
    · -- with samples
      obtain ⟨hs33, hs31, -⟩ := hsz1 hs
      have hnsm1 : 1 ≤ x.subs.length := by
        cases hq : x.subs with
        | nil => exact absurd hq hs
        | cons a l => simp
      have hle : sid + x.subs.length ≤ smps.length := by omega
      have hms : insSmps smps x = (smps.drop sid).take x.subs.length := insSmps_eq smps hx1.2.2.1 hle
      have hmsl : (insSmps smps x).length = x.subs.length := by simp [insSmps]
      have hokm : ∀ m ∈ insSmps smps x, SmpOk m := by
        intro m hm
        rw [hms] at hm
        exact hok m (List.mem_of_mem_drop (List.mem_of_mem_take hm))
      have hfile : pre ++ encInss o smps (x :: xs) i = pre ++ (le32 (o.insSize i) ++ (padTo 22 x.name ++ ([0] ++
          (le16 x.subs.length ++ (le32 40 ++ (smpExt o x (o.insSize i) (1000 * i) ++
            (hdrBytes (insSmps smps x) x.subs ++ (bodies (insSmps smps x) ++ encInss o smps xs (i + 1))))))))) := by
        simp only [encInss, encIns_smp _ _ _ _ _ hs, List.append_assoc, List.nil_append]
      have hel := smpExt_length o (o.insSize i) (1000 * i) hx1 hs hs33
      rw [List.length_cons, readIns_step_smp xs.length sid (o.insSize i) x.subs.length 40 _ pre x.name _ _ _ x.subs hfile
        hs33 hs31 hel hnsm1 hx1.2.1 (by omega) hmsl rfl hokm hx1.2.2.1 hx1.1]
      have hpl : (pre ++ encIns o x (insSmps smps x) (o.insSize i) (1000 * i)).length =
          pre.length + o.insSize i + 40 * x.subs.length + (bodies (insSmps smps x)).length := by
        rw [encIns_smp _ _ _ _ _ hs]
        simp only [List.length_append, le32_length, le16_length, padTo_length, hel, List.length_cons, List.length_nil,
          hdrBytes_length' hmsl rfl]
        omega
      have := ih (i + 1) (sid + x.subs.length) (pre ++ encIns o x (insSmps smps x) (o.insSize i) (1000 * i)) hx2
        (by omega) hsz2
      rw [hpl] at this
      rw [hfile2, this]
      have hkm := keymap_read o i (1000 * i) hx1 hs hsz1
        (hdrBytes (insSmps smps x) x.subs ++ (bodies (insSmps smps x) ++ encInss o smps xs (i + 1)))
      have hsm : insSmps smps x ++ smps.drop (sid + x.subs.length) = smps.drop sid := by
        rw [hms, ← List.drop_drop, List.take_append_drop]
      simp only [Option.map_some, hkm, hsm]

/-! ## the reader on a file whose parts are known -/

theorem read_eq_some {bs : Bytes} {hsz songlen chn npat nins tempo bpm pos : Nat}
    {pats : List Pat} {ins : List Ins} {smps : List Smp}
    (hlen : 80 ≤ bs.length) (hmagic : bs.take 17 = str "Extended Module: ")
    (hmed : (bs.drop 38).take 6 ≠ str "MED2XM")
    (hver : rd16le ((bs.drop 58).take 2) = 0x0104) (hhsz : rd32le ((bs.drop 60).take 4) = hsz)
    (hsl : rd16le ((bs.drop 64).take 2) = songlen) (hchn : rd16le ((bs.drop 68).take 2) = chn)
    (hnp : rd16le ((bs.drop 70).take 2) = npat) (hni : rd16le ((bs.drop 72).take 2) = nins)
    (htempo : rd16le ((bs.drop 76).take 2) = tempo) (hbpm : rd16le ((bs.drop 78).take 2) = bpm)
    (r1 : songlen ≤ 256) (r2 : npat ≤ 256) (r3 : nins ≤ 255) (r4 : 1 ≤ chn ∧ chn ≤ 64)
    (r5 : tempo < 32) (r6 : 32 ≤ bpm ∧ bpm ≤ 1000) (r7 : 20 < hsz ∧ hsz ≤ 276) (r8 : 80 + (hsz - 20) ≤ bs.length)
    (hpats : readPats chn bs npat (60 + hsz) = some (pats, pos))
    (hins : readIns bs nins pos 0 = some (ins, smps)) :
    read bs = some
      { name := adjustString (cstr ((bs.drop 17).take 20)), chn := chn,
        orders := fixOrders (npat + 1) (((bs.drop 80).take (hsz - 20) ++ List.replicate 256 0).take songlen),
        pats := pats ++ [{ rows := 64, cells := List.replicate (64 * chn) {} }],
        ins := ins, smps := smps.map obsLoop, spd := fixSpd tempo, bpm := fixBpm bpm } := by
  unfold read
  simp only [hver, hhsz, hsl, hchn, hnp, hni, htempo, hbpm, hpats, hins, Option.bind_eq_bind, Option.bind_some]
  rw [if_neg (by omega), if_neg (by simp [hmagic]), if_neg (by omega), if_neg (by omega), if_neg (by simp [hmed]), if_neg (by omega),
    if_neg (by omega), if_neg (by omega), if_neg (by omega)]

/-! ## the song header -/

theorem magic_length : (str "Extended Module: ").length = 17 := by decide +kernel
theorem med_eq : str "MED2XM" = [77, 69, 68, 50, 88, 77] := by decide +kernel

theorem padTo_take_ne_med {t : Bytes} (h : t.take 6 ≠ str "MED2XM") : (padTo 20 t).take 6 ≠ str "MED2XM" := by
  rw [med_eq] at h ⊢
  unfold padTo
  rw [List.take_take]
  match t, h with
  | [], _ => decide
  | [a], _ => simp [List.replicate]
  | [a, b], _ => simp [List.replicate]
  | [a, b, c], _ => simp [List.replicate]
  | [a, b, c, d], _ => simp [List.replicate]
  | [a, b, c, d, e], _ => simp [List.replicate]
  | a :: b :: c :: d :: e :: f :: r, h => simpa using h

def hdr60 (s : Module) (o : Opts) : Bytes :=
  str "Extended Module: " ++ (padTo 20 s.name ++ ([0x1a] ++ (padTo 20 o.tracker ++ le16 0x0104)))

def hdr20 (s : Module) (o : Opts) : Bytes :=
  le32 o.hsz ++ (le16 s.orders.length ++ (le16 o.restart ++ (le16 s.chn ++ (le16 s.pats.length ++
    (le16 s.ins.length ++ (le16 o.flags ++ (le16 s.spd ++ le16 s.bpm)))))))

theorem hdr60_length (s : Module) (o : Opts) : (hdr60 s o).length = 60 := by
  simp only [hdr60, List.length_append, magic_length, padTo_length, le16_length, List.length_cons, List.length_nil]

theorem hdr20_length (s : Module) (o : Opts) : (hdr20 s o).length = 20 := rfl

theorem write_eq (s : Module) (o : Opts) :
    write s o = hdr60 s o ++ (hdr20 s o ++ (padTo (o.hsz - 20) s.orders ++
      (encPats o s.pats 0 ++ encInss o s.smps s.ins 0))) := by
  simp only [write, hdr60, hdr20, List.append_assoc, ← flatMap_encIns]

/-- the fixed fields of the song header, read back at their absolute offsets -/
theorem write_fields (s : Module) (o : Opts) :
    (write s o).take 17 = str "Extended Module: " ∧
    ((write s o).drop 17).take 20 = padTo 20 s.name ∧
    ((write s o).drop 38).take 6 = (padTo 20 o.tracker).take 6 ∧
    ((write s o).drop 58).take 2 = le16 0x0104 ∧
    ((write s o).drop 60).take 4 = le32 o.hsz ∧
    ((write s o).drop 64).take 2 = le16 s.orders.length ∧
    ((write s o).drop 68).take 2 = le16 s.chn ∧
    ((write s o).drop 70).take 2 = le16 s.pats.length ∧
    ((write s o).drop 72).take 2 = le16 s.ins.length ∧
    ((write s o).drop 76).take 2 = le16 s.spd ∧
    ((write s o).drop 78).take 2 = le16 s.bpm ∧
    ((write s o).drop 80).take (o.hsz - 20) = padTo (o.hsz - 20) s.orders := by
  have hd60 : (write s o).drop 60 = hdr20 s o ++ (padTo (o.hsz - 20) s.orders ++
      (encPats o s.pats 0 ++ encInss o s.smps s.ins 0)) := by
    rw [write_eq, List.drop_left' (hdr60_length s o)]
  have hn := padTo_length 20 s.name
  have ht := padTo_length 20 o.tracker
  refine ⟨?_, ?_, ?_, ?_, ?_, ?_, ?_, ?_, ?_, ?_, ?_, ?_⟩
  · rw [write_eq, hdr60, List.append_assoc, List.take_left' magic_length]
  · rw [write_eq, hdr60, List.append_assoc, List.drop_left' magic_length, List.append_assoc, List.take_left' hn]
  · have e : write s o = (str "Extended Module: " ++ padTo 20 s.name ++ [0x1a]) ++
        (padTo 20 o.tracker ++ (le16 0x0104 ++ (hdr20 s o ++ (padTo (o.hsz - 20) s.orders ++
          (encPats o s.pats 0 ++ encInss o s.smps s.ins 0))))) := by
      rw [write_eq, hdr60]; simp only [List.append_assoc]
    rw [e, List.drop_left' (by simp [magic_length, hn]), List.take_append_of_le_length (by omega)]
  · have e : write s o = (str "Extended Module: " ++ padTo 20 s.name ++ [0x1a] ++ padTo 20 o.tracker) ++
        (le16 0x0104 ++ (hdr20 s o ++ (padTo (o.hsz - 20) s.orders ++
          (encPats o s.pats 0 ++ encInss o s.smps s.ins 0)))) := by
      rw [write_eq, hdr60]; simp only [List.append_assoc]
    rw [e, List.drop_left' (by simp [magic_length, hn, ht]), List.take_left' (le16_length _)]
  · rw [hd60]; rfl
  · rw [show 64 = 60 + 4 from rfl, drop_add, hd60]; rfl
  · rw [show 68 = 60 + 8 from rfl, drop_add, hd60]; rfl
  · rw [show 70 = 60 + 10 from rfl, drop_add, hd60]; rfl
  · rw [show 72 = 60 + 12 from rfl, drop_add, hd60]; rfl
  · rw [show 76 = 60 + 16 from rfl, drop_add, hd60]; rfl
  · rw [show 78 = 60 + 18 from rfl, drop_add, hd60]; rfl
  · rw [show 80 = 60 + 20 from rfl, drop_add, hd60, List.drop_left' (hdr20_length s o),
      List.take_left' (padTo_length _ _)]

/-! ## the whole file -/

theorem obsLoop_self {m : Smp} (h : SmpOk m) : obsLoop m = m := by
  obtain ⟨-, -, -, -, hfs⟩ := smp_flags h
  obtain ⟨-, hsus, hsue, -, -, -, -, hl, -⟩ := h
  cases m with
  | mk name len lps lpe flg sus sue pcm =>
    simp only at hfs hsus hsue hl
    subst hsus hsue
    unfold obsLoop
    by_cases hloop : flg &&& FLOOP = 0
    · rw [if_neg (by simpa using hloop)] at hl
      obtain ⟨rfl, rfl⟩ := hl
      simp only [hloop, if_true, hfs]
    · simp only [hloop, if_false, hfs, if_true]

theorem take_padTo_orders {n : Nat} {b : Bytes} (h : b.length ≤ n) (r : Bytes) :
    (padTo n b ++ r).take b.length = b := by
  rw [padTo_eq h, List.append_assoc, List.take_left' rfl]

/-- **XM whole-file round trip**: the loader model reads every file the independent writer produces for a
well-formed song, whatever the options, back to the song (plus libxmp's extra empty pattern). -/
theorem roundtrip (s : Module) (o : Opts) (h : WellFormed s o) : read (write s o) = some (loaded s) := by
  obtain ⟨hname, hmed, hchn, holen, hoplay, hnpat, hpats, hnins, hinss, hsmpl, hsmps, hspd, hbpm, heis, -, -,
    hhsz, hsizes⟩ := h
  obtain ⟨f0, f1, f2, f3, f4, f5, f6, f7, f8, f9, f10, f11⟩ := write_fields s o
  have hplen : (hdr60 s o ++ (hdr20 s o ++ padTo (o.hsz - 20) s.orders)).length = 60 + o.hsz := by
    simp only [List.length_append, hdr60_length, hdr20_length, padTo_length]; omega
  have hw2 : write s o = (hdr60 s o ++ (hdr20 s o ++ padTo (o.hsz - 20) s.orders)) ++
      (encPats o s.pats 0 ++ encInss o s.smps s.ins 0) := by
    rw [write_eq]; simp only [List.append_assoc]
  have hw3 : write s o = ((hdr60 s o ++ (hdr20 s o ++ padTo (o.hsz - 20) s.orders)) ++ encPats o s.pats 0) ++
      encInss o s.smps s.ins 0 := by
    rw [hw2]; simp only [List.append_assoc]
  have hwlen : 60 + o.hsz ≤ (write s o).length := by
    rw [hw2, List.length_append, hplen]; omega
  have hP : readPats s.chn (write s o) s.pats.length (60 + o.hsz) =
      some (s.pats, ((hdr60 s o ++ (hdr20 s o ++ padTo (o.hsz - 20) s.orders)) ++ encPats o s.pats 0).length) := by
    have := readPats_encPats o hchn.1 s.pats 0 (hdr60 s o ++ (hdr20 s o ++ padTo (o.hsz - 20) s.orders))
      (encInss o s.smps s.ins 0) hpats
    rw [← hw2, hplen] at this
    rw [this, List.length_append, hplen]
  have hI : readIns (write s o) s.ins.length
      ((hdr60 s o ++ (hdr20 s o ++ padTo (o.hsz - 20) s.orders)) ++ encPats o s.pats 0).length 0 =
        some (s.ins, s.smps) := by
    have := readIns_encInss o s.smps s.ins 0 0
      ((hdr60 s o ++ (hdr20 s o ++ padTo (o.hsz - 20) s.orders)) ++ encPats o s.pats 0)
      heis.1 heis.2 hinss (by omega) hsmps hsizes
    rw [← hw3] at this
    rw [this, List.drop_zero]
  have key := read_eq_some (bs := write s o) (hsz := o.hsz) (songlen := s.orders.length) (chn := s.chn)
    (npat := s.pats.length) (nins := s.ins.length) (tempo := s.spd) (bpm := s.bpm) (by omega) f0
    (by rw [f2]; exact padTo_take_ne_med hmed)
    (by rw [f3]; rfl) (by rw [f4]; exact rd32le_le32 (by omega)) (by rw [f5]; exact rd16le_le16 (by omega))
    (by rw [f6]; exact rd16le_le16 (by omega)) (by rw [f7]; exact rd16le_le16 (by omega))
    (by rw [f8]; exact rd16le_le16 (by omega)) (by rw [f9]; exact rd16le_le16 (by omega))
    (by rw [f10]; exact rd16le_le16 (by omega)) holen.2 hnpat hnins hchn (by omega) hbpm (by omega) (by omega) hP hI
  rw [key, f1, f11, adjustString_cstr_padTo hname, take_padTo_orders (by omega),
    fixOrders_of_lt (fun x hx => Nat.lt_succ_of_lt (hoplay x hx))]
  have hobs : s.smps.map obsLoop = s.smps := by
    rw [List.map_congr_left (g := id), List.map_id]
    intro m hm; exact obsLoop_self (hsmps m hm)
  have hs : fixSpd s.spd = s.spd := by unfold fixSpd; rw [if_neg (by omega)]
  have hb : fixBpm s.bpm = s.bpm := by unfold fixBpm; rw [if_neg (by omega), if_neg (by omega)]
  rw [hobs, hs, hb]
  rfl

/-! ## a non-trivial instance -/

/-- two patterns of different row counts, an instrument with a 16-bit looped and a stereo sample and a key map,
an instrument without samples -/
def xmExample : Module :=
  { name := str "demo", chn := 2, orders := [0, 1, 0],
    pats := [{ rows := 2, cells := [{ note := 61, ins := 1, vol := 40 }, {}, { note := KEY_OFF }, { note := KEY_FADE, ins := 2 }] },
             { rows := 1, cells := [{ note := 13, ins := 1 }, { vol := 65 }] }],
    ins := [{ name := str "lead",
              subs := [{ sid := 0, vol := 64, pan := 128, xpo := -12, fin := 127 },
                       { sid := 1, vol := 30, pan := 0, xpo := 5, fin := -128 }],
              keymap := List.replicate 12 0 ++ (List.replicate 48 0 ++ List.replicate 48 1) ++ List.replicate 13 0 },
            { name := str "empty", subs := [] }],
    smps := [{ name := str "sixteen", len := 3, lps := 1, lpe := 3, flg := F16BIT + FLOOP + FBIDIR,
               pcm := [1, 2, 3, 4, 250, 255] },
             { name := [], len := 5, lps := 0, lpe := 0, flg := FSTEREO, pcm := [1, 2, 3, 4, 5, 6, 7, 8, 9, 10] }],
    spd := 6, bpm := 125 }

example : WellFormed xmExample {} := by decide +kernel

example : read (write xmExample {}) = some (loaded xmExample) := roundtrip _ _ (by decide +kernel)

example : WellFormed xmExample { emptyInsSize := 263, emptyZero := true, mode := fun i => 32 - i % 2 } := by
  decide +kernel

/-- short song header (order table of 3 bytes), a 300-byte instrument header, an odd-sized sample-less header -/
example : WellFormed xmExample { hsz := 23, insSize := fun _ => 300, emptyInsSize := 31 } := by decide +kernel

example : read (write xmExample { hsz := 23, insSize := fun _ => 300, emptyInsSize := 31 }) = some (loaded xmExample) :=
  roundtrip _ _ (by decide +kernel)

/-- a stripped (BoobieSqueezer style) instrument header needs an all-zero key map -/
example : ¬ WellFormed xmExample { insSize := fun _ => 40 } := by decide +kernel

example : WellFormed { xmExample with ins := xmExample.ins.map fun x => { x with keymap := x.keymap.map fun _ => 0 } }
    { insSize := fun _ => 40 } := by decide +kernel

/-! ## the former OXM counterexample -/

/-- every sample is fine on its own, but the 5th stored byte of sample 0 and the stored bytes of sample 1 spell "OggS"
at offset 4 of sample 0's position in the file.  Before the repair of `is_ogg_sample` (which probed the file beyond a
sample shorter than 8 bytes) the loader took sample 0 for an OXM Vorbis sample and refused the module; now the probe
stays inside a sample's own stored bytes and the song round-trips. -/
def cxOgg : Module :=
  { name := str "ogg", chn := 1, orders := [0], pats := [{ rows := 1, cells := [{}] }],
    ins := [{ name := [], subs := [{ sid := 0, vol := 64, pan := 128, xpo := 0, fin := 0 },
                                   { sid := 1, vol := 64, pan := 128, xpo := 0, fin := 0 }],
              keymap := List.replicate 121 0 }],
    smps := [{ name := [], len := 5, lps := 0, lpe := 0, flg := 0, pcm := [0, 0, 0, 0, 0x4f] },
             { name := [], len := 3, lps := 0, lpe := 0, flg := 0, pcm := [0x67, 0xce, 0x21] }],
    spd := 6, bpm := 125 }

/-- the file really has "OggS" at offset 4 of the first sample body -/
theorem cxOgg_window : (((write cxOgg {}).drop (336 + 10 + 263 + 80 + 4)).take 4) = str "OggS" := by decide +kernel

theorem cxOgg_wellFormed : WellFormed cxOgg {} := by decide +kernel

theorem cxOgg_roundtrip : read (write cxOgg {}) = some (loaded cxOgg) := roundtrip _ _ cxOgg_wellFormed

end Xmp.Fmt.Xm
