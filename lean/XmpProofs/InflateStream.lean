import XmpModel.Inflate
import XmpProofs.InflateDyn
import XmpProofs.InflateDynG
/-!
# Whole streams: `inflate (deflate blocks ++ tail) = expand blocks`
-/
namespace Xmp.Inflate

/-- a block the encoder can write when the output so far has `size` bytes -/
inductive BlockOk (size : Nat) : Block → Prop
  | stored (d : Bytes) (h : d.length ≤ 65535) : BlockOk size (.stored d)
  | fixed (toks : List Tok) (h : ToksOk fixedLitLens fixedDistLens size toks) : BlockOk size (.fixed toks)
  | dyn (ll dl : List Nat) (toks : List Tok) (h1 : 257 ≤ ll.length) (h2 : ll.length ≤ 288) (h3 : 1 ≤ dl.length)
      (h4 : dl.length ≤ 32) (cl : CodeOk ll) (cd : CodeOk dl) (he : SymOk ll 256) (h : ToksOk ll dl size toks) :
      BlockOk size (.dyn ll dl toks)
  | dynG (cll : List Nat) (cltoks : List ClTok) (nlit : Nat) (toks : List Tok)
      (hc : CodeOk cll) (h19 : cll.length = 19) (h7 : ∀ x ∈ cll, x ≤ 7) (hok : ClToksOk cll [] cltoks)
      (h1 : 257 ≤ nlit) (h2 : nlit ≤ 288) (h3 : nlit + 1 ≤ (clExpand cltoks).length)
      (h4 : (clExpand cltoks).length ≤ nlit + 32)
      (cl : CodeOk ((clExpand cltoks).take nlit)) (cd : CodeOk ((clExpand cltoks).drop nlit))
      (he : SymOk ((clExpand cltoks).take nlit) 256)
      (h : ToksOk ((clExpand cltoks).take nlit) ((clExpand cltoks).drop nlit) size toks) :
      BlockOk size (.dynG cll cltoks nlit toks)

def BlocksOk (out : Array UInt8) : List Block → Prop
  | [] => True
  | b :: bs => BlockOk out.size b ∧ BlocksOk (applyBlock out b) bs

theorem blockBody_0 (f : Nat) (bits : Bits) (pos : Nat) (out : Array UInt8) :
    blockBody f 0 bits pos out = storedBlock bits pos out := rfl
theorem blockBody_1 (f : Nat) (bits : Bits) (pos : Nat) (out : Array UInt8) (lh dh : Huff)
    (h1 : fixedLit = some lh) (h2 : fixedDist = some dh) :
    blockBody f 1 bits pos out = symLoop lh dh f bits pos out := by
  rw [blockBody, if_neg (by decide), if_pos rfl, h1, h2]
theorem blockBody_2 (f : Nat) (bits : Bits) (pos : Nat) (out : Array UInt8) (lh dh : Huff) (b1 : Bits) (pos1 : Nat)
    (h : readDynHeader bits pos = .ok (lh, dh, b1, pos1)) :
    blockBody f 2 bits pos out = symLoop lh dh f b1 pos1 out := by
  rw [blockBody, if_neg (by decide), if_neg (by decide), if_pos rfl, h]

theorem blockBody_enc (b : Block) (out : Array UInt8) (hb : BlockOk out.size b) (f pos : Nat)
    (hf : (encBody pos b).length ≤ f) (r : Bits) :
    blockBody f b.btype (encBody pos b ++ r) pos out =
      .ok (r, pos + (encBody pos b).length, applyBlock out b) := by
  cases hb with
  | stored d h =>
    simp only [Block.btype, blockBody_0]
    exact storedBlock_enc d h pos out r
  | fixed toks h =>
    have hlt := toks_length_lt _ _ fixed_eob toks _ h
    simp only [Block.btype]
    rw [blockBody_1 _ _ _ _ (huffOf fixedLitLens) (huffOf fixedDistLens) (by simp only [fixedLit, fixedLit_ok.mk_eq]) (by simp only [fixedDist, fixedDist_ok.mk_eq])]
    simp only [encBody] at hf ⊢
    exact symLoop_toks _ _ _ _ fixedLit_ok.mk_eq fixedDist_ok.mk_eq fixedLit_ok fixedDist_ok fixed_eob toks out h f pos
      (by omega) r
  | dyn ll dl toks h1 h2 h3 h4 cl cd he h =>
    have hlt := toks_length_lt _ _ he toks _ h
    simp only [Block.btype]
    simp only [encBody, List.length_append] at hf ⊢
    rw [List.append_assoc, blockBody_2 _ _ _ _ _ _ _ _ (readDynHeader_enc ll dl h1 h2 h3 h4 cl cd pos _)]
    rw [symLoop_toks _ _ _ _ cl.mk_eq cd.mk_eq cl cd he toks out h f _ (by omega) r,
      encDynHeader_length ll dl cl.le15' cd.le15']
    simp only [applyBlock, Nat.add_assoc]
  | dynG cll cltoks nlit toks hc h19 h7 hok h1 h2 h3 h4 cl cd he h =>
    have hlt := toks_length_lt _ _ he toks _ h
    simp only [Block.btype]
    simp only [encBody, List.length_append] at hf ⊢
    rw [List.append_assoc,
      blockBody_2 _ _ _ _ _ _ _ _ (readDynHeader_encG cll cltoks nlit hc h19 h7 hok h1 h2 h3 h4 cl cd pos _)]
    rw [symLoop_toks _ _ _ _ cl.mk_eq cd.mk_eq cl cd he toks out h f _ (by omega) r]
    simp only [applyBlock, Nat.add_assoc]

theorem readBits_hdr (fin : Bool) (t : Nat) (ht : t < 4) (rest : Bits) :
    readBits 3 ([fin] ++ bitsLSB 2 t ++ rest) = some (fin.toNat + 2 * t, rest) := by
  simp only [List.cons_append, List.nil_append, readBits]
  rw [readBits_bitsLSB 2 t rest (by omega)]

theorem btype_lt (b : Block) : b.btype < 4 := by cases b <;> simp [Block.btype]

theorem blockLoop_block (b : Block) (fin : Bool) (out : Array UInt8) (hb : BlockOk out.size b) (f pos : Nat)
    (hf : (encBlock pos fin b).length ≤ f + 3) (r : Bits) :
    blockLoop (f + 1) (encBlock pos fin b ++ r) pos out =
      if fin then .ok (r, pos + (encBlock pos fin b).length, applyBlock out b)
      else blockLoop f r (pos + (encBlock pos fin b).length) (applyBlock out b) := by
  have hlen : (encBlock pos fin b).length = 3 + (encBody (pos + 3) b).length := by
    simp [encBlock, bitsLSB_length]; omega
  rw [blockLoop, encBlock, List.append_assoc, readBits_hdr fin _ (btype_lt b)]
  simp only []
  have hd : (fin.toNat + 2 * b.btype) / 2 = b.btype := by cases fin <;> simp only [Bool.toNat_true, Bool.toNat_false] <;> omega
  have hm : (fin.toNat + 2 * b.btype) % 2 = fin.toNat := by cases fin <;> simp only [Bool.toNat_true, Bool.toNat_false] <;> omega
  rw [hd, hm, blockBody_enc b out hb f (pos + 3) (by omega) r]
  simp only []
  have e : pos + 3 + (encBody (pos + 3) b).length = pos + ([fin] ++ bitsLSB 2 b.btype ++ encBody (pos + 3) b).length := by
    simp [bitsLSB_length]; omega
  rw [e]
  cases fin <;> simp

theorem encBlock_len3 (pos : Nat) (fin : Bool) (b : Block) : 3 ≤ (encBlock pos fin b).length := by
  simp [encBlock, bitsLSB_length]

/-- **a block list written by `encBlocks` at bit position `pos` is decoded block by block** -/
theorem blockLoop_blocks (bs : List Block) (hne : bs ≠ []) (out : Array UInt8) (hok : BlocksOk out bs)
    (f pos : Nat) (hf : (encBlocks pos bs).length < f) (r : Bits) :
    blockLoop f (encBlocks pos bs ++ r) pos out =
      .ok (r, pos + (encBlocks pos bs).length, bs.foldl applyBlock out) := by
  induction bs generalizing out f pos with
  | nil => exact absurd rfl hne
  | cons b bs ih =>
    obtain ⟨f, rfl⟩ : ∃ m, f = m + 1 := ⟨f - 1, by omega⟩
    obtain ⟨hb, hbs⟩ := hok
    cases bs with
    | nil =>
      simp only [encBlocks] at hf ⊢
      rw [blockLoop_block b true out hb f pos (by omega) r]
      simp
    | cons b' bs =>
      simp only [encBlocks, List.length_append, List.append_assoc] at hf ⊢
      have h3 := encBlock_len3 pos false b
      rw [blockLoop_block b false out hb f pos (by omega)]
      simp only [Bool.false_eq_true, if_false]
      rw [ih (by simp) (applyBlock out b) hbs f _ (by omega)]
      simp [Nat.add_assoc]


/-- **round trip of the block encoder**: whatever follows the stream, the decoder returns what the blocks stand
    for and reports exactly the stream's length as consumed -/
theorem inflateE_deflate (bs : List Block) (hne : bs ≠ []) (hok : BlocksOk #[] bs) (tail : Bytes) :
    inflateE (deflate bs ++ tail) = .ok (expand bs, (deflate bs).length) := by
  unfold inflateE deflate
  rw [toBits_append, toBits_fromBits, List.append_assoc,
    blockLoop_blocks bs hne #[] hok _ 0 (by
      simp only [List.length_append, fromBits_length]; omega)]
  simp only [Nat.zero_add, expand, fromBits_length]

theorem inflate_deflate (bs : List Block) (hne : bs ≠ []) (hok : BlocksOk #[] bs) (tail : Bytes) :
    inflate (deflate bs ++ tail) = some (expand bs, (deflate bs).length) := by
  unfold inflate
  rw [inflateE_deflate bs hne hok tail]

/-! ## list-level meaning of tokens and blocks -/

/-- LZ77 copy on lists: `n` times append the byte `d` positions back -/
def lzCopy (l : Bytes) (d : Nat) : Nat → Bytes
  | 0 => l
  | n + 1 => lzCopy (l ++ [l.getD (l.length - d) 0]) d n

def expandTok (l : Bytes) : Tok → Bytes
  | .lit b => l ++ [b]
  | .mat len dist => lzCopy l dist len

def expandToks (l : Bytes) (toks : List Tok) : Bytes := toks.foldl expandTok l

theorem copyMatch_toList (out : Array UInt8) (d n : Nat) : (copyMatch out d n).toList = lzCopy out.toList d n := by
  induction n generalizing out with
  | zero => rfl
  | succ n ih =>
    rw [copyMatch, ih, lzCopy]
    congr 1
    simp [Array.getD_eq_getD_getElem?, List.getD_eq_getElem?_getD]

theorem applyTok_toList (out : Array UInt8) (t : Tok) : (applyTok out t).toList = expandTok out.toList t := by
  cases t with
  | lit b => simp [applyTok, expandTok]
  | mat len dist => simp [applyTok, expandTok, copyMatch_toList]

theorem applyToks_toList (out : Array UInt8) (toks : List Tok) :
    (applyToks out toks).toList = expandToks out.toList toks := by
  induction toks generalizing out with
  | nil => rfl
  | cons t ts ih => simp only [applyToks, expandToks, List.foldl_cons] at ih ⊢; rw [ih, applyTok_toList]

theorem expand_stored (chunks : List Bytes) (out : Array UInt8) :
    ((chunks.map Block.stored).foldl applyBlock out).toList = out.toList ++ chunks.flatten := by
  induction chunks generalizing out with
  | nil => simp
  | cons c cs ih => simp [applyBlock, ih]

theorem blocksOk_stored (chunks : List Bytes) (h : ∀ c ∈ chunks, c.length ≤ 65535) (out : Array UInt8) :
    BlocksOk out (chunks.map Block.stored) := by
  induction chunks generalizing out with
  | nil => trivial
  | cons c cs ih =>
    exact ⟨BlockOk.stored c (h c (by simp)), ih (fun x hx => h x (by simp [hx])) _⟩

/-! ## the zlib wrapper -/

/-- a zlib stream (RFC 1950, CM = 8, 32 KiB window, no dictionary, FLEVEL 0) around a deflate stream -/
def zlibWrap (cdata out : Bytes) : Bytes :=
  [0x78, 0x01] ++ cdata ++
    [UInt8.ofNat (adler32 out / 16777216 % 256), UInt8.ofNat (adler32 out / 65536 % 256),
     UInt8.ofNat (adler32 out / 256 % 256), UInt8.ofNat (adler32 out % 256)]

theorem adlerStep_lt (s : Nat × Nat) (b : UInt8) : (adlerStep s b).1 < 65521 ∧ (adlerStep s b).2 < 65521 := by
  unfold adlerStep
  exact ⟨Nat.mod_lt _ (by decide), Nat.mod_lt _ (by decide)⟩

theorem adler32_lt (d : Bytes) : adler32 d < 2 ^ 32 := by
  unfold adler32
  have : ∀ (s : Nat × Nat), s.1 < 65521 ∧ s.2 < 65521 → (d.foldl adlerStep s).1 < 65521 ∧ (d.foldl adlerStep s).2 < 65521 := by
    induction d with
    | nil => intro s h; exact h
    | cons x xs ih => intro s _; exact ih _ (adlerStep_lt s x)
  have := this (1, 0) (by decide)
  simp only []
  omega

/-- **zlib wrapper round trip** (`TINFL_FLAG_PARSE_ZLIB_HEADER`, the call of `muse_load.c`) -/
theorem inflateZlib_wrap (bs : List Block) (hne : bs ≠ []) (hok : BlocksOk #[] bs) (tail : Bytes) :
    inflateZlib (zlibWrap (deflate bs) (expand bs) ++ tail) = .ok (expand bs, (deflate bs).length + 6) := by
  have ha := adler32_lt (expand bs)
  unfold zlibWrap inflateZlib
  simp only [List.cons_append, List.nil_append, List.append_assoc]
  have hhdr : ¬ (((0x78 : UInt8).toNat * 256 + (0x01 : UInt8).toNat) % 31 ≠ 0 ∨ (0x01 : UInt8).toNat / 32 % 2 = 1 ∨
      (0x78 : UInt8).toNat % 16 ≠ 8) := by decide
  rw [if_neg hhdr, inflateE_deflate bs hne hok]
  simp only [List.drop_left]
  have hb : ∀ n, n < 256 → (UInt8.ofNat n).toNat = n := by
    intro n hn; simp; omega
  rw [hb _ (Nat.mod_lt _ (by decide)), hb _ (Nat.mod_lt _ (by decide)), hb _ (Nat.mod_lt _ (by decide)),
    hb _ (Nat.mod_lt _ (by decide))]
  have : adler32 (expand bs) / 16777216 % 256 * 16777216 + adler32 (expand bs) / 65536 % 256 * 65536 +
      adler32 (expand bs) / 256 % 256 * 256 + adler32 (expand bs) % 256 = adler32 (expand bs) := by omega
  rw [if_pos this]

end Xmp.Inflate
