import XmpProofs.FmtMod
import XmpModel.FmtS3m
/-!
# PCM storage conversions shared by the S3M / XM / IT codecs

* delta storage (8 / 16 bit), sign conversion (8 / 16 bit) — moved here from `FmtXm.lean` / `FmtIt.lean`;
* stereo block layout: `fromBlocks (toBlocks pcm) = pcm` (left block ++ right block ↔ interleaved frames);
* length lemmas for all of them.
-/
namespace Xmp.Fmt
open Xmp

/-- delta decoding undoes delta encoding (8-bit and 16-bit moduli) -/
theorem deltaDecN_deltaEncN (m : Nat) (hm : m = 256 ∨ m = 65536) (xs : List Nat) (h : ∀ x ∈ xs, x < m)
    (acc : Nat) (hacc : acc < m) : deltaDecN m acc (deltaEncN m acc xs) = xs := by
  induction xs generalizing acc with
  | nil => rfl
  | cons x r ih =>
    have hx : x < m := h x (by simp)
    have e : ((x + m - acc % m) % m + acc) % m = x := by
      rcases hm with hm | hm <;> subst hm <;> omega
    simp only [deltaEncN, deltaDecN, e]
    rw [ih (fun y hy => h y (by simp [hy])) x hx]

theorem deltaEncN_lt (m : Nat) (hm : 0 < m) (xs : List Nat) (prev : Nat) : ∀ d ∈ deltaEncN m prev xs, d < m := by
  induction xs generalizing prev with
  | nil => simp [deltaEncN]
  | cons x r ih =>
    intro d hd
    simp only [deltaEncN, List.mem_cons] at hd
    rcases hd with hd | hd
    · subst hd; exact Nat.mod_lt _ hm
    · exact ih x d hd

/-- **8-bit delta PCM codec** (XM samples) -/
theorem deltaDec_deltaEnc8 (b : Bytes) : deltaDec false (deltaEnc false b) = b := by
  unfold deltaDec deltaEnc
  simp only [Bool.false_eq_true, if_false, List.map_map]
  have h1 : (List.map (fun x => x.toNat) ∘ List.map u8) (deltaEncN 256 0 (b.map (·.toNat))) = deltaEncN 256 0 (b.map (·.toNat)) := by
    simp only [Function.comp, List.map_map]
    conv => rhs; rw [← List.map_id (deltaEncN 256 0 (b.map (·.toNat)))]
    apply List.map_congr_left
    intro d hd
    have := deltaEncN_lt 256 (by omega) _ _ d hd
    simp [u8_toNat_lt this]
  have h2 : (deltaEncN 256 0 (b.map (·.toNat))).map ((fun x => x.toNat) ∘ u8) = deltaEncN 256 0 (b.map (·.toNat)) := by
    simpa [Function.comp, List.map_map] using h1
  rw [h2, deltaDecN_deltaEncN 256 (Or.inl rfl) _ (by intro x hx; simp at hx; obtain ⟨y, _, rfl⟩ := hx; exact y.toNat_lt) 0 (by omega)]
  simp only [List.map_map]
  conv => rhs; rw [← List.map_id b]
  apply List.map_congr_left
  intro x _
  simp [u8]


theorem words_unwords (ws : List Nat) (h : ∀ w ∈ ws, w < 65536) : words (unwords ws) = ws := by
  induction ws with
  | nil => rfl
  | cons w r ih =>
    have hw := h w (by simp)
    simp only [unwords, words, u8_toNat, ih (fun y hy => h y (by simp [hy]))]
    congr 1; omega

theorem unwords_words (n : Nat) (b : Bytes) (h : b.length = 2 * n) : unwords (words b) = b := by
  induction n generalizing b with
  | zero =>
    have : b = [] := List.eq_nil_of_length_eq_zero (by omega)
    subst this; rfl
  | succ n ih =>
    match b, h with
    | x :: y :: r, h =>
      have hx := x.toNat_lt
      have hy := y.toNat_lt
      have e1 : (x.toNat + 256 * y.toNat) % 256 = x.toNat := by omega
      have e2 : (x.toNat + 256 * y.toNat) / 256 % 256 = y.toNat := by omega
      simp only [words, unwords, e1, e2, ih r (by simp at h; omega)]
      simp [u8]

theorem words_lt (b : Bytes) : ∀ w ∈ words b, w < 65536 := by
  intro w hw
  induction b using words.induct with
  | case1 a c r ih =>
    simp only [words, List.mem_cons] at hw
    rcases hw with hw | hw
    · have := a.toNat_lt; have := c.toNat_lt; omega
    · exact ih hw
  | case2 b hb =>
    unfold words at hw
    split at hw
    · exact absurd rfl (hb _ _ _)
    · simp at hw

theorem words_length (n : Nat) (b : Bytes) (h : b.length = 2 * n) : (words b).length = n := by
  induction n generalizing b with
  | zero =>
    have : b = [] := List.eq_nil_of_length_eq_zero (by omega)
    subst this; rfl
  | succ n ih =>
    match b, h with
    | x :: y :: r, h => simp only [words, List.length_cons, ih r (by simp at h; omega)]

/-- **16-bit delta PCM codec** (XM samples), for byte strings of even length -/
theorem deltaDec_deltaEnc16 (b : Bytes) (n : Nat) (h : b.length = 2 * n) : deltaDec true (deltaEnc true b) = b := by
  unfold deltaDec deltaEnc
  simp only [if_true]
  rw [words_unwords _ (deltaEncN_lt 65536 (by omega) _ _),
    deltaDecN_deltaEncN 65536 (Or.inr rfl) _ (words_lt b) 0 (by omega), unwords_words n b h]


/-- 16-bit sign conversion is an involution on byte strings of even length -/
theorem flip16_twice (w : Nat) (h : w < 65536) : ((w + 32768) % 65536 + 32768) % 65536 = w := by omega

/-- the word map of `signFlip true` -/
def flipW (w : Nat) : Nat := (w + 0x8000) % 0x10000

theorem flipW_lt (w : Nat) : flipW w < 65536 := by unfold flipW; omega
theorem flipW_flipW (w : Nat) (h : w < 65536) : flipW (flipW w) = w := by unfold flipW; omega

theorem signFlip16_eq (b : Bytes) : signFlip true b = unwords ((words b).map flipW) := by
  unfold signFlip; simp only [if_true]; rfl

theorem signFlip16_involutive (b : Bytes) (n : Nat) (h : b.length = 2 * n) : signFlip true (signFlip true b) = b := by
  rw [signFlip16_eq, signFlip16_eq,
    words_unwords _ (by intro w hw; simp only [List.mem_map] at hw; obtain ⟨y, _, rfl⟩ := hw; exact flipW_lt y),
    List.map_map]
  have : (words b).map (flipW ∘ flipW) = words b := by
    conv => rhs; rw [← List.map_id (words b)]
    apply List.map_congr_left
    intro w hw
    exact flipW_flipW w (words_lt b w hw)
  rw [this, unwords_words n b h]

end Xmp.Fmt

namespace Xmp.Fmt
/-- 8-bit sign conversion is an involution (S3M `ffi = 2`, IT convert bit 0 clear) -/
theorem signFlip8_involutive (b : Bytes) : signFlip false (signFlip false b) = b := by
  unfold signFlip
  simp only [Bool.false_eq_true, if_false, List.map_map]
  conv => rhs; rw [← List.map_id b]
  apply List.map_congr_left
  intro x _
  simp only [Function.comp, u8_toNat, id]
  have hx := x.toNat_lt
  have : ((x.toNat + 128) % 256 % 256 + 128) % 256 = x.toNat := by omega
  rw [this]
  simp [u8]
end Xmp.Fmt

namespace Xmp.Fmt
open Xmp

/-! ## lengths -/

theorem unwords_length (ws : List Nat) : (unwords ws).length = 2 * ws.length := by
  induction ws with
  | nil => rfl
  | cons w r ih => simp only [unwords, List.length_cons, ih]; omega

theorem signFlip_length (is16 : Bool) (b : Bytes) (n : Nat) (h : is16 = true → b.length = 2 * n) :
    (signFlip is16 b).length = b.length := by
  cases is16
  · simp [signFlip]
  · have h' := h rfl
    rw [signFlip16_eq, unwords_length, List.length_map, words_length n b h', h']

theorem deltaEncN_length (m : Nat) (xs : List Nat) (prev : Nat) : (deltaEncN m prev xs).length = xs.length := by
  induction xs generalizing prev with
  | nil => rfl
  | cons x r ih => simp [deltaEncN, ih]

theorem deltaEnc_length (is16 : Bool) (b : Bytes) (n : Nat) (h : is16 = true → b.length = 2 * n) :
    (deltaEnc is16 b).length = b.length := by
  cases is16
  · simp [deltaEnc, deltaEncN_length]
  · have h' := h rfl
    simp only [deltaEnc, if_true]
    rw [unwords_length, deltaEncN_length, words_length n b h', h']

/-- both sign conversions in one statement -/
theorem signFlip_involutive (is16 : Bool) (b : Bytes) (n : Nat) (h : is16 = true → b.length = 2 * n) :
    signFlip is16 (signFlip is16 b) = b := by
  cases is16
  · exact signFlip8_involutive b
  · exact signFlip16_involutive b n (h rfl)

theorem deltaDec_deltaEnc (is16 : Bool) (b : Bytes) (n : Nat) (h : is16 = true → b.length = 2 * n) :
    deltaDec is16 (deltaEnc is16 b) = b := by
  cases is16
  · exact deltaDec_deltaEnc8 b
  · exact deltaDec_deltaEnc16 b n (h rfl)

/-! ## stereo: left block ++ right block ↔ interleaved frames -/

theorem deinterleave_length (fs n : Nat) (b : Bytes) (h : b.length = n * (2 * fs)) :
    (deinterleave fs n b).1.length = n * fs ∧ (deinterleave fs n b).2.length = n * fs := by
  induction n generalizing b with
  | zero => simp [deinterleave]
  | succ n ih =>
    have hb : b.length = 2 * fs + n * (2 * fs) := by rw [h, Nat.succ_mul]; omega
    obtain ⟨h1, h2⟩ := ih (b.drop (2 * fs)) (by rw [List.length_drop, hb]; omega)
    simp only [deinterleave, List.length_append, List.length_take, List.length_drop, h1, h2]
    rw [Nat.succ_mul]
    constructor <;> omega

/-- **stereo block layout codec** -/
theorem interleave_deinterleave (fs n : Nat) (b : Bytes) (h : b.length = n * (2 * fs)) :
    interleave fs n (deinterleave fs n b).1 (deinterleave fs n b).2 = b := by
  induction n generalizing b with
  | zero =>
    have : b = [] := List.eq_nil_of_length_eq_zero (by simpa using h)
    subst this; rfl
  | succ n ih =>
    have hb : b.length = 2 * fs + n * (2 * fs) := by rw [h, Nat.succ_mul]; omega
    have ih' := ih (b.drop (2 * fs)) (by rw [List.length_drop, hb]; omega)
    have t1 : (b.take fs).length = fs := by rw [List.length_take]; omega
    have t2 : ((b.drop fs).take fs).length = fs := by rw [List.length_take, List.length_drop]; omega
    simp only [deinterleave, interleave]
    rw [List.take_left' t1, List.take_left' t2, List.drop_left' t1, List.drop_left' t2, ih']
    have e : (b.drop fs).take fs ++ b.drop (2 * fs) = b.drop fs := by
      have : b.drop (2 * fs) = (b.drop fs).drop fs := by rw [List.drop_drop]; congr 1; omega
      rw [this, List.take_append_drop]
    rw [List.append_assoc, e, List.take_append_drop]

theorem frameBytes_eq (flg : Nat) :
    frameBytes flg = chanBytes flg * (if flg &&& FSTEREO ≠ 0 then 2 else 1) := rfl

theorem toBlocks_length (flg len : Nat) (pcm : Bytes) (h : pcm.length = len * frameBytes flg) :
    (toBlocks flg len pcm).length = pcm.length := by
  unfold toBlocks
  split
  · next hs =>
    have h' : pcm.length = len * (2 * chanBytes flg) := by
      rw [h, frameBytes_eq, if_pos hs, Nat.mul_comm (chanBytes flg) 2]
    obtain ⟨h1, h2⟩ := deinterleave_length (chanBytes flg) len pcm h'
    simp only [List.length_append, h1, h2, h']
    rw [Nat.mul_left_comm, Nat.two_mul]
  · rfl

/-- **in-memory ↔ in-file channel layout** (mono: identity; stereo: interleaved ↔ two blocks) -/
theorem fromBlocks_toBlocks (flg len : Nat) (pcm : Bytes) (h : pcm.length = len * frameBytes flg) :
    fromBlocks flg len (toBlocks flg len pcm) = pcm := by
  unfold fromBlocks toBlocks
  split
  · next hs =>
    have h' : pcm.length = len * (2 * chanBytes flg) := by
      rw [h, frameBytes_eq, if_pos hs, Nat.mul_comm (chanBytes flg) 2]
    obtain ⟨h1, h2⟩ := deinterleave_length (chanBytes flg) len pcm h'
    simp only
    rw [List.take_left' h1, List.drop_left' h1]
    exact interleave_deinterleave _ _ _ h'
  · rfl

theorem chanBytes_16 (flg : Nat) (h : (flg &&& F16BIT ≠ 0)) : chanBytes flg = 2 := by
  unfold chanBytes; rw [if_pos h]

/-- a 16-bit sample has an even number of bytes -/
theorem pcm_even (flg len : Nat) (b : Bytes) (h : b.length = len * frameBytes flg) :
    decide (flg &&& F16BIT ≠ 0) = true → b.length = 2 * (len * (if flg &&& FSTEREO ≠ 0 then 2 else 1)) := by
  intro h16
  have h16' : flg &&& F16BIT ≠ 0 := by simpa using h16
  rw [h, frameBytes_eq, chanBytes_16 flg h16']
  generalize (if flg &&& FSTEREO ≠ 0 then 2 else 1) = k
  rw [Nat.mul_left_comm]

end Xmp.Fmt
