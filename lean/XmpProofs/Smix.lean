import XmpProofs.Resource
/-! Ledger lemmas for the sound-effect mixer calls (`Xmp.Resource.startSmix`, `smixLoadSample`, `endSmix`). -/
namespace Xmp.Resource

local macro "triv" : tactic => `(tactic| first | rfl | trivial | decide)

/-- the heap is the frame `B` plus the blocks `struct smix_data` refers to -/
def OwnsS (s : Smix) (w : World) (B : List Tok) : Prop := ∀ u, w.live.count u = B.count u + s.toks.count u

/-- release order of xmp_end_smix -/
def smixOrder (s : Smix) : List (Option Tok) := insOrder s.datas s.subs ++ [s.xxs, s.xxi]

theorem count_smixOrder (s : Smix) (u : Tok) : (ptrs (smixOrder s)).count u = s.toks.count u := by
  unfold smixOrder Smix.toks
  rw [ptrs_append, List.count_append, count_ptrs_insOrder]
  cases s.xxi <;> cases s.xxs <;> simp [List.count_append, List.count_cons] <;> omega

theorem wf_walk (s : Smix) (h : s.wf = true) : ¬ ((s.xxs.isNone ∨ s.xxi.isNone) ∧ s.ins ≠ 0) := by
  simp only [Smix.wf, Bool.and_eq_true, Bool.or_eq_true, beq_iff_eq] at h
  obtain ⟨_, h3⟩ := h
  intro ⟨h1, h2⟩
  rcases h3 with ⟨a, b⟩ | c
  · rcases h1 with x | x
    · cases hx : s.xxs <;> simp_all
    · cases hx : s.xxi <;> simp_all
  · exact h2 c

theorem endSmix_world (st : State) (s : Smix) (w : World) (hst : st ≠ .playing) (hwf : s.wf = true) :
    endSmix st s w = ({}, freeAll (smixOrder s) w) := by
  unfold endSmix smixOrder
  simp only [hst, if_false, wf_walk s hwf, freeIns_eq, freeAll_append, freeAll]

/-- **xmp_end_smix is total**: every block the smix tables refer to is freed exactly once, the tables and
counts are cleared -/
theorem endSmix_spec (st : State) (s : Smix) (w : World) (B : List Tok) (hst : st ≠ .playing) (hwf : s.wf = true)
    (hO : OwnsS s w B) :
    let r := endSmix st s w
    r.1 = {} ∧ r.2.bad = w.bad ∧ (∀ u, r.2.live.count u = B.count u) ∧ SameEnv w r.2 ∧
      r.2.oracle = w.oracle ∧ r.2.nalloc = w.nalloc := by
  rw [endSmix_world st s w hst hwf]
  have hsub : Sub (ptrs (smixOrder s)) w.live := by
    intro u; rw [count_smixOrder]; have := hO u; omega
  obtain ⟨a, b, c, d, e⟩ := freeAll_spec (smixOrder s) w hsub
  refine ⟨rfl, a, ?_, d, b, c⟩
  intro u
  show (freeAll (smixOrder s) w).live.count u = B.count u
  have := e u; rw [count_smixOrder] at this; have := hO u; omega

theorem smix_toks_empty : ({} : Smix).toks = [] := rfl

theorem toks_unstarted (s : Smix) (hwf : s.wf = true) (h : ¬ (s.xxi.isSome = true ∨ s.xxs.isSome = true)) :
    s.toks = [] ∧ s.xxi = none ∧ s.xxs = none ∧ s.ins = 0 := by
  simp only [Smix.wf, Bool.and_eq_true, Bool.or_eq_true, beq_iff_eq] at hwf
  obtain ⟨⟨l1, l2⟩, h3⟩ := hwf
  have hi : s.xxi = none := by cases hx : s.xxi <;> simp_all
  have hs : s.xxs = none := by cases hx : s.xxs <;> simp_all
  have h0 : s.ins = 0 := by
    rcases h3 with ⟨a, _⟩ | c
    · simp [hi] at a
    · exact c
  have e1 : s.subs = [] := List.eq_nil_of_length_eq_zero (by omega)
  have e2 : s.datas = [] := List.eq_nil_of_length_eq_zero (by omega)
  exact ⟨by simp [Smix.toks, hi, hs, e1, e2], hi, hs, h0⟩

/-- **xmp_start_smix** for every allocation oracle -/
theorem startSmix_spec (st : State) (argsOk : Bool) (chn smp : Nat) (s : Smix) (w : World) (B : List Tok)
    (hwf : s.wf = true) (hO : OwnsS s w B) :
    let r := startSmix st argsOk chn smp s w
    r.2.2.bad = w.bad ∧ SameEnv w r.2.2 ∧
    ((st = .playing ∨ argsOk = false) → r.1 < 0 ∧ r.2.1 = s ∧ r.2.2 = w) ∧
    (¬ (st = .playing ∨ argsOk = false) →
      (r.1 < 0 → r.2.1 = (if s.xxi.isSome ∨ s.xxs.isSome then {} else s) ∧ ∀ u, r.2.2.live.count u = B.count u) ∧
      (¬ r.1 < 0 → r.1 = 0 ∧ r.2.1.wf = true ∧ r.2.1.chn = chn ∧ r.2.1.ins = smp ∧ ptrs r.2.1.subs = [] ∧
        ptrs r.2.1.datas = [] ∧ OwnsS r.2.1 r.2.2 B)) := by
  unfold startSmix
  by_cases hp : st = .playing
  · simp only [hp, if_true]
    exact ⟨by triv, ⟨by triv, by triv, by triv⟩, fun _ => ⟨by decide, by triv, by triv⟩, fun h => absurd (Or.inl trivial) h⟩
  simp only [hp, if_false]
  cases ha : argsOk
  · simp only [Bool.not_false, if_true]
    exact ⟨by triv, ⟨by triv, by triv, by triv⟩, fun _ => ⟨by decide, by triv, by triv⟩, fun h => absurd (Or.inr trivial) h⟩
  simp only [Bool.not_true, Bool.false_eq_true, if_false]
  -- the state after the optional xmp_end_smix: empty tables, heap = frame
  have hstep : ∃ (s1 : Smix) (w1 : World),
      (if s.xxi.isSome = true ∨ s.xxs.isSome = true then endSmix st s w else (s, w)) = (s1, w1) ∧
      s1 = (if s.xxi.isSome ∨ s.xxs.isSome then {} else s) ∧ s1.toks = [] ∧ s1.xxi = none ∧ s1.xxs = none ∧
      w1.bad = w.bad ∧ (∀ u, w1.live.count u = B.count u) ∧ SameEnv w w1 := by
    by_cases hs : s.xxi.isSome = true ∨ s.xxs.isSome = true
    · obtain ⟨a, b, c, d, _, _⟩ := endSmix_spec st s w B hp hwf hO
      refine ⟨(endSmix st s w).1, (endSmix st s w).2, by simp [hs], by simp [hs, a], by rw [a]; rfl, by rw [a], by rw [a], b, c, d⟩
    · obtain ⟨t0, t1, t2, _⟩ := toks_unstarted s hwf hs
      refine ⟨s, w, by simp [hs], by simp [hs], t0, t1, t2, rfl, ?_, ⟨rfl, rfl, rfl⟩⟩
      intro u; have := hO u; simp [t0] at this; exact this
  obtain ⟨s1, w1, he, hs1, ht1, hx1, hy1, hb1, hl1, henv1⟩ := hstep
  rw [he]
  simp only
  have hself : ({ s1 with xxi := none } : Smix) = s1 := by cases s1; simp_all
  have hself2 : ({ s1 with xxi := none, xxs := none } : Smix) = s1 := by cases s1; simp_all
  obtain ⟨e1, e2, e3⟩ := henv1
  rcases alloc_cases w1 ⟨.smixXxi, 0⟩ with hA | hA <;> rw [hA] <;> simp only
  · refine ⟨hb1, ⟨e1, e2, e3⟩, fun h => ?_, fun _ => ⟨fun _ => ⟨by rw [hself]; exact hs1, hl1⟩, fun h => absurd (by decide : errInternal < 0) h⟩⟩
    rcases h with h | h
    · exact h.elim
    · exact absurd h (by decide)
  · generalize hw2 : ({ w1 with oracle := w1.oracle.tail, nalloc := w1.nalloc + 1, live := ⟨.smixXxi, 0⟩ :: w1.live } : World) = w2
    have hl2 : w2.live = ⟨.smixXxi, 0⟩ :: w1.live := by subst hw2; rfl
    have hb2 : w2.bad = w.bad := by subst hw2; exact hb1
    have henv2 : SameEnv w w2 := by subst hw2; exact ⟨e1, e2, e3⟩
    obtain ⟨f1, f2, f3⟩ := henv2
    rcases alloc_cases w2 ⟨.smixXxs, 0⟩ with hB | hB <;> rw [hB] <;> simp only
    · refine ⟨by simp [World.free, hl2, hb2], by simp [SameEnv, World.free, hl2, f1, f2, f3], fun h => ?_,
        fun _ => ⟨fun _ => ⟨by rw [hself2]; exact hs1, ?_⟩, fun h => absurd (by decide : errInternal < 0) h⟩⟩
      · rcases h with h | h
        · exact h.elim
        · exact absurd h (by decide)
      · intro u; simp [World.free, hl2]; exact hl1 u
    · refine ⟨by simp [hb2], by simp [SameEnv, f1, f2, f3], fun h => ?_, fun _ => ⟨fun h => by simp at h, fun _ => ?_⟩⟩
      · rcases h with h | h
        · exact h.elim
        · exact absurd h (by decide)
      · refine ⟨by triv, by simp [Smix.wf], by triv, by triv, ptrs_replicate_none _, ptrs_replicate_none _, ?_⟩
        intro u
        have := hl1 u
        simp only [Smix.toks, hl2, List.count_cons, List.count_append, ptrs_replicate_none, ptrs_cons_some, ptrs_nil,
          List.count_nil] at this ⊢
        omega

/-! ### xmp_smix_load_sample -/

theorem smix_toks_set (s : Smix) (num : Nat) (sub d : Tok) (hn : num < s.ins) (hwf : s.wf = true) (u : Tok) :
    ({ s with subs := s.subs.set num (some sub), datas := s.datas.set num (some d) } : Smix).toks.count u
      + (ptrs [s.datas.getD num none, s.subs.getD num none]).count u
      = s.toks.count u + [d, sub].count u := by
  simp only [Smix.wf, Bool.and_eq_true, beq_iff_eq] at hwf
  obtain ⟨⟨l1, l2⟩, _⟩ := hwf
  have key : ∀ (l : List (Option Tok)) (i : Nat) (t : Tok), i < l.length →
      (ptrs (l.set i (some t))).count u + (ptrs [l.getD i none]).count u = (ptrs l).count u + [t].count u := by
    intro l
    induction l with
    | nil => intro i t h; simp at h
    | cons a l ih =>
      intro i t h
      cases i with
      | zero => cases a <;> simp [List.count_cons] <;> omega
      | succ i =>
        have := ih i t (by simpa using h)
        cases a <;> simp [List.count_cons] at this ⊢ <;> omega
  have k1 := key s.subs num sub (by omega)
  have k2 := key s.datas num d (by omega)
  generalize s.subs.getD num none = os at k1 ⊢
  generalize s.datas.getD num none = od at k2 ⊢
  simp only [Smix.toks, List.count_append]
  cases od <;> cases os <;> simp [List.count_cons] at k1 k2 ⊢ <;> omega

theorem smix_wf_set (s : Smix) (num : Nat) (sub d : Tok) (hwf : s.wf = true) :
    ({ s with subs := s.subs.set num (some sub), datas := s.datas.set num (some d) } : Smix).wf = true := by
  simpa [Smix.wf] using hwf

/-- **xmp_smix_load_sample** for every allocation oracle, every outcome of fopen / the size probe, every
kind of WAV file: a failing call changes nothing (tables, counts, heap, descriptors); a successful one
puts the two new blocks into the slot and - depending on `releaseOld` - frees or leaks what the slot held -/
theorem smixLoad_spec (num : Nat) (fopenOk sizeOk : Bool) (wav : Wav) (releaseOld : Bool) (s : Smix) (w : World)
    (B : List Tok) (hwf : s.wf = true) (hO : OwnsS s w B) :
    let r := smixLoadSample num fopenOk sizeOk wav releaseOld s w
    r.2.2.bad = w.bad ∧ r.2.2.openFds = w.openFds ∧ r.2.2.tempFiles = w.tempFiles ∧
    (r.1 < 0 → r.2.1 = s ∧ ∀ u, r.2.2.live.count u = w.live.count u) ∧
    (¬ r.1 < 0 → r.1 = 0 ∧ num < s.ins ∧ fopenOk = true ∧ sizeOk = true ∧ wav = .ok ∧ r.2.1.wf = true ∧
      r.2.1.ins = s.ins ∧ r.2.1.chn = s.chn ∧
      ∀ u, r.2.2.live.count u = B.count u + r.2.1.toks.count u
        + (if releaseOld then 0 else (ptrs [s.datas.getD num none, s.subs.getD num none]).count u)) := by
  unfold smixLoadSample
  by_cases hn : num ≥ s.ins
  · simp only [hn, if_true]
    exact ⟨by triv, by triv, by triv, fun _ => ⟨by triv, fun _ => by triv⟩, fun h => absurd (by decide : errInvalid < 0) h⟩
  simp only [hn, if_false]
  have hn' : num < s.ins := by omega
  unfold hioOpenPath
  rcases alloc_cases w ⟨.hio, 0⟩ with hA | hA <;> rw [hA] <;> simp only
  · exact ⟨by triv, by triv, by triv, fun _ => ⟨by triv, fun _ => by triv⟩, fun h => absurd (by decide : errSystem < 0) h⟩
  cases hf : fopenOk
  · simp only [Bool.not_false, if_true]
    refine ⟨by simp [World.free], by simp [World.free], by simp [World.free], fun _ => ⟨by triv, fun u => by simp [World.free]⟩,
      fun h => absurd (by decide : errSystem < 0) h⟩
  simp only [Bool.not_true, Bool.false_eq_true, if_false]
  cases hz : sizeOk
  · simp only [Bool.false_eq_true, if_false]
    refine ⟨by simp [World.free, World.fcloseOwned], by simp [World.free, World.fcloseOwned],
      by simp [World.free, World.fcloseOwned], fun _ => ⟨by triv, fun u => by simp [World.free, World.fcloseOwned]⟩,
      fun h => absurd (by decide : errSystem < 0) h⟩
  simp only [if_true]
  generalize hw1 : ({ w with oracle := w.oracle.tail, nalloc := w.nalloc + 1, live := ⟨.hio, 0⟩ :: w.live, openFds := w.openFds + 1 } : World) = w1
  have hl1 : w1.live = ⟨.hio, 0⟩ :: w.live := by subst hw1; rfl
  have hb1 : w1.bad = w.bad := by subst hw1; rfl
  have hf1 : w1.openFds = w.openFds + 1 := by subst hw1; rfl
  have ht1 : w1.tempFiles = w.tempFiles := by subst hw1; rfl
  rcases alloc_cases w1 ⟨.smixSub, w.nalloc + 1⟩ with hS | hS <;> rw [hS] <;> simp only
  · -- err1
    refine ⟨by simp [hioClose, hioCloseInternal, World.fcloseOwned, World.free, hl1, hb1],
      by simp [hioClose, hioCloseInternal, World.fcloseOwned, World.free, hl1, hf1],
      by simp [hioClose, hioCloseInternal, World.fcloseOwned, World.free, hl1, ht1],
      fun _ => ⟨by triv, fun u => by simp [hioClose, hioCloseInternal, World.fcloseOwned, World.free, hl1]⟩,
      fun h => absurd (by decide : errSystem < 0) h⟩
  generalize hw2 : ({ w1 with oracle := w1.oracle.tail, nalloc := w1.nalloc + 1, live := ⟨.smixSub, w.nalloc + 1⟩ :: w1.live } : World) = w2
  have hl2 : w2.live = ⟨.smixSub, w.nalloc + 1⟩ :: ⟨.hio, 0⟩ :: w.live := by subst hw2; simp [hl1]
  have hb2 : w2.bad = w.bad := by subst hw2; exact hb1
  have hf2 : w2.openFds = w.openFds + 1 := by subst hw2; exact hf1
  have ht2 : w2.tempFiles = w.tempFiles := by subst hw2; exact ht1
  by_cases hh : wav = .headerBad
  · simp only [hh, if_true]
    refine ⟨by simp [hioClose, hioCloseInternal, World.fcloseOwned, World.free, hl2, hb2, List.erase_cons],
      by simp [hioClose, hioCloseInternal, World.fcloseOwned, World.free, hl2, hf2, List.erase_cons],
      by simp [hioClose, hioCloseInternal, World.fcloseOwned, World.free, hl2, ht2, List.erase_cons],
      fun _ => ⟨by triv, fun u => by simp [hioClose, hioCloseInternal, World.fcloseOwned, World.free, hl2, List.erase_cons]⟩,
      fun h => absurd (by decide : errFormat < 0) h⟩
  simp only [hh, if_false]
  rcases alloc_cases w2 ⟨.smixData, w1.nalloc + 1⟩ with hD | hD <;> rw [hD] <;> simp only
  · refine ⟨by simp [hioClose, hioCloseInternal, World.fcloseOwned, World.free, hl2, hb2, List.erase_cons],
      by simp [hioClose, hioCloseInternal, World.fcloseOwned, World.free, hl2, hf2, List.erase_cons],
      by simp [hioClose, hioCloseInternal, World.fcloseOwned, World.free, hl2, ht2, List.erase_cons],
      fun _ => ⟨by triv, fun u => by simp [hioClose, hioCloseInternal, World.fcloseOwned, World.free, hl2, List.erase_cons]⟩,
      fun h => absurd (by decide : errSystem < 0) h⟩
  generalize hw3 : ({ w2 with oracle := w2.oracle.tail, nalloc := w2.nalloc + 1, live := ⟨.smixData, w1.nalloc + 1⟩ :: w2.live } : World) = w3
  have hl3 : w3.live = ⟨.smixData, w1.nalloc + 1⟩ :: ⟨.smixSub, w.nalloc + 1⟩ :: ⟨.hio, 0⟩ :: w.live := by subst hw3; simp [hl2]
  have hb3 : w3.bad = w.bad := by subst hw3; exact hb2
  have hf3 : w3.openFds = w.openFds + 1 := by subst hw3; exact hf2
  have ht3 : w3.tempFiles = w.tempFiles := by subst hw3; exact ht2
  by_cases hd : wav = .dataShort
  · simp only [hd, if_true]
    refine ⟨by simp [hioClose, hioCloseInternal, World.fcloseOwned, World.free, hl3, hb3, List.erase_cons],
      by simp [hioClose, hioCloseInternal, World.fcloseOwned, World.free, hl3, hf3, List.erase_cons],
      by simp [hioClose, hioCloseInternal, World.fcloseOwned, World.free, hl3, ht3, List.erase_cons],
      fun _ => ⟨by triv, fun u => by simp [hioClose, hioCloseInternal, World.fcloseOwned, World.free, hl3, List.erase_cons]⟩,
      fun h => absurd (by decide : errSystem < 0) h⟩
  simp only [hd, if_false]
  have hok : wav = .ok := by cases wav <;> simp_all
  -- hio_close
  generalize hw4 : hioClose {} { h := ⟨.hio, 0⟩, type := .file, noclose := false, stream := .ownedFile } w3 = w4
  have hl4 : w4.live = ⟨.smixData, w1.nalloc + 1⟩ :: ⟨.smixSub, w.nalloc + 1⟩ :: w.live := by
    subst hw4; simp [hioClose, hioCloseInternal, World.fcloseOwned, World.free, hl3, List.erase_cons]
  have hb4 : w4.bad = w.bad := by
    subst hw4; simp [hioClose, hioCloseInternal, World.fcloseOwned, World.free, hl3, hb3]
  have hf4 : w4.openFds = w.openFds := by
    subst hw4; simp [hioClose, hioCloseInternal, World.fcloseOwned, World.free, hl3, hf3]
  have ht4 : w4.tempFiles = w.tempFiles := by
    subst hw4; simp [hioClose, hioCloseInternal, World.fcloseOwned, World.free, hl3, ht3]
  have hset := smix_toks_set s num ⟨.smixSub, w.nalloc + 1⟩ ⟨.smixData, w1.nalloc + 1⟩ hn' hwf
  cases releaseOld
  · -- the old pointers are overwritten
    simp only [Bool.false_eq_true, if_false]
    refine ⟨hb4, hf4, ht4, fun h => by simp at h, fun _ => ⟨by triv, hn', by triv, by triv, hok, smix_wf_set s num _ _ hwf, by triv, by triv, ?_⟩⟩
    intro u
    have := hset u; have := hO u
    simp only [hl4, List.count_cons, List.count_nil] at *
    omega
  · simp only [if_true]
    have hsub : Sub (ptrs [s.datas.getD num none, s.subs.getD num none]) w4.live := by
      intro u
      have := hset u; have := hO u
      simp only [hl4, List.count_cons, List.count_nil] at *
      omega
    obtain ⟨a, _, _, d, e⟩ := freeAll_spec [s.datas.getD num none, s.subs.getD num none] w4 hsub
    have hfa : (w4.free (s.datas.getD num none)).free (s.subs.getD num none)
        = freeAll [s.datas.getD num none, s.subs.getD num none] w4 := rfl
    rw [hfa]
    obtain ⟨_, d2, d3⟩ := d
    refine ⟨by rw [a, hb4], by rw [d3, hf4], by rw [d2, ht4], fun h => by simp at h,
      fun _ => ⟨by triv, hn', by triv, by triv, hok, smix_wf_set s num _ _ hwf, by triv, by triv, ?_⟩⟩
    intro u
    have := e u; have := hset u; have := hO u
    simp only [hl4, List.count_cons, List.count_nil, Nat.add_zero] at *
    omega

end Xmp.Resource
