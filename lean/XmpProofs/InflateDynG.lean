import XmpModel.Inflate
import XmpProofs.InflateDyn
/-!
# Dynamic-block headers in full generality: any code-length code, repeat codes 16 / 17 / 18
-/
namespace Xmp.Inflate

/-- a token the header writer can emit when `acc` (reversed) has been transmitted so far -/
def ClTokOk (cll : List Nat) (acc : List Nat) (t : ClTok) : Prop :=
  (∀ l, t = .len l → l ≤ 15 ∧ SymOk cll l) ∧
  (∀ n, t = .rep n → 3 ≤ n ∧ n ≤ 6 ∧ acc ≠ [] ∧ SymOk cll 16) ∧
  (∀ n, t = .zeros n → 3 ≤ n ∧ n ≤ 138 ∧ (n ≤ 10 → SymOk cll 17) ∧ (10 < n → SymOk cll 18))

def ClToksOk (cll : List Nat) : List Nat → List ClTok → Prop
  | _, [] => True
  | acc, t :: ts => ClTokOk cll acc t ∧ ClToksOk cll (applyClTok acc t) ts

theorem lensStep_tok (cll : List Nat) (hc : CodeOk cll) (acc : List Nat) (t : ClTok) (ht : ClTokOk cll acc t)
    (pos : Nat) (r : Bits) :
    lensStep (huffOf cll) (encClTok cll t ++ r) pos acc =
      .ok (applyClTok acc t, r, pos + (encClTok cll t).length) := by
  cases t with
  | len l =>
    obtain ⟨hl, hs⟩ := ht.1 l rfl
    rw [lensStep, encClTok, decodeSym_code cll _ hc.mk_eq hc.complete l hs.1 hs.2 (hc.le15 _)]
    simp only []
    rw [if_pos (by omega : l < 16)]
    simp only [applyClTok, codeBits_length]
  | rep n =>
    obtain ⟨h3, h6, hne, hs⟩ := ht.2.1 n rfl
    rw [lensStep, encClTok, List.append_assoc, decodeSym_code cll _ hc.mk_eq hc.complete 16 hs.1 hs.2 (hc.le15 _)]
    simp only []
    have hlen : ¬ acc.length = 0 := fun h => hne (List.eq_nil_of_length_eq_zero h)
    simp only [Nat.lt_irrefl, true_and, hlen, if_false, if_true, show ¬ (16 : Nat) = 18 by decide]
    rw [readBits_bitsLSB 2 (n - 3) r (by omega)]
    simp only [applyClTok, List.length_append, codeBits_length, bitsLSB_length]
    have e : n - 3 + 3 = n := by omega
    rw [e, Nat.add_assoc]
  | zeros n =>
    obtain ⟨h3, h138, h17, h18⟩ := ht.2.2 n rfl
    by_cases hn : n ≤ 10
    · have hs := h17 hn
      rw [lensStep, encClTok, if_pos hn, List.append_assoc,
        decodeSym_code cll _ hc.mk_eq hc.complete 17 hs.1 hs.2 (hc.le15 _)]
      simp only []
      simp only [show ¬ (17 : Nat) < 16 by decide, show ¬ (17 : Nat) = 16 by decide, show ¬ (17 : Nat) = 18 by decide,
        false_and, if_false, if_true]
      rw [readBits_bitsLSB 3 (n - 3) r (by omega)]
      simp only [applyClTok, List.length_append, codeBits_length, bitsLSB_length]
      have e : n - 3 + 3 = n := by omega
      rw [e, Nat.add_assoc]
    · have hs := h18 (by omega)
      rw [lensStep, encClTok, if_neg hn, List.append_assoc,
        decodeSym_code cll _ hc.mk_eq hc.complete 18 hs.1 hs.2 (hc.le15 _)]
      simp only []
      simp only [show ¬ (18 : Nat) < 16 by decide, show ¬ (18 : Nat) = 16 by decide, show ¬ (18 : Nat) = 17 by decide,
        false_and, if_false, if_true]
      rw [readBits_bitsLSB 7 (n - 11) r (by omega)]
      simp only [applyClTok, List.length_append, codeBits_length, bitsLSB_length]
      have e : n - 11 + 11 = n := by omega
      rw [e, Nat.add_assoc]

theorem applyClTok_len (cll : List Nat) (acc : List Nat) (t : ClTok) (ht : ClTokOk cll acc t) :
    acc.length < (applyClTok acc t).length := by
  cases t with
  | len l => simp [applyClTok]
  | rep n => have := (ht.2.1 n rfl).1; simp [applyClTok]; omega
  | zeros n => have := (ht.2.2 n rfl).1; simp [applyClTok]; omega

theorem foldl_clTok_len (cll : List Nat) (acc : List Nat) (toks : List ClTok) (h : ClToksOk cll acc toks) :
    acc.length ≤ (toks.foldl applyClTok acc).length := by
  induction toks generalizing acc with
  | nil => simp
  | cons t ts ih =>
    have := applyClTok_len cll acc t h.1
    have := ih _ h.2
    simp only [List.foldl_cons]; omega

theorem readLens_toks (cll : List Nat) (hc : CodeOk cll) (toks : List ClTok) (acc : List Nat)
    (hok : ClToksOk cll acc toks) (total : Nat) (ht : (toks.foldl applyClTok acc).length = total)
    (f : Nat) (hf : toks.length < f) (pos : Nat) (r : Bits) :
    readLens (huffOf cll) total f (toks.flatMap (encClTok cll) ++ r) pos acc =
      .ok (toks.foldl applyClTok acc, r, pos + (toks.flatMap (encClTok cll)).length) := by
  induction toks generalizing acc f pos with
  | nil =>
    obtain ⟨f, rfl⟩ : ∃ m, f = m + 1 := ⟨f - 1, by simp at hf; omega⟩
    simp only [List.foldl_nil] at ht
    simp [readLens, ht]
  | cons t ts ih =>
    obtain ⟨f, rfl⟩ : ∃ m, f = m + 1 := ⟨f - 1, by simp at hf; omega⟩
    obtain ⟨h1, h2⟩ := hok
    have hlt := applyClTok_len cll acc t h1
    have hge := foldl_clTok_len cll _ ts h2
    simp only [List.foldl_cons] at ht
    have hnot : ¬ total ≤ acc.length := by omega
    simp only [List.flatMap_cons, List.append_assoc, List.foldl_cons]
    rw [readLens, if_neg hnot, lensStep_tok cll hc acc t h1 pos]
    simp only []
    rw [ih _ h2 ht f (by simp at hf; omega)]
    simp [Nat.add_assoc]


theorem clLensOf_perm (cll : List Nat) (h : cll.length = 19) :
    clLensOf ((dezigzag.map (fun z => (z, cll.getD z 0))).reverse ++ []) = cll := by
  match cll, h with
  | [a0, a1, a2, a3, a4, a5, a6, a7, a8, a9, a10, a11, a12, a13, a14, a15, a16, a17, a18], _ => rfl

theorem flatMap_encClTok_length (cll : List Nat) (toks : List ClTok) :
    (toks.flatMap (encClTok cll)).length = (toks.map (fun t => (encClTok cll t).length)).sum := by
  induction toks with
  | nil => rfl
  | cons t ts ih => simp [ih]

/-- **the general dynamic header is read back**: any complete code-length code with lengths ≤ 7, any legal
    sequence of length / repeat / zero-run tokens that transmits exactly `nlit + ndist` lengths -/
theorem readDynHeader_encG (cll : List Nat) (cltoks : List ClTok) (nlit : Nat)
    (hc : CodeOk cll) (h19 : cll.length = 19) (h7 : ∀ x ∈ cll, x ≤ 7) (hok : ClToksOk cll [] cltoks)
    (h1 : 257 ≤ nlit) (h2 : nlit ≤ 288) (h3 : nlit + 1 ≤ (clExpand cltoks).length)
    (h4 : (clExpand cltoks).length ≤ nlit + 32)
    (cl : CodeOk ((clExpand cltoks).take nlit)) (cd : CodeOk ((clExpand cltoks).drop nlit)) (pos : Nat) (r : Bits) :
    readDynHeader (encDynHeaderG cll cltoks nlit ++ r) pos =
      .ok (huffOf ((clExpand cltoks).take nlit), huffOf ((clExpand cltoks).drop nlit), r,
        pos + (encDynHeaderG cll cltoks nlit).length) := by
  have hg : ∀ z, cll.getD z 0 < 8 := by
    intro z
    rw [List.getD_eq_getElem?_getD]
    cases hz : cll[z]? with
    | none => decide
    | some x => have := h7 x (List.mem_of_getElem? hz); simp; omega
  have hlen : (clExpand cltoks).length = (cltoks.foldl applyClTok []).length := by simp [clExpand]
  have htot : nlit - 257 + 257 + ((clExpand cltoks).length - nlit - 1) + 1 = (cltoks.foldl applyClTok []).length := by
    omega
  have hfl : cltoks.length ≤ (cltoks.foldl applyClTok []).length := by
    have : ∀ (acc : List Nat) (ts : List ClTok), ClToksOk cll acc ts →
        acc.length + ts.length ≤ (ts.foldl applyClTok acc).length := by
      intro acc ts
      induction ts generalizing acc with
      | nil => intro _; simp
      | cons t ts ih =>
        intro h
        have := applyClTok_len cll acc t h.1
        have := ih _ h.2
        simp only [List.foldl_cons, List.length_cons]; omega
    simpa using this [] cltoks hok
  unfold readDynHeader encDynHeaderG
  simp only [List.append_assoc]
  rw [readBits_bitsLSB 5 _ _ (by omega)]
  simp only []
  rw [readBits_bitsLSB 5 _ _ (by omega)]
  simp only []
  rw [readBits_bitsLSB 4 15 _ (by decide)]
  simp only []
  rw [readClLens_enc (fun z => cll.getD z 0) hg dezigzag (15 + 4) (by decide)]
  simp only []
  rw [clLensOf_perm cll h19, hc.mk_eq]
  simp only []
  rw [readLens_toks cll hc cltoks [] hok _ htot.symm _ (by omega)]
  simp only []
  rw [if_neg (by omega)]
  have e1 : nlit - 257 + 257 = nlit := by omega
  have e2 : (clExpand cltoks).length - nlit - 1 + 1 = (clExpand cltoks).length - nlit := by omega
  have e3 : (cltoks.foldl applyClTok []).reverse = clExpand cltoks := rfl
  rw [e1, e2, e3]
  have e4 : ((clExpand cltoks).drop nlit).take ((clExpand cltoks).length - nlit) = (clExpand cltoks).drop nlit := by
    rw [List.take_of_length_le (by simp)]
  rw [e4, cd.mk_eq, cl.mk_eq]
  simp only []
  have h57 : (dezigzag.flatMap (fun z => bitsLSB 3 (cll.getD z 0))).length = 57 := by
    simp [dezigzag, bitsLSB_length]
  simp only [List.length_append, bitsLSB_length, h57]
  have e5 : pos + 14 + 3 * (15 + 4) + (cltoks.flatMap (encClTok cll)).length =
      pos + (5 + (5 + (4 + (57 + (cltoks.flatMap (encClTok cll)).length)))) := by omega
  rw [e5]

end Xmp.Inflate
