import XmpProofs.FmtIt
import XmpProofs.FmtS3m
/-!
# IT packed-pattern codec (channel mask / last-value compression)
-/
namespace Xmp.Fmt

theorem modAt_length {α : Type} (l : List α) (k : Nat) (f : α → α) : (modAt l k f).length = l.length := by
  induction l generalizing k with
  | nil => rfl
  | cons a l ih => cases k <;> simp [modAt, ih]

theorem getD_modAt_self {α : Type} (l : List α) (k : Nat) (f : α → α) (d : α) (h : k < l.length) :
    (modAt l k f).getD k d = f (l.getD k d) := by
  induction l generalizing k with
  | nil => simp at h
  | cons a l ih =>
    cases k with
    | zero => simp [modAt]
    | succ k => simp only [modAt, List.getD_cons_succ]; exact ih k (by simpa using h)

theorem getD_modAt_ne {α : Type} (l : List α) (k j : Nat) (f : α → α) (d : α) (h : j ≠ k) :
    (modAt l k f).getD j d = l.getD j d := by
  induction l generalizing k j with
  | nil => rfl
  | cons a l ih =>
    cases k with
    | zero =>
      cases j with
      | zero => exact absurd rfl h
      | succ j => simp [modAt]
    | succ k =>
      cases j with
      | zero => simp [modAt]
      | succ j => simp only [modAt, List.getD_cons_succ]; exact ih k j (by omega)

theorem modAt_getD_self {α : Type} (l : List α) (k : Nat) (d : α) : modAt l k (fun _ => l.getD k d) = l := by
  induction l generalizing k with
  | nil => rfl
  | cons a l ih =>
    cases k with
    | zero => simp [modAt]
    | succ k => simp only [modAt, List.getD_cons_succ]; rw [ih]

theorem getD_append_length {α : Type} (pre : List α) (x : α) (r : List α) (d : α) :
    (pre ++ x :: r).getD pre.length d = x := by
  induction pre with
  | nil => rfl
  | cons a pre ih => simp

theorem getD_replicate_self {α : Type} (n k : Nat) (a : α) : (List.replicate n a).getD k a = a := by
  induction n generalizing k with
  | zero => rfl
  | succ n ih =>
    cases k with
    | zero => rfl
    | succ k => rw [List.replicate_succ, List.getD_cons_succ]; exact ih k

end Xmp.Fmt

namespace Xmp.Fmt.It
open Xmp Xmp.Fmt

/-! ## the entry in explicit form -/

/-- mask byte from explicit flags: `h*` = the field is present, `l*` = sent as "same as last" -/
def maskG (hN lN hI lI hV lV hF : Bool) : Nat :=
  (if hN then (if lN then 0x10 else 1) else 0) + (if hI then (if lI then 0x20 else 2) else 0) +
  (if hV then (if lV then 0x40 else 4) else 0) + (if hF then 8 else 0)

def bodyG (nb ib vb : UInt8) (fx : Option (UInt8 × UInt8)) (hN lN hI lI hV lV : Bool) : Bytes :=
  (if hN && !lN then [nb] else []) ++ (if hI && !lI then [ib] else []) ++
  (if hV && !lV then [vb] else []) ++ (match fx with | some (a, b) => [a, b] | none => [])

/-- the event the reader builds from an empty event -/
def cellG (cs : ChanSt) (nb ib vb : UInt8) (hN lN hI lI hV lV : Bool) : Cell :=
  { note := if hN then (if lN then cs.note else decNote nb) else 0,
    ins := if hI then (if lI then cs.ins else ib.toNat) else 0,
    vol := if hV then (if lV then decVol cs.vol else decVol vb.toNat) else 0 }

/-- the reader's channel memory after the entry -/
def csG (cs : ChanSt) (m : Nat) (nb ib vb : UInt8) (hN lN hI lI hV lV : Bool) : ChanSt :=
  { mask := m, note := if hN && !lN then decNote nb else cs.note,
    ins := if hI && !lI then ib.toNat else cs.ins, vol := if hV && !lV then vb.toNat else cs.vol }

theorem maskG_lt (hN lN hI lI hV lV hF : Bool) : maskG hN lN hI lI hV lV hF < 128 := by
  unfold maskG; cases hN <;> cases lN <;> cases hI <;> cases lI <;> cases hV <;> cases lV <;> cases hF <;> decide

theorem maskG_zero (hN lN hI lI hV lV hF : Bool) (h : maskG hN lN hI lI hV lV hF = 0) :
    hN = false ∧ hI = false ∧ hV = false := by
  revert h; unfold maskG
  cases hN <;> cases lN <;> cases hI <;> cases lI <;> cases hV <;> cases lV <;> cases hF <;> simp

theorem bodyG_length (nb ib vb : UInt8) (fx : Option (UInt8 × UInt8)) (hN lN hI lI hV lV : Bool) :
    (bodyG nb ib vb fx hN lN hI lI hV lV).length =
      (if maskG hN lN hI lI hV lV fx.isSome % 2 = 1 then 1 else 0) +
      (if maskG hN lN hI lI hV lV fx.isSome / 2 % 2 = 1 then 1 else 0) +
      (if maskG hN lN hI lI hV lV fx.isSome / 4 % 2 = 1 then 1 else 0) +
      (if maskG hN lN hI lI hV lV fx.isSome / 8 % 2 = 1 then 2 else 0) := by
  unfold bodyG maskG
  rcases fx with _ | ⟨a, b⟩ <;>
    cases hN <;> cases lN <;> cases hI <;> cases lI <;> cases hV <;> cases lV <;> simp

theorem bodyG_length_le (nb ib vb : UInt8) (fx : Option (UInt8 × UInt8)) (hN lN hI lI hV lV : Bool) :
    (bodyG nb ib vb fx hN lN hI lI hV lV).length ≤ 5 := by
  unfold bodyG
  rcases fx with _ | ⟨a, b⟩ <;>
    cases hN <;> cases lN <;> cases hI <;> cases lI <;> cases hV <;> cases lV <;> simp

/-- the reader's field steps on an entry body -/
theorem fields_eval (cs : ChanSt) (nb ib vb : UInt8) (fx : Option (UInt8 × UInt8))
    (hN lN hI lI hV lV : Bool) (tail : Bytes) :
    fLast (fFx (fVol (fIns (fNote
      { bs := bodyG nb ib vb fx hN lN hI lI hV lV ++ tail, e := {},
        cs := { cs with mask := maskG hN lN hI lI hV lV fx.isSome }, brk := false })))) =
      { bs := tail, e := cellG cs nb ib vb hN lN hI lI hV lV,
        cs := csG cs (maskG hN lN hI lI hV lV fx.isSome) nb ib vb hN lN hI lI hV lV, brk := false } := by
  unfold bodyG maskG cellG csG
  rcases fx with _ | ⟨a, b⟩ <;>
    cases hN <;> cases lN <;> cases hI <;> cases lI <;> cases hV <;> cases lV <;>
      simp [fNote, fIns, fVol, fFx, fLast]

/-! ## the writer's entry in terms of the explicit form -/

def wN (c : Cell) : Bool := decide (c.note ≠ 0)
def wI (c : Cell) (o : CellOpt) : Bool := decide (c.ins ≠ 0) || o.forceIns
def wV (c : Cell) : Bool := decide (c.vol ≠ 0)
def wLN (c : Cell) (o : CellOpt) (w : WSt) : Bool :=
  wN c && decide (o.useLast % 2 = 1) && decide (w.note = some (encNote c.note o.fade))
def wLI (c : Cell) (o : CellOpt) (w : WSt) : Bool :=
  wI c o && decide (o.useLast / 2 % 2 = 1) && decide (w.ins = some (u8 c.ins))
def wLV (c : Cell) (o : CellOpt) (w : WSt) : Bool :=
  wV c && decide (o.useLast / 4 % 2 = 1) && decide (w.vol = some (u8 (c.vol - 1)))

/-- the entry's mask -/
def entryM (c : Cell) (o : CellOpt) (w : WSt) : Nat :=
  maskG (wN c) (wLN c o w) (wI c o) (wLI c o w) (wV c) (wLV c o w) o.fx.isSome

def entryBody (c : Cell) (o : CellOpt) (w : WSt) : Bytes :=
  bodyG (encNote c.note o.fade) (u8 c.ins) (u8 (c.vol - 1)) o.fx (wN c) (wLN c o w) (wI c o) (wLI c o w) (wV c) (wLV c o w)

def entryResend (c : Cell) (o : CellOpt) (w : WSt) : Bool := decide (w.mask ≠ some (entryM c o w)) || o.forceMask

def entryW (c : Cell) (o : CellOpt) (w : WSt) : WSt :=
  { mask := some (entryM c o w),
    note := if wN c && !wLN c o w then some (encNote c.note o.fade) else w.note,
    ins := if wI c o && !wLI c o w then some (u8 c.ins) else w.ins,
    vol := if wV c && !wLV c o w then some (u8 (c.vol - 1)) else w.vol }

theorem encEntry_eq (k : Nat) (c : Cell) (o : CellOpt) (w : WSt) :
    encEntry k c o w =
      if entryM c o w = 0 ∧ ¬ o.marker = true then ([], w)
      else ((if entryResend c o w then [u8 (k + 1 + 0x80), u8 (entryM c o w)] else [u8 (k + 1)]) ++ entryBody c o w,
            entryW c o w) := rfl

theorem encEntry_nil (k : Nat) (c : Cell) (o : CellOpt) (w : WSt) (h : entryM c o w = 0 ∧ o.marker = false) :
    encEntry k c o w = ([], w) := by
  rw [encEntry_eq, if_pos ⟨h.1, by simp [h.2]⟩]

theorem encEntry_cons (k : Nat) (c : Cell) (o : CellOpt) (w : WSt) (h : ¬ (entryM c o w = 0 ∧ o.marker = false)) :
    encEntry k c o w =
      ((if entryResend c o w then [u8 (k + 1 + 0x80), u8 (entryM c o w)] else [u8 (k + 1)]) ++ entryBody c o w,
       entryW c o w) := by
  rw [encEntry_eq, if_neg (by simpa using h)]

/-! ## coupling of the writer's and the reader's channel memories -/

structure Coupled (w : WSt) (c : ChanSt) : Prop where
  mask : ∀ m, w.mask = some m → c.mask = m
  note : ∀ b, w.note = some b → c.note = decNote b
  ins : ∀ b, w.ins = some b → c.ins = b.toNat
  vol : ∀ b, w.vol = some b → c.vol = b.toNat

theorem coupled_init : Coupled {} {} := by
  constructor <;> intro _ h <;> cases h

/-- the reader's event is the writer's cell -/
theorem cellG_entry (c : Cell) (hc : CellOk c) (o : CellOpt) (w : WSt) (cs : ChanSt) (hco : Coupled w cs) :
    cellG cs (encNote c.note o.fade) (u8 c.ins) (u8 (c.vol - 1))
      (wN c) (wLN c o w) (wI c o) (wLI c o w) (wV c) (wLV c o w) = c := by
  obtain ⟨note, ins, vol⟩ := c
  obtain ⟨hn, hi, hv⟩ := hc
  simp only at hn hi hv
  have e1 : (if wN ⟨note, ins, vol⟩ then (if wLN ⟨note, ins, vol⟩ o w then cs.note else decNote (encNote note o.fade)) else 0) = note := by
    unfold wLN wN
    by_cases h0 : note = 0
    · simp [h0]
    · have hd := decNote_encNote hn h0 o.fade
      simp only [ne_eq, h0, not_false_eq_true, decide_true, Bool.true_and, if_true, hd]
      split
      · rename_i hl
        simp only [Bool.and_eq_true, decide_eq_true_eq] at hl
        rw [hco.note _ hl.2, hd]
      · rfl
  have e2 : (if wI ⟨note, ins, vol⟩ o then (if wLI ⟨note, ins, vol⟩ o w then cs.ins else (u8 ins).toNat) else 0) = ins := by
    unfold wLI
    have hb := ins_byte hi
    by_cases h0 : wI ⟨note, ins, vol⟩ o = true
    · simp only [h0, Bool.true_and, if_true, hb]
      split
      · rename_i hl
        simp only [Bool.and_eq_true, decide_eq_true_eq] at hl
        rw [hco.ins _ hl.2, hb]
      · rfl
    · simp only [h0]
      unfold wI at h0
      simp at h0
      exact h0.1.symm
  have e3 : (if wV ⟨note, ins, vol⟩ then (if wLV ⟨note, ins, vol⟩ o w then decVol cs.vol else decVol (u8 (vol - 1)).toNat) else 0) = vol := by
    unfold wLV wV
    by_cases h0 : vol = 0
    · simp [h0]
    · have hd := decVol_encVol (v := vol) (by omega) hv
      simp only [ne_eq, h0, not_false_eq_true, decide_true, Bool.true_and, if_true, hd]
      split
      · rename_i hl
        simp only [Bool.and_eq_true, decide_eq_true_eq] at hl
        rw [hco.vol _ hl.2, hd]
      · rfl
  unfold cellG
  rw [e1, e2, e3]

/-- … and the memories stay coupled -/
theorem coupled_entry (c : Cell) (o : CellOpt) (w : WSt) (cs : ChanSt) (hco : Coupled w cs) :
    Coupled (entryW c o w)
      (csG cs (entryM c o w) (encNote c.note o.fade) (u8 c.ins) (u8 (c.vol - 1))
        (wN c) (wLN c o w) (wI c o) (wLI c o w) (wV c) (wLV c o w)) := by
  unfold entryW csG
  constructor
  · intro m h; simp only [Option.some.injEq] at h; exact h
  · intro b h
    simp only at h ⊢
    split at h
    · rename_i hx; simp only [hx, if_true]; cases h; rfl
    · rename_i hx; simp only [hx]; exact hco.note b h
  · intro b h
    simp only at h ⊢
    split at h
    · rename_i hx; simp only [hx, if_true]; cases h; rfl
    · rename_i hx; simp only [hx]; exact hco.ins b h
  · intro b h
    simp only at h ⊢
    split at h
    · rename_i hx; simp only [hx, if_true]; cases h; rfl
    · rename_i hx; simp only [hx]; exact hco.vol b h

/-- an omitted entry stands for the empty cell -/
theorem cell_of_entryM_zero (c : Cell) (o : CellOpt) (w : WSt) (h : entryM c o w = 0) : c = {} := by
  obtain ⟨note, ins, vol⟩ := c
  obtain ⟨h1, h2, h3⟩ := maskG_zero _ _ _ _ _ _ _ h
  unfold wN at h1; unfold wI at h2; unfold wV at h3
  simp at h1 h2 h3
  simp [h1, h2.1, h3]

/-! ## the reader on one entry -/

theorem u8_ne_zero {x : Nat} (h1 : 0 < x) (h2 : x < 256) : ¬ u8 x = 0 := by
  intro hh
  have h0 := congrArg UInt8.toNat hh
  rw [u8_toNat_lt h2] at h0
  have z : (0 : UInt8).toNat = 0 := rfl
  omega

theorem unpackGo_entry (chn f n k : Nat) (hk : k < chn) (hk64 : k < 64) (rs : Bool) (m : Nat) (hm : m < 256)
    (row : List Cell) (st : List ChanSt) (hmask : rs = false → (st.getD k {}).mask = m)
    (data : Bytes) (a : Acc)
    (ha : fLast (fFx (fVol (fIns (fNote
      { bs := data, e := row.getD k {}, cs := { st.getD k {} with mask := m }, brk := false })))) = a)
    (hbrk : a.brk = false) :
    unpackGo chn (f + 1) ((if rs then [u8 (k + 1 + 0x80), u8 m] else [u8 (k + 1)]) ++ data) (n + 1) row st =
      unpackGo chn f a.bs (n + 1) (modAt row k fun _ => a.e) (modAt st k fun _ => a.cs) := by
  cases rs with
  | true =>
    have h0 := u8_ne_zero (x := k + 1 + 0x80) (by omega) (by omega)
    have ht : (u8 (k + 1 + 0x80)).toNat = k + 1 + 0x80 := u8_toNat_lt (by omega)
    have hc : (k + 1 + 0x80 - 1) % 64 = k := by omega
    have hge : k + 1 + 0x80 ≥ 0x80 := by omega
    simp only [if_true, List.cons_append, List.nil_append]
    rw [unpackGo]
    simp only [h0, if_false, ht, hc, hge, if_true, u8_toNat_lt hm, ha, hbrk, hk]
    simp
  | false =>
    have h0 := u8_ne_zero (x := k + 1) (by omega) (by omega)
    have ht : (u8 (k + 1)).toNat = k + 1 := u8_toNat_lt (by omega)
    have hc : (k + 1 - 1) % 64 = k := by omega
    have hge : ¬ k + 1 ≥ 0x80 := by omega
    have hcs : ({ st.getD k {} with mask := m } : ChanSt) = st.getD k {} := by
      have := hmask rfl
      cases hx : st.getD k {}
      rw [hx] at this
      simp only at this
      simp [this]
    rw [hcs] at ha
    simp only [Bool.false_eq_true, if_false, List.cons_append, List.nil_append]
    rw [unpackGo]
    simp only [h0, if_false, ht, hc, hge, ha, hbrk, hk, if_true]
    simp

def CoupledAll (ws : List WSt) (st : List ChanSt) : Prop :=
  ws.length = 64 ∧ st.length = 64 ∧ ∀ k, k < 64 → Coupled (ws.getD k {}) (st.getD k {})

theorem coupledAll_init : CoupledAll (List.replicate 64 {}) (List.replicate 64 {}) := by
  refine ⟨by simp, by simp, ?_⟩
  intro k hk
  rw [getD_replicate_self, getD_replicate_self]; exact coupled_init

theorem coupledAll_modAt {ws : List WSt} {st : List ChanSt} (h : CoupledAll ws st) (k : Nat) (hk : k < 64)
    (w' : WSt) (c' : ChanSt) (hc : Coupled w' c') :
    CoupledAll (modAt ws k fun _ => w') (modAt st k fun _ => c') := by
  obtain ⟨h1, h2, h3⟩ := h
  refine ⟨by rw [modAt_length, h1], by rw [modAt_length, h2], ?_⟩
  intro j hj
  by_cases hjk : j = k
  · subst hjk
    rw [getD_modAt_self _ _ _ _ (by omega), getD_modAt_self _ _ _ _ (by omega)]; exact hc
  · rw [getD_modAt_ne _ _ _ _ _ hjk, getD_modAt_ne _ _ _ _ _ hjk]; exact h3 j hj

theorem entryM_lt (c : Cell) (o : CellOpt) (w : WSt) : entryM c o w < 128 := maskG_lt _ _ _ _ _ _ _

theorem encEntry_length_le (k : Nat) (c : Cell) (o : CellOpt) (w : WSt) : (encEntry k c o w).1.length ≤ 7 := by
  rw [encEntry_eq]
  have := bodyG_length_le (encNote c.note o.fade) (u8 c.ins) (u8 (c.vol - 1)) o.fx
    (wN c) (wLN c o w) (wI c o) (wLI c o w) (wV c) (wLV c o w)
  split
  · simp
  · simp only [List.length_append, entryBody]
    split <;> simp <;> omega

/-- **entry lemma**: decoding the writer's entry of channel `k = pre.length` (possibly omitted) from coupled
memories, with the row cell of channel `k` still empty, stores the cell, consumes exactly the entry's
bytes and keeps the memories coupled. -/
theorem entry_rt (chn : Nat) (hchn : chn ≤ 64) (c : Cell) (hc : CellOk c) (o : CellOpt)
    (pre post : List Cell) (hk : pre.length < chn) (ws : List WSt) (st : List ChanSt) (hco : CoupledAll ws st)
    (rest : Bytes) (fuel n : Nat)
    (hf : (encEntry pre.length c o (ws.getD pre.length {})).1.length + 1 ≤ fuel) :
    ∃ fuel' st',
      unpackGo chn fuel ((encEntry pre.length c o (ws.getD pre.length {})).1 ++ rest) (n + 1)
          (pre ++ ({} : Cell) :: post) st =
        unpackGo chn fuel' rest (n + 1) (pre ++ c :: post) st' ∧
      fuel - (encEntry pre.length c o (ws.getD pre.length {})).1.length ≤ fuel' ∧
      CoupledAll (modAt ws pre.length fun _ => (encEntry pre.length c o (ws.getD pre.length {})).2) st' := by
  have hk64 : pre.length < 64 := by omega
  have hcok := hco.2.2 pre.length hk64
  generalize hw : ws.getD pre.length {} = w at *
  by_cases h : entryM c o w = 0 ∧ o.marker = false
  · rw [encEntry_nil _ _ _ _ h]
    have hce := cell_of_entryM_zero c o w h.1
    subst hce
    refine ⟨fuel, st, by simp, by simp, ?_⟩
    simp only
    rw [← hw, modAt_getD_self]; exact hco
  · rw [encEntry_cons _ _ _ _ h] at hf ⊢
    simp only at hf ⊢
    obtain ⟨f, rfl⟩ : ∃ f, fuel = f + 1 := ⟨fuel - 1, by omega⟩
    have hrow : (pre ++ ({} : Cell) :: post).getD pre.length {} = {} := getD_append_length _ _ _ _
    have hfe := fields_eval (st.getD pre.length {}) (encNote c.note o.fade) (u8 c.ins) (u8 (c.vol - 1)) o.fx
      (wN c) (wLN c o w) (wI c o) (wLI c o w) (wV c) (wLV c o w) rest
    have hstep := unpackGo_entry chn f n pre.length hk hk64 (entryResend c o w) (entryM c o w)
      (by have := entryM_lt c o w; omega) (pre ++ ({} : Cell) :: post) st
      (by
        intro hr
        unfold entryResend at hr
        simp only [Bool.or_eq_false_iff, decide_eq_false_iff_not, ne_eq, Decidable.not_not] at hr
        exact hcok.mask _ hr.1)
      (entryBody c o w ++ rest)
      { bs := rest, e := cellG (st.getD pre.length {}) (encNote c.note o.fade) (u8 c.ins) (u8 (c.vol - 1))
          (wN c) (wLN c o w) (wI c o) (wLI c o w) (wV c) (wLV c o w),
        cs := csG (st.getD pre.length {}) (entryM c o w) (encNote c.note o.fade) (u8 c.ins) (u8 (c.vol - 1))
          (wN c) (wLN c o w) (wI c o) (wLI c o w) (wV c) (wLV c o w), brk := false }
      (by rw [hrow]; exact hfe) rfl
    rw [List.append_assoc, hstep]
    simp only
    rw [modAt_append, cellG_entry c hc o w _ hcok]
    refine ⟨f, _, rfl, ?_, ?_⟩
    · simp only [List.length_append]; split <;> simp <;> omega
    · exact coupledAll_modAt hco _ hk64 _ _ (coupled_entry c o w _ hcok)

/-! ## rows -/

theorem encRowFrom_cons (opt : Nat → CellOpt) (c : Cell) (cs : List Cell) (k i : Nat) (ws : List WSt) :
    encRowFrom opt (c :: cs) k i ws =
      ((encEntry k c (opt i) (ws.getD k {})).1 ++
         (encRowFrom opt cs (k + 1) (i + 1) (modAt ws k fun _ => (encEntry k c (opt i) (ws.getD k {})).2)).1,
       (encRowFrom opt cs (k + 1) (i + 1) (modAt ws k fun _ => (encEntry k c (opt i) (ws.getD k {})).2)).2) := rfl

theorem encRows_succ (chn : Nat) (opt : Nat → CellOpt) (n : Nat) (cells : List Cell) (i : Nat) (ws : List WSt) :
    encRows chn opt (n + 1) cells i ws =
      (encRowFrom opt (cells.take chn) 0 i ws).1 ++ [0] ++
        encRows chn opt n (cells.drop chn) (i + chn) (encRowFrom opt (cells.take chn) 0 i ws).2 := rfl

/-- **row lemma**: the entries of the remaining channels followed by the end-of-row byte -/
theorem row_rt (chn : Nat) (hchn : chn ≤ 64) (opt : Nat → CellOpt)
    (cs : List Cell) (hcs : ∀ c ∈ cs, CellOk c) (pre : List Cell) (k i : Nat) (hpre : pre.length = k)
    (hk : k + cs.length = chn) (ws : List WSt) (st : List ChanSt) (hco : CoupledAll ws st)
    (tail : Bytes) (fuel n : Nat) (hf : (encRowFrom opt cs k i ws).1.length + 1 ≤ fuel) :
    ∃ fuel' st',
      unpackGo chn fuel ((encRowFrom opt cs k i ws).1 ++ 0 :: tail) (n + 1)
          (pre ++ List.replicate cs.length ({} : Cell)) st =
        (pre ++ cs) :: unpackGo chn fuel' tail n (emptyRow chn) st' ∧
      fuel - (encRowFrom opt cs k i ws).1.length - 1 ≤ fuel' ∧
      CoupledAll (encRowFrom opt cs k i ws).2 st' := by
  induction cs generalizing pre k i fuel ws st with
  | nil =>
    obtain ⟨f, rfl⟩ : ∃ f, fuel = f + 1 := ⟨fuel - 1, by omega⟩
    refine ⟨f, st, ?_, by simp [encRowFrom], by simpa [encRowFrom] using hco⟩
    simp [encRowFrom, unpackGo]
  | cons c cs ih =>
    subst hpre
    have hc : CellOk c := hcs c (by simp)
    have hkc : pre.length < chn := by simp at hk; omega
    rw [encRowFrom_cons] at hf ⊢
    simp only [List.length_append] at hf ⊢
    have hrow : pre ++ List.replicate (c :: cs).length ({} : Cell) = pre ++ ({} : Cell) :: List.replicate cs.length {} := by
      simp [List.replicate_succ]
    obtain ⟨f1, st1, e1, hf1, hco1⟩ := entry_rt chn hchn c hc (opt i) pre (List.replicate cs.length {}) hkc ws st hco
      ((encRowFrom opt cs (pre.length + 1) (i + 1)
          (modAt ws pre.length fun _ => (encEntry pre.length c (opt i) (ws.getD pre.length {})).2)).1 ++ 0 :: tail)
      fuel n (by omega)
    obtain ⟨f2, st2, e2, hf2, hco2⟩ := ih (fun c hc => hcs c (by simp [hc])) (pre ++ [c]) (pre.length + 1) (i + 1)
      (by simp) (by simp at hk ⊢; omega) _ st1 hco1 f1 (by omega)
    refine ⟨f2, st2, ?_, by omega, hco2⟩
    rw [hrow, List.append_assoc, e1]
    have hnext : (pre ++ [c]) ++ List.replicate cs.length ({} : Cell) = pre ++ c :: List.replicate cs.length {} := by simp
    have hdone : (pre ++ [c]) ++ cs = pre ++ c :: cs := by simp
    rw [← hnext, e2, hdone]

/-- **rows lemma** -/
theorem rows_rt (chn : Nat) (hc : 1 ≤ chn ∧ chn ≤ 64) (opt : Nat → CellOpt)
    (n : Nat) (cells : List Cell) (hl : cells.length = n * chn) (hcs : ∀ c ∈ cells, CellOk c) (i : Nat)
    (ws : List WSt) (st : List ChanSt) (hco : CoupledAll ws st)
    (tail : Bytes) (fuel : Nat) (hf : (encRows chn opt n cells i ws).length ≤ fuel) :
    (unpackGo chn fuel (encRows chn opt n cells i ws ++ tail) n (emptyRow chn) st).flatten = cells := by
  induction n generalizing cells i fuel ws st with
  | zero =>
    have : cells = [] := List.eq_nil_of_length_eq_zero (by simpa using hl)
    subst this
    cases fuel <;> simp [unpackGo]
  | succ n ih =>
    have hlen : chn ≤ cells.length := by rw [hl]; exact Nat.le_mul_of_pos_left chn (by omega)
    have htake : (cells.take chn).length = chn := by simp [List.length_take]; omega
    rw [encRows_succ] at hf ⊢
    simp only [List.length_append, List.length_cons, List.length_nil] at hf
    obtain ⟨f1, st1, e1, hf1, hco1⟩ := row_rt chn hc.2 opt (cells.take chn)
      (fun c hc => hcs c (List.mem_of_mem_take hc)) [] 0 i rfl (by simp [htake]) ws st hco
      (encRows chn opt n (cells.drop chn) (i + chn) (encRowFrom opt (cells.take chn) 0 i ws).2 ++ tail)
      fuel n (by omega)
    have h2 := ih (cells.drop chn) (by simp [List.length_drop, hl, Nat.add_mul])
      (fun c hc => hcs c (List.mem_of_mem_drop hc)) (i + chn) _ st1 hco1 f1 (by omega)
    simp only [List.nil_append, htake] at e1
    simp only [List.append_assoc, List.cons_append, List.nil_append]
    unfold emptyRow at e1 h2 ⊢
    rw [e1, List.flatten_cons, h2, List.take_append_drop]

/-- **IT pattern codec**: the packed pattern data, written with any choice of mask resends, "same as
last" bits, redundant instrument fields, opaque effects, note-fade codes and field-less marker entries,
unpacks to the pattern's cells. -/
theorem unpackData_pack (chn : Nat) (p : Pat) (opt : Nat → CellOpt) (i : Nat)
    (hc : 1 ≤ chn ∧ chn ≤ 64) (hp : PatOk chn p) :
    (unpackData chn p.rows (pack chn p opt i)).flatten = p.cells := by
  obtain ⟨_, _, hlen, hcells⟩ := hp
  unfold unpackData pack
  have := rows_rt chn hc opt p.rows p.cells hlen hcells i _ _ coupledAll_init []
    ((encRows chn opt p.rows p.cells i (List.replicate 64 {})).length + 1) (by omega)
  simpa using this

/-! ## length -/

theorem encRowFrom_length_le (opt : Nat → CellOpt) (cs : List Cell) (k i : Nat) (ws : List WSt) :
    (encRowFrom opt cs k i ws).1.length ≤ 7 * cs.length := by
  induction cs generalizing k i ws with
  | nil => simp [encRowFrom]
  | cons c cs ih =>
    rw [encRowFrom_cons]
    have h1 := encEntry_length_le k c (opt i) (ws.getD k {})
    have h2 := ih (k + 1) (i + 1) (modAt ws k fun _ => (encEntry k c (opt i) (ws.getD k {})).2)
    simp only [List.length_append, List.length_cons]; omega

theorem encRows_length_le (chn : Nat) (opt : Nat → CellOpt) (n : Nat) (cells : List Cell) (i : Nat) (ws : List WSt) :
    (encRows chn opt n cells i ws).length ≤ n * (7 * chn + 1) := by
  induction n generalizing cells i ws with
  | zero => simp [encRows]
  | succ n ih =>
    rw [encRows_succ]
    have h1 := encRowFrom_length_le opt (cells.take chn) 0 i ws
    have h2 := ih (cells.drop chn) (i + chn) (encRowFrom opt (cells.take chn) 0 i ws).2
    have h3 : (cells.take chn).length ≤ chn := by simp [List.length_take]; omega
    simp only [List.length_append, List.length_cons, List.length_nil]
    rw [Nat.add_mul]; omega

/-- header ≤ 2 bytes, note, instrument, volume ≤ 1 byte each, effect 2 bytes; one end-of-row byte per row -/
theorem pack_length_le (chn : Nat) (p : Pat) (opt : Nat → CellOpt) (i : Nat) :
    (pack chn p opt i).length ≤ p.rows * (7 * chn + 1) :=
  encRows_length_le chn opt p.rows p.cells i _

/-! ## the channel-count scan (first pass of `it_load`) on the writer's data -/

/-- field bytes the scan skips for a mask -/
def skipOf (mk : Nat) : Nat :=
  (if mk % 2 = 1 then 1 else 0) + (if mk / 2 % 2 = 1 then 1 else 0) +
  (if mk / 4 % 2 = 1 then 1 else 0) + (if mk / 8 % 2 = 1 then 2 else 0)

theorem scanGo_ge (f : Nat) (d : Bytes) (n : Nat) (masks : List Nat) (mx : Nat) : mx ≤ scanGo f d n masks mx := by
  induction f generalizing d n masks mx with
  | zero => simp [scanGo]
  | succ f ih =>
    cases n with
    | zero => simp [scanGo]
    | succ n =>
      cases d with
      | nil => simp [scanGo]
      | cons b bs =>
        rw [scanGo]
        split
        · exact ih _ _ _ _
        · simp only
          split
          · cases bs with
            | nil => simp only; split <;> omega
            | cons m r =>
              simp only
              refine Nat.le_trans ?_ (ih _ _ _ _)
              split <;> omega
          · refine Nat.le_trans ?_ (ih _ _ _ _)
            split <;> omega

theorem scanGo_entry (f n k : Nat) (hk64 : k < 64) (rs : Bool) (m : Nat) (hm : m < 256)
    (masks : List Nat) (hmask : rs = false → masks.getD k 0 = m)
    (body rest : Bytes) (hbody : body.length = skipOf m) (mx : Nat) :
    scanGo (f + 1) ((if rs then [u8 (k + 1 + 0x80), u8 m] else [u8 (k + 1)]) ++ (body ++ rest)) (n + 1) masks mx =
      scanGo f rest (n + 1) (modAt masks k fun _ => m) (if k > mx then k else mx) := by
  cases rs with
  | true =>
    have h0 := u8_ne_zero (x := k + 1 + 0x80) (by omega) (by omega)
    have ht : (u8 (k + 1 + 0x80)).toNat = k + 1 + 0x80 := u8_toNat_lt (by omega)
    have hc : (k + 1 + 0x80 - 1) % 64 = k := by omega
    have hge : k + 1 + 0x80 ≥ 0x80 := by omega
    simp only [if_true, List.cons_append, List.nil_append]
    rw [scanGo]
    simp only [h0, if_false, ht, hc, hge, if_true, u8_toNat_lt hm]
    unfold skipOf at hbody
    rw [← hbody, List.drop_left]
  | false =>
    have h0 := u8_ne_zero (x := k + 1) (by omega) (by omega)
    have ht : (u8 (k + 1)).toNat = k + 1 := u8_toNat_lt (by omega)
    have hc : (k + 1 - 1) % 64 = k := by omega
    have hge : ¬ k + 1 ≥ 0x80 := by omega
    have hmk := hmask rfl
    have hself : (modAt masks k fun _ => m) = masks := by rw [← hmk, modAt_getD_self]
    simp only [Bool.false_eq_true, if_false, List.cons_append, List.nil_append]
    rw [scanGo]
    simp only [h0, if_false, ht, hc, hge, hmk, hself]
    unfold skipOf at hbody
    rw [← hbody, List.drop_left]

/-- scan-side coupling: the scan's `mask[]` array against the writer's last sent masks -/
def MaskCoupled (ws : List WSt) (masks : List Nat) : Prop :=
  ws.length = 64 ∧ masks.length = 64 ∧ ∀ k, k < 64 → ∀ m, (ws.getD k {}).mask = some m → masks.getD k 0 = m

theorem maskCoupled_init : MaskCoupled (List.replicate 64 {}) (List.replicate 64 0) := by
  refine ⟨by simp, by simp, ?_⟩
  intro k _ m h
  rw [getD_replicate_self] at h; cases h

theorem maskCoupled_modAt {ws : List WSt} {masks : List Nat} (h : MaskCoupled ws masks) (k : Nat) (hk : k < 64)
    (w' : WSt) (m : Nat) (hw : w'.mask = some m) :
    MaskCoupled (modAt ws k fun _ => w') (modAt masks k fun _ => m) := by
  obtain ⟨h1, h2, h3⟩ := h
  refine ⟨by rw [modAt_length, h1], by rw [modAt_length, h2], ?_⟩
  intro j hj
  by_cases hjk : j = k
  · subst hjk
    rw [getD_modAt_self _ _ _ _ (by omega), getD_modAt_self _ _ _ _ (by omega)]
    intro m' hm'; rw [hw] at hm'; cases hm'; rfl
  · rw [getD_modAt_ne _ _ _ _ _ hjk, getD_modAt_ne _ _ _ _ _ hjk]; exact h3 j hj

/-- the scan on one (possibly omitted) writer entry of channel `k` -/
theorem scan_entry_rt (k : Nat) (hk64 : k < 64) (c : Cell) (o : CellOpt)
    (ws : List WSt) (masks : List Nat) (hco : MaskCoupled ws masks) (rest : Bytes) (fuel n mx : Nat)
    (hf : (encEntry k c o (ws.getD k {})).1.length + 1 ≤ fuel) :
    ∃ fuel' masks' mx',
      scanGo fuel ((encEntry k c o (ws.getD k {})).1 ++ rest) (n + 1) masks mx = scanGo fuel' rest (n + 1) masks' mx' ∧
      fuel - (encEntry k c o (ws.getD k {})).1.length ≤ fuel' ∧
      MaskCoupled (modAt ws k fun _ => (encEntry k c o (ws.getD k {})).2) masks' ∧
      mx ≤ mx' ∧ mx' ≤ max mx k ∧ (o.marker = true → k ≤ mx') := by
  have hcok := hco.2.2 k hk64
  generalize hw : ws.getD k {} = w at *
  by_cases h : entryM c o w = 0 ∧ o.marker = false
  · rw [encEntry_nil _ _ _ _ h]
    refine ⟨fuel, masks, mx, by simp, by simp, ?_, Nat.le_refl _, by omega, by simp [h.2]⟩
    simp only
    rw [← hw, modAt_getD_self]; exact hco
  · rw [encEntry_cons _ _ _ _ h] at hf ⊢
    simp only at hf ⊢
    obtain ⟨f, rfl⟩ : ∃ f, fuel = f + 1 := ⟨fuel - 1, by omega⟩
    have hstep := scanGo_entry f n k hk64 (entryResend c o w) (entryM c o w)
      (by have := entryM_lt c o w; omega) masks
      (by
        intro hr
        unfold entryResend at hr
        simp only [Bool.or_eq_false_iff, decide_eq_false_iff_not, ne_eq, Decidable.not_not] at hr
        exact hcok _ hr.1)
      (entryBody c o w) rest (by unfold entryBody skipOf entryM; exact bodyG_length ..) mx
    rw [List.append_assoc, hstep]
    refine ⟨f, _, _, rfl, ?_, maskCoupled_modAt hco k hk64 _ _ rfl, ?_, ?_, ?_⟩
    · simp only [List.length_append]; split <;> simp <;> omega
    · split <;> omega
    · split <;> omega
    · intro _; split <;> omega

/-- the scan on the rest of a row -/
theorem scan_row_rt (chn : Nat) (hchn : chn ≤ 64) (opt : Nat → CellOpt) (cs : List Cell) (k i : Nat)
    (hk : k + cs.length ≤ chn) (ws : List WSt) (masks : List Nat) (hco : MaskCoupled ws masks)
    (tail : Bytes) (fuel n mx : Nat) (hf : (encRowFrom opt cs k i ws).1.length + 1 ≤ fuel) :
    ∃ fuel' masks' mx',
      scanGo fuel ((encRowFrom opt cs k i ws).1 ++ 0 :: tail) (n + 1) masks mx = scanGo fuel' tail n masks' mx' ∧
      fuel - (encRowFrom opt cs k i ws).1.length - 1 ≤ fuel' ∧
      MaskCoupled (encRowFrom opt cs k i ws).2 masks' ∧
      mx ≤ mx' ∧ mx' ≤ max mx (chn - 1) ∧ (∀ j, j < cs.length → (opt (i + j)).marker = true → k + j ≤ mx') := by
  induction cs generalizing k i fuel ws masks mx with
  | nil =>
    obtain ⟨f, rfl⟩ : ∃ f, fuel = f + 1 := ⟨fuel - 1, by omega⟩
    refine ⟨f, masks, mx, ?_, by simp [encRowFrom], by simpa [encRowFrom] using hco, Nat.le_refl _, by omega, by simp⟩
    simp [encRowFrom, scanGo]
  | cons c cs ih =>
    have hkc : k < chn := by simp at hk; omega
    rw [encRowFrom_cons] at hf ⊢
    simp only [List.length_append] at hf ⊢
    obtain ⟨f1, masks1, mx1, e1, hf1, hco1, hge1, hle1, hmk1⟩ := scan_entry_rt k (by omega) c (opt i) ws masks hco
      ((encRowFrom opt cs (k + 1) (i + 1)
          (modAt ws k fun _ => (encEntry k c (opt i) (ws.getD k {})).2)).1 ++ 0 :: tail)
      fuel n mx (by omega)
    obtain ⟨f2, masks2, mx2, e2, hf2, hco2, hge2, hle2, hmk2⟩ := ih (k + 1) (i + 1)
      (by simp at hk ⊢; omega) _ masks1 hco1 f1 mx1 (by omega)
    refine ⟨f2, masks2, mx2, ?_, by omega, hco2, by omega, by omega, ?_⟩
    · rw [List.append_assoc, e1, e2]
    · intro j hj hm
      cases j with
      | zero => have := hmk1 hm; omega
      | succ j =>
        have := hmk2 j (by simpa using hj) (by rw [show i + 1 + j = i + (j + 1) by omega]; exact hm)
        omega

theorem scan_rows_le (chn : Nat) (hchn : chn ≤ 64) (opt : Nat → CellOpt) (n : Nat) (cells : List Cell) (i : Nat)
    (ws : List WSt) (masks : List Nat) (hco : MaskCoupled ws masks) (tail : Bytes) (fuel mx : Nat)
    (hf : (encRows chn opt n cells i ws).length ≤ fuel) (hmx : mx ≤ chn - 1) :
    scanGo fuel (encRows chn opt n cells i ws ++ tail) n masks mx ≤ chn - 1 := by
  induction n generalizing cells i fuel ws masks mx with
  | zero => cases fuel <;> simpa [scanGo] using hmx
  | succ n ih =>
    have h3 : (cells.take chn).length ≤ chn := by simp [List.length_take]; omega
    rw [encRows_succ] at hf ⊢
    simp only [List.length_append, List.length_cons, List.length_nil] at hf
    obtain ⟨f1, masks1, mx1, e1, hf1, hco1, hge1, hle1, _⟩ := scan_row_rt chn hchn opt (cells.take chn) 0 i
      (by omega) ws masks hco
      (encRows chn opt n (cells.drop chn) (i + chn) (encRowFrom opt (cells.take chn) 0 i ws).2 ++ tail)
      fuel n mx (by omega)
    simp only [List.append_assoc, List.cons_append, List.nil_append]
    rw [e1]
    exact ih _ _ _ _ hco1 f1 mx1 (by omega) (by omega)

/-- first pass of `it_load`: the scan never sees a channel ≥ `chn` in the writer's data -/
theorem scanGo_pack_le (chn : Nat) (p : Pat) (opt : Nat → CellOpt) (i : Nat) (mx : Nat)
    (hc : 1 ≤ chn ∧ chn ≤ 64) (_hp : PatOk chn p) (hmx : mx ≤ chn - 1) :
    scanGo ((pack chn p opt i).length + 1) (pack chn p opt i) p.rows (List.replicate 64 0) mx ≤ chn - 1 := by
  unfold pack
  have := scan_rows_le chn hc.2 opt p.rows p.cells i _ _ maskCoupled_init []
    ((encRows chn opt p.rows p.cells i (List.replicate 64 {})).length + 1) mx (by omega) hmx
  simpa using this

/-- … and finds channel `chn - 1` when the writer emits the (possibly field-less) marker entry for the
last channel of row 0 -/
theorem scanGo_pack_marker (chn : Nat) (p : Pat) (opt : Nat → CellOpt) (i : Nat) (mx : Nat)
    (hc : 1 ≤ chn ∧ chn ≤ 64) (hp : PatOk chn p) (hmx : mx ≤ chn - 1)
    (hm : (opt (i + chn - 1)).marker = true) :
    scanGo ((pack chn p opt i).length + 1) (pack chn p opt i) p.rows (List.replicate 64 0) mx = chn - 1 := by
  apply Nat.le_antisymm (scanGo_pack_le chn p opt i mx hc hp hmx)
  obtain ⟨hr1, _, hlen, _⟩ := hp
  unfold pack
  obtain ⟨n, hn⟩ : ∃ n, p.rows = n + 1 := ⟨p.rows - 1, by omega⟩
  rw [hn] at hlen ⊢
  have hlen' : chn ≤ p.cells.length := by rw [hlen]; exact Nat.le_mul_of_pos_left chn (by omega)
  have htake : (p.cells.take chn).length = chn := by simp [List.length_take]; omega
  rw [encRows_succ]
  obtain ⟨f1, masks1, mx1, e1, _, _, _, _, hmk1⟩ := scan_row_rt chn hc.2 opt (p.cells.take chn) 0 i
    (by omega) _ _ maskCoupled_init
    (encRows chn opt n (p.cells.drop chn) (i + chn) (encRowFrom opt (p.cells.take chn) 0 i (List.replicate 64 {})).2)
    (((encRowFrom opt (p.cells.take chn) 0 i (List.replicate 64 {})).1 ++ [0] ++
      encRows chn opt n (p.cells.drop chn) (i + chn) (encRowFrom opt (p.cells.take chn) 0 i (List.replicate 64 {})).2).length + 1)
    n mx (by simp only [List.length_append]; omega)
  simp only [List.append_assoc, List.cons_append, List.nil_append] at e1 ⊢
  rw [e1]
  have h1 := hmk1 (chn - 1) (by omega) (by rw [show i + (chn - 1) = i + chn - 1 by omega]; exact hm)
  exact Nat.le_trans (by omega) (scanGo_ge _ _ _ _ _)

/-! ## non-vacuity -/

/-- 3 rows × 2 channels with repeated values, so that "same as last" triggers -/
def exPat : Pat :=
  { rows := 3,
    cells := [⟨61, 1, 65⟩, ⟨0, 0, 0⟩,
              ⟨61, 1, 65⟩, ⟨KEY_OFF, 0, 0⟩,
              ⟨0, 1, 33⟩, ⟨KEY_OFF, 2, 1⟩] }

example : PatOk 2 exPat := by decide

/-- every "same as last" bit requested, effect on every cell, marker on the last channel of row 0 -/
def exOpt : Nat → CellOpt := fun j => { useLast := 7, fx := some (1, 2), marker := decide (j = 1) }

example : pack 2 exPat exOpt 0 =
    [0x81, 0x0f, 60, 1, 64, 1, 2, 0x82, 0x08, 1, 2, 0,
     0x81, 0x78, 1, 2, 0x82, 0x09, 255, 1, 2, 0,
     0x81, 0x2c, 32, 1, 2, 0x82, 0x1e, 2, 0, 1, 2, 0] := by decide +kernel

example : (unpackData 2 exPat.rows (pack 2 exPat exOpt 0)).flatten = exPat.cells :=
  unpackData_pack 2 exPat exOpt 0 (by decide) (by decide)

example : scanGo ((pack 2 exPat exOpt 0).length + 1) (pack 2 exPat exOpt 0) exPat.rows (List.replicate 64 0) 0 = 1 :=
  scanGo_pack_marker 2 exPat exOpt 0 0 (by decide) (by decide) (by decide) rfl

end Xmp.Fmt.It
