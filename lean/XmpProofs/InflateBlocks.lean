import XmpModel.Inflate
import XmpProofs.Inflate
/-!
# Blocks written by the Lean encoder decode to what they stand for
-/
namespace Xmp.Inflate

/-! ## length and distance codes (case chains generated from the tables) -/

theorem lenCode_spec (n : Nat) (h3 : 3 ≤ n) (h258 : n ≤ 258) :
    (lenCode n).1 < 29 ∧ lenBase.getD (lenCode n).1 0 + (lenCode n).2 = n ∧
    (lenCode n).2 < 2 ^ lenExtra.getD (lenCode n).1 0 := by
  unfold lenCode
  by_cases h0 : n < 4
  · rw [if_pos h0]; simp [lenBase, lenExtra]; omega
  rw [if_neg h0]
  by_cases h1 : n < 5
  · rw [if_pos h1]; simp [lenBase, lenExtra]; omega
  rw [if_neg h1]
  by_cases h2 : n < 6
  · rw [if_pos h2]; simp [lenBase, lenExtra]; omega
  rw [if_neg h2]
  by_cases h3 : n < 7
  · rw [if_pos h3]; simp [lenBase, lenExtra]; omega
  rw [if_neg h3]
  by_cases h4 : n < 8
  · rw [if_pos h4]; simp [lenBase, lenExtra]; omega
  rw [if_neg h4]
  by_cases h5 : n < 9
  · rw [if_pos h5]; simp [lenBase, lenExtra]; omega
  rw [if_neg h5]
  by_cases h6 : n < 10
  · rw [if_pos h6]; simp [lenBase, lenExtra]; omega
  rw [if_neg h6]
  by_cases h7 : n < 11
  · rw [if_pos h7]; simp [lenBase, lenExtra]; omega
  rw [if_neg h7]
  by_cases h8 : n < 13
  · rw [if_pos h8]; simp [lenBase, lenExtra]; omega
  rw [if_neg h8]
  by_cases h9 : n < 15
  · rw [if_pos h9]; simp [lenBase, lenExtra]; omega
  rw [if_neg h9]
  by_cases h10 : n < 17
  · rw [if_pos h10]; simp [lenBase, lenExtra]; omega
  rw [if_neg h10]
  by_cases h11 : n < 19
  · rw [if_pos h11]; simp [lenBase, lenExtra]; omega
  rw [if_neg h11]
  by_cases h12 : n < 23
  · rw [if_pos h12]; simp [lenBase, lenExtra]; omega
  rw [if_neg h12]
  by_cases h13 : n < 27
  · rw [if_pos h13]; simp [lenBase, lenExtra]; omega
  rw [if_neg h13]
  by_cases h14 : n < 31
  · rw [if_pos h14]; simp [lenBase, lenExtra]; omega
  rw [if_neg h14]
  by_cases h15 : n < 35
  · rw [if_pos h15]; simp [lenBase, lenExtra]; omega
  rw [if_neg h15]
  by_cases h16 : n < 43
  · rw [if_pos h16]; simp [lenBase, lenExtra]; omega
  rw [if_neg h16]
  by_cases h17 : n < 51
  · rw [if_pos h17]; simp [lenBase, lenExtra]; omega
  rw [if_neg h17]
  by_cases h18 : n < 59
  · rw [if_pos h18]; simp [lenBase, lenExtra]; omega
  rw [if_neg h18]
  by_cases h19 : n < 67
  · rw [if_pos h19]; simp [lenBase, lenExtra]; omega
  rw [if_neg h19]
  by_cases h20 : n < 83
  · rw [if_pos h20]; simp [lenBase, lenExtra]; omega
  rw [if_neg h20]
  by_cases h21 : n < 99
  · rw [if_pos h21]; simp [lenBase, lenExtra]; omega
  rw [if_neg h21]
  by_cases h22 : n < 115
  · rw [if_pos h22]; simp [lenBase, lenExtra]; omega
  rw [if_neg h22]
  by_cases h23 : n < 131
  · rw [if_pos h23]; simp [lenBase, lenExtra]; omega
  rw [if_neg h23]
  by_cases h24 : n < 163
  · rw [if_pos h24]; simp [lenBase, lenExtra]; omega
  rw [if_neg h24]
  by_cases h25 : n < 195
  · rw [if_pos h25]; simp [lenBase, lenExtra]; omega
  rw [if_neg h25]
  by_cases h26 : n < 227
  · rw [if_pos h26]; simp [lenBase, lenExtra]; omega
  rw [if_neg h26]
  by_cases h27 : n < 258
  · rw [if_pos h27]; simp [lenBase, lenExtra]; omega
  rw [if_neg h27]
  simp [lenBase, lenExtra]; omega

theorem distCode_spec (d : Nat) (h1 : 1 ≤ d) (h32 : d ≤ 32768) :
    (distCode d).1 < 30 ∧ distBase.getD (distCode d).1 0 + (distCode d).2 = d ∧
    (distCode d).2 < 2 ^ distExtra.getD (distCode d).1 0 := by
  unfold distCode
  by_cases h0 : d < 2
  · rw [if_pos h0]; simp [distBase, distExtra]; omega
  rw [if_neg h0]
  by_cases h1 : d < 3
  · rw [if_pos h1]; simp [distBase, distExtra]; omega
  rw [if_neg h1]
  by_cases h2 : d < 4
  · rw [if_pos h2]; simp [distBase, distExtra]; omega
  rw [if_neg h2]
  by_cases h3 : d < 5
  · rw [if_pos h3]; simp [distBase, distExtra]; omega
  rw [if_neg h3]
  by_cases h4 : d < 7
  · rw [if_pos h4]; simp [distBase, distExtra]; omega
  rw [if_neg h4]
  by_cases h5 : d < 9
  · rw [if_pos h5]; simp [distBase, distExtra]; omega
  rw [if_neg h5]
  by_cases h6 : d < 13
  · rw [if_pos h6]; simp [distBase, distExtra]; omega
  rw [if_neg h6]
  by_cases h7 : d < 17
  · rw [if_pos h7]; simp [distBase, distExtra]; omega
  rw [if_neg h7]
  by_cases h8 : d < 25
  · rw [if_pos h8]; simp [distBase, distExtra]; omega
  rw [if_neg h8]
  by_cases h9 : d < 33
  · rw [if_pos h9]; simp [distBase, distExtra]; omega
  rw [if_neg h9]
  by_cases h10 : d < 49
  · rw [if_pos h10]; simp [distBase, distExtra]; omega
  rw [if_neg h10]
  by_cases h11 : d < 65
  · rw [if_pos h11]; simp [distBase, distExtra]; omega
  rw [if_neg h11]
  by_cases h12 : d < 97
  · rw [if_pos h12]; simp [distBase, distExtra]; omega
  rw [if_neg h12]
  by_cases h13 : d < 129
  · rw [if_pos h13]; simp [distBase, distExtra]; omega
  rw [if_neg h13]
  by_cases h14 : d < 193
  · rw [if_pos h14]; simp [distBase, distExtra]; omega
  rw [if_neg h14]
  by_cases h15 : d < 257
  · rw [if_pos h15]; simp [distBase, distExtra]; omega
  rw [if_neg h15]
  by_cases h16 : d < 385
  · rw [if_pos h16]; simp [distBase, distExtra]; omega
  rw [if_neg h16]
  by_cases h17 : d < 513
  · rw [if_pos h17]; simp [distBase, distExtra]; omega
  rw [if_neg h17]
  by_cases h18 : d < 769
  · rw [if_pos h18]; simp [distBase, distExtra]; omega
  rw [if_neg h18]
  by_cases h19 : d < 1025
  · rw [if_pos h19]; simp [distBase, distExtra]; omega
  rw [if_neg h19]
  by_cases h20 : d < 1537
  · rw [if_pos h20]; simp [distBase, distExtra]; omega
  rw [if_neg h20]
  by_cases h21 : d < 2049
  · rw [if_pos h21]; simp [distBase, distExtra]; omega
  rw [if_neg h21]
  by_cases h22 : d < 3073
  · rw [if_pos h22]; simp [distBase, distExtra]; omega
  rw [if_neg h22]
  by_cases h23 : d < 4097
  · rw [if_pos h23]; simp [distBase, distExtra]; omega
  rw [if_neg h23]
  by_cases h24 : d < 6145
  · rw [if_pos h24]; simp [distBase, distExtra]; omega
  rw [if_neg h24]
  by_cases h25 : d < 8193
  · rw [if_pos h25]; simp [distBase, distExtra]; omega
  rw [if_neg h25]
  by_cases h26 : d < 12289
  · rw [if_pos h26]; simp [distBase, distExtra]; omega
  rw [if_neg h26]
  by_cases h27 : d < 16385
  · rw [if_pos h27]; simp [distBase, distExtra]; omega
  rw [if_neg h27]
  by_cases h28 : d < 24577
  · rw [if_pos h28]; simp [distBase, distExtra]; omega
  rw [if_neg h28]
  simp [distBase, distExtra]; omega


/-! ## validity of encoder inputs -/

/-- a code-length list tinfl accepts as complete, all lengths ≤ 15 -/
structure CodeOk (lens : List Nat) : Prop where
  complete : firstCode lens 16 = 65536
  le15' : ∀ x ∈ lens, x ≤ 15

theorem CodeOk.le15 {lens : List Nat} (c : CodeOk lens) (i : Nat) : lens.getD i 0 ≤ 15 := by
  rw [List.getD_eq_getElem?_getD]
  cases h : lens[i]? with
  | none => simp
  | some x => exact c.le15' x (List.mem_of_getElem? h)

theorem CodeOk.mk_eq {lens : List Nat} (c : CodeOk lens) : mkHuff lens = some (huffOf lens) :=
  mkHuff_complete lens c.complete

/-- symbol `s` has a code -/
def SymOk (lens : List Nat) (s : Nat) : Prop := s < lens.length ∧ lens.getD s 0 ≠ 0

/-- a match that can be written with the codes `ll` / `dl` when `size` bytes have been produced so far -/
def MatOk (ll dl : List Nat) (size len dist : Nat) : Prop :=
  3 ≤ len ∧ len ≤ 258 ∧ 1 ≤ dist ∧ dist ≤ 32768 ∧ dist ≤ size ∧
    SymOk ll (257 + (lenCode len).1) ∧ SymOk dl (distCode dist).1

/-- a token that can be written with the codes `ll` / `dl` when `size` bytes have been produced so far:
    a literal whose symbol has a code; a match of length 3..258 at distance 1..min(32768, size) whose length and
    distance symbols have codes -/
def TokOk (ll dl : List Nat) (size : Nat) (t : Tok) : Prop :=
  (∀ b, t = .lit b → SymOk ll b.toNat) ∧ (∀ len dist, t = .mat len dist → MatOk ll dl size len dist)

def ToksOk (ll dl : List Nat) : Nat → List Tok → Prop
  | _, [] => True
  | size, t :: ts => TokOk ll dl size t ∧ ToksOk ll dl (size + tokSize t) ts

theorem copyMatch_size (out : Array UInt8) (d n : Nat) : (copyMatch out d n).size = out.size + n := by
  induction n generalizing out with
  | zero => rfl
  | succ n ih => rw [copyMatch, ih]; simp; omega

theorem applyTok_size (out : Array UInt8) (t : Tok) : (applyTok out t).size = out.size + tokSize t := by
  cases t with
  | lit b => simp [applyTok, tokSize]
  | mat len dist => simp [applyTok, tokSize, copyMatch_size]

theorem codeBits_length (lens : List Nat) (s : Nat) : (codeBits lens s).length = lens.getD s 0 := by
  simp [codeBits, bitsMSB_length]

/-! ## one token -/

theorem symStep_lit (ll dl : List Nat) (lh dh : Huff) (hl : mkHuff ll = some lh)
    (cl : CodeOk ll) (b : UInt8) (out : Array UInt8) (ht : SymOk ll b.toNat) (pos : Nat) (r : Bits) :
    symStep lh dh (encTok ll dl (.lit b) ++ r) pos out =
      .ok (true, r, pos + (encTok ll dl (.lit b)).length, applyTok out (.lit b)) := by
  obtain ⟨hs, hn0⟩ := ht
  have hb : b.toNat < 256 := b.toNat_lt
  rw [symStep, encTok, decodeSym_code ll lh hl cl.complete b.toNat hs hn0 (cl.le15 _) r]
  simp only [hn0, if_false, hb, if_true, codeBits_length, applyTok]
  simp

theorem symStep_eob (ll : List Nat) (lh dh : Huff) (hl : mkHuff ll = some lh)
    (cl : CodeOk ll) (out : Array UInt8) (ht : SymOk ll 256) (pos : Nat) (r : Bits) :
    symStep lh dh (codeBits ll 256 ++ r) pos out = .ok (false, r, pos + (codeBits ll 256).length, out) := by
  obtain ⟨hs, hn0⟩ := ht
  rw [symStep, decodeSym_code ll lh hl cl.complete 256 hs hn0 (cl.le15 _) r]
  simp only []
  rw [if_neg hn0, if_neg (by decide)]
  simp only [if_true, codeBits_length]

theorem symStep_mat (ll dl : List Nat) (lh dh : Huff) (hl : mkHuff ll = some lh) (hd : mkHuff dl = some dh)
    (cl : CodeOk ll) (cd : CodeOk dl) (len dist : Nat) (out : Array UInt8)
    (h3 : 3 ≤ len) (h258 : len ≤ 258) (h1 : 1 ≤ dist) (h32 : dist ≤ 32768) (hsz : dist ≤ out.size)
    (hl1 : SymOk ll (257 + (lenCode len).1)) (hd1 : SymOk dl (distCode dist).1) (pos : Nat) (r : Bits) :
    symStep lh dh (encTok ll dl (.mat len dist) ++ r) pos out =
      .ok (true, r, pos + (encTok ll dl (.mat len dist)).length, applyTok out (.mat len dist)) := by
  obtain ⟨hls, hln0⟩ := hl1
  obtain ⟨hds, hdn0⟩ := hd1
  obtain ⟨hli, hlb, hle⟩ := lenCode_spec len h3 h258
  obtain ⟨hdi, hdb, hde⟩ := distCode_spec dist h1 h32
  rw [symStep, encTok]
  simp only [List.append_assoc]
  rw [decodeSym_code ll lh hl cl.complete _ hls hln0 (cl.le15 _)]
  have e1 : 257 + (lenCode len).1 - 257 = (lenCode len).1 := by omega
  have n1 : ¬ 257 + (lenCode len).1 < 256 := by omega
  have n2 : ¬ 257 + (lenCode len).1 = 256 := by omega
  simp only [hln0, if_false, n1, n2, e1]
  rw [readBits_bitsLSB _ _ _ hle]
  simp only []
  rw [decodeSym_code dl dh hd cd.complete _ hds hdn0 (cd.le15 _)]
  simp only []
  rw [readBits_bitsLSB _ _ _ hde]
  simp only [hdb, hlb]
  have n3 : ¬ (dist = 0 ∨ dist > out.size) := by omega
  rw [if_neg n3]
  simp only [applyTok, List.length_append, codeBits_length, bitsLSB_length]
  simp only [Nat.add_assoc]

theorem symStep_tok (ll dl : List Nat) (lh dh : Huff) (hl : mkHuff ll = some lh) (hd : mkHuff dl = some dh)
    (cl : CodeOk ll) (cd : CodeOk dl) (t : Tok) (out : Array UInt8) (ht : TokOk ll dl out.size t)
    (pos : Nat) (r : Bits) :
    symStep lh dh (encTok ll dl t ++ r) pos out =
      .ok (true, r, pos + (encTok ll dl t).length, applyTok out t) := by
  cases t with
  | lit b => exact symStep_lit ll dl lh dh hl cl b out (ht.1 b rfl) pos r
  | mat len dist =>
    obtain ⟨h3, h258, h1, h32, hsz, hl1, hd1⟩ := ht.2 len dist rfl
    exact symStep_mat ll dl lh dh hl hd cl cd len dist out h3 h258 h1 h32 hsz hl1 hd1 pos r

/-! ## a whole compressed block body -/

theorem encTok_pos (ll dl : List Nat) (t : Tok) (size : Nat) (ht : TokOk ll dl size t) :
    1 ≤ (encTok ll dl t).length := by
  cases t with
  | lit b =>
    have := (ht.1 b rfl).2
    simp only [encTok, codeBits_length]; omega
  | mat len dist =>
    have := (ht.2 len dist rfl).2.2.2.2.2.1.2
    simp only [encTok, List.length_append, codeBits_length]; omega

theorem symLoop_toks (ll dl : List Nat) (lh dh : Huff) (hl : mkHuff ll = some lh) (hd : mkHuff dl = some dh)
    (cl : CodeOk ll) (cd : CodeOk dl) (he : SymOk ll 256) (toks : List Tok) (out : Array UInt8)
    (ht : ToksOk ll dl out.size toks) (f pos : Nat) (hf : toks.length < f) (r : Bits) :
    symLoop lh dh f (encToks ll dl toks ++ r) pos out =
      .ok (r, pos + (encToks ll dl toks).length, applyToks out toks) := by
  induction toks generalizing out f pos with
  | nil =>
    obtain ⟨f, rfl⟩ : ∃ g, f = g + 1 := ⟨f - 1, by simp at hf; omega⟩
    simp only [encToks, List.flatMap_nil, List.nil_append, applyToks, List.foldl_nil]
    rw [symLoop, symStep_eob ll lh dh hl cl out he pos r]
  | cons t ts ih =>
    obtain ⟨f, rfl⟩ : ∃ g, f = g + 1 := ⟨f - 1, by simp at hf; omega⟩
    obtain ⟨ht1, ht2⟩ := ht
    have e : encToks ll dl (t :: ts) ++ r = encTok ll dl t ++ (encToks ll dl ts ++ r) := by
      simp [encToks, List.append_assoc]
    rw [e, symLoop, symStep_tok ll dl lh dh hl hd cl cd t out ht1 pos]
    simp only []
    rw [← applyTok_size out t] at ht2
    rw [ih (applyTok out t) ht2 f _ (by simp at hf; omega)]
    simp [encToks, applyToks, Nat.add_assoc]


theorem toks_length_lt (ll dl : List Nat) (he : SymOk ll 256) (toks : List Tok) (size : Nat)
    (ht : ToksOk ll dl size toks) : toks.length < (encToks ll dl toks).length := by
  induction toks generalizing size with
  | nil =>
    have := he.2
    simp only [encToks, List.flatMap_nil, List.nil_append, codeBits_length, List.length_nil]; omega
  | cons t ts ih =>
    obtain ⟨h1, h2⟩ := ht
    have := encTok_pos ll dl t size h1
    have := ih _ h2
    simp only [encToks, List.flatMap_cons, List.length_append, List.length_cons] at *
    omega

/-! ## stored blocks -/

theorem storedBlock_enc (d : Bytes) (hd : d.length ≤ 65535) (pos : Nat) (out : Array UInt8) (r : Bits) :
    storedBlock (encBody pos (.stored d) ++ r) pos out =
      .ok (r, pos + (encBody pos (.stored d)).length, out ++ d.toArray) := by
  unfold storedBlock encBody
  simp only [List.append_assoc]
  have hdrop : ∀ X : Bits, (List.replicate (alignSkip pos) false ++ X).drop (alignSkip pos) = X := by
    intro X; simp
  rw [hdrop, readBits_bitsLSB 16 _ _ (by omega)]
  simp only []
  rw [readBits_bitsLSB 16 _ _ (by omega)]
  simp only []
  have : ¬ d.length ≠ 65535 - (65535 - d.length) := by omega
  rw [if_neg this, copyStored_toBits]
  simp only [List.length_append, List.length_replicate, bitsLSB_length, toBits_length]
  congr 3
  omega

/-! ## the fixed code -/

theorem mem_replicate_le {n a x : Nat} (h : x ∈ List.replicate n a) : x = a := (List.mem_replicate.1 h).2

theorem fixedLit_ok : CodeOk fixedLitLens := by
  refine ⟨?_, ?_⟩
  · simp only [firstCode, fixedLitLens, List.count_append, List.count_replicate]
    decide
  · intro x hx
    simp only [fixedLitLens, List.mem_append] at hx
    rcases hx with ((h | h) | h) | h <;> have := mem_replicate_le h <;> omega

theorem fixedDist_ok : CodeOk fixedDistLens := by
  refine ⟨?_, ?_⟩
  · simp only [firstCode, fixedDistLens, List.count_replicate]
    decide
  · intro x hx
    have := mem_replicate_le hx
    omega

theorem fixed_eob : SymOk fixedLitLens 256 := by
  refine ⟨?_, ?_⟩
  · simp only [fixedLitLens, List.length_append, List.length_replicate]; decide
  · have : fixedLitLens.getD 256 0 = 7 := by decide
    rw [this]; decide

end Xmp.Inflate
