import XmpModel.Bzip2
import XmpProofs.Bzip2Bits
import XmpProofs.Bzip2Hdr
import XmpProofs.Bzip2Huff
import XmpProofs.Bzip2Mtf
import XmpProofs.Bzip2Rle
import XmpProofs.Bzip2BwtArr
/-!
# bzip2: one block and the whole stream — decoder model against the encoder
-/
namespace Xmp.Bzip2
open Xmp Xmp.Crc

/-- header tables as `encodeBlock` writes them: every selector 0, two identical flat groups for `n + 1` symbols -/
structure FlatHdr (h : Hdr) (n nSel : Nat) : Prop where
  sels : h.selectors = (List.replicate nSel 0).toArray
  groups : h.groups = #[mkGroup (List.replicate (n + 1) flatLen), mkGroup (List.replicate (n + 1) flatLen)]

/-- the symbol loop of `read_huffman_data` on flat-coded symbols follows `procSyms` -/
theorem symLoop_flat (dbufSize : Nat) (h : Hdr) (n nSel : Nat) (hf : FlatHdr h n nSel) (hn : n < 258) (rest : Bits) :
    ∀ (syms : List Nat) (k fuel sc sel : Nat) (g : Group) (st st' : MState) (rem : List Nat),
      (∀ x ∈ syms, x ≤ n) → syms.length ≤ fuel → sc = (50 - k % 50) % 50 → sel = (k + 49) / 50 →
      (sc ≠ 0 → g = mkGroup (List.replicate (n + 1) flatLen)) → k + syms.length ≤ 50 * nSel →
      procSyms dbufSize h.symToByte st syms = .ok (st', true, rem) →
      symLoop dbufSize h fuel sc sel g st (syms.flatMap (putBits flatLen) ++ rest) =
        .ok (st', rem.flatMap (putBits flatLen) ++ rest)
  | [], k, fuel, sc, sel, g, st, st', rem, _, _, _, _, _, _, hp => by
    simp [procSyms] at hp
  | x :: xs, k, 0, sc, sel, g, st, st', rem, _, hfuel, _, _, _, _, _ => by
    simp at hfuel
  | x :: xs, k, fuel + 1, sc, sel, g, st, st', rem, hx, hfuel, hsc, hsel, hg, hk, hp => by
    simp only [List.length_cons] at hfuel hk
    have hxn : x ≤ n := hx x List.mem_cons_self
    simp only [symLoop, List.flatMap_cons, List.append_assoc]
    have hsz : h.selectors.size = nSel := by rw [hf.sels]; simp
    rw [if_neg (by rw [hsz]; intro ⟨h0, h1⟩; omega)]
    have hg1 : (if sc = 0 then h.groups.getD (h.selectors.getD sel 0) default else g) =
        mkGroup (List.replicate (n + 1) flatLen) := by
      by_cases h0 : sc = 0
      · rw [if_pos h0, hf.sels, hf.groups]
        have : (List.replicate nSel 0).toArray.getD sel 0 = 0 := by
          rw [Array.getD_eq_getD_getElem?]
          simp only [List.getElem?_toArray, List.getElem?_replicate]
          split <;> rfl
        rw [this]; rfl
      · rw [if_neg h0]; exact hg h0
    simp only [hg1]
    rw [decodeSym_flat n flatLen (by decide) (by decide) hn x hxn (by unfold flatLen; omega)]
    simp only [procSyms] at hp
    cases hps : processSym dbufSize h.symToByte st x with
    | error e => rw [hps] at hp; cases hp
    | ok r =>
      obtain ⟨st1, d⟩ := r
      rw [hps] at hp
      cases d with
      | true =>
        simp only [Except.ok.injEq, Prod.mk.injEq] at hp
        obtain ⟨rfl, _, rfl⟩ := hp
        simp only [hps]
        simp
      | false =>
        simp only at hp
        simp only [hps, Bool.false_eq_true, if_false]
        exact symLoop_flat dbufSize h n nSel hf hn rest xs (k + 1) fuel
          (if sc = 0 then Gen.groupSize - 1 else sc - 1) (if sc = 0 then sel + 1 else sel) _ st1 st' rem
          (fun y hy => hx y (List.mem_cons_of_mem _ hy)) (by omega)
          (by simp only [Gen.groupSize]; split <;> omega) (by split <;> omega) (fun _ => rfl) (by omega) hp

/-! ## one block -/

/-- the fields of a block behind the signature and CRC words, for last column `L`, pointer `orig` -/
def bodyBits (L : Bytes) (orig : Nat) : Bits :=
  [false] ++ (putBits 24 orig ++ (symMapBits (usedBytes L) ++ (putBits 3 2 ++
    (putBits 15 (((mtfrle L).length + Gen.groupSize - 1) / Gen.groupSize) ++
    (List.replicate (((mtfrle L).length + Gen.groupSize - 1) / Gen.groupSize) false ++
    (flatLengthsBits ((usedBytes L).length + 2) ++ (flatLengthsBits ((usedBytes L).length + 2) ++
    (mtfrle L).flatMap (putBits flatLen))))))))

theorem encodeBlock_eq (p : Bytes) :
    encodeBlock p = putBits 24 magicBlockHi ++ (putBits 24 magicBlockLo ++ (putBits 32 (bzBlockCrc p).toNat ++
      bodyBits (bwt (rle1 p)).1 (bwt (rle1 p)).2)) := by
  unfold encodeBlock bodyBits
  simp only [List.append_assoc]

theorem usedBytes_eq (L : Bytes) : usedBytes L = ((List.range 256).map UInt8.ofNat).filter (fun b => L.contains b) := rfl

/-- `read_block_header` + `read_huffman_data` on the block fields -/
theorem readBody (dbufSize : Nat) (hd9 : dbufSize ≤ 900000) (L : Bytes) (orig : Nat) (hne : L ≠ [])
    (hfit : L.length ≤ dbufSize) (horig : orig < L.length) (fuel : Nat) (hfuel : (mtfrle L).length ≤ fuel)
    (rest : Bits) :
    ∃ h d, readHeader dbufSize (bodyBits L orig ++ rest) = .ok (h, (mtfrle L).flatMap (putBits flatLen) ++ rest) ∧
      h.origPtr = orig ∧
      readHuffmanData dbufSize fuel h ((mtfrle L).flatMap (putBits flatLen) ++ rest) = .ok (d, rest) ∧ d.toList = L := by
  have hd : dbufSize < 2 ^ 31 := by omega
  have hslen := mtfrle_length L
  generalize hnSel : ((mtfrle L).length + Gen.groupSize - 1) / Gen.groupSize = nSel
  have hnS : 1 ≤ nSel ∧ nSel < 2 ^ 15 ∧ (mtfrle L).length ≤ 50 * nSel := by
    rw [← hnSel]; simp only [Gen.groupSize]; omega
  have hsymne : (mtfrle L).flatMap (putBits flatLen) ++ rest ≠ [] := by
    obtain ⟨x, xs, e⟩ := List.exists_cons_of_ne_nil (List.ne_nil_of_length_pos (by omega : 0 < (mtfrle L).length))
    rw [e]; simp [putBits, flatLen]
  let h : Hdr := { origPtr := orig, symToByte := (usedBytes L).toArray,
                   selectors := (List.replicate nSel 0).toArray,
                   groups := #[mkGroup (List.replicate ((usedBytes L).length + 2) flatLen),
                               mkGroup (List.replicate ((usedBytes L).length + 2) flatLen)] }
  have hhdr : readHeader dbufSize (bodyBits L orig ++ rest) = .ok (h, (mtfrle L).flatMap (putBits flatLen) ++ rest) := by
    unfold readHeader bodyBits
    simp only [List.append_assoc, hnSel]
    have e1 : ([false] : Bits) = putBits 1 0 := rfl
    rw [e1, getBits_putBits 1 0 (by decide)]
    simp only [ne_eq, not_true_eq_false, if_false]
    rw [getBits_putBits 24 orig (by omega)]
    simp only
    rw [if_neg (by split <;> omega)]
    rw [usedBytes_eq, readSymMap_symMapBits, ← usedBytes_eq]
    simp only
    rw [getBits_putBits 3 2 (by decide)]
    simp only
    rw [if_neg (by simp [Gen.maxGroups])]
    rw [getBits_putBits 15 nSel (by omega)]
    simp only
    rw [if_neg (by omega)]
    rw [show List.range 2 = [0, 1] from rfl, readSelectors_zeros 2 (by omega) 0 [1]]
    simp only [List.nil_append]
    rw [readGroups_flat2 _ _ hsymne]
  obtain ⟨st', hproc, hst⟩ := procSyms_mtfrle dbufSize hd L hne hfit
  have hflat : FlatHdr h ((usedBytes L).length + 1) nSel := ⟨rfl, rfl⟩
  have hsym := symLoop_flat dbufSize h ((usedBytes L).length + 1) nSel hflat
    (by have := usedBytes_length_le L; omega) rest (mtfrle L) 0 fuel 0 0 default
    ⟨0, 0, #[], List.range 256⟩ st' [] (mtfrle_le L hne) hfuel (by omega) (by omega) (fun h => absurd rfl h) (by omega) hproc
  refine ⟨h, st'.dbuf, hhdr, rfl, ?_, hst⟩
  unfold readHuffmanData
  rw [hsym]
  simp only [List.flatMap_nil, List.nil_append]
  have hsz : st'.dbuf.size = L.length := by rw [← hst]; simp
  rw [if_neg (by show ¬ orig ≥ st'.dbuf.size; omega)]

/-- **one block**: the decoder model on the fields `encodeBlock` writes behind the signature and CRC words -/
theorem decodeBlock_body (dbufSize : Nat) (hd9 : dbufSize ≤ 900000) (p : Bytes) (hne : p ≠ [])
    (hfit : (rle1 p).length ≤ dbufSize) (fuel : Nat) (hfuel : (mtfrle (bwt (rle1 p)).1).length ≤ fuel) (rest : Bits) :
    decodeBlock dbufSize fuel (bodyBits (bwt (rle1 p)).1 (bwt (rle1 p)).2 ++ rest) = .ok (p, rest) := by
  have hrne : rle1 p ≠ [] := by
    intro e
    have := (rle1_length p).2 hne
    rw [e] at this; simp at this
  obtain ⟨horig, hLlen, _⟩ := chaseL_bwt (rle1 p) hrne
  have hib := ibwt_bwt (rle1 p) hrne
  generalize hL : (bwt (rle1 p)).1 = L at *
  generalize hO : (bwt (rle1 p)).2 = orig at *
  have hLne : L ≠ [] := by
    intro e; rw [e] at hLlen
    exact hrne (List.eq_nil_of_length_eq_zero hLlen.symm)
  obtain ⟨h, d, hhdr, hop, hdata, hdl⟩ := readBody dbufSize hd9 L orig hLne (by omega) (by omega) fuel hfuel rest
  unfold decodeBlock
  rw [hhdr]
  simp only
  rw [hdata]
  simp only
  have hd' : d = L.toArray := by
    apply Array.ext'
    simpa using hdl
  rw [hop, hd']
  congr 2
  rw [hib]
  exact unrle1_rle1 _ p

/-! ## the stream -/

theorem ofNat_toNat32 (x : BitVec 32) : BitVec.ofNat 32 x.toNat = x := by simp

/-- `write_bunzip_data` over the blocks written by `encodeBlock`, then the end-of-stream block -/
theorem streamLoop_blocks (dbufSize nbits : Nat) (hd9 : dbufSize ≤ 900000) (pad : Bits) :
    ∀ (parts : List Bytes) (fuel : Nat) (hc dc tc : BitVec 32) (out : Bytes),
      parts.length + 1 ≤ fuel →
      (∀ q ∈ parts, q ≠ [] ∧ (rle1 q).length ≤ dbufSize ∧ (mtfrle (bwt (rle1 q)).1).length ≤ nbits) →
      out.length + parts.flatten.length ≤ Gen.depackLimit →
      (streamLoop dbufSize nbits fuel hc dc tc out
        (parts.flatMap encodeBlock ++ (putBits 24 magicEndHi ++ (putBits 24 magicEndLo ++
          (putBits 32 (Gates.bzStreamCrc tc parts).toNat ++ pad))))).ok = true ∧
      (streamLoop dbufSize nbits fuel hc dc tc out
        (parts.flatMap encodeBlock ++ (putBits 24 magicEndHi ++ (putBits 24 magicEndLo ++
          (putBits 32 (Gates.bzStreamCrc tc parts).toNat ++ pad))))).out = out ++ parts.flatten
  | [], 0, _, _, _, _, hf, _, _ => by simp at hf
  | [], fuel + 1, hc, dc, tc, out, _, _, hlim => by
    simp only [List.flatMap_nil, List.nil_append, streamLoop, Gates.bzStreamCrc]
    rw [getBits_putBits 24 _ (by decide)]
    simp only
    rw [getBits_putBits 24 _ (by decide)]
    simp only
    rw [getBits_putBits 32 _ tc.isLt]
    simp only [and_self, if_true, ofNat_toNat32, decide_true, Bool.or_true, Bool.true_and, List.flatten_nil,
      List.append_nil]
    simp only [List.flatten_nil, List.length_nil, Nat.add_zero] at hlim
    exact ⟨by simpa using hlim, trivial⟩
  | q :: parts, 0, _, _, _, _, hf, _, _ => by simp at hf
  | q :: parts, fuel + 1, hc, dc, tc, out, hf, hq, hlim => by
    obtain ⟨hqne, hqfit, hqfuel⟩ := hq q List.mem_cons_self
    simp only [List.flatten_cons, List.length_append, List.length_cons] at hlim hf
    have ih := streamLoop_blocks dbufSize nbits hd9 pad parts fuel (bzBlockCrc q) (bzBlockCrc q)
      (bzCombine tc (bzBlockCrc q)) (out ++ q) (by omega) (fun r hr => hq r (List.mem_cons_of_mem _ hr))
      (by simp only [List.length_append]; omega)
    simp only [List.flatMap_cons, encodeBlock_eq, List.append_assoc, streamLoop]
    rw [getBits_putBits 24 _ (by decide)]
    simp only
    rw [getBits_putBits 24 _ (by decide)]
    simp only
    rw [getBits_putBits 32 _ (bzBlockCrc q).isLt]
    simp only [ofNat_toNat32]
    rw [if_neg (by decide), if_neg (by decide)]
    rw [decodeBlock_body dbufSize hd9 q hqne hqfit nbits hqfuel]
    simp only
    rw [if_neg (by simp only [List.length_append, Gen.depackLimit, Gen.iobufSize] at *; omega)]
    simp only [ne_eq, not_true_eq_false, if_false]
    simp only [Gates.bzStreamCrc, List.flatten_cons, ← List.append_assoc] at ih ⊢
    simpa [List.append_assoc] using ih

/-! ## cutting the payload into blocks -/

theorem chunks_spec (bs : Nat) (hbs : 1 ≤ bs) : ∀ (fuel : Nat) (p : Bytes), p.length ≤ fuel →
    (chunks bs fuel p).flatten = p ∧ ∀ q ∈ chunks bs fuel p, q ≠ [] ∧ q.length ≤ bs
  | 0, p, h => by
    have : p = [] := List.eq_nil_of_length_eq_zero (by omega)
    subst this; simp [chunks]
  | fuel + 1, [], _ => by simp [chunks]
  | fuel + 1, b :: rest, h => by
    have ih := chunks_spec bs hbs fuel ((b :: rest).drop bs) (by rw [List.length_drop]; simp at h ⊢; omega)
    simp only [chunks, List.flatten_cons, ih.1, List.take_append_drop, true_and]
    intro q hq
    rcases List.mem_cons.mp hq with rfl | hq
    · constructor
      · obtain ⟨m, rfl⟩ : ∃ m, bs = m + 1 := ⟨bs - 1, by omega⟩
        simp
      · rw [List.length_take]; omega
    · exact ih.2 q hq

theorem length_flatMap_ge {α β : Type} (f : α → List β) (a : α) : ∀ (l : List α), a ∈ l → (f a).length ≤ (l.flatMap f).length
  | [], h => by simp at h
  | x :: xs, h => by
    rw [List.flatMap_cons, List.length_append]
    rcases List.mem_cons.mp h with rfl | h
    · omega
    · have := length_flatMap_ge f a xs h; omega

theorem length_flatMap_mul {α β : Type} (f : α → List β) (k : Nat) : ∀ (l : List α), (∀ a ∈ l, k ≤ (f a).length) →
    k * l.length ≤ (l.flatMap f).length
  | [], _ => by simp
  | x :: xs, h => by
    rw [List.flatMap_cons, List.length_append, List.length_cons, Nat.mul_succ]
    have := length_flatMap_mul f k xs (fun a ha => h a (List.mem_cons_of_mem _ ha))
    have := h x List.mem_cons_self
    omega

theorem encodeBlock_length (p : Bytes) :
    80 ≤ (encodeBlock p).length ∧ (mtfrle (bwt (rle1 p)).1).length ≤ (encodeBlock p).length := by
  rw [encodeBlock_eq]
  unfold bodyBits
  simp only [List.length_append, putBits_length]
  refine ⟨by omega, ?_⟩
  have := length_flatMap_mul (putBits flatLen) 1 (mtfrle (bwt (rle1 p)).1) (fun a _ => by rw [putBits_length]; decide)
  omega

/-- **(e)** the model of `decrunch_bzip2` unpacks every file written by the encoder `bzip2 lv bs`
    (level 1..9, any block size that fits the level's buffer after the first run-length stage) to the payload -/
theorem run_bzip2 (lv bs : Nat) (hlv1 : 1 ≤ lv) (hlv9 : lv ≤ 9) (hbs1 : 1 ≤ bs) (hbs : 5 * bs ≤ 400000 * lv)
    (p : Bytes) (hlim : p.length ≤ Gen.depackLimit) :
    (run (bzip2 lv bs p)).ok = true ∧ (run (bzip2 lv bs p)).out = p := by
  obtain ⟨hflat, hparts⟩ := chunks_spec bs hbs1 p.length p (Nat.le_refl _)
  generalize hP : chunks bs p.length p = parts at *
  unfold bzip2
  simp only [hP]
  generalize hbits : (putBits 8 0x42 ++ putBits 8 0x5a ++ putBits 8 0x68 ++ putBits 8 (0x30 + lv) ++
    parts.flatMap encodeBlock ++ putBits 24 magicEndHi ++ putBits 24 magicEndLo ++
    putBits 32 (Gates.bzStreamCrc 0 parts).toNat) = bits
  obtain ⟨pad, hpad⟩ := toBits_packBits (bits.length / 8 + 1) bits (by omega)
  unfold run
  simp only [hpad]
  rw [← hbits]
  simp only [List.append_assoc]
  rw [getBits_putBits 8 _ (by decide)]
  simp only [ne_eq, not_true_eq_false, if_false]
  rw [getBits_putBits 8 _ (by decide)]
  simp only [ne_eq, not_true_eq_false, if_false]
  rw [getBits_putBits 8 _ (by decide)]
  simp only [ne_eq, not_true_eq_false, if_false]
  rw [getBits_putBits 8 _ (by omega)]
  simp only
  rw [if_neg (by omega)]
  have hsub : 0x30 + lv - 0x30 = lv := by omega
  rw [hsub]
  generalize hnb : (parts.flatMap encodeBlock ++ (putBits 24 magicEndHi ++ (putBits 24 magicEndLo ++
    (putBits 32 (Gates.bzStreamCrc 0 parts).toNat ++ List.replicate pad false)))).length = nbits
  have hnb1 : (parts.flatMap encodeBlock).length ≤ nbits := by
    rw [← hnb, List.length_append]; omega
  have h80 : 80 * parts.length ≤ (parts.flatMap encodeBlock).length :=
    length_flatMap_mul encodeBlock 80 parts (fun a _ => (encodeBlock_length a).1)
  have := streamLoop_blocks (100000 * lv) nbits (by omega) (List.replicate pad false) parts (nbits / 80 + 1) 0 0 0 []
    (by omega)
    (by
      intro q hq
      obtain ⟨hq1, hq2⟩ := hparts q hq
      refine ⟨hq1, ?_, ?_⟩
      · have := (rle1_length q).1; omega
      · have h1 := (encodeBlock_length q).2
        have h2 := length_flatMap_ge encodeBlock q parts hq
        omega)
    (by rw [hflat]; simpa using hlim)
  rw [hflat] at this
  simpa using this

theorem bunzip2_bzip2 (lv bs : Nat) (hlv1 : 1 ≤ lv) (hlv9 : lv ≤ 9) (hbs1 : 1 ≤ bs) (hbs : 5 * bs ≤ 400000 * lv)
    (p : Bytes) (hlim : p.length ≤ Gen.depackLimit) : bunzip2 (bzip2 lv bs p) = some p := by
  obtain ⟨h1, h2⟩ := run_bzip2 lv bs hlv1 hlv9 hbs1 hbs p hlim
  unfold bunzip2
  simp only [h1, if_true, h2]

end Xmp.Bzip2
