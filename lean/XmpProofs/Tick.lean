import XmpModel.Tick
/-! Helper lemmas for the tick-size arithmetic (C16). -/
namespace Xmp.Tick
open Xmp.Gen.PlayerConsts

theorem minTicks_eq : minTicks = 8 := by decide
/-- all three caps are `XMP_MAX_FRAMESIZE / 4` frames with the divisors the C has now (generated from src/mixer.c and
src/control.c): a divisor below 4 in either place of `libxmp_mixer_prepare` makes these fail, and with them
`C16_ticksize` / `C16_framesize_bound` -/
theorem capTicks_eq : capTicks = 6146 := by decide
theorem capSetTicks_eq : capSetTicks = 6146 := by decide
theorem capFactorTicks_eq : capFactorTicks = 6146 := by decide
/-- four bytes (a 16-bit stereo frame) times the substituted and the tested cap fit `XMP_MAX_FRAMESIZE` -/
theorem cap_bytes : capTicks * 4 ≤ maxFramesize ∧ capSetTicks * 4 ≤ maxFramesize ∧ capFactorTicks ≤ capTicks := by decide

/-- `libxmp_mixer_get_ticksize` answers −1 or at least `1 << ANTICLICK_SHIFT` frames -/
theorem getTicksize_range (freq tfN tfD rrN rrD bpm : Int) :
    getTicksize freq tfN tfD rrN rrD bpm = -1 ∨ minTicks ≤ getTicksize freq tfN tfD rrN rrD bpm := by
  unfold getTicksize
  split
  · left; rfl
  · split
    · left; rfl
    · right
      simp only
      split <;> omega

theorem prepare_range (freq tfN tfD rrN rrD bpm : Int) :
    minTicks ≤ prepare freq tfN tfD rrN rrD bpm ∧ prepare freq tfN tfD rrN rrD bpm ≤ capTicks := by
  unfold prepare
  simp only
  have h := getTicksize_range freq tfN tfD rrN rrD bpm
  rw [minTicks_eq] at *
  rw [capTicks_eq, capSetTicks_eq]
  split <;> omega

theorem frameBytes_cases (mono bit8 : Bool) : frameBytes mono bit8 = 1 ∨ frameBytes mono bit8 = 2 ∨ frameBytes mono bit8 = 4 := by
  cases mono <;> cases bit8 <;> simp [frameBytes]

theorem bufferSize_eq (t : Int) (mono bit8 : Bool) : bufferSize t mono bit8 = t * frameBytes mono bit8 := by
  cases mono <;> cases bit8 <;> simp [bufferSize, frameBytes] <;> omega

/-- core arithmetic fact: t = ⌊A·P/(1000·D)⌋ and ft = ⌊1000·P/D⌋ satisfy
    t·10⁶ − A < A·ft < (t+1)·10⁶ -/
theorem agree_core (A P D : Int) (hA : 0 < A) (_hP : 0 ≤ P) (hD : 0 < D) :
    (A * P / (D * 1000)) * 1000000 - A < A * (1000 * P / D) ∧
    A * (1000 * P / D) < (A * P / (D * 1000) + 1) * 1000000 := by
  generalize ht : A * P / (D * 1000) = t
  generalize hf : 1000 * P / D = ft
  have hD1 : 0 < D * 1000 := by omega
  have t1 : t * (D * 1000) ≤ A * P := by rw [← ht]; exact Int.ediv_mul_le _ (by omega)
  have t2 : A * P < (t + 1) * (D * 1000) := by
    rw [← ht]; exact Int.lt_ediv_add_one_mul_self _ hD1
  have f1 : ft * D ≤ 1000 * P := by rw [← hf]; exact Int.ediv_mul_le _ (by omega)
  have f2 : 1000 * P < (ft + 1) * D := by rw [← hf]; exact Int.lt_ediv_add_one_mul_self _ hD
  -- multiply the ft facts by A
  have g1 : A * (ft * D) ≤ A * (1000 * P) := Int.mul_le_mul_of_nonneg_left f1 (by omega)
  have g2 : A * (1000 * P) < A * ((ft + 1) * D) := Int.mul_lt_mul_of_pos_left f2 hA
  constructor
  · -- lower bound: (t*10^6 - A) * D < A*ft*D
    refine Int.lt_of_mul_lt_mul_right (a := D) ?_ (by omega)
    have e1 : (t * 1000000 - A) * D = 1000 * (t * (D * 1000)) - A * D := by
      grind
    have e2 : A * ft * D = A * ((ft + 1) * D) - A * D := by
      grind
    have e3 : A * (1000 * P) = 1000 * (A * P) := by
      grind
    rw [e1, e2]
    omega
  · refine Int.lt_of_mul_lt_mul_right (a := D) ?_ (by omega)
    have e1 : A * ft * D = A * (ft * D) := by rw [Int.mul_assoc]
    have e2 : (t + 1) * 1000000 * D = 1000 * ((t + 1) * (D * 1000)) := by
      grind
    have e3 : A * (1000 * P) = 1000 * (A * P) := by
      grind
    rw [e1, e2]
    omega


/-- monotone bound used for the frame-size cap: ⌊A·P/(1000·D)⌋ ≤ A/8 when P ≤ 125·D -/
theorem rawTicks_le (A P D : Int) (hA : 0 < A) (hD : 0 < D) (hP : P ≤ 125 * D) (hA2 : A ≤ 49170) :
    A * P / (D * 1000) ≤ 6146 := by
  have h1 : A * P ≤ A * (125 * D) := Int.mul_le_mul_of_nonneg_left hP (by omega)
  have h2 : A * (125 * D) ≤ 49170 * (125 * D) := Int.mul_le_mul_of_nonneg_right hA2 (by omega)
  have h3 : A * P < 6147 * (D * 1000) := by omega
  have := Int.ediv_lt_of_lt_mul (by omega : 0 < D * 1000) h3
  omega

/-- dividing a non-negative number by a larger positive divisor gives no more -/
theorem ediv_antitone (a c c' : Int) (ha : 0 ≤ a) (hc : 0 < c) (hcc : c ≤ c') : a / c' ≤ a / c := by
  have h0 : 0 ≤ a / c' := Int.ediv_nonneg ha (by omega)
  have h1 : a / c' * c' ≤ a := Int.ediv_mul_le _ (by omega)
  have h2 : a / c' * c ≤ a / c' * c' := Int.mul_le_mul_of_nonneg_left hcc h0
  exact Int.le_ediv_of_mul_le hc (by omega)

/-- the tick size does not grow when the tempo rises (positive denominators) -/
theorem getTicksize_antitone (freq tfN tfD rrN rrD bpm bpm' : Int) (hd : 0 < tfD) (hr : 0 < rrD)
    (hb : bpm ≤ bpm') (h0 : 0 ≤ getTicksize freq tfN tfD rrN rrD bpm) :
    0 ≤ getTicksize freq tfN tfD rrN rrD bpm' ∧
    getTicksize freq tfN tfD rrN rrD bpm' ≤ getTicksize freq tfN tfD rrN rrD bpm := by
  unfold getTicksize at h0 ⊢
  by_cases hv : freq ≤ 0 ∨ bpm ≤ 0 ∨ tfN ≤ 0 ∨ rrN ≤ 0
  · rw [if_pos hv] at h0; omega
  rw [if_neg hv] at h0 ⊢
  have hv' : ¬ (freq ≤ 0 ∨ bpm' ≤ 0 ∨ tfN ≤ 0 ∨ rrN ≤ 0) := by omega
  rw [if_neg hv']
  have hQ : 0 < tfD * rrD := Int.mul_pos hd hr
  have hqb : tfD * rrD * bpm ≤ tfD * rrD * bpm' := Int.mul_le_mul_of_nonneg_left hb (by omega)
  have hqb0 : 0 < tfD * rrD * bpm := Int.mul_pos hQ (by omega)
  by_cases hm : freq * (tfN * rrN) > intMax * (tfD * rrD * bpm * 1000)
  · rw [if_pos hm] at h0; omega
  rw [if_neg hm] at h0 ⊢
  have hm' : ¬ freq * (tfN * rrN) > intMax * (tfD * rrD * bpm' * 1000) := by
    have : intMax * (tfD * rrD * bpm * 1000) ≤ intMax * (tfD * rrD * bpm' * 1000) :=
      Int.mul_le_mul_of_nonneg_left (by omega) (by simp [intMax])
    omega
  rw [if_neg hm']
  have hP : 0 ≤ freq * (tfN * rrN) := Int.mul_nonneg (by omega) (Int.mul_nonneg (by omega) (by omega))
  have ha := ediv_antitone (freq * (tfN * rrN)) (tfD * rrD * bpm * 1000) (tfD * rrD * bpm' * 1000) hP (by omega) (by omega)
  simp only [rawTicks, minTicks_eq] at h0 ⊢
  generalize freq * (tfN * rrN) / (tfD * rrD * bpm' * 1000) = x at ha ⊢
  generalize freq * (tfN * rrN) / (tfD * rrD * bpm * 1000) = y at ha h0 ⊢
  by_cases hx : x < 8 <;> by_cases hy : y < 8 <;> simp only [hx, hy, if_true, if_false] at h0 ⊢ <;> omega

end Xmp.Tick
