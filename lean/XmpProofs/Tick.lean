import XmpModel.Tick
/-! Helper lemmas for the tick-size arithmetic (C16). -/
namespace Xmp.Tick
open Xmp.Gen.PlayerConsts

theorem minTicks_eq : minTicks = 8 := by decide
theorem capTicks_eq : capTicks = 6146 := by decide

/-- `libxmp_mixer_get_ticksize` answers −1 or at least `1 << ANTICLICK_SHIFT` frames -/
theorem getTicksize_range (freq tfN tfD rrN rrD bpm : Int) :
    getTicksize freq tfN tfD rrN rrD bpm = -1 ∨ minTicks ≤ getTicksize freq tfN tfD rrN rrD bpm := by
  unfold getTicksize
  split
  · left; rfl
  · split
    · left; rfl
    · right
      simp only
      split <;> omega

theorem prepare_range (freq tfN tfD rrN rrD bpm : Int) :
    minTicks ≤ prepare freq tfN tfD rrN rrD bpm ∧ prepare freq tfN tfD rrN rrD bpm ≤ capTicks := by
  unfold prepare
  simp only
  have h := getTicksize_range freq tfN tfD rrN rrD bpm
  rw [minTicks_eq] at *
  rw [capTicks_eq]
  split <;> omega

theorem frameBytes_cases (mono bit8 : Bool) : frameBytes mono bit8 = 1 ∨ frameBytes mono bit8 = 2 ∨ frameBytes mono bit8 = 4 := by
  cases mono <;> cases bit8 <;> simp [frameBytes]

theorem bufferSize_eq (t : Int) (mono bit8 : Bool) : bufferSize t mono bit8 = t * frameBytes mono bit8 := by
  cases mono <;> cases bit8 <;> simp [bufferSize, frameBytes] <;> omega

/-- core arithmetic fact: t = ⌊A·P/(1000·D)⌋ and ft = ⌊1000·P/D⌋ satisfy
    t·10⁶ − A < A·ft < (t+1)·10⁶ -/
theorem agree_core (A P D : Int) (hA : 0 < A) (_hP : 0 ≤ P) (hD : 0 < D) :
    (A * P / (D * 1000)) * 1000000 - A < A * (1000 * P / D) ∧
    A * (1000 * P / D) < (A * P / (D * 1000) + 1) * 1000000 := by
  generalize ht : A * P / (D * 1000) = t
  generalize hf : 1000 * P / D = ft
  have hD1 : 0 < D * 1000 := by omega
  have t1 : t * (D * 1000) ≤ A * P := by rw [← ht]; exact Int.ediv_mul_le _ (by omega)
  have t2 : A * P < (t + 1) * (D * 1000) := by
    rw [← ht]; exact Int.lt_ediv_add_one_mul_self _ hD1
  have f1 : ft * D ≤ 1000 * P := by rw [← hf]; exact Int.ediv_mul_le _ (by omega)
  have f2 : 1000 * P < (ft + 1) * D := by rw [← hf]; exact Int.lt_ediv_add_one_mul_self _ hD
  -- multiply the ft facts by A
  have g1 : A * (ft * D) ≤ A * (1000 * P) := Int.mul_le_mul_of_nonneg_left f1 (by omega)
  have g2 : A * (1000 * P) < A * ((ft + 1) * D) := Int.mul_lt_mul_of_pos_left f2 hA
  constructor
  · -- lower bound: (t*10^6 - A) * D < A*ft*D
    refine Int.lt_of_mul_lt_mul_right (a := D) ?_ (by omega)
    have e1 : (t * 1000000 - A) * D = 1000 * (t * (D * 1000)) - A * D := by
      grind
    have e2 : A * ft * D = A * ((ft + 1) * D) - A * D := by
      grind
    have e3 : A * (1000 * P) = 1000 * (A * P) := by
      grind
    rw [e1, e2]
    omega
  · refine Int.lt_of_mul_lt_mul_right (a := D) ?_ (by omega)
    have e1 : A * ft * D = A * (ft * D) := by rw [Int.mul_assoc]
    have e2 : (t + 1) * 1000000 * D = 1000 * ((t + 1) * (D * 1000)) := by
      grind
    have e3 : A * (1000 * P) = 1000 * (A * P) := by
      grind
    rw [e1, e2]
    omega


/-- monotone bound used for the frame-size cap: ⌊A·P/(1000·D)⌋ ≤ A/8 when P ≤ 125·D -/
theorem rawTicks_le (A P D : Int) (hA : 0 < A) (hD : 0 < D) (hP : P ≤ 125 * D) (hA2 : A ≤ 49170) :
    A * P / (D * 1000) ≤ 6146 := by
  have h1 : A * P ≤ A * (125 * D) := Int.mul_le_mul_of_nonneg_left hP (by omega)
  have h2 : A * (125 * D) ≤ 49170 * (125 * D) := Int.mul_le_mul_of_nonneg_right hA2 (by omega)
  have h3 : A * P < 6147 * (D * 1000) := by omega
  have := Int.ediv_lt_of_lt_mul (by omega : 0 < D * 1000) h3
  omega

end Xmp.Tick
