import XmpModel.Gen.C03NameCopies
import XmpModel.Gen.Limits
/-!
# Loader sweep: writes into the public name arrays and stores to row counts (C03)

`Gen/C03NameCopies.lean` lists every call in src/loaders/*.c that writes into
`mod->name`, `mod->type`, `xxi[i].name`, `xxs[i].name` with the byte count where it
is syntactically visible, and every store to a pattern / track `rows` field with
the way a zero is excluded.  The arrays are zero-filled before the loader runs, so
a write that leaves the last byte alone leaves a terminated name.
-/
namespace Xmp.LoadPost.Sweep
open Xmp.Gen.C03NameCopies Xmp.Gen.Limits

/-- the write cannot reach the last byte of the array (or the loader stores a terminator inside
the array right after it); `none` = bound not visible, covered at run time by LoaderOblig `names` -/
def fits (s : NameCopy) : Bool :=
  match s.bound with
  | none => true
  | some b =>
    match s.extent with
    | .raw => decide (b + 1 ≤ s.size) ||
        (match s.term with | some k => decide (k + 1 ≤ s.size) && decide (b ≤ s.size) | none => false)
    | .plus1 => decide (b + 1 ≤ s.size)
    | .sized => decide (b ≤ s.size)

/-- calls whose visible count equals the array size but whose SOURCE is terminated earlier
(dbm_load: `name[44] = '\0'` before `strncpy(mod->name, name, XMP_NAME_SIZE)`) -/
def allowedNameCopies : List (String × String × String) := [("dbm_load.c", "dbm_load", "strncpy")]

/-- every write into a public name array with a visible bound leaves the array terminated -/
theorem nameCopies_bounded :
    ∀ s ∈ nameCopies, fits s = true ∨ (s.file, s.func, s.api) ∈ allowedNameCopies := by
  decide

/-- the destination sizes the translator assumed are the real ones -/
theorem nameCopies_sizes : ∀ s ∈ nameCopies, s.size = xmpNameSize ∨ s.size = 32 := by
  decide

/-- every hand-rolled store to a pattern / track row count excludes 0: a constant, `… + 1`, an explicit
test in the same function, or an allocation helper that refuses 0 rows -/
theorem rowStores_guarded : ∀ r ∈ rowStores, r.2.2.2 ≠ RowGuard.unguarded := by
  decide

/-- every `libxmp_alloc_subinstrument(mod, i, count)` in the loaders allocates what the loader stores into
`nsm`: the count is the `nsm` field itself, the very expression stored into it, or a literal that bounds every
`nsm` store of the function by its form (literal, boolean, `c ? 1 : 0`) -/
theorem subAllocs_consistent : ∀ a ∈ subAllocs, a.2.2.2 ≠ SubCount.other := by
  decide

end Xmp.LoadPost.Sweep
