import XmpProofs.WorkBound
import XmpProofs.Gates
/-!
# Work bounds of the xz and zip container walkers and the gzip header (models in `XmpModel.Gates`) (C02)
-/
namespace Xmp.Work
open Xmp Xmp.Gates

/-! ## xz: `dec_vli` -/

theorem xzVliGo_eq_run (f : Bytes) (limit : Nat) : ∀ fuel p sh acc,
    xzVliGo f limit fuel p sh acc = (run (xzVliStep f limit) fuel (p, sh, acc)).outD none := by
  intro fuel
  induction fuel with
  | zero => intros; rfl
  | succ n ih =>
    intro p sh acc
    rw [run_outD_fold]
    simp only [xzVliGo, xzVliStep, apply_ite (Out.fold none (run (xzVliStep f limit) n)), Out.fold_done,
      Out.fold_next, ← ih]

theorem xzVliStep_progress (f : Bytes) (limit : Nat) (s s' : Nat × Nat × Nat)
    (hi : s.2.1 % 7 = 0 ∧ s.2.1 ≤ 56) (h : (xzVliStep f limit s).succ? = some s') :
    (s'.2.1 % 7 = 0 ∧ s'.2.1 ≤ 56) ∧ (56 - s'.2.1) + 7 ≤ 56 - s.2.1 ∧ s'.1 = s.1 + 1 := by
  obtain ⟨p, sh, acc⟩ := s
  simp only at hi
  unfold xzVliStep at h
  simp only [] at h
  repeat' split at h
  all_goals (simp only [Out.succ?, Option.some.injEq, reduceCtorEq] at h)
  subst h
  rename_i h63
  simp only [beq_iff_eq] at h63
  refine ⟨⟨?_, ?_⟩, ?_, ?_⟩ <;> simp only <;> omega

/-- **xz VLI work bound**: `dec_vli` reads at most 9 bytes; the model's fuel 9 never stops it -/
theorem xzVli_work (f : Bytes) (p limit : Nat) :
    EndsWithin (xzVliStep f limit) 9 (p, 0, 0) 9 ∧ xzVli f p limit = (run (xzVliStep f limit) 9 (p, 0, 0)).outD none := by
  have hb := run_bounded (xzVliStep f limit) (fun s => s.2.1 % 7 = 0 ∧ s.2.1 ≤ 56) (fun s => 56 - s.2.1) 7 (by decide)
      (fun s s' hi h => by have := xzVliStep_progress f limit s s' hi h; exact ⟨this.1, this.2.1⟩)
      9 (p, 0, 0) (by simp) (by simp)
  exact ⟨hb.mono (Nat.le_refl _) (by simp), xzVliGo_eq_run f limit 9 p 0 0⟩

/-! ## xz: block loop -/

theorem xzBlocks_eq_run (lz : Nat → Bytes → Option (Nat × List Bytes)) (ct : Nat) (f : Bytes) : ∀ fuel p,
    xzBlocks lz ct f fuel p = (run (xzBlocksStep lz ct f) fuel p).outD none := by
  intro fuel
  induction fuel with
  | zero => intros; rfl
  | succ n ih =>
    intro p
    rw [run_outD_fold]
    simp only [xzBlocks, xzBlocksStep, apply_ite (Out.fold none (run (xzBlocksStep lz ct f) n)), Out.fold_done]
    refine ite_congr rfl (fun _ => rfl) (fun _ => ?_)
    refine ite_congr rfl (fun _ => rfl) (fun _ => ?_)
    cases hb : xzBlockAt lz ct f p with
    | none => rfl
    | some b =>
      simp only [Out.fold_wrap, ih b.next, Run.outD]
      cases (run (xzBlocksStep lz ct f) n b.next).res with
      | none => rfl
      | some r => cases r with
        | none => rfl
        | some v => rfl

/-- **progress**: every block of an xz stream moves the position forward by at least 8 bytes (a block
header is at least 8 bytes long) and stays inside the file -/
theorem xzBlocksStep_progress (lz : Nat → Bytes → Option (Nat × List Bytes)) (ct : Nat) (f : Bytes) (p q : Nat)
    (h : (xzBlocksStep lz ct f p).succ? = some q) : p + 8 ≤ q ∧ q ≤ f.length := by
  unfold xzBlocksStep at h
  split at h
  · simp [Out.succ?] at h
  split at h
  · simp [Out.succ?] at h
  rename_i hz
  split at h
  · simp [Out.succ?] at h
  rename_i b hb
  simp only [Out.succ?, Option.some.injEq] at h
  subst h
  obtain ⟨hp, ok⟩ := gate_xzBlockAt lz ct f p b hb
  have hh := gate_xzBlockHeaderAt f b.pos b.hdr ok.hdr
  have hn := ok.next
  have hc := ok.cpos
  have hf := ok.fits
  have hz' : u8 f p ≠ 0 := by simpa using hz
  rw [hp] at hh hc
  have h8 : 8 ≤ b.hdr.size := by
    rw [hh.1]
    have : 1 ≤ u8 f p := Nat.pos_of_ne_zero hz'
    omega
  refine ⟨?_, hf⟩
  have : 0 ≤ (if ct = 1 then 4 else xzCheckSize ct) := Nat.zero_le _
  omega

/-- **xz work bound**: the block loop ends by itself within `(|file| - 12)/8 + 1` iterations; the model's
fuel `|file|` never stops it -/
theorem xzBlocks_work (lz : Nat → Bytes → Option (Nat × List Bytes)) (ct : Nat) (f : Bytes) (h12 : 12 ≤ f.length) :
    EndsWithin (xzBlocksStep lz ct f) f.length 12 ((f.length - 12) / 8 + 1) ∧
    xzBlocks lz ct f f.length 12 = (run (xzBlocksStep lz ct f) f.length 12).outD none :=
  ⟨run_bounded (xzBlocksStep lz ct f) (fun _ => True) (fun p => f.length - p) 8 (by decide)
      (fun s s' _ h => ⟨trivial, by have := xzBlocksStep_progress lz ct f s s' h; omega⟩) f.length 12 trivial (by omega),
   xzBlocks_eq_run lz ct f f.length 12⟩

/-- the number of blocks found (= the number of Index records `dec_index` then reads) is backed by bytes -/
theorem xzBlocks_count (lz : Nat → Bytes → Option (Nat × List Bytes)) (ct : Nat) (f : Bytes) : ∀ fuel p ip bs,
    xzBlocks lz ct f fuel p = some (ip, bs) → p + 8 * bs.length ≤ ip ∧ ip < f.length := by
  intro fuel
  induction fuel with
  | zero => intro p ip bs h; simp [xzBlocks] at h
  | succ n ih =>
    intro p ip bs h
    have hstep : ∀ q, (xzBlocksStep lz ct f p).succ? = some q → p + 8 ≤ q := fun q hq =>
      (xzBlocksStep_progress lz ct f p q hq).1
    unfold xzBlocks at h
    unfold xzBlocksStep at hstep
    split at h
    · simp at h
    rename_i hlen
    rw [if_neg hlen] at hstep
    split at h
    · simp only [Option.some.injEq, Prod.mk.injEq] at h
      obtain ⟨h1, h2⟩ := h
      subst h1; subst h2
      simp; omega
    rename_i hz
    rw [if_neg hz] at hstep
    split at h
    · simp at h
    rename_i b hb
    rw [hb] at hstep
    split at h
    · simp at h
    rename_i ip' bs' hrec
    simp only [Option.some.injEq, Prod.mk.injEq] at h
    obtain ⟨h1, h2⟩ := h
    subst h1; subst h2
    have := ih _ _ _ hrec
    have h8 := hstep b.next (by simp [Out.succ?])
    simp only [List.length_cons]
    omega

/-! ## zip: end-of-central-directory search window -/

/-- the loop that finds the lower end of the search region stops because its exit test holds, not because the
model's fuel ran out, and never goes further back than 65 557 + 4 093 bytes from the end -/
theorem zipWindowLo_spec (size : Nat) : ∀ fuel w, w ≤ size → (w = 0 ∨ 69650 ≤ size - w + fuel * 4093) →
    size - w ≤ 69650 →
    (zipWindowLo size fuel w = 0 ∨ 65557 ≤ size - zipWindowLo size fuel w) ∧
      size - zipWindowLo size fuel w ≤ 69650 ∧ zipWindowLo size fuel w ≤ w := by
  intro fuel
  induction fuel with
  | zero =>
    intro w _ h h2
    simp only [zipWindowLo]
    omega
  | succ n ih =>
    intro w hw h h2
    simp only [zipWindowLo]
    split
    · rename_i hc
      simp only [Bool.or_eq_true, beq_iff_eq, decide_eq_true_eq] at hc
      omega
    · rename_i hc
      simp only [Bool.or_eq_true, beq_iff_eq, decide_eq_true_eq, not_or, Nat.not_le] at hc
      have := ih (w - 4093) (by omega) (by omega) (by omega)
      omega

/-- **zip EOCD scan bound**: whatever the archive (comment length field, size), the scan for the end-of-central-
directory record starts at most 69 650 bytes before the end of the file — a fixed limit of the library -/
theorem zipEocd_window (f : Bytes) :
    let lo := zipWindowLo f.length 32 (f.length - 4096)
    (lo = 0 ∨ 65557 ≤ f.length - lo) ∧ f.length - lo ≤ 69650 := by
  have := zipWindowLo_spec f.length 32 (f.length - 4096) (by omega) (by omega) (by omega)
  exact ⟨this.1, this.2.1⟩

/-! ## zip: zip64 extra-field walk -/

theorem zipFindZip64_eq_run : ∀ fuel x, zipFindZip64 fuel x = (run zip64Step fuel x).outD (some none) := by
  intro fuel
  induction fuel with
  | zero => intros; rfl
  | succ n ih =>
    intro x
    rw [run_outD_fold]
    simp only [zipFindZip64, zip64Step, apply_ite (Out.fold (some none) (run zip64Step n)), Out.fold_done,
      Out.fold_next, ← ih]

theorem zip64Step_progress (x x' : Bytes) (h : (zip64Step x).succ? = some x') : x'.length + 4 ≤ x.length := by
  unfold zip64Step at h
  repeat' split at h
  all_goals (simp only [Out.succ?, Option.some.injEq, reduceCtorEq] at h)
  subst h
  simp only [List.length_drop]
  omega

/-- **zip64 extra walk**: every field consumes at least its 4-byte header; the walk over an extra area of
`|x|` bytes ends by itself within `|x|/4 + 1` iterations, and the model's fuel (`ext + 1` for an area of
`ext` bytes) is never what stops it -/
theorem zip64_work (x : Bytes) (fuel : Nat) (hf : x.length < fuel) :
    EndsWithin zip64Step fuel x (x.length / 4 + 1) ∧ zipFindZip64 fuel x = (run zip64Step fuel x).outD (some none) :=
  ⟨run_bounded zip64Step (fun _ => True) List.length 4 (by decide)
      (fun s s' _ h => ⟨trivial, zip64Step_progress s s' h⟩) fuel x trivial
      (by have : x.length / 4 ≤ x.length := Nat.div_le_self _ _; omega),
   zipFindZip64_eq_run fuel x⟩

/-! ## zip: central directory loop -/

theorem zipCdirLoop_eq_run (f : Bytes) (thisDisk : Nat) : ∀ fuel k p n he,
    (run (zipCdirStep f thisDisk) fuel (k, p, n, he)).res.isSome = true →
    zipCdirLoop f thisDisk k p n he = (run (zipCdirStep f thisDisk) fuel (k, p, n, he)).outD none := by
  intro fuel
  induction fuel with
  | zero => intro k p n he h; simp [run] at h
  | succ m ih =>
    intro k p n he h
    rw [run_outD_fold]
    cases k with
    | zero => rfl
    | succ k =>
      simp only [run, zipCdirStep] at h
      simp only [zipCdirLoop, zipCdirStep]
      cases hr : zipCdirRecord f thisDisk p n he with
      | none => rfl
      | some r =>
        obtain ⟨tot, he'⟩ := r
        rw [hr] at h
        simp only [Option.isSome_map] at h
        simp only [Out.fold_wrap, ih k (p + tot) (n - tot) he' h, Run.outD]
        cases (run (zipCdirStep f thisDisk) m (k, p + tot, n - tot, he')).res with
        | none => rfl
        | some r => cases r <;> rfl

theorem zipCdirRecord_tot (f : Bytes) (thisDisk p n : Nat) (he : Bool) (tot : Nat) (he' : Bool)
    (h : zipCdirRecord f thisDisk p n he = some (tot, he')) : 46 ≤ tot ∧ tot ≤ n := by
  unfold zipCdirRecord at h
  simp only [] at h
  repeat' split at h
  all_goals (try (simp at h; done))
  all_goals (simp only [Option.some.injEq, Prod.mk.injEq] at h; obtain ⟨h1, _⟩ := h; subst h1)
  all_goals (simp only [Nat.not_lt] at *; omega)

/-- **progress**: every accepted central-directory record uses up at least 46 of the remaining
central-directory bytes -/
theorem zipCdirStep_progress (f : Bytes) (thisDisk : Nat) (s s' : Nat × Nat × Nat × Bool)
    (h : (zipCdirStep f thisDisk s).succ? = some s') : s'.2.2.1 + 46 ≤ s.2.2.1 := by
  obtain ⟨k, p, n, he⟩ := s
  cases k with
  | zero => simp [zipCdirStep, Out.succ?] at h
  | succ k =>
    simp only [zipCdirStep] at h
    cases hr : zipCdirRecord f thisDisk p n he with
    | none => rw [hr] at h; simp [Out.succ?] at h
    | some r =>
      obtain ⟨tot, he'⟩ := r
      rw [hr] at h
      simp only [Out.succ?, Option.some.injEq] at h
      subst h
      have := zipCdirRecord_tot f thisDisk p n he tot he' hr
      simp only
      omega

/-- **zip central directory work bound**: the record loop runs at most `n/46 + 1` times for a central
directory of `n` bytes, whatever record count `k` the end-of-central-directory record declares (up to
2^32 − 1 with zip64) -/
theorem zipCdir_work (f : Bytes) (thisDisk k p n : Nat) (he : Bool) :
    EndsWithin (zipCdirStep f thisDisk) (n / 46 + 1) (k, p, n, he) (n / 46 + 1) ∧
    zipCdirLoop f thisDisk k p n he = (run (zipCdirStep f thisDisk) (n / 46 + 1) (k, p, n, he)).outD none := by
  have hb := run_bounded (zipCdirStep f thisDisk) (fun _ => True) (fun s => s.2.2.1) 46 (by decide)
    (fun s s' _ h => ⟨trivial, zipCdirStep_progress f thisDisk s s' h⟩) (n / 46 + 1) (k, p, n, he) trivial
    (by simp)
  exact ⟨hb, zipCdirLoop_eq_run f thisDisk _ k p n he hb.1⟩

/-- `mz_zip_reader_init`: the central directory lies inside the file, so the record loop runs at most
`|file|/46 + 1` times -/
theorem zipOpen_cdir_le (f : Bytes) (l : List Nat) (h : zipOpen f = some l) :
    ∃ E : ZipEocd, zipEocd f = some E ∧ E.cdirOfs + E.cdirSize ≤ f.length ∧
      l.length = E.total ∧ 46 * l.length ≤ E.cdirSize := by
  unfold zipOpen at h
  split at h
  · simp at h
  rename_i E hE
  repeat' split at h
  all_goals (try (simp at h; done))
  rename_i hfit
  refine ⟨E, hE, by omega, ?_⟩
  have key : ∀ k p n he l, zipCdirLoop f E.thisDisk k p n he = some l → l.length = k ∧ 46 * l.length ≤ n := by
    intro k
    induction k with
    | zero => intro p n he l h; simp [zipCdirLoop] at h; subst h; simp
    | succ k ih =>
      intro p n he l h
      unfold zipCdirLoop at h
      split at h
      · simp at h
      rename_i tot he' hr
      split at h
      · simp at h
      rename_i l' hl
      simp only [Option.some.injEq] at h
      subst h
      have := ih _ _ _ _ hl
      have ht := zipCdirRecord_tot f E.thisDisk p n he tot he' hr
      simp only [List.length_cons]
      omega
  exact key _ _ _ _ _ h

/-! ## gzip header -/

theorem skipZ_bounds (f : Bytes) (p q : Nat) (h : skipZ f p = some q) : p < q ∧ (p ≤ f.length → q ≤ f.length) := by
  unfold skipZ at h
  split at h
  · rename_i k hk
    simp only [Option.some.injEq] at h
    subst h
    have := List.findIdx?_eq_some_iff_findIdx_eq.mp hk
    refine ⟨by omega, ?_⟩
    intro hp
    have hlt := this.1
    simp only [List.length_drop] at hlt
    omega
  · simp at h

/-- **gzip header walk**: the deflate data starts after the 10 fixed bytes and leaves room for the 8-byte
trailer — FEXTRA's declared length, unterminated FNAME/FCOMMENT strings cannot move it outside the file -/
theorem gzipDataStart_bounds (f : Bytes) (p : Nat) (h : gzipDataStart f = some p) : 10 ≤ p ∧ p + 8 ≤ f.length := by
  unfold gzipDataStart at h
  simp only [] at h
  split at h
  · simp at h
  split at h
  · simp at h
  split at h
  · simp at h
  rename_i p1 h1
  split at h
  · simp at h
  rename_i p2 h2
  split at h
  · simp at h
  rename_i p3 h3
  split at h
  · simp at h
  rename_i p4 h4
  split at h
  · simp at h
  simp only [Option.some.injEq] at h
  have b1 : 10 ≤ p1 := by
    (repeat' split at h1) <;> simp only [Option.some.injEq, reduceCtorEq] at h1 <;> omega
  have b2 : p1 ≤ p2 := by
    split at h2
    · have := skipZ_bounds _ _ _ h2; omega
    · simp only [Option.some.injEq] at h2; omega
  have b3 : p2 ≤ p3 := by
    split at h3
    · have := skipZ_bounds _ _ _ h3; omega
    · simp only [Option.some.injEq] at h3; omega
  have b4 : p3 ≤ p4 := by
    (repeat' split at h4) <;> simp only [Option.some.injEq, reduceCtorEq] at h4 <;> omega
  omega

end Xmp.Work
