import XmpModel.FmtMod
namespace Xmp.Fmt
open Xmp

theorem takeN_append {a : Bytes} {n : Nat} (r : Bytes) (h : a.length = n) :
    takeN n (a ++ r) = some (a, r) := by
  subst h; simp [takeN]

theorem padTo_length (n : Nat) (b : Bytes) : (padTo n b).length = n := by
  simp [padTo]

theorem padTo_eq {n : Nat} {b : Bytes} (h : b.length ≤ n) :
    padTo n b = b ++ List.replicate (n - b.length) 0 := by
  unfold padTo
  rw [List.take_append, List.take_of_length_le h, List.take_replicate]
  congr 2; omega

theorem u8_toNat (x : Nat) : (u8 x).toNat = x % 256 := by
  simp [u8, UInt8.toNat_ofNat']

theorem u8_toNat_lt {x : Nat} (h : x < 256) : (u8 x).toNat = x := by
  rw [u8_toNat]; omega

theorem rd16be_be16 {n : Nat} (h : n < 65536) : rd16be (be16 n) = n := by
  simp only [be16, rd16be, u8_toNat]; omega

theorem takeWhile_append_replicate {p : UInt8 → Bool} {z : UInt8} (a : Bytes) (k : Nat)
    (ha : ∀ c ∈ a, p c = true) (hz : p z = false) :
    (a ++ List.replicate k z).takeWhile p = a := by
  induction a with
  | nil => cases k <;> simp [List.replicate_succ, hz]
  | cons x xs ih =>
    simp only [List.cons_append]
    rw [List.takeWhile_cons_of_pos (ha x (by simp)), ih (fun c hc => ha c (by simp [hc]))]

theorem print_ne_zero {c : UInt8} (h : isPrintAscii c = true) : (decide (c ≠ 0)) = true := by
  simp only [isPrintAscii, Bool.and_eq_true, decide_eq_true_eq] at h
  simp only [ne_eq, decide_not, Bool.not_eq_eq_eq_not, Bool.not_true, decide_eq_false_iff_not]
  intro hc; subst hc; simp at h

theorem cstr_padTo {n : Nat} {b : Bytes} (h : NameOk n b) : cstr (padTo n b) = b := by
  rw [padTo_eq h.1]; unfold cstr
  exact takeWhile_append_replicate b _ (fun c hc => print_ne_zero (h.2.1 c hc)) (by simp)

theorem cstr_self {n : Nat} {b : Bytes} (h : NameOk n b) : cstr b = b := by
  have := takeWhile_append_replicate (p := (· ≠ 0)) (z := 0) b 0
    (fun c hc => print_ne_zero (h.2.1 c hc)) (by simp)
  simpa [cstr] using this

theorem map_print {b : Bytes} (d : UInt8) (h : ∀ c ∈ b, isPrintAscii c = true) :
    b.map (fun c => if isPrintAscii c then c else d) = b := by
  induction b with
  | nil => rfl
  | cons x xs ih =>
    simp only [List.map_cons, h x (by simp), if_true]
    rw [ih (fun c hc => h c (by simp [hc]))]

theorem stripTrail_self {b : Bytes} (h : b.getLast? ≠ some 32) : stripTrail b = b := by
  unfold stripTrail
  cases hr : b.reverse with
  | nil => simp at hr; simp [hr]
  | cons x xs =>
    have hx : b.getLast? = some x := by rw [← List.head?_reverse, hr]; rfl
    have : (x == 32) = false := by
      rw [hx] at h; simpa using h
    rw [List.dropWhile_cons_of_neg (by simp [this]), ← hr, List.reverse_reverse]

theorem adjustString_self {n : Nat} {b : Bytes} (h : NameOk n b) : adjustString b = b := by
  unfold adjustString
  rw [cstr_self h, map_print _ h.2.1, stripTrail_self h.2.2]

theorem adjustString_cstr_padTo {n : Nat} {b : Bytes} (h : NameOk n b) :
    adjustString (cstr (padTo n b)) = b := by
  rw [cstr_padTo h, adjustString_self h]

theorem copyAdjust_padTo {n : Nat} {b : Bytes} (h : NameOk n b) :
    copyAdjust n (padTo n b) = b := by
  unfold copyAdjust
  rw [List.take_of_length_le (by rw [padTo_length]; exact Nat.le_refl _), cstr_padTo h,
    map_print _ h.2.1, stripTrail_self h.2.2]

end Xmp.Fmt

namespace Xmp.Fmt.Mod
open Xmp Xmp.Fmt

/-! ## cells -/

theorem period_table_roundtrip :
    ∀ n ∈ List.range 60, periodToNote (noteToPeriod (noteBase + n)) = noteBase + n := by
  decide +kernel

theorem period_table_bound : ∀ n ∈ List.range 60, noteToPeriod (noteBase + n) < 4096 := by
  decide +kernel

theorem periodToNote_noteToPeriod {n : Nat} (h : NoteOk n) : periodToNote (noteToPeriod n) = n := by
  rcases h with h | ⟨h1, h2⟩
  · subst h; rfl
  · have := period_table_roundtrip (n - noteBase) (by simp [List.mem_range]; omega)
    rwa [show noteBase + (n - noteBase) = n by omega] at this

theorem noteToPeriod_lt {n : Nat} (h : NoteOk n) : noteToPeriod n < 4096 := by
  rcases h with h | ⟨h1, h2⟩
  · subst h; decide
  · have := period_table_bound (n - noteBase) (by simp [List.mem_range]; omega)
    rwa [show noteBase + (n - noteBase) = n by omega] at this

theorem encCell_length (c : Cell) (fx : UInt8 × UInt8) : (encCell c fx).length = 4 := rfl

theorem decCell_encCell {c : Cell} (fx : UInt8 × UInt8) (h : CellOk c) : decCell (encCell c fx) = c := by
  obtain ⟨hn, hi, hv⟩ := h
  have hp := noteToPeriod_lt hn
  have hr := periodToNote_noteToPeriod hn
  cases c with
  | mk note ins vol =>
  simp only at hn hi hv hp hr
  subst hv
  simp only [encCell, decCell, u8_toNat]
  generalize noteToPeriod note = p at hp hr
  have hf := fx.1.toNat_lt
  have e1 : ((ins / 16 * 16 + p / 256) % 256 % 16) * 256 + p % 256 % 256 = p := by omega
  have e2 : (ins / 16 * 16 + p / 256) % 256 / 16 * 16 + (ins % 16 * 16 + fx.1.toNat % 16) % 256 / 16 = ins := by
    omega
  rw [e1, e2, hr]

theorem encCells_length (cs : List Cell) (fx : Nat → UInt8 × UInt8) (i : Nat) :
    (encCells cs fx i).length = 4 * cs.length := by
  induction cs generalizing i with
  | nil => rfl
  | cons c cs ih => simp only [encCells, List.length_append, encCell_length, ih, List.length_cons]; omega

theorem decodeN_encCells (cs : List Cell) (fx : Nat → UInt8 × UInt8) (i : Nat) (rest : Bytes)
    (h : ∀ c ∈ cs, CellOk c) : decodeN 4 decCell cs.length (encCells cs fx i ++ rest) = cs := by
  induction cs generalizing i with
  | nil => rfl
  | cons c cs ih =>
    simp only [encCells, List.length_cons, decodeN, List.append_assoc]
    rw [List.take_left' (encCell_length _ _), List.drop_left' (encCell_length _ _),
      decCell_encCell _ (h c (by simp)), ih _ (fun c hc => h c (by simp [hc]))]

theorem decPats_encPats (chn : Nat) (ps : List Pat) (fx : Nat → UInt8 × UInt8) (i : Nat) (rest : Bytes)
    (h : ∀ p ∈ ps, PatOk chn p) : decPats chn ps.length (encPats ps fx i ++ rest) = some (ps, rest) := by
  induction ps generalizing i with
  | nil => rfl
  | cons p ps ih =>
    obtain ⟨hr, hl, hc⟩ := h p (by simp)
    simp only [encPats, List.length_cons, decPats, List.append_assoc]
    rw [takeN_append _ (by rw [encCells_length, hl]; omega)]
    simp only
    rw [ih _ (fun q hq => h q (by simp [hq]))]
    simp only
    have := decodeN_encCells p.cells fx i [] hc
    rw [List.append_nil, hl] at this
    rw [this]
    cases p; simp_all

end Xmp.Fmt.Mod
