import XmpModel.FmtMod
/-!
# Whole-file round trip of the Protracker MOD codec (`Xmp.Fmt.Mod.read (write s o) = some s`)

Main results (namespace `Xmp.Fmt.Mod`):

* `roundtrip` : `WellFormed s o → NoAdpcm s.smps → read (write s o) = some s`, every signature kind;
* `roundtrip_detected`, `roundtrip_mk` : the two instances asked for (all kinds except "M.K.", and "M.K.");
* `roundtrip_of_len` : the same with the simpler sufficient condition "every non-empty sample has ≥ 5 bytes".

`NoAdpcm` is an extra hypothesis that `WellFormed` does not imply and without which the statement is
false (`wellFormed_not_sufficient`): the loader probes the **file** (not the sample) for the 5-byte tag
"ADPCM" before every non-empty sample, so a 2- or 4-byte sample whose bytes, continued by the following
sample bodies, spell "ADPCM" is taken for a compressed sample, although no single sample body starts
with the tag (which is all that `SlotOk` asks).
-/
namespace Xmp.Fmt
open Xmp

theorem takeN_append {a : Bytes} {n : Nat} (r : Bytes) (h : a.length = n) :
    takeN n (a ++ r) = some (a, r) := by
  subst h; simp [takeN]

theorem padTo_length (n : Nat) (b : Bytes) : (padTo n b).length = n := by
  simp [padTo]

theorem padTo_eq {n : Nat} {b : Bytes} (h : b.length ≤ n) :
    padTo n b = b ++ List.replicate (n - b.length) 0 := by
  unfold padTo
  rw [List.take_append, List.take_of_length_le h, List.take_replicate]
  congr 2; omega

theorem u8_toNat (x : Nat) : (u8 x).toNat = x % 256 := by
  simp [u8, UInt8.toNat_ofNat']

theorem u8_toNat_lt {x : Nat} (h : x < 256) : (u8 x).toNat = x := by
  rw [u8_toNat]; omega

theorem fixOrders_of_lt {pat : Nat} {ords : Bytes} (h : ∀ x ∈ ords, x.toNat < pat) : fixOrders pat ords = ords := by
  unfold fixOrders
  cases ords with
  | nil => simp
  | cons a r =>
    have := h a (by simp)
    have hn : ¬ (a.toNat ≥ pat) := by omega
    simp [hn]

theorem rd16be_be16 {n : Nat} (h : n < 65536) : rd16be (be16 n) = n := by
  simp only [be16, rd16be, u8_toNat]; omega

theorem takeWhile_append_replicate {p : UInt8 → Bool} {z : UInt8} (a : Bytes) (k : Nat)
    (ha : ∀ c ∈ a, p c = true) (hz : p z = false) :
    (a ++ List.replicate k z).takeWhile p = a := by
  induction a with
  | nil => cases k <;> simp [List.replicate_succ, hz]
  | cons x xs ih =>
    simp only [List.cons_append]
    rw [List.takeWhile_cons_of_pos (ha x (by simp)), ih (fun c hc => ha c (by simp [hc]))]

theorem print_ne_zero {c : UInt8} (h : isPrintAscii c = true) : (decide (c ≠ 0)) = true := by
  simp only [isPrintAscii, Bool.and_eq_true, decide_eq_true_eq] at h
  simp only [ne_eq, decide_not, Bool.not_eq_eq_eq_not, Bool.not_true, decide_eq_false_iff_not]
  intro hc; subst hc; simp at h

theorem cstr_padTo {n : Nat} {b : Bytes} (h : NameOk n b) : cstr (padTo n b) = b := by
  rw [padTo_eq h.1]; unfold cstr
  exact takeWhile_append_replicate b _ (fun c hc => print_ne_zero (h.2.1 c hc)) (by simp)

theorem cstr_self {n : Nat} {b : Bytes} (h : NameOk n b) : cstr b = b := by
  have := takeWhile_append_replicate (p := (· ≠ 0)) (z := 0) b 0
    (fun c hc => print_ne_zero (h.2.1 c hc)) (by simp)
  simpa [cstr] using this

theorem map_print {b : Bytes} (d : UInt8) (h : ∀ c ∈ b, isPrintAscii c = true) :
    b.map (fun c => if isPrintAscii c then c else d) = b := by
  induction b with
  | nil => rfl
  | cons x xs ih =>
    simp only [List.map_cons, h x (by simp), if_true]
    rw [ih (fun c hc => h c (by simp [hc]))]

theorem stripTrail_self {b : Bytes} (h : b.getLast? ≠ some 32) : stripTrail b = b := by
  unfold stripTrail
  cases hr : b.reverse with
  | nil => simp at hr; simp [hr]
  | cons x xs =>
    have hx : b.getLast? = some x := by rw [← List.head?_reverse, hr]; rfl
    have : (x == 32) = false := by
      rw [hx] at h; simpa using h
    rw [List.dropWhile_cons_of_neg (by simp [this]), ← hr, List.reverse_reverse]

theorem adjustString_self {n : Nat} {b : Bytes} (h : NameOk n b) : adjustString b = b := by
  unfold adjustString
  rw [cstr_self h, map_print _ h.2.1, stripTrail_self h.2.2]

theorem adjustString_cstr_padTo {n : Nat} {b : Bytes} (h : NameOk n b) :
    adjustString (cstr (padTo n b)) = b := by
  rw [cstr_padTo h, adjustString_self h]

theorem copyAdjust_padTo {n : Nat} {b : Bytes} (h : NameOk n b) :
    copyAdjust n (padTo n b) = b := by
  unfold copyAdjust
  rw [List.take_of_length_le (by rw [padTo_length]; exact Nat.le_refl _), cstr_padTo h,
    map_print _ h.2.1, stripTrail_self h.2.2]

end Xmp.Fmt

namespace Xmp.Fmt.Mod
open Xmp Xmp.Fmt

/-! ## cells -/

theorem period_table_roundtrip :
    ∀ n ∈ List.range 60, periodToNote (noteToPeriod (noteBase + n)) = noteBase + n := by
  decide +kernel

theorem period_table_bound : ∀ n ∈ List.range 60, noteToPeriod (noteBase + n) < 4096 := by
  decide +kernel

theorem periodToNote_noteToPeriod {n : Nat} (h : NoteOk n) : periodToNote (noteToPeriod n) = n := by
  rcases h with h | ⟨h1, h2⟩
  · subst h; rfl
  · have := period_table_roundtrip (n - noteBase) (by simp [List.mem_range]; omega)
    rwa [show noteBase + (n - noteBase) = n by omega] at this

theorem noteToPeriod_lt {n : Nat} (h : NoteOk n) : noteToPeriod n < 4096 := by
  rcases h with h | ⟨h1, h2⟩
  · subst h; decide
  · have := period_table_bound (n - noteBase) (by simp [List.mem_range]; omega)
    rwa [show noteBase + (n - noteBase) = n by omega] at this

theorem encCell_length (c : Cell) (fx : UInt8 × UInt8) : (encCell c fx).length = 4 := rfl

theorem decCell_encCell {c : Cell} (fx : UInt8 × UInt8) (h : CellOk c) : decCell (encCell c fx) = c := by
  obtain ⟨hn, hi, hv⟩ := h
  have hp := noteToPeriod_lt hn
  have hr := periodToNote_noteToPeriod hn
  cases c with
  | mk note ins vol =>
  simp only at hn hi hv hp hr
  subst hv
  simp only [encCell, decCell, u8_toNat]
  generalize noteToPeriod note = p at hp hr
  have hf := fx.1.toNat_lt
  have e1 : ((ins / 16 * 16 + p / 256) % 256 % 16) * 256 + p % 256 % 256 = p := by omega
  have e2 : (ins / 16 * 16 + p / 256) % 256 / 16 * 16 + (ins % 16 * 16 + fx.1.toNat % 16) % 256 / 16 = ins := by
    omega
  rw [e1, e2, hr]

theorem encCells_length (cs : List Cell) (fx : Nat → UInt8 × UInt8) (i : Nat) :
    (encCells cs fx i).length = 4 * cs.length := by
  induction cs generalizing i with
  | nil => rfl
  | cons c cs ih => simp only [encCells, List.length_append, encCell_length, ih, List.length_cons]; omega

theorem decodeN_encCells (cs : List Cell) (fx : Nat → UInt8 × UInt8) (i : Nat) (rest : Bytes)
    (h : ∀ c ∈ cs, CellOk c) : decodeN 4 decCell cs.length (encCells cs fx i ++ rest) = cs := by
  induction cs generalizing i with
  | nil => rfl
  | cons c cs ih =>
    simp only [encCells, List.length_cons, decodeN, List.append_assoc]
    rw [List.take_left' (encCell_length _ _), List.drop_left' (encCell_length _ _),
      decCell_encCell _ (h c (by simp)), ih _ (fun c hc => h c (by simp [hc]))]

theorem decPats_encPats (chn : Nat) (ps : List Pat) (fx : Nat → UInt8 × UInt8) (i : Nat) (rest : Bytes)
    (h : ∀ p ∈ ps, PatOk chn p) : decPats chn ps.length (encPats ps fx i ++ rest) = some (ps, rest) := by
  induction ps generalizing i with
  | nil => rfl
  | cons p ps ih =>
    obtain ⟨hr, hl, hc⟩ := h p (by simp)
    simp only [encPats, List.length_cons, decPats, List.append_assoc]
    rw [takeN_append _ (by rw [encCells_length, hl]; omega)]
    simp only
    rw [ih _ (fun q hq => h q (by simp [hq]))]
    simp only
    have := decodeN_encCells p.cells fx i [] hc
    rw [List.append_nil, hl] at this
    rw [this]
    cases p; simp_all

/-! ## sample headers -/

theorem decHdr_append {n : Bytes} (hn : n.length = 22) (a0 a1 f v b0 b1 c0 c1 : UInt8) :
    decHdr (n ++ [a0, a1, f, v, b0, b1, c0, c1]) =
      { name := n, size := a0.toNat * 256 + a1.toNat, fine := f.toNat, vol := v.toNat,
        lstart := b0.toNat * 256 + b1.toNat, lsize := c0.toNat * 256 + c1.toNat } := by
  unfold decHdr
  have h26 : n.drop 26 = [] := List.drop_of_length_le (by omega)
  have h28 : n.drop 28 = [] := List.drop_of_length_le (by omega)
  simp [List.drop_append, hn, List.getD_eq_getElem?_getD, rd16be, h26, h28]

/-- the writer's finetune nibble -/
def fineNib (ins : Ins) : Nat :=
  let sub : Sub := ins.subs.headD { sid := 0, vol := 0, pan := 0x80, xpo := 0, fin := 0 }
  (sub.fin.toNat + (if sub.fin < 0 then 256 - (-sub.fin).toNat else 0)) % 256 / 16

def volOf (ins : Ins) : Nat :=
  (ins.subs.headD { sid := 0, vol := 0, pan := 0x80, xpo := 0, fin := 0 }).vol

def lstartOf (s : Smp) : Nat := if s.flg &&& FLOOP ≠ 0 then s.lps / 2 else 0
def lsizeOf (s : Smp) : Nat := if s.flg &&& FLOOP ≠ 0 then (s.lpe - s.lps) / 2 else 0

theorem encHdr_eq (x : Ins) (m : Smp) :
    encHdr x m = padTo 22 x.name ++
      [u8 (m.len / 2 / 256), u8 (m.len / 2 % 256), u8 (fineNib x), u8 (volOf x),
       u8 (lstartOf m / 256), u8 (lstartOf m % 256), u8 (lsizeOf m / 256), u8 (lsizeOf m % 256)] := by
  simp [encHdr, be16, fineNib, volOf, lstartOf, lsizeOf]

theorem encHdr_length (x : Ins) (m : Smp) : (encHdr x m).length = 30 := by
  rw [encHdr_eq]; simp [padTo_length]

/-- the raw header the reader sees for slot `(x, m)` -/
def rawHdr (x : Ins) (m : Smp) : Hdr := decHdr (encHdr x m)

theorem rawHdr_eq (x : Ins) (m : Smp) :
    rawHdr x m =
    { name := padTo 22 x.name,
      size := (m.len / 2 / 256) % 256 * 256 + m.len / 2 % 256 % 256,
      fine := fineNib x % 256, vol := volOf x % 256,
      lstart := (lstartOf m / 256) % 256 * 256 + lstartOf m % 256 % 256,
      lsize := (lsizeOf m / 256) % 256 * 256 + lsizeOf m % 256 % 256 } := by
  unfold rawHdr
  rw [encHdr_eq, decHdr_append (padTo_length _ _)]
  simp only [u8_toNat]

theorem subsOk_cases {i : Nat} {l : List Sub} (h : SubsOk i l) :
    ∃ sub, l = [sub] ∧ sub.sid = i ∧ sub.vol ≤ 64 ∧ sub.pan = 0x80 ∧ sub.xpo = 0 ∧
      -128 ≤ sub.fin ∧ sub.fin ≤ 112 ∧ sub.fin % 16 = 0 := by
  match l, h with
  | [sub], h => exact ⟨sub, rfl, h⟩

theorem rawHdr_size {i : Nat} {x : Ins} {m : Smp} (h : SlotOk i x m) : (rawHdr x m).size = m.len / 2 := by
  obtain ⟨-, -, -, -, -, heven, hlt, -, -⟩ := h
  rw [rawHdr_eq]; simp only; omega

theorem hdrIns_rawHdr {i : Nat} {x : Ins} {m : Smp} (h : SlotOk i x m) : hdrIns i (rawHdr x m) = x := by
  have hsz := rawHdr_size h
  obtain ⟨hname, hkm, -, -, -, heven, hlt, -, hcase⟩ := h
  cases x with
  | mk name subs keymap =>
  simp only at hname hkm hcase
  subst hkm
  simp only [hdrIns, hsz]
  rw [rawHdr_eq]
  simp only [copyAdjust_padTo hname, adjustString_self hname]
  by_cases hl : m.len = 0
  · rw [if_pos hl] at hcase
    simp [hl, hcase.1]
  · rw [if_neg hl] at hcase
    obtain ⟨sub, rfl, h1, h2, h3, h4, h5, h6, h7⟩ := subsOk_cases hcase.1
    rw [if_pos (by omega)]
    cases sub with
    | mk sid vol pan xpo fin =>
    simp only at h1 h2 h3 h4 h5 h6 h7
    subst h1 h3 h4
    have hF : fineNib { name := name, subs := [{ sid := sid, vol := vol, pan := 128, xpo := 0, fin := fin }] } =
        (fin.toNat + (if fin < 0 then 256 - (-fin).toNat else 0)) % 256 / 16 := rfl
    have hV : volOf { name := name, subs := [{ sid := sid, vol := vol, pan := 128, xpo := 0, fin := fin }] } = vol := rfl
    rw [hV]
    generalize fineNib _ = F at hF
    have hv : vol % 256 = vol := by omega
    have hf : (if F % 256 * 16 % 256 ≥ 128 then ((F % 256 * 16 % 256 : Nat) : Int) - 256
        else ((F % 256 * 16 % 256 : Nat) : Int)) = fin := by
      split <;> split at hF <;> omega
    simp only [hv, hf]

theorem hdrSmp_noloop (n : Bytes) (size fine vol : Nat) :
    hdrSmp { name := n, size := size, fine := fine, vol := vol, lstart := 0, lsize := 0 } =
      { name := [], len := 2 * size, lps := 0, lpe := 0, flg := 0, pcm := [] } := by
  simp [hdrSmp, loopSanity]

theorem hdrSmp_loop (n : Bytes) (size fine vol lstart lsize : Nat) (h1 : 2 ≤ lsize)
    (h2 : lstart + lsize ≤ size) :
    hdrSmp { name := n, size := size, fine := fine, vol := vol, lstart := lstart, lsize := lsize } =
      { name := [], len := 2 * size, lps := 2 * lstart, lpe := 2 * lstart + 2 * lsize, flg := FLOOP, pcm := [] } := by
  have a1 : ¬ (2 * lstart + 2 * lsize > 2 * size) := by omega
  have a2 : lsize > 1 ∧ 2 * lstart + 2 * lsize ≥ 4 := by omega
  have a3 : 2 * size > 0 := by omega
  have a4 : ¬ (2 * lstart ≥ 2 * size ∨ 2 * lstart ≥ 2 * lstart + 2 * lsize) := by omega
  simp only [hdrSmp, if_neg a1, if_pos a2, if_pos a3, loopSanity, if_neg a4]
  simp [FLOOP, FBIDIR]

theorem fineNib_lt (x : Ins) : fineNib x < 16 := by
  unfold fineNib; simp only; omega

theorem slot_loop_cases {i : Nat} {x : Ins} {m : Smp} (h : SlotOk i x m) :
    (lstartOf m = 0 ∧ lsizeOf m = 0 ∧ m.flg = 0 ∧ m.lps = 0 ∧ m.lpe = 0) ∨
    (lstartOf m = m.lps / 2 ∧ lsizeOf m = (m.lpe - m.lps) / 2 ∧ m.flg = FLOOP ∧
      m.lps % 2 = 0 ∧ m.lpe % 2 = 0 ∧ m.lps + 4 ≤ m.lpe ∧ m.lpe ≤ m.len) := by
  obtain ⟨-, -, -, -, -, -, -, -, hcase⟩ := h
  by_cases hl : m.len = 0
  · rw [if_pos hl] at hcase
    obtain ⟨-, h1, h2, h3⟩ := hcase
    left; simp [lstartOf, lsizeOf, h1, h2, h3]
  · rw [if_neg hl] at hcase
    obtain ⟨-, -, hcase⟩ := hcase
    rcases hcase with ⟨h1, h2, h3⟩ | ⟨h0, h1, h2, h3, h4⟩
    · left; simp [lstartOf, lsizeOf, h1, h2, h3]
    · right; simp [lstartOf, lsizeOf, h0, h1, h2, h3, h4, FLOOP]

theorem volOf_le {i : Nat} {x : Ins} {m : Smp} (h : SlotOk i x m) : volOf x ≤ 64 := by
  obtain ⟨-, -, -, -, -, -, -, -, hcase⟩ := h
  by_cases hl : m.len = 0
  · rw [if_pos hl] at hcase
    simp [volOf, hcase.1]
  · rw [if_neg hl] at hcase
    obtain ⟨sub, hs, -, h2, -⟩ := subsOk_cases hcase.1
    simp [volOf, hs, h2]

theorem split16 {n : Nat} (h : n < 65536) : n / 256 % 256 * 256 + n % 256 % 256 = n := by omega

theorem rawHdr_norm {i : Nat} {x : Ins} {m : Smp} (h : SlotOk i x m) :
    rawHdr x m =
    { name := padTo 22 x.name, size := m.len / 2, fine := fineNib x, vol := volOf x,
      lstart := lstartOf m, lsize := lsizeOf m } := by
  have hv := volOf_le h
  have hf := fineNib_lt x
  have hc := slot_loop_cases h
  obtain ⟨-, -, -, -, -, heven, hlt, -, -⟩ := h
  rw [rawHdr_eq]
  have e1 : m.len / 2 / 256 % 256 * 256 + m.len / 2 % 256 % 256 = m.len / 2 := split16 (by omega)
  have e2 : fineNib x % 256 = fineNib x := by omega
  have e3 : volOf x % 256 = volOf x := by omega
  have b4 : lstartOf m < 65536 := by
    rcases hc with ⟨h1, -⟩ | ⟨h1, _, _, _, _, _, _⟩ <;> rw [h1] <;> omega
  have b5 : lsizeOf m < 65536 := by
    rcases hc with ⟨-, h1, -⟩ | ⟨_, h1, _, _, _, _, _⟩ <;> rw [h1] <;> omega
  have e4 := split16 b4
  have e5 := split16 b5
  rw [e1, e2, e3, e4, e5]

theorem hdrSmp_rawHdr {i : Nat} {x : Ins} {m : Smp} (h : SlotOk i x m) :
    hdrSmp (rawHdr x m) = { m with pcm := [] } := by
  rw [rawHdr_norm h]
  have hc := slot_loop_cases h
  obtain ⟨-, -, hmn, hsus, hsue, heven, hlt, -, -⟩ := h
  cases m with
  | mk name len lps lpe flg sus sue pcm =>
  simp only at hmn hsus hsue heven hlt hc
  subst hmn hsus hsue
  have e : 2 * (len / 2) = len := by omega
  rcases hc with ⟨h1, h2, rfl, rfl, rfl⟩ | ⟨h1, h2, rfl, h3, h4, h5, h6⟩
  · simp only [h1, h2, hdrSmp_noloop, e]
  · simp only [h1, h2]
    rw [hdrSmp_loop _ _ _ _ _ _ (by omega) (by omega)]
    have e1 : 2 * (lps / 2) = lps := by omega
    have e2 : lps + 2 * ((lpe - lps) / 2) = lpe := by omega
    simp only [e, e1, e2]

/-! ## the 31 slots -/

theorem slotsOk_cons {i : Nat} {x : Ins} {xs : List Ins} {m : Smp} {ms : List Smp} :
    SlotsOk i (x :: xs) (m :: ms) ↔ SlotOk i x m ∧ SlotsOk (i + 1) xs ms := by
  simp [SlotsOk]

theorem slotsOk_length {i : Nat} {xs : List Ins} {ms : List Smp} (h : SlotsOk i xs ms) :
    xs.length = ms.length := by
  induction xs generalizing i ms with
  | nil => cases ms with
    | nil => rfl
    | cons m ms => simp [SlotsOk] at h
  | cons x xs ih => cases ms with
    | nil => simp [SlotsOk] at h
    | cons m ms => simp [ih (slotsOk_cons.1 h).2]

theorem encHdrs_length {xs : List Ins} {ms : List Smp} (h : xs.length = ms.length) :
    (encHdrs xs ms).length = 30 * xs.length := by
  induction xs generalizing ms with
  | nil => simp [encHdrs]
  | cons x xs ih => cases ms with
    | nil => simp at h
    | cons m ms =>
      simp only [encHdrs, List.length_append, encHdr_length, List.length_cons]
      rw [ih (by simpa using h)]; omega

theorem decodeN_encHdrs {xs : List Ins} {ms : List Smp} (rest : Bytes) (h : xs.length = ms.length) :
    decodeN 30 decHdr xs.length (encHdrs xs ms ++ rest) = List.zipWith rawHdr xs ms := by
  induction xs generalizing ms with
  | nil => simp [decodeN]
  | cons x xs ih => cases ms with
    | nil => simp at h
    | cons m ms =>
      simp only [encHdrs, List.length_cons, decodeN, List.append_assoc, List.zipWith_cons_cons]
      rw [List.take_left' (encHdr_length _ _), List.drop_left' (encHdr_length _ _), ih (by simpa using h)]
      rfl

theorem zipWith_hdrIns {i : Nat} {xs : List Ins} {ms : List Smp} (h : SlotsOk i xs ms) :
    List.zipWith hdrIns (List.range' i xs.length) (List.zipWith rawHdr xs ms) = xs := by
  induction xs generalizing i ms with
  | nil => simp
  | cons x xs ih => cases ms with
    | nil => simp [SlotsOk] at h
    | cons m ms =>
      obtain ⟨h1, h2⟩ := slotsOk_cons.1 h
      simp only [List.length_cons, List.range'_succ, List.zipWith_cons_cons, hdrIns_rawHdr h1, ih h2]

theorem map_hdrSmp {i : Nat} {xs : List Ins} {ms : List Smp} (h : SlotsOk i xs ms) :
    (List.zipWith rawHdr xs ms).map hdrSmp = ms.map (fun m => { m with pcm := [] }) := by
  induction xs generalizing i ms with
  | nil => cases ms with
    | nil => rfl
    | cons m ms => simp [SlotsOk] at h
  | cons x xs ih => cases ms with
    | nil => simp [SlotsOk] at h
    | cons m ms =>
      obtain ⟨h1, h2⟩ := slotsOk_cons.1 h
      simp only [List.zipWith_cons_cons, List.map_cons, hdrSmp_rawHdr h1, ih h2]

theorem map_size {i : Nat} {xs : List Ins} {ms : List Smp} (h : SlotsOk i xs ms) :
    (List.zipWith rawHdr xs ms).map (fun h => 2 * h.size) = ms.map (·.len) := by
  induction xs generalizing i ms with
  | nil => cases ms with
    | nil => rfl
    | cons m ms => simp [SlotsOk] at h
  | cons x xs ih => cases ms with
    | nil => simp [SlotsOk] at h
    | cons m ms =>
      obtain ⟨h1, h2⟩ := slotsOk_cons.1 h
      have : 2 * (m.len / 2) = m.len := by have := h1.2.2.2.2.2.1; omega
      simp only [List.zipWith_cons_cons, List.map_cons, rawHdr_size h1, ih h2, this]

theorem obsLoop_self {i : Nat} {x : Ins} {m : Smp} (h : SlotOk i x m) : obsLoop m = m := by
  have hc := slot_loop_cases h
  obtain ⟨-, -, -, hsus, hsue, -, -, -, -⟩ := h
  cases m with
  | mk name len lps lpe flg sus sue pcm =>
  simp only at hsus hsue hc
  subst hsus hsue
  rcases hc with ⟨-, -, rfl, rfl, rfl⟩ | ⟨-, -, rfl, -⟩ <;> simp [obsLoop, FLOOP, FSLOOP]

theorem slots_mem {i : Nat} {xs : List Ins} {ms : List Smp} (h : SlotsOk i xs ms) :
    ∀ m ∈ ms, ∃ j x, SlotOk j x m := by
  induction xs generalizing i ms with
  | nil => cases ms with
    | nil => simp
    | cons m ms => simp [SlotsOk] at h
  | cons x xs ih => cases ms with
    | nil => simp [SlotsOk] at h
    | cons m ms =>
      obtain ⟨h1, h2⟩ := slotsOk_cons.1 h
      intro m' hm'
      simp only [List.mem_cons] at hm'
      rcases hm' with rfl | hm'
      · exact ⟨_, _, h1⟩
      · exact ih h2 m' hm'

/-! ## sample bodies -/

/-- no sample body, as it lies in the file (followed by the later bodies), begins with "ADPCM" -/
theorem decSmps_flat (ms : List Smp) (h1 : ∀ m ∈ ms, m.pcm.length = m.len) (h2 : NoAdpcm ms) :
    decSmps (ms.map fun m => { m with pcm := [] }) (ms.flatMap (·.pcm)) = some ms := by
  induction ms with
  | nil => rfl
  | cons m ms ih =>
    obtain ⟨ha, hb⟩ := h2
    have hl := h1 m (by simp)
    have ih := ih (fun m hm => h1 m (by simp [hm])) hb
    simp only [List.map_cons, List.flatMap_cons, decSmps]
    by_cases hz : m.len = 0
    · have hp : m.pcm = [] := List.eq_nil_of_length_eq_zero (by omega)
      rw [if_pos hz, hp, List.nil_append, ih]
      cases m; simp_all
    · rw [if_neg hz, if_neg (by simpa using ha hz), takeN_append _ hl]
      simp only [ih, Option.map_some]



theorem noAdpcm_of_forall (ms : List Smp)
    (h : ∀ m ∈ ms, m.len ≠ 0 → 5 ≤ m.pcm.length ∧ m.pcm.take 5 ≠ adpcmTag) : NoAdpcm ms := by
  induction ms with
  | nil => trivial
  | cons m ms ih =>
    refine ⟨fun hz => ?_, ih fun m hm => h m (by simp [hm])⟩
    obtain ⟨h5, ht⟩ := h m (by simp) hz
    rw [List.flatMap_cons, List.take_append_of_le_length h5]
    exact ht

theorem noAdpcm_of_len {i : Nat} {xs : List Ins} {ms : List Smp} (h : SlotsOk i xs ms)
    (h5 : ∀ m ∈ ms, m.len ≠ 0 → 5 ≤ m.len) : NoAdpcm ms := by
  apply noAdpcm_of_forall
  intro m hm hz
  obtain ⟨j, x, hs⟩ := slots_mem h m hm
  obtain ⟨-, -, -, -, -, -, -, hl, hc⟩ := hs
  rw [if_neg hz] at hc
  exact ⟨by rw [hl]; exact h5 m hm hz, hc.2.1⟩

/-! ## magic -/

theorem magic_table : ∀ kind ∈ List.range 4, ∀ chn ∈ List.range 33, 1 ≤ chn →
    (magicFor kind chn).length = 4 ∧
    (magicFor kind chn = str "M.K." → chn = 4) ∧
    ∃ det san, magicInfo (magicFor kind chn) =
        some { chn := chn, detected := det, digital := false, sanity := san } ∧
      (det = false → san = true → kind = 0 ∧ chn = 4) := by
  decide +kernel

/-! ## file size, `mod_test` side conditions -/

theorem encPats_length {chn : Nat} (ps : List Pat) (fx : Nat → UInt8 × UInt8) (i : Nat)
    (h : ∀ p ∈ ps, PatOk chn p) : (encPats ps fx i).length = ps.length * 4 * chn * 64 := by
  induction ps generalizing i with
  | nil => simp [encPats]
  | cons p ps ih =>
    obtain ⟨-, hl, -⟩ := h p (by simp)
    simp only [encPats, List.length_append, encCells_length, hl, List.length_cons,
      ih _ (fun q hq => h q (by simp [hq]))]
    generalize ps.length = n
    have e : ∀ a : Nat, a * 4 * chn * 64 = a * (4 * chn * 64) := fun a => by
      simp only [Nat.mul_assoc]
    rw [e, e, Nat.add_mul, Nat.one_mul]
    omega

theorem flat_length (ms : List Smp) (h : ∀ m ∈ ms, m.pcm.length = m.len) :
    (ms.flatMap (·.pcm)).length = (ms.map (·.len)).sum := by
  induction ms with
  | nil => rfl
  | cons m ms ih =>
    simp only [List.flatMap_cons, List.length_append, List.map_cons, List.sum_cons,
      h m (by simp), ih (fun m hm => h m (by simp [hm]))]

theorem patCount_pos (os : Bytes) (m : Nat) : m + 1 ≤ patCount os m := by
  induction os generalizing m with
  | nil => simp [patCount]
  | cons o os ih =>
    simp only [patCount]
    split
    · omega
    · split
      · have := ih o.toNat; omega
      · exact ih m

theorem badBlock_encCells (cs : List Cell) (fx : Nat → UInt8 × UInt8) (i : Nat)
    (h : ∀ c ∈ cs, CellOk c) : badBlock (encCells cs fx i) = false := by
  induction cs generalizing i with
  | nil => rfl
  | cons c cs ih =>
    obtain ⟨hn, hi, -⟩ := h c (by simp)
    have hp := noteToPeriod_lt hn
    simp only [encCells, encCell, List.cons_append, List.nil_append, badBlock, u8_toNat,
      ih _ (fun c hc => h c (by simp [hc])), Bool.or_false, decide_eq_false_iff_not]
    omega

theorem badBlock_block (ps : List Pat) (fx : Nat → UInt8 × UInt8) (j : Nat) (rest : Bytes)
    (h : ∀ p ∈ ps, PatOk 4 p) (i : Nat) (hi : i < ps.length) :
    badBlock (((encPats ps fx j ++ rest).drop (1024 * i)).take 1024) = false := by
  induction ps generalizing i j with
  | nil => simp at hi
  | cons p ps ih =>
    obtain ⟨-, hl, hc⟩ := h p (by simp)
    have hE : (encCells p.cells fx j).length = 1024 := by rw [encCells_length, hl]
    simp only [encPats, List.append_assoc]
    cases i with
    | zero => simp only [Nat.mul_zero, List.drop_zero, List.take_left' hE, badBlock_encCells _ _ _ hc]
    | succ i =>
      rw [show 1024 * (i + 1) = 1024 + 1024 * i by omega, ← List.drop_drop, List.drop_left' hE]
      exact ih _ (fun q hq => h q (by simp [hq])) i (by simpa using hi)

theorem hdrTestOk_rawHdr {i : Nat} {x : Ins} {m : Smp} (h : SlotOk i x m) :
    hdrTestOk (rawHdr x m) = true := by
  have h1 := fineNib_lt x
  have h2 := volOf_le h
  rw [rawHdr_norm h]
  simp only [hdrTestOk, Bool.and_eq_true, Bool.or_eq_true, decide_eq_true_eq]
  omega

theorem all_hdrTestOk {i : Nat} {xs : List Ins} {ms : List Smp} (h : SlotsOk i xs ms) :
    (List.zipWith rawHdr xs ms).all hdrTestOk = true := by
  induction xs generalizing i ms with
  | nil => simp
  | cons x xs ih => cases ms with
    | nil => simp
    | cons m ms =>
      obtain ⟨h1, h2⟩ := slotsOk_cons.1 h
      simp only [List.zipWith_cons_cons, List.all_cons, hdrTestOk_rawHdr h1, ih h2, Bool.and_self]

theorem any_vol_of_test {hdrs : List Hdr} (h : hdrs.all hdrTestOk = true) :
    (hdrs.any fun h => decide (h.vol ≥ 128)) = false := by
  rw [List.any_eq_false]
  intro x hx
  have := List.all_eq_true.1 h x hx
  unfold hdrTestOk at this
  simp only [Bool.and_eq_true, decide_eq_true_eq] at this
  simp only [decide_eq_true_eq]; omega

theorem any_len_of_sum (ms : List Smp) (h : (ms.map (·.len)).sum = 0) :
    ((ms.map fun m => { m with pcm := [] }).any fun x => decide (x.len > 0)) = false := by
  induction ms with
  | nil => rfl
  | cons m ms ih =>
    simp only [List.map_cons, List.sum_cons] at h
    simp only [List.map_cons, List.any_cons, ih (by omega), Bool.or_false, decide_eq_false_iff_not]
    omega

/-! ## the reader on a file whose parts are known -/

theorem read_eq_some {bs name r1 hb r2 lr r3 ords r4 magic r5 r6 : Bytes} {mi : MagicInfo}
    {pats : List Pat} {smps : List Smp} {hdrs : List Hdr} {pat smpSize : Nat}
    (h1 : takeN 20 bs = some (name, r1)) (h2 : takeN (31 * 30) r1 = some (hb, r2))
    (h3 : takeN 2 r2 = some (lr, r3)) (h4 : takeN 128 r3 = some (ords, r4))
    (h5 : takeN 4 r4 = some (magic, r5)) (hmi : magicInfo magic = some mi)
    (hhdrs : decodeN 30 decHdr 31 hb = hdrs) (hpat : patCount ords 0 = pat)
    (hsmp : (hdrs.map fun h => 2 * h.size).sum = smpSize)
    (hdig : mi.digital = false) (htest : hdrs.all hdrTestOk = true)
    (hvol : (hdrs.any fun h => decide (h.vol ≥ 128)) = false)
    (hlen : ¬ ((lr.getD 0 0).toNat > 128))
    (hflex : ¬ (1084 + pat * 4 * mi.chn * 64 + smpSize < bs.length))
    (hwow : magic = str "M.K." → ¬ (1084 + pat * 32 * 64 + smpSize = bs.length / 2 * 2))
    (hpt : magic = str "M.K." → 1084 + pat * 1024 = bs.length → ((hdrs.map hdrSmp).any fun x => decide (x.len > 0)) = false)
    (hsan : mi.sanity = true → mi.detected = false →
      ¬ (1084 + pat * 768 + smpSize = bs.length) ∧ ¬ (pat * 1024 + 1084 > bs.length) ∧
      ¬ (((List.range pat).filter fun i => badBlock ((bs.drop (1084 + 1024 * i)).take 1024)).length > 2))
    (hchn : mi.chn < 64)
    (hpats : decPats mi.chn pat r5 = some (pats, r6))
    (hsmps : decSmps (hdrs.map hdrSmp) r6 = some smps) :
    read bs = some { name := adjustString (cstr name), chn := mi.chn,
                     orders := fixOrders pat (ords.take (lr.getD 0 0).toNat), pats := pats,
                     ins := (List.range 31).zipWith hdrIns hdrs, smps := smps.map obsLoop,
                     spd := 6, bpm := 125 } := by
  unfold read
  simp only [h1, h2, h3, h4, h5, hmi, hhdrs, hpat, hsmp, Option.bind_eq_bind, Option.bind_some, htest, hvol, hlen, hdig,
    decide_eq_false hflex, Bool.and_false, Bool.false_and, Bool.not_false, Bool.and_true, Bool.not_true,
    Bool.false_eq_true, if_false]
  have hW : ∀ a d : Bool, (a && decide (magic = str "M.K.") && d &&
      decide (1084 + pat * 32 * 64 + smpSize = bs.length / 2 * 2)) = false := by
    intro a d
    by_cases hMK : magic = str "M.K."
    · simp [hwow hMK]
    · simp [hMK]
  have hP : ∀ a : Bool, ((a && decide (magic = str "M.K.") && decide (1084 + pat * 1024 = bs.length)) = true ∧
      ((hdrs.map hdrSmp).any fun x => decide (x.len > 0)) = true) = False := by
    intro a
    refine eq_false ?_
    rintro ⟨h, h'⟩
    simp only [Bool.and_eq_true, decide_eq_true_eq] at h
    rw [hpt h.1.2 h.2] at h'
    cases h'
  have hC : ¬ (mi.chn ≥ 64) := by omega
  simp only [hW, Bool.false_eq_true, if_false, hC, hpats, Option.bind_some, Bool.not_false, Bool.and_true, hP,
    hsmps]
  split
  · next hs =>
    simp only [Bool.and_eq_true, Bool.not_eq_eq_eq_not, Bool.not_true] at hs
    obtain ⟨c1, c2, c3⟩ := hsan hs.1 hs.2
    simp only [c1, c2, c3, if_false]
  · rfl

theorem sum_even (ms : List Smp) (h : ∀ m ∈ ms, m.len % 2 = 0) : (ms.map (·.len)).sum % 2 = 0 := by
  induction ms with
  | nil => rfl
  | cons m ms ih =>
    have := h m (by simp)
    have := ih (fun m hm => h m (by simp [hm]))
    simp only [List.map_cons, List.sum_cons]; omega

/-- whole-file round trip, all signature kinds -/
theorem roundtrip (s : Module) (o : Opts) (h : WellFormed s o) (hA : NoAdpcm s.smps) :
    read (write s o) = some s := by
  obtain ⟨hname, hchn, hkind, holen, hpc, hpats, hnins, hslots, hspd, hbpm, hoplay⟩ := h
  have hlen := slotsOk_length hslots
  obtain ⟨hml, hmk, det, san, hmi, hsan⟩ :=
    magic_table o.kind (List.mem_range.2 hkind) s.chn (List.mem_range.2 (by omega)) hchn.1
  have hslot : ∀ m ∈ s.smps, ∃ j x, SlotOk j x m := slots_mem hslots
  have hpcm : ∀ m ∈ s.smps, m.pcm.length = m.len := fun m hm => by
    obtain ⟨j, x, hs⟩ := hslot m hm
    exact hs.2.2.2.2.2.2.2.1
  have heven : (s.smps.map (·.len)).sum % 2 = 0 := sum_even _ fun m hm => by
    obtain ⟨j, x, hs⟩ := hslot m hm
    exact hs.2.2.2.2.2.1
  have hobs : s.smps.map obsLoop = s.smps := by
    rw [List.map_congr_left (g := id), List.map_id]
    intro m hm
    obtain ⟨j, x, hs⟩ := hslot m hm
    exact obsLoop_self hs
  -- the pieces of the file
  have hw : write s o = padTo 20 s.name ++ (encHdrs s.ins s.smps ++ ([u8 s.orders.length, o.restart] ++
      (padTo 128 s.orders ++ (magicFor o.kind s.chn ++
        (encPats s.pats o.fx 0 ++ s.smps.flatMap (·.pcm)))))) := by
    simp only [write, List.append_assoc]
  have hHB : (encHdrs s.ins s.smps).length = 31 * 30 := by rw [encHdrs_length hlen, hnins]
  have hdrop : (write s o).drop 1084 = encPats s.pats o.fx 0 ++ s.smps.flatMap (·.pcm) := by
    have : write s o = (padTo 20 s.name ++ (encHdrs s.ins s.smps ++ ([u8 s.orders.length, o.restart] ++
        (padTo 128 s.orders ++ magicFor o.kind s.chn)))) ++
          (encPats s.pats o.fx 0 ++ s.smps.flatMap (·.pcm)) := by
      simp only [write, List.append_assoc]
    rw [this]
    exact List.drop_left' (by
      simp only [List.length_append, padTo_length, hHB, hml, List.length_cons, List.length_nil])
  have hsize : (write s o).length =
      1084 + s.pats.length * 4 * s.chn * 64 + (s.smps.map (·.len)).sum := by
    rw [hw]
    simp only [List.length_append, padTo_length, hHB, hml, encPats_length _ _ _ hpats,
      flat_length _ hpcm, List.length_cons, List.length_nil]
    omega
  have h1 := takeN_append (encHdrs s.ins s.smps ++ ([u8 s.orders.length, o.restart] ++
      (padTo 128 s.orders ++ (magicFor o.kind s.chn ++
        (encPats s.pats o.fx 0 ++ s.smps.flatMap (·.pcm)))))) (padTo_length 20 s.name)
  have h2 := takeN_append ([u8 s.orders.length, o.restart] ++
      (padTo 128 s.orders ++ (magicFor o.kind s.chn ++
        (encPats s.pats o.fx 0 ++ s.smps.flatMap (·.pcm))))) hHB
  have h3 := takeN_append (a := [u8 s.orders.length, o.restart]) (n := 2)
      (padTo 128 s.orders ++ (magicFor o.kind s.chn ++
        (encPats s.pats o.fx 0 ++ s.smps.flatMap (·.pcm)))) rfl
  have h4 := takeN_append (magicFor o.kind s.chn ++
        (encPats s.pats o.fx 0 ++ s.smps.flatMap (·.pcm))) (padTo_length 128 s.orders)
  have h5 := takeN_append (encPats s.pats o.fx 0 ++ s.smps.flatMap (·.pcm)) hml
  rw [← hw] at h1
  have hH : decodeN 30 decHdr 31 (encHdrs s.ins s.smps) = List.zipWith rawHdr s.ins s.smps := by
    have := decodeN_encHdrs [] hlen
    rwa [List.append_nil, hnins] at this
  have hsum : ((List.zipWith rawHdr s.ins s.smps).map fun h => 2 * h.size).sum = (s.smps.map (·.len)).sum := by
    rw [map_size hslots]
  have hpos : 1 ≤ s.pats.length := by rw [← hpc]; exact patCount_pos _ 0
  have hdp := decPats_encPats s.chn s.pats o.fx 0 (s.smps.flatMap (·.pcm)) hpats
  have hds := decSmps_flat s.smps hpcm hA
  rw [← map_hdrSmp hslots] at hds
  have key := read_eq_some h1 h2 h3 h4 h5 hmi hH hpc hsum rfl (all_hdrTestOk hslots)
    (any_vol_of_test (all_hdrTestOk hslots))
    (by show ¬ ((u8 s.orders.length).toNat > 128); rw [u8_toNat]; omega)
    (by rw [hsize]; show ¬ (1084 + s.pats.length * 4 * s.chn * 64 + _ < _); omega)
    (fun hMK => by rw [hsize, hmk hMK]; omega)
    (fun hMK hp => by
      rw [map_hdrSmp hslots]
      apply any_len_of_sum
      rw [hsize, hmk hMK] at hp
      omega)
    (fun hs hd => by
      have hc4 : s.chn = 4 := (hsan hd hs).2
      rw [hsize, hc4]
      refine ⟨by omega, by omega, ?_⟩
      rw [(List.filter_eq_nil_iff).2, List.length_nil]
      · omega
      · intro i hi
        rw [← List.drop_drop, hdrop, Bool.not_eq_true]
        exact badBlock_block s.pats o.fx 0 _ (hc4 ▸ hpats) i (List.mem_range.1 hi))
    (by show s.chn < 64; omega) hdp hds
  rw [key]
  have e1 : ([u8 s.orders.length, o.restart].getD 0 0).toNat = s.orders.length := by
    show (u8 s.orders.length).toNat = _
    rw [u8_toNat]; omega
  have e2 : (padTo 128 s.orders).take s.orders.length = s.orders := by
    rw [padTo_eq holen, List.take_left' rfl]
  have e3 : List.zipWith hdrIns (List.range 31) (List.zipWith rawHdr s.ins s.smps) = s.ins := by
    have := zipWith_hdrIns hslots
    rwa [hnins, ← List.range_eq_range'] at this
  have e4 : fixOrders s.pats.length s.orders = s.orders := fixOrders_of_lt hoplay
  rw [adjustString_cstr_padTo hname, e1, e2, e3, hobs, e4]
  cases s
  simp_all

/-! ## the requested statements -/

/-- signature kinds "M!K!", nCHN, nnCH (everything except "M.K."); `_hk` is not needed by the proof -/
theorem roundtrip_detected (s : Module) (o : Opts) (h : WellFormed s o) (hA : NoAdpcm s.smps)
    (_hk : ¬ (o.kind = 0 ∧ s.chn = 4)) : read (write s o) = some s :=
  roundtrip s o h hA

/-- the "M.K." signature (kind 0, 4 channels): goes through the `mod_test` sanity branch of `read` -/
theorem roundtrip_mk (s : Module) (o : Opts) (h : WellFormed s o) (hA : NoAdpcm s.smps)
    (_hk : o.kind = 0 ∧ s.chn = 4) : read (write s o) = some s :=
  roundtrip s o h hA

theorem roundtrip_of_len (s : Module) (o : Opts) (h : WellFormed s o)
    (h5 : ∀ m ∈ s.smps, m.len ≠ 0 → 5 ≤ m.len) : read (write s o) = some s :=
  roundtrip s o h (noAdpcm_of_len h.slots h5)

/-! ## `WellFormed` alone is not enough -/
def cxIns (i : Nat) : Ins := { name := [], subs := [{ sid := i, vol := 64, pan := 0x80, xpo := 0, fin := 0 }] }
def cxSmp (pcm : Bytes) : Smp := { name := [], len := pcm.length, lps := 0, lpe := 0, flg := 0, pcm := pcm }
def cx : Module :=
  { name := [], chn := 4, orders := [0], pats := [{ rows := 64, cells := List.replicate 256 {} }],
    ins := [cxIns 0, cxIns 1] ++ List.replicate 29 { name := [], subs := [] },
    smps := [cxSmp [65, 68], cxSmp [80, 67, 77, 0]] ++ List.replicate 29 (cxSmp []),
    spd := 6, bpm := 125 }

theorem wellFormed_not_sufficient :
    WellFormed cx { kind := 1 } ∧ read (write cx { kind := 1 }) = none := by
  decide +kernel

theorem cx_not_noAdpcm : ¬ NoAdpcm cx.smps := by decide +kernel

end Xmp.Fmt.Mod
