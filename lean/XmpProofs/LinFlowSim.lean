import XmpProofs.LinFlowSimOrd
/-! C18: the global simulation — `scan_module` against the per-tick player, across orders. -/
set_option linter.unusedSimpArgs false
set_option linter.unusedVariables false
namespace Xmp.LinFlow

/-! ## monotonicity of the scan's marks -/

theorem scanRows_mono (ord : Nat) : ∀ (fxs : List Fx) (row : Nat) (st : ScanSt),
    (∀ st' o2, scanRows ord fxs row st = .done st' o2 →
      (∀ o r, cntAt st.cnt o r ≠ 0 → cntAt st'.cnt o r ≠ 0) ∧ st'.ctl = st.ctl) ∧
    (∀ st' r', scanRows ord fxs row st = .endMod st' r' →
      (∀ o r, cntAt st.cnt o r ≠ 0 → cntAt st'.cnt o r ≠ 0) ∧ st'.ctl = st.ctl) := by
  intro fxs
  induction fxs with
  | nil =>
    intro row st
    constructor
    · intro st' o2 h
      simp [scanRows] at h
      rw [← h.1]; exact ⟨fun _ _ h => h, rfl⟩
    · intro st' r' h
      simp [scanRows] at h
  | cons fx tl ih =>
    intro row st
    by_cases hv : st.rowCountTotal > rowLimit ∨ cntAt st.cnt ord row ≠ 0
    · obtain ⟨s', r0, he, hs1, hs2, _⟩ := scanRows_cons_stop ord fx tl row st hv
      constructor
      · intro st' o2 h; rw [he] at h; cases h
      · intro st' r' h
        rw [he] at h
        cases h
        exact ⟨fun o r h => by rw [hs1]; exact h, hs2⟩
    · have hv0 : cntAt st.cnt ord row = 0 := by
        by_cases h0 : cntAt st.cnt ord row = 0
        · exact h0
        · exact absurd (Or.inr h0) hv
      have hg0 : st.rowCountTotal ≤ rowLimit := by
        by_cases h0 : st.rowCountTotal > rowLimit
        · exact absurd (Or.inl h0) hv
        · omega
      have hstep : ∀ o r, cntAt st.cnt o r ≠ 0 → cntAt (visitStep ord row fx (clampBpm st)).cnt o r ≠ 0 := by
        intro o r hne
        exact (visitStep_cnt_facts ord row fx (clampBpm st)).2.2.1 o r hne
      have hctl : (visitStep ord row fx (clampBpm st)).ctl = st.ctl := by rw [visitStep_ctl]; rfl
      have hf := scanRows_cons_fresh' ord fx tl row st hv0 hg0
      cases fx with
      | jump j =>
        simp only at hf
        constructor
        · intro st' o2 h; rw [hf] at h; cases h; exact ⟨hstep, hctl⟩
        · intro st' r' h; rw [hf] at h; cases h
      | none | speed _ | tempo _ | delay _ | rowdelay _ =>
        simp only at hf
        obtain ⟨i1, i2⟩ := ih (row + 1) (visitStep ord row _ (clampBpm st))
        constructor
        · intro st' o2 h
          rw [hf] at h
          obtain ⟨j1, j2⟩ := i1 st' o2 h
          exact ⟨fun o r hne => j1 o r (hstep o r hne), by rw [j2, hctl]⟩
        · intro st' r' h
          rw [hf] at h
          obtain ⟨j1, j2⟩ := i2 st' r' h
          exact ⟨fun o r hne => j1 o r (hstep o r hne), by rw [j2, hctl]⟩

theorem recordInfo_ctl (ep ord : Nat) (st : ScanSt) : (recordInfo ep ord st).ctl = st.ctl := by
  unfold recordInfo; simp only []; split <;> (split <;> rfl)

theorem getD_set_chain (c : List Nat) (i o chain : Nat) (h : c.getD o 0xff = chain) :
    (c.set i chain).getD o 0xff = chain := by
  by_cases hio : i = o
  · subst hio
    by_cases hl : i < c.length
    · rw [getD_set_eq _ _ _ _ hl]
    · rw [List.set_eq_of_length_le (by omega)]; exact h
  · rw [getD_set_ne _ _ _ _ _ hio]; exact h

/-- the scan only ever adds marks: visited rows stay visited, claimed orders stay claimed, and outside
the main sequence orders already in a sequence are never re-claimed -/
theorem scanOrders_mono (m : LinMod) (ep chain : Nat) : ∀ (fuel nord : Nat) (st stF : ScanSt) (oF rF : Nat),
    scanOrders m ep chain fuel nord st = .finished stF oF rF →
    (∀ o r, cntAt st.cnt o r ≠ 0 → cntAt stF.cnt o r ≠ 0) ∧
    (∀ o, st.ctl.getD o 0xff = chain → stF.ctl.getD o 0xff = chain) ∧
    (ep ≠ 0 → ∀ o, st.ctl.getD o 0xff ≠ 0xff → stF.ctl.getD o 0xff = st.ctl.getD o 0xff) := by
  intro fuel
  induction fuel with
  | zero => intro nord st stF oF rF h; simp [scanOrders] at h
  | succ fuel ih =>
    intro nord st stF oF rF h
    rw [scanOrders] at h
    split at h
    · simp only [Outcome.finished.injEq] at h
      obtain ⟨e1, _, _⟩ := h
      subst e1
      exact ⟨fun _ _ h => h, fun _ h => h, fun _ _ _ => rfl⟩
    · extract_lets st1 wrapped ord pat isEnd skipTo st2 st3 at h
      have h1cnt : st1.cnt = st.cnt := rfl
      have h1ctl : st1.ctl = st.ctl := rfl
      split at h
      · simp only [Outcome.finished.injEq] at h
        obtain ⟨e1, _, _⟩ := h
        subst e1
        exact ⟨fun _ _ h => h, fun _ h => h, fun _ _ _ => rfl⟩
      · split at h
        · split at h
          · have := ih _ _ _ _ _ h
            exact this
          · simp only [Outcome.finished.injEq] at h
            obtain ⟨e1, _, _⟩ := h
            subst e1
            exact ⟨fun _ _ h => h, fun _ h => h, fun _ _ _ => rfl⟩
        · rename_i hclaim
          have h2cnt : st2.cnt = st.cnt := rfl
          have h2ctl : ∀ o, st.ctl.getD o 0xff = chain → st2.ctl.getD o 0xff = chain := by
            intro o ho
            show (st.ctl.set ord chain).getD o 0xff = chain
            exact getD_set_chain _ _ _ _ ho
          have h2used : ep ≠ 0 → ∀ o, st.ctl.getD o 0xff ≠ 0xff → st2.ctl.getD o 0xff = st.ctl.getD o 0xff := by
            intro he o ho
            show (st.ctl.set ord chain).getD o 0xff = _
            have : ord ≠ o := by
              intro hh; subst hh; exact hclaim ⟨he, ho⟩
            rw [getD_set_ne _ _ _ _ _ this]
          split at h
          · obtain ⟨i1, i2, i3⟩ := ih _ _ _ _ _ h
            refine ⟨i1, fun o ho => i2 o (h2ctl o ho), fun he o ho => ?_⟩
            have := h2used he o ho
            rw [i3 he o (by rw [this]; exact ho), this]
          · split at h
            · simp only [Outcome.finished.injEq] at h
              obtain ⟨e1, _, _⟩ := h
              subst e1
              exact ⟨fun _ _ h => h, h2ctl, h2used⟩
            · have h3cnt : st3.cnt = st.cnt := by show (recordInfo ep ord st2).cnt = _; rw [recordInfo_cnt]
              have h3ctl : st3.ctl = st2.ctl := by show (recordInfo ep ord st2).ctl = _; rw [recordInfo_ctl]
              split at h
              · rename_i st' row hrows
                simp only [Outcome.finished.injEq] at h
                obtain ⟨e1, _, _⟩ := h
                subst e1
                obtain ⟨j1, j2⟩ := (scanRows_mono ord _ 0 st3).2 _ _ hrows
                exact ⟨fun o r hne => j1 o r (by rw [h3cnt]; exact hne),
                  fun o ho => by rw [j2, h3ctl]; exact h2ctl o ho,
                  fun he o ho => by rw [j2, h3ctl]; exact h2used he o ho⟩
              · rename_i st' ord2 hrows
                obtain ⟨j1, j2⟩ := (scanRows_mono ord _ 0 st3).1 _ _ hrows
                obtain ⟨i1, i2, i3⟩ := ih _ _ _ _ _ h
                refine ⟨fun o r hne => i1 o r (j1 o r (by rw [h3cnt]; exact hne)),
                  fun o ho => i2 o (by show st'.ctl.getD o 0xff = chain; rw [j2, h3ctl]; exact h2ctl o ho),
                  fun he o ho => ?_⟩
                have h4 : st'.ctl.getD o 0xff = st.ctl.getD o 0xff := by rw [j2, h3ctl]; exact h2used he o ho
                have := i3 he o (by show st'.ctl.getD o 0xff ≠ 0xff; rw [h4]; exact ho)
                rw [this]; exact h4

/-! ## small facts -/

theorem recordInfo_fields (ep ord : Nat) (st : ScanSt) :
    (recordInfo ep ord st).speed = st.speed ∧ (recordInfo ep ord st).bpm = st.bpm ∧
    (recordInfo ep ord st).time = st.time ∧ (recordInfo ep ord st).frameCount = st.frameCount ∧
    (recordInfo ep ord st).rowCount = st.rowCount ∧ (recordInfo ep ord st).trace = st.trace ∧
    (recordInfo ep ord st).anyValid = st.anyValid := by
  unfold recordInfo; simp only []
  split <;> (split <;> exact ⟨rfl, rfl, rfl, rfl, rfl, rfl, rfl⟩)

theorem recordInfo_rct (ep ord : Nat) (st : ScanSt) : (recordInfo ep ord st).rowCountTotal = st.rowCountTotal := by
  unfold recordInfo; simp only []
  split <;> (split <;> rfl)

theorem recordInfo_endMark (ep ord : Nat) (st : ScanSt) : (recordInfo ep ord st).endMark = st.endMark := by
  unfold recordInfo; simp only []
  split <;> (split <;> rfl)

theorem recordInfo_startTime (ep ord : Nat) (st : ScanSt) :
    (ord ≠ ep → (recordInfo ep ord st).startTime = st.startTime) ∧
    ((recordInfo ep ord st).startTime = st.startTime ∨ (recordInfo ep ord st).startTime = st.now) := by
  unfold recordInfo
  extract_lets i i' st1
  constructor
  · intro hne
    rw [if_neg (by intro h; exact hne h.2.2)]
  · by_cases hc : i'.startRow = 0 ∧ ord ≠ 0 ∧ ord = ep
    · right; rw [if_pos hc]; rfl
    · left; rw [if_neg hc]

theorem enter_of_nextOrder (e : PlayEnv) (s : PlaySt) (nord o : Nat)
    (h : nextOrder e.m e.si e.ctl (orderFuel e.m) nord = some o) :
    ∃ p', e.enter s nord = some p' ∧ p'.ord = o ∧ p'.row = 0 ∧ p'.frame = 0 ∧ p'.speed = s.speed ∧
      p'.bpm = s.bpm ∧ p'.delay = s.delay ∧ p'.pbreak = s.pbreak ∧ p'.jump = s.jump ∧
      p'.loopCount = s.loopCount ∧ p'.endPoint = s.endPoint ∧ p'.time = s.time ∧ p'.rowdelay = s.rowdelay := by
  simp only [PlayEnv.enter, h]
  exact ⟨_, rfl, rfl, rfl, rfl, rfl, rfl, rfl, rfl, rfl, rfl, rfl, rfl, rfl⟩

theorem rowsOf_mem (m : LinMod) (o : Nat) (h : isPlay m o) : m.rowsOf (m.patOf o) ∈ m.pats := by
  have h2 : m.patOf o < m.pats.length := h.2
  unfold LinMod.rowsOf
  rw [List.getD_eq_getElem?_getD, List.getElem?_eq_getElem h2]
  simp

theorem cntAt_initCnt (m : LinMod) (o r : Nat) : cntAt (initCnt m) o r = 0 := by
  unfold cntAt initCnt
  simp only [List.getD_eq_getElem?_getD, List.getElem?_map]
  cases h : m.xxo[o]? with
  | none => simp
  | some pat =>
    simp only [Option.map_some, Option.getD_some, List.getElem?_replicate]
    split <;> (split <;> rfl)

theorem initCnt_rowLen (m : LinMod) (o : Nat) (h : isPlay m o) (hne : m.rowsOf (m.patOf o) ≠ []) :
    ((initCnt m).getD o []).length = (m.rowsOf (m.patOf o)).length := by
  have ho' : o < m.xxo.length := h.1
  have hp : ¬ m.xxo[o] ≥ m.npat := by
    have := h.2
    unfold LinMod.patOf at this
    rw [List.getD_eq_getElem?_getD, List.getElem?_eq_getElem ho'] at this
    simp at this; omega
  have hpat : m.patOf o = m.xxo[o] := by
    unfold LinMod.patOf
    rw [List.getD_eq_getElem?_getD, List.getElem?_eq_getElem ho']; simp
  simp only [initCnt, List.getD_eq_getElem?_getD, List.getElem?_map, List.getElem?_eq_getElem ho', Option.map_some,
    Option.getD_some, List.length_replicate, hp, if_false]
  rw [← hpat]
  have : 0 < (m.rowsOf (m.patOf o)).length := List.length_pos_iff.mpr hne
  omega

theorem readFx_loopCount (fx : Fx) (s : PlaySt) : (readFx fx s).loopCount = s.loopCount := by
  cases fx <;> simp [readFx]
  all_goals (split <;> rfl)

/-- entering the scan's end point with the visit budget used up increments the loop counter -/
theorem render_end (e : PlayEnv) (p : PlaySt) (hf : p.frame = 0) (ho : p.ord = e.si.endOrd)
    (hr : p.row = e.si.endRow) (he : p.endPoint = 0) : (e.render p).loopCount = p.loopCount + 1 := by
  simp only [PlayEnv.render, hf, if_true, PlayEnv.newRow, readFx_loopCount]
  simp only [PlayEnv.checkEnd, ho, hr, he, and_self, if_true]

theorem skipMarkers_range (m : LinMod) (hw : ModWF m) (o1 : Nat) (ho1 : isPlay m o1) :
    ∀ (f a : Nat), a ≤ o1 → SkipRange m a o1 → a ≤ skipMarkers m f a ∧ skipMarkers m f a ≤ o1 := by
  intro f
  induction f with
  | zero => intro a h _; simp [skipMarkers]; exact h
  | succ f ih =>
    intro a h hr
    rw [skipMarkers]
    split
    · rename_i hc
      have hne : a ≠ o1 := by
        intro ha; subst ha
        have := hw.mkNpat (by simpa using hc.1)
        have := ho1.2
        omega
      obtain ⟨i1, i2⟩ := ih (a + 1) (by omega) (fun o h1 h2 => hr o (by omega) h2)
      exact ⟨by omega, i2⟩
    · exact ⟨Nat.le_refl _, h⟩

theorem startEndPoint_cases (e : PlayEnv) :
    (e.startEndPoint = 0 ∨ e.startEndPoint = (e.si.num : Int)) ∧
    (skipMarkers e.m e.m.len e.si.ep ≤ e.si.endOrd → e.startEndPoint = (e.si.num : Int)) := by
  unfold PlayEnv.startEndPoint
  simp only []
  by_cases h1 : skipMarkers e.m e.m.len e.si.ep > e.si.endOrd
  · simp only [h1, if_true]
    exact ⟨by simp, fun h => by omega⟩
  · simp only [h1, if_false]
    have : (if skipMarkers e.m e.m.len e.si.ep = e.si.ep then (e.si.num : Int) else (e.si.num : Int)) = e.si.num := by
      split <;> rfl
    rw [this]
    exact ⟨Or.inr rfl, fun _ => rfl⟩

/-! ## the simulation invariant -/

/-- static hypotheses of one `scan_module(ep, chain)` call that ends in `stF` at `(oF, rF)`, and of the
player environment `e` reading its results -/
structure SimHyp (m : LinMod) (ep chain : Nat) (ctl0 : List Nat) (e : PlayEnv) (o1 : Nat)
    (stF : ScanSt) (oF rF : Nat) : Prop where
  wf : ModWF m
  ep_lt : ep < m.len
  /-- from the entry point: skipped orders, then the playable order `o1` -/
  start : SkipRange m ep o1
  o1play : isPlay m o1
  ep_le : ep ≤ o1
  /-- the entry point of a secondary sequence is the lowest free order -/
  low : ep ≠ 0 → ∀ o, o < ep → ctl0.getD o 0xff ≠ 0xff
  chainLt : chain < 255
  em : e.m = m
  eseq : e.si.seq = chain
  eep : e.si.ep = ep
  eord : e.si.endOrd = oF
  erow : e.si.endRow = rF
  enum : e.si.num = cntAt stF.cnt oF rF
  /-- the player's `sequence_control` agrees with the scan's on the restart position -/
  ectl : isPlay m m.rst → (e.ctl.getD m.rst 0xff = chain ↔ stF.ctl.getD m.rst 0xff = chain)

/-- invariant of the scan state at the top of the `while (42)` (also before the first pattern) -/
structure ScanInvW (m : LinMod) (ep chain : Nat) (ctl0 : List Nat) (info0 : List OrdInfo) (o1 : Nat) (st : ScanSt) : Prop where
  cntLen : st.cnt.length = m.len
  rowLen : ∀ o, isPlay m o → (st.cnt.getD o []).length = (m.rowsOf (m.patOf o)).length
  /-- patterns are entered at row 0 only -/
  pre : ∀ o, cntAt st.cnt o 0 = 0 → ∀ r, cntAt st.cnt o r = 0
  vis : ∀ o r, cntAt st.cnt o r ≠ 0 → o1 ≤ o
  own : ∀ o, isPlay m o → st.ctl.getD o 0xff = chain → ctl0.getD o 0xff = chain ∨ cntAt st.cnt o 0 ≠ 0
  low : ep ≠ 0 → ∀ o, o < ep → st.ctl.getD o 0xff = ctl0.getD o 0xff
  ctlLen : m.len ≤ st.ctl.length
  bpm : 20 ≤ st.bpm
  speed : 1 ≤ st.speed
  startTime : st.startTime = 0
  rowCount : st.rowCount = 0
  osv : st.osv = 0
  /-- `scan_cnt` marks exactly the rows of the trace so far, each once -/
  tr : ∀ o r, (o, r) ∈ st.trace.map posOf ↔ cntAt st.cnt o r ≠ 0
  le1 : ∀ o r, cntAt st.cnt o r ≤ 1
  nodup : ((st.trace.map posOf).reverse).Nodup
  ctlOr : ∀ o, st.ctl.getD o 0xff = ctl0.getD o 0xff ∨ st.ctl.getD o 0xff = chain
  infoLen : st.info.length = info0.length
  /-- `xxo_info[ord].time` of an order first entered in this scan is the exact start time of its row 0 -/
  infoT : ∀ rec ∈ st.trace, rec.row = 0 → (info0.getD rec.ord {}).time < 0 → rec.ord < info0.length →
    (st.info.getD rec.ord {}).timeX = rec.t0 ∧ (st.info.getD rec.ord {}).time = (toMs rec.t0 : Int)
  infoU : ∀ o, cntAt st.cnt o 0 = 0 → st.info.getD o {} = info0.getD o {}
  /-- every scanned row lies in an order that holds a pattern and, outside the main sequence, was free -/
  visOrd : ∀ rec ∈ st.trace, isPlay m rec.ord ∧ (ep ≠ 0 → ctl0.getD rec.ord 0xff = 0xff)
  /-- `row_count_total` is 0 at the top of the order loop: the runaway guard never fires -/
  rct : st.rowCountTotal = 0
  /-- no end marker pending (`end_marker_ord = -1`) at the top of the order loop after a pattern -/
  endMark : st.endMark = none

theorem recordInfo_info (ep ord : Nat) (st : ScanSt) :
    (recordInfo ep ord st).info = st.info.set ord
      (if (st.info.getD ord {}).time < 0 then
        { (st.info.getD ord {}) with time := (toMs st.now : Int), timeX := st.now, speed := st.speed, bpm := st.bpm }
       else st.info.getD ord {}) := by
  unfold recordInfo
  extract_lets i i' st1
  split <;> rfl

theorem mem_recSeq (ord : Nat) : ∀ (fxs : List Fx) (row sp b t : Nat) (rec : RowRec), rec ∈ recSeq ord row fxs sp b t →
    rec.ord = ord ∧ row ≤ rec.row ∧ (rec.row = row → rec.t0 = t) := by
  intro fxs
  induction fxs with
  | nil => intro row sp b t rec h; simp [recSeq] at h
  | cons fx tl ih =>
    intro row sp b t rec h
    simp only [recSeq, List.mem_cons] at h
    rcases h with h | h
    · rw [h]; exact ⟨rfl, Nat.le_refl _, fun _ => rfl⟩
    · obtain ⟨i1, i2, _⟩ := ih _ _ _ _ rec h
      exact ⟨i1, by omega, fun h' => by omega⟩

theorem mem_rowSeq (ord row n a b : Nat) : (a, b) ∈ rowSeq ord row n ↔ a = ord ∧ row ≤ b ∧ b < row + n := by
  induction n generalizing row with
  | zero => simp [rowSeq]
  | succ n ih =>
    simp only [rowSeq, List.mem_cons, Prod.mk.injEq, ih (row + 1)]
    omega

theorem rowSeq_nodup (ord row n : Nat) : (rowSeq ord row n).Nodup := by
  induction n generalizing row with
  | zero => simp [rowSeq]
  | succ n ih =>
    rw [rowSeq, List.nodup_cons]
    refine ⟨?_, ih (row + 1)⟩
    rw [mem_rowSeq]; omega

/-- … after at least one pattern -/
structure ScanInv (m : LinMod) (ep chain : Nat) (ctl0 : List Nat) (info0 : List OrdInfo) (o1 : Nat) (st : ScanSt) : Prop
    extends ScanInvW m ep chain ctl0 info0 o1 st where
  first : cntAt st.cnt o1 0 ≠ 0
  ctlO1 : st.ctl.getD o1 0xff = chain
  anyValid : st.anyValid = true
  /-- `xxo_info` of the first order holds the module's initial speed / tempo (if it was unset before) -/
  infoO1 : (info0.getD o1 {}).time < 0 → o1 < info0.length →
    (st.info.getD o1 {}).speed = m.spd ∧ (st.info.getD o1 {}).bpm = m.bpm ∧ 0 ≤ (st.info.getD o1 {}).time

/-- the player has rendered `F` and is about to call `next_order` with target `nord` -/
structure Pend (e : PlayEnv) (s0 : PlaySt) (st : ScanSt) (nord : Nat) (F : List PlaySt) (sP : PlaySt) : Prop where
  run : e.runN F.length s0 = (e.enter sP nord).map fun p' => (F, p')
  recs : rowRecs F = st.trace.reverse
  tk : ticks F = st.now
  delay : sP.delay = 0
  pbreak : sP.pbreak = false
  jump : sP.jump = none
  loopCount : sP.loopCount = 0
  speed : sP.speed = st.speed
  bpm : sP.bpm = st.bpm
  time : sP.time = st.now
  endPoint : sP.endPoint = e.startEndPoint - (cntAt st.cnt e.si.endOrd e.si.endRow : Nat)
  rowdelay : sP.rowdelay = 0

/-- the player has rendered `F` and stands at the first tick of row 0 of order `o` (before its
new-row work), in agreement with the scan state `st` that is about to scan that pattern -/
structure AtRow0 (e : PlayEnv) (s0 : PlaySt) (st : ScanSt) (o : Nat) (F : List PlaySt) (p0 : PlaySt) : Prop where
  run : e.runN F.length s0 = some (F, p0)
  recs : rowRecs F = st.trace.reverse
  tk : ticks F = st.now
  ord : p0.ord = o
  row : p0.row = 0
  frame : p0.frame = 0
  delay : p0.delay = 0
  pbreak : p0.pbreak = false
  jump : p0.jump = none
  loopCount : p0.loopCount = 0
  speed : p0.speed = st.speed
  bpm : p0.bpm = st.bpm
  time : p0.time = st.now
  endPoint : p0.endPoint = e.startEndPoint - (cntAt st.cnt e.si.endOrd e.si.endRow : Nat)
  rowdelay : p0.rowdelay = 0

/-- a playable order that passes the scan's "already in a sequence" test lies at or after `o1` -/
theorem claimed_ge (m : LinMod) (ep chain : Nat) (ctl0 : List Nat) (info0 : List OrdInfo) (e : PlayEnv) (o1 : Nat) (stF : ScanSt) (oF rF : Nat)
    (H : SimHyp m ep chain ctl0 e o1 stF oF rF) (st : ScanSt) (hinv : ScanInvW m ep chain ctl0 info0 o1 st)
    (o : Nat) (ho : isPlay m o) (c' : List Nat) (hk : CtlKeep m ep chain st.ctl c')
    (hchk : ¬ (ep ≠ 0 ∧ c'.getD o 0xff ≠ 0xff)) : o1 ≤ o := by
  have hge : ep ≤ o := by
    by_cases he : ep = 0
    · omega
    · by_cases hlt : o < ep
      · exfalso
        apply hchk
        refine ⟨he, ?_⟩
        rw [hk.play o ho, hinv.low he o hlt]
        exact H.low he o hlt
      · omega
  by_cases hlt : o < o1
  · exact absurd ho (skip_not_play m o (H.start o hge hlt))
  · omega

theorem rowStart_of_rowCount0 (st : ScanSt) (h : st.rowCount = 0) : st.rowStart = st.now := by
  unfold ScanSt.rowStart ScanSt.now
  rw [h, Nat.zero_mul, Nat.add_zero]

theorem inv_pattern (m : LinMod) (ep chain : Nat) (ctl0 : List Nat) (info0 : List OrdInfo) (e : PlayEnv) (o1 : Nat) (stF : ScanSt) (oF rF : Nat)
    (H : SimHyp m ep chain ctl0 e o1 stF oF rF) (st : ScanSt) (hinv : ScanInvW m ep chain ctl0 info0 o1 st)
    (o : Nat) (ho : isPlay m o) (c' : List Nat) (hk : CtlKeep m ep chain st.ctl c') (k : Nat)
    (hchk : ¬ (ep ≠ 0 ∧ c'.getD o 0xff ≠ 0xff)) (hfresh0 : cntAt st.cnt o 0 = 0)
    (hfirst : o = o1 ∨ cntAt st.cnt o1 0 ≠ 0) (hctlo1 : o = o1 ∨ st.ctl.getD o1 0xff = chain)
    (hst : o ≠ ep ∨ st.now = 0)
    (hio1 : (o = o1 ∧ st.speed = m.spd ∧ st.bpm = m.bpm) ∨
      (cntAt st.cnt o1 0 ≠ 0 ∧ ((info0.getD o1 {}).time < 0 → o1 < info0.length →
        (st.info.getD o1 {}).speed = m.spd ∧ (st.info.getD o1 {}).bpm = m.bpm ∧ 0 ≤ (st.info.getD o1 {}).time)))
    (fxs : List Fx) (hfx : fxs ≠ []) (hwf : ∀ fx ∈ fxs, fx.WF)
    (st' : ScanSt)
    (hd : RowsDone o 0 fxs (recordInfo ep o { st with osv := k, ctl := c'.set o chain }) st') :
    ScanInv m ep chain ctl0 info0 o1
      { st' with frameCount := st'.frameCount + st'.rowCount * st'.speed, rowCount := 0, rowCountTotal := 0 } := by
  obtain ⟨st3, hst3⟩ : ∃ st3, st3 = recordInfo ep o { st with osv := k, ctl := c'.set o chain } := ⟨_, rfl⟩
  rw [← hst3] at hd
  have h3cnt : st3.cnt = st.cnt := by rw [hst3, recordInfo_cnt]
  have h3ctl : st3.ctl = c'.set o chain := by rw [hst3, recordInfo_ctl]
  obtain ⟨f1, f2, f3, f4, f5, f6, f7⟩ := recordInfo_fields ep o { st with osv := k, ctl := c'.set o chain }
  rw [← hst3] at f1 f2 f3 f4 f5 f6 f7
  have ho1o : o1 ≤ o := claimed_ge m ep chain ctl0 info0 e o1 stF oF rF H st hinv o ho c' hk hchk
  have h3st : st3.startTime = 0 := by
    obtain ⟨r1, r2⟩ := recordInfo_startTime ep o { st with osv := k, ctl := c'.set o chain }
    rw [← hst3] at r1 r2
    rcases hst with h | h
    · rw [r1 h]; exact hinv.startTime
    · rcases r2 with r | r
      · rw [r]; exact hinv.startTime
      · rw [r]; exact h
  have hol : o < c'.length := by rw [hk.len]; have := hinv.ctlLen; have := ho.1; omega
  have hzero : (0 : Nat) < 0 + fxs.length := by
    have := List.length_pos_iff.mpr hfx; omega
  have htrace : st'.trace.map posOf = (rowSeq o 0 fxs.length).reverse ++ st.trace.map posOf := by
    rw [hd.trace, f6]
  have h3info : st3.info = st.info.set o
      (if (st.info.getD o {}).time < 0 then
        { (st.info.getD o {}) with time := (toMs st.now : Int), timeX := st.now, speed := st.speed, bpm := st.bpm }
       else st.info.getD o {}) := by
    rw [hst3, recordInfo_info]; rfl
  have h3rs : st3.rowStart = st.now := by
    rw [rowStart_of_rowCount0 st3 (by rw [f5]; exact hinv.rowCount)]
    unfold ScanSt.now; rw [f2, f3, f4]
  have hfreshAll : ∀ r, cntAt st.cnt o r = 0 := hinv.pre o hfresh0
  have hem' : st'.endMark = none := by
    rw [hd.endMark, hst3, recordInfo_endMark]; exact hinv.endMark
  refine ⟨⟨?_, ?_, ?_, ?_, ?_, ?_, ?_, ?_, ?_, ?_, ?_, ?_, ?_, ?_, ?_, ?_, ?_, ?_, ?_, ?_, rfl, hem'⟩, ?_, ?_, ?_, ?_⟩
  · show st'.cnt.length = m.len
    rw [hd.cntLen, h3cnt]; exact hinv.cntLen
  · intro o' ho'
    show (st'.cnt.getD o' []).length = _
    rw [hd.rowLen, h3cnt]; exact hinv.rowLen o' ho'
  · intro o' h0 r
    show cntAt st'.cnt o' r = 0
    have h0' : cntAt st'.cnt o' 0 = 0 := h0
    by_cases hoo : o' = o
    · subst hoo
      rw [hd.visited 0 (Nat.le_refl _) hzero] at h0'
      omega
    · rw [hd.other o' r (Or.inl hoo), h3cnt]
      rw [hd.other o' 0 (Or.inl hoo), h3cnt] at h0'
      exact hinv.pre o' h0' r
  · intro o' r hne
    have hne' : cntAt st'.cnt o' r ≠ 0 := hne
    by_cases hoo : o' = o
    · rw [hoo]; exact ho1o
    · rw [hd.other o' r (Or.inl hoo), h3cnt] at hne'
      exact hinv.vis o' r hne'
  · intro o' ho' hc
    show ctl0.getD o' 0xff = chain ∨ cntAt st'.cnt o' 0 ≠ 0
    have hc' : st'.ctl.getD o' 0xff = chain := hc
    by_cases hoo : o' = o
    · right; rw [hoo, hd.visited 0 (Nat.le_refl _) hzero]; omega
    · rw [hd.ctl, h3ctl, getD_set_ne _ _ _ _ _ (fun h => hoo h.symm), hk.play o' ho'] at hc'
      rw [hd.other o' 0 (Or.inl hoo), h3cnt]
      exact hinv.own o' ho' hc'
  · intro he o' hlt
    show st'.ctl.getD o' 0xff = _
    have hoo : o ≠ o' := by have := H.ep_le; omega
    rw [hd.ctl, h3ctl, getD_set_ne _ _ _ _ _ hoo]
    have h1 := hinv.low he o' hlt
    rw [hk.used he o' (by rw [h1]; exact H.low he o' hlt), h1]
  · show m.len ≤ st'.ctl.length
    rw [hd.ctl, h3ctl, List.length_set, hk.len]; exact hinv.ctlLen
  · show 20 ≤ st'.bpm
    rw [hd.bpm, f2]; exact rowsBpm_ge _ _ hinv.bpm
  · show 1 ≤ st'.speed
    rw [hd.speed, f1]; exact rowsSpeed_pos _ _ hwf hinv.speed
  · show st'.startTime = 0
    rw [hd.startTime]; exact h3st
  · rfl
  · show st'.osv = 0
    exact (hd.valid hfx).2
  · intro a b
    show (a, b) ∈ st'.trace.map posOf ↔ cntAt st'.cnt a b ≠ 0
    rw [htrace, List.mem_append, List.mem_reverse, mem_rowSeq]
    by_cases hin : a = o ∧ b < 0 + fxs.length
    · have : cntAt st'.cnt a b = 1 := by rw [hin.1]; exact hd.visited b (Nat.zero_le _) hin.2
      rw [this]
      constructor
      · intro _; omega
      · intro _; left; exact ⟨hin.1, Nat.zero_le _, hin.2⟩
    · have : cntAt st'.cnt a b = cntAt st.cnt a b := by
        rw [hd.other a b (by omega), h3cnt]
      rw [this, ← hinv.tr a b]
      constructor
      · intro h
        rcases h with h | h
        · exact absurd ⟨h.1, h.2.2⟩ hin
        · exact h
      · intro h; right; exact h
  · intro a b
    show cntAt st'.cnt a b ≤ 1
    by_cases hin : a = o ∧ b < 0 + fxs.length
    · rw [hin.1, hd.visited b (Nat.zero_le _) hin.2]; omega
    · rw [hd.other a b (by omega), h3cnt]; exact hinv.le1 a b
  · show ((st'.trace.map posOf).reverse).Nodup
    rw [htrace, List.reverse_append, List.reverse_reverse, List.nodup_append]
    refine ⟨hinv.nodup, rowSeq_nodup _ _ _, ?_⟩
    intro x hx y hy hxy
    subst hxy
    obtain ⟨a, b⟩ := x
    rw [List.mem_reverse] at hx
    rw [mem_rowSeq] at hy
    have h1 := (hinv.tr a b).mp hx
    rw [hy.1] at h1
    exact h1 (hinv.pre o hfresh0 b)
  · intro o'
    show st'.ctl.getD o' 0xff = ctl0.getD o' 0xff ∨ st'.ctl.getD o' 0xff = chain
    rw [hd.ctl, h3ctl]
    by_cases hoo : o = o'
    · right; rw [← hoo, getD_set_eq _ _ _ _ hol]
    · rw [getD_set_ne _ _ _ _ _ hoo]
      rcases hk.chg o' with h | h
      · rw [h]; exact hinv.ctlOr o'
      · exact Or.inr h
  · show st'.info.length = info0.length
    rw [hd.info, h3info, List.length_set]; exact hinv.infoLen
  · intro rec hrec hrow hneg hlt
    have hrec' : rec ∈ st'.trace := hrec
    show (st'.info.getD rec.ord {}).timeX = rec.t0 ∧ (st'.info.getD rec.ord {}).time = (toMs rec.t0 : Int)
    rw [hd.recs, f6, List.mem_append, List.mem_reverse] at hrec'
    rw [hd.info, h3info]
    rcases hrec' with hnew | hold
    · obtain ⟨i1, _, i3⟩ := mem_recSeq o fxs 0 _ _ _ rec hnew
      have ht0 : rec.t0 = st.now := by rw [i3 hrow, h3rs]
      rw [i1] at hneg hlt ⊢
      rw [getD_set_eq _ _ _ _ (by rw [hinv.infoLen]; exact hlt)]
      have hi : st.info.getD o {} = info0.getD o {} := hinv.infoU o hfresh0
      rw [hi, if_pos hneg, ht0]
      exact ⟨rfl, rfl⟩
    · have hne : o ≠ rec.ord := by
        intro h
        have hpos : (rec.ord, rec.row) ∈ st.trace.map posOf := List.mem_map.mpr ⟨rec, hold, rfl⟩
        have := (hinv.tr rec.ord rec.row).mp hpos
        rw [← h] at this
        exact this (hfreshAll rec.row)
      rw [getD_set_ne _ _ _ _ _ hne]
      exact hinv.infoT rec hold hrow hneg hlt
  · intro o' h0
    show st'.info.getD o' {} = info0.getD o' {}
    have h0' : cntAt st'.cnt o' 0 = 0 := h0
    have hoo : o ≠ o' := by
      intro h; rw [← h, hd.visited 0 (Nat.le_refl _) hzero] at h0'; omega
    rw [hd.info, h3info, getD_set_ne _ _ _ _ _ hoo]
    rw [hd.other o' 0 (Or.inl (fun h => hoo h.symm)), h3cnt] at h0'
    exact hinv.infoU o' h0'
  · intro rec hrec
    have hrec' : rec ∈ st'.trace := hrec
    rw [hd.recs, f6, List.mem_append, List.mem_reverse] at hrec'
    rcases hrec' with hnew | hold
    · obtain ⟨i1, _, _⟩ := mem_recSeq o fxs 0 _ _ _ rec hnew
      rw [i1]
      refine ⟨ho, fun he => ?_⟩
      have h1 : c'.getD o 0xff = 0xff := by
        by_cases h : c'.getD o 0xff = 0xff
        · exact h
        · exact absurd ⟨he, h⟩ hchk
      rw [hk.play o ho] at h1
      rcases hinv.ctlOr o with h2 | h2
      · rw [← h2]; exact h1
      · rw [h2] at h1; have := H.chainLt; omega
    · exact hinv.visOrd rec hold
  · show cntAt st'.cnt o1 0 ≠ 0
    by_cases hoo : o1 = o
    · rw [hoo, hd.visited 0 (Nat.le_refl _) hzero]; omega
    · rw [hd.other o1 0 (Or.inl hoo), h3cnt]
      rcases hfirst with h | h
      · exact absurd h.symm hoo
      · exact h
  · show st'.ctl.getD o1 0xff = chain
    rw [hd.ctl, h3ctl]
    by_cases hoo : o = o1
    · rw [hoo, getD_set_eq _ _ _ _ (by rw [← hoo]; exact hol)]
    · rw [getD_set_ne _ _ _ _ _ hoo, hk.play o1 H.o1play]
      rcases hctlo1 with h | h
      · exact absurd h hoo
      · exact h
  · show st'.anyValid = true
    exact (hd.valid hfx).1
  · intro hneg hlt
    show (st'.info.getD o1 {}).speed = m.spd ∧ (st'.info.getD o1 {}).bpm = m.bpm ∧ 0 ≤ (st'.info.getD o1 {}).time
    rw [hd.info, h3info]
    rcases hio1 with ⟨h1, h2, h3⟩ | ⟨h1, h2⟩
    · rw [← h1] at hneg hlt ⊢
      rw [getD_set_eq _ _ _ _ (by rw [hinv.infoLen]; exact hlt)]
      have hi : st.info.getD o {} = info0.getD o {} := hinv.infoU o hfresh0
      rw [hi, if_pos hneg]
      exact ⟨h2, h3, Int.natCast_nonneg _⟩
    · have hne : o ≠ o1 := by
        intro h; rw [h] at hfresh0; exact h1 hfresh0
      rw [getD_set_ne _ _ _ _ _ hne]
      exact h2 hneg hlt

theorem atRow0_of_pend (e : PlayEnv) (s0 : PlaySt) (st : ScanSt) (nord : Nat) (F : List PlaySt) (sP : PlaySt)
    (hp : Pend e s0 st nord F sP) (o : Nat) (hno : nextOrder e.m e.si e.ctl (orderFuel e.m) nord = some o) :
    ∃ p0, AtRow0 e s0 st o F p0 := by
  obtain ⟨p0, hent, q1, q2, q3, q4, q5, q6, q7, q8, q9, q10, q11, q12⟩ := enter_of_nextOrder e sP nord o hno
  exact ⟨p0, by rw [hp.run, hent]; rfl, hp.recs, hp.tk, q1, q2, q3, by rw [q6, hp.delay], by rw [q7, hp.pbreak],
    by rw [q8, hp.jump], by rw [q9, hp.loopCount], by rw [q4, hp.speed], by rw [q5, hp.bpm], by rw [q11, hp.time],
    by rw [q10, hp.endPoint], by rw [q12, hp.rowdelay]⟩

theorem pend_pattern (m : LinMod) (ep chain : Nat) (ctl0 : List Nat) (info0 : List OrdInfo) (e : PlayEnv) (o1 : Nat) (stF : ScanSt) (oF rF : Nat)
    (H : SimHyp m ep chain ctl0 e o1 stF oF rF) (s0 : PlaySt) (st : ScanSt) (hinv : ScanInvW m ep chain ctl0 info0 o1 st)
    (o : Nat) (F : List PlaySt) (p0 : PlaySt) (ha : AtRow0 e s0 st o F p0)
    (ho : isPlay m o) (c' : List Nat) (k : Nat) (hfresh0 : cntAt st.cnt o 0 = 0)
    (pre : List Fx) (last : Fx) (post : List Fx) (hrows : m.rowsOf (m.patOf o) = pre ++ last :: post)
    (hpre : ∀ fx ∈ pre, fx.isJump = false ∧ fx.WF) (hlw : last.WF) (hlast : last.isJump = true ∨ post = [])
    (hnum : o = e.si.endOrd → e.si.endRow < pre.length + 1 → e.startEndPoint ≠ 0)
    (st' : ScanSt)
    (hd : RowsDone o 0 (pre ++ [last]) (recordInfo ep o { st with osv := k, ctl := c'.set o chain }) st') :
    ∃ F' sP', Pend e s0 { st' with frameCount := st'.frameCount + st'.rowCount * st'.speed, rowCount := 0, rowCountTotal := 0 }
      (nordAfter o last) F' sP' := by
  obtain ⟨st3, hst3⟩ : ∃ st3, st3 = recordInfo ep o { st with osv := k, ctl := c'.set o chain } := ⟨_, rfl⟩
  rw [← hst3] at hd
  have h3cnt : st3.cnt = st.cnt := by rw [hst3, recordInfo_cnt]
  obtain ⟨f1, f2, f3, f4, f5, f6, f7⟩ := recordInfo_fields ep o { st with osv := k, ctl := c'.set o chain }
  rw [← hst3] at f1 f2 f3 f4 f5 f6 f7
  have h3rs : st3.rowStart = st.now := by
    rw [rowStart_of_rowCount0 st3 (by rw [f5]; exact hinv.rowCount)]
    unfold ScanSt.now; rw [f2, f3, f4]
  have hrun0 : e.runN F.length s0 = some (F, p0) := ha.run
  have hfreshAll : ∀ r, cntAt st.cnt o r = 0 := hinv.pre o hfresh0
  have hlenfx : (pre ++ [last]).length = pre.length + 1 := by simp
  obtain ⟨F2, sP2, hrun2, hrec2, htk2, b1, b2, b3, b4, b5, b6, b7, b8, b9⟩ :=
    play_pattern e o pre last post 0 p0 (by rw [H.em, hrows]; rfl) hpre hlw hlast
      (by
        intro h1 _ h3
        rw [ha.endPoint, ← h1, hfreshAll]
        have := hnum h1 (by omega)
        simpa using this)
      ha.ord ha.row ha.frame ha.delay ha.pbreak ha.jump ha.loopCount
      (by rw [ha.speed]; exact hinv.speed) ha.rowdelay
  have hrunAll := runN_add' e F.length s0 F p0 F2.length hrun0
  rw [hrun2, Option.map_map] at hrunAll
  have hsp0 : p0.speed = st3.speed := by rw [ha.speed, f1]
  have hbp0 : p0.bpm = st3.bpm := by rw [ha.bpm, f2]
  have htm0 : p0.time = st3.rowStart := by rw [ha.time, h3rs]
  refine ⟨F ++ F2, sP2, ?_⟩
  constructor
  · rw [List.length_append, hrunAll]; rfl
  · show rowRecs (F ++ F2) = st'.trace.reverse
    rw [rowRecs_append, ha.recs, hrec2, hd.recs, f6, hsp0, hbp0, htm0]; simp
  · show ticks (F ++ F2) = st'.time + (st'.frameCount + st'.rowCount * st'.speed) * tick st'.bpm
    rw [ticks_append, ha.tk, htk2, hsp0, hbp0]
    have := hd.rowStart
    unfold ScanSt.rowStart at this
    rw [this, ← h3rs]; rfl
  · exact b1
  · exact b2
  · exact b3
  · exact b4
  · show sP2.speed = st'.speed
    rw [b5, hd.speed, hsp0]
  · show sP2.bpm = st'.bpm
    rw [b6, hd.bpm, hbp0]
  · show sP2.time = st'.time + (st'.frameCount + st'.rowCount * st'.speed) * tick st'.bpm
    rw [b7, htm0, hsp0, hbp0]
    have := hd.rowStart
    unfold ScanSt.rowStart at this
    rw [this]; rfl
  · show sP2.endPoint = e.startEndPoint - (cntAt st'.cnt e.si.endOrd e.si.endRow : Nat)
    rw [b8, ha.endPoint]
    by_cases hc : o = e.si.endOrd ∧ e.si.endRow < pre.length + 1
    · have h1 : endHit e o 0 (pre.length + 1) = 1 := by
        simp only [endHit]; rw [if_pos ⟨hc.1, by omega, by omega⟩]
      have h2 : cntAt st'.cnt e.si.endOrd e.si.endRow = 1 := by
        rw [← hc.1]; exact hd.visited _ (by omega) (by rw [hlenfx]; omega)
      rw [h1, h2, ← hc.1, hfreshAll]; omega
    · have h1 : endHit e o 0 (pre.length + 1) = 0 := by
        simp only [endHit]; rw [if_neg (by intro h; exact hc ⟨h.1, by omega⟩)]
      have h2 : cntAt st'.cnt e.si.endOrd e.si.endRow = cntAt st.cnt e.si.endOrd e.si.endRow := by
        rw [hd.other _ _ (by rw [hlenfx]; omega), h3cnt]
      rw [h1, h2]; omega
  · exact b9

/-! ## the global induction -/

/-- what the simulation establishes about the player when the scan has ended in `stF` at `(oF, rF)` -/
def SimEnd (e : PlayEnv) (s0 : PlaySt) (stF : ScanSt) (oF rF : Nat) (foreign : Prop) (info0 : List OrdInfo)
    (o1 spd bpm : Nat) (visOK : RowRec → Prop) : Prop :=
  ∃ F pF, e.runN F.length s0 = some (F, pF) ∧ rowRecs F = stF.trace.reverse ∧
    ticks F = stF.time - stF.startTime + (stF.frameCount + stF.rowCount * stF.speed) * tick stF.bpm ∧
    pF.ord = oF ∧ pF.row = 0 ∧ pF.frame = 0 ∧ (e.render pF).loopCount = 1 ∧ rF = 0 ∧ stF.anyValid = true ∧
    ((stF.trace.map posOf).reverse).Nodup ∧
    (((oF, 0) ∈ stF.trace.map posOf ∧ cntAt stF.cnt oF 0 = 1) ∨
     ((oF, 0) ∉ stF.trace.map posOf ∧ cntAt stF.cnt oF 0 = 0 ∧ foreign)) ∧
    (∀ rec ∈ stF.trace, rec.row = 0 → (info0.getD rec.ord {}).time < 0 → rec.ord < info0.length →
      (stF.info.getD rec.ord {}).timeX = rec.t0 ∧ (stF.info.getD rec.ord {}).time = (toMs rec.t0 : Int)) ∧
    ((info0.getD o1 {}).time < 0 → o1 < info0.length →
      (stF.info.getD o1 {}).speed = spd ∧ (stF.info.getD o1 {}).bpm = bpm ∧ 0 ≤ (stF.info.getD o1 {}).time) ∧
    (∀ rec ∈ stF.trace, visOK rec) ∧
    stF.rowCountTotal = 0

theorem sim_finish (m : LinMod) (ep chain : Nat) (ctl0 : List Nat) (info0 : List OrdInfo) (e : PlayEnv) (o1 : Nat) (stF : ScanSt) (oF rF : Nat)
    (H : SimHyp m ep chain ctl0 e o1 stF oF rF) (s0 : PlaySt) (st : ScanSt) (hinv : ScanInv m ep chain ctl0 info0 o1 st)
    (nord : Nat) (F : List PlaySt) (sP : PlaySt) (hp : Pend e s0 st nord F sP) (o : Nat)
    (hno : nextOrder e.m e.si e.ctl (orderFuel e.m) nord = some o)
    (hoF : oF = o) (rS : Nat) (hrS : rS = 0) (hrE : rS = 0 → rF = 0)
    (k : Nat) (c : List Nat) (hstF : stF = { st with osv := k, ctl := c })
    (ho : isPlay m o) (hwhy : cntAt st.cnt o 0 ≠ 0 ∨ (ep ≠ 0 ∧ st.ctl.getD o 0xff ≠ 0xff)) :
    SimEnd e s0 stF oF rS (ep ≠ 0 ∧ ctl0.getD oF 0xff ≠ 0xff) info0 o1 m.spd m.bpm
      (fun rec => isPlay m rec.ord ∧ (ep ≠ 0 → ctl0.getD rec.ord 0xff = 0xff)) := by
  have hrF : rF = 0 := hrE hrS
  obtain ⟨p0, hent, q1, q2, q3, q4, q5, q6, q7, q8, q9, q10, q11⟩ := enter_of_nextOrder e sP nord o hno
  have hrun0 : e.runN F.length s0 = some (F, p0) := by rw [hp.run, hent]; rfl
  have hnum : e.si.num = cntAt st.cnt o 0 := by rw [H.enum, hstF, hoF, hrF]
  have hpos : skipMarkers e.m e.m.len e.si.ep ≤ o1 := by
    rw [H.em, H.eep]
    exact (skipMarkers_range m H.wf o1 H.o1play m.len ep H.ep_le H.start).2
  have hE : p0.endPoint = 0 := by
    rw [q10, hp.endPoint, H.eord, H.erow, hoF, hrF]
    obtain ⟨c1, c2⟩ := startEndPoint_cases e
    by_cases hv : cntAt st.cnt o 0 = 0
    · rw [hv] at hnum ⊢
      rcases c1 with h | h
      · rw [h]; rfl
      · rw [h, hnum]; rfl
    · have := hinv.vis o 0 hv
      rw [c2 (by rw [H.eord, hoF]; omega), hnum]; omega
  have hlc := render_end e p0 q3 (by rw [q1, H.eord, hoF]) (by rw [q2, H.erow, hrF]) hE
  refine ⟨F, p0, hrun0, ?_, ?_, by rw [q1, hoF], q2, q3, by rw [hlc, q9, hp.loopCount], hrS, ?_, ?_, ?_, ?_, ?_, ?_, ?_⟩
  · rw [hp.recs, hstF]
  · rw [hp.tk, hstF]
    show st.now = st.time - st.startTime + (st.frameCount + st.rowCount * st.speed) * tick st.bpm
    rw [hinv.startTime, hinv.rowCount]
    unfold ScanSt.now
    simp
  · rw [hstF]; exact hinv.anyValid
  · rw [hstF]; exact hinv.nodup
  · rw [hstF, hoF]
    show ((o, 0) ∈ st.trace.map posOf ∧ cntAt st.cnt o 0 = 1) ∨
      ((o, 0) ∉ st.trace.map posOf ∧ cntAt st.cnt o 0 = 0 ∧ (ep ≠ 0 ∧ ctl0.getD o 0xff ≠ 0xff))
    by_cases hv : cntAt st.cnt o 0 = 0
    · right
      refine ⟨fun h => (hinv.tr o 0).mp h hv, hv, ?_⟩
      rcases hwhy with h | h
      · exact absurd hv h
      · refine ⟨h.1, ?_⟩
        rcases hinv.ctlOr o with h2 | h2
        · rw [← h2]; exact h.2
        · rcases hinv.own o ho h2 with h3 | h3
          · rw [h3]; have := H.chainLt; omega
          · exact absurd hv h3
    · left
      have := hinv.le1 o 0
      exact ⟨(hinv.tr o 0).mpr hv, by omega⟩
  · rw [hstF]; exact hinv.infoT
  · rw [hstF]; exact hinv.infoO1
  · rw [hstF]; exact hinv.visOrd
  · rw [hstF]; exact hinv.rct

theorem procValid_done (m : LinMod) (ep chain fuel o : Nat) (st1 : ScanSt) (stF : ScanSt) (oF rF : Nat)
    (h : procValid m ep chain fuel o st1 = .finished stF oF rF)
    (hv : (ep ≠ 0 ∧ st1.ctl.getD o 0xff ≠ 0xff) ∨ cntAt st1.cnt o 0 ≠ 0) :
    oF = o ∧ rF = 0 ∧ (stF = st1 ∨ stF = { st1 with ctl := st1.ctl.set o chain }) := by
  unfold procValid at h
  by_cases h1 : ep ≠ 0 ∧ st1.ctl.getD o 0xff ≠ 0xff
  · rw [if_pos h1] at h
    simp only [Outcome.finished.injEq] at h
    exact ⟨h.2.1.symm, h.2.2.symm, Or.inl h.1.symm⟩
  · rw [if_neg h1] at h
    have h2 : cntAt st1.cnt o 0 ≠ 0 := by
      rcases hv with hv | hv
      · exact absurd hv h1
      · exact hv
    rw [if_pos h2] at h
    simp only [Outcome.finished.injEq] at h
    exact ⟨h.2.1.symm, h.2.2.symm, Or.inr h.1.symm⟩

/-- one pattern: the scan passes the tests at the head of the order loop for the playable order `o`
and scans its rows; the player, standing at row 0 of `o`, plays them -/
theorem sim_step_pattern (m : LinMod) (ep chain : Nat) (ctl0 : List Nat) (info0 : List OrdInfo) (e : PlayEnv) (o1 : Nat) (stF : ScanSt) (oF rF : Nat)
    (H : SimHyp m ep chain ctl0 e o1 stF oF rF) (s0 : PlaySt) (st : ScanSt) (hinv : ScanInvW m ep chain ctl0 info0 o1 st)
    (o : Nat) (ho : isPlay m o) (c' : List Nat) (hk : CtlKeep m ep chain st.ctl c') (k fuel' : Nat)
    (hfirst : o = o1 ∨ cntAt st.cnt o1 0 ≠ 0) (hctlo1 : o = o1 ∨ st.ctl.getD o1 0xff = chain)
    (hst : o ≠ ep ∨ st.now = 0)
    (hio1 : (o = o1 ∧ st.speed = m.spd ∧ st.bpm = m.bpm) ∨
      (cntAt st.cnt o1 0 ≠ 0 ∧ ((info0.getD o1 {}).time < 0 → o1 < info0.length →
        (st.info.getD o1 {}).speed = m.spd ∧ (st.info.getD o1 {}).bpm = m.bpm ∧ 0 ≤ (st.info.getD o1 {}).time)))
    (F : List PlaySt) (p0 : PlaySt) (ha : AtRow0 e s0 st o F p0)
    (hchk : ¬ (ep ≠ 0 ∧ c'.getD o 0xff ≠ 0xff)) (hfresh0 : cntAt st.cnt o 0 = 0)
    (rS : Nat)
    (hfin : procValid m ep chain fuel' o { st with osv := k, ctl := c' } = .finished stF oF rS) :
    ∃ nord' st'' F' sP', ScanInv m ep chain ctl0 info0 o1 st'' ∧ Pend e s0 st'' nord' F' sP' ∧
      scanOrders m ep chain fuel' nord' st'' = .finished stF oF rS := by
  have hmem := rowsOf_mem m o ho
  obtain ⟨pre, last, post, hrows, hpre, hlw, hlast⟩ :=
    split_pattern (m.rowsOf (m.patOf o)) (H.wf.rows _ hmem) (H.wf.fx _ hmem)
  obtain ⟨st3, hst3⟩ : ∃ st3, st3 = recordInfo ep o { st with osv := k, ctl := c'.set o chain } := ⟨_, rfl⟩
  have h3cnt : st3.cnt = st.cnt := by rw [hst3, recordInfo_cnt]
  obtain ⟨f1, f2, _⟩ := recordInfo_fields ep o { st with osv := k, ctl := c'.set o chain }
  rw [← hst3] at f1 f2
  have hlenrows : (m.rowsOf (m.patOf o)).length = pre.length + 1 + post.length := by
    rw [hrows]; simp; omega
  obtain ⟨st', hscan, hd⟩ := scan_pattern o pre last post 0 st3 hpre hlw hlast
    (fun r _ => by rw [h3cnt]; exact hinv.pre o hfresh0 r)
    (by rw [f2]; exact hinv.bpm)
    (by rw [h3cnt, hinv.cntLen]; exact ho.1)
    (by rw [h3cnt, hinv.rowLen o ho, hlenrows]; omega)
    (by
      have h1 : st3.rowCountTotal = 0 := by rw [hst3, recordInfo_rct]; exact hinv.rct
      have h2 := H.wf.rowsLe _ hmem
      rw [h1, hlenrows] at *
      unfold rowLimit; omega)
  rw [← hrows] at hscan
  unfold procValid at hfin
  rw [if_neg hchk, if_neg (by show ¬ cntAt st.cnt o 0 ≠ 0; rw [hfresh0]; simp)] at hfin
  rw [← hst3, hscan] at hfin
  simp only at hfin
  rw [← nordAfter_eq] at hfin
  obtain ⟨mono1', _, _⟩ := scanOrders_mono m ep chain fuel' _ _ stF oF rS hfin
  have ho1o : o1 ≤ o := claimed_ge m ep chain ctl0 info0 e o1 stF oF rF H st hinv o ho c' hk hchk
  have hlenfx : (pre ++ [last]).length = pre.length + 1 := by simp
  have hnum : o = e.si.endOrd → e.si.endRow < pre.length + 1 → e.startEndPoint ≠ 0 := by
    intro h1 h2
    have hv : cntAt st'.cnt o e.si.endRow = 1 := hd.visited _ (by omega) (by rw [hlenfx]; omega)
    have hF : cntAt stF.cnt oF rF ≠ 0 := by
      rw [← H.eord, ← H.erow, ← h1]
      exact mono1' _ _ (by show cntAt st'.cnt o e.si.endRow ≠ 0; rw [hv]; omega)
    have hpos : skipMarkers e.m e.m.len e.si.ep ≤ o1 := by
      rw [H.em, H.eep]
      exact (skipMarkers_range m H.wf o1 H.o1play m.len ep H.ep_le H.start).2
    rw [(startEndPoint_cases e).2 (by rw [← h1]; omega), H.enum]
    intro h; exact hF (by exact_mod_cast h)
  rw [hst3] at hd
  have hinv' := inv_pattern m ep chain ctl0 info0 e o1 stF oF rF H st hinv o ho c' hk k hchk hfresh0
    hfirst hctlo1 hst hio1
    (pre ++ [last]) (by simp) (by
      intro fx hfx
      rcases List.mem_append.mp hfx with h | h
      · exact (hpre fx h).2
      · simp at h; rw [h]; exact hlw) st' hd
  obtain ⟨F', sP', hp'⟩ := pend_pattern m ep chain ctl0 info0 e o1 stF oF rF H s0 st hinv o F p0 ha ho c' k hfresh0
    pre last post hrows hpre hlw hlast hnum st' hd
  exact ⟨_, _, F', sP', hinv', hp', hfin⟩

theorem sim_main (m : LinMod) (ep chain : Nat) (ctl0 : List Nat) (info0 : List OrdInfo) (e : PlayEnv) (o1 : Nat) (stF : ScanSt) (oF rF : Nat)
    (H : SimHyp m ep chain ctl0 e o1 stF oF rF) (s0 : PlaySt) (rS : Nat) (hrE : rS = 0 → rF = 0) :
    ∀ (n fuel : Nat), fuel ≤ n → ∀ (nord : Nat) (st : ScanSt) (F : List PlaySt) (sP : PlaySt),
      ScanInv m ep chain ctl0 info0 o1 st → Pend e s0 st nord F sP →
      scanOrders m ep chain fuel nord st = .finished stF oF rS →
      SimEnd e s0 stF oF rS (ep ≠ 0 ∧ ctl0.getD oF 0xff ≠ 0xff) info0 o1 m.spd m.bpm
      (fun rec => isPlay m rec.ord ∧ (ep ≠ 0 → ctl0.getD rec.ord 0xff = 0xff)) := by
  intro n
  induction n with
  | zero =>
    intro fuel hf nord st F sP _ _ h
    have : fuel = 0 := by omega
    subst this
    simp [scanOrders] at h
  | succ n ih =>
    intro fuel hf nord st F sP hinv hp hfin
    have hne : scanOrders m ep chain fuel nord st ≠ .noFuel := by rw [hfin]; intro h; cases h
    obtain ⟨o, fuel', k, c', ho, hlt, hk, heq, htarget⟩ :=
      scan_head m ep chain o1 H.wf H.ep_lt H.start H.o1play H.ep_le fuel nord st hinv.osv hinv.endMark hne
    rw [heq] at hfin
    obtain ⟨mono1, mono2, mono3⟩ := scanOrders_mono m ep chain fuel nord st stF oF rS (by rw [heq]; exact hfin)
    -- the player's restart decision
    have hUU : (isPlay m m.rst ∧ st.ctl.getD m.rst 0xff = chain) → (isPlay m m.rst ∧ e.ctl.getD m.rst 0xff = e.si.seq) := by
      intro h
      exact ⟨h.1, by rw [H.eseq]; exact (H.ectl h.1).mpr (mono2 _ h.2)⟩
    have htarget' : Target m e.si.ep o1 (isPlay m m.rst ∧ e.ctl.getD m.rst 0xff = e.si.seq) nord o := by
      rw [H.eep]
      obtain ⟨x, h1, h2, hc⟩ := htarget
      rcases hc with ⟨h3, h4⟩ | ⟨h3, ⟨h4, hnl, h5⟩ | ⟨h4, h5⟩⟩
      · exact ⟨x, h1, h2, Or.inl ⟨h3, h4⟩⟩
      · exact ⟨x, h1, h2, Or.inr ⟨h3, Or.inl ⟨hUU h4, hnl, h5⟩⟩⟩
      · refine ⟨x, h1, h2, Or.inr ⟨h3, Or.inr ⟨?_, h5⟩⟩⟩
        rcases h4 with h4 | h4
        · left
          intro hU'
          rw [H.eseq] at hU'
          have hsF : stF.ctl.getD m.rst 0xff = chain := (H.ectl hU'.1).mp hU'.2
          subst h5
          obtain ⟨_, _, hst⟩ := procValid_done m ep chain fuel' o _ stF oF rS hfin (Or.inr hinv.first)
          have hc'rst : c'.getD m.rst 0xff = st.ctl.getD m.rst 0xff := hk.play _ hU'.1
          rcases hst with hst | hst
          · rw [hst] at hsF
            exact h4 ⟨hU'.1, by rw [← hc'rst]; exact hsF⟩
          · rw [hst] at hsF
            by_cases hro : o = m.rst
            · exact h4 ⟨hU'.1, by rw [← hro]; exact hinv.ctlO1⟩
            · have : (c'.set o chain).getD m.rst 0xff = chain := hsF
              rw [getD_set_ne _ _ _ _ _ hro] at this
              exact h4 ⟨hU'.1, by rw [← hc'rst]; exact this⟩
        · exact Or.inr h4
    have hno : nextOrder e.m e.si e.ctl (orderFuel e.m) nord = some o := by
      rw [H.em]
      exact play_target m e.si e.ctl o1 _ H.wf (by rw [H.eep]; exact H.ep_lt) (by rw [H.eep]; exact H.start)
        H.o1play (by rw [H.eep]; exact H.ep_le) Iff.rfl nord o htarget'
    -- the scan at order `o`
    by_cases hdone : (ep ≠ 0 ∧ c'.getD o 0xff ≠ 0xff) ∨ cntAt st.cnt o 0 ≠ 0
    · obtain ⟨hoF, hrF, hst⟩ := procValid_done m ep chain fuel' o _ stF oF rS hfin hdone
      have hwhy : cntAt st.cnt o 0 ≠ 0 ∨ (ep ≠ 0 ∧ st.ctl.getD o 0xff ≠ 0xff) := by
        rcases hdone with h | h
        · right; rw [← hk.play o ho]; exact h
        · left; exact h
      rcases hst with hst | hst
      · exact sim_finish m ep chain ctl0 info0 e o1 stF oF rF H s0 st hinv nord F sP hp o hno hoF rS hrF hrE k c' hst ho hwhy
      · exact sim_finish m ep chain ctl0 info0 e o1 stF oF rF H s0 st hinv nord F sP hp o hno hoF rS hrF hrE k (c'.set o chain) hst ho hwhy
    · have hchk : ¬ (ep ≠ 0 ∧ c'.getD o 0xff ≠ 0xff) := fun h => hdone (Or.inl h)
      have hfresh0 : cntAt st.cnt o 0 = 0 := by
        by_cases h : cntAt st.cnt o 0 = 0
        · exact h
        · exact absurd (Or.inr h) hdone
      have hone : o ≠ ep := by
        intro h
        have : ep = o1 := by
          by_cases hlt : ep < o1
          · exact absurd (h ▸ ho) (skip_not_play m ep (H.start ep (Nat.le_refl _) hlt))
          · have := H.ep_le; omega
        rw [h, this] at hfresh0
        exact hinv.first hfresh0
      obtain ⟨p0, ha⟩ := atRow0_of_pend e s0 st nord F sP hp o hno
      obtain ⟨nord', st'', F', sP', hinv', hp', hfin'⟩ := sim_step_pattern m ep chain ctl0 info0 e o1 stF oF rF H s0 st
        hinv.toScanInvW o ho c' hk k fuel' (Or.inr hinv.first) (Or.inr hinv.ctlO1) (Or.inl hone) (Or.inr ⟨hinv.first, hinv.infoO1⟩) F p0 ha hchk hfresh0 rS hfin
      exact ih fuel' (by omega) nord' st'' F' sP' hinv' hp' hfin'

/-! ## the start, and `scan_module` as a whole -/

theorem play_direct (m : LinMod) (si : SeqInfo) (ctl : List Nat) (hw : ModWF m) (nord x : Nat) (h1 : nord ≤ x)
    (h2 : SkipRange m nord x) (h3 : isPlay m x) : nextOrder m si ctl (orderFuel m) nord = some x := by
  have hx : x < m.len := h3.1
  obtain ⟨g, hg⟩ : ∃ g, orderFuel m = (g + 1) + (x - nord) := ⟨orderFuel m - 1 - (x - nord), by unfold orderFuel; omega⟩
  have hxe : nord + (x - nord) = x := by omega
  rw [hg, nextOrder_walk m si ctl (x - nord) (g + 1) nord (by rw [hxe]; exact h2), hxe]
  exact nextOrder_play m si ctl g x h3 hw.mkNpat

/-- the initial state of `scan_module` -/
def scanInit (m : LinMod) (ctl0 : List Nat) (info0 : List OrdInfo) : ScanSt :=
  { speed := m.spd, bpm := m.bpm, cnt := initCnt m, ctl := ctl0, info := info0 }

theorem sim_scanOrders (m : LinMod) (ep chain : Nat) (ctl0 : List Nat) (info0 : List OrdInfo) (e : PlayEnv) (o1 : Nat)
    (stF : ScanSt) (oF rF : Nat) (H : SimHyp m ep chain ctl0 e o1 stF oF rF)
    (hctlLen : m.len ≤ ctl0.length)
    (hinfo : (e.info.getD o1 {}).speed = m.spd ∧ (e.info.getD o1 {}).bpm = m.bpm)
    (hacc : stF.anyValid = true) (rS : Nat) (hrE : rS = 0 → rF = 0)
    (hscan : scanOrders m ep chain (scanFuel m) ep (scanInit m ctl0 info0) = .finished stF oF rS) :
    (ep ≠ 0 → ctl0.getD o1 0xff = 0xff) ∧
    ∃ s0, e.start = some s0 ∧ SimEnd e s0 stF oF rS (ep ≠ 0 ∧ ctl0.getD oF 0xff ≠ 0xff) info0 o1 m.spd m.bpm
      (fun rec => isPlay m rec.ord ∧ (ep ≠ 0 → ctl0.getD rec.ord 0xff = 0xff)) := by
  obtain ⟨st0, hst0⟩ : ∃ st0, st0 = scanInit m ctl0 info0 := ⟨_, rfl⟩
  rw [← hst0] at hscan
  have h0cnt : st0.cnt = initCnt m := by rw [hst0]; rfl
  have h0ctl : st0.ctl = ctl0 := by rw [hst0]; rfl
  have h0now : st0.now = 0 := by rw [hst0]; simp [scanInit, ScanSt.now]
  have hinv0 : ScanInvW m ep chain ctl0 info0 o1 st0 := by
    refine ⟨?_, ?_, ?_, ?_, ?_, ?_, ?_, ?_, ?_, ?_, ?_, ?_, ?_, ?_, ?_, ?_, ?_, ?_, ?_, ?_, by rw [hst0]; rfl, by rw [hst0]; rfl⟩
    · rw [h0cnt]; exact (initCnt_inv m).1
    · intro o ho; rw [h0cnt]; exact initCnt_rowLen m o ho (H.wf.rows _ (rowsOf_mem m o ho))
    · intro o _ r; rw [h0cnt]; exact cntAt_initCnt m o r
    · intro o r h; rw [h0cnt, cntAt_initCnt] at h; exact absurd rfl h
    · intro o ho hc; rw [h0ctl] at hc; exact Or.inl hc
    · intro _ o _; rw [h0ctl]
    · rw [h0ctl]; exact hctlLen
    · rw [hst0]; exact H.wf.bpm
    · rw [hst0]; exact H.wf.spd
    · rw [hst0]; rfl
    · rw [hst0]; rfl
    · rw [hst0]; rfl
    · intro a b
      rw [h0cnt, cntAt_initCnt, hst0]
      simp [scanInit]
    · intro a b; rw [h0cnt, cntAt_initCnt]; omega
    · rw [hst0]; simp [scanInit]
    · intro o; left; rw [h0ctl]
    · rw [hst0]; rfl
    · intro rec hrec; rw [hst0] at hrec; simp [scanInit] at hrec
    · intro o _; rw [hst0]; rfl
    · intro rec hrec; rw [hst0] at hrec; simp [scanInit] at hrec
  have hne : scanOrders m ep chain (scanFuel m) ep st0 ≠ .noFuel := by rw [hscan]; intro h; cases h
  have hlen := H.wf.len
  have ho1l : o1 < m.len := H.o1play.1
  have hle := H.ep_le
  have hxe : ep + (o1 - ep) = o1 := by omega
  obtain ⟨f1, c1, hf1, hk1, he1⟩ := scan_walk m ep chain (o1 - ep) (scanFuel m) ep st0 (by rw [hxe]; exact H.start)
    (by rw [hinv0.osv]; omega) hne
  rw [hxe] at he1
  rw [he1] at hne hscan
  obtain ⟨f2, hf2⟩ := scanOrders_fuel_pos _ _ _ _ _ _ hne
  subst hf2
  rw [scanOrders_play m ep chain f2 o1 _ H.o1play (by show st0.osv + (o1 - ep) ≤ 512; rw [hinv0.osv]; omega)] at hscan
  have hscan' : procValid m ep chain f2 o1 { st0 with osv := st0.osv + (o1 - ep) + 1, ctl := c1 } = .finished stF oF rS := hscan
  have hfresh0 : cntAt st0.cnt o1 0 = 0 := by rw [h0cnt]; exact cntAt_initCnt m o1 0
  have hchk : ¬ (ep ≠ 0 ∧ c1.getD o1 0xff ≠ 0xff) := by
    intro hc
    obtain ⟨_, _, hst⟩ := procValid_done m ep chain f2 o1 _ stF oF rS hscan' (Or.inl hc)
    rcases hst with hst | hst <;> (rw [hst] at hacc; rw [hst0] at hacc; cases hacc)
  -- the player's start
  have hrange := skipMarkers_range m H.wf o1 H.o1play m.len ep H.ep_le H.start
  have hno : nextOrder e.m e.si e.ctl (orderFuel e.m) (skipMarkers e.m e.m.len e.si.ep) = some o1 := by
    rw [H.em, H.eep]
    exact play_direct m e.si e.ctl H.wf _ o1 hrange.2 (fun o h1 h2 => H.start o (by omega) h2) H.o1play
  obtain ⟨s0, hs0⟩ : ∃ s0 : PlaySt, s0 = { ord := o1, row := 0, frame := 0, speed := (e.info.getD o1 {}).speed, bpm := (e.info.getD o1 {}).bpm, endPoint := e.startEndPoint, ctime := (e.info.getD o1 {}).time.toNat * L } := ⟨_, rfl⟩
  have hstart : e.start = some s0 := by
    simp only [PlayEnv.start, hno, hs0]
  have ha : AtRow0 e s0 st0 o1 [] s0 := by
    refine ⟨rfl, ?_, ?_, ?_, ?_, ?_, ?_, ?_, ?_, ?_, ?_, ?_, ?_, ?_, by rw [hs0]⟩
    · rw [hst0]; rfl
    · rw [h0now]; rfl
    · rw [hs0]
    · rw [hs0]
    · rw [hs0]
    · rw [hs0]
    · rw [hs0]
    · rw [hs0]
    · rw [hs0]
    · rw [hs0, hst0]; exact hinfo.1
    · rw [hs0, hst0]; exact hinfo.2
    · rw [h0now, hs0]
    · rw [h0cnt, cntAt_initCnt, hs0]; simp
  obtain ⟨nord', st'', F', sP', hinv', hp', hfin'⟩ := sim_step_pattern m ep chain ctl0 info0 e o1 stF oF rF H s0 st0
    hinv0 o1 H.o1play c1 hk1 (st0.osv + (o1 - ep) + 1) f2 (Or.inl rfl) (Or.inl rfl) (Or.inr h0now)
    (Or.inl ⟨rfl, by rw [hst0]; rfl, by rw [hst0]; rfl⟩)
    [] s0 ha hchk hfresh0 rS hscan'
  refine ⟨?_, s0, hstart, sim_main m ep chain ctl0 info0 e o1 stF oF rF H s0 rS hrE f2 f2 (Nat.le_refl _) nord' st'' F' sP' hinv' hp' hfin'⟩
  intro he
  have h1 : c1.getD o1 0xff = ctl0.getD o1 0xff := by rw [← h0ctl]; exact hk1.play o1 H.o1play
  by_cases h2 : ctl0.getD o1 0xff = 0xff
  · exact h2
  · exact absurd ⟨he, by rw [h1]; exact h2⟩ hchk

theorem runN_loop0 (e : PlayEnv) : ∀ (n : Nat) (s : PlaySt) (F : List PlaySt) (s' : PlaySt),
    e.runN n s = some (F, s') → ∀ f ∈ F, f.loopCount = 0 := by
  intro n
  induction n with
  | zero => intro s F s' h; simp [PlayEnv.runN] at h; rw [h.1]; simp
  | succ n ih =>
    intro s F s' h
    simp only [PlayEnv.runN] at h
    cases hs : e.stepF s with
    | none => simp [hs] at h
    | some pr =>
      obtain ⟨s1, s2⟩ := pr
      simp only [hs] at h
      cases hr : e.runN n s2 with
      | none => simp [hr] at h
      | some r =>
        simp [hr] at h
        have hstep := hs
        simp only [PlayEnv.stepF] at hstep
        split at hstep
        · simp at hstep
        · rename_i hlc
          cases ha : e.advance (e.render s) with
          | none => simp [ha] at hstep
          | some a =>
            simp [ha] at hstep
            intro f hf
            rw [← h.1] at hf
            rcases List.mem_cons.mp hf with h1 | h1
            · rw [h1, ← hstep.1]; omega
            · exact ih s2 r.1 r.2 (by rw [hr]) f h1

theorem frames_stop (e : PlayEnv) (fuel : Nat) (p : PlaySt) (h : (e.render p).loopCount > 0) :
    e.frames fuel p = [] := by
  cases fuel with
  | zero => rfl
  | succ f => simp only [PlayEnv.frames, h, if_true]

/-- what an accepted `scan_module` returns, in terms of the final state of its order loop -/
theorem scanModule_accepted (m : LinMod) (ep chain : Nat) (ctl0 : List Nat) (info0 : List OrdInfo)
    (hacc : 0 ≤ (scanModule m ep chain ctl0 info0).ret) :
    ∃ stF oF rS, scanOrders m ep chain (scanFuel m) ep (scanInit m ctl0 info0) = .finished stF oF rS ∧
      stF.anyValid = true ∧
      (scanModule m ep chain ctl0 info0).endOrd = oF ∧
      (scanModule m ep chain ctl0 info0).endRow =
        (if m.patOf oF ≥ m.npat ∨ rS ≥ (m.rowsOf (m.patOf oF)).length then 0 else rS) ∧
      (scanModule m ep chain ctl0 info0).num = cntAt stF.cnt oF (scanModule m ep chain ctl0 info0).endRow ∧
      (scanModule m ep chain ctl0 info0).ctl = stF.ctl ∧
      (scanModule m ep chain ctl0 info0).info = stF.info ∧
      (scanModule m ep chain ctl0 info0).trace = stF.trace.reverse ∧
      (scanModule m ep chain ctl0 info0).durX =
        stF.time - stF.startTime + (stF.frameCount + stF.rowCount * stF.speed) * tick stF.bpm ∧
      (scanModule m ep chain ctl0 info0).rowTotal = stF.rowCountTotal := by
  unfold scanModule at hacc ⊢
  simp only [] at hacc ⊢
  show ∃ stF oF rS, scanOrders m ep chain (scanFuel m) ep (scanInit m ctl0 info0) = .finished stF oF rS ∧ _
  have hinit : ({ speed := m.spd, bpm := m.bpm, cnt := initCnt m, ctl := ctl0, info := info0 } : ScanSt) =
      scanInit m ctl0 info0 := rfl
  rw [hinit] at hacc ⊢
  cases hso : scanOrders m ep chain (scanFuel m) ep (scanInit m ctl0 info0) with
  | noFuel => rw [hso] at hacc; simp at hacc
  | finished st ord row0 =>
    rw [hso] at hacc
    simp only at hacc ⊢
    cases hav : st.anyValid with
    | false => rw [hav] at hacc; simp at hacc
    | true =>
      refine ⟨st, ord, row0, rfl, hav, ?_⟩
      simp only [Bool.not_true, Bool.false_eq_true, if_false]
      exact ⟨trivial, trivial, trivial, trivial, trivial, trivial, trivial, trivial⟩

/-! ## `PlaySt.time` is the running Σ frame_time -/

/-- every frame's `time` is the previous one's plus its own `frame_time` -/
def timesOK : Nat → List PlaySt → Prop
  | _, [] => True
  | t, f :: F => f.time = t + tick f.bpm ∧ timesOK f.time F

theorem readFx_time (fx : Fx) (s : PlaySt) : (readFx fx s).time = s.time := by
  cases fx <;> simp [readFx]
  all_goals (split <;> rfl)

theorem checkEnd_time (e : PlayEnv) (s : PlaySt) : (e.checkEnd s).time = s.time := by
  unfold PlayEnv.checkEnd
  split
  · split <;> rfl
  · rfl

theorem render_time (e : PlayEnv) (s : PlaySt) : (e.render s).time = s.time + tick (e.render s).bpm := by
  unfold PlayEnv.render
  by_cases h : s.frame = 0
  · simp only [h, if_true, PlayEnv.newRow, readFx_time, checkEnd_time]
  · simp only [h, if_false]

theorem enter_time (e : PlayEnv) (s s2 : PlaySt) (nord : Nat) (h : e.enter s nord = some s2) : s2.time = s.time := by
  unfold PlayEnv.enter at h
  split at h
  · cases h
  · simp only [Option.some.injEq] at h; rw [← h]

theorem nextRow_time (e : PlayEnv) (s s2 : PlaySt) (h : e.nextRow s = some s2) : s2.time = s.time := by
  unfold PlayEnv.nextRow at h
  simp only [] at h
  split at h
  · have := enter_time e _ _ _ h; exact this
  · by_cases hrd : s.rowdelay = 0
    · simp only [hrd, if_true] at h
      split at h
      · have := enter_time e _ _ _ h; exact this
      · simp only [Option.some.injEq] at h; rw [← h]
    · simp only [hrd, if_false] at h
      split at h
      · have := enter_time e _ _ _ h; exact this
      · simp only [Option.some.injEq] at h; rw [← h]

theorem advance_time (e : PlayEnv) (s s2 : PlaySt) (h : e.advance s = some s2) : s2.time = s.time := by
  unfold PlayEnv.advance at h
  simp only [] at h
  split at h
  · have := nextRow_time e _ _ h; exact this
  · simp only [Option.some.injEq] at h; rw [← h]

theorem runN_times (e : PlayEnv) : ∀ (n : Nat) (s : PlaySt) (F : List PlaySt) (s' : PlaySt),
    e.runN n s = some (F, s') → timesOK s.time F ∧ s'.time = s.time + ticks F := by
  intro n
  induction n with
  | zero => intro s F s' h; simp [PlayEnv.runN] at h; rw [h.1, ← h.2]; simp [timesOK, ticks]
  | succ n ih =>
    intro s F s' h
    simp only [PlayEnv.runN] at h
    cases hs : e.stepF s with
    | none => simp [hs] at h
    | some pr =>
      obtain ⟨s1, s2⟩ := pr
      simp only [hs] at h
      cases hr : e.runN n s2 with
      | none => simp [hr] at h
      | some r =>
        simp [hr] at h
        have hstep := hs
        simp only [PlayEnv.stepF] at hstep
        split at hstep
        · simp at hstep
        · cases ha : e.advance (e.render s) with
          | none => simp [ha] at hstep
          | some a =>
            simp [ha] at hstep
            obtain ⟨i1, i2⟩ := ih s2 r.1 r.2 (by rw [hr])
            have h1 : s1.time = s.time + tick s1.bpm := by rw [← hstep.1]; exact render_time e s
            have h2 : s2.time = s1.time := by rw [← hstep.2, ← hstep.1]; exact advance_time e _ _ ha
            rw [← h.1, ← h.2]
            refine ⟨⟨h1, by rw [← h2]; exact i1⟩, ?_⟩
            rw [i2, h2, h1, ticks_cons]; omega

theorem start_time (e : PlayEnv) (s0 : PlaySt) (h : e.start = some s0) : s0.time = 0 := by
  unfold PlayEnv.start at h
  split at h
  · cases h
  · simp only [Option.some.injEq] at h; rw [← h]

/-! ## one sequence: `scan_module` against `Play.run` -/

/-- Hypotheses of the simulation theorem for one sequence: a module of the class, an entry point that
leads through skipped orders to a playable order `o1`, a `sequence_control` in which the orders below a
secondary entry point are taken and the chain number is not in use for playable orders, an accepted
scan, and a player environment `e` that reads this scan's results. -/
structure SeqHyp (m : LinMod) (ep chain : Nat) (ctl0 : List Nat) (info0 : List OrdInfo) (e : PlayEnv)
    (o1 : Nat) : Prop where
  wf : ModWF m
  ep_lt : ep < m.len
  start : SkipRange m ep o1
  o1play : isPlay m o1
  ep_le : ep ≤ o1
  low : ep ≠ 0 → ∀ o, o < ep → ctl0.getD o 0xff ≠ 0xff
  chainLt : chain < 255
  ctlLen : m.len ≤ ctl0.length
  acc : 0 ≤ (scanModule m ep chain ctl0 info0).ret
  em : e.m = m
  esi : e.si = { seq := chain, ep := ep, endOrd := (scanModule m ep chain ctl0 info0).endOrd,
                 endRow := (scanModule m ep chain ctl0 info0).endRow,
                 num := (scanModule m ep chain ctl0 info0).num }
  ectl : isPlay m m.rst →
    (e.ctl.getD m.rst 0xff = chain ↔ (scanModule m ep chain ctl0 info0).ctl.getD m.rst 0xff = chain)
  einfo : (e.info.getD o1 {}).speed = m.spd ∧ (e.info.getD o1 {}).bpm = m.bpm

/-- **Cross-order simulation of one sequence.**  `Play.run` from the entry point renders exactly the
rows the scan recorded (same positions, speeds, tempos, pattern delays and exact start times), its
Σ frame_time is the scan's exact duration, no rendered frame has a non-zero loop counter, and the
next frame is the first tick of row 0 of the scan's end order and increments the loop counter; that
row was played before (exactly once), or — for a secondary sequence only — the order belongs to
another sequence. -/
theorem sim_sequence (m : LinMod) (ep chain : Nat) (ctl0 : List Nat) (info0 : List OrdInfo) (e : PlayEnv) (o1 : Nat)
    (H : SeqHyp m ep chain ctl0 info0 e o1) :
    ∃ F s0 pF, e.start = some s0 ∧ e.runN F.length s0 = some (F, pF) ∧
      (∀ fuel, F.length + 1 ≤ fuel → e.run fuel = F) ∧ timesOK 0 F ∧
      rowRecs F = (scanModule m ep chain ctl0 info0).trace ∧
      ticks F = (scanModule m ep chain ctl0 info0).durX ∧
      (∀ f ∈ F, f.loopCount = 0) ∧
      pF.ord = (scanModule m ep chain ctl0 info0).endOrd ∧ pF.row = (scanModule m ep chain ctl0 info0).endRow ∧
      (scanModule m ep chain ctl0 info0).endRow = 0 ∧ pF.frame = 0 ∧ (e.render pF).loopCount = 1 ∧
      (rowTrace F).Nodup ∧
      ((((scanModule m ep chain ctl0 info0).endOrd, 0) ∈ rowTrace F ∧ (scanModule m ep chain ctl0 info0).num = 1) ∨
       (((scanModule m ep chain ctl0 info0).endOrd, 0) ∉ rowTrace F ∧ (scanModule m ep chain ctl0 info0).num = 0 ∧
         ep ≠ 0 ∧ ctl0.getD (scanModule m ep chain ctl0 info0).endOrd 0xff ≠ 0xff)) ∧
      (∀ rec ∈ (scanModule m ep chain ctl0 info0).trace, rec.row = 0 → (info0.getD rec.ord {}).time < 0 →
        rec.ord < info0.length →
        ((scanModule m ep chain ctl0 info0).info.getD rec.ord {}).timeX = rec.t0 ∧
        ((scanModule m ep chain ctl0 info0).info.getD rec.ord {}).time = (toMs rec.t0 : Int)) ∧
      -- the scan did not leave through the runaway guard (`row_count_total > row_limit`)
      (scanModule m ep chain ctl0 info0).rowTotal = 0 := by
  obtain ⟨stF, oF, rS, hscan, hav, r1, r2, r3, r4, r5, r6, r7, r8⟩ := scanModule_accepted m ep chain ctl0 info0 H.acc
  have hrE : rS = 0 → (scanModule m ep chain ctl0 info0).endRow = 0 := by
    intro h; rw [r2, h]; split <;> rfl
  have HS : SimHyp m ep chain ctl0 e o1 stF oF (scanModule m ep chain ctl0 info0).endRow := by
    refine ⟨H.wf, H.ep_lt, H.start, H.o1play, H.ep_le, H.low, H.chainLt, H.em, ?_, ?_, ?_, ?_, ?_, ?_⟩
    · rw [H.esi]
    · rw [H.esi]
    · rw [H.esi]; exact r1
    · rw [H.esi]
    · rw [H.esi]; exact r3
    · intro h; rw [← r4]; exact H.ectl h
  obtain ⟨_, s0, hstart, F, pF, hrun, hrec, htk, e1, e2, e3, e4, e5, e6, e7, e8, e9, _, _, e12⟩ :=
    sim_scanOrders m ep chain ctl0 info0 e o1 stF oF _ HS H.ctlLen H.einfo hav rS hrE hscan
  have hE0 := hrE e5
  have htrace : rowTrace F = (stF.trace.map posOf).reverse := by
    rw [rowTrace_eq_rowRecs, hrec, List.map_reverse]
  have htimes : timesOK 0 F := by
    have := (runN_times e F.length s0 F pF hrun).1
    rw [start_time e s0 hstart] at this
    exact this
  refine ⟨F, s0, pF, hstart, hrun, ?_, htimes, by rw [hrec, r6], by rw [htk, r7], runN_loop0 e _ _ _ _ hrun,
    by rw [e1, r1], by rw [e2, hE0], hE0, e3, e4, by rw [htrace]; exact e7, ?_, ?_, by rw [r8]; exact e12⟩
  · intro fuel hf
    obtain ⟨k, hk⟩ : ∃ k, fuel = F.length + (k + 1) := ⟨fuel - F.length - 1, by omega⟩
    unfold PlayEnv.run
    rw [hstart]
    show e.frames fuel s0 = F
    rw [hk, frames_runN e F.length s0 F pF hrun (k + 1), frames_stop e (k + 1) pF (by rw [e4]; omega)]
    simp
  · rw [htrace, r1, r3, hE0]
    rcases e8 with h | h
    · left; exact ⟨by rw [List.mem_reverse]; exact h.1, h.2⟩
    · right; exact ⟨by rw [List.mem_reverse]; exact h.1, h.2.1, h.2.2.1, h.2.2.2⟩
  · intro rec hrec
    rw [r6, List.mem_reverse] at hrec
    rw [r5]
    exact e9 rec hrec

end Xmp.LinFlow
