import XmpProofs.Api
/-! Read-back over call histories (helper lemmas for C05_readback_*). -/
namespace Xmp.Api
open Xmp.Api.Gen

/-! ## read-back over call histories -/

@[simp] theorem endPlayer_flags (s : State) : (endPlayer s).flags = s.flags := by unfold endPlayer; split <;> rfl
@[simp] theorem release_flags (s : State) : (release s).flags = s.flags := by unfold release; split <;> simp
@[simp] theorem endPlayer_smpctl (s : State) : (endPlayer s).smpctl = s.smpctl := by unfold endPlayer; split <;> rfl
@[simp] theorem release_smpctl (s : State) : (release s).smpctl = s.smpctl := by unfold release; split <;> simp
@[simp] theorem endPlayer_defpan (s : State) : (endPlayer s).defpan = s.defpan := by unfold endPlayer; split <;> rfl
@[simp] theorem release_defpan (s : State) : (release s).defpan = s.defpan := by unfold release; split <;> simp
@[simp] theorem endPlayer_voices (s : State) : (endPlayer s).voices = s.voices := by unfold endPlayer; split <;> rfl
@[simp] theorem release_voices (s : State) : (release s).voices = s.voices := by unfold release; split <;> simp
@[simp] theorem endPlayer_cflags (s : State) : (endPlayer s).cflags = s.cflags := by unfold endPlayer; split <;> rfl
@[simp] theorem release_cflags (s : State) : (release s).cflags = s.cflags := by unfold release; split <;> simp
@[simp] theorem endPlayer_mode (s : State) : (endPlayer s).mode = s.mode := by unfold endPlayer; split <;> rfl
@[simp] theorem release_mode (s : State) : (release s).mode = s.mode := by unfold release; split <;> simp
@[simp] theorem endPlayer_amp (s : State) : (endPlayer s).amp = s.amp := by unfold endPlayer; split <;> rfl
@[simp] theorem release_amp (s : State) : (release s).amp = s.amp := by unfold release; split <;> simp
@[simp] theorem endPlayer_mix (s : State) : (endPlayer s).mix = s.mix := by unfold endPlayer; split <;> rfl
@[simp] theorem release_mix (s : State) : (release s).mix = s.mix := by unfold release; split <;> simp
@[simp] theorem endPlayer_interp (s : State) : (endPlayer s).interp = s.interp := by unfold endPlayer; split <;> rfl
@[simp] theorem release_interp (s : State) : (release s).interp = s.interp := by unfold release; split <;> simp
@[simp] theorem endPlayer_dsp (s : State) : (endPlayer s).dsp = s.dsp := by unfold endPlayer; split <;> rfl
@[simp] theorem release_dsp (s : State) : (release s).dsp = s.dsp := by unfold release; split <;> simp
@[simp] theorem endPlayer_volume (s : State) : (endPlayer s).volume = s.volume := by unfold endPlayer; split <;> rfl
@[simp] theorem release_volume (s : State) : (release s).volume = s.volume := by unfold release; split <;> simp
@[simp] theorem endPlayer_smixVol (s : State) : (endPlayer s).smixVol = s.smixVol := by unfold endPlayer; split <;> rfl
@[simp] theorem release_smixVol (s : State) : (release s).smixVol = s.smixVol := by unfold release; split <;> simp
@[simp] theorem endPlayer_mute (s : State) : (endPlayer s).mute = s.mute := by unfold endPlayer; split <;> rfl
@[simp] theorem release_mute (s : State) : (release s).mute = s.mute := by unfold release; split <;> simp
@[simp] theorem endPlayer_vol (s : State) : (endPlayer s).vol = s.vol := by unfold endPlayer; split <;> rfl
@[simp] theorem release_vol (s : State) : (release s).vol = s.vol := by unfold release; split <;> simp
@[simp] theorem endPlayer_chn (s : State) : (endPlayer s).chn = s.chn := by unfold endPlayer; split <;> rfl
@[simp] theorem release_chn (s : State) : (release s).chn = s.chn := by unfold release; split <;> simp
@[simp] theorem endPlayer_len (s : State) : (endPlayer s).len = s.len := by unfold endPlayer; split <;> rfl
@[simp] theorem release_len (s : State) : (release s).len = s.len := by unfold release; split <;> simp
@[simp] theorem endPlayer_ins (s : State) : (endPlayer s).ins = s.ins := by unfold endPlayer; split <;> rfl
@[simp] theorem release_ins (s : State) : (release s).ins = s.ins := by unfold release; split <;> simp
@[simp] theorem endPlayer_sxChn (s : State) : (endPlayer s).sxChn = s.sxChn := by unfold endPlayer; split <;> rfl
@[simp] theorem release_sxChn (s : State) : (release s).sxChn = s.sxChn := by unfold release; split <;> simp
@[simp] theorem endPlayer_sxIns (s : State) : (endPlayer s).sxIns = s.sxIns := by unfold endPlayer; split <;> rfl
@[simp] theorem release_sxIns (s : State) : (release s).sxIns = s.sxIns := by unfold release; split <;> simp
@[simp] theorem endPlayer_st (s : State) : (endPlayer s).st = if s.st < 2 then s.st else 1 := by unfold endPlayer; split <;> simp
@[simp] theorem release_st (s : State) : (release s).st = 0 := by unfold release; split <;> simp


/-- one executed call: the context before it, the call, its external inputs and what it returned -/
structure Event where
  pre : State
  c : Call
  e : Env
  ret : Int

/-- run a history from `s`, recording the executed calls (most recent first) -/
def exec : State → List Event → List (Call × Env) → State × List Event
  | s, evs, [] => (s, evs)
  | s, evs, (c, e) :: rest => exec (step s c e).state (⟨s, c, e, (step s c e).ret⟩ :: evs) rest

def creationDefault (p : Int) : Option Int :=
  if p = XMP_PLAYER_DEFPAN then some 100 else if p = XMP_PLAYER_VOICES then some SMIX_NUMVOC
  else if p = XMP_PLAYER_FLAGS then some 0 else if p = XMP_PLAYER_SMPCTL then some 0 else none

def startDefault (p : Int) : Option Int :=
  if p = XMP_PLAYER_AMP then some DEFAULT_AMPLIFY else if p = XMP_PLAYER_MIX then some DEFAULT_MIX
  else if p = XMP_PLAYER_INTERP then some XMP_INTERP_LINEAR else if p = XMP_PLAYER_DSP then some XMP_DSP_LOWPASS
  else if p = XMP_PLAYER_VOLUME then some 100 else if p = XMP_PLAYER_SMIX_VOLUME then some 100 else none

/-- the value event `ev` establishes for parameter `p`: context creation, a successful `xmp_start_player`
    (per-run defaults), a successful load (module flags and personality) or a successful `xmp_set_player` -/
def establishes (p : Int) (ev : Event) : Option Int :=
  match ev.c with
  | .recreate => creationDefault p
  | .setPlayer q v => if q = p ∧ ev.ret = 0 then some v else none
  | .start _ _ => if ev.ret = 0 then startDefault p else none
  | .load _ _ =>
    if ev.ret = 0 then
      (if p = XMP_PLAYER_CFLAGS then some ev.e.mcflags else if p = XMP_PLAYER_MODE then some ev.e.mmode else none)
    else none
  | _ => none

/-- default established by creation/start/load, or the last value successfully set since -/
def expected (p : Int) : List Event → Option Int
  | [] => creationDefault p
  | ev :: rest => match establishes p ev with
    | some v => some v
    | none => expected p rest

def Rel (s : State) (evs : List Event) : Prop :=
  expected XMP_PLAYER_FLAGS evs = some s.flags ∧ expected XMP_PLAYER_SMPCTL evs = some s.smpctl ∧
  expected XMP_PLAYER_DEFPAN evs = some s.defpan ∧ expected XMP_PLAYER_VOICES evs = some s.voices ∧
  (1 ≤ s.st → expected XMP_PLAYER_CFLAGS evs = some s.cflags ∧ expected XMP_PLAYER_MODE evs = some s.mode) ∧
  (s.st = 2 → expected XMP_PLAYER_AMP evs = some s.amp ∧ expected XMP_PLAYER_MIX evs = some s.mix ∧
              expected XMP_PLAYER_INTERP evs = some s.interp ∧ expected XMP_PLAYER_DSP evs = some s.dsp ∧
              expected XMP_PLAYER_VOLUME evs = some s.volume ∧ expected XMP_PLAYER_SMIX_VOLUME evs = some s.smixVol)

macro "rel_auto" : tactic => `(tactic| (
  unfold Rel ApiInv at *
  simp [expected, establishes, creationDefault, startDefault, step, startPlayer, smixPlay, setPlayer,
        EnvOk, State.init, isOneOf, inRange, loadErrors, ERR_STATE, ERR_INVALID, ERR_INTERNAL, ERR_SYSTEM, ERR_FORMAT] at *
  repeat' split
  all_goals (simp_all <;> try omega)))

theorem rel_load (s : State) (evs : List Event) (e : Env) (k : LoadKind) (size : Int) (hi : ApiInv s) (hr : Rel s evs)
    (he : EnvOk s (.load k size) e = true) :
    Rel (step s (.load k size) e).state (⟨s, .load k size, e, (step s (.load k size) e).ret⟩ :: evs) := by
  unfold Rel ApiInv at *
  simp only [step, loadModule]
  repeat' split
  all_goals (simp_all [expected, establishes, EnvOk, isOneOf, inRange, loadErrors, ERR_INVALID] <;> try omega)
  all_goals (try have h0 : ¬ e.res = 0 := by omega)
  all_goals (simp_all <;> try omega)

theorem rel_recreate (s : State) (evs : List Event) (e : Env)  (hi : ApiInv s) (hr : Rel s evs)
    (he : EnvOk s .recreate e = true) :
    Rel (step s .recreate e).state (⟨s, .recreate, e, (step s .recreate e).ret⟩ :: evs) := by
  rel_auto

theorem rel_version (s : State) (evs : List Event) (e : Env)  (hi : ApiInv s) (hr : Rel s evs)
    (he : EnvOk s .version e = true) :
    Rel (step s .version e).state (⟨s, .version, e, (step s .version e).ret⟩ :: evs) := by
  rel_auto

theorem rel_getFormatList (s : State) (evs : List Event) (e : Env)  (hi : ApiInv s) (hr : Rel s evs)
    (he : EnvOk s .getFormatList e = true) :
    Rel (step s .getFormatList e).state (⟨s, .getFormatList, e, (step s .getFormatList e).ret⟩ :: evs) := by
  rel_auto

theorem rel_syserrno (s : State) (evs : List Event) (e : Env)  (hi : ApiInv s) (hr : Rel s evs)
    (he : EnvOk s .syserrno e = true) :
    Rel (step s .syserrno e).state (⟨s, .syserrno, e, (step s .syserrno e).ret⟩ :: evs) := by
  rel_auto

theorem rel_testModule (s : State) (evs : List Event) (e : Env) (k : LoadKind) (hi : ApiInv s) (hr : Rel s evs)
    (he : EnvOk s (.testModule k) e = true) :
    Rel (step s (.testModule k) e).state (⟨s, (.testModule k), e, (step s (.testModule k) e).ret⟩ :: evs) := by
  rel_auto

theorem rel_release (s : State) (evs : List Event) (e : Env)  (hi : ApiInv s) (hr : Rel s evs)
    (he : EnvOk s .release e = true) :
    Rel (step s .release e).state (⟨s, .release, e, (step s .release e).ret⟩ :: evs) := by
  rel_auto

theorem rel_scan (s : State) (evs : List Event) (e : Env)  (hi : ApiInv s) (hr : Rel s evs)
    (he : EnvOk s .scan e = true) :
    Rel (step s .scan e).state (⟨s, .scan, e, (step s .scan e).ret⟩ :: evs) := by
  rel_auto

theorem rel_getModuleInfo (s : State) (evs : List Event) (e : Env)  (hi : ApiInv s) (hr : Rel s evs)
    (he : EnvOk s .getModuleInfo e = true) :
    Rel (step s .getModuleInfo e).state (⟨s, .getModuleInfo, e, (step s .getModuleInfo e).ret⟩ :: evs) := by
  rel_auto

theorem rel_getFrameInfo (s : State) (evs : List Event) (e : Env)  (hi : ApiInv s) (hr : Rel s evs)
    (he : EnvOk s .getFrameInfo e = true) :
    Rel (step s .getFrameInfo e).state (⟨s, .getFrameInfo, e, (step s .getFrameInfo e).ret⟩ :: evs) := by
  rel_auto

theorem rel_start (s : State) (evs : List Event) (e : Env) (rate : Int) (format : Int) (hi : ApiInv s) (hr : Rel s evs)
    (he : EnvOk s (.start rate format) e = true) :
    Rel (step s (.start rate format) e).state (⟨s, (.start rate format), e, (step s (.start rate format) e).ret⟩ :: evs) := by
  rel_auto

theorem rel_playFrame (s : State) (evs : List Event) (e : Env)  (hi : ApiInv s) (hr : Rel s evs)
    (he : EnvOk s .playFrame e = true) :
    Rel (step s .playFrame e).state (⟨s, .playFrame, e, (step s .playFrame e).ret⟩ :: evs) := by
  rel_auto

theorem rel_playBuffer (s : State) (evs : List Event) (e : Env) (null : Bool) (size : Int) (loop : Int) (hi : ApiInv s) (hr : Rel s evs)
    (he : EnvOk s (.playBuffer null size loop) e = true) :
    Rel (step s (.playBuffer null size loop) e).state (⟨s, (.playBuffer null size loop), e, (step s (.playBuffer null size loop) e).ret⟩ :: evs) := by
  rel_auto

theorem rel_endPlayer (s : State) (evs : List Event) (e : Env)  (hi : ApiInv s) (hr : Rel s evs)
    (he : EnvOk s .endPlayer e = true) :
    Rel (step s .endPlayer e).state (⟨s, .endPlayer, e, (step s .endPlayer e).ret⟩ :: evs) := by
  unfold Rel at *
  obtain ⟨h1, h2, h3, h4, h5, h6⟩ := hr
  simp only [expected, establishes, step, endPlayer_flags, endPlayer_smpctl, endPlayer_defpan, endPlayer_voices,
    endPlayer_cflags, endPlayer_mode, endPlayer_amp, endPlayer_mix, endPlayer_interp, endPlayer_dsp, endPlayer_volume,
    endPlayer_smixVol, endPlayer_st]
  refine ⟨h1, h2, h3, h4, ?_, ?_⟩
  · intro h; apply h5; split at h <;> omega
  · intro h; split at h <;> omega

theorem rel_nextPos (s : State) (evs : List Event) (e : Env)  (hi : ApiInv s) (hr : Rel s evs)
    (he : EnvOk s .nextPos e = true) :
    Rel (step s .nextPos e).state (⟨s, .nextPos, e, (step s .nextPos e).ret⟩ :: evs) := by
  rel_auto

theorem rel_prevPos (s : State) (evs : List Event) (e : Env)  (hi : ApiInv s) (hr : Rel s evs)
    (he : EnvOk s .prevPos e = true) :
    Rel (step s .prevPos e).state (⟨s, .prevPos, e, (step s .prevPos e).ret⟩ :: evs) := by
  rel_auto

theorem rel_setPos (s : State) (evs : List Event) (e : Env) (pos : Int) (hi : ApiInv s) (hr : Rel s evs)
    (he : EnvOk s (.setPos pos) e = true) :
    Rel (step s (.setPos pos) e).state (⟨s, (.setPos pos), e, (step s (.setPos pos) e).ret⟩ :: evs) := by
  rel_auto

theorem rel_setRow (s : State) (evs : List Event) (e : Env) (row : Int) (hi : ApiInv s) (hr : Rel s evs)
    (he : EnvOk s (.setRow row) e = true) :
    Rel (step s (.setRow row) e).state (⟨s, (.setRow row), e, (step s (.setRow row) e).ret⟩ :: evs) := by
  rel_auto

theorem rel_setTempo (s : State) (evs : List Event) (e : Env) (positive : Bool) (hi : ApiInv s) (hr : Rel s evs)
    (he : EnvOk s (.setTempo positive) e = true) :
    Rel (step s (.setTempo positive) e).state (⟨s, (.setTempo positive), e, (step s (.setTempo positive) e).ret⟩ :: evs) := by
  rel_auto

theorem rel_stop (s : State) (evs : List Event) (e : Env)  (hi : ApiInv s) (hr : Rel s evs)
    (he : EnvOk s .stop e = true) :
    Rel (step s .stop e).state (⟨s, .stop, e, (step s .stop e).ret⟩ :: evs) := by
  rel_auto

theorem rel_restart (s : State) (evs : List Event) (e : Env)  (hi : ApiInv s) (hr : Rel s evs)
    (he : EnvOk s .restart e = true) :
    Rel (step s .restart e).state (⟨s, .restart, e, (step s .restart e).ret⟩ :: evs) := by
  rel_auto

theorem rel_seekTime (s : State) (evs : List Event) (e : Env) (t : Int) (hi : ApiInv s) (hr : Rel s evs)
    (he : EnvOk s (.seekTime t) e = true) :
    Rel (step s (.seekTime t) e).state (⟨s, (.seekTime t), e, (step s (.seekTime t) e).ret⟩ :: evs) := by
  rel_auto

theorem rel_chanMute (s : State) (evs : List Event) (e : Env) (chn : Int) (status : Int) (hi : ApiInv s) (hr : Rel s evs)
    (he : EnvOk s (.chanMute chn status) e = true) :
    Rel (step s (.chanMute chn status) e).state (⟨s, (.chanMute chn status), e, (step s (.chanMute chn status) e).ret⟩ :: evs) := by
  rel_auto

theorem rel_chanVol (s : State) (evs : List Event) (e : Env) (chn : Int) (vol : Int) (hi : ApiInv s) (hr : Rel s evs)
    (he : EnvOk s (.chanVol chn vol) e = true) :
    Rel (step s (.chanVol chn vol) e).state (⟨s, (.chanVol chn vol), e, (step s (.chanVol chn vol) e).ret⟩ :: evs) := by
  rel_auto

theorem rel_inject (s : State) (evs : List Event) (e : Env) (chn : Int) (hi : ApiInv s) (hr : Rel s evs)
    (he : EnvOk s (.inject chn) e = true) :
    Rel (step s (.inject chn) e).state (⟨s, (.inject chn), e, (step s (.inject chn) e).ret⟩ :: evs) := by
  rel_auto

theorem rel_getPlayer (s : State) (evs : List Event) (e : Env) (parm : Int) (hi : ApiInv s) (hr : Rel s evs)
    (he : EnvOk s (.getPlayer parm) e = true) :
    Rel (step s (.getPlayer parm) e).state (⟨s, (.getPlayer parm), e, (step s (.getPlayer parm) e).ret⟩ :: evs) := by
  rel_auto

theorem rel_setInsPath (s : State) (evs : List Event) (e : Env) (null : Bool) (hi : ApiInv s) (hr : Rel s evs)
    (he : EnvOk s (.setInsPath null) e = true) :
    Rel (step s (.setInsPath null) e).state (⟨s, (.setInsPath null), e, (step s (.setInsPath null) e).ret⟩ :: evs) := by
  rel_auto

theorem rel_startSmix (s : State) (evs : List Event) (e : Env) (chn : Int) (smp : Int) (hi : ApiInv s) (hr : Rel s evs)
    (he : EnvOk s (.startSmix chn smp) e = true) :
    Rel (step s (.startSmix chn smp) e).state (⟨s, (.startSmix chn smp), e, (step s (.startSmix chn smp) e).ret⟩ :: evs) := by
  rel_auto

theorem rel_smixPlayIns (s : State) (evs : List Event) (e : Env) (ins : Int) (note : Int) (vol : Int) (chn : Int) (hi : ApiInv s) (hr : Rel s evs)
    (he : EnvOk s (.smixPlayIns ins note vol chn) e = true) :
    Rel (step s (.smixPlayIns ins note vol chn) e).state (⟨s, (.smixPlayIns ins note vol chn), e, (step s (.smixPlayIns ins note vol chn) e).ret⟩ :: evs) := by
  rel_auto

theorem rel_smixPlaySmp (s : State) (evs : List Event) (e : Env) (ins : Int) (note : Int) (vol : Int) (chn : Int) (hi : ApiInv s) (hr : Rel s evs)
    (he : EnvOk s (.smixPlaySmp ins note vol chn) e = true) :
    Rel (step s (.smixPlaySmp ins note vol chn) e).state (⟨s, (.smixPlaySmp ins note vol chn), e, (step s (.smixPlaySmp ins note vol chn) e).ret⟩ :: evs) := by
  rel_auto

theorem rel_smixPan (s : State) (evs : List Event) (e : Env) (chn : Int) (pan : Int) (hi : ApiInv s) (hr : Rel s evs)
    (he : EnvOk s (.smixPan chn pan) e = true) :
    Rel (step s (.smixPan chn pan) e).state (⟨s, (.smixPan chn pan), e, (step s (.smixPan chn pan) e).ret⟩ :: evs) := by
  rel_auto

theorem rel_smixLoad (s : State) (evs : List Event) (e : Env) (num : Int) (file : Int) (hi : ApiInv s) (hr : Rel s evs)
    (he : EnvOk s (.smixLoad num file) e = true) :
    Rel (step s (.smixLoad num file) e).state (⟨s, (.smixLoad num file), e, (step s (.smixLoad num file) e).ret⟩ :: evs) := by
  rel_auto

theorem rel_smixRelease (s : State) (evs : List Event) (e : Env) (num : Int) (hi : ApiInv s) (hr : Rel s evs)
    (he : EnvOk s (.smixRelease num) e = true) :
    Rel (step s (.smixRelease num) e).state (⟨s, (.smixRelease num), e, (step s (.smixRelease num) e).ret⟩ :: evs) := by
  rel_auto

theorem rel_endSmix (s : State) (evs : List Event) (e : Env)  (hi : ApiInv s) (hr : Rel s evs)
    (he : EnvOk s .endSmix e = true) :
    Rel (step s .endSmix e).state (⟨s, .endSmix, e, (step s .endSmix e).ret⟩ :: evs) := by
  rel_auto

theorem rel_setPlayer_0 (s : State) (evs : List Event) (e : Env) (val : Int) (hi : ApiInv s) (hr : Rel s evs) :
    Rel (step s (.setPlayer 0 val) e).state (⟨s, .setPlayer 0 val, e, (step s (.setPlayer 0 val) e).ret⟩ :: evs) := by
  rel_auto

theorem rel_setPlayer_1 (s : State) (evs : List Event) (e : Env) (val : Int) (hi : ApiInv s) (hr : Rel s evs) :
    Rel (step s (.setPlayer 1 val) e).state (⟨s, .setPlayer 1 val, e, (step s (.setPlayer 1 val) e).ret⟩ :: evs) := by
  rel_auto

theorem rel_setPlayer_2 (s : State) (evs : List Event) (e : Env) (val : Int) (hi : ApiInv s) (hr : Rel s evs) :
    Rel (step s (.setPlayer 2 val) e).state (⟨s, .setPlayer 2 val, e, (step s (.setPlayer 2 val) e).ret⟩ :: evs) := by
  rel_auto

theorem rel_setPlayer_3 (s : State) (evs : List Event) (e : Env) (val : Int) (hi : ApiInv s) (hr : Rel s evs) :
    Rel (step s (.setPlayer 3 val) e).state (⟨s, .setPlayer 3 val, e, (step s (.setPlayer 3 val) e).ret⟩ :: evs) := by
  rel_auto

theorem rel_setPlayer_4 (s : State) (evs : List Event) (e : Env) (val : Int) (hi : ApiInv s) (hr : Rel s evs) :
    Rel (step s (.setPlayer 4 val) e).state (⟨s, .setPlayer 4 val, e, (step s (.setPlayer 4 val) e).ret⟩ :: evs) := by
  rel_auto

theorem rel_setPlayer_5 (s : State) (evs : List Event) (e : Env) (val : Int) (hi : ApiInv s) (hr : Rel s evs) :
    Rel (step s (.setPlayer 5 val) e).state (⟨s, .setPlayer 5 val, e, (step s (.setPlayer 5 val) e).ret⟩ :: evs) := by
  rel_auto

theorem rel_setPlayer_6 (s : State) (evs : List Event) (e : Env) (val : Int) (hi : ApiInv s) (hr : Rel s evs) :
    Rel (step s (.setPlayer 6 val) e).state (⟨s, .setPlayer 6 val, e, (step s (.setPlayer 6 val) e).ret⟩ :: evs) := by
  rel_auto

theorem rel_setPlayer_7 (s : State) (evs : List Event) (e : Env) (val : Int) (hi : ApiInv s) (hr : Rel s evs) :
    Rel (step s (.setPlayer 7 val) e).state (⟨s, .setPlayer 7 val, e, (step s (.setPlayer 7 val) e).ret⟩ :: evs) := by
  rel_auto

theorem rel_setPlayer_8 (s : State) (evs : List Event) (e : Env) (val : Int) (hi : ApiInv s) (hr : Rel s evs) :
    Rel (step s (.setPlayer 8 val) e).state (⟨s, .setPlayer 8 val, e, (step s (.setPlayer 8 val) e).ret⟩ :: evs) := by
  rel_auto

theorem rel_setPlayer_9 (s : State) (evs : List Event) (e : Env) (val : Int) (hi : ApiInv s) (hr : Rel s evs) :
    Rel (step s (.setPlayer 9 val) e).state (⟨s, .setPlayer 9 val, e, (step s (.setPlayer 9 val) e).ret⟩ :: evs) := by
  rel_auto

theorem rel_setPlayer_10 (s : State) (evs : List Event) (e : Env) (val : Int) (hi : ApiInv s) (hr : Rel s evs) :
    Rel (step s (.setPlayer 10 val) e).state (⟨s, .setPlayer 10 val, e, (step s (.setPlayer 10 val) e).ret⟩ :: evs) := by
  rel_auto

theorem rel_setPlayer_11 (s : State) (evs : List Event) (e : Env) (val : Int) (hi : ApiInv s) (hr : Rel s evs) :
    Rel (step s (.setPlayer 11 val) e).state (⟨s, .setPlayer 11 val, e, (step s (.setPlayer 11 val) e).ret⟩ :: evs) := by
  rel_auto

theorem rel_setPlayer_12 (s : State) (evs : List Event) (e : Env) (val : Int) (hi : ApiInv s) (hr : Rel s evs) :
    Rel (step s (.setPlayer 12 val) e).state (⟨s, .setPlayer 12 val, e, (step s (.setPlayer 12 val) e).ret⟩ :: evs) := by
  rel_auto

theorem rel_setPlayer_13 (s : State) (evs : List Event) (e : Env) (val : Int) (hi : ApiInv s) (hr : Rel s evs) :
    Rel (step s (.setPlayer 13 val) e).state (⟨s, .setPlayer 13 val, e, (step s (.setPlayer 13 val) e).ret⟩ :: evs) := by
  rel_auto

theorem setPlayer_other (s : State) (parm val : Int) (e : Env) (h0 : parm ≠ 0) (h1 : parm ≠ 1) (h2 : parm ≠ 2) (h3 : parm ≠ 3) (h4 : parm ≠ 4) (h5 : parm ≠ 5) (h6 : parm ≠ 6) (h7 : parm ≠ 7) (h8 : parm ≠ 8) (h9 : parm ≠ 9) (h10 : parm ≠ 10) (h11 : parm ≠ 11) (h12 : parm ≠ 12) (h13 : parm ≠ 13) :
    (setPlayer s parm val e).state = s ∧ (setPlayer s parm val e).ret ≠ 0 := by
  simp [setPlayer, *, ERR_STATE, ERR_INVALID]
  split <;> simp

theorem rel_setPlayer_other (s : State) (evs : List Event) (e : Env) (parm val : Int) (hi : ApiInv s) (hr : Rel s evs)
    (h0 : parm ≠ 0) (h1 : parm ≠ 1) (h2 : parm ≠ 2) (h3 : parm ≠ 3) (h4 : parm ≠ 4) (h5 : parm ≠ 5) (h6 : parm ≠ 6) (h7 : parm ≠ 7) (h8 : parm ≠ 8) (h9 : parm ≠ 9) (h10 : parm ≠ 10) (h11 : parm ≠ 11) (h12 : parm ≠ 12) (h13 : parm ≠ 13) :
    Rel (step s (.setPlayer parm val) e).state (⟨s, .setPlayer parm val, e, (step s (.setPlayer parm val) e).ret⟩ :: evs) := by
  have h := setPlayer_other s parm val e h0 h1 h2 h3 h4 h5 h6 h7 h8 h9 h10 h11 h12 h13
  unfold Rel at *
  simp only [step, expected, establishes, h.1, h.2, and_false, if_false]
  exact hr

theorem rel_setPlayer (s : State) (evs : List Event) (e : Env) (parm val : Int) (hi : ApiInv s) (hr : Rel s evs) :
    Rel (step s (.setPlayer parm val) e).state (⟨s, .setPlayer parm val, e, (step s (.setPlayer parm val) e).ret⟩ :: evs) := by
  by_cases h0 : parm = 0
  · subst h0; exact rel_setPlayer_0 s evs e val hi hr
  by_cases h1 : parm = 1
  · subst h1; exact rel_setPlayer_1 s evs e val hi hr
  by_cases h2 : parm = 2
  · subst h2; exact rel_setPlayer_2 s evs e val hi hr
  by_cases h3 : parm = 3
  · subst h3; exact rel_setPlayer_3 s evs e val hi hr
  by_cases h4 : parm = 4
  · subst h4; exact rel_setPlayer_4 s evs e val hi hr
  by_cases h5 : parm = 5
  · subst h5; exact rel_setPlayer_5 s evs e val hi hr
  by_cases h6 : parm = 6
  · subst h6; exact rel_setPlayer_6 s evs e val hi hr
  by_cases h7 : parm = 7
  · subst h7; exact rel_setPlayer_7 s evs e val hi hr
  by_cases h8 : parm = 8
  · subst h8; exact rel_setPlayer_8 s evs e val hi hr
  by_cases h9 : parm = 9
  · subst h9; exact rel_setPlayer_9 s evs e val hi hr
  by_cases h10 : parm = 10
  · subst h10; exact rel_setPlayer_10 s evs e val hi hr
  by_cases h11 : parm = 11
  · subst h11; exact rel_setPlayer_11 s evs e val hi hr
  by_cases h12 : parm = 12
  · subst h12; exact rel_setPlayer_12 s evs e val hi hr
  by_cases h13 : parm = 13
  · subst h13; exact rel_setPlayer_13 s evs e val hi hr
  exact rel_setPlayer_other s evs e parm val hi hr h0 h1 h2 h3 h4 h5 h6 h7 h8 h9 h10 h11 h12 h13

theorem rel_step (s : State) (evs : List Event) (c : Call) (e : Env) (hi : ApiInv s) (hr : Rel s evs)
    (he : EnvOk s c e = true) :
    Rel (step s c e).state (⟨s, c, e, (step s c e).ret⟩ :: evs) := by
  cases c with
  | setPlayer p v => exact rel_setPlayer s evs e p v hi hr
  | load k size => exact rel_load s evs e k size hi hr he
  | recreate  => exact rel_recreate s evs e  hi hr he
  | version  => exact rel_version s evs e  hi hr he
  | getFormatList  => exact rel_getFormatList s evs e  hi hr he
  | syserrno  => exact rel_syserrno s evs e  hi hr he
  | testModule k => exact rel_testModule s evs e k hi hr he
  | release  => exact rel_release s evs e  hi hr he
  | scan  => exact rel_scan s evs e  hi hr he
  | getModuleInfo  => exact rel_getModuleInfo s evs e  hi hr he
  | getFrameInfo  => exact rel_getFrameInfo s evs e  hi hr he
  | start rate format => exact rel_start s evs e rate format hi hr he
  | playFrame  => exact rel_playFrame s evs e  hi hr he
  | playBuffer null size loop => exact rel_playBuffer s evs e null size loop hi hr he
  | endPlayer  => exact rel_endPlayer s evs e  hi hr he
  | nextPos  => exact rel_nextPos s evs e  hi hr he
  | prevPos  => exact rel_prevPos s evs e  hi hr he
  | setPos pos => exact rel_setPos s evs e pos hi hr he
  | setRow row => exact rel_setRow s evs e row hi hr he
  | setTempo positive => exact rel_setTempo s evs e positive hi hr he
  | stop  => exact rel_stop s evs e  hi hr he
  | restart  => exact rel_restart s evs e  hi hr he
  | seekTime t => exact rel_seekTime s evs e t hi hr he
  | chanMute chn status => exact rel_chanMute s evs e chn status hi hr he
  | chanVol chn vol => exact rel_chanVol s evs e chn vol hi hr he
  | inject chn => exact rel_inject s evs e chn hi hr he
  | getPlayer parm => exact rel_getPlayer s evs e parm hi hr he
  | setInsPath null => exact rel_setInsPath s evs e null hi hr he
  | startSmix chn smp => exact rel_startSmix s evs e chn smp hi hr he
  | smixPlayIns ins note vol chn => exact rel_smixPlayIns s evs e ins note vol chn hi hr he
  | smixPlaySmp ins note vol chn => exact rel_smixPlaySmp s evs e ins note vol chn hi hr he
  | smixPan chn pan => exact rel_smixPan s evs e chn pan hi hr he
  | smixLoad num file => exact rel_smixLoad s evs e num file hi hr he
  | smixRelease num => exact rel_smixRelease s evs e num hi hr he
  | endSmix  => exact rel_endSmix s evs e  hi hr he

theorem rel_init : Rel State.init [] := by
  unfold Rel; simp [expected, creationDefault, State.init]

/-! ## channel mute / volume -/

def toggle (x : Int) : Int := if x == 0 then 1 else 0

/-- mute status of channel `chn` expected after the recorded calls: the module's channel flag at the last
    successful `xmp_start_player`, then every accepted `xmp_channel_mute(chn, status)` since -/
def expMute (chn : Int) : List Event → Int
  | [] => 0
  | ev :: rest =>
    match ev.c with
    | .recreate => 0
    | .start _ _ => if ev.ret = 0 then getAt (startMute ev.pre.chn ev.e.xmute) chn else expMute chn rest
    | .chanMute c status =>
      if c = chn ∧ 0 ≤ ev.ret then
        (if status ≥ 2 then toggle (expMute chn rest) else if status ≥ 0 then status else expMute chn rest)
      else expMute chn rest
    | _ => expMute chn rest

/-- volume of channel `chn`: 100 at the last successful `xmp_start_player`, then the last accepted value 0..100 -/
def expVol (chn : Int) : List Event → Int
  | [] => 0
  | ev :: rest =>
    match ev.c with
    | .recreate => 0
    | .start _ _ => if ev.ret = 0 then 100 else expVol chn rest
    | .chanVol c v => if c = chn ∧ 0 ≤ ev.ret ∧ 0 ≤ v ∧ v ≤ 100 then v else expVol chn rest
    | _ => expVol chn rest

def RelCh (s : State) (evs : List Event) : Prop :=
  s.mute.length = 64 ∧ s.vol.length = 64 ∧ (∀ x ∈ s.mute, 0 ≤ x) ∧ (∀ x ∈ s.vol, 0 ≤ x) ∧
  (s.st = 2 → ∀ chn : Int, 0 ≤ chn → chn < 64 →
      getAt s.mute chn = expMute chn evs ∧ getAt s.vol chn = expVol chn evs)

theorem getAt_nonneg (l : List Int) (i : Int) (h : ∀ x ∈ l, 0 ≤ x) : 0 ≤ getAt l i := by
  unfold getAt
  rw [List.getD_eq_getElem?_getD]
  cases hh : l[i.toNat]? with
  | none => simp
  | some v => simp; exact h v (List.mem_of_getElem? hh)

theorem getAt_setAt_same (l : List Int) (c v : Int) (h0 : 0 ≤ c) (h1 : c < l.length) : getAt (setAt l c v) c = v := by
  unfold getAt setAt
  have : c.toNat < l.length := by omega
  simp [List.getD_eq_getElem?_getD, List.getElem?_set_self this]

theorem getAt_setAt_ne (l : List Int) (c chn v : Int) (h0 : 0 ≤ c) (h1 : 0 ≤ chn) (hne : c ≠ chn) :
    getAt (setAt l c v) chn = getAt l chn := by
  unfold getAt setAt
  have : c.toNat ≠ chn.toNat := by omega
  simp [List.getD_eq_getElem?_getD, List.getElem?_set_ne this]

theorem mem_setAt (l : List Int) (c v x : Int) (h : x ∈ setAt l c v) : x ∈ l ∨ x = v := by
  unfold setAt at h
  exact List.mem_or_eq_of_mem_set h

theorem startMute_mem (c : Int) (xm : List Int) (x : Int) (h : x ∈ startMute c xm) : 0 ≤ x := by
  unfold startMute at h
  simp only [List.mem_map] at h
  obtain ⟨i, _, rfl⟩ := h
  split <;> (try split) <;> omega

theorem setPlayer_frame (s : State) (parm val : Int) (e : Env) :
    (setPlayer s parm val e).state.st = s.st ∧ (setPlayer s parm val e).state.mute = s.mute
      ∧ (setPlayer s parm val e).state.vol = s.vol := by
  by_cases h0 : parm = 0
  · subst h0; simp [setPlayer]; repeat' split
    all_goals simp
  by_cases h1 : parm = 1
  · subst h1; simp [setPlayer]; repeat' split
    all_goals simp
  by_cases h2 : parm = 2
  · subst h2; simp [setPlayer]; repeat' split
    all_goals simp
  by_cases h3 : parm = 3
  · subst h3; simp [setPlayer]; repeat' split
    all_goals simp
  by_cases h4 : parm = 4
  · subst h4; simp [setPlayer]; repeat' split
    all_goals simp
  by_cases h5 : parm = 5
  · subst h5; simp [setPlayer]; repeat' split
    all_goals simp
  by_cases h6 : parm = 6
  · subst h6; simp [setPlayer]; repeat' split
    all_goals simp
  by_cases h7 : parm = 7
  · subst h7; simp [setPlayer]; repeat' split
    all_goals simp
  by_cases h8 : parm = 8
  · subst h8; simp [setPlayer]; repeat' split
    all_goals simp
  by_cases h9 : parm = 9
  · subst h9; simp [setPlayer]; repeat' split
    all_goals simp
  by_cases h10 : parm = 10
  · subst h10; simp [setPlayer]; repeat' split
    all_goals simp
  by_cases h11 : parm = 11
  · subst h11; simp [setPlayer]; repeat' split
    all_goals simp
  by_cases h12 : parm = 12
  · subst h12; simp [setPlayer]; repeat' split
    all_goals simp
  by_cases h13 : parm = 13
  · subst h13; simp [setPlayer]; repeat' split
    all_goals simp
  simp [setPlayer, *]; repeat' split
  all_goals simp

theorem relCh_frame (s s' : State) (ev : Event) (evs : List Event) (hr : RelCh s evs) (hm : s'.mute = s.mute)
    (hv : s'.vol = s.vol) (hst : s'.st = 2 → s.st = 2)
    (hem : ∀ chn, expMute chn (ev :: evs) = expMute chn evs) (hev : ∀ chn, expVol chn (ev :: evs) = expVol chn evs) :
    RelCh s' (ev :: evs) := by
  unfold RelCh at *
  rw [hm, hv]
  refine ⟨hr.1, hr.2.1, hr.2.2.1, hr.2.2.2.1, ?_⟩
  intro h chn h0 h1
  rw [hem, hev]
  exact hr.2.2.2.2 (hst h) chn h0 h1

macro "frame_auto" : tactic => `(tactic| (
  simp only [step, smixPlay, loadModule]
  repeat' split
  all_goals (first | rfl | (simp_all <;> try omega))))

theorem relCh_version (s : State) (evs : List Event) (e : Env)  (hr : RelCh s evs) :
    RelCh (step s .version e).state (⟨s, .version, e, (step s .version e).ret⟩ :: evs) := by
  apply relCh_frame s _ _ evs hr
  · frame_auto
  · frame_auto
  · frame_auto
  · intro chn; simp [expMute]
  · intro chn; simp [expVol]

theorem relCh_getFormatList (s : State) (evs : List Event) (e : Env)  (hr : RelCh s evs) :
    RelCh (step s .getFormatList e).state (⟨s, .getFormatList, e, (step s .getFormatList e).ret⟩ :: evs) := by
  apply relCh_frame s _ _ evs hr
  · frame_auto
  · frame_auto
  · frame_auto
  · intro chn; simp [expMute]
  · intro chn; simp [expVol]

theorem relCh_syserrno (s : State) (evs : List Event) (e : Env)  (hr : RelCh s evs) :
    RelCh (step s .syserrno e).state (⟨s, .syserrno, e, (step s .syserrno e).ret⟩ :: evs) := by
  apply relCh_frame s _ _ evs hr
  · frame_auto
  · frame_auto
  · frame_auto
  · intro chn; simp [expMute]
  · intro chn; simp [expVol]

theorem relCh_testModule (s : State) (evs : List Event) (e : Env) (k : LoadKind) (hr : RelCh s evs) :
    RelCh (step s (.testModule k) e).state (⟨s, (.testModule k), e, (step s (.testModule k) e).ret⟩ :: evs) := by
  apply relCh_frame s _ _ evs hr
  · frame_auto
  · frame_auto
  · frame_auto
  · intro chn; simp [expMute]
  · intro chn; simp [expVol]

theorem relCh_load (s : State) (evs : List Event) (e : Env) (k : LoadKind) (size : Int) (hr : RelCh s evs) :
    RelCh (step s (.load k size) e).state (⟨s, (.load k size), e, (step s (.load k size) e).ret⟩ :: evs) := by
  apply relCh_frame s _ _ evs hr
  · frame_auto
  · frame_auto
  · frame_auto
  · intro chn; simp [expMute]
  · intro chn; simp [expVol]

theorem relCh_release (s : State) (evs : List Event) (e : Env)  (hr : RelCh s evs) :
    RelCh (step s .release e).state (⟨s, .release, e, (step s .release e).ret⟩ :: evs) := by
  apply relCh_frame s _ _ evs hr
  · frame_auto
  · frame_auto
  · frame_auto
  · intro chn; simp [expMute]
  · intro chn; simp [expVol]

theorem relCh_scan (s : State) (evs : List Event) (e : Env)  (hr : RelCh s evs) :
    RelCh (step s .scan e).state (⟨s, .scan, e, (step s .scan e).ret⟩ :: evs) := by
  apply relCh_frame s _ _ evs hr
  · frame_auto
  · frame_auto
  · frame_auto
  · intro chn; simp [expMute]
  · intro chn; simp [expVol]

theorem relCh_getModuleInfo (s : State) (evs : List Event) (e : Env)  (hr : RelCh s evs) :
    RelCh (step s .getModuleInfo e).state (⟨s, .getModuleInfo, e, (step s .getModuleInfo e).ret⟩ :: evs) := by
  apply relCh_frame s _ _ evs hr
  · frame_auto
  · frame_auto
  · frame_auto
  · intro chn; simp [expMute]
  · intro chn; simp [expVol]

theorem relCh_getFrameInfo (s : State) (evs : List Event) (e : Env)  (hr : RelCh s evs) :
    RelCh (step s .getFrameInfo e).state (⟨s, .getFrameInfo, e, (step s .getFrameInfo e).ret⟩ :: evs) := by
  apply relCh_frame s _ _ evs hr
  · frame_auto
  · frame_auto
  · frame_auto
  · intro chn; simp [expMute]
  · intro chn; simp [expVol]

theorem relCh_playFrame (s : State) (evs : List Event) (e : Env)  (hr : RelCh s evs) :
    RelCh (step s .playFrame e).state (⟨s, .playFrame, e, (step s .playFrame e).ret⟩ :: evs) := by
  apply relCh_frame s _ _ evs hr
  · frame_auto
  · frame_auto
  · frame_auto
  · intro chn; simp [expMute]
  · intro chn; simp [expVol]

theorem relCh_playBuffer (s : State) (evs : List Event) (e : Env) (null : Bool) (size : Int) (loop : Int) (hr : RelCh s evs) :
    RelCh (step s (.playBuffer null size loop) e).state (⟨s, (.playBuffer null size loop), e, (step s (.playBuffer null size loop) e).ret⟩ :: evs) := by
  apply relCh_frame s _ _ evs hr
  · frame_auto
  · frame_auto
  · frame_auto
  · intro chn; simp [expMute]
  · intro chn; simp [expVol]

theorem relCh_endPlayer (s : State) (evs : List Event) (e : Env)  (hr : RelCh s evs) :
    RelCh (step s .endPlayer e).state (⟨s, .endPlayer, e, (step s .endPlayer e).ret⟩ :: evs) := by
  apply relCh_frame s _ _ evs hr
  · frame_auto
  · frame_auto
  · frame_auto
  · intro chn; simp [expMute]
  · intro chn; simp [expVol]

theorem relCh_nextPos (s : State) (evs : List Event) (e : Env)  (hr : RelCh s evs) :
    RelCh (step s .nextPos e).state (⟨s, .nextPos, e, (step s .nextPos e).ret⟩ :: evs) := by
  apply relCh_frame s _ _ evs hr
  · frame_auto
  · frame_auto
  · frame_auto
  · intro chn; simp [expMute]
  · intro chn; simp [expVol]

theorem relCh_prevPos (s : State) (evs : List Event) (e : Env)  (hr : RelCh s evs) :
    RelCh (step s .prevPos e).state (⟨s, .prevPos, e, (step s .prevPos e).ret⟩ :: evs) := by
  apply relCh_frame s _ _ evs hr
  · frame_auto
  · frame_auto
  · frame_auto
  · intro chn; simp [expMute]
  · intro chn; simp [expVol]

theorem relCh_setPos (s : State) (evs : List Event) (e : Env) (pos : Int) (hr : RelCh s evs) :
    RelCh (step s (.setPos pos) e).state (⟨s, (.setPos pos), e, (step s (.setPos pos) e).ret⟩ :: evs) := by
  apply relCh_frame s _ _ evs hr
  · frame_auto
  · frame_auto
  · frame_auto
  · intro chn; simp [expMute]
  · intro chn; simp [expVol]

theorem relCh_setRow (s : State) (evs : List Event) (e : Env) (row : Int) (hr : RelCh s evs) :
    RelCh (step s (.setRow row) e).state (⟨s, (.setRow row), e, (step s (.setRow row) e).ret⟩ :: evs) := by
  apply relCh_frame s _ _ evs hr
  · frame_auto
  · frame_auto
  · frame_auto
  · intro chn; simp [expMute]
  · intro chn; simp [expVol]

theorem relCh_setTempo (s : State) (evs : List Event) (e : Env) (positive : Bool) (hr : RelCh s evs) :
    RelCh (step s (.setTempo positive) e).state (⟨s, (.setTempo positive), e, (step s (.setTempo positive) e).ret⟩ :: evs) := by
  apply relCh_frame s _ _ evs hr
  · frame_auto
  · frame_auto
  · frame_auto
  · intro chn; simp [expMute]
  · intro chn; simp [expVol]

theorem relCh_stop (s : State) (evs : List Event) (e : Env)  (hr : RelCh s evs) :
    RelCh (step s .stop e).state (⟨s, .stop, e, (step s .stop e).ret⟩ :: evs) := by
  apply relCh_frame s _ _ evs hr
  · frame_auto
  · frame_auto
  · frame_auto
  · intro chn; simp [expMute]
  · intro chn; simp [expVol]

theorem relCh_restart (s : State) (evs : List Event) (e : Env)  (hr : RelCh s evs) :
    RelCh (step s .restart e).state (⟨s, .restart, e, (step s .restart e).ret⟩ :: evs) := by
  apply relCh_frame s _ _ evs hr
  · frame_auto
  · frame_auto
  · frame_auto
  · intro chn; simp [expMute]
  · intro chn; simp [expVol]

theorem relCh_seekTime (s : State) (evs : List Event) (e : Env) (t : Int) (hr : RelCh s evs) :
    RelCh (step s (.seekTime t) e).state (⟨s, (.seekTime t), e, (step s (.seekTime t) e).ret⟩ :: evs) := by
  apply relCh_frame s _ _ evs hr
  · frame_auto
  · frame_auto
  · frame_auto
  · intro chn; simp [expMute]
  · intro chn; simp [expVol]

theorem relCh_inject (s : State) (evs : List Event) (e : Env) (chn : Int) (hr : RelCh s evs) :
    RelCh (step s (.inject chn) e).state (⟨s, (.inject chn), e, (step s (.inject chn) e).ret⟩ :: evs) := by
  apply relCh_frame s _ _ evs hr
  · frame_auto
  · frame_auto
  · frame_auto
  · intro chn; simp [expMute]
  · intro chn; simp [expVol]

theorem relCh_getPlayer (s : State) (evs : List Event) (e : Env) (parm : Int) (hr : RelCh s evs) :
    RelCh (step s (.getPlayer parm) e).state (⟨s, (.getPlayer parm), e, (step s (.getPlayer parm) e).ret⟩ :: evs) := by
  apply relCh_frame s _ _ evs hr
  · frame_auto
  · frame_auto
  · frame_auto
  · intro chn; simp [expMute]
  · intro chn; simp [expVol]

theorem relCh_setInsPath (s : State) (evs : List Event) (e : Env) (null : Bool) (hr : RelCh s evs) :
    RelCh (step s (.setInsPath null) e).state (⟨s, (.setInsPath null), e, (step s (.setInsPath null) e).ret⟩ :: evs) := by
  apply relCh_frame s _ _ evs hr
  · frame_auto
  · frame_auto
  · frame_auto
  · intro chn; simp [expMute]
  · intro chn; simp [expVol]

theorem relCh_startSmix (s : State) (evs : List Event) (e : Env) (chn : Int) (smp : Int) (hr : RelCh s evs) :
    RelCh (step s (.startSmix chn smp) e).state (⟨s, (.startSmix chn smp), e, (step s (.startSmix chn smp) e).ret⟩ :: evs) := by
  apply relCh_frame s _ _ evs hr
  · frame_auto
  · frame_auto
  · frame_auto
  · intro chn; simp [expMute]
  · intro chn; simp [expVol]

theorem relCh_smixPlayIns (s : State) (evs : List Event) (e : Env) (ins : Int) (note : Int) (vol : Int) (chn : Int) (hr : RelCh s evs) :
    RelCh (step s (.smixPlayIns ins note vol chn) e).state (⟨s, (.smixPlayIns ins note vol chn), e, (step s (.smixPlayIns ins note vol chn) e).ret⟩ :: evs) := by
  apply relCh_frame s _ _ evs hr
  · frame_auto
  · frame_auto
  · frame_auto
  · intro chn; simp [expMute]
  · intro chn; simp [expVol]

theorem relCh_smixPlaySmp (s : State) (evs : List Event) (e : Env) (ins : Int) (note : Int) (vol : Int) (chn : Int) (hr : RelCh s evs) :
    RelCh (step s (.smixPlaySmp ins note vol chn) e).state (⟨s, (.smixPlaySmp ins note vol chn), e, (step s (.smixPlaySmp ins note vol chn) e).ret⟩ :: evs) := by
  apply relCh_frame s _ _ evs hr
  · frame_auto
  · frame_auto
  · frame_auto
  · intro chn; simp [expMute]
  · intro chn; simp [expVol]

theorem relCh_smixPan (s : State) (evs : List Event) (e : Env) (chn : Int) (pan : Int) (hr : RelCh s evs) :
    RelCh (step s (.smixPan chn pan) e).state (⟨s, (.smixPan chn pan), e, (step s (.smixPan chn pan) e).ret⟩ :: evs) := by
  apply relCh_frame s _ _ evs hr
  · frame_auto
  · frame_auto
  · frame_auto
  · intro chn; simp [expMute]
  · intro chn; simp [expVol]

theorem relCh_smixLoad (s : State) (evs : List Event) (e : Env) (num : Int) (file : Int) (hr : RelCh s evs) :
    RelCh (step s (.smixLoad num file) e).state (⟨s, (.smixLoad num file), e, (step s (.smixLoad num file) e).ret⟩ :: evs) := by
  apply relCh_frame s _ _ evs hr
  · frame_auto
  · frame_auto
  · frame_auto
  · intro chn; simp [expMute]
  · intro chn; simp [expVol]

theorem relCh_smixRelease (s : State) (evs : List Event) (e : Env) (num : Int) (hr : RelCh s evs) :
    RelCh (step s (.smixRelease num) e).state (⟨s, (.smixRelease num), e, (step s (.smixRelease num) e).ret⟩ :: evs) := by
  apply relCh_frame s _ _ evs hr
  · frame_auto
  · frame_auto
  · frame_auto
  · intro chn; simp [expMute]
  · intro chn; simp [expVol]

theorem relCh_endSmix (s : State) (evs : List Event) (e : Env)  (hr : RelCh s evs) :
    RelCh (step s .endSmix e).state (⟨s, .endSmix, e, (step s .endSmix e).ret⟩ :: evs) := by
  apply relCh_frame s _ _ evs hr
  · frame_auto
  · frame_auto
  · frame_auto
  · intro chn; simp [expMute]
  · intro chn; simp [expVol]

theorem relCh_setPlayer (s : State) (evs : List Event) (e : Env) (parm val : Int) (hr : RelCh s evs) :
    RelCh (step s (.setPlayer parm val) e).state (⟨s, .setPlayer parm val, e, (step s (.setPlayer parm val) e).ret⟩ :: evs) := by
  have h := setPlayer_frame s parm val e
  apply relCh_frame s _ _ evs hr
  · simpa [step] using h.2.1
  · simpa [step] using h.2.2
  · simp only [step]; rw [h.1]; exact id
  · intro chn; simp [expMute]
  · intro chn; simp [expVol]

theorem relCh_recreate (s : State) (evs : List Event) (e : Env) :
    RelCh (step s .recreate e).state (⟨s, .recreate, e, (step s .recreate e).ret⟩ :: evs) := by
  unfold RelCh
  simp [step, State.init]

theorem getAt_replicate (n : Nat) (v i : Int) (h0 : 0 ≤ i) (h : i < n) : getAt (List.replicate n v) i = v := by
  unfold getAt
  have : i.toNat < n := by omega
  simp [List.getD_eq_getElem?_getD, List.getElem?_replicate, this]

theorem s1_st (s : State) : (if s.st > XMP_STATE_LOADED then endPlayer s else s).st ≠ 2 := by
  split
  · rw [endPlayer_st]; split <;> simp_all <;> omega
  · simp_all; omega

theorem relCh_start (s : State) (evs : List Event) (e : Env) (rate format : Int) (hr : RelCh s evs) :
    RelCh (step s (.start rate format) e).state
      (⟨s, .start rate format, e, (step s (.start rate format) e).ret⟩ :: evs) := by
  simp only [step, startPlayer]
  split
  · apply relCh_frame s _ _ evs hr rfl rfl id <;> intro chn <;> simp [expMute, expVol, ERR_INVALID]
  · split
    · apply relCh_frame s _ _ evs hr rfl rfl id <;> intro chn <;> simp [expMute, expVol, ERR_STATE]
    · split
      · apply relCh_frame s _ _ evs hr rfl rfl id <;> intro chn <;> simp [expMute, expVol, ERR_INVALID]
      · have hv100 : ∀ x ∈ List.replicate 64 (100 : Int), 0 ≤ x := by
          intro x hx; rw [List.mem_replicate] at hx; omega
        split
        · -- allocation failure: defaults written, not playing
          rename_i h1 h2 h3 h4
          unfold RelCh
          refine ⟨by simp, by simp, fun x hx => startMute_mem _ _ x hx, hv100, ?_⟩
          intro h
          exact absurd h (s1_st s)
        · rename_i h1 h2 h3 h4
          have hres : e.res = 0 := by simpa using h4
          unfold RelCh
          refine ⟨by simp, by simp, fun x hx => startMute_mem _ _ x hx, hv100, ?_⟩
          intro _ chn h0 h64
          constructor
          · simp [expMute]
            split <;> simp
          · show getAt (List.replicate 64 100) chn = _
            rw [getAt_replicate 64 100 chn h0 (by omega)]
            simp [expVol]

theorem relCh_chanMute (s : State) (evs : List Event) (e : Env) (c status : Int) (hr : RelCh s evs) :
    RelCh (step s (.chanMute c status) e).state
      (⟨s, .chanMute c status, e, (step s (.chanMute c status) e).ret⟩ :: evs) := by
  simp only [step]
  split
  · apply relCh_frame s _ _ evs hr rfl rfl id <;> intro chn <;> simp [expMute, expVol, ERR_STATE]
  · split
    · apply relCh_frame s _ _ evs hr rfl rfl id <;> intro chn <;> simp [expMute, expVol, ERR_INVALID]
    · rename_i h1 h2
      have hst : s.st = 2 ∨ 2 < s.st := by
        have : ¬ s.st < 2 := by simpa using h1
        omega
      have hc : 0 ≤ c ∧ c < 64 := by
        have : ¬ (c < 0 ∨ 64 ≤ c) := by simpa using h2
        omega
      obtain ⟨hl, hlv, hm, hv, hrel⟩ := hr
      have hold : 0 ≤ getAt s.mute c := getAt_nonneg _ _ hm
      have key : ∀ v : Int, 0 ≤ v →
          (∀ chn : Int, expMute chn (⟨s, .chanMute c status, e, getAt s.mute c⟩ :: evs)
              = if c = chn then (if s.st = 2 then v else expMute chn (⟨s, .chanMute c status, e, getAt s.mute c⟩ :: evs)) else expMute chn evs) →
          RelCh { s with mute := setAt s.mute c v } (⟨s, .chanMute c status, e, getAt s.mute c⟩ :: evs) := by
        intro v hv0 hexp
        unfold RelCh
        refine ⟨by simp [hl], hlv, ?_, hv, ?_⟩
        · intro x hx
          rcases mem_setAt _ _ _ _ hx with h | h
          · exact hm x h
          · omega
        · intro h2 chn h0 h64
          have h2' : s.st = 2 := h2
          constructor
          · rw [hexp chn]
            by_cases hcc : c = chn
            · subst hcc; simp [h2']; exact getAt_setAt_same _ _ _ hc.1 (by omega)
            · simp [hcc]; rw [getAt_setAt_ne _ _ _ _ hc.1 h0 hcc]; exact (hrel h2' chn h0 h64).1
          · simp [expVol]; exact (hrel h2' chn h0 h64).2
      split
      · -- status ≥ 2: inversion
        rename_i h3
        apply key
        · split <;> omega
        · intro chn
          by_cases hcc : c = chn
          · subst hcc
            by_cases h2' : s.st = 2
            · have := (hrel h2' c hc.1 hc.2).1
              simp [expMute, hold, h3, toggle, ← this, h2']
            · simp [h2']
          · simp [expMute, hcc]
      · split
        · rename_i h3 h4
          apply key
          · omega
          · intro chn
            by_cases hcc : c = chn
            · subst hcc
              by_cases h2' : s.st = 2
              · simp [expMute, hold, h3, h4, h2']
              · simp [h2']
            · simp [expMute, hcc]
        · rename_i h3 h4
          apply relCh_frame s _ _ evs ⟨hl, hlv, hm, hv, hrel⟩ rfl rfl id
          · intro chn
            by_cases hcc : c = chn
            · simp [expMute, hcc, h3, h4]
            · simp [expMute, hcc]
          · intro chn; simp [expVol]

theorem relCh_chanVol (s : State) (evs : List Event) (e : Env) (c v : Int) (hr : RelCh s evs) :
    RelCh (step s (.chanVol c v) e).state (⟨s, .chanVol c v, e, (step s (.chanVol c v) e).ret⟩ :: evs) := by
  simp only [step]
  split
  · apply relCh_frame s _ _ evs hr rfl rfl id <;> intro chn <;> simp [expMute, expVol, ERR_STATE]
  · split
    · apply relCh_frame s _ _ evs hr rfl rfl id <;> intro chn <;> simp [expMute, expVol, ERR_INVALID]
    · rename_i h1 h2
      have hc : 0 ≤ c ∧ c < 64 := by
        have : ¬ (c < 0 ∨ 64 ≤ c) := by simpa using h2
        omega
      obtain ⟨hl, hlv, hm, hv, hrel⟩ := hr
      have hold : 0 ≤ getAt s.vol c := getAt_nonneg _ _ hv
      split
      · rename_i h3
        have hv3 : 0 ≤ v ∧ v ≤ 100 := by simpa using h3
        unfold RelCh
        refine ⟨hl, by simp [hlv], hm, ?_, ?_⟩
        · intro x hx
          rcases mem_setAt _ _ _ _ hx with h | h
          · exact hv x h
          · omega
        · intro h2' chn h0 h64
          have h2'' : s.st = 2 := h2'
          constructor
          · simp [expMute]; exact (hrel h2'' chn h0 h64).1
          · by_cases hcc : c = chn
            · subst hcc
              simp [expVol, hold, hv3]
              exact getAt_setAt_same _ _ _ hc.1 (by omega)
            · simp [expVol, hcc]
              rw [getAt_setAt_ne _ _ _ _ hc.1 h0 hcc]
              exact (hrel h2'' chn h0 h64).2
      · rename_i h3
        have hv3 : ¬ (0 ≤ v ∧ v ≤ 100) := by simpa using h3
        apply relCh_frame s _ _ evs ⟨hl, hlv, hm, hv, hrel⟩ rfl rfl id
        · intro chn; simp [expMute]
        · intro chn
          simp only [expVol]
          split
          · rename_i h; omega
          · rfl

theorem relCh_init : RelCh State.init [] := by
  unfold RelCh; simp [State.init]

theorem relCh_step (s : State) (evs : List Event) (c : Call) (e : Env) (hr : RelCh s evs) :
    RelCh (step s c e).state (⟨s, c, e, (step s c e).ret⟩ :: evs) := by
  cases c with
  | setPlayer p v => exact relCh_setPlayer s evs e p v hr
  | recreate => exact relCh_recreate s evs e
  | start r f => exact relCh_start s evs e r f hr
  | chanMute c st => exact relCh_chanMute s evs e c st hr
  | chanVol c v => exact relCh_chanVol s evs e c v hr
  | version  => exact relCh_version s evs e  hr
  | getFormatList  => exact relCh_getFormatList s evs e  hr
  | syserrno  => exact relCh_syserrno s evs e  hr
  | testModule k => exact relCh_testModule s evs e k hr
  | load k size => exact relCh_load s evs e k size hr
  | release  => exact relCh_release s evs e  hr
  | scan  => exact relCh_scan s evs e  hr
  | getModuleInfo  => exact relCh_getModuleInfo s evs e  hr
  | getFrameInfo  => exact relCh_getFrameInfo s evs e  hr
  | playFrame  => exact relCh_playFrame s evs e  hr
  | playBuffer null size loop => exact relCh_playBuffer s evs e null size loop hr
  | endPlayer  => exact relCh_endPlayer s evs e  hr
  | nextPos  => exact relCh_nextPos s evs e  hr
  | prevPos  => exact relCh_prevPos s evs e  hr
  | setPos pos => exact relCh_setPos s evs e pos hr
  | setRow row => exact relCh_setRow s evs e row hr
  | setTempo positive => exact relCh_setTempo s evs e positive hr
  | stop  => exact relCh_stop s evs e  hr
  | restart  => exact relCh_restart s evs e  hr
  | seekTime t => exact relCh_seekTime s evs e t hr
  | inject chn => exact relCh_inject s evs e chn hr
  | getPlayer parm => exact relCh_getPlayer s evs e parm hr
  | setInsPath null => exact relCh_setInsPath s evs e null hr
  | startSmix chn smp => exact relCh_startSmix s evs e chn smp hr
  | smixPlayIns ins note vol chn => exact relCh_smixPlayIns s evs e ins note vol chn hr
  | smixPlaySmp ins note vol chn => exact relCh_smixPlaySmp s evs e ins note vol chn hr
  | smixPan chn pan => exact relCh_smixPan s evs e chn pan hr
  | smixLoad num file => exact relCh_smixLoad s evs e num file hr
  | smixRelease num => exact relCh_smixRelease s evs e num hr
  | endSmix  => exact relCh_endSmix s evs e  hr

/-- invariant, parameter relation and channel relation hold along every history -/
theorem exec_rel (h : List (Call × Env)) (s : State) (evs : List Event) (hi : ApiInv s) (hr : Rel s evs)
    (hc : RelCh s evs) (he : ∀ x ∈ h, ∀ s', EnvOk s' x.1 x.2 = true) :
    ApiInv (exec s evs h).1 ∧ Rel (exec s evs h).1 (exec s evs h).2 ∧ RelCh (exec s evs h).1 (exec s evs h).2 := by
  induction h generalizing s evs with
  | nil => exact ⟨hi, hr, hc⟩
  | cons x rest ih =>
    obtain ⟨c, e⟩ := x
    simp only [exec]
    apply ih
    · exact inv_step s c e hi (he (c, e) (by simp) s)
    · exact rel_step s evs c e hi hr (he (c, e) (by simp) s)
    · exact relCh_step s evs c e hc
    · intro y hy s'; exact he y (by simp [hy]) s'

end Xmp.Api
