import XmpModel.Bzip2
import XmpProofs.Bzip2Block
import XmpProofs.Container
import XmpProofs.Gates
/-!
# bzip2: the decoder model inside the C08 pipeline and under the C09 gates

* the file written by `bzip2 lv bs` starts with `BZh<level>` and is at least 22 bytes long, so `libxmp_decrunch`
  dispatches it to the bzip2 depacker;
* what the model accepts is what `Gates.bzDepack` accepts on the blocks the modelled block decoder delivers.
-/
namespace Xmp.Bzip2
open Xmp Xmp.Crc

/-! ## the first bytes of the written file -/

theorem toBits_length : ∀ (f : Bytes), (toBits f).length = 8 * f.length
  | [] => rfl
  | b :: f => by rw [toBits_cons, List.length_append, toBits_length f]; simp [byteBits]; omega

theorem packByte_putBits8 (a : Nat) : packByte (putBits 8 a) = UInt8.ofNat a := by
  have h1 := getBitsAux_putBits [] 8 0 a
  have h2 := getBitsAux_bits [] (putBits 8 a) 0
  rw [putBits_length] at h2
  rw [h1] at h2
  simp only [Nat.zero_mul, Nat.zero_add, Except.ok.injEq, Prod.mk.injEq, and_true] at h2
  unfold packByte
  show UInt8.ofNat (bitsVal 0 (putBits 8 a)) = _
  rw [← h2]
  apply UInt8.toNat_inj.mp
  simp

theorem packBits_putBits8 (fuel a : Nat) (rest : Bits) :
    packBits (fuel + 1) (putBits 8 a ++ rest) = UInt8.ofNat a :: packBits fuel rest := by
  have e : putBits 8 a ++ rest = a.testBit 7 :: (putBits 7 a ++ rest) := rfl
  rw [e]
  simp only [packBits]
  rw [← e]
  have ht : (putBits 8 a ++ rest).take 8 = putBits 8 a := by
    rw [List.take_append_of_le_length (by rw [putBits_length]; omega), List.take_of_length_le (by rw [putBits_length]; omega)]
  have hd : (putBits 8 a ++ rest).drop 8 = rest := by
    rw [List.drop_append_of_le_length (by rw [putBits_length]; omega), List.drop_of_length_le (by rw [putBits_length]; omega)]
    rfl
  rw [ht, hd, putBits_length]
  simp [packByte_putBits8]

theorem encodeBlock_length139 (p : Bytes) : 139 ≤ (encodeBlock p).length := by
  rw [encodeBlock_eq]
  unfold bodyBits symMapBits
  simp only [List.length_append, putBits_length, List.length_map, List.length_range, List.length_cons, List.length_nil]
  omega

/-- shape of the written file: `BZh`, the level digit, at least 18 more bytes -/
theorem bzip2_shape (lv bs : Nat) (p : Bytes) (hne : p ≠ []) :
    ∃ t, bzip2 lv bs p = 0x42 :: 0x5a :: 0x68 :: UInt8.ofNat (0x30 + lv) :: t ∧ 18 ≤ t.length := by
  obtain ⟨b, rest, rfl⟩ := List.exists_cons_of_ne_nil hne
  unfold bzip2
  simp only [List.length_cons, chunks, List.flatMap_cons, List.append_assoc]
  generalize hr : (encodeBlock ((b :: rest).take bs) ++ ((chunks bs rest.length ((b :: rest).drop bs)).flatMap encodeBlock ++
    (putBits 24 magicEndHi ++ (putBits 24 magicEndLo ++
      putBits 32 (Gates.bzStreamCrc 0 ((b :: rest).take bs :: chunks bs rest.length ((b :: rest).drop bs))).toNat)))) = r
  have hrlen : 139 + 80 ≤ r.length := by
    rw [← hr]
    have := encodeBlock_length139 ((b :: rest).take bs)
    simp only [List.length_append, putBits_length]
    omega
  simp only [List.length_append, putBits_length]
  have hfuel : (8 + (8 + (8 + (8 + r.length)))) / 8 + 1 = (r.length / 8 + 1) + 1 + 1 + 1 + 1 := by omega
  rw [hfuel, packBits_putBits8, packBits_putBits8, packBits_putBits8, packBits_putBits8]
  refine ⟨_, rfl, ?_⟩
  obtain ⟨pad, hp⟩ := toBits_packBits (r.length / 8 + 1) r (by omega)
  have := congrArg List.length hp
  rw [toBits_length, List.length_append, List.length_replicate] at this
  omega

/-! ## the model under the C09 gate -/

/-- what the modelled block decoder delivers for a stream, no CRC looked at: per block the stored CRC and the
    decoded bytes, then the stored stream CRC -/
def parseBlocks (dbufSize nbits : Nat) : Nat → Bits → Option (List (BitVec 32 × Bytes) × BitVec 32)
  | 0, _ => none
  | fuel + 1, s =>
    match getBits 24 s with
    | .error _ => none
    | .ok (ii, s1) =>
    match getBits 24 s1 with
    | .error _ => none
    | .ok (jj, s2) =>
    match getBits 32 s2 with
    | .error _ => none
    | .ok (crc, s3) =>
    if ii = magicEndHi ∧ jj = magicEndLo then some ([], BitVec.ofNat 32 crc)
    else if ii ≠ magicBlockHi ∨ jj ≠ magicBlockLo then none
    else
      match decodeBlock dbufSize nbits s3 with
      | .error _ => none
      | .ok (blk, s4) =>
        match parseBlocks dbufSize nbits fuel s4 with
        | none => none
        | some (bs, sc) => some ((BitVec.ofNat 32 crc, blk) :: bs, sc)

/-- acceptance by `streamLoop` is acceptance by `Gates.bzRun` of the parsed blocks -/
theorem streamLoop_gate (dbufSize nbits : Nat) :
    ∀ (fuel : Nat) (hc dc tc : BitVec 32) (out : Bytes) (s : Bits),
      (streamLoop dbufSize nbits fuel hc dc tc out s).ok = true →
      ∃ blocks sc, parseBlocks dbufSize nbits fuel s = some (blocks, sc) ∧
        Gates.bzRun tc out blocks sc = some (streamLoop dbufSize nbits fuel hc dc tc out s).out
  | 0, _, _, _, _, _, h => by simp [streamLoop] at h
  | fuel + 1, hc, dc, tc, out, s, h => by
    unfold streamLoop at h ⊢
    unfold parseBlocks
    cases h1 : getBits 24 s with
    | error e => simp [h1] at h
    | ok r1 =>
      obtain ⟨ii, s1⟩ := r1
      simp only [h1] at h ⊢
      cases h2 : getBits 24 s1 with
      | error e => simp [h2] at h
      | ok r2 =>
        obtain ⟨jj, s2⟩ := r2
        simp only [h2] at h ⊢
        cases h3 : getBits 32 s2 with
        | error e => simp [h3] at h
        | ok r3 =>
          obtain ⟨crc, s3⟩ := r3
          simp only [h3] at h ⊢
          by_cases hend : ii = magicEndHi ∧ jj = magicEndLo
          · simp only [hend, and_self, if_true] at h ⊢
            refine ⟨[], BitVec.ofNat 32 crc, rfl, ?_⟩
            simp only [Bool.and_eq_true, Bool.or_eq_true, decide_eq_true_eq] at h
            unfold Gates.bzRun
            rcases h.1 with hd | he
            · simp [hd]
            · simp [he]
          · simp only [if_neg hend] at h ⊢
            by_cases hblk : ii ≠ magicBlockHi ∨ jj ≠ magicBlockLo
            · simp only [if_pos hblk] at h; simp at h
            · simp only [if_neg hblk] at h ⊢
              cases h4 : decodeBlock dbufSize nbits s3 with
              | error e =>
                rw [h4] at h
                cases e <;> simp at h
              | ok r4 =>
                obtain ⟨blk, s4⟩ := r4
                simp only [h4] at h ⊢
                by_cases hlim : (out ++ blk).length > Gen.depackLimit + Gen.iobufSize
                · simp only [if_pos hlim] at h; simp at h
                · simp only [if_neg hlim] at h ⊢
                  by_cases hcrc : bzBlockCrc blk ≠ BitVec.ofNat 32 crc
                  · simp only [if_pos hcrc] at h; simp at h
                  · simp only [if_neg hcrc] at h ⊢
                    obtain ⟨blocks, sc, hp, hr⟩ := streamLoop_gate dbufSize nbits fuel _ _ _ _ _ h
                    refine ⟨(BitVec.ofNat 32 crc, blk) :: blocks, sc, by rw [hp], ?_⟩
                    unfold Gates.bzRun
                    simp only
                    rw [if_neg hcrc]
                    exact hr

/-- the blocks of a whole file as the modelled decoder sees them (`none`: not a parsable bzip2 file) -/
def parseFile (f : Bytes) : Option (List (BitVec 32 × Bytes) × BitVec 32) :=
  match getBits 8 (toBits f) with
  | .error _ => none
  | .ok (c0, s1) =>
  if c0 ≠ 0x42 then none else
  match getBits 8 s1 with
  | .error _ => none
  | .ok (c1, s2) =>
  if c1 ≠ 0x5a then none else
  match getBits 8 s2 with
  | .error _ => none
  | .ok (c2, s3) =>
  if c2 ≠ 0x68 then none else
  match getBits 8 s3 with
  | .error _ => none
  | .ok (lv, s4) =>
  if lv < 0x31 ∨ lv > 0x39 then none else
  parseBlocks (100000 * (lv - 0x30)) s4.length (s4.length / 80 + 1) s4

/-- **the bzip2 gate of C09 with the modelled block decoder plugged in**: whatever `decrunch_bzip2` accepts is
    accepted by `Gates.bzDepack` on the blocks the modelled decoder delivers for that file -/
theorem bunzip2_gate (f out : Bytes) (h : bunzip2 f = some out) :
    ∃ blocks sc, parseFile f = some (blocks, sc) ∧ Gates.bzDepack blocks sc = some out := by
  unfold bunzip2 at h
  simp only at h
  split at h
  · rename_i hok
    simp only [Option.some.injEq] at h
    unfold run at hok h
    unfold parseFile
    cases h1 : getBits 8 (toBits f) with
    | error e => simp [h1] at hok
    | ok r1 =>
      obtain ⟨c0, s1⟩ := r1
      simp only [h1] at hok h ⊢
      by_cases e0 : c0 ≠ 0x42
      · simp [if_pos e0] at hok
      · simp only [if_neg e0] at hok h ⊢
        cases h2 : getBits 8 s1 with
        | error e => simp [h2] at hok
        | ok r2 =>
          obtain ⟨c1, s2⟩ := r2
          simp only [h2] at hok h ⊢
          by_cases e1 : c1 ≠ 0x5a
          · simp [if_pos e1] at hok
          · simp only [if_neg e1] at hok h ⊢
            cases h3 : getBits 8 s2 with
            | error e => simp [h3] at hok
            | ok r3 =>
              obtain ⟨c2, s3⟩ := r3
              simp only [h3] at hok h ⊢
              by_cases e2 : c2 ≠ 0x68
              · simp [if_pos e2] at hok
              · simp only [if_neg e2] at hok h ⊢
                cases h4 : getBits 8 s3 with
                | error e => simp [h4] at hok
                | ok r4 =>
                  obtain ⟨lv, s4⟩ := r4
                  simp only [h4] at hok h ⊢
                  by_cases e3 : lv < 0x31 ∨ lv > 0x39
                  · simp [if_pos e3] at hok
                  · simp only [if_neg e3] at hok h ⊢
                    obtain ⟨blocks, sc, hp, hr⟩ := streamLoop_gate _ _ _ _ _ _ _ _ hok
                    refine ⟨blocks, sc, hp, ?_⟩
                    unfold Gates.bzDepack
                    rw [hr, h]
  · cases h

end Xmp.Bzip2
