import XmpModel.MixLinear
/-! Helper lemmas for C14 (core Lean only). -/
namespace Xmp.MixLinear

/-! ### `addInto` is a commutative-monoid action on buffers of fixed length -/

@[simp] theorem addInto_nil_left (c : Buf) : addInto [] c = [] := by
  cases c <;> rfl

@[simp] theorem addInto_nil_right (b : Buf) : addInto b [] = b := by
  cases b <;> rfl

@[simp] theorem addInto_length (b c : Buf) : (addInto b c).length = b.length := by
  induction b generalizing c with
  | nil => simp
  | cons x b ih => cases c with
    | nil => simp
    | cons y c => simp [addInto, ih]

theorem addInto_right_comm (b c d : Buf) : addInto (addInto b c) d = addInto (addInto b d) c := by
  induction b generalizing c d with
  | nil => simp
  | cons x b ih =>
    cases c with
    | nil => simp
    | cons y c =>
      cases d with
      | nil => simp
      | cons z d =>
        simp only [addInto, ih c d]
        congr 1
        ac_rfl

theorem addInto_zeros (b : Buf) (n : Nat) : addInto b (zeros n) = b := by
  induction b generalizing n with
  | nil => simp
  | cons x b ih =>
    cases n with
    | zero => simp [zeros]
    | succ n =>
      have : zeros (n + 1) = 0 :: zeros n := rfl
      rw [this]
      simp only [addInto, ih]
      have : x + (0 : Acc) = x := BitVec.add_zero x
      rw [this]

/-- adding the sum of two contributions = adding them one after the other, provided the
first is at least as long as the buffer (true for solo mixes, which have the buffer's length) -/
theorem addInto_addInto (b c d : Buf) (h : b.length ≤ c.length) :
    addInto b (addInto c d) = addInto (addInto b c) d := by
  induction b generalizing c d with
  | nil => simp
  | cons x b ih =>
    cases c with
    | nil => simp at h
    | cons y c =>
      have h' : b.length ≤ c.length := by simpa using h
      cases d with
      | nil => simp
      | cons z d =>
        simp only [addInto, ih c d h']
        congr 1
        ac_rfl

@[simp] theorem zeros_length (n : Nat) : (zeros n).length = n := by simp [zeros]

theorem foldl_addInto_length (b : Buf) (cs : List Buf) : (cs.foldl addInto b).length = b.length := by
  induction cs generalizing b with
  | nil => rfl
  | cons c cs ih => simp [List.foldl, ih]

@[simp] theorem tick_length (n : Nat) (cs : List Buf) : (tick n cs).length = n := by
  simp [tick, foldl_addInto_length]

theorem solo_eq (n : Nat) (c : Buf) : solo n c = addInto (zeros n) c := rfl

/-- adding a solo mix = adding the raw contribution -/
theorem addInto_solo (b : Buf) (n : Nat) (c : Buf) (h : b.length = n) :
    addInto b (solo n c) = addInto b c := by
  rw [solo_eq, addInto_addInto b (zeros n) c (by simp [h]), addInto_zeros]

theorem foldl_addInto_solo (n : Nat) (cs : List Buf) (b : Buf) (h : b.length = n) :
    (cs.map (solo n)).foldl addInto b = cs.foldl addInto b := by
  induction cs generalizing b with
  | nil => rfl
  | cons c cs ih =>
    simp only [List.map, List.foldl]
    rw [addInto_solo b n c h]
    exact ih _ (by simp [h])

/-- a fold started from `b` = `b` plus the fold started from zero -/
theorem foldl_addInto_split (n : Nat) (cs : List Buf) (b : Buf) (h : b.length = n) :
    cs.foldl addInto b = addInto b (tick n cs) := by
  induction cs generalizing b with
  | nil => simp [tick, addInto_zeros]
  | cons c cs ih =>
    simp only [List.foldl, tick]
    rw [ih (addInto b c) (by simp [h]), ih (addInto (zeros n) c) (by simp)]
    rw [addInto_addInto b _ _ (by simp [h]), ← solo_eq, addInto_solo b n c h]

/-! ### pointwise value -/

theorem getD_addInto (b c : Buf) (i : Nat) (h : i < b.length) :
    (addInto b c).getD i 0 = b.getD i 0 + c.getD i 0 := by
  induction b generalizing c i with
  | nil => simp at h
  | cons x b ih =>
    cases c with
    | nil => simp
    | cons y c =>
      cases i with
      | zero => simp [addInto]
      | succ i =>
        have h' : i < b.length := by simpa using h
        simpa [addInto] using ih c i h'

/-! ### sums of integers under floor division -/

theorem sum_div_bounds (d : Int) (hd : 0 < d) (xs : List Int) :
    d * (xs.map (· / d)).sum ≤ xs.sum ∧ xs.sum < d * (xs.map (· / d)).sum + xs.length * d ∨ xs = [] := by
  induction xs with
  | nil => right; rfl
  | cons x xs ih =>
    left
    have h1 : d * (x / d) ≤ x := Int.mul_ediv_self_le (Int.ne_of_gt hd)
    have h2 : x < d * (x / d) + d := Int.lt_mul_ediv_self_add hd
    simp only [List.map, List.sum_cons, List.length_cons, Int.mul_add]
    rcases ih with ⟨a, b⟩ | e
    · constructor
      · omega
      · have : ((xs.length + 1 : Nat) : Int) * d = xs.length * d + d := by
          rw [Int.natCast_add, Int.add_mul]; simp
        omega
    · subst e
      simp
      omega

/-! ### left/right mirror -/

def KArgs.swap (k : KArgs) : KArgs :=
  { k with vl := k.vr, vr := k.vl, oldVl := k.oldVr, oldVr := k.oldVl, dl := k.dr, dr := k.dl }

@[simp] theorem swapF_nil : swapF [] = [] := rfl
@[simp] theorem swapF_cons (p : Int × Int) (l) : swapF (p :: l) = p.swap :: swapF l := rfl
@[simp] theorem swapF_length (l) : (swapF l).length = l.length := by simp [swapF]
@[simp] theorem swapF_swapF (l) : swapF (swapF l) = l := by
  induction l with
  | nil => rfl
  | cons p l ih => simp [ih]

theorem swapF_append (a b) : swapF (a ++ b) = swapF a ++ swapF b := by simp [swapF]
theorem swapF_take (a) (n : Nat) : swapF (a.take n) = (swapF a).take n := by simp [swapF, List.map_take]
theorem swapF_drop (a) (n : Nat) : swapF (a.drop n) = (swapF a).drop n := by simp [swapF, List.map_drop]
theorem swapF_replicate_zero (n : Nat) : swapF (List.replicate n (0, 0)) = List.replicate n (0, 0) := by
  simp [swapF, Prod.swap]

theorem kernelAux_swap (k : KArgs) (nAC i : Nat) (smps : List (Int × Int)) :
    kernelAux k.swap nAC i (swapF smps) = swapF (kernelAux k nAC i smps) := by
  induction smps generalizing i with
  | nil => rfl
  | cons p rest ih =>
    obtain ⟨sl, sr⟩ := p
    simp only [swapF_cons, Prod.swap, kernelAux, ih]
    split <;> simp [KArgs.swap]

theorem kernel_swap (k : KArgs) (smps : List (Int × Int)) :
    kernel k.swap (swapF smps) = swapF (kernel k smps) := by
  simp only [kernel, swapF_length]
  exact kernelAux_swap k _ 0 smps

theorem zipAdd_swap (a b : List (Int × Int)) :
    List.zipWith (fun a b => (a.1 + b.1, a.2 + b.2)) (swapF a) (swapF b)
      = swapF (List.zipWith (fun a b => (a.1 + b.1, a.2 + b.2)) a b) := by
  induction a generalizing b with
  | nil => simp
  | cons x a ih =>
    cases b with
    | nil => simp
    | cons y b => simp [ih, Prod.swap]

theorem addAt_swap (buf : List (Int × Int)) (off : Nat) (fr : List (Int × Int)) :
    addAt (swapF buf) off (swapF fr) = swapF (addAt buf off fr) := by
  simp only [addAt, swapF_append, swapF_take, swapF_drop, swapF_length]
  rw [← swapF_drop, zipAdd_swap, swapF_drop]

theorem anticlickRamp_swap (count : Nat) (sl sr : Int) :
    anticlickRamp count sr sl = swapF (anticlickRamp count sl sr) := by
  unfold anticlickRamp
  by_cases h : sl = 0 ∧ sr = 0
  · have h' : sr = 0 ∧ sl = 0 := ⟨h.2, h.1⟩
    simp [h]
  · have h' : ¬ (sr = 0 ∧ sl = 0) := fun c => h ⟨c.2, c.1⟩
    simp only [h, h', if_false, swapF, List.map_map]
    apply List.map_congr_left
    intro j _
    simp [anticlickStep, Prod.swap]

theorem lastOr_swap (l : List (Int × Int)) : lastOr (swapF l) (0, 0) = (lastOr l (0, 0)).swap := by
  simp only [lastOr, swapF, List.getLast?_map]
  cases l.getLast? <;> simp [Prod.swap]

theorem kernel_swap' (a b c d e f : Int) (rs : Nat) (ac : Bool) (lsh : Nat) (smps : List (Int × Int)) :
    kernel ⟨b, a, d, c, f, e, rs, ac, lsh⟩ (swapF smps) = swapF (kernel ⟨a, b, c, d, e, f, rs, ac, lsh⟩ smps) :=
  kernel_swap ⟨a, b, c, d, e, f, rs, ac, lsh⟩ smps

theorem spanMix_swap (i : VIn) (dl dr : Int) (lp : Loop) (sg : Seg) :
    spanMix i.mirror dr dl lp.swap sg.swap = (spanMix i dl dr lp sg).swap := by
  unfold spanMix
  have hc : (dr = 0 ∧ dl = 0) ↔ (dl = 0 ∧ dr = 0) := And.comm
  simp only [VIn.mirror, Seg.swap, Loop.swap, swapF_length, hc]
  split
  · simp only [kernel_swap', lastOr_swap, addAt_swap, Prod.swap]
  · trivial

theorem spanAc_swap (cfg : TickCfg) (lp : Loop) (sg : Seg) :
    spanAc cfg lp.swap sg.swap = (spanAc cfg lp sg).swap := by
  unfold spanAc
  simp only [Seg.swap]
  cases sg.acAfter with
  | none => rfl
  | some size =>
    simp only [Loop.swap]
    rw [anticlickRamp_swap _ lp.sleft lp.sright, addAt_swap]

theorem spanStop_swap (lp : Loop) (sg : Seg) : spanStop lp.swap sg.swap = (spanStop lp sg).swap := by
  unfold spanStop
  simp only [Seg.swap]
  by_cases h : sg.stop = true <;> simp [h, Loop.swap]

theorem segStep_swap (cfg : TickCfg) (i : VIn) (dl dr : Int) (lp : Loop) (sg : Seg) :
    segStep cfg i.mirror dr dl lp.swap sg.swap = (segStep cfg i dl dr lp sg).swap := by
  simp only [segStep, spanMix_swap, spanAc_swap, spanStop_swap]

theorem foldl_segStep_swap (cfg : TickCfg) (i : VIn) (dl dr : Int) (segs : List Seg) (lp : Loop) :
    (segs.map Seg.swap).foldl (segStep cfg i.mirror dr dl) lp.swap
      = (segs.foldl (segStep cfg i dl dr) lp).swap := by
  induction segs generalizing lp with
  | nil => rfl
  | cons sg segs ih => simp only [List.map, List.foldl, segStep_swap, ih]

theorem volLR_neg (vol pan : Int) (h1 : pan ≠ PAN_SURROUND) (h2 : -pan ≠ PAN_SURROUND) :
    volLR vol (-pan) = (volLR vol pan).swap := by
  simp only [volLR, h1, h2, if_false, Prod.swap]
  congr 1 <;> congr 1 <;> omega

/-! ### silence -/

@[simp] theorem anticlickRamp_zero (count : Nat) : anticlickRamp count 0 0 = [] := by
  simp [anticlickRamp]

@[simp] theorem addAt_nil (buf : List (Int × Int)) (off : Nat) : addAt buf off [] = buf := by
  simp [addAt]

/-- the loop state carries no residue and has added nothing to `z` -/
def Loop.Quiet (z : List (Int × Int)) (lp : Loop) : Prop := lp.buf = z ∧ lp.sleft = 0 ∧ lp.sright = 0

theorem segStep_quiet (cfg : TickCfg) (i : VIn) (hv : i.vol = 0) (dl dr : Int) (z) (lp : Loop) (sg : Seg)
    (h : lp.Quiet z) : (segStep cfg i dl dr lp sg).Quiet z := by
  obtain ⟨hb, hl, hr⟩ := h
  have h1 : spanMix i dl dr lp sg = lp := by simp [spanMix, hv]
  simp only [segStep, h1]
  have h2 : (spanAc cfg lp sg).Quiet z := by
    unfold spanAc
    cases sg.acAfter with
    | none => exact ⟨hb, hl, hr⟩
    | some size => simp [Loop.Quiet, hl, hr, hb]
  unfold spanStop
  split
  · exact ⟨h2.1, h2.2.1, h2.2.2⟩
  · exact h2

theorem foldl_segStep_quiet (cfg : TickCfg) (i : VIn) (hv : i.vol = 0) (dl dr : Int) (z) (segs : List Seg) (lp : Loop)
    (h : lp.Quiet z) : (segs.foldl (segStep cfg i dl dr) lp).Quiet z := by
  induction segs generalizing lp with
  | nil => exact h
  | cons sg segs ih => exact ih _ (segStep_quiet cfg i hv dl dr z lp sg h)

theorem interleave_replicate_zero (n : Nat) : interleave (List.replicate n (0, 0)) = zeros (2 * n) := by
  induction n with
  | zero => rfl
  | succ n ih =>
    have : 2 * (n + 1) = (2 * n + 1) + 1 := by omega
    rw [List.replicate_succ, interleave, ih, this]
    simp [zeros, List.replicate_succ, toAcc]

theorem foldl_addInto_zero (cs : List Buf) (h : ∀ c ∈ cs, ∃ k, c = zeros k) (b : Buf) :
    cs.foldl addInto b = b := by
  induction cs generalizing b with
  | nil => rfl
  | cons c cs ih =>
    obtain ⟨k, hk⟩ := h c (List.mem_cons_self)
    simp only [List.foldl, hk, addInto_zeros]
    exact ih (fun c hc => h c (List.mem_cons_of_mem _ hc)) b

/-! ### wrapping sums vs integer sums -/

def accSum (as : List Acc) : Acc := as.foldl (· + ·) 0

theorem acc_zero_add (a : Acc) : (0 : Acc) + a = a := BitVec.zero_add a
theorem acc_add_zero (a : Acc) : a + (0 : Acc) = a := BitVec.add_zero a

theorem foldl_add_acc (as : List Acc) (b : Acc) : as.foldl (· + ·) b = b + accSum as := by
  induction as generalizing b with
  | nil => simp [accSum, acc_add_zero]
  | cons a as ih =>
    simp only [List.foldl, accSum]
    rw [ih (b + a), ih (0 + a), acc_zero_add, BitVec.add_assoc]

theorem accSum_cons (a : Acc) (as : List Acc) : accSum (a :: as) = a + accSum as := by
  simp only [accSum, List.foldl]
  rw [foldl_add_acc, acc_zero_add]
  rfl

theorem accSum_toInt (as : List Acc) :
    (accSum as).toInt = ((as.map BitVec.toInt).sum).bmod (2 ^ 32) := by
  induction as with
  | nil => simp [accSum]
  | cons a as ih =>
    rw [accSum_cons, BitVec.toInt_add, ih]
    simp [List.sum_cons]

theorem tdiv100_bounds (t : Int) (h : -12800 ≤ t ∧ t ≤ 12800) :
    -128 ≤ t.tdiv 100 ∧ t.tdiv 100 ≤ 128 := by
  rcases Int.le_total 0 t with ht | ht
  · rw [Int.tdiv_eq_ediv_of_nonneg ht]; omega
  · have : t = -(-t) := by omega
    rw [this, Int.neg_tdiv, Int.tdiv_eq_ediv_of_nonneg (by omega)]; omega

end Xmp.MixLinear
