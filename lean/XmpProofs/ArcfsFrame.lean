import XmpProofs.LhaFrame
import XmpModel.ArcfsFrame
/-!
Byte-level framing of ArcFS archives: `arcfsRead` (model of `arcfs_read`) on an archive written by `arcfsWrap`.
-/
namespace Xmp.Container
open Xmp Xmp.Gen.Depackers

structure ArcfsMember.Legal (m : ArcfsMember) : Prop where
  nameLen : m.name.length ≤ 11
  nameNul : noNul m.name
  meth : m.method % 128 = 2 ∨ m.method % 128 = 3
  methHi : m.method < 256
  dlen : m.data.length < 2 ^ 32
  clen : m.cdata.length < 2 ^ 32
  load : m.load < 2 ^ 32
  exec : m.exec < 2 ^ 32
  packed : m.method % 128 = 3 → (∀ t ∈ m.toks, t.Ok) ∧ expand m.toks = m.data

theorem cstr_pad (name : Bytes) (hn : noNul name) (k : Nat) : cstr (name ++ List.replicate k 0) = name := by
  cases k with
  | zero => simp [cstr_self name hn]
  | succ k => rw [List.replicate_succ]; exact cstr_nul name _ hn

theorem arcfsEntry_length (crc : Bytes → UInt16) (m : ArcfsMember) (vo : Nat) (hm : m.Legal) :
    (arcfsEntry crc m vo).length = 36 := by
  have := hm.nameLen
  unfold arcfsEntry
  simp only [List.length_append, le16_length, le32_length, List.length_cons, List.length_nil, List.length_replicate]
  omega

def arcfsSpec (crc : Bytes → UInt16) (m : ArcfsMember) (vo : Nat) : ArcfsEntry :=
  { method := m.method % 128, filename := m.name, usize := m.data.length, bits := m.bits.toNat,
    crc := (crc m.data).toNat, csize := m.cdata.length, valueOfs := vo, isDir := false }

theorem bAt_head1 (x : UInt8) (r : Bytes) : bAt (([x] : Bytes) ++ r) 0 = x.toNat := by simp [bAt]

theorem arcfsEntryAt_entry (crc : Bytes → UInt16) (f : Bytes) (ofs vo : Nat) (m : ArcfsMember) (tail : Bytes)
    (hm : m.Legal) (hvo : vo < 2 ^ 31) (h : f.drop ofs = arcfsEntry crc m vo ++ tail) :
    arcfsEntryAt f ofs = arcfsSpec crc m vo := by
  have hnl := hm.nameLen
  have hmb : (UInt8.ofNat m.method).toNat = m.method := by
    rw [UInt8.toNat_ofNat']; have := hm.methHi; omega
  have hN : (m.name ++ List.replicate (11 - m.name.length) (0 : UInt8)).length = 11 := by simp; omega
  have h' : f.drop ofs = ([UInt8.ofNat m.method] : Bytes) ++ ((m.name ++ List.replicate (11 - m.name.length) 0) ++
      (le32 m.data.length ++ (le32 m.load ++ (le32 m.exec ++ (([m.perms, m.bits] : Bytes) ++
      (le16 (crc m.data).toNat ++ (le32 m.cdata.length ++ (le32 vo ++ tail)))))))) := by
    rw [h]; unfold arcfsEntry; simp only [List.append_assoc]
  have e0 : bAt f ofs = m.method := by
    have := bAt_drop f ofs 0
    rw [Nat.add_zero] at this
    rw [← this, h', bAt_head1, hmb]
  have ename : (f.drop (ofs + 1)).take 11 = m.name ++ List.replicate (11 - m.name.length) 0 := by
    rw [← List.drop_drop, h']
    rw [List.drop_left' (by rfl : ([UInt8.ofNat m.method] : Bytes).length = 1), List.take_left' hN]
  have e12 : u32At f (ofs + 12) = m.data.length := by
    rw [u32At_drop', h']
    rw [show (12 : Nat) = 11 + 1 from rfl, u32At_skip _ _ _ 1 rfl, show (11 : Nat) = 0 + 11 from rfl,
      u32At_skip _ _ 0 11 hN]
    exact u32At_le32 _ hm.dlen _
  have e25 : bAt f (ofs + 25) = m.bits.toNat := by
    rw [← bAt_drop, h']
    rw [show (25 : Nat) = 24 + 1 from rfl, bAt_skip _ _ _ 1 rfl, show (24 : Nat) = 13 + 11 from rfl,
      bAt_skip _ _ 13 11 hN]
    simp only [bAt_s32]
    exact bAt_pair1 _ _ _
  have e26 : u16At f (ofs + 26) = (crc m.data).toNat := by
    rw [u16At_drop', h']
    rw [show (26 : Nat) = 25 + 1 from rfl, u16At_skip _ _ _ 1 rfl, show (25 : Nat) = 14 + 11 from rfl,
      u16At_skip _ _ 14 11 hN]
    simp only [u16At_s32, u16At_s2]
    exact u16At_le16 _ (by have := (crc m.data).toNat_lt; omega) _
  have e28 : u32At f (ofs + 28) = m.cdata.length := by
    rw [u32At_drop', h']
    rw [show (28 : Nat) = 27 + 1 from rfl, u32At_skip _ _ _ 1 rfl, show (27 : Nat) = 16 + 11 from rfl,
      u32At_skip _ _ 16 11 hN]
    simp only [u32At_s32, u32At_s2, u32At_s16]
    exact u32At_le32 _ hm.clen _
  have e32 : u32At f (ofs + 32) = vo := by
    rw [u32At_drop', h']
    rw [show (32 : Nat) = 31 + 1 from rfl, u32At_skip _ _ _ 1 rfl, show (31 : Nat) = 20 + 11 from rfl,
      u32At_skip _ _ 20 11 hN]
    simp only [u32At_s32, u32At_s2, u32At_s16]
    exact u32At_le32 _ (by omega) _
  have e35 : bAt f (ofs + 35) / 128 = 0 := by
    rw [← bAt_drop, h']
    rw [show (35 : Nat) = 34 + 1 from rfl, bAt_skip _ _ _ 1 rfl, show (34 : Nat) = 23 + 11 from rfl,
      bAt_skip _ _ 23 11 hN]
    simp only [bAt_s32, bAt_s2, bAt_s16]
    simp only [bAt, le32, List.cons_append, List.getD_cons_succ, List.getD_cons_zero, UInt8.toNat_ofNat']
    omega
  unfold arcfsEntryAt arcfsSpec
  rw [e0, ename, e12, e25, e26, e28, e32, e35, cstr_pad m.name hm.nameNul]
  have : vo % 2147483648 = vo := Nat.mod_eq_of_lt (by omega)
  simp [this]


/-- value offsets of all members stay below 2^31 (bit 31 of the info word marks a directory) -/
def VoOk : Nat → List ArcfsMember → Prop
  | _, [] => True
  | vo, m :: ms => vo < 2 ^ 31 ∧ VoOk (vo + m.cdata.length) ms

theorem arcfs_supported23 (k : Nat) (h : k = 2 ∨ k = 3) : arcSupported.contains k = true := by
  rcases h with h | h <;> subst h <;> decide

/-- every skip branch of the loop continues identically, so an excluded member is passed over whatever else
    holds for it -/
theorem arcfsWalk_skip_one (crc : Bytes → UInt16) (dec : Nat → Nat → Bytes → Nat → Option Bytes) (f : Bytes)
    (dataOfs n ofs : Nat) (hex : excludeMatch (arcfsEntryAt f ofs).filename = true) :
    arcfsWalk crc dec f dataOfs (n + 1) ofs = arcfsWalk crc dec f dataOfs n (ofs + arcfsEntrySize) := by
  rw [arcfsWalk]
  simp only [hex, if_true]
  repeat (first | rfl | split)

theorem arcfsWalk_skip (crc : Bytes → UInt16) (dec : Nat → Nat → Bytes → Nat → Option Bytes) (f : Bytes) (dataOfs : Nat)
    (pre : List ArcfsMember) : ∀ (ofs vo n : Nat) (T : Bytes),
    f.drop ofs = arcfsEntries crc vo pre ++ T → VoOk vo pre →
    (∀ x ∈ pre, x.Legal ∧ excludeMatch x.name = true) →
    arcfsWalk crc dec f dataOfs (n + pre.length) ofs = arcfsWalk crc dec f dataOfs n (ofs + arcfsEntrySize * pre.length) := by
  induction pre with
  | nil => intro ofs vo n T _ _ _; simp
  | cons x pre ih =>
    intro ofs vo n T h hvo hpre
    obtain ⟨hx, hex⟩ := hpre x (by simp)
    simp only [arcfsEntries, List.append_assoc] at h
    have hspec := arcfsEntryAt_entry crc f ofs vo x _ hx hvo.1 h
    have hfu : n + (x :: pre).length = (n + pre.length) + 1 := by simp; omega
    rw [hfu, arcfsWalk_skip_one crc dec f dataOfs _ ofs (by rw [hspec]; exact hex)]
    have h2 : f.drop (ofs + arcfsEntrySize) = arcfsEntries crc (vo + x.cdata.length) pre ++ T := by
      rw [← List.drop_drop, h, show arcfsEntrySize = 36 from rfl, List.drop_left' (arcfsEntry_length crc x vo hx)]
    rw [ih (ofs + arcfsEntrySize) _ n T h2 hvo.2 (fun y hy => hpre y (by simp [hy]))]
    congr 1
    simp only [List.length_cons, arcfsEntrySize]; omega

theorem arcfsWalk_hit (crc : Bytes → UInt16) (dec : Nat → Nat → Bytes → Nat → Option Bytes) (f : Bytes)
    (dataOfs ofs vo n : Nat) (m : ArcfsMember) (T T2 : Bytes)
    (h : f.drop ofs = arcfsEntry crc m vo ++ T) (hd : f.drop (dataOfs + vo) = m.cdata ++ T2)
    (hm : m.Legal) (hvo : vo < 2 ^ 31) (hx : excludeMatch m.name = false) (hlim : m.data.length ≤ depackLimit)
    (hc0 : 0 < m.cdata.length) :
    arcfsWalk crc dec f dataOfs (n + 1) ofs = some m.data := by
  have hspec := arcfsEntryAt_entry crc f ofs vo m T hm hvo h
  have hflen : dataOfs + vo + m.cdata.length ≤ f.length := by
    have := congrArg List.length hd
    simp only [List.length_drop, List.length_append] at this
    omega
  rw [arcfsWalk, hspec]
  simp only [arcfsSpec]
  have hmeth := hm.meth
  have h01 : ¬ (m.method % 128 = 0 ∨ m.method % 128 = 1 ∨ false = true) := by simp; omega
  simp only [h01, if_false]
  have c1 : ¬ vo ≥ f.length - dataOfs := by omega
  have c3 : ¬ m.data.length > depackLimit := by omega
  have c4 : (!(arcSupported.contains (m.method % 128))) = false := by
    rw [arcfs_supported23 _ hmeth]; rfl
  by_cases hp : m.method % 128 = 3
  · obtain ⟨hok, hexp⟩ := hm.packed hp
    have hn2 : ¬ m.method % 128 = arcUnpacked := by simp only [arcUnpacked]; omega
    have hcd : m.cdata = render m.toks := by simp [ArcfsMember.cdata, arcPacked, hp]
    have hun : unrle90 m.data.length m.cdata = some m.data := by
      rw [hcd, ← hexp]; exact unrle90_render m.toks hok
    have c2 : ¬ m.cdata.length > f.length - (dataOfs + vo) := by omega
    simp only [hn2, if_false, c1, c2, c3, c4, hx, Bool.false_eq_true]
    rw [hd, List.take_left' rfl]
    simp only [arcPacked, hp, if_true, hun]
    simp
  · have h2 : m.method % 128 = arcUnpacked := by simp only [arcUnpacked]; omega
    have hcd : m.cdata = m.data := by simp [ArcfsMember.cdata, arcPacked, hp]
    have c2 : ¬ m.data.length > f.length - (dataOfs + vo) := by rw [← hcd]; omega
    have c4' : (!(arcSupported.contains arcUnpacked)) = false := by decide
    simp only [h2, if_true, c1, c2, c3, c4', hx, if_false, Bool.false_eq_true]
    rw [hd, hcd, List.take_left' rfl]
    simp

theorem arcfsEntries_length (crc : Bytes → UInt16) (ms : List ArcfsMember) : ∀ vo, (∀ x ∈ ms, x.Legal) →
    (arcfsEntries crc vo ms).length = 36 * ms.length := by
  induction ms with
  | nil => intro vo _; rfl
  | cons x ms ih =>
    intro vo h
    simp only [arcfsEntries, List.length_append, arcfsEntry_length crc x vo (h x (by simp)),
      ih _ (fun y hy => h y (by simp [hy])), List.length_cons]
    omega

theorem arcfsEntries_append (crc : Bytes → UInt16) (a b : List ArcfsMember) : ∀ vo,
    arcfsEntries crc vo (a ++ b) = arcfsEntries crc vo a ++ arcfsEntries crc (vo + (arcfsBlob a).length) b := by
  induction a with
  | nil => intro vo; simp [arcfsEntries, arcfsBlob]
  | cons x a ih =>
    intro vo
    simp only [List.cons_append, arcfsEntries, ih, List.append_assoc, arcfsBlob, List.flatMap_cons, List.length_append]
    congr 3
    omega

theorem voOk_append (a b : List ArcfsMember) : ∀ vo, VoOk vo (a ++ b) → VoOk vo a ∧ VoOk (vo + (arcfsBlob a).length) b := by
  induction a with
  | nil => intro vo h; simpa [VoOk, arcfsBlob] using h
  | cons x a ih =>
    intro vo h
    obtain ⟨h1, h2⟩ := h
    obtain ⟨h3, h4⟩ := ih _ h2
    refine ⟨⟨h1, h3⟩, ?_⟩
    simp only [arcfsBlob, List.flatMap_cons, List.length_append] at h4 ⊢
    rw [← Nat.add_assoc]; exact h4

/-- **ArcFS framing**: header checks, entry table walk over excluded members (any number, stored or packed),
    value offsets into the data area, stored + RLE90 methods, CRC-16 gate -/
theorem arcfsRead_wrap (crc : Bytes → UInt16) (dec : Nat → Nat → Bytes → Nat → Option Bytes)
    (pre post : List ArcfsMember) (m : ArcfsMember) (pad : Nat)
    (hl : ∀ x ∈ pre ++ m :: post, x.Legal) (hvo : VoOk 0 (pre ++ m :: post))
    (hcount : 36 * ((pre ++ m :: post).length + pad) + 96 < 2 ^ 32)
    (hpre : ∀ x ∈ pre, excludeMatch x.name = true) (hx : excludeMatch m.name = false)
    (hlim : m.data.length ≤ depackLimit) (hc0 : 0 < m.cdata.length) :
    arcfsRead crc dec (arcfsWrap crc (pre ++ m :: post) pad) = some m.data := by
  have hlpre : ∀ x ∈ pre, x.Legal := fun x hx' => hl x (by simp [hx'])
  have hlm : m.Legal := hl m (by simp)
  generalize hms : pre ++ m :: post = ms at *
  have helen : (arcfsEntries crc 0 ms).length = 36 * ms.length := arcfsEntries_length crc ms 0 hl
  -- layout of the file
  have hfile : arcfsWrap crc ms pad =
      (([0x41, 0x72, 0x63, 0x68, 0x69, 0x76, 0x65, 0] : Bytes) ++ (le32 (36 * (ms.length + pad)) ++
        (le32 (96 + 36 * (ms.length + pad)) ++ (le32 260 ++ (le32 260 ++ (le32 10 ++ List.replicate 68 0)))))) ++
      (arcfsEntries crc 0 ms ++ (List.replicate (36 * pad) 0 ++ arcfsBlob ms)) := by
    unfold arcfsWrap
    simp only [arcfsEntrySize, arcfsHeaderSize, List.append_assoc]
  generalize hH : (([0x41, 0x72, 0x63, 0x68, 0x69, 0x76, 0x65, 0] : Bytes) ++ (le32 (36 * (ms.length + pad)) ++
        (le32 (96 + 36 * (ms.length + pad)) ++ (le32 260 ++ (le32 260 ++ (le32 10 ++ List.replicate 68 0)))))) = H at hfile
  have hHl : H.length = 96 := by
    rw [← hH]; simp only [List.length_append, le32_length, List.length_replicate]; rfl
  have hmagic : memEqAt (arcfsWrap crc ms pad) 0 [0x41, 0x72, 0x63, 0x68, 0x69, 0x76, 0x65, 0] = true := by
    rw [hfile, ← hH]; simp [memEqAt, bAt]
  have hfl : (arcfsWrap crc ms pad).length = 96 + 36 * (ms.length + pad) + (arcfsBlob ms).length := by
    rw [hfile]; simp only [List.length_append, hHl, helen, List.length_replicate]; omega
  have e8 : u32At (arcfsWrap crc ms pad) 8 = 36 * (ms.length + pad) := by
    rw [hfile, ← hH]; simp only [List.append_assoc]
    rw [show (8 : Nat) = 0 + 8 from rfl, u32At_skip _ _ 0 8 rfl]
    exact u32At_le32 _ (by omega) _
  have e12 : u32At (arcfsWrap crc ms pad) 12 = 96 + 36 * (ms.length + pad) := by
    rw [hfile, ← hH]; simp only [List.append_assoc]
    rw [show (12 : Nat) = 4 + 8 from rfl, u32At_skip _ _ 4 8 rfl]
    simp only [u32At_s32]
    exact u32At_le32 _ (by omega) _
  have e16 : u32At (arcfsWrap crc ms pad) 16 = 260 := by
    rw [hfile, ← hH]; simp only [List.append_assoc]
    rw [show (16 : Nat) = 8 + 8 from rfl, u32At_skip _ _ 8 8 rfl]
    simp only [u32At_s32]
    exact u32At_le32 _ (by decide) _
  have e20 : u32At (arcfsWrap crc ms pad) 20 = 260 := by
    rw [hfile, ← hH]; simp only [List.append_assoc]
    rw [show (20 : Nat) = 12 + 8 from rfl, u32At_skip _ _ 12 8 rfl]
    simp only [u32At_s32]
    exact u32At_le32 _ (by decide) _
  have e24 : u32At (arcfsWrap crc ms pad) 24 = 10 := by
    rw [hfile, ← hH]; simp only [List.append_assoc]
    rw [show (24 : Nat) = 16 + 8 from rfl, u32At_skip _ _ 16 8 rfl]
    simp only [u32At_s32]
    exact u32At_le32 _ (by decide) _
  unfold arcfsRead
  simp only [e8, e12, e16, e20, e24, hmagic, arcfsHeaderSize, arcfsEntrySize]
  have c0 : ¬ (arcfsWrap crc ms pad).length < 96 := by omega
  have c1 : ¬ (36 * (ms.length + pad)) % 36 ≠ 0 := by simp
  have c2 : ¬ (96 + 36 * (ms.length + pad) < 96 ∨ 96 + 36 * (ms.length + pad) - 96 < 36 * (ms.length + pad)) := by omega
  have c3 : ¬ (260 > 260 ∨ 260 > 260 ∨ 10 > 10) := by decide
  have c4 : ¬ 96 + 36 * (ms.length + pad) > (arcfsWrap crc ms pad).length := by omega
  simp only [c0, c1, c2, c3, c4, if_false, Bool.not_true, Bool.false_eq_true]
  have hdiv : 36 * (ms.length + pad) / 36 = ms.length + pad := by omega
  rw [hdiv]
  -- the walk
  have hsplit := arcfsEntries_append crc pre (m :: post) 0
  rw [hms] at hsplit
  obtain ⟨hvo1, hvo2⟩ := voOk_append pre (m :: post) 0 (by rw [hms]; exact hvo)
  have hlen : ms.length = pre.length + (post.length + 1) := by rw [← hms]; simp
  have hdropE : (arcfsWrap crc ms pad).drop 96 =
      arcfsEntries crc 0 pre ++ (arcfsEntries crc (0 + (arcfsBlob pre).length) (m :: post) ++
        (List.replicate (36 * pad) 0 ++ arcfsBlob ms)) := by
    rw [hfile, List.drop_left' hHl, hsplit, List.append_assoc]
  have hpl : (arcfsEntries crc 0 pre).length = 36 * pre.length := arcfsEntries_length crc pre 0 hlpre
  have hblob : arcfsBlob ms = arcfsBlob pre ++ (m.cdata ++ arcfsBlob post) := by
    rw [← hms]; simp [arcfsBlob, List.flatMap_append]
  have hdata : (arcfsWrap crc ms pad).drop (96 + 36 * (ms.length + pad) + (0 + (arcfsBlob pre).length)) =
      m.cdata ++ arcfsBlob post := by
    have hpre2 : (H ++ (arcfsEntries crc 0 ms ++ List.replicate (36 * pad) 0) ++ arcfsBlob pre).length =
        96 + 36 * (ms.length + pad) + (0 + (arcfsBlob pre).length) := by
      simp only [List.length_append, hHl, helen, List.length_replicate]; omega
    rw [hfile, hblob]
    have : H ++ (arcfsEntries crc 0 ms ++ (List.replicate (36 * pad) 0 ++ (arcfsBlob pre ++ (m.cdata ++ arcfsBlob post)))) =
        (H ++ (arcfsEntries crc 0 ms ++ List.replicate (36 * pad) 0) ++ arcfsBlob pre) ++ (m.cdata ++ arcfsBlob post) := by
      simp only [List.append_assoc]
    rw [this, List.drop_left' hpre2]
  have hentry : (arcfsWrap crc ms pad).drop (96 + arcfsEntrySize * pre.length) =
      arcfsEntry crc m (0 + (arcfsBlob pre).length) ++
        (arcfsEntries crc (0 + (arcfsBlob pre).length + m.cdata.length) post ++
          (List.replicate (36 * pad) 0 ++ arcfsBlob ms)) := by
    have : 96 + arcfsEntrySize * pre.length = 96 + (arcfsEntries crc 0 pre).length := by rw [hpl]; rfl
    rw [this, ← List.drop_drop, hdropE, List.drop_left]
    simp only [arcfsEntries, List.append_assoc]
  generalize arcfsWrap crc ms pad = F at *
  generalize 96 + 36 * (ms.length + pad) = D at *
  have hn : ms.length + pad = (post.length + pad + 1) + pre.length := by omega
  rw [hn, arcfsWalk_skip crc dec F D pre 96 0 _ _ hdropE hvo1 (fun x hx' => ⟨hlpre x hx', hpre x hx'⟩)]
  exact arcfsWalk_hit crc dec F D _ (0 + (arcfsBlob pre).length) _ m _ (arcfsBlob post) hentry hdata hlm hvo2.1 hx hlim hc0

end Xmp.Container
