import XmpModel.LoadPostHdr
import XmpProofs.LoadPost
/-!
# The four core loaders' header validation ⇒ the count obligations (C03)
-/
namespace Xmp.LoadPost.Hdr
open Xmp.Gen.Limits Xmp.Gen.C03Hdr

/-- The facts about the generated loader limits the count theorems rest on.  It is
re-proved (by evaluation) against the limits regenerated from the loader sources
on every run: loosening a loader's check beyond what the common path supports
makes this theorem — and with it the check — fail. -/
theorem hdrLimits_sane :
    modIns ≤ epiInsMax ∧ modIns ≤ maxSamples ∧ modChnReject ≤ xmpMaxChannels + 1 ∧ modOrderStop + 1 ≤ epiPatMax
    ∧ modOrders ≤ xmpMaxModLength ∧ 1 ≤ modRows ∧ modRows ≤ helperRowsMax
    ∧ s3mOrdMax ≤ xmpMaxModLength ∧ s3mInsMax ≤ epiInsMax ∧ s3mInsMax ≤ maxSamples ∧ s3mPatMax ≤ epiPatMax
    ∧ s3mChannels ≤ xmpMaxChannels ∧ 1 ≤ s3mRows ∧ s3mRows ≤ helperRowsMax
    ∧ xmLenMax ≤ xmpMaxModLength ∧ xmPatMax + 1 ≤ epiPatMax ∧ xmInsMax ≤ epiInsMax ∧ xmChnMax ≤ xmpMaxChannels
    ∧ xmRowsMax ≤ helperRowsMax ∧ 1 ≤ xmRowsZero ∧ xmRowsZero ≤ helperRowsMax ∧ 1 ≤ xmExtraRows
    ∧ itInsMax ≤ epiInsMax ∧ itSmpMax ≤ maxSamples ∧ itSmpMax ≤ epiInsMax ∧ itPatMax ≤ epiPatMax
    ∧ itChannelMask + 1 ≤ xmpMaxChannels ∧ 1 ≤ itEmptyRows ∧ helperRowsMax = 256 := by
  decide

/-- every channel count in `mod_magic[]` is positive and below the loader's own limit -/
theorem modMagic_sane : ∀ e ∈ modMagic, 0 < e.2.2 ∧ e.2.2 < modChnReject := by decide

theorem foldl_max_le (l : List Nat) (a b : Nat) (ha : a ≤ b) (h : ∀ x ∈ l, x ≤ b) : l.foldl max a ≤ b := by
  induction l generalizing a with
  | nil => exact ha
  | cons x rest ih =>
    simp only [List.foldl_cons]
    apply ih
    · have := h x (by simp); omega
    · intro y hy; exact h y (List.mem_cons_of_mem _ hy)

theorem mem_takeWhile_prop {α} (p : α → Bool) (l : List α) (x : α) (h : x ∈ l.takeWhile p) : p x = true := by
  induction l with
  | nil => simp at h
  | cons a rest ih =>
    simp only [List.takeWhile_cons] at h
    split at h
    · rename_i hp
      rcases List.mem_cons.mp h with rfl | h'
      · exact hp
      · exact ih h'
    · simp at h

theorem modPat_le (orders : List Nat) : 1 ≤ modPat orders ∧ modPat orders ≤ modOrderStop + 1 := by
  unfold modPat
  have := foldl_max_le ((orders.take modOrders).takeWhile fun x => decide (x ≤ modOrderStop)) 0 modOrderStop
    (by omega) (by
      intro x hx
      have := mem_takeWhile_prop _ _ _ hx
      simpa using this)
  omega

theorem s3mChn_le (chset : List Nat) : s3mChn chset ≤ s3mChannels := by
  unfold s3mChn
  have : ∀ (l : List Nat) (a : Nat), a ≤ s3mChannels → (∀ i ∈ l, i < s3mChannels) →
      l.foldl (fun acc i => if chset.getD i 255 = 255 then acc else i + 1) a ≤ s3mChannels := by
    intro l
    induction l with
    | nil => intro a ha _; exact ha
    | cons x rest ih =>
      intro a ha hl
      simp only [List.foldl_cons]
      apply ih
      · split
        · exact ha
        · have := hl x (by simp); omega
      · intro i hi; exact hl i (List.mem_cons_of_mem _ hi)
  exact this _ 0 (by omega) (by intro i hi; exact List.mem_range.mp hi)

theorem s3mPat_le (orders : List Nat) (len patnum : Nat) : s3mPat orders len patnum ≤ patnum := by
  unfold s3mPat; exact Nat.min_le_right _ _

end Xmp.LoadPost.Hdr
