import XmpModel.LoadPostCore
/-!
# C03 × C19 — `SongOk s → LoaderOblig (toRaw L s x)` for every layout and every `Extra`

The format-independent half of `C03_core_*`: whatever song a reader returns, if its patterns have at least one row
and its names fit their arrays (`SongOk`), the raw module `toRaw L s x` meets every loader obligation of C03.
-/
namespace Xmp.LoadPost.Core
open Xmp Xmp.LoadPost Xmp.Gen.Limits

theorem allBelow_iff (n : Int) (p : Nat → Bool) : allBelow n p = true ↔ ∀ i, i < n.toNat → p i = true := by
  simp only [allBelow, List.all_eq_true, List.mem_range]

theorem clampC_nat_le (n M : Nat) : (clampC (n : Int) 0 (M : Int)).toNat ≤ n := by
  unfold clampC
  split
  · omega
  · split <;> omega

/-! ## names -/

theorem hasNul_arr (n : Nat) (s : Bytes) (h : s.length < n) : hasNul (arr n s) = true := by
  unfold hasNul arr
  rw [List.any_append, Bool.or_eq_true]
  right
  obtain ⟨k, hk⟩ : ∃ k, n - s.length = k + 1 := ⟨n - s.length - 1, by omega⟩
  rw [hk, List.replicate_succ]
  simp

theorem hasNul_typeArray (c : List UInt8) : hasNul (typeArray c) = true := by
  unfold typeArray
  apply hasNul_arr
  have : xmpNameSize = 64 := rfl
  rw [List.length_take]
  omega

/-! ## guard frames (C20's allocation) -/

theorem length_withGuards (fl : Nat) (pcm : Bytes) :
    (Sample.Spec.withGuards fl pcm).length = 4 + pcm.length + 4 * fl := by
  unfold Sample.Spec.withGuards
  simp only
  split
  · rename_i h; simp only [List.length_replicate]; omega
  · simp only [List.length_append, Sample.Spec.build, List.length_map, List.length_range]

theorem guardOf_true (flg len : Nat) (pcm : Bytes) (h : pcm = [] ∨ pcm.length = len * frameLen flg) :
    guardOf flg len pcm = true := by
  unfold guardOf
  rcases h with h | h
  · simp [h]
  · rw [length_withGuards, h]; simp

/-! ## envelopes: unsigned bytes are not negative -/

theorem envLower_toEnv (e : EnvB) : envLowerOblig e.toEnv = true := by
  unfold envLowerOblig EnvB.toEnv Envelope.ofFlg
  simp only [Bool.or_eq_true, Bool.and_eq_true, Bool.not_eq_true', decide_eq_true_eq]
  right
  refine ⟨?_, ?_⟩
  · right; exact ⟨Int.natCast_nonneg _, Int.natCast_nonneg _⟩
  · right; exact ⟨Int.natCast_nonneg _, Int.natCast_nonneg _⟩

/-! ## patterns and tracks -/

theorem trk_lt (L : Layout) (chn npat i j : Nat) (hi : i < npat) (hj : j < chn) :
    (if L.xmExtra = true ∧ i + 1 = npat then i * chn else i * chn + j) < trkCount L chn npat := by
  unfold trkCount
  have h1 : i * chn + j < (i + 1) * chn := by rw [Nat.succ_mul]; omega
  have h2 : (i + 1) * chn ≤ npat * chn := Nat.mul_le_mul_right chn (by omega)
  by_cases hx : L.xmExtra = true
  · simp only [hx, true_and, if_true]
    by_cases hl : i + 1 = npat
    · simp only [hl, if_true]
      have : npat - 1 = i := by omega
      rw [this]; omega
    · simp only [hl, if_false]
      have h3 : (i + 1) * chn ≤ (npat - 1) * chn := Nat.mul_le_mul_right chn (by omega)
      omega
  · simp only [hx, false_and, if_false, Bool.false_eq_true]
    omega

theorem trk_div (L : Layout) (chn npat i j : Nat) (hj : j < chn) :
    (if L.xmExtra = true ∧ i + 1 = npat then i * chn else i * chn + j) / chn = i := by
  have hc : 0 < chn := by omega
  split
  · exact Nat.mul_div_cancel i hc
  · rw [Nat.mul_comm, Nat.mul_add_div hc, Nat.div_eq_of_lt hj]; rfl

theorem rows_toRaw (L : Layout) (s : Song) (x : Extra) (h : ∀ p ∈ s.pats, 1 ≤ p.rows) :
    rowsOK (clampCounts (toRaw L s x)) = true := by
  unfold rowsOK
  rw [allBelow_iff]
  intro i hi
  have hip : i < s.pats.length := by
    have := clampC_nat_le s.pats.length epiPatMax
    simp only [clampCounts, toRaw] at hi
    omega
  have hpat : (clampCounts (toRaw L s x)).pattern? i = some (rawPattern L s.chn s.pats.length i s.pats[i]) := by
    simp only [Module.pattern?, clampCounts, toRaw, List.getElem?_mapIdx, List.getElem?_eq_getElem hip, Option.map_some,
      Option.join_some]
  rw [hpat]
  have hr : 1 ≤ s.pats[i].rows := h _ (List.getElem_mem hip)
  simp only [Bool.and_eq_true, decide_eq_true_eq]
  refine ⟨by simp only [rawPattern]; omega, ?_⟩
  rw [allBelow_iff]
  intro j hj
  have hjc : j < s.chn := by
    have := clampC_nat_le s.chn xmpMaxChannels
    simp only [clampCounts, toRaw] at hj
    omega
  have hidx : (rawPattern L s.chn s.pats.length i s.pats[i]).index[j]? =
      some (((if L.xmExtra = true ∧ i + 1 = s.pats.length then i * s.chn else i * s.chn + j : Nat)) : Int) := by
    simp only [rawPattern, List.getElem?_map, List.getElem?_range hjc, Option.map_some]
    split <;> rfl
  rw [hidx]
  generalize ht : (if L.xmExtra = true ∧ i + 1 = s.pats.length then i * s.chn else i * s.chn + j : Nat) = t
  have hlt : t < trkCount L s.chn s.pats.length := by rw [← ht]; exact trk_lt L s.chn s.pats.length i j hip hjc
  have hdv : t / s.chn = i := by rw [← ht]; exact trk_div L s.chn s.pats.length i j hjc
  have htr : (clampCounts (toRaw L s x)).track? ((t : Int)).toNat = some { rows := (s.pats[i].rows : Int) } := by
    simp only [Module.track?, clampCounts, toRaw, rawTracks, Int.toNat_natCast, List.getElem?_map,
      List.getElem?_range hlt, Option.map_some, Option.join_some, hdv, List.getElem?_eq_getElem hip, Option.getD_some]
  simp only [htr, decide_eq_true_eq]
  omega

/-! ## the obligations -/

/-- **every layout, every `Extra`**: a song with `SongOk` and `PcmOk` gives a raw module that meets `LoaderOblig` -/
theorem oblig_of_songOk (L : Layout) (s : Song) (x : Extra) (h : SongOk s) (hp : PcmOk s) :
    LoaderOblig (toRaw L s x) = true := by
  obtain ⟨hrows, hname, hins, hsmp⟩ := h
  simp only [LoaderOblig, obligClauses, List.all_cons, List.all_nil, Bool.and_true, Bool.and_eq_true, decide_eq_true_eq]
  refine ⟨rows_toRaw L s x hrows, ?_, ?_, ?_, ?_, ?_⟩
  · -- sub-instrument arrays
    unfold subsOK
    rw [allBelow_iff]
    intro i hi
    have hii : i < s.ins.length := by
      have := clampC_nat_le s.ins.length epiInsMax
      simp only [clampCounts, toRaw] at hi
      omega
    simp only [clampCounts, toRaw, List.getElem?_mapIdx, List.getElem?_eq_getElem hii, Option.map_some, rawIns,
      Bool.or_eq_true, decide_eq_true_eq]
    by_cases he : s.ins[i].subs = []
    · left; simp [he]
    · right; simp [he]
  · -- samples
    unfold samplesOblig
    rw [allBelow_iff]
    intro i hi
    have hii : i < s.smps.length := by
      have := clampC_nat_le s.smps.length maxSamples
      simp only [clampCounts, toRaw] at hi
      omega
    simp only [clampCounts, toRaw, List.getElem?_map, List.getElem?_eq_getElem hii, Option.map_some, sampleOblig, rawSmp,
      guardOf_true _ _ _ (hp _ (List.getElem_mem hii)), Bool.and_true, Bool.or_eq_true, decide_eq_true_eq]
    right; exact Int.natCast_nonneg _
  · -- envelopes
    unfold envelopesLowerOblig
    rw [allBelow_iff]
    intro i hi
    have hii : i < s.ins.length := by
      have := clampC_nat_le s.ins.length epiInsMax
      simp only [clampCounts, toRaw] at hi
      omega
    simp only [clampCounts, toRaw, List.getElem?_mapIdx, List.getElem?_eq_getElem hii, Option.map_some, rawIns,
      envLower_toEnv, Bool.and_true]
  · -- names
    unfold namesOK
    simp only [Bool.and_eq_true]
    refine ⟨⟨⟨?_, ?_⟩, ?_⟩, ?_⟩
    · exact hasNul_arr _ _ hname
    · exact hasNul_typeArray _
    · rw [allBelow_iff]
      intro i hi
      have hii : i < s.ins.length := by
        have := clampC_nat_le s.ins.length epiInsMax
        simp only [clampCounts, toRaw] at hi
        omega
      simp only [clampCounts, toRaw, List.getElem?_mapIdx, List.getElem?_eq_getElem hii, Option.map_some, rawIns]
      exact hasNul_arr _ _ (hins _ (List.getElem_mem hii))
    · rw [allBelow_iff]
      intro i hi
      have hii : i < s.smps.length := by
        have := clampC_nat_le s.smps.length maxSamples
        simp only [clampCounts, toRaw] at hi
        omega
      simp only [clampCounts, toRaw, List.getElem?_map, List.getElem?_eq_getElem hii, Option.map_some, rawSmp]
      exact hasNul_arr _ _ (hsmp _ (List.getElem_mem hii))
  · -- restart
    simp only [toRaw]
    exact Int.natCast_nonneg _

/-! ## inverting a reader's `do` block

`simp only [Option.bind_eq_bind, Option.bind_none, Option.bind_some] at h` removes the join points of the `do`
elaborator; `simp only [Option.bind_eq_some_iff, ite_eq_some, reduceCtorEq, and_false, false_or] at h` then turns
`read b = some s` into the chain of successful steps and refused guards that leads to the final `some {…} = some s`. -/

theorem ite_eq_some {c : Prop} [Decidable c] {α : Type} {a b : Option α} {s : α} :
    ((if c then a else b) = some s) ↔ ((c ∧ a = some s) ∨ (¬ c ∧ b = some s)) := by
  split <;> simp [*]

theorem takeN_length {n : Nat} {bs : Bytes} {x : Bytes × Bytes} (h : Fmt.takeN n bs = some x) : x.1.length = n := by
  unfold Fmt.takeN at h
  split at h
  · cases h; simp only [List.length_take]; omega
  · cases h

theorem mapM_some_mem {α β : Type} (f : α → Option β) : ∀ (l : List α) (r : List β),
    l.mapM f = some r → ∀ y ∈ r, ∃ x ∈ l, f x = some y
  | [], r, h => by
    simp only [List.mapM_nil, Option.pure_def, Option.some.injEq] at h
    subst h; intro y hy; cases hy
  | a :: l, r, h => by
    simp only [List.mapM_cons, Option.bind_eq_bind, Option.pure_def, Option.bind_eq_some_iff, Option.some.injEq] at h
    obtain ⟨b, hb, r', hr', rfl⟩ := h
    intro y hy
    simp only [List.mem_cons] at hy
    rcases hy with rfl | hy
    · exact ⟨a, List.mem_cons_self, hb⟩
    · obtain ⟨x, hx, hfx⟩ := mapM_some_mem f l r' hr' y hy
      exact ⟨x, List.mem_cons_of_mem _ hx, hfx⟩

/-! ## shared facts about the readers' name functions -/

open Xmp.Fmt in
theorem length_stripTrail_le (b : Bytes) : (stripTrail b).length ≤ b.length := by
  unfold stripTrail
  rw [List.length_reverse]
  have := (List.dropWhile_sublist (l := b.reverse) (fun x => x == 32)).length_le
  rw [List.length_reverse] at this
  exact this

open Xmp.Fmt in
theorem length_cstr_le (b : Bytes) : (Fmt.cstr b).length ≤ b.length := by
  unfold Fmt.cstr
  exact (List.takeWhile_sublist _).length_le

open Xmp.Fmt in
theorem length_adjustString_le (b : Bytes) : (Fmt.adjustString b).length ≤ b.length := by
  unfold Fmt.adjustString
  have h1 := length_stripTrail_le ((Fmt.cstr b).map fun c => if Fmt.isPrintAscii c then c else 32)
  rw [List.length_map] at h1
  have h2 := length_cstr_le b
  omega

open Xmp.Fmt in
theorem length_copyAdjust_le (n : Nat) (b : Bytes) : (copyAdjust n b).length ≤ n := by
  unfold copyAdjust
  have h1 := length_stripTrail_le ((Fmt.cstr (b.take n)).map fun c => if Fmt.isPrintAscii c then c else 46)
  rw [List.length_map] at h1
  have h2 := length_cstr_le (b.take n)
  have h3 : (b.take n).length ≤ n := by rw [List.length_take]; omega
  omega

/-- `libxmp_instrument_name` / `libxmp_copy_adjust(…, n)` then `libxmp_adjust_string`: at most `n` characters -/
theorem length_adjust_copyAdjust_le (n : Nat) (b : Bytes) : (Fmt.adjustString (Fmt.copyAdjust n b)).length ≤ n := by
  have h1 := length_adjustString_le (Fmt.copyAdjust n b)
  have h2 := length_copyAdjust_le n b
  omega

theorem name_obsLoop (m : Fmt.Smp) : (Fmt.obsLoop m).name = m.name := by
  unfold Fmt.obsLoop
  simp only
  split <;> split <;> rfl

theorem pcm_obsLoop (m : Fmt.Smp) : (Fmt.obsLoop m).pcm = m.pcm := by
  unfold Fmt.obsLoop
  simp only
  split <;> split <;> rfl

theorem len_obsLoop (m : Fmt.Smp) : (Fmt.obsLoop m).len = m.len := by
  unfold Fmt.obsLoop
  simp only
  split <;> split <;> rfl

theorem flg_obsLoop (m : Fmt.Smp) : (Fmt.obsLoop m).flg = m.flg := by
  unfold Fmt.obsLoop
  simp only
  split <;> split <;> rfl

end Xmp.LoadPost.Core
