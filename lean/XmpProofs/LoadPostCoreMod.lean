import XmpProofs.LoadPostCore
/-!
# C03 × C19 — every song `Mod.read` returns satisfies `SongOk` and `PcmOk`
-/
namespace Xmp.LoadPost.Core
open Xmp Xmp.Fmt

theorem mod_decPats_rows (chn : Nat) : ∀ (k : Nat) (bs : Bytes) (x : List Pat × Bytes),
    Mod.decPats chn k bs = some x → ∀ p ∈ x.1, p.rows = 64
  | 0, bs, x, h => by
    simp only [Mod.decPats, Option.some.injEq] at h
    subst h; intro p hp; cases hp
  | k + 1, bs, x, h => by
    unfold Mod.decPats at h
    split at h
    · cases h
    · split at h
      · cases h
      · rename_i ps r hrec
        simp only [Option.some.injEq] at h
        subst h
        intro p hp
        simp only [List.mem_cons] at hp
        rcases hp with rfl | hp
        · rfl
        · exact mod_decPats_rows chn k _ _ hrec p hp

/-- what `decSmps` keeps of every header-level sample: everything but the PCM, which is `len` bytes when attached -/
theorem mod_decSmps_spec : ∀ (l : List Smp) (bs : Bytes) (r : List Smp),
    Mod.decSmps l bs = some r →
    ∀ m ∈ r, ∃ m0 ∈ l, m.name = m0.name ∧ m.len = m0.len ∧ m.flg = m0.flg ∧ (m.pcm = m0.pcm ∨ m.pcm.length = m.len)
  | [], bs, r, h => by
    simp only [Mod.decSmps, Option.some.injEq] at h
    subst h; intro m hm; cases hm
  | s :: ss, bs, r, h => by
    unfold Mod.decSmps at h
    split at h
    · obtain ⟨r', hr', rfl⟩ := Option.map_eq_some_iff.mp h
      intro m hm
      simp only [List.mem_cons] at hm
      rcases hm with rfl | hm
      · exact ⟨m, List.mem_cons_self, rfl, rfl, rfl, Or.inl rfl⟩
      · obtain ⟨m0, h0, hh⟩ := mod_decSmps_spec ss _ _ hr' m hm
        exact ⟨m0, List.mem_cons_of_mem _ h0, hh⟩
    · split at h
      · cases h
      · split at h
        · cases h
        · rename_i d rest htk
          obtain ⟨r', hr', rfl⟩ := Option.map_eq_some_iff.mp h
          intro m hm
          simp only [List.mem_cons] at hm
          rcases hm with rfl | hm
          · refine ⟨s, List.mem_cons_self, rfl, rfl, rfl, Or.inr ?_⟩
            exact takeN_length (x := (d, rest)) htk
          · obtain ⟨m0, h0, hh⟩ := mod_decSmps_spec ss _ _ hr' m hm
            exact ⟨m0, List.mem_cons_of_mem _ h0, hh⟩

theorem loopSanity_flg02 (len lps lpe f : Nat) (hf : f = 0 ∨ f = 2) :
    (loopSanity len lps lpe f).2.2 = 0 ∨ (loopSanity len lps lpe f).2.2 = 2 := by
  unfold loopSanity
  simp only [FLOOP, FBIDIR]
  rcases hf with rfl | rfl
  · left; split <;> split <;> simp
  · split <;> split <;> simp

theorem ite02 (c : Prop) [Decidable c] : (if c then FLOOP else 0) = 0 ∨ (if c then FLOOP else 0) = 2 := by
  split
  · right; rfl
  · left; rfl

theorem mod_hdrSmp_flg (h : Mod.Hdr) : (Mod.hdrSmp h).flg = 0 ∨ (Mod.hdrSmp h).flg = 2 := by
  unfold Mod.hdrSmp
  simp only
  split
  · exact loopSanity_flg02 _ _ _ _ (ite02 _)
  · exact ite02 _

theorem mod_hdrSmp_name (h : Mod.Hdr) : (Mod.hdrSmp h).name = [] ∧ (Mod.hdrSmp h).pcm = [] := by
  unfold Mod.hdrSmp
  exact ⟨rfl, rfl⟩

theorem mod_hdrIns_name (i : Nat) (h : Mod.Hdr) : (Mod.hdrIns i h).name.length ≤ 22 :=
  length_adjust_copyAdjust_le 22 h.name

theorem mem_zipWith {α β γ : Type} (f : α → β → γ) : ∀ (l1 : List α) (l2 : List β) (c : γ),
    c ∈ List.zipWith f l1 l2 → ∃ a b, c = f a b
  | [], _, c, h => by simp at h
  | _ :: _, [], c, h => by simp at h
  | a :: l1, b :: l2, c, h => by
    simp only [List.zipWith_cons_cons, List.mem_cons] at h
    rcases h with rfl | h
    · exact ⟨a, b, rfl⟩
    · exact mem_zipWith f l1 l2 c h

/-- the final record of `Mod.read` -/
theorem mod_final (name : Bytes × Bytes) (bs : Bytes) (hdrs : List Mod.Hdr) (chn pat : Nat) (ords r0 : Bytes)
    (x : List Pat × Bytes) (sm : List Smp)
    (hn : takeN 20 bs = some name) (hx : Mod.decPats chn pat r0 = some x)
    (hsm : Mod.decSmps (hdrs.map Mod.hdrSmp) x.2 = some sm) :
    let s : Song := { name := Fmt.adjustString (Fmt.cstr name.1), chn := chn, orders := ords, pats := x.1,
                      ins := List.zipWith Mod.hdrIns (List.range 31) hdrs, smps := sm.map obsLoop, spd := 6, bpm := 125 }
    SongOk s ∧ PcmOk s := by
  intro s
  refine ⟨⟨?_, ?_, ?_, ?_⟩, ?_⟩
  · intro p hp
    have := mod_decPats_rows chn pat r0 x hx p hp
    omega
  · have h1 := length_adjustString_le (Fmt.cstr name.1)
    have h2 := length_cstr_le name.1
    have h3 := takeN_length hn
    have : Gen.Limits.xmpNameSize = 64 := rfl
    show (Fmt.adjustString (Fmt.cstr name.1)).length < _
    omega
  · intro i hi
    obtain ⟨a, hd, rfl⟩ := mem_zipWith Mod.hdrIns _ _ i hi
    have := mod_hdrIns_name a hd
    omega
  · intro m hm
    obtain ⟨m1, hm1, rfl⟩ := List.mem_map.mp hm
    obtain ⟨m0, hm0, e1, _, _, _⟩ := mod_decSmps_spec _ _ _ hsm m1 hm1
    obtain ⟨hd, _, rfl⟩ := List.mem_map.mp hm0
    rw [name_obsLoop, e1, (mod_hdrSmp_name hd).1]
    decide
  · intro m hm
    obtain ⟨m1, hm1, rfl⟩ := List.mem_map.mp hm
    obtain ⟨m0, hm0, _, _, e3, e4⟩ := mod_decSmps_spec _ _ _ hsm m1 hm1
    obtain ⟨hd, _, rfl⟩ := List.mem_map.mp hm0
    rw [pcm_obsLoop, len_obsLoop, flg_obsLoop]
    rcases e4 with e4 | e4
    · left; rw [e4, (mod_hdrSmp_name hd).2]
    · right
      have hf : frameLen m1.flg = 1 := by
        rw [e3]
        rcases mod_hdrSmp_flg hd with e | e <;> rw [e] <;> rfl
      rw [hf, e4]; omega

/-- **MOD**: every song the reader returns meets `SongOk` and `PcmOk` -/
theorem mod_read_ok (b : Bytes) (s : Song) (h : Mod.read b = some s) : SongOk s ∧ PcmOk s := by
  unfold Mod.read at h
  simp only [Option.bind_eq_bind, Option.bind_none, Option.bind_some] at h
  simp only [Option.bind_eq_some_iff, ite_eq_some, reduceCtorEq, and_false, false_or] at h
  obtain ⟨a0, h0, a1, h1, a2, h2, a3, h3, a4, h4, mi, h5, -, -, h⟩ := h
  rcases h with ⟨-, r, hr, -, h⟩ | ⟨-, -, h⟩ <;>
    rcases h with ⟨-, -, -, -, -, x, hx, -, sm, hsm, h⟩ | ⟨-, -, x, hx, -, sm, hsm, h⟩ <;>
    (cases h; exact mod_final _ _ _ _ _ _ _ _ _ h0 hx hsm)

end Xmp.LoadPost.Core
