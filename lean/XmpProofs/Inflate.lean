import XmpModel.Inflate
import XmpProofs.InflateHuff
/-!
# Bit-level lemmas for the DEFLATE model: header fields, byte packing, stored data
-/
namespace Xmp.Inflate

/-! ## `TINFL_GET_BITS` reads back what `bitsLSB` wrote -/

theorem readBits_bitsLSB (n v : Nat) (r : Bits) (hv : v < 2 ^ n) :
    readBits n (bitsLSB n v ++ r) = some (v, r) := by
  induction n generalizing v with
  | zero => simp at hv; subst hv; rfl
  | succ n ih =>
    have h2 : v / 2 < 2 ^ n := by rw [Nat.pow_succ] at hv; omega
    simp only [bitsLSB, List.cons_append, readBits, ih (v / 2) h2, toNat_mod2]
    congr 2; omega

/-! ## bytes ↔ bits -/

theorem toBits_nil : toBits [] = [] := rfl
theorem toBits_cons (x : UInt8) (r : Bytes) : toBits (x :: r) = byteBits x ++ toBits r := by
  simp [toBits]
theorem toBits_append (a b : Bytes) : toBits (a ++ b) = toBits a ++ toBits b := by
  simp [toBits]
theorem toBits_length (a : Bytes) : (toBits a).length = 8 * a.length := by
  induction a with
  | nil => rfl
  | cons x r ih => rw [toBits_cons, List.length_append, ih]; simp [byteBits]; omega

theorem bitOf_toNat (x : UInt8) (i : Nat) : (bitOf x i).toNat = x.toNat / 2 ^ i % 2 := toNat_mod2 _

theorem bitsByte_byteBits (x : UInt8) :
    bitsByte (bitOf x 0) (bitOf x 1) (bitOf x 2) (bitOf x 3) (bitOf x 4) (bitOf x 5) (bitOf x 6) (bitOf x 7) = x := by
  unfold bitsByte
  simp only [bitOf_toNat]
  have h : x.toNat < 256 := x.toNat_lt
  have : x.toNat / 2 ^ 0 % 2 + 2 * (x.toNat / 2 ^ 1 % 2) + 4 * (x.toNat / 2 ^ 2 % 2) + 8 * (x.toNat / 2 ^ 3 % 2) +
      16 * (x.toNat / 2 ^ 4 % 2) + 32 * (x.toNat / 2 ^ 5 % 2) + 64 * (x.toNat / 2 ^ 6 % 2) +
      128 * (x.toNat / 2 ^ 7 % 2) = x.toNat := by
    simp only [Nat.reducePow]; omega
  rw [this]; simp

theorem byteBits_bitsByte (b0 b1 b2 b3 b4 b5 b6 b7 : Bool) :
    byteBits (bitsByte b0 b1 b2 b3 b4 b5 b6 b7) = [b0, b1, b2, b3, b4, b5, b6, b7] := by
  cases b0 <;> cases b1 <;> cases b2 <;> cases b3 <;> cases b4 <;> cases b5 <;> cases b6 <;> cases b7 <;> decide

/-- the stored-block copy loop moves the bytes as they are -/
theorem copyStored_toBits (d : Bytes) (r : Bits) (out : Array UInt8) :
    copyStored d.length (toBits d ++ r) out = some (r, out ++ d.toArray) := by
  induction d generalizing out with
  | nil => simp [copyStored, toBits]
  | cons x d ih =>
    rw [toBits_cons]
    simp only [byteBits, List.cons_append, List.nil_append, List.length_cons, copyStored]
    rw [bitsByte_byteBits, ih]
    congr 2
    apply Array.ext'
    simp

/-- zero padding up to the byte boundary -/
def padLen (n : Nat) : Nat := (8 - n % 8) % 8

theorem toBits_fromBits (bs : Bits) : toBits (fromBits bs) = bs ++ List.replicate (padLen bs.length) false := by
  induction bs using fromBits.induct with
  | case1 => rfl
  | case2 b0 b1 b2 b3 b4 b5 b6 b7 r ih =>
    rw [fromBits, toBits_cons, byteBits_bitsByte, ih]
    have : padLen (b0 :: b1 :: b2 :: b3 :: b4 :: b5 :: b6 :: b7 :: r).length = padLen r.length := by
      simp [padLen]; omega
    rw [this]; simp
  | case3 b0 r hne =>
    rw [fromBits]
    · rw [toBits_cons, byteBits_bitsByte, toBits_nil]
      rcases r with _ | ⟨r0, _ | ⟨r1, _ | ⟨r2, _ | ⟨r3, _ | ⟨r4, _ | ⟨r5, _ | ⟨r6, r⟩⟩⟩⟩⟩⟩⟩
      all_goals first | (exfalso; exact hne _ _ _ _ _ _ _ _ rfl) | simp [padLen, List.replicate]
    · exact hne

theorem fromBits_length (bs : Bits) : (fromBits bs).length = (bs.length + 7) / 8 := by
  induction bs using fromBits.induct with
  | case1 => rfl
  | case2 b0 b1 b2 b3 b4 b5 b6 b7 r ih =>
    rw [fromBits, List.length_cons, ih]; simp; omega
  | case3 b0 r hne =>
    rw [fromBits]
    · rcases r with _ | ⟨r0, _ | ⟨r1, _ | ⟨r2, _ | ⟨r3, _ | ⟨r4, _ | ⟨r5, _ | ⟨r6, r⟩⟩⟩⟩⟩⟩⟩
      all_goals first | (exfalso; exact hne _ _ _ _ _ _ _ _ rfl) | simp
    · exact hne

end Xmp.Inflate
