import XmpModel.Inflate
import XmpProofs.InflateStream
/-!
# The Boolean precondition checkers imply the preconditions of the round-trip theorems
-/
namespace Xmp.Inflate

theorem symOkB_sound {lens : List Nat} {s : Nat} (h : symOkB lens s = true) : SymOk lens s := by
  simp only [symOkB, Bool.and_eq_true, decide_eq_true_eq, bne_iff_ne] at h
  exact h

theorem codeOkB_sound {lens : List Nat} (h : codeOkB lens = true) : CodeOk lens := by
  simp only [codeOkB, Bool.and_eq_true, beq_iff_eq, List.all_eq_true, decide_eq_true_eq] at h
  exact ⟨h.1, h.2⟩

theorem tokOkB_sound {ll dl : List Nat} {size : Nat} {t : Tok} (h : tokOkB ll dl size t = true) :
    TokOk ll dl size t := by
  cases t with
  | lit b =>
    refine ⟨fun b' hb => ?_, (fun _ _ hd => nomatch hd)⟩
    cases hb
    exact symOkB_sound h
  | mat len dist =>
    refine ⟨(fun _ hb => nomatch hb), fun len' dist' hd => ?_⟩
    cases hd
    simp only [tokOkB, Bool.and_eq_true, decide_eq_true_eq] at h
    obtain ⟨⟨⟨⟨⟨⟨a, b⟩, c⟩, d⟩, e⟩, f⟩, g⟩ := h
    exact ⟨a, b, c, d, e, symOkB_sound f, symOkB_sound g⟩

theorem toksOkB_sound {ll dl : List Nat} {size : Nat} {toks : List Tok} (h : toksOkB ll dl size toks = true) :
    ToksOk ll dl size toks := by
  induction toks generalizing size with
  | nil => trivial
  | cons t ts ih =>
    simp only [toksOkB, Bool.and_eq_true] at h
    exact ⟨tokOkB_sound h.1, ih h.2⟩

theorem clTokOkB_sound {cll acc : List Nat} {t : ClTok} (h : clTokOkB cll acc t = true) : ClTokOk cll acc t := by
  cases t with
  | len l =>
    simp only [clTokOkB, Bool.and_eq_true, decide_eq_true_eq] at h
    refine ⟨fun l' hl => ?_, (fun _ hr => nomatch hr), (fun _ hz => nomatch hz)⟩
    cases hl
    exact ⟨h.1, symOkB_sound h.2⟩
  | rep n =>
    simp only [clTokOkB, Bool.and_eq_true, decide_eq_true_eq, Bool.not_eq_true', List.isEmpty_eq_false_iff] at h
    refine ⟨(fun _ hl => nomatch hl), fun n' hr => ?_, (fun _ hz => nomatch hz)⟩
    cases hr
    exact ⟨h.1.1.1, h.1.1.2, h.1.2, symOkB_sound h.2⟩
  | zeros n =>
    simp only [clTokOkB, Bool.and_eq_true, decide_eq_true_eq] at h
    refine ⟨(fun _ hl => nomatch hl), (fun _ hr => nomatch hr), fun n' hz => ?_⟩
    cases hz
    refine ⟨h.1.1, h.1.2, fun hn => ?_, fun hn => ?_⟩
    · rw [if_pos hn] at h; exact symOkB_sound h.2
    · rw [if_neg (by omega)] at h; exact symOkB_sound h.2

theorem clToksOkB_sound {cll acc : List Nat} {toks : List ClTok} (h : clToksOkB cll acc toks = true) :
    ClToksOk cll acc toks := by
  induction toks generalizing acc with
  | nil => trivial
  | cons t ts ih =>
    simp only [clToksOkB, Bool.and_eq_true] at h
    exact ⟨clTokOkB_sound h.1, ih h.2⟩

theorem blockOkB_sound {size : Nat} {b : Block} (h : blockOkB size b = true) : BlockOk size b := by
  cases b with
  | stored d =>
    simp only [blockOkB, decide_eq_true_eq] at h
    exact BlockOk.stored d h
  | fixed toks => exact BlockOk.fixed toks (toksOkB_sound h)
  | dyn ll dl toks =>
    simp only [blockOkB, Bool.and_eq_true, decide_eq_true_eq] at h
    obtain ⟨⟨⟨⟨⟨⟨⟨h1, h2⟩, h3⟩, h4⟩, c1⟩, c2⟩, e⟩, t⟩ := h
    exact BlockOk.dyn ll dl toks h1 h2 h3 h4 (codeOkB_sound c1) (codeOkB_sound c2) (symOkB_sound e) (toksOkB_sound t)
  | dynG cll cltoks nlit toks =>
    simp only [blockOkB, Bool.and_eq_true, decide_eq_true_eq, List.all_eq_true] at h
    obtain ⟨⟨⟨⟨⟨⟨⟨⟨⟨⟨⟨c0, h19⟩, h7⟩, ct⟩, h1⟩, h2⟩, h3⟩, h4⟩, c1⟩, c2⟩, e⟩, t⟩ := h
    exact BlockOk.dynG cll cltoks nlit toks (codeOkB_sound c0) h19 h7 (clToksOkB_sound ct) h1 h2 h3 h4
      (codeOkB_sound c1) (codeOkB_sound c2) (symOkB_sound e) (toksOkB_sound t)

/-- **the checker is sound**: a block list it accepts satisfies every hypothesis of the round-trip theorem -/
theorem blocksOkB_sound {out : Array UInt8} {bs : List Block} (h : blocksOkB out bs = true) : BlocksOk out bs := by
  induction bs generalizing out with
  | nil => trivial
  | cons b bs ih =>
    simp only [blocksOkB, Bool.and_eq_true] at h
    exact ⟨blockOkB_sound h.1, ih h.2⟩

end Xmp.Inflate
