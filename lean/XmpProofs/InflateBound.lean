import XmpModel.Inflate
import XmpProofs.InflateBlocks
/-!
# Progress and work bounds of the DEFLATE model (C02 style)

Every Huffman symbol that the literal/length loop accepts consumes at least one bit, every block at least three;
so `8·|input| + 1` iterations always suffice (`Err.fuel` is never returned), the position reported at the end
lies inside the input, and the output grows by at most 258 bytes per consumed bit.
-/
namespace Xmp.Inflate

/-! ## how much the readers consume -/

theorem readBits_len (n : Nat) (bits : Bits) (v : Nat) (r : Bits) (h : readBits n bits = some (v, r)) :
    bits.length = n + r.length ∧ v < 2 ^ n := by
  induction n generalizing bits v r with
  | zero => simp [readBits] at h; obtain ⟨rfl, rfl⟩ := h; simp
  | succ n ih =>
    cases bits with
    | nil => simp [readBits] at h
    | cons b bs =>
      simp only [readBits] at h
      cases hr : readBits n bs with
      | none => simp [hr] at h
      | some p =>
        obtain ⟨v', r'⟩ := p
        simp only [hr, Option.some.injEq, Prod.mk.injEq] at h
        obtain ⟨rfl, rfl⟩ := h
        obtain ⟨h1, h2⟩ := ih bs v' r' hr
        refine ⟨by simp [h1]; omega, ?_⟩
        have : b.toNat ≤ 1 := by cases b <;> simp
        rw [Nat.pow_succ]; omega

theorem zeroEntry_len (bits : Bits) (s l : Nat) (r : Bits) (h : zeroEntry bits = .ok (s, l, r)) :
    l = 0 ∧ r = bits := by
  unfold zeroEntry at h
  split at h
  · cases h
  · simp only [Except.ok.injEq, Prod.mk.injEq] at h; exact ⟨h.2.1.symm, h.2.2.symm⟩

theorem singleDec_len (s : Nat) (orig : Bits) (m k : Nat) (cur : Bits) (hk : orig.length = k + cur.length)
    (sym l : Nat) (r : Bits) (h : singleDec s orig m k cur = .ok (sym, l, r)) : orig.length = l + r.length := by
  induction m generalizing k cur with
  | zero =>
    simp only [singleDec, Except.ok.injEq, Prod.mk.injEq] at h
    obtain ⟨_, rfl, rfl⟩ := h; exact hk
  | succ m ih =>
    cases cur with
    | nil => simp [singleDec] at h
    | cons b rest =>
      simp only [singleDec] at h
      cases b with
      | true =>
        simp only [if_true] at h
        split at h
        · obtain ⟨h1, h2⟩ := zeroEntry_len _ _ _ _ h; subst h1; subst h2; simp
        · simp only [Except.ok.injEq, Prod.mk.injEq] at h
          obtain ⟨_, rfl, rfl⟩ := h
          simp at hk; omega
      | false =>
        simp only [Bool.false_eq_true, if_false] at h
        exact ih (k + 1) rest (by simp at hk; omega) h

theorem decLoop_len (lens cs : List Nat) (l code first : Nat) (bits : Bits) (sym l' : Nat) (r : Bits)
    (h : decLoop lens cs l code first bits = .ok (sym, l', r)) : bits.length + l = l' + 1 + r.length := by
  induction cs generalizing l code first bits with
  | nil => simp [decLoop] at h
  | cons c cs ih =>
    cases bits with
    | nil => simp [decLoop] at h
    | cons b bs =>
      simp only [decLoop] at h
      split at h
      · simp only [Except.ok.injEq, Prod.mk.injEq] at h
        obtain ⟨_, rfl, rfl⟩ := h; simp; omega
      · have := ih _ _ _ _ h
        simp; omega

/-- a decoded symbol accounts for exactly `l` bits of the input -/
theorem decodeSym_len (hd : Huff) (bits : Bits) (sym l : Nat) (r : Bits) (h : decodeSym hd bits = .ok (sym, l, r)) :
    bits.length = l + r.length := by
  unfold decodeSym at h
  split at h
  · obtain ⟨h1, h2⟩ := zeroEntry_len _ _ _ _ h; subst h1; subst h2; simp
  · split at h
    · exact singleDec_len _ bits _ 0 bits (by simp) _ _ _ h
    · have := decLoop_len _ _ _ _ _ _ _ _ _ h; omega

/-! ## one literal/length symbol -/

theorem lenBound (i le : Nat) (h : le < 2 ^ lenExtra.getD i 0) : lenBase.getD i 0 + le ≤ 258 := by
  by_cases hi : i < 31
  · have : ∀ i, i < 31 → lenBase.getD i 0 + 2 ^ lenExtra.getD i 0 ≤ 259 := by decide
    have := this i hi
    omega
  · have e1 : lenBase.getD i 0 = 0 := by
      rw [List.getD_eq_getElem?_getD, List.getElem?_eq_none (by simp [lenBase]; omega)]; rfl
    have e2 : lenExtra.getD i 0 = 0 := by
      rw [List.getD_eq_getElem?_getD, List.getElem?_eq_none (by simp [lenExtra]; omega)]; rfl
    rw [e2] at h; rw [e1]; omega

/-- **progress per symbol**: an accepted step consumes at least one bit, keeps the position in step with the
    input, and appends at most 258 bytes -/
theorem symStep_progress (lit dist : Huff) (bits : Bits) (pos : Nat) (out : Array UInt8) (c : Bool) (r : Bits)
    (pos' : Nat) (out' : Array UInt8) (h : symStep lit dist bits pos out = .ok (c, r, pos', out')) :
    r.length < bits.length ∧ pos' + r.length = pos + bits.length ∧ out'.size ≤ out.size + 258 := by
  unfold symStep at h
  split at h
  · cases h
  · rename_i sym cl b1 hd1
    have l1 := decodeSym_len _ _ _ _ _ hd1
    split at h
    · cases h
    · rename_i hcl
      split at h
      · simp only [Except.ok.injEq, Prod.mk.injEq] at h
        obtain ⟨_, rfl, rfl, rfl⟩ := h
        simp; omega
      · split at h
        · simp only [Except.ok.injEq, Prod.mk.injEq] at h
          obtain ⟨_, rfl, rfl, rfl⟩ := h
          simp; omega
        · split at h
          · cases h
          · rename_i le b2 hr1
            obtain ⟨l2, hle⟩ := readBits_len _ _ _ _ hr1
            split at h
            · cases h
            · rename_i ds dl b3 hd2
              have l3 := decodeSym_len _ _ _ _ _ hd2
              split at h
              · cases h
              · rename_i de b4 hr2
                obtain ⟨l4, _⟩ := readBits_len _ _ _ _ hr2
                split at h
                · cases h
                · simp only [Except.ok.injEq, Prod.mk.injEq] at h
                  obtain ⟨_, rfl, rfl, rfl⟩ := h
                  have := lenBound _ _ hle
                  rw [copyMatch_size]
                  omega


/-! ## the symbol loop -/

/-- bits consumed, position and output growth of a state transition `(bits, pos, out) → (r, pos', out')` -/
def Adv (bits : Bits) (pos : Nat) (out : Array UInt8) (r : Bits) (pos' : Nat) (out' : Array UInt8) : Prop :=
  r.length ≤ bits.length ∧ pos' + r.length = pos + bits.length ∧
    out'.size + 258 * r.length ≤ out.size + 258 * bits.length

theorem Adv.trans {b0 b1 b2 : Bits} {p0 p1 p2 : Nat} {o0 o1 o2 : Array UInt8}
    (h1 : Adv b0 p0 o0 b1 p1 o1) (h2 : Adv b1 p1 o1 b2 p2 o2) : Adv b0 p0 o0 b2 p2 o2 := by
  unfold Adv at *; omega

theorem symLoop_adv (lit dist : Huff) (f : Nat) (bits : Bits) (pos : Nat) (out : Array UInt8) (r : Bits)
    (pos' : Nat) (out' : Array UInt8) (h : symLoop lit dist f bits pos out = .ok (r, pos', out')) :
    Adv bits pos out r pos' out' ∧ r.length < bits.length := by
  induction f generalizing bits pos out with
  | zero => simp [symLoop] at h
  | succ f ih =>
    rw [symLoop] at h
    split at h
    · cases h
    · rename_i b p o hs
      obtain ⟨a1, a2, a3⟩ := symStep_progress _ _ _ _ _ _ _ _ _ hs
      obtain ⟨⟨b1, b2, b3⟩, b4⟩ := ih _ _ _ h
      unfold Adv; omega
    · rename_i st hs
      simp only [Except.ok.injEq] at h
      subst h
      obtain ⟨a1, a2, a3⟩ := symStep_progress _ _ _ _ _ _ _ _ _ hs
      unfold Adv; omega

theorem zeroEntry_nofuel (bits : Bits) : zeroEntry bits ≠ .error .fuel := by
  unfold zeroEntry; split <;> simp

theorem singleDec_nofuel (s : Nat) (orig : Bits) (m k : Nat) (cur : Bits) :
    singleDec s orig m k cur ≠ .error .fuel := by
  induction m generalizing k cur with
  | zero => simp [singleDec]
  | succ m ih =>
    cases cur with
    | nil => simp [singleDec]
    | cons b rest =>
      simp only [singleDec]
      split
      · split
        · exact zeroEntry_nofuel _
        · simp
      · exact ih _ _

theorem decLoop_nofuel (lens cs : List Nat) (l code first : Nat) (bits : Bits) :
    decLoop lens cs l code first bits ≠ .error .fuel := by
  induction cs generalizing l code first bits with
  | nil => simp [decLoop]
  | cons c cs ih =>
    cases bits with
    | nil => simp [decLoop]
    | cons b bs =>
      simp only [decLoop]
      split
      · simp
      · exact ih _ _ _ _

theorem decodeSym_nofuel (hd : Huff) (bits : Bits) : decodeSym hd bits ≠ .error .fuel := by
  unfold decodeSym
  split
  · exact zeroEntry_nofuel _
  · split
    · exact singleDec_nofuel _ _ _ _ _
    · exact decLoop_nofuel _ _ _ _ _ _

theorem symStep_nofuel (lit dist : Huff) (bits : Bits) (pos : Nat) (out : Array UInt8) :
    symStep lit dist bits pos out ≠ .error .fuel := by
  unfold symStep
  split
  · rename_i e he
    intro h
    simp only [Except.error.injEq] at h
    subst h
    exact decodeSym_nofuel _ _ he
  · repeat' split
    all_goals first | (intro h; cases h; done) | skip
    rename_i e he
    intro h
    simp only [Except.error.injEq] at h
    subst h
    exact decodeSym_nofuel _ _ he

/-- **the symbol loop never runs out of fuel** when the fuel exceeds the number of remaining bits -/
theorem symLoop_nofuel (lit dist : Huff) (f : Nat) (bits : Bits) (pos : Nat) (out : Array UInt8)
    (hf : bits.length < f) : symLoop lit dist f bits pos out ≠ .error .fuel := by
  induction f generalizing bits pos out with
  | zero => omega
  | succ f ih =>
    rw [symLoop]
    split
    · rename_i e hs
      intro h
      simp only [Except.error.injEq] at h
      subst h
      exact symStep_nofuel _ _ _ _ _ hs
    · rename_i b p o hs
      obtain ⟨a1, _, _⟩ := symStep_progress _ _ _ _ _ _ _ _ _ hs
      exact ih _ _ _ (by omega)
    · intro h; cases h


/-! ## stored blocks -/

theorem copyStored_len (n : Nat) (bits : Bits) (out : Array UInt8) (r : Bits) (out' : Array UInt8)
    (h : copyStored n bits out = some (r, out')) : bits.length = 8 * n + r.length ∧ out'.size = out.size + n := by
  induction n generalizing bits out with
  | zero => simp only [copyStored, Option.some.injEq, Prod.mk.injEq] at h; obtain ⟨rfl, rfl⟩ := h; simp
  | succ n ih =>
    match bits, h with
    | b0 :: b1 :: b2 :: b3 :: b4 :: b5 :: b6 :: b7 :: rest, h =>
      simp only [copyStored] at h
      obtain ⟨h1, h2⟩ := ih _ _ h
      simp at h2 ⊢; omega

theorem storedBlock_adv (bits : Bits) (pos : Nat) (out : Array UInt8) (r : Bits) (pos' : Nat) (out' : Array UInt8)
    (h : storedBlock bits pos out = .ok (r, pos', out')) : Adv bits pos out r pos' out' := by
  unfold storedBlock at h
  simp only [] at h
  split at h
  · cases h
  · rename_i len b1 h1
    obtain ⟨l1, _⟩ := readBits_len _ _ _ _ h1
    split at h
    · cases h
    · rename_i nlen b2 h2
      obtain ⟨l2, _⟩ := readBits_len _ _ _ _ h2
      split at h
      · cases h
      · split at h
        · cases h
        · rename_i b3 o3 h3
          obtain ⟨l3, l4⟩ := copyStored_len _ _ _ _ _ h3
          simp only [Except.ok.injEq, Prod.mk.injEq] at h
          obtain ⟨rfl, rfl, rfl⟩ := h
          simp only [List.length_drop] at l1
          unfold Adv; omega

theorem storedBlock_nofuel (bits : Bits) (pos : Nat) (out : Array UInt8) :
    storedBlock bits pos out ≠ .error .fuel := by
  unfold storedBlock
  simp only []
  repeat' split
  all_goals (intro h; cases h)


/-! ## dynamic block header -/

theorem readClLens_len (n : Nat) (zs : List Nat) (bits : Bits) (acc : List (Nat × Nat)) (ps : List (Nat × Nat))
    (r : Bits) (h : readClLens n zs bits acc = some (ps, r)) :
    bits.length = 3 * (min n zs.length) + r.length := by
  induction n generalizing zs bits acc with
  | zero => simp only [readClLens, Option.some.injEq, Prod.mk.injEq] at h; obtain ⟨_, rfl⟩ := h; simp
  | succ n ih =>
    cases zs with
    | nil => simp only [readClLens, Option.some.injEq, Prod.mk.injEq] at h; obtain ⟨_, rfl⟩ := h; simp
    | cons z zs =>
      simp only [readClLens] at h
      split at h
      · cases h
      · rename_i v r1 h1
        obtain ⟨l1, _⟩ := readBits_len _ _ _ _ h1
        have := ih _ _ _ h
        simp only [List.length_cons]
        omega

theorem lensStep_adv (cl : Huff) (bits : Bits) (pos : Nat) (lens lens' : List Nat) (r : Bits) (pos' : Nat)
    (h : lensStep cl bits pos lens = .ok (lens', r, pos')) :
    r.length ≤ bits.length ∧ pos' + r.length = pos + bits.length ∧ lens.length < lens'.length := by
  unfold lensStep at h
  split at h
  · cases h
  · rename_i sym k b1 hd
    have l1 := decodeSym_len _ _ _ _ _ hd
    split at h
    · simp only [Except.ok.injEq, Prod.mk.injEq] at h
      obtain ⟨rfl, rfl, rfl⟩ := h
      simp; omega
    · split at h
      · cases h
      · simp only [] at h
        split at h
        · cases h
        · rename_i s b2 hr
          obtain ⟨l2, _⟩ := readBits_len _ _ _ _ hr
          simp only [Except.ok.injEq, Prod.mk.injEq] at h
          obtain ⟨rfl, rfl, rfl⟩ := h
          simp only [List.length_append, List.length_replicate]
          refine ⟨by omega, by omega, ?_⟩
          split <;> omega

theorem lensStep_nofuel (cl : Huff) (bits : Bits) (pos : Nat) (lens : List Nat) :
    lensStep cl bits pos lens ≠ .error .fuel := by
  unfold lensStep
  split
  · rename_i e he
    intro h
    simp only [Except.error.injEq] at h
    subst h
    exact decodeSym_nofuel _ _ he
  · simp only []
    repeat' split
    all_goals (intro h; cases h)

theorem readLens_adv (cl : Huff) (total f : Nat) (bits : Bits) (pos : Nat) (lens lens' : List Nat) (r : Bits)
    (pos' : Nat) (h : readLens cl total f bits pos lens = .ok (lens', r, pos')) :
    r.length ≤ bits.length ∧ pos' + r.length = pos + bits.length := by
  induction f generalizing bits pos lens with
  | zero => simp [readLens] at h
  | succ f ih =>
    rw [readLens] at h
    split at h
    · simp only [Except.ok.injEq, Prod.mk.injEq] at h
      obtain ⟨_, rfl, rfl⟩ := h; simp
    · split at h
      · cases h
      · rename_i l1 b1 p1 hs
        obtain ⟨a1, a2, _⟩ := lensStep_adv _ _ _ _ _ _ _ hs
        obtain ⟨b1, b2⟩ := ih _ _ _ h
        omega

theorem readLens_nofuel (cl : Huff) (total f : Nat) (bits : Bits) (pos : Nat) (lens : List Nat)
    (hf : total - lens.length < f) : readLens cl total f bits pos lens ≠ .error .fuel := by
  induction f generalizing bits pos lens with
  | zero => omega
  | succ f ih =>
    rw [readLens]
    split
    · intro h; cases h
    · split
      · rename_i e hs
        intro h
        simp only [Except.error.injEq] at h
        subst h
        exact lensStep_nofuel _ _ _ _ hs
      · rename_i l1 b1 p1 hs
        obtain ⟨_, _, a3⟩ := lensStep_adv _ _ _ _ _ _ _ hs
        exact ih _ _ _ (by omega)

theorem readDynHeader_adv (bits : Bits) (pos : Nat) (lh dh : Huff) (r : Bits) (pos' : Nat)
    (h : readDynHeader bits pos = .ok (lh, dh, r, pos')) :
    r.length ≤ bits.length ∧ pos' + r.length = pos + bits.length := by
  unfold readDynHeader at h
  split at h
  · cases h
  · rename_i hlit b1 h1
    obtain ⟨l1, _⟩ := readBits_len _ _ _ _ h1
    split at h
    · cases h
    · rename_i hdist b2 h2
      obtain ⟨l2, _⟩ := readBits_len _ _ _ _ h2
      split at h
      · cases h
      · rename_i hclen b3 h3
        obtain ⟨l3, hc⟩ := readBits_len _ _ _ _ h3
        split at h
        · cases h
        · rename_i pairs b4 h4
          have l4 := readClLens_len _ _ _ _ _ _ h4
          have hz : dezigzag.length = 19 := rfl
          rw [hz] at l4
          split at h
          · cases h
          · split at h
            · cases h
            · rename_i rl b5 pos5 h5
              obtain ⟨l5, l6⟩ := readLens_adv _ _ _ _ _ _ _ _ _ h5
              split at h
              · cases h
              · simp only [] at h
                split at h
                · cases h
                · split at h
                  · cases h
                  · simp only [Except.ok.injEq, Prod.mk.injEq] at h
                    obtain ⟨_, _, rfl, rfl⟩ := h
                    have : min (hclen + 4) 19 = hclen + 4 := by
                      have : hclen < 16 := hc
                      omega
                    omega

theorem readDynHeader_nofuel (bits : Bits) (pos : Nat) : readDynHeader bits pos ≠ .error .fuel := by
  unfold readDynHeader
  simp only []
  repeat' split
  all_goals first | (intro h; cases h; done) | skip
  rename_i e he
  intro h
  simp only [Except.error.injEq] at h
  subst h
  exact readLens_nofuel _ _ _ _ _ _ (by simp) he


/-! ## blocks -/

theorem blockBody_adv (f btype : Nat) (bits : Bits) (pos : Nat) (out : Array UInt8) (r : Bits) (pos' : Nat)
    (out' : Array UInt8) (h : blockBody f btype bits pos out = .ok (r, pos', out')) :
    Adv bits pos out r pos' out' := by
  unfold blockBody at h
  split at h
  · exact storedBlock_adv _ _ _ _ _ _ h
  · split at h
    · split at h
      · exact (symLoop_adv _ _ _ _ _ _ _ _ _ h).1
      · cases h
    · split at h
      · split at h
        · cases h
        · rename_i lh dh b1 pos1 hh
          obtain ⟨a1, a2⟩ := readDynHeader_adv _ _ _ _ _ _ hh
          obtain ⟨⟨b1, b2, b3⟩, _⟩ := symLoop_adv _ _ _ _ _ _ _ _ _ h
          unfold Adv; omega
      · cases h

theorem blockBody_nofuel (f btype : Nat) (bits : Bits) (pos : Nat) (out : Array UInt8) (hf : bits.length < f) :
    blockBody f btype bits pos out ≠ .error .fuel := by
  unfold blockBody
  split
  · exact storedBlock_nofuel _ _ _
  · split
    · split
      · exact symLoop_nofuel _ _ _ _ _ _ hf
      · intro h; cases h
    · split
      · split
        · rename_i e he
          intro h
          simp only [Except.error.injEq] at h
          subst h
          exact readDynHeader_nofuel _ _ he
        · rename_i lh dh b1 pos1 hh
          obtain ⟨a1, _⟩ := readDynHeader_adv _ _ _ _ _ _ hh
          exact symLoop_nofuel _ _ _ _ _ _ (by omega)
      · intro h; cases h

theorem blockLoop_adv (f : Nat) (bits : Bits) (pos : Nat) (out : Array UInt8) (r : Bits) (pos' : Nat)
    (out' : Array UInt8) (h : blockLoop f bits pos out = .ok (r, pos', out')) :
    Adv bits pos out r pos' out' ∧ r.length + 3 ≤ bits.length := by
  induction f generalizing bits pos out with
  | zero => simp [blockLoop] at h
  | succ f ih =>
    rw [blockLoop] at h
    split at h
    · cases h
    · rename_i hdr b1 h1
      obtain ⟨l1, _⟩ := readBits_len _ _ _ _ h1
      split at h
      · cases h
      · rename_i b2 pos2 out2 hb
        obtain ⟨a1, a2, a3⟩ := blockBody_adv _ _ _ _ _ _ _ _ hb
        split at h
        · simp only [Except.ok.injEq, Prod.mk.injEq] at h
          obtain ⟨rfl, rfl, rfl⟩ := h
          unfold Adv; omega
        · obtain ⟨⟨c1, c2, c3⟩, _⟩ := ih _ _ _ h
          unfold Adv; omega

/-- **the block loop never runs out of fuel** when the fuel exceeds the number of remaining bits
    (each block consumes at least its three header bits) -/
theorem blockLoop_nofuel (f : Nat) (bits : Bits) (pos : Nat) (out : Array UInt8) (hf : bits.length < f) :
    blockLoop f bits pos out ≠ .error .fuel := by
  induction f generalizing bits pos out with
  | zero => omega
  | succ f ih =>
    rw [blockLoop]
    split
    · intro h; cases h
    · rename_i hdr b1 h1
      obtain ⟨l1, _⟩ := readBits_len _ _ _ _ h1
      split
      · rename_i e he
        intro h
        simp only [Except.error.injEq] at h
        subst h
        exact blockBody_nofuel _ _ _ _ _ (by omega) he
      · rename_i b2 pos2 out2 hb
        obtain ⟨a1, _, _⟩ := blockBody_adv _ _ _ _ _ _ _ _ hb
        split
        · intro h; cases h
        · exact ih _ _ _ (by omega)

/-! ## the amount of fuel is immaterial -/

theorem symLoop_succ (lit dist : Huff) (f : Nat) (bits : Bits) (pos : Nat) (out : Array UInt8) :
    symLoop lit dist (f + 1) bits pos out =
      (match symStep lit dist bits pos out with
       | .error e => .error e
       | .ok (true, b, p, o) => symLoop lit dist f b p o
       | .ok (false, st) => .ok st) := by
  rw [symLoop]
  generalize symStep lit dist bits pos out = x
  rcases x with e | ⟨c, b, p, o⟩
  · rfl
  · cases c <;> rfl

theorem symLoop_mono (lit dist : Huff) (f : Nat) (bits : Bits) (pos : Nat) (out : Array UInt8)
    (h : symLoop lit dist f bits pos out ≠ .error .fuel) :
    symLoop lit dist (f + 1) bits pos out = symLoop lit dist f bits pos out := by
  induction f generalizing bits pos out with
  | zero => simp [symLoop] at h
  | succ f ih =>
    rw [symLoop_succ] at h
    rw [symLoop_succ lit dist (f + 1), symLoop_succ lit dist f]
    split
    · rfl
    · rename_i b p o hs
      rw [hs] at h
      exact ih _ _ _ h
    · rfl

theorem blockBody_mono (f btype : Nat) (bits : Bits) (pos : Nat) (out : Array UInt8)
    (h : blockBody f btype bits pos out ≠ .error .fuel) :
    blockBody (f + 1) btype bits pos out = blockBody f btype bits pos out := by
  rw [blockBody] at h
  rw [blockBody, blockBody]
  by_cases h0 : btype = 0
  · rw [if_pos h0, if_pos h0]
  · rw [if_neg h0] at h
    rw [if_neg h0, if_neg h0]
    by_cases h1 : btype = 1
    · rw [if_pos h1] at h
      rw [if_pos h1, if_pos h1]
      cases hl : fixedLit with
      | none => rfl
      | some lh =>
        cases hd : fixedDist with
        | none => rfl
        | some dh =>
          rw [hl, hd] at h
          exact symLoop_mono _ _ _ _ _ _ h
    · rw [if_neg h1] at h
      rw [if_neg h1, if_neg h1]
      by_cases h2 : btype = 2
      · rw [if_pos h2] at h
        rw [if_pos h2, if_pos h2]
        cases hh : readDynHeader bits pos with
        | error e => rfl
        | ok v =>
          obtain ⟨lh, dh, b1, pos1⟩ := v
          rw [hh] at h
          exact symLoop_mono _ _ _ _ _ _ h
      · rw [if_neg h2, if_neg h2]

theorem blockLoop_succ (f : Nat) (bits : Bits) (pos : Nat) (out : Array UInt8) :
    blockLoop (f + 1) bits pos out =
      (match readBits 3 bits with
       | none => .error .trunc
       | some (hdr, b1) =>
         match blockBody f (hdr / 2) b1 (pos + 3) out with
         | .error e => .error e
         | .ok (b2, pos2, out2) => if hdr % 2 = 1 then .ok (b2, pos2, out2) else blockLoop f b2 pos2 out2) := by
  rw [blockLoop]
  generalize readBits 3 bits = x
  rcases x with _ | ⟨hdr, b1⟩
  · rfl
  · simp only []
    generalize blockBody f (hdr / 2) b1 (pos + 3) out = y
    rcases y with e | ⟨b2, pos2, out2⟩ <;> rfl

theorem blockLoop_mono (f : Nat) (bits : Bits) (pos : Nat) (out : Array UInt8)
    (h : blockLoop f bits pos out ≠ .error .fuel) :
    blockLoop (f + 1) bits pos out = blockLoop f bits pos out := by
  induction f generalizing bits pos out with
  | zero => simp [blockLoop] at h
  | succ f ih =>
    rw [blockLoop_succ] at h
    rw [blockLoop_succ (f + 1), blockLoop_succ f]
    cases h1 : readBits 3 bits with
    | none => rfl
    | some v =>
      obtain ⟨hdr, b1⟩ := v
      rw [h1] at h
      simp only [] at h ⊢
      have hb : blockBody f (hdr / 2) b1 (pos + 3) out ≠ .error .fuel := by
        intro hx; rw [hx] at h; exact h rfl
      rw [blockBody_mono _ _ _ _ _ hb]
      cases hb2 : blockBody f (hdr / 2) b1 (pos + 3) out with
      | error e => rfl
      | ok w =>
        obtain ⟨b2, pos2, out2⟩ := w
        rw [hb2] at h
        simp only [] at h ⊢
        by_cases hfin : hdr % 2 = 1
        · rw [if_pos hfin, if_pos hfin]
        · rw [if_neg hfin] at h
          rw [if_neg hfin, if_neg hfin]
          exact ih _ _ _ h

/-- **any two amounts of fuel above the number of input bits give the same result** -/
theorem blockLoop_fuel_irrelevant (f g : Nat) (bits : Bits) (pos : Nat) (out : Array UInt8)
    (hf : bits.length < f) (hg : bits.length < g) : blockLoop f bits pos out = blockLoop g bits pos out := by
  have key : ∀ d, blockLoop (bits.length + 1 + d) bits pos out = blockLoop (bits.length + 1) bits pos out := by
    intro d
    induction d with
    | zero => rfl
    | succ d ih =>
      rw [← ih, ← Nat.add_assoc]
      exact blockLoop_mono _ _ _ _ (blockLoop_nofuel _ _ _ _ (by omega))
  have e1 : f = bits.length + 1 + (f - (bits.length + 1)) := by omega
  have e2 : g = bits.length + 1 + (g - (bits.length + 1)) := by omega
  rw [e1, e2, key, key]

/-! ## whole streams -/

/-- **fuel never truncates**: `8·|input| + 1` loop iterations always suffice -/
theorem inflateE_nofuel (input : Bytes) : inflateE input ≠ .error .fuel := by
  unfold inflateE
  split
  · rename_i e he
    intro h
    simp only [Except.error.injEq] at h
    subst h
    exact blockLoop_nofuel _ _ _ _ (by rw [toBits_length]; omega) he
  · intro h; cases h

/-- the reported input consumption lies inside the input, the stream has at least 3 bits, and the output is at
    most 258 bytes per consumed bit -/
theorem inflateE_bounds (input out : Bytes) (c : Nat) (h : inflateE input = .ok (out, c)) :
    1 ≤ c ∧ c ≤ input.length ∧ out.length ≤ 258 * (8 * c) := by
  unfold inflateE at h
  split at h
  · cases h
  · rename_i r pos o hb
    simp only [Except.ok.injEq, Prod.mk.injEq] at h
    obtain ⟨rfl, rfl⟩ := h
    obtain ⟨⟨a1, a2, a3⟩, a4⟩ := blockLoop_adv _ _ _ _ _ _ _ hb
    rw [toBits_length] at a1 a2 a3 a4
    simp only [Array.length_toList, List.size_toArray, List.length_nil] at *
    omega

end Xmp.Inflate
