import XmpModel.Inflate
import XmpProofs.InflateBlocks
/-!
# The dynamic-block header written by `encDynHeader` is read back as the two code-length lists
-/
namespace Xmp.Inflate

theorem readClLens_enc (g : Nat → Nat) (hg : ∀ z, g z < 8) (zs : List Nat) (n : Nat) (hn : zs.length ≤ n)
    (rest : Bits) (acc : List (Nat × Nat)) :
    readClLens n zs (zs.flatMap (fun z => bitsLSB 3 (g z)) ++ rest) acc =
      some ((zs.map (fun z => (z, g z))).reverse ++ acc, rest) := by
  induction zs generalizing n acc with
  | nil => cases n <;> simp [readClLens]
  | cons z zs ih =>
    obtain ⟨n, rfl⟩ : ∃ m, n = m + 1 := ⟨n - 1, by simp at hn; omega⟩
    simp only [List.flatMap_cons, List.append_assoc, readClLens]
    rw [readBits_bitsLSB 3 (g z) _ (hg z)]
    simp only []
    rw [ih n (by simp at hn; omega)]
    simp

theorem flat_lt8 (z : Nat) : flatClLens.getD z 0 < 8 := by
  by_cases h : z < 19
  · revert z; decide
  · rw [List.getD_eq_getElem?_getD, List.getElem?_eq_none (by simp [flatClLens]; omega)]; decide

theorem flat_get (x : Nat) (h : x ≤ 15) : flatClLens.getD x 0 = 4 := by
  have : ∀ x, x < 16 → flatClLens.getD x 0 = 4 := by decide
  exact this x (by omega)

theorem flatCl_ok : CodeOk flatClLens := by
  refine ⟨?_, ?_⟩
  · simp only [firstCode, flatClLens, List.count_append, List.count_replicate]
    decide
  · intro x hx
    simp only [flatClLens, List.mem_append] at hx
    rcases hx with h | h
    · have := mem_replicate_le h; omega
    · simp at h; omega

theorem clLensOf_flat :
    clLensOf ((dezigzag.map (fun z => (z, flatClLens.getD z 0))).reverse ++ []) = flatClLens := by decide

/-- the code lengths come back one by one through the flat code-length code -/
theorem readLens_enc (seq : List Nat) (hseq : ∀ x ∈ seq, x ≤ 15) (acc : List Nat) (total : Nat)
    (ht : acc.length + seq.length = total) (f : Nat) (hf : seq.length < f) (pos : Nat) (r : Bits) :
    readLens (huffOf flatClLens) total f (seq.flatMap (fun l => codeBits flatClLens l) ++ r) pos acc =
      .ok (seq.reverse ++ acc, r, pos + 4 * seq.length) := by
  induction seq generalizing acc f pos with
  | nil =>
    obtain ⟨f, rfl⟩ : ∃ m, f = m + 1 := ⟨f - 1, by simp at hf; omega⟩
    simp at ht
    simp [readLens, ht]
  | cons x xs ih =>
    obtain ⟨f, rfl⟩ : ∃ m, f = m + 1 := ⟨f - 1, by simp at hf; omega⟩
    have hx : x ≤ 15 := hseq x (by simp)
    have hnot : ¬ total ≤ acc.length := by simp at ht; omega
    simp only [List.flatMap_cons, List.append_assoc]
    rw [readLens, if_neg hnot, lensStep,
      decodeSym_code flatClLens _ flatCl_ok.mk_eq flatCl_ok.complete x (by simp [flatClLens]; omega)
        (by rw [flat_get x hx]; decide) (flatCl_ok.le15 _)]
    simp only []
    rw [if_pos (by omega : x < 16), flat_get x hx]
    simp only []
    rw [ih (fun y hy => hseq y (by simp [hy])) (x :: acc) (by simp at ht ⊢; omega) f (by simp at hf; omega)]
    simp
    omega


theorem flatMap_codeBits_length (seq : List Nat) (h : ∀ x ∈ seq, x ≤ 15) :
    (seq.flatMap (fun l => codeBits flatClLens l)).length = 4 * seq.length := by
  induction seq with
  | nil => rfl
  | cons x xs ih =>
    simp only [List.flatMap_cons, List.length_append, codeBits_length, List.length_cons]
    rw [ih (fun y hy => h y (by simp [hy])), flat_get x (h x (by simp))]
    omega

theorem encDynHeader_length (ll dl : List Nat) (hl : ∀ x ∈ ll, x ≤ 15) (hd : ∀ x ∈ dl, x ≤ 15) :
    (encDynHeader ll dl).length = 71 + 4 * (ll.length + dl.length) := by
  have hall : ∀ x ∈ ll ++ dl, x ≤ 15 := by
    intro x hx
    rcases List.mem_append.1 hx with h | h
    · exact hl x h
    · exact hd x h
  have h57 : (dezigzag.flatMap (fun z => bitsLSB 3 (flatClLens.getD z 0))).length = 57 := by decide
  unfold encDynHeader
  simp only [List.length_append, bitsLSB_length, h57, flatMap_codeBits_length _ hall]

theorem readDynHeader_enc (ll dl : List Nat) (h1 : 257 ≤ ll.length) (h2 : ll.length ≤ 288) (h3 : 1 ≤ dl.length)
    (h4 : dl.length ≤ 32) (cl : CodeOk ll) (cd : CodeOk dl) (pos : Nat) (r : Bits) :
    readDynHeader (encDynHeader ll dl ++ r) pos =
      .ok (huffOf ll, huffOf dl, r, pos + (71 + 4 * (ll.length + dl.length))) := by
  unfold readDynHeader encDynHeader
  simp only [List.append_assoc]
  rw [readBits_bitsLSB 5 _ _ (by omega)]
  simp only []
  rw [readBits_bitsLSB 5 _ _ (by omega)]
  simp only []
  rw [readBits_bitsLSB 4 15 _ (by decide)]
  simp only []
  rw [readClLens_enc (fun z => flatClLens.getD z 0) flat_lt8 dezigzag (15 + 4) (by decide)]
  simp only []
  rw [clLensOf_flat, flatCl_ok.mk_eq]
  simp only []
  have e1 : ll.length - 257 + 257 = ll.length := by omega
  have e2 : dl.length - 1 + 1 = dl.length := by omega
  have hall : ∀ x ∈ ll ++ dl, x ≤ 15 := by
    intro x hx
    rcases List.mem_append.1 hx with h | h
    · exact cl.le15' x h
    · exact cd.le15' x h
  rw [readLens_enc (ll ++ dl) hall [] (ll.length - 257 + 257 + (dl.length - 1) + 1) (by simp; omega) _ (by simp; omega)]
  simp only [List.append_nil, List.length_reverse, List.length_append, List.reverse_reverse]
  rw [if_neg (by omega), e1, e2]
  simp only [List.drop_left, List.take_left, List.take_length]
  rw [cd.mk_eq, cl.mk_eq]
  simp only []
  have : pos + 14 + 3 * (15 + 4) + 4 * (ll.length + dl.length) = pos + (71 + 4 * (ll.length + dl.length)) := by omega
  rw [this]

end Xmp.Inflate
