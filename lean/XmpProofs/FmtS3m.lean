import XmpProofs.FmtMod
import XmpModel.FmtS3m
/-!
# S3M packed-pattern codec round trip (`Xmp.Fmt.S3m.unpack (pack …) = p`)
for every choice of redundant `what`-byte flags and opaque effect bytes.
-/
namespace Xmp.Fmt
theorem modAt_append {α : Type} (pre : List α) (x : α) (r : List α) (f : α → α) :
    modAt (pre ++ x :: r) pre.length f = pre ++ f x :: r := by
  induction pre with
  | nil => rfl
  | cons a pre ih => simp [modAt, ih]
end Xmp.Fmt

namespace Xmp.Fmt.S3m
open Xmp Xmp.Fmt

theorem decNote_encNote {n : Nat} (h : NoteOk n) : decNote (encNote n) = n := by
  unfold NoteOk KEY_OFF at h
  rcases h with h | h | ⟨h1, h2⟩
  · subst h; decide
  · subst h; decide
  · have a : ¬ n = 0 := by omega
    have b : ¬ n = KEY_OFF := by unfold KEY_OFF; omega
    have hx : (n - 13) / 12 * 16 + (n - 13) % 12 < 254 := by omega
    unfold encNote decNote
    simp only [a, b, if_false]
    have e1 : ¬ u8 ((n - 13) / 12 * 16 + (n - 13) % 12) = 255 := by
      intro hh; have := congrArg UInt8.toNat hh; rw [u8_toNat] at this; simp at this; omega
    have e2 : ¬ u8 ((n - 13) / 12 * 16 + (n - 13) % 12) = 254 := by
      intro hh; have := congrArg UInt8.toNat hh; rw [u8_toNat] at this; simp at this; omega
    simp only [e1, e2, if_false, u8_toNat]
    generalize hq : (n - 13) / 12 = q at *
    generalize hr : (n - 13) % 12 = r at *
    have hr12 : r < 12 := by omega
    have hq7 : q ≤ 7 := by omega
    have hn : n = 13 + 12 * q + r := by omega
    have m1 : (q * 16 + r) % 256 = q * 16 + r := by omega
    rw [m1]
    have m2 : (q * 16 + r) / 16 = q := by omega
    have m3 : (q * 16 + r) % 16 = r := by omega
    rw [m2, m3]; omega

/-- the entry with explicit group flags -/
def entryG (k : Nat) (nb ib vb : UInt8) (fx : UInt8 × UInt8) (ni v e : Bool) : Bytes :=
  if !ni && !v && !e then []
  else
    [u8 (k + (if ni then 32 else 0) + (if v then 64 else 0) + (if e then 128 else 0))] ++
    (if ni then [nb, ib] else []) ++ (if v then [vb] else []) ++ (if e then [fx.1, fx.2] else [])

def volByte (c : Cell) : UInt8 := u8 (if c.vol = 0 then 255 else c.vol - 1)

theorem encEntry_eq (k : Nat) (c : Cell) (force : Nat) (fx : UInt8 × UInt8) :
    encEntry k c force fx = entryG k (encNote c.note) (u8 c.ins) (volByte c) fx
      (decide (c.note ≠ 0 ∨ c.ins ≠ 0 ∨ force % 2 = 1)) (decide (c.vol ≠ 0 ∨ force / 2 % 2 = 1))
      (decide (force / 4 % 2 = 1)) := rfl

/-- what the decoder does to the event of the channel for given group flags -/
def updG (nb ib vb : UInt8) (ni v : Bool) (e : Cell) : Cell :=
  let e := if ni then { e with note := decNote nb, ins := ib.toNat } else e
  if v then { e with vol := (vb.toNat + 1) % 256 } else e

theorem entry_eval (chn : Nat) (w : UInt8) (k : Nat) (a b c : Bool) (hk : k < 32)
    (hw : w.toNat = k + (if a then 32 else 0) + (if b then 64 else 0) + (if c then 128 else 0))
    (nb ib vb f1 f2 : UInt8) (tail : Bytes) (row : List Cell) :
    entry chn w ((if a then [nb, ib] else []) ++ (if b then [vb] else []) ++ (if c then [f1, f2] else []) ++ tail) row =
      some (tail, (if a then 2 else 0) + (if b then 1 else 0) + (if c then 2 else 0),
            if k < chn then modAt row k (updG nb ib vb a b) else row) := by
  have e1 : w.toNat % 32 = k := by rw [hw]; cases a <;> cases b <;> cases c <;> simp <;> omega
  have e2 : (w.toNat / 32 % 2 = 1) = (a = true) := by
    rw [hw]; cases a <;> cases b <;> cases c <;> simp <;> omega
  have e3 : (w.toNat / 64 % 2 = 1) = (b = true) := by
    rw [hw]; cases a <;> cases b <;> cases c <;> simp <;> omega
  have e4 : (w.toNat / 128 % 2 = 1) = (c = true) := by
    rw [hw]; cases a <;> cases b <;> cases c <;> simp <;> omega
  unfold entry
  simp only [e1, e2, e3, e4]
  cases a <;> cases b <;> cases c <;> simp <;> rfl

theorem entry_entryG (chn k : Nat) (hk : k < 32) (nb ib vb : UInt8) (fx : UInt8 × UInt8) (ni v e : Bool)
    (hne : (!ni && !v && !e) = false) (tail : Bytes) (row : List Cell) :
    ∃ w body, entryG k nb ib vb fx ni v e = w :: body ∧ w ≠ 0 ∧
      body.length = (if ni then 2 else 0) + (if v then 1 else 0) + (if e then 2 else 0) ∧
      entry chn w (body ++ tail) row =
        some (tail, body.length, if k < chn then modAt row k (updG nb ib vb ni v) else row) := by
  have hlt : k + (if ni then 32 else 0) + (if v then 64 else 0) + (if e then 128 else 0) < 256 := by
    cases ni <;> cases v <;> cases e <;> simp <;> omega
  have hpos : 0 < k + (if ni then 32 else 0) + (if v then 64 else 0) + (if e then 128 else 0) := by
    cases ni <;> cases v <;> cases e <;> simp at hne ⊢ <;> omega
  have hw := u8_toNat_lt hlt
  refine ⟨u8 (k + (if ni then 32 else 0) + (if v then 64 else 0) + (if e then 128 else 0)),
    (if ni then [nb, ib] else []) ++ (if v then [vb] else []) ++ (if e then [fx.1, fx.2] else []), ?_, ?_, ?_, ?_⟩
  · unfold entryG; simp only [hne]; simp
  · intro hh
    have h0 := congrArg UInt8.toNat hh
    rw [hw] at h0
    have z : (0 : UInt8).toNat = 0 := rfl
    omega
  · cases ni <;> cases v <;> cases e <;> simp
  · rw [entry_eval chn _ k ni v e hk hw nb ib vb fx.1 fx.2 tail row]
    cases ni <;> cases v <;> cases e <;> simp

end Xmp.Fmt.S3m
