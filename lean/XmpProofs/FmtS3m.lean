import XmpProofs.FmtMod
import XmpModel.FmtS3m
/-!
# S3M packed-pattern codec round trip (`Xmp.Fmt.S3m.unpack (pack …) = p`)
for every choice of redundant `what`-byte flags and opaque effect bytes.
-/
namespace Xmp.Fmt
theorem modAt_append {α : Type} (pre : List α) (x : α) (r : List α) (f : α → α) :
    modAt (pre ++ x :: r) pre.length f = pre ++ f x :: r := by
  induction pre with
  | nil => rfl
  | cons a pre ih => simp [modAt, ih]
end Xmp.Fmt

namespace Xmp.Fmt.S3m
open Xmp Xmp.Fmt

theorem decNote_encNote {n : Nat} (h : NoteOk n) : decNote (encNote n) = n := by
  unfold NoteOk KEY_OFF at h
  rcases h with h | h | ⟨h1, h2⟩
  · subst h; decide
  · subst h; decide
  · have a : ¬ n = 0 := by omega
    have b : ¬ n = KEY_OFF := by unfold KEY_OFF; omega
    have hx : (n - 13) / 12 * 16 + (n - 13) % 12 < 254 := by omega
    unfold encNote decNote
    simp only [a, b, if_false]
    have e1 : ¬ u8 ((n - 13) / 12 * 16 + (n - 13) % 12) = 255 := by
      intro hh; have := congrArg UInt8.toNat hh; rw [u8_toNat] at this; simp at this; omega
    have e2 : ¬ u8 ((n - 13) / 12 * 16 + (n - 13) % 12) = 254 := by
      intro hh; have := congrArg UInt8.toNat hh; rw [u8_toNat] at this; simp at this; omega
    simp only [e1, e2, if_false, u8_toNat]
    generalize hq : (n - 13) / 12 = q at *
    generalize hr : (n - 13) % 12 = r at *
    have hr12 : r < 12 := by omega
    have hq7 : q ≤ 7 := by omega
    have hn : n = 13 + 12 * q + r := by omega
    have m1 : (q * 16 + r) % 256 = q * 16 + r := by omega
    rw [m1]
    have m2 : (q * 16 + r) / 16 = q := by omega
    have m3 : (q * 16 + r) % 16 = r := by omega
    rw [m2, m3]; omega

/-- the entry with explicit group flags -/
def entryG (k : Nat) (nb ib vb : UInt8) (fx : UInt8 × UInt8) (ni v e : Bool) : Bytes :=
  if !ni && !v && !e then []
  else
    [u8 (k + (if ni then 32 else 0) + (if v then 64 else 0) + (if e then 128 else 0))] ++
    (if ni then [nb, ib] else []) ++ (if v then [vb] else []) ++ (if e then [fx.1, fx.2] else [])

def volByte (c : Cell) : UInt8 := u8 (if c.vol = 0 then 255 else c.vol - 1)

theorem encEntry_eq (k : Nat) (c : Cell) (force : Nat) (fx : UInt8 × UInt8) :
    encEntry k c force fx = entryG k (encNote c.note) (u8 c.ins) (volByte c) fx
      (decide (c.note ≠ 0 ∨ c.ins ≠ 0 ∨ force % 2 = 1)) (decide (c.vol ≠ 0 ∨ force / 2 % 2 = 1))
      (decide (force / 4 % 2 = 1)) := rfl

/-- what the decoder does to the event of the channel for given group flags -/
def updG (nb ib vb : UInt8) (ni v : Bool) (e : Cell) : Cell :=
  let e := if ni then { e with note := decNote nb, ins := ib.toNat } else e
  if v then { e with vol := (vb.toNat + 1) % 256 } else e

theorem entry_eval (chn : Nat) (w : UInt8) (k : Nat) (a b c : Bool) (hk : k < 32)
    (hw : w.toNat = k + (if a then 32 else 0) + (if b then 64 else 0) + (if c then 128 else 0))
    (nb ib vb f1 f2 : UInt8) (tail : Bytes) (row : List Cell) :
    entry chn w ((if a then [nb, ib] else []) ++ (if b then [vb] else []) ++ (if c then [f1, f2] else []) ++ tail) row =
      some (tail, (if a then 2 else 0) + (if b then 1 else 0) + (if c then 2 else 0),
            if k < chn then modAt row k (updG nb ib vb a b) else row) := by
  have e1 : w.toNat % 32 = k := by rw [hw]; cases a <;> cases b <;> cases c <;> simp <;> omega
  have e2 : (w.toNat / 32 % 2 = 1) = (a = true) := by
    rw [hw]; cases a <;> cases b <;> cases c <;> simp <;> omega
  have e3 : (w.toNat / 64 % 2 = 1) = (b = true) := by
    rw [hw]; cases a <;> cases b <;> cases c <;> simp <;> omega
  have e4 : (w.toNat / 128 % 2 = 1) = (c = true) := by
    rw [hw]; cases a <;> cases b <;> cases c <;> simp <;> omega
  unfold entry
  simp only [e1, e2, e3, e4]
  cases a <;> cases b <;> cases c <;> simp <;> rfl

theorem entry_entryG (chn k : Nat) (hk : k < 32) (nb ib vb : UInt8) (fx : UInt8 × UInt8) (ni v e : Bool)
    (hne : (!ni && !v && !e) = false) (tail : Bytes) (row : List Cell) :
    ∃ w body, entryG k nb ib vb fx ni v e = w :: body ∧ w ≠ 0 ∧
      body.length = (if ni then 2 else 0) + (if v then 1 else 0) + (if e then 2 else 0) ∧
      entry chn w (body ++ tail) row =
        some (tail, body.length, if k < chn then modAt row k (updG nb ib vb ni v) else row) := by
  have hlt : k + (if ni then 32 else 0) + (if v then 64 else 0) + (if e then 128 else 0) < 256 := by
    cases ni <;> cases v <;> cases e <;> simp <;> omega
  have hpos : 0 < k + (if ni then 32 else 0) + (if v then 64 else 0) + (if e then 128 else 0) := by
    cases ni <;> cases v <;> cases e <;> simp at hne ⊢ <;> omega
  have hw := u8_toNat_lt hlt
  refine ⟨u8 (k + (if ni then 32 else 0) + (if v then 64 else 0) + (if e then 128 else 0)),
    (if ni then [nb, ib] else []) ++ (if v then [vb] else []) ++ (if e then [fx.1, fx.2] else []), ?_, ?_, ?_, ?_⟩
  · unfold entryG; simp only [hne]; simp
  · intro hh
    have h0 := congrArg UInt8.toNat hh
    rw [hw] at h0
    have z : (0 : UInt8).toNat = 0 := rfl
    omega
  · cases ni <;> cases v <;> cases e <;> simp
  · rw [entry_eval chn _ k ni v e hk hw nb ib vb fx.1 fx.2 tail row]
    cases ni <;> cases v <;> cases e <;> simp


theorem updG_empty (c : Cell) (h : CellOk c) (force : Nat) :
    updG (encNote c.note) (u8 c.ins) (volByte c)
      (decide (c.note ≠ 0 ∨ c.ins ≠ 0 ∨ force % 2 = 1)) (decide (c.vol ≠ 0 ∨ force / 2 % 2 = 1)) {} = c := by
  obtain ⟨note, ins, vol⟩ := c
  obtain ⟨hn, hi, hv⟩ := h
  simp only at hn hi hv
  have hnote := decNote_encNote hn
  have hins : (u8 ins).toNat = ins := u8_toNat_lt hi
  have hvol : ((volByte ⟨note, ins, vol⟩).toNat + 1) % 256 = vol := by
    unfold volByte; simp only [u8_toNat]; split <;> omega
  unfold updG
  simp only [hnote, hins, hvol]
  by_cases a : (note ≠ 0 ∨ ins ≠ 0 ∨ force % 2 = 1) <;> by_cases b : (vol ≠ 0 ∨ force / 2 % 2 = 1) <;>
    simp only [a, b, decide_true, decide_false, if_true] <;> simp at a b <;> simp_all

theorem encEntry_length_le (k : Nat) (c : Cell) (force : Nat) (fx : UInt8 × UInt8) :
    (encEntry k c force fx).length ≤ 6 := by
  rw [encEntry_eq]; unfold entryG
  generalize decide (c.note ≠ 0 ∨ c.ins ≠ 0 ∨ force % 2 = 1) = a
  generalize decide (c.vol ≠ 0 ∨ force / 2 % 2 = 1) = b
  generalize decide (force / 4 % 2 = 1) = d
  cases a <;> cases b <;> cases d <;> simp

/-- one row: the entries of the remaining channels followed by the end-of-row byte -/
theorem row_rt (chn : Nat) (hchn : chn ≤ 32) (force : Nat → Nat) (fx : Nat → UInt8 × UInt8)
    (cs : List Cell) (hcs : ∀ c ∈ cs, CellOk c) (pre : List Cell) (k i : Nat) (hpre : pre.length = k)
    (hk : k + cs.length = chn) (tail : Bytes) (fuel : Nat) (pl : Int)
    (hf : (encRowFrom force fx cs k i).length + 1 ≤ fuel)
    (hpl : ((encRowFrom force fx cs k i).length : Int) ≤ pl) :
    ∃ pl' : Int, unpackRow chn fuel (encRowFrom force fx cs k i ++ 0 :: tail) pl
        (pre ++ List.replicate cs.length ({} : Cell)) = some (pre ++ cs, tail, pl') ∧
      pl - (encRowFrom force fx cs k i).length ≤ pl' := by
  induction cs generalizing pre k i fuel pl with
  | nil =>
    obtain ⟨f, rfl⟩ : ∃ f, fuel = f + 1 := ⟨fuel - 1, by simp [encRowFrom] at hf; omega⟩
    simp only [encRowFrom, List.length_nil, Int.natCast_zero] at hpl
    refine ⟨pl, ?_, by simp [encRowFrom]⟩
    have : ¬ pl < 0 := by omega
    simp [encRowFrom, unpackRow, this]
  | cons c cs ih =>
    subst hpre
    have hc : CellOk c := hcs c (by simp)
    have hk32 : pre.length < 32 := by simp at hk; omega
    have hkc : pre.length < chn := by simp at hk; omega
    simp only [encRowFrom, List.length_append] at hf hpl
    -- the row with cell `c` done
    have hrow : pre ++ List.replicate (c :: cs).length ({} : Cell) = pre ++ ({} : Cell) :: List.replicate cs.length {} := by
      simp [List.replicate_succ]
    have hnext : (pre ++ [c]) ++ List.replicate cs.length ({} : Cell) = pre ++ c :: List.replicate cs.length {} := by simp
    have hdone : (pre ++ [c]) ++ cs = pre ++ c :: cs := by simp
    by_cases hne : (encEntry pre.length c (force i) (fx i)) = []
    · -- omitted entry: the cell is empty
      have hce : c = {} := by
        have := updG_empty c hc (force i)
        rw [encEntry_eq] at hne
        unfold entryG at hne
        split at hne
        · rename_i hh
          simp only [Bool.and_eq_true, Bool.not_eq_eq_eq_not, Bool.not_true, decide_eq_false_iff_not] at hh
          rw [← this]
          simp only [hh.1.1, hh.1.2, decide_false]
          rfl
        · simp at hne
      obtain ⟨pl', h1, h2⟩ := ih (fun c hc => hcs c (by simp [hc])) (pre ++ [c]) (pre.length + 1) (i + 1)
        (by simp) (by simp at hk ⊢; omega) fuel pl (by rw [hne] at hf; simpa using hf)
        (by rw [hne] at hpl; simpa using hpl)
      refine ⟨pl', ?_, ?_⟩
      · simp only [encRowFrom]
        rw [hne, List.nil_append]
        rw [hnext, hdone] at h1
        subst hce
        rw [hrow]; exact h1
      · simp only [encRowFrom]
        rw [hne, List.nil_append]; exact h2
    · -- a real entry
      rw [encEntry_eq] at hne hf hpl
      have hne' : (!decide (c.note ≠ 0 ∨ c.ins ≠ 0 ∨ force i % 2 = 1) && !decide (c.vol ≠ 0 ∨ force i / 2 % 2 = 1) &&
          !decide (force i / 4 % 2 = 1)) = false := by
        cases hb : (!decide (c.note ≠ 0 ∨ c.ins ≠ 0 ∨ force i % 2 = 1) && !decide (c.vol ≠ 0 ∨ force i / 2 % 2 = 1) &&
          !decide (force i / 4 % 2 = 1))
        · rfl
        · exfalso; apply hne; unfold entryG; simp only [hb, if_true]
      obtain ⟨w, body, hwb, hw0, hbl, hent⟩ := entry_entryG chn pre.length hk32 (encNote c.note) (u8 c.ins) (volByte c) (fx i) _ _ _ hne'
        (encRowFrom force fx cs (pre.length + 1) (i + 1) ++ 0 :: tail) (pre ++ ({} : Cell) :: List.replicate cs.length {})
      rw [hwb] at hf hpl
      simp only [List.length_cons] at hf hpl
      obtain ⟨f, rfl⟩ : ∃ f, fuel = f + 1 := ⟨fuel - 1, by omega⟩
      obtain ⟨pl', h1, h2⟩ := ih (fun c hc => hcs c (by simp [hc])) (pre ++ [c]) (pre.length + 1) (i + 1)
        (by simp) (by simp at hk ⊢; omega) f (pl - body.length) (by omega) (by omega)
      refine ⟨pl', ?_, ?_⟩
      · simp only [encRowFrom]
        rw [encEntry_eq, hwb, hrow]
        have hnn : ¬ pl < 0 := by omega
        simp only [List.cons_append, List.append_assoc, unpackRow, hnn, if_false, hw0]
        rw [hent]
        simp only [hkc, if_true]
        rw [modAt_append, updG_empty c hc (force i), ← hnext, h1, hdone]
      · simp only [encRowFrom, List.length_append]
        rw [encEntry_eq, hwb]; simp only [List.length_cons]; omega


theorem rows_rt (chn : Nat) (hchn : chn ≤ 32) (force : Nat → Nat) (fx : Nat → UInt8 × UInt8)
    (n : Nat) (cells : List Cell) (hl : cells.length = n * chn) (hcs : ∀ c ∈ cells, CellOk c) (i : Nat)
    (tail : Bytes) (pl : Int) (hpl : ((encRows chn force fx n cells i).length : Int) ≤ pl) :
    ∃ R, unpackRows chn n (encRows chn force fx n cells i ++ tail) pl = some R ∧ R.flatten = cells := by
  induction n generalizing cells i pl with
  | zero =>
    refine ⟨[], by simp [unpackRows], ?_⟩
    have : cells = [] := List.eq_nil_of_length_eq_zero (by simpa using hl)
    simp [this]
  | succ n ih =>
    have hlen : chn ≤ cells.length := by rw [hl]; exact Nat.le_mul_of_pos_left chn (by omega)
    have htake : (cells.take chn).length = chn := by simp [List.length_take]; omega
    simp only [encRows, List.length_append, List.length_cons, List.length_nil] at hpl
    have hnn : ¬ pl < 0 := by omega
    obtain ⟨pl', h1, h2⟩ := row_rt chn hchn force fx (cells.take chn)
      (fun c hc => hcs c (List.mem_of_mem_take hc)) [] 0 i rfl (by simp [htake])
      (encRows chn force fx n (cells.drop chn) (i + chn) ++ tail)
      ((encRowFrom force fx (cells.take chn) 0 i ++ 0 :: (encRows chn force fx n (cells.drop chn) (i + chn) ++ tail)).length + 1)
      pl (by simp) (by omega)
    obtain ⟨R, h3, h4⟩ := ih (cells.drop chn) (by simp [List.length_drop, hl, Nat.add_mul]) 
      (fun c hc => hcs c (List.mem_of_mem_drop hc)) (i + chn) pl' (by omega)
    refine ⟨cells.take chn :: R, ?_, ?_⟩
    · simp only [encRows, unpackRows, hnn, if_false, List.append_assoc, List.cons_append, List.nil_append]
      simp only [List.nil_append, htake] at h1
      unfold emptyRow
      rw [h1]
      simp only [h3, Option.map_some]
    · simp [h4]

/-- `(pack …).length ≤ rows * (6 * chn + 1)` -/
theorem encRowFrom_length_le (force : Nat → Nat) (fx : Nat → UInt8 × UInt8) (cs : List Cell) (k i : Nat) :
    (encRowFrom force fx cs k i).length ≤ 6 * cs.length := by
  induction cs generalizing k i with
  | nil => simp [encRowFrom]
  | cons c cs ih =>
    have := encEntry_length_le k c (force i) (fx i)
    have := ih (k + 1) (i + 1)
    simp only [encRowFrom, List.length_append, List.length_cons]; omega

theorem encRows_length_le (chn : Nat) (force : Nat → Nat) (fx : Nat → UInt8 × UInt8) (n : Nat) (cells : List Cell) (i : Nat) :
    (encRows chn force fx n cells i).length ≤ n * (6 * chn + 1) := by
  induction n generalizing cells i with
  | zero => simp [encRows]
  | succ n ih =>
    have h1 := encRowFrom_length_le force fx (cells.take chn) 0 i
    have h2 := ih (cells.drop chn) (i + chn)
    have h3 : (cells.take chn).length ≤ chn := by simp [List.length_take]; omega
    simp only [encRows, List.length_append, List.length_cons, List.length_nil]
    rw [Nat.add_mul]; omega

/-- **S3M pattern codec**: a packed pattern, written with any choice of redundant `what` flags and
effect bytes, preceded by its length word and followed by anything, unpacks to the pattern. -/
theorem unpack_pack (chn : Nat) (p : Pat) (force : Nat → Nat) (fx : Nat → UInt8 × UInt8) (i : Nat)
    (hc : 1 ≤ chn ∧ chn ≤ 32) (hp : PatOk chn p) (rest : Bytes) :
    unpack chn (le16 ((pack chn p force fx i).length + 2) ++ pack chn p force fx i ++ rest) = some p := by
  obtain ⟨hrows, hlen, hcells⟩ := hp
  have hL := encRows_length_le chn force fx p.rows p.cells i
  rw [hrows] at hL
  have hL2 : (pack chn p force fx i).length + 2 < 65536 := by
    unfold pack
    have : 64 * (6 * chn + 1) ≤ 64 * (6 * 32 + 1) := Nat.mul_le_mul_left 64 (by omega)
    rw [hrows]; omega
  generalize hd : pack chn p force fx i = d at *
  obtain ⟨R, h3, h4⟩ := rows_rt chn hc.2 force fx 64 p.cells (by rw [hlen]) hcells i rest d.length
    (by rw [← hd]; unfold pack; rw [hrows]; exact Int.le_refl _)
  unfold unpack
  have e1 : (le16 (d.length + 2) ++ d ++ rest).length ≥ 2 := by simp [le16]
  have e2 : ¬ (le16 (d.length + 2) ++ d ++ rest).length < 2 := by omega
  have e3 : (le16 (d.length + 2) ++ d ++ rest).drop 2 = d ++ rest := by simp [le16]
  have e4 : rd16le ((le16 (d.length + 2) ++ d ++ rest).take 2) = d.length + 2 := by
    simp only [le16, List.cons_append, List.nil_append, List.take, rd16le, u8_toNat]; omega
  simp only [e2, if_false, e3, e4]
  have e5 : ((d.length + 2 : Nat) : Int) - 2 = (d.length : Int) := by omega
  rw [e5]
  have hd' : d = encRows chn force fx 64 p.cells i := by rw [← hd]; unfold pack; rw [hrows]
  rw [hd', ← hd'] at h3
  rw [hd'] 
  rw [hd'] at h3
  rw [h3]
  simp only [Option.map_some, h4]
  congr 1
  cases p; simp_all

end Xmp.Fmt.S3m
