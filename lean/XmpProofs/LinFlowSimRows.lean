import XmpProofs.LinFlow
/-! C18: the player over whole patterns (any effect of the vocabulary incl. the jump row, the
last row of a pattern, the scan's end point inside the stretch), with full scan-style row
records (`rowRecs`). -/
set_option linter.unusedSimpArgs false
set_option linter.unusedVariables false
namespace Xmp.LinFlow

theorem rowRecs_nil : rowRecs [] = [] := rfl
theorem rowRecs_cons (s : PlaySt) (F : List PlaySt) :
    rowRecs (s :: F) = if s.frame = 0 then recOf s :: rowRecs F else rowRecs F := by
  by_cases h : s.frame = 0 <;> simp [rowRecs, h]
theorem rowRecs_append (F G : List PlaySt) : rowRecs (F ++ G) = rowRecs F ++ rowRecs G := by
  simp [rowRecs]
theorem rowTrace_eq_rowRecs (F : List PlaySt) : rowTrace F = (rowRecs F).map posOf := by
  simp [rowTrace, rowRecs, posOf, recOf]

/-- frames in the middle of a row carry no row record -/
theorem runN_mid_recs (e : PlayEnv) : ∀ (k : Nat) (p : PlaySt), 1 ≤ p.frame → p.loopCount = 0 →
    p.frame + k < p.speed * (1 + p.delay) →
    ∃ F, e.runN k p = some (F, later p k) ∧ rowRecs F = [] ∧ ticks F = k * tick p.bpm ∧ F.length = k := by
  intro k p h1 h2 h3
  obtain ⟨F, hrun, htr, htk, hlen⟩ := runN_mid e k p h1 h2 h3
  refine ⟨F, hrun, ?_, htk, hlen⟩
  have : (rowRecs F).map posOf = [] := by rw [← rowTrace_eq_rowRecs, htr]
  simpa using this

/-- state handed to `next_row` after the last tick of a row whose first rendered frame is `r0` -/
def rowLast (r0 : PlaySt) : PlaySt :=
  { r0 with frame := r0.speed * (1 + r0.delay),
            time := r0.time + (r0.speed * (1 + r0.delay) - 1) * tick r0.bpm,
            ctime := r0.ctime + (r0.speed * (1 + r0.delay) - 1) * tick r0.bpm }

/-- **One row, generic.**  If the first frame of a row renders to `r0` (new-row work done, loop
counter untouched), the player spends exactly `speed·(1+delay)` frames in the row and then calls
`next_row`. -/
theorem runN_row_of_first (e : PlayEnv) (p r0 : PlaySt) (hr : e.render p = r0) (hf : r0.frame = 0)
    (hl : r0.loopCount = 0) (hN : 1 ≤ r0.speed * (1 + r0.delay)) :
    ∃ F, F.length = r0.speed * (1 + r0.delay) ∧ rowRecs F = [recOf r0] ∧
      ticks F = r0.speed * (1 + r0.delay) * tick r0.bpm ∧
      e.runN (r0.speed * (1 + r0.delay)) p = (e.nextRow (rowLast r0)).map fun p' => (F, p') := by
  have hre : rowLast r0 = { r0 with frame := r0.speed * (1 + r0.delay), time := r0.time + (r0.speed * (1 + r0.delay) - 1) * tick r0.bpm, ctime := r0.ctime + (r0.speed * (1 + r0.delay) - 1) * tick r0.bpm } := rfl
  have hNdef : r0.speed * (1 + r0.delay) = r0.speed * (1 + r0.delay) := rfl
  generalize hNN : r0.speed * (1 + r0.delay) = N at hre hN ⊢
  have hlc0 : ¬ (e.render p).loopCount > 0 := by rw [hr]; simp [hl]
  by_cases h1 : N = 1
  · subst h1
    refine ⟨[r0], rfl, ?_, ?_, ?_⟩
    · rw [rowRecs_cons, rowRecs_nil]; simp [hf]
    · rw [ticks_cons, ticks_nil]; simp
    · simp only [PlayEnv.runN, PlayEnv.stepF, hlc0, if_false]
      have hadv : e.advance (e.render p) = e.nextRow (rowLast r0) := by
        have heq : ({ r0 with frame := 0 + 1 } : PlaySt) = rowLast r0 := by
          rw [hre]
          simp only [PlaySt.mk.injEq, true_and, and_true, Nat.sub_self, Nat.zero_mul, Nat.add_zero, Nat.zero_add, and_self]
        rw [hr]
        simp only [PlayEnv.advance, hf]
        have hge : (0 + 1 ≥ r0.speed * (1 + r0.delay)) := by omega
        simp only [hge, if_true]
        rw [heq]
      rw [hadv, hr]
      cases e.nextRow (rowLast r0) <;> simp
  · -- N ≥ 2
    obtain ⟨p1, hp1⟩ : ∃ p1 : PlaySt, p1 = { r0 with frame := 1 } := ⟨_, rfl⟩
    have hadv : e.advance (e.render p) = some p1 := by
      rw [hr, hp1]
      simp only [PlayEnv.advance, hf]
      have hlt : ¬ (0 + 1 ≥ r0.speed * (1 + r0.delay)) := by omega
      simp only [hlt, if_false]
    have hp1s : p1.speed * (1 + p1.delay) = N := by rw [hp1]; exact hNN
    have hp1f : p1.frame = 1 := by rw [hp1]
    have hp1b : p1.bpm = r0.bpm := by rw [hp1]
    obtain ⟨F', hrun, htr, htk, hlen⟩ := runN_mid_recs e (N - 2) p1 (by omega) (by rw [hp1]; exact hl)
      (by rw [hp1s, hp1f]; omega)
    obtain ⟨q, hq⟩ : ∃ q : PlaySt, q = later p1 (N - 2) := ⟨_, rfl⟩
    rw [← hq] at hrun
    have hqe : q = { r0 with frame := 1 + (N - 2), time := r0.time + (N - 2) * tick r0.bpm, ctime := r0.ctime + (N - 2) * tick r0.bpm } := by
      rw [hq, hp1]; rfl
    have hqf : q.frame = N - 1 := by rw [hqe]; show 1 + (N - 2) = N - 1; omega
    have hmul : ∀ t : Nat, (N - 2) * t + t = (N - 1) * t := by
      intro t
      have h2 : N - 1 = (N - 2) + 1 := by omega
      rw [h2, Nat.add_mul]; omega
    have hrq : e.render q = { r0 with frame := 1 + (N - 2), time := r0.time + (N - 1) * tick r0.bpm, ctime := r0.ctime + (N - 1) * tick r0.bpm } := by
      have hne0 : ¬ q.frame = 0 := by omega
      simp only [PlayEnv.render, hne0, if_false]
      rw [hqe]
      simp only [PlaySt.mk.injEq, true_and]
      have := hmul (tick r0.bpm)
      constructor <;> omega
    have hlcq : ¬ (e.render q).loopCount > 0 := by rw [hrq]; simp [hl]
    have hadvq : e.advance (e.render q) = e.nextRow (rowLast r0) := by
      rw [hrq, hre]
      simp only [PlayEnv.advance]
      have hge : 1 + (N - 2) + 1 ≥ r0.speed * (1 + r0.delay) := by omega
      simp only [hge, if_true]
      congr 1
      simp only [PlaySt.mk.injEq, true_and, and_true]
      omega
    refine ⟨r0 :: (F' ++ [e.render q]), by simp [hlen]; omega, ?_, ?_, ?_⟩
    · rw [rowRecs_cons, rowRecs_append, htr, rowRecs_cons, rowRecs_nil]
      have hq0 : ¬ (e.render q).frame = 0 := by rw [hrq]; show ¬ 1 + (N - 2) = 0; omega
      simp only [hf, if_true, hq0, if_false, List.nil_append]
    · rw [ticks_cons, ticks_append, htk, ticks_cons, ticks_nil]
      have hbq : (e.render q).bpm = r0.bpm := by rw [hrq]
      rw [hbq, hp1b, Nat.add_zero]
      have := hmul (tick r0.bpm)
      have h3 : N = (N - 1) + 1 := by omega
      conv => rhs; rw [h3, Nat.add_mul]
      omega
    · have hsplit : N = ((N - 2) + 1) + 1 := by omega
      rw [hsplit, PlayEnv.runN]
      simp only [PlayEnv.stepF, hlc0, if_false, hadv, Option.map_some]
      have h2 := runN_add' e (N - 2) p1 F' q 1 hrun
      rw [h2]
      simp only [PlayEnv.runN, PlayEnv.stepF, hlcq, if_false, hadvq]
      rw [hr]
      cases e.nextRow (rowLast r0) <;> simp

/-! ## one row, any effect -/

def fxPbreak (fx : Fx) (b : Bool) : Bool :=
  match fx with
  | .jump _ => true
  | _ => b

def fxJump (fx : Fx) (j : Option Nat) : Option Nat :=
  match fx with
  | .jump k => some k
  | _ => j

/-- the first rendered frame of a row with effect `fx` -/
def rowFirst (e : PlayEnv) (p : PlaySt) (fx : Fx) : PlaySt :=
  { p with speed := fxSpeed fx p.speed, bpm := fxBpm fx p.bpm, delay := fx.delayOf,
           pbreak := fxPbreak fx p.pbreak, jump := fxJump fx p.jump,
           endPoint := endAfter e p.ord p.row p.endPoint,
           time := p.time + tick (fxBpm fx p.bpm), ctime := p.ctime + tick (fxBpm fx p.bpm) }

theorem render_firstG (e : PlayEnv) (p : PlaySt) (fx : Fx) (hfx : e.fxAt p.ord p.row = fx) (hw : fx.WF)
    (hfr : p.frame = 0) (hd : p.delay = 0)
    (hne : ¬ (p.ord = e.si.endOrd ∧ p.row = e.si.endRow ∧ p.endPoint = 0)) :
    e.render p = rowFirst e p fx := by
  have hce : e.checkEnd p = { p with endPoint := endAfter e p.ord p.row p.endPoint } := by
    simp only [PlayEnv.checkEnd, endAfter]
    by_cases h1 : p.ord = e.si.endOrd ∧ p.row = e.si.endRow
    · have : ¬ p.endPoint = 0 := fun h => hne ⟨h1.1, h1.2, h⟩
      simp [h1, this]
    · simp [h1]
  simp only [PlayEnv.render, hfr, if_true, PlayEnv.newRow, hce, hfx, rowFirst]
  cases fx
  case rowdelay x => exact absurd hw (by simp [Fx.WF])
  all_goals (simp [readFx, fxSpeed, fxBpm, Fx.delayOf, fxPbreak, fxJump, hd])
  split <;> simp [hd]

theorem recOf_rowFirst (e : PlayEnv) (p : PlaySt) (fx : Fx) :
    recOf (rowFirst e p fx) = { ord := p.ord, row := p.row, speed := fxSpeed fx p.speed, bpm := fxBpm fx p.bpm,
                                delay := fx.delayOf, t0 := p.time } := by
  simp only [recOf, rowFirst, Nat.add_sub_cancel]

/-- argument of `next_row` at the end of a row with effect `fx` -/
def rowEndG (e : PlayEnv) (p : PlaySt) (fx : Fx) : PlaySt := rowLast (rowFirst e p fx)

theorem runN_rowG (e : PlayEnv) (p : PlaySt) (fx : Fx) (hfx : e.fxAt p.ord p.row = fx)
    (hw : fx.WF) (hfr : p.frame = 0) (hd : p.delay = 0) (hl : p.loopCount = 0) (hs : 1 ≤ p.speed)
    (hne : ¬ (p.ord = e.si.endOrd ∧ p.row = e.si.endRow ∧ p.endPoint = 0)) :
    ∃ F, F.length = rowFrames fx p.speed ∧
      rowRecs F = [{ ord := p.ord, row := p.row, speed := fxSpeed fx p.speed, bpm := fxBpm fx p.bpm,
                     delay := fx.delayOf, t0 := p.time }] ∧
      ticks F = rowFrames fx p.speed * tick (fxBpm fx p.bpm) ∧
      e.runN (rowFrames fx p.speed) p = (e.nextRow (rowEndG e p fx)).map fun p' => (F, p') := by
  have hr0 := render_firstG e p fx hfx hw hfr hd hne
  have hN : 1 ≤ rowFrames fx p.speed := by
    have := fxSpeed_pos fx p.speed hs hw
    simp only [rowFrames]
    exact Nat.mul_pos this (by omega)
  obtain ⟨F, h1, h2, h3, h4⟩ := runN_row_of_first e p (rowFirst e p fx) hr0 hfr hl hN
  exact ⟨F, h1, by rw [h2, recOf_rowFirst], h3, h4⟩

/-- fields of the state handed to `next_row` -/
theorem rowEndG_fields (e : PlayEnv) (p : PlaySt) (fx : Fx) :
    (rowEndG e p fx).ord = p.ord ∧ (rowEndG e p fx).row = p.row ∧
    (rowEndG e p fx).speed = fxSpeed fx p.speed ∧ (rowEndG e p fx).bpm = fxBpm fx p.bpm ∧
    (rowEndG e p fx).pbreak = fxPbreak fx p.pbreak ∧ (rowEndG e p fx).jump = fxJump fx p.jump ∧
    (rowEndG e p fx).loopCount = p.loopCount ∧
    (rowEndG e p fx).endPoint = endAfter e p.ord p.row p.endPoint ∧
    (rowEndG e p fx).time = p.time + tick (fxBpm fx p.bpm) + (rowFrames fx p.speed - 1) * tick (fxBpm fx p.bpm) :=
  ⟨rfl, rfl, rfl, rfl, rfl, rfl, rfl, rfl, rfl⟩

theorem rowEndG_rowdelay (e : PlayEnv) (p : PlaySt) (fx : Fx) : (rowEndG e p fx).rowdelay = p.rowdelay := rfl

theorem rowEndG_time (e : PlayEnv) (p : PlaySt) (fx : Fx) (hw : fx.WF) (hs : 1 ≤ p.speed) :
    (rowEndG e p fx).time = p.time + rowFrames fx p.speed * tick (fxBpm fx p.bpm) := by
  have hN : 1 ≤ rowFrames fx p.speed := by
    have := fxSpeed_pos fx p.speed hs hw
    simp only [rowFrames]
    exact Nat.mul_pos this (by omega)
  rw [(rowEndG_fields e p fx).2.2.2.2.2.2.2.2]
  generalize rowFrames fx p.speed = N at *
  generalize tick (fxBpm fx p.bpm) = T
  have h3 : N = (N - 1) + 1 := by omega
  conv => rhs; rw [h3, Nat.add_mul]
  omega

/-! ## a jump-free stretch inside a pattern -/

/-- has the scan's end point been passed in rows `[row, row+n)` of order `ord` -/
def endHit (e : PlayEnv) (ord row n : Nat) : Int :=
  if ord = e.si.endOrd ∧ row ≤ e.si.endRow ∧ e.si.endRow < row + n then 1 else 0

/-- The player over a jump-free stretch of rows that does not contain the last row of the
pattern.  The scan's end point may lie inside as long as the visit budget is not exhausted. -/
theorem runN_rowsG (e : PlayEnv) (ord : Nat) : ∀ (fxs : List Fx) (rest : List Fx) (row : Nat) (p : PlaySt),
    (e.m.rowsOf (e.m.patOf ord)).drop row = fxs ++ rest → rest ≠ [] →
    (∀ fx ∈ fxs, fx.isJump = false ∧ fx.WF) →
    (ord = e.si.endOrd → row ≤ e.si.endRow → e.si.endRow < row + fxs.length → p.endPoint ≠ 0) →
    p.ord = ord → p.row = row → p.frame = 0 → p.delay = 0 → p.pbreak = false → p.loopCount = 0 → 1 ≤ p.speed →
    p.rowdelay = 0 →
    ∃ F p', e.runN F.length p = some (F, p') ∧ rowRecs F = recSeq ord row fxs p.speed p.bpm p.time ∧
      ticks F = rowsTime fxs p.speed p.bpm ∧
      p'.ord = ord ∧ p'.row = row + fxs.length ∧ p'.frame = 0 ∧ p'.delay = 0 ∧ p'.pbreak = false ∧
      p'.loopCount = 0 ∧ p'.speed = rowsSpeed fxs p.speed ∧ p'.bpm = rowsBpm fxs p.bpm ∧
      p'.time = p.time + rowsTime fxs p.speed p.bpm ∧
      p'.endPoint = p.endPoint - endHit e ord row fxs.length ∧ p'.jump = p.jump ∧ p'.rowdelay = 0 := by
  intro fxs
  induction fxs with
  | nil =>
    intro rest row p _ _ _ _ ho hr hf hd hp hl hs hrd
    refine ⟨[], p, by simp [PlayEnv.runN], by simp [rowRecs, recSeq], by simp [ticks, rowsTime],
      ho, by simp [hr], hf, hd, hp, hl, by simp [rowsSpeed], by simp [rowsBpm], by simp [rowsTime], ?_, rfl, hrd⟩
    have : endHit e ord row ([] : List Fx).length = 0 := by
      simp only [endHit, List.length_nil, Nat.add_zero]
      split
      · omega
      · rfl
    rw [this]; omega
  | cons fx fxs ih =>
    intro rest row p hdrop hrest hfx hend ho hr hf hd hp hl hs hrd
    have grd : (rowEndG e p fx).rowdelay = 0 := by rw [rowEndG_rowdelay]; exact hrd
    have hfx0 := hfx fx (by simp)
    obtain ⟨hget, hdrop', hlt⟩ := getD_of_drop _ row fx (fxs ++ rest) Fx.none (by simpa using hdrop)
    have hfxat : e.fxAt p.ord p.row = fx := by rw [ho, hr]; exact hget
    have hne : ¬ (p.ord = e.si.endOrd ∧ p.row = e.si.endRow ∧ p.endPoint = 0) := by
      intro h
      rw [ho, hr] at h
      exact hend h.1 (by omega) (by simp; omega) h.2.2
    obtain ⟨F1, hlen1, htr1, htk1, hrun1⟩ := runN_rowG e p fx hfxat hfx0.2 hf hd hl hs hne
    obtain ⟨g1, g2, g3, g4, g5, g6, g7, g8, _⟩ := rowEndG_fields e p fx
    have g9 := rowEndG_time e p fx hfx0.2 hs
    have hpb : fxPbreak fx p.pbreak = false := by
      cases fx <;> simp [Fx.isJump] at hfx0 <;> simp [fxPbreak, hp]
    have hjp : fxJump fx p.jump = p.jump := by
      cases fx <;> simp [Fx.isJump] at hfx0 <;> simp [fxJump]
    -- next_row inside the pattern
    have hrowslen : row + 1 < (e.m.rowsOf (e.m.patOf ord)).length := by
      have h1 : ((e.m.rowsOf (e.m.patOf ord)).drop (row + 1)).length = (fxs ++ rest).length := by rw [hdrop']
      have h2 : 0 < rest.length := by cases rest with | nil => exact absurd rfl hrest | cons _ _ => simp
      simp at h1; omega
    obtain ⟨p2, hp2⟩ : ∃ p2 : PlaySt, p2 = { rowEndG e p fx with frame := 0, delay := 0, row := row + 1, rowdelaySet := false } := ⟨_, rfl⟩
    have hnr : e.nextRow (rowEndG e p fx) = some p2 := by
      have hge : ¬ (row + 1 ≥ (e.m.rowsOf (e.m.patOf ord)).length) := by omega
      have hge' : ¬ (row + 1 ≥ (e.m.rowsOf (e.m.patOf (rowEndG e p fx).ord)).length) := by
        rw [g1, ho]; exact hge
      simp only [PlayEnv.nextRow, g5, hpb, Bool.false_eq_true, if_false, grd, if_true, hge', hp2, g2, hr]
    rw [hnr] at hrun1
    simp only [Option.map_some] at hrun1
    have hp2o : p2.ord = ord := by rw [hp2]; show (rowEndG e p fx).ord = ord; rw [g1, ho]
    have hp2s : p2.speed = fxSpeed fx p.speed := by rw [hp2]; exact g3
    have hp2b : p2.bpm = fxBpm fx p.bpm := by rw [hp2]; exact g4
    have hp2t : p2.time = p.time + rowFrames fx p.speed * tick (fxBpm fx p.bpm) := by rw [hp2]; exact g9
    have hp2e : p2.endPoint = endAfter e ord row p.endPoint := by rw [hp2]; show (rowEndG e p fx).endPoint = _; rw [g8, ho, hr]
    have hp2j : p2.jump = p.jump := by rw [hp2]; show (rowEndG e p fx).jump = _; rw [g6, hjp]
    have hp2pb : p2.pbreak = false := by rw [hp2]; show (rowEndG e p fx).pbreak = _; rw [g5, hpb]
    have hp2l : p2.loopCount = 0 := by rw [hp2]; show (rowEndG e p fx).loopCount = _; rw [g7, hl]
    have hs2 : 1 ≤ p2.speed := by rw [hp2s]; exact fxSpeed_pos fx p.speed hs hfx0.2
    have hend2 : ord = e.si.endOrd → row + 1 ≤ e.si.endRow → e.si.endRow < row + 1 + fxs.length → p2.endPoint ≠ 0 := by
      intro h1 h2 h3
      rw [hp2e]
      simp only [endAfter]
      have : ¬ (ord = e.si.endOrd ∧ row = e.si.endRow) := by intro h; omega
      simp only [this, if_false]
      exact hend h1 (by omega) (by simp; omega)
    obtain ⟨F2, p', hrun2, htr2, htk2, h1, h2, h3, h4, h5, h6, h7, h8, h9, h10, h11, h12⟩ := ih rest (row + 1) p2 hdrop' hrest
      (fun f hf => hfx f (by simp [hf])) hend2
      hp2o (by rw [hp2]) (by rw [hp2]) (by rw [hp2]) hp2pb hp2l hs2 (by rw [hp2]; exact grd)
    refine ⟨F1 ++ F2, p', ?_, ?_, ?_, h1, ?_, h3, h4, h5, h6, ?_, ?_, ?_, ?_, ?_, h12⟩
    · rw [List.length_append, hlen1]
      exact runN_add e (rowFrames fx p.speed) p F1 p2 F2.length F2 p' hrun1 hrun2
    · rw [rowRecs_append, htr1, htr2, ho, hr, hp2s, hp2b, hp2t]; simp [recSeq]
    · rw [ticks_append, htk1, htk2, hp2s, hp2b, rowsTime]
    · rw [h2]; simp; omega
    · rw [h7, hp2s, rowsSpeed]
    · rw [h8, hp2b, rowsBpm]
    · rw [h9, hp2t, hp2s, hp2b, rowsTime]; omega
    · rw [h10, hp2e]
      simp only [endAfter, endHit, List.length_cons]
      split <;> split <;> split <;> omega
    · rw [h11, hp2j]

/-! ## a whole pattern: up to the jump row or the last row, then `next_order` -/

theorem rowsTime_append (a b : List Fx) (sp bp : Nat) :
    rowsTime (a ++ b) sp bp = rowsTime a sp bp + rowsTime b (rowsSpeed a sp) (rowsBpm a bp) := by
  induction a generalizing sp bp with
  | nil => simp [rowsTime, rowsSpeed, rowsBpm]
  | cons x xs ih => simp only [List.cons_append, rowsTime, rowsSpeed, rowsBpm, ih]; omega

theorem rowsSpeed_append (a b : List Fx) (sp : Nat) : rowsSpeed (a ++ b) sp = rowsSpeed b (rowsSpeed a sp) := by
  induction a generalizing sp with
  | nil => simp [rowsSpeed]
  | cons x xs ih => simp only [List.cons_append, rowsSpeed, ih]

theorem rowsBpm_append (a b : List Fx) (bp : Nat) : rowsBpm (a ++ b) bp = rowsBpm b (rowsBpm a bp) := by
  induction a generalizing bp with
  | nil => simp [rowsBpm]
  | cons x xs ih => simp only [List.cons_append, rowsBpm, ih]

theorem recSeq_append (ord : Nat) (a b : List Fx) (row sp bp t : Nat) :
    recSeq ord row (a ++ b) sp bp t =
      recSeq ord row a sp bp t ++ recSeq ord (row + a.length) b (rowsSpeed a sp) (rowsBpm a bp) (t + rowsTime a sp bp) := by
  induction a generalizing row sp bp t with
  | nil => simp [recSeq, rowsSpeed, rowsBpm, rowsTime]
  | cons x xs ih =>
    simp only [List.cons_append, recSeq, rowsSpeed, rowsBpm, rowsTime, ih, List.length_cons]
    have e1 : row + 1 + xs.length = row + (xs.length + 1) := by omega
    have e2 : t + rowFrames x sp * tick (fxBpm x bp) + rowsTime xs (fxSpeed x sp) (fxBpm x bp) =
        t + (rowFrames x sp * tick (fxBpm x bp) + rowsTime xs (fxSpeed x sp) (fxBpm x bp)) := by omega
    rw [e1, e2]

theorem rowsSpeed_pos (fxs : List Fx) (sp : Nat) (hw : ∀ fx ∈ fxs, fx.WF) (hs : 1 ≤ sp) : 1 ≤ rowsSpeed fxs sp := by
  induction fxs generalizing sp with
  | nil => simpa [rowsSpeed] using hs
  | cons x xs ih =>
    simp only [rowsSpeed]
    exact ih _ (fun f hf => hw f (by simp [hf])) (fxSpeed_pos x sp hs (hw x (by simp)))

theorem rowsBpm_ge (fxs : List Fx) (b : Nat) (hb : 20 ≤ b) : 20 ≤ rowsBpm fxs b := by
  induction fxs generalizing b with
  | nil => simpa [rowsBpm] using hb
  | cons x xs ih =>
    simp only [rowsBpm]
    exact ih _ (fxBpm_ge x b hb)

/-- `next_order` target after a pattern ends with effect `last` on its final scanned row -/
def nordAfter (ord : Nat) (last : Fx) : Nat :=
  match last with
  | .jump j => j
  | _ => ord + 1

/-- The player through the rest of a pattern: a jump-free stretch `pre`, then the row `last` that is
either a jump row or the last row of the pattern; afterwards `next_row` calls `next_order`. -/
theorem play_pattern (e : PlayEnv) (ord : Nat) (pre : List Fx) (last : Fx) (post : List Fx) (row : Nat) (p : PlaySt)
    (hrows : (e.m.rowsOf (e.m.patOf ord)).drop row = pre ++ last :: post)
    (hpre : ∀ fx ∈ pre, fx.isJump = false ∧ fx.WF) (hlw : last.WF)
    (hlast : last.isJump = true ∨ post = [])
    (hend : ord = e.si.endOrd → row ≤ e.si.endRow → e.si.endRow < row + (pre.length + 1) → p.endPoint ≠ 0)
    (ho : p.ord = ord) (hr : p.row = row) (hf : p.frame = 0) (hd : p.delay = 0) (hp : p.pbreak = false)
    (hj : p.jump = none) (hl : p.loopCount = 0) (hs : 1 ≤ p.speed) (hrd : p.rowdelay = 0) :
    ∃ F sP, e.runN F.length p = (e.enter sP (nordAfter ord last)).map (fun p' => (F, p')) ∧
      rowRecs F = recSeq ord row (pre ++ [last]) p.speed p.bpm p.time ∧
      ticks F = rowsTime (pre ++ [last]) p.speed p.bpm ∧
      sP.delay = 0 ∧ sP.pbreak = false ∧ sP.jump = none ∧ sP.loopCount = 0 ∧
      sP.speed = rowsSpeed (pre ++ [last]) p.speed ∧ sP.bpm = rowsBpm (pre ++ [last]) p.bpm ∧
      sP.time = p.time + rowsTime (pre ++ [last]) p.speed p.bpm ∧
      sP.endPoint = p.endPoint - endHit e ord row (pre.length + 1) ∧ sP.rowdelay = 0 := by
  obtain ⟨F1, p1, hrun1, hrec1, htk1, a1, a2, a3, a4, a5, a6, a7, a8, a9, a10, a11, a12⟩ :=
    runN_rowsG e ord pre (last :: post) row p hrows (by simp) hpre
      (fun h1 h2 h3 => hend h1 h2 (by omega)) ho hr hf hd hp hl hs hrd
  have grd : (rowEndG e p1 last).rowdelay = 0 := by rw [rowEndG_rowdelay]; exact a12
  have hdrop2 : (e.m.rowsOf (e.m.patOf ord)).drop (row + pre.length) = last :: post := by
    have := congrArg (List.drop pre.length) hrows
    rw [List.drop_drop, List.drop_left] at this
    exact this
  obtain ⟨hget, hdrop3, hlt⟩ := getD_of_drop _ (row + pre.length) last post Fx.none hdrop2
  have hfxat : e.fxAt p1.ord p1.row = last := by rw [a1, a2]; exact hget
  have hs1 : 1 ≤ p1.speed := by
    rw [a7]; exact rowsSpeed_pos pre p.speed (fun f hf => (hpre f hf).2) hs
  have hne : ¬ (p1.ord = e.si.endOrd ∧ p1.row = e.si.endRow ∧ p1.endPoint = 0) := by
    intro h
    rw [a1, a2, a10] at h
    have h0 : endHit e ord row pre.length = 0 := by
      simp only [endHit]
      split
      · omega
      · rfl
    rw [h0] at h
    exact hend h.1 (by omega) (by omega) (by omega)
  obtain ⟨F2, hlen2, hrec2, htk2, hrun2⟩ := runN_rowG e p1 last hfxat hlw a3 a4 a6 hs1 hne
  obtain ⟨g1, g2, g3, g4, g5, g6, g7, g8, _⟩ := rowEndG_fields e p1 last
  have g9 := rowEndG_time e p1 last hlw hs1
  -- what `next_row` does
  obtain ⟨sP, hsP⟩ : ∃ sP : PlaySt, sP = { rowEndG e p1 last with frame := 0, delay := 0, pbreak := false, jump := none, row := if last.isJump then p1.row else p1.row + 1, rowdelaySet := if last.isJump then (rowEndG e p1 last).rowdelaySet else false } := ⟨_, rfl⟩
  have hnr : e.nextRow (rowEndG e p1 last) = e.enter sP (nordAfter ord last) := by
    cases hlj : last.isJump with
    | true =>
      obtain ⟨j, hj'⟩ : ∃ j, last = .jump j := by
        cases last <;> simp [Fx.isJump] at hlj
        exact ⟨_, rfl⟩
      subst hj'
      have hpb : (rowEndG e p1 (.jump j)).pbreak = true := by rw [g5]; rfl
      have hjj : (rowEndG e p1 (.jump j)).jump = some j := by rw [g6]; rfl
      simp only [PlayEnv.nextRow, hpb, if_true, hjj, Option.getD_some, nordAfter]
      rw [hsP]; simp [Fx.isJump, g2]
    | false =>
      have hpost : post = [] := by
        rcases hlast with h | h
        · rw [hlj] at h; cases h
        · exact h
      have hpb : (rowEndG e p1 last).pbreak = false := by
        rw [g5, a5]; cases last <;> simp [Fx.isJump] at hlj <;> rfl
      have hjj : (rowEndG e p1 last).jump = none := by
        rw [g6, a11, hj]; cases last <;> simp [Fx.isJump] at hlj <;> rfl
      have hna : nordAfter ord last = ord + 1 := by
        cases last <;> simp [Fx.isJump] at hlj <;> rfl
      have hlenrows : (e.m.rowsOf (e.m.patOf ord)).length = row + pre.length + 1 := by
        have := congrArg List.length hdrop2
        rw [hpost] at this
        simp at this; omega
      have hge : p1.row + 1 ≥ (e.m.rowsOf (e.m.patOf ord)).length := by
        rw [a2, hlenrows]; omega
      simp only [PlayEnv.nextRow, hpb, Bool.false_eq_true, if_false, grd, hna, g1, g2, a1, hge, if_true]
      rw [hsP]
      simp only [hlj, Bool.false_eq_true, if_false, g2]
      refine congrArg (fun s => e.enter s (ord + 1)) ?_
      simp only [PlaySt.mk.injEq, true_and, and_true]
      exact ⟨by rw [g1, a1], hjj, grd.symm⟩
  rw [hnr] at hrun2
  have hrunAll := runN_add' e F1.length p F1 p1 (rowFrames last p1.speed) hrun1
  rw [hrun2, Option.map_map] at hrunAll
  refine ⟨F1 ++ F2, sP, ?_, ?_, ?_, ?_, ?_, ?_, ?_, ?_, ?_, ?_, ?_, by rw [hsP]; exact grd⟩
  · rw [List.length_append, hlen2, hrunAll]; rfl
  · rw [rowRecs_append, hrec1, hrec2, recSeq_append, a1, a2, a7, a8, a9]; simp [recSeq]
  · rw [ticks_append, htk1, htk2, rowsTime_append, a7, a8]; simp [rowsTime]
  · rw [hsP]
  · rw [hsP]
  · rw [hsP]
  · rw [hsP]; show (rowEndG e p1 last).loopCount = 0; rw [g7, a6]
  · rw [hsP]; show (rowEndG e p1 last).speed = _; rw [g3, a7, rowsSpeed_append]; simp [rowsSpeed]
  · rw [hsP]; show (rowEndG e p1 last).bpm = _; rw [g4, a8, rowsBpm_append]; simp [rowsBpm]
  · rw [hsP]; show (rowEndG e p1 last).time = _; rw [g9, a9, rowsTime_append, a7, a8]; simp [rowsTime]; omega
  · rw [hsP]; show (rowEndG e p1 last).endPoint = _
    rw [g8, a10, a1, a2]
    simp only [endAfter, endHit]
    split <;> split <;> split <;> omega

/-! ## the scan through the rest of a pattern (up to the jump row or the last row) -/

theorem rowSeq_append (ord row a b : Nat) : rowSeq ord row (a + b) = rowSeq ord row a ++ rowSeq ord (row + a) b := by
  induction a generalizing row with
  | zero => simp [rowSeq]
  | succ a ih =>
    have e1 : a + 1 + b = (a + b) + 1 := by omega
    rw [e1, rowSeq, rowSeq, ih (row + 1)]
    have e2 : row + 1 + a = row + (a + 1) := by omega
    rw [e2]; simp

theorem rowsDone_nil (ord row : Nat) (st : ScanSt) : RowsDone ord row [] st st := by
  constructor <;> simp [rowsTime, rowsSpeed, rowsBpm, rowSeq, recSeq]
  intro r h1 h2; omega

theorem rowsDone_single (ord row : Nat) (fx : Fx) (st : ScanSt) (hw : fx.WF)
    (hf0 : cntAt st.cnt ord row = 0) (hlen : ord < st.cnt.length) (hrl : row < (st.cnt.getD ord []).length) :
    RowsDone ord row [fx] st (visitStep ord row fx st) := by
  obtain ⟨hrs, hsp, hbp⟩ := visitStep_eq_scanStep ord row fx st
  have hsp' : (visitStep ord row fx st).speed = fxSpeed fx st.speed := by rw [hsp, scanStep_speed]
  have hbp' : (visitStep ord row fx st).bpm = fxBpm fx st.bpm := by rw [hbp, scanStep_bpm _ _ hw]
  have hrs' : (visitStep ord row fx st).rowStart = st.rowStart + rowFrames fx st.speed * tick (fxBpm fx st.bpm) := by
    rw [hrs, scanStep_rowStart _ _ hw]
  constructor
  · rw [hrs', rowsTime, rowsTime]; omega
  · rw [hsp', rowsSpeed, rowsSpeed]
  · rw [hbp', rowsBpm, rowsBpm]
  · rw [visitStep_ctl]
  · rw [visitStep_info]
  · rw [visitStep_startTime]
  · rw [visitStep_cnt _ _ _ _ hw, cntInc_length]
  · intro o; rw [visitStep_cnt _ _ _ _ hw, cntInc_row_length]
  · intro o r h
    simp only [List.length_cons, List.length_nil] at h
    rw [visitStep_cnt _ _ _ _ hw, cntAt_cntInc_ne]
    omega
  · intro r h1 h2
    simp only [List.length_cons, List.length_nil] at h2
    have : r = row := by omega
    subst this
    rw [visitStep_cnt _ _ _ _ hw, cntAt_cntInc_eq _ _ _ hlen hrl, hf0]
  · rw [visitStep_trace]; simp [rowSeq]
  · rw [visitStep_trace_full _ _ _ _ hw]; simp [recSeq]
  · rw [visitStep_rct]; simp
  · rw [visitStep_endMark]
  · intro _; exact ⟨visitStep_anyValid .., visitStep_osv ..⟩
  · intro h; simp at h

theorem rowsDone_append (ord row : Nat) (a b : List Fx) (st st1 st2 : ScanSt)
    (h1 : RowsDone ord row a st st1) (h2 : RowsDone ord (row + a.length) b st1 st2) :
    RowsDone ord row (a ++ b) st st2 := by
  constructor
  · rw [h2.rowStart, h1.rowStart, h1.speed, h1.bpm, rowsTime_append]; omega
  · rw [h2.speed, h1.speed, rowsSpeed_append]
  · rw [h2.bpm, h1.bpm, rowsBpm_append]
  · rw [h2.ctl, h1.ctl]
  · rw [h2.info, h1.info]
  · rw [h2.startTime, h1.startTime]
  · rw [h2.cntLen, h1.cntLen]
  · intro o; rw [h2.rowLen, h1.rowLen]
  · intro o r h
    rw [List.length_append] at h
    rw [h2.other o r (by omega), h1.other o r (by omega)]
  · intro r h3 h4
    rw [List.length_append] at h4
    by_cases hr : r < row + a.length
    · rw [h2.other ord r (by omega)]; exact h1.visited r h3 hr
    · exact h2.visited r (by omega) (by omega)
  · rw [h2.trace, h1.trace, List.length_append, rowSeq_append]; simp
  · rw [h2.recs, h1.recs, recSeq_append, h1.speed, h1.bpm, h1.rowStart]; simp
  · rw [h2.rct, h1.rct, List.length_append]; omega
  · rw [h2.endMark, h1.endMark]
  · intro hne
    by_cases hb : b = []
    · subst hb
      rw [h2.same rfl]
      exact h1.valid (by simpa using hne)
    · exact h2.valid hb
  · intro h
    have ha : a = [] := by cases a <;> simp at h ⊢
    have hb : b = [] := by cases b <;> simp at h ⊢
    rw [h2.same hb, h1.same ha]

/-- `ord2` after the rows -/
def ord2After (last : Fx) : Option Nat :=
  match last with
  | .jump j => some j
  | _ => none

theorem nordAfter_eq (ord : Nat) (last : Fx) : nordAfter ord last = (ord2After last).getD (ord + 1) := by
  cases last <;> rfl

/-- The scan through the rest of a pattern whose rows from `row` on are all unvisited. -/
theorem scan_pattern (ord : Nat) (pre : List Fx) (last : Fx) (post : List Fx) (row : Nat) (st : ScanSt)
    (hpre : ∀ fx ∈ pre, fx.isJump = false ∧ fx.WF) (hlw : last.WF)
    (hlast : last.isJump = true ∨ post = [])
    (hfresh : ∀ r, row ≤ r → cntAt st.cnt ord r = 0) (hb : 20 ≤ st.bpm)
    (hlen : ord < st.cnt.length) (hrl : row + (pre.length + 1) ≤ (st.cnt.getD ord []).length)
    (hgl : st.rowCountTotal + (pre.length + 1) ≤ rowLimit + 1) :
    ∃ st', scanRows ord (pre ++ last :: post) row st = .done st' (ord2After last) ∧
      RowsDone ord row (pre ++ [last]) st st' := by
  obtain ⟨st1, he1, hd1⟩ := scanRows_nojump_app ord (last :: post) pre row st hpre hfresh hb hlen (by omega) (by omega)
  have hg1 : st1.rowCountTotal ≤ rowLimit := by rw [hd1.rct]; omega
  have hb1 : 20 ≤ st1.bpm := by rw [hd1.bpm]; exact rowsBpm_ge _ _ hb
  have hf1 : cntAt st1.cnt ord (row + pre.length) = 0 := by
    rw [hd1.other ord _ (by omega)]; exact hfresh _ (by omega)
  have hlen1 : ord < st1.cnt.length := by rw [hd1.cntLen]; exact hlen
  have hrl1 : row + pre.length < (st1.cnt.getD ord []).length := by rw [hd1.rowLen]; omega
  have hsingle := rowsDone_single ord (row + pre.length) last st1 hlw hf1 hlen1 hrl1
  refine ⟨visitStep ord (row + pre.length) last st1, ?_, rowsDone_append ord row pre [last] st st1 _ hd1 hsingle⟩
  rw [he1]
  cases hlj : last.isJump with
  | true =>
    obtain ⟨j, hj'⟩ : ∃ j, last = .jump j := by
      cases last <;> simp [Fx.isJump] at hlj
      exact ⟨_, rfl⟩
    subst hj'
    rw [scanRows_cons_jump ord j post _ st1 hb1 hf1 hg1]; rfl
  | false =>
    have hpost : post = [] := by
      rcases hlast with h | h
      · rw [hlj] at h; cases h
      · exact h
    subst hpost
    rw [scanRows_cons_fresh ord last [] _ st1 hb1 hf1 hlj hg1]
    have : ord2After last = none := by cases last <;> simp [Fx.isJump] at hlj <;> rfl
    rw [this]; simp [scanRows]

/-- every WF pattern splits at its first jump row (or at its last row) -/
theorem split_pattern : ∀ (rows : List Fx), rows ≠ [] → (∀ fx ∈ rows, fx.WF) →
    ∃ pre last post, rows = pre ++ last :: post ∧ (∀ fx ∈ pre, fx.isJump = false ∧ fx.WF) ∧ last.WF ∧
      (last.isJump = true ∨ post = []) := by
  intro rows
  induction rows with
  | nil => intro h; exact absurd rfl h
  | cons x xs ih =>
    intro _ hw
    cases hx : x.isJump with
    | true => exact ⟨[], x, xs, rfl, by simp, hw x (by simp), Or.inl hx⟩
    | false =>
      by_cases hxs : xs = []
      · subst hxs
        exact ⟨[], x, [], rfl, by simp, hw x (by simp), Or.inr rfl⟩
      · obtain ⟨pre, last, post, h1, h2, h3, h4⟩ := ih hxs (fun f hf => hw f (by simp [hf]))
        refine ⟨x :: pre, last, post, by rw [h1]; rfl, ?_, h3, h4⟩
        intro f hf
        rcases List.mem_cons.mp hf with h | h
        · subst h; exact ⟨hx, hw _ (by simp)⟩
        · exact h2 f h

end Xmp.LinFlow
