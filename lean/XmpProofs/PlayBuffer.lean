import XmpModel.PlayBuffer
/-! Helper lemmas for C12 (`xmp_play_buffer`). Core Lean only. -/
namespace Xmp.PlayBuffer

/-- bytes of frames `idx … n-1` -/
def future (frames : Nat → Frame) (n idx : Nat) : Bytes :=
  (List.range' idx (n - idx)).flatMap (fun i => (frames i).bytes)

/-- what is still to be delivered: rest of the current frame, then later frames -/
def rem (frames : Nat → Frame) (n : Nat) (st : St) : Bytes :=
  st.buf.drop st.consumed ++ future frames n st.idx

/-- frames before `n` do not terminate and carry data (`buffer_size > 0`,
cf. C16: a tick is at least 8 sample frames) -/
def Pre (frames : Nat → Frame) (loop : Int) (n : Nat) : Prop :=
  ∀ i, i < n → terminating loop (frames i) = false ∧ (frames i).bytes ≠ []

/-- `n` is a terminating frame and the end is absorbing: every later
`xmp_play_frame` reports the end again / the loop counter never decreases -/
def Post (frames : Nat → Frame) (loop : Int) (n : Nat) : Prop :=
  ∀ i, n ≤ i → terminating loop (frames i) = true

def Live (n : Nat) (st : St) : Prop := st.idx ≤ n ∧ st.consumed ≤ st.buf.length
def Done (n : Nat) (st : St) : Prop := n ≤ st.idx ∧ st.consumed = st.buf.length

theorem future_self (frames : Nat → Frame) (n : Nat) : future frames n n = [] := by
  simp [future]

theorem future_ge (frames : Nat → Frame) (n i : Nat) (h : n ≤ i) : future frames n i = [] := by
  have : n - i = 0 := by omega
  simp [future, this]

theorem future_succ (frames : Nat → Frame) (n i : Nat) (h : i < n) :
    future frames n i = (frames i).bytes ++ future frames n (i + 1) := by
  unfold future
  have : n - i = (n - (i + 1)) + 1 := by omega
  rw [this, List.range'_succ]
  simp

/-- The outcome of the fill loop, as a relation on (out, ret, st'). -/
def Outcome (frames : Nat → Frame) (n : Nat) (R : Bytes) (need : Nat) (out : Bytes)
    (r : Bytes × Int × St) : Prop :=
  if need ≤ R.length then
    r.1 = out ++ R.take need ∧ r.2.1 = 0 ∧ Live n r.2.2 ∧ rem frames n r.2.2 = R.drop need
  else if out = [] ∧ R = [] then
    r.1 = [] ∧ r.2.1 = -1 ∧ Done n r.2.2
  else
    r.1 = out ++ R ++ List.replicate (need - R.length) 0 ∧ r.2.1 = 0 ∧ Done n r.2.2

/-- One copy step of `k ≥ 1` bytes preserves the outcome relation. -/
theorem outcome_step (frames : Nat → Frame) (n : Nat) (R out : Bytes) (k need : Nat)
    (r : Bytes × Int × St) (hk1 : 1 ≤ k) (hk2 : k ≤ need) (hkR : k ≤ R.length)
    (h : Outcome frames n (R.drop k) (need - k) (out ++ R.take k) r) :
    Outcome frames n R need out r := by
  unfold Outcome at *
  simp only [List.length_drop] at h
  by_cases h1 : need ≤ R.length
  · have h1' : need - k ≤ R.length - k := by omega
    simp only [h1, h1', if_true] at h ⊢
    obtain ⟨a, b', c, d⟩ := h
    refine ⟨?_, b', c, ?_⟩
    · rw [a, List.append_assoc]
      congr 1
      have : need = k + (need - k) := by omega
      conv => rhs; rw [this, List.take_add]
    · rw [d, List.drop_drop]; congr 1; omega
  · have h1' : ¬ need - k ≤ R.length - k := by omega
    simp only [h1, h1', if_false] at h ⊢
    have hRne : R ≠ [] := by
      intro e; rw [e] at hkR; simp at hkR; omega
    have h2 : ¬ (out ++ List.take k R = [] ∧ List.drop k R = []) := by
      intro ⟨e, _⟩
      have e2 := (List.append_eq_nil_iff.mp e).2
      have := congrArg List.length e2
      rw [List.length_take] at this
      simp only [List.length_nil] at this
      omega
    have h3 : ¬ (out = [] ∧ R = []) := fun ⟨_, e⟩ => hRne e
    simp only [h2, h3, if_false] at h ⊢
    obtain ⟨a, b', c⟩ := h
    refine ⟨?_, b', c⟩
    rw [a]
    have e1 : need - k - (R.length - k) = need - R.length := by omega
    rw [e1]
    simp only [List.append_assoc]
    congr 1
    rw [← List.append_assoc, List.take_append_drop]

theorem fillLoop_spec (frames : Nat → Frame) (loop : Int) (n : Nat) (H : Pre frames loop n) :
    ∀ (fuel : Nat) (st : St) (need : Nat) (out : Bytes), need ≤ fuel → Live n st →
      (need ≤ (rem frames n st).length ∨ Post frames loop n) →
      Outcome frames n (rem frames n st) need out (fillLoop frames loop fuel st need out) := by
  intro fuel
  induction fuel with
  | zero =>
    intro st need out hf hl _
    have : need = 0 := by omega
    subst this
    simp [Outcome, fillLoop, hl]
  | succ fuel ih =>
    intro st need out hf hl hfin
    unfold fillLoop
    by_cases hn : need = 0
    · subst hn
      simp [Outcome, hl]
    · simp only [hn, if_false]
      by_cases hc : st.consumed = st.buf.length
      · simp only [hc, if_true]
        have hrem : rem frames n st = future frames n st.idx := by
          simp [rem, hc]
        by_cases hi : st.idx = n
        · -- next frame terminates
          have hR : rem frames n st = [] := by rw [hrem, hi, future_self]
          have hpost : Post frames loop n := by
            rcases hfin with h | h
            · rw [hR] at h; simp at h; exact absurd h hn
            · exact h
          have ht := hpost st.idx (by omega)
          simp only [ht, if_true]
          rw [hR]
          by_cases ho : out = []
          · subst ho
            simp [Outcome, hn, Done, hi]
          · have : out.isEmpty = false := by
              cases out with
              | nil => exact absurd rfl ho
              | cons _ _ => rfl
            simp [Outcome, hn, this, ho, Done, hi]
        · have hlt : st.idx < n := by have := hl.1; omega
          obtain ⟨hnt, hne⟩ := H st.idx hlt
          simp only [hnt]
          have hb : 0 < (frames st.idx).bytes.length := by
            cases hb' : (frames st.idx).bytes with
            | nil => exact absurd hb' hne
            | cons _ _ => simp
          generalize hbdef : (frames st.idx).bytes = b at *
          show Outcome frames n (rem frames n st) need out
            (fillLoop frames loop fuel { idx := st.idx + 1, buf := b, consumed := min need b.length }
              (need - min need b.length) (out ++ b.take (min need b.length)))
          generalize hkdef : min need b.length = k
          have hk1 : 1 ≤ k := by rw [← hkdef]; exact Nat.le_min.mpr ⟨by omega, hb⟩
          have hk2 : k ≤ need := by rw [← hkdef]; exact Nat.min_le_left _ _
          have hk3 : k ≤ b.length := by rw [← hkdef]; exact Nat.min_le_right _ _
          have hR : rem frames n st = b ++ future frames n (st.idx + 1) := by
            rw [hrem, future_succ frames n st.idx hlt, hbdef]
          have hl1 : Live n { idx := st.idx + 1, buf := b, consumed := k } := ⟨by simp; omega, hk3⟩
          have hR1 : rem frames n { idx := st.idx + 1, buf := b, consumed := k }
              = (rem frames n st).drop k := by
            rw [hR]
            simp only [rem]
            rw [List.drop_append_of_le_length hk3]
          have hout : out ++ b.take k = out ++ (rem frames n st).take k := by
            rw [hR, List.take_append_of_le_length hk3]
          have := ih { idx := st.idx + 1, buf := b, consumed := k } (need - k) (out ++ b.take k)
            (by omega) hl1 (by
              rcases hfin with h | h
              · left; rw [hR1, List.length_drop]; omega
              · right; exact h)
          rw [hR1, hout] at this
          rw [hout]
          exact outcome_step frames n _ out k need _ hk1 hk2 (by rw [hR]; simp; omega) this
      · simp only [hc, if_false]
        have hlt : st.consumed < st.buf.length := by have := hl.2; omega
        show Outcome frames n (rem frames n st) need out
          (fillLoop frames loop fuel { st with consumed := st.consumed + min need (st.buf.length - st.consumed) }
            (need - min need (st.buf.length - st.consumed))
            (out ++ (st.buf.drop st.consumed).take (min need (st.buf.length - st.consumed))))
        generalize hkdef : min need (st.buf.length - st.consumed) = k
        have hk1 : 1 ≤ k := by rw [← hkdef]; exact Nat.le_min.mpr ⟨by omega, by omega⟩
        have hk2 : k ≤ need := by rw [← hkdef]; exact Nat.min_le_left _ _
        have hk3 : k ≤ st.buf.length - st.consumed := by rw [← hkdef]; exact Nat.min_le_right _ _
        have hl1 : Live n { st with consumed := st.consumed + k } := ⟨hl.1, by simp; omega⟩
        have hR1 : rem frames n { st with consumed := st.consumed + k } = (rem frames n st).drop k := by
          simp only [rem]
          rw [List.drop_append_of_le_length (by simp; omega), List.drop_drop]
        have hout : out ++ (st.buf.drop st.consumed).take k = out ++ (rem frames n st).take k := by
          simp only [rem]
          rw [List.take_append_of_le_length (by simp; omega)]
        have := ih { st with consumed := st.consumed + k } (need - k)
          (out ++ (st.buf.drop st.consumed).take k) (by omega) hl1 (by
            rcases hfin with h | h
            · left; rw [hR1, List.length_drop]; omega
            · right; exact h)
        rw [hR1, hout] at this
        rw [hout]
        exact outcome_step frames n _ out k need _ hk1 hk2 (by simp [rem]; omega) this

/-- Once the end has been met every further non-empty request reports the end
and writes nothing. -/
theorem fillLoop_done (frames : Nat → Frame) (loop : Int) (n : Nat) (H : Post frames loop n)
    (fuel : Nat) (st : St) (need : Nat) (hd : Done n st) (hn : 0 < need) :
    (fillLoop frames loop (fuel + 1) st need []).1 = [] ∧
    (fillLoop frames loop (fuel + 1) st need []).2.1 = -1 ∧
    Done n (fillLoop frames loop (fuel + 1) st need []).2.2 := by
  unfold fillLoop
  have h0 : need ≠ 0 := by omega
  have ht := H st.idx hd.1
  have h1 := hd.1
  simp [h0, hd.2, ht, Done]
  omega

end Xmp.PlayBuffer
